import Infretis.Lemmas.MovesRat
import Infretis.Lemmas.MovesMember
import Infretis.Lemmas.MovesWitness
import Infretis.Lemmas.MovesWfB
import Infretis.Lemmas.MovesTable
import Infretis.Lemmas.MovesWfW
import Infretis.Lemmas.MovesOwn
import Infretis.Lemmas.MovesTime
import Infretis.Lemmas.MovesTimeLink
/-!
# C09 — accepted paths belong to their ensemble; rejections change nothing

Property theorems only; helper lemmas live in `Infretis/Lemmas/Moves*.lean`.
Model: `Infretis/Model/Moves.lean` (`shoot`, mirrors tis.py `shoot`, `prepare_shooting_point`,
`check_kick`, `shoot_backwards`, `paste_paths`, `check_interfaces`) on top of the shared
`Infretis/Model/AddToPath.lean` (`add_to_path`, `Path.append`).
All statements hold for order sequences, engine streams and limits of any size.

VARIANTS.  `Variant.repaired` is the code as it is since /repo commit f955162 (`add_to_path`: `if
path.length == path.maxlen and not success`); for it the shared model `Engine.addToPath` and
`addToPathV .repaired` coincide (`addToPathV_repaired_eq_shared`) and the property's own threshold
holds: `shoot_threshold : accept ↔ ξ ≤ n_old/n_new`.
`Variant.asIs` is the code BEFORE that commit, kept as the historical record of the finding:
`add_to_path` reported failure whenever `length == maxlen` even if that very frame crossed an
interface, so the rule was `L_new + 1 ≤ maxlen` (`shoot_accept_iff`), not `ξ ≤ n_old/n_new`:
`shoot_threshold_counterexample`, `shoot_threshold_partial`.  A regression to `asIs` is reported by
the tie under the signature `C09:shoot:length-eq-maxlen-rejected`.
The membership / draw / rejection theorems hold for both variants (they are stated for any `v`).
-/
namespace Infretis.C09
open Infretis.Moves Infretis.Engine

/-- the variant model of `add_to_path` is the shared model for `repaired` (= the code) -/
theorem addToPathV_repaired_eq_shared (ops : List Int) (ml : Option Nat) (x l r : Int) :
    addToPathV .repaired ops ml x l r = addToPath ops ml x l r := addToPathV_repaired ops ml x l r

theorem feedV_repaired_eq_shared (l r : Int) (ml : Option Nat) (s ops : List Int) (k : Nat) :
    feedV .repaired l r ml ops s k = feed l r ml ops s k := feedV_repaired l r ml s ops k

example : addToPathV .repaired [1, 2] (some 3) 5 0 4 = addToPath [1, 2] (some 3) 5 0 4
    ∧ (addToPath [1, 2] (some 3) 5 0 4).map (·.2.success) = some true
    ∧ (addToPathV .asIs [1, 2] (some 3) 5 0 4).map (·.2.success) = some false := by decide

/-! ### acceptance is reported exactly with status ACC -/

theorem accept_iff_status_acc (v : Variant) (i : ShootIn) (o : ShootOut) (h : shoot v i = .ok o) :
    o.accept = true ↔ o.status = .ACC := shoot_accept_status v i o h

/-- a concrete accepted move and a concrete rejected one (`exIn`, evaluated in Lemmas/MovesWitness.lean) -/
example : ∃ o, shoot .repaired exIn = .ok o ∧ o.accept = true ∧ o.status = .ACC ∧ o.trial = [-1, 3, 2, 2, 5] := by
  have h := exIn_eval
  cases hs : shoot .repaired exIn with
  | error e => rw [hs] at h; cases h
  | ok o => rw [hs] at h; simp only [Except.toOption, Option.some.injEq] at h; subst h; exact ⟨_, rfl, rfl, rfl, rfl⟩

example : ∃ o, shoot .repaired { exIn with forw := [2, 2, 2] } = .ok o ∧ o.accept = false ∧ o.status = .FTL := by
  have h := exIn_reject_eval
  cases hs : shoot .repaired { exIn with forw := [2, 2, 2] } with
  | error e => rw [hs] at h; cases h
  | ok o => rw [hs] at h; simp only [Except.toOption, Option.some.injEq] at h; subst h; exact ⟨_, rfl, rfl, rfl⟩

/-! ### shooting points are never end points -/

/-- every completed call requested exactly `integers(1, L−1)` first (then at most one `random()`),
    and the index it used is an interior index of the old path -/
theorem shooting_point_interior (v : Variant) (i : ShootIn) (o : ShootOut) (h : shoot v i = .ok o) :
    (o.draws = [.integers 1 ((i.old.length : Int) - 1)] ∨
      o.draws = [.integers 1 ((i.old.length : Int) - 1), .random]) ∧
    o.genIdx = i.idx ∧ 1 ≤ o.genIdx ∧ o.genIdx + 2 ≤ i.old.length := by
  have hd : ∀ maxlen d2, drawMaxlen i = .ok (maxlen, d2) → d2 = [] ∨ d2 = [.random] := by
    intro maxlen d2 hd
    unfold drawMaxlen at hd
    repeat' split at hd
    all_goals first
      | (cases hd; done)
      | (simp only [Except.ok.injEq, Prod.mk.injEq] at hd; simp [← hd.2])
  unfold shoot at h
  simp only at h
  repeat' split at h
  all_goals first
    | (cases h; done)
    | (simp only [Except.ok.injEq] at h; subst h
       first
         | (simp; omega)
         | (rcases hd _ _ (by assumption) with h1 | h1 <;> simp [h1] <;> omega))

example : (shoot .repaired exIn).toOption.map (fun o => (o.draws, o.genIdx))
    = some ([.integers 1 3, .random], 2) := by rw [exIn_eval]; rfl

/-! ### accepted paths belong to their ensemble -/

/-- **Membership.** If `shoot` returns `ACC`, the trial path is
    `xB :: reverse(preB) ++ kick :: preF ++ [xF]` where `preB ++ [xB]` / `preF ++ [xF]` are the
    values the engine produced backward / forward (in order: "ordered in time"), and
    * the first frame `xB` is strictly outside on a side the start condition allows,
    * the last frame `xF` is strictly outside,
    * every other frame, the shooting point included, is inside `[l, r]` (the code's "inside":
      not `< l`, not `> r`), the shooting point even in `[l, r)`,
    * if `L` is not allowed, neither end lies at or below the lowest interface,
    * the path crosses the middle interface (`min < m ≤ max`, which is what gives it weight 1 in
      its own ensemble) unless the effective start condition is `{L, R}`,
    * its length is between 3 and `maxlength`,
    * `generated = ("sh", kick, idx, nb)` with `trial[nb] = kick`, `nb` and `idx` interior indices,
    * `time_origin = old.time_origin + idx − nb`,
    and `accept` is `True`. -/
theorem shoot_acc_member (v : Variant) (i : ShootIn) (o : ShootOut) (h : shoot v i = .ok o)
    (hs : o.status = .ACC) :
    ∃ (preB preF restB restF : List Int) (xB xF : Int),
      i.back = preB ++ xB :: restB ∧ i.forw = preF ++ xF :: restF ∧
      o.trial = xB :: (preB.reverse ++ i.kick :: (preF ++ [xF])) ∧
      ((xB < i.l ∧ i.sc.hasL = true) ∨ (i.r < xB ∧ i.sc.hasR = true)) ∧
      (xF < i.l ∨ i.r < xF) ∧
      (∀ y ∈ preB.reverse ++ i.kick :: preF, i.l ≤ y ∧ y ≤ i.r) ∧ i.kick < i.r ∧
      (i.sc.hasL = false → min3 i.l i.m i.r < xB ∧ min3 i.l i.m i.r < xF) ∧
      (((effSc i).hasL = true ∧ (effSc i).hasR = true) ∨
        ((∃ y ∈ o.trial, y < i.m) ∧ ∃ y ∈ o.trial, i.m ≤ y)) ∧
      3 ≤ o.trial.length ∧ o.trial.length ≤ i.maxlength ∧
      o.genNb = preB.length + 1 ∧ o.trial[o.genNb]? = some i.kick ∧ o.genNb + 2 ≤ o.trial.length ∧
      o.genSp = i.kick ∧ o.genIdx = i.idx ∧ 1 ≤ i.idx ∧ i.idx + 2 ≤ i.old.length ∧
      o.timeOrigin = i.oldTimeOrigin + i.idx - o.genNb ∧ o.accept = true := by
  obtain ⟨preB, preF, restB, restF, xB, xF, hB, hF, htr, hstart, h0L, hcross, hlen, hnb, hsp, hidx, hi1, hi2,
    hk1, hk2, hlr, hto, hacc⟩ := shoot_acc_structure v i o h hs
  have htr' : o.trial = xB :: (preB.reverse ++ i.kick :: (preF ++ [xF])) := by
    rw [htr]; simp [fullTrial]
  refine ⟨preB, preF, restB, restF, xB, xF, hB.eq, hF.eq, htr', hstart, hF.outside, ?_, hk2, h0L, hcross,
    by rw [htr']; simp; omega, hlen, hnb, ?_, by rw [htr', hnb]; simp, hsp, hidx, hi1, hi2, hto, hacc⟩
  · intro y hy
    simp only [List.mem_append, List.mem_reverse, List.mem_cons] at hy
    rcases hy with hy | hy | hy
    · exact hB.inside y hy
    · subst hy; omega
    · exact hF.inside y hy
  · rw [htr', hnb]
    have : (xB :: (preB.reverse ++ i.kick :: (preF ++ [xF]))) = (xB :: preB.reverse) ++ i.kick :: (preF ++ [xF]) := by
      simp
    rw [this, List.getElem?_append_right (by simp)]
    simp

example : (shoot .repaired exIn).toOption.map (·.status) = some .ACC := by rw [exIn_eval]; rfl

/-- **Weight in the own ensemble.** The `sh` entry of `calc_cv_vector` for the ensemble's own interface
    `m` is `1 if m ≤ ordermax else 0` (`WF.cvVectorGo`); for an accepted path of an ensemble whose
    effective start condition is not `{L, R}` it is 1. -/
theorem shoot_acc_weight_nonzero (v : Variant) (i : ShootIn) (o : ShootOut) (h : shoot v i = .ok o)
    (hs : o.status = .ACC) (hsc : ¬ ((effSc i).hasL = true ∧ (effSc i).hasR = true)) :
    ∃ pmax, WF.maxOf o.trial = some pmax ∧ (if i.m ≤ pmax then 1 else 0) = 1 := by
  obtain ⟨preB, preF, restB, restF, xB, xF, _, _, htr, _, _, _, _, _, hcross, _⟩ := shoot_acc_member v i o h hs
  rcases hcross with hc | ⟨_, hc⟩
  · exact absurd hc hsc
  · rw [htr] at hc ⊢
    refine ⟨_, rfl, ?_⟩
    exact if_pos ((maxOf_ge _ _ i.m rfl).2 hc)

example : ¬ ((effSc exIn).hasL = true ∧ (effSc exIn).hasR = true) := by decide

/-! ### the acceptance rule -/

/-- A shooting trial whose trajectories reach the interfaces: old path with interior points, an
    interior shooting index, a kick that stays inside, both engine streams leave `[l, r]`
    (after `preB` / `preF` inside frames), and the completed path
    `fullTrial = xB :: reverse(preB) ++ kick :: preF ++ [xF]` is a path of the ensemble (starts on an
    allowed side, passes the `0-L` and `NCR` checks). -/
structure ReachingTrial (i : ShootIn) (preB preF restB restF : List Int) (xB xF : Int) : Prop where
  hL : 3 ≤ i.old.length
  hidx1 : 1 ≤ i.idx
  hidx2 : i.idx + 2 ≤ i.old.length
  hk1 : i.l ≤ i.kick
  hk2 : i.kick < i.r
  hB : Reaches i.l i.r i.back preB xB restB
  hF : Reaches i.l i.r i.forw preF xF restF
  hside : sideIn (WF.endPoint i.l i.r xB) i.sc = true
  hshape : finalChecks i (fullTrial i.kick preB xB preF xF) = (true, .ACC)

/-- **Exact characterisation (any way the limit is obtained).** With `maxlen` the limit shoot computed,
    a reaching trial of `L_new = |preB| + |preF| + 3` frames is accepted iff
    `L_new + 1 ≤ maxlen` (as-is) resp. `L_new ≤ maxlen` (repaired). -/
theorem shoot_accept_iff_limit (v : Variant) (i : ShootIn) (maxlen : Nat) (d2 : List Draw)
    (preB preF restB restF : List Int) (xB xF : Int) (T : ReachingTrial i preB preF restB restF xB xF)
    (hd : drawMaxlen i = .ok (maxlen, d2)) :
    Accepts v i ↔ preB.length + preF.length + 3 + slack v ≤ maxlen :=
  shoot_accept_iff_maxlen v i maxlen d2 preB preF restB restF xB xF T.hL T.hidx1 T.hidx2 T.hk1 T.hk2 hd
    T.hB T.hF T.hside T.hshape

/-- **Exact characterisation with the drawn ξ.** `maxlen = min(⌊(L_old−2)/ξ⌋ + 2, maxlength)`, so the
    as-is code accepts iff `L_new + 1 ≤ min(⌊(L_old−2)/ξ⌋ + 2, maxlength)`. -/
theorem shoot_accept_iff (v : Variant) (i : ShootIn)
    (preB preF restB restF : List Int) (xB xF : Int) (T : ReachingTrial i preB preF restB restF xB xF)
    (hld : i.genLd = false) (ham : i.allowMax = false) (hxi : 0 < i.xi) :
    Accepts v i ↔ preB.length + preF.length + 3 + slack v
      ≤ min (((((i.old.length : Int) - 2 : Int) : Rat) / i.xi).floor.toNat + 2) i.maxlength :=
  shoot_accept_iff_limit v i _ _ preB preF restB restF xB xF T (drawMaxlen_xi i hld ham hxi)

/-- in terms of ξ: with `n_old = L_old − 2`, `n_new = L_new − 2 = |preB| + |preF| + 1` and the absolute
    limit not binding, the as-is code accepts iff `ξ ≤ n_old / (n_new + 1)`; the repaired one iff
    `ξ ≤ n_old / n_new` -/
theorem shoot_accept_iff_xi (v : Variant) (i : ShootIn)
    (preB preF restB restF : List Int) (xB xF : Int) (T : ReachingTrial i preB preF restB restF xB xF)
    (hld : i.genLd = false) (ham : i.allowMax = false) (hxi : 0 < i.xi)
    (hML : preB.length + preF.length + 3 + slack v ≤ i.maxlength) :
    Accepts v i ↔ i.xi ≤ ((i.old.length : Rat) - 2) / ((preB.length + preF.length + 1 + slack v : Nat) : Rat) := by
  rw [shoot_accept_iff v i preB preF restB restF xB xF T hld ham hxi]
  have hL := T.hL
  have ha : (0 : Int) ≤ (i.old.length : Int) - 2 := by omega
  have h1 : preB.length + preF.length + 3 + slack v
      ≤ min (((((i.old.length : Int) - 2 : Int) : Rat) / i.xi).floor.toNat + 2) i.maxlength ↔
      preB.length + preF.length + 1 + slack v ≤ ((((i.old.length : Int) - 2 : Int) : Rat) / i.xi).floor.toNat := by
    omega
  have hpos : (0 : Rat) < ((preB.length + preF.length + 1 + slack v : Nat) : Rat) := by
    exact_mod_cast Nat.succ_pos _ |>.trans_le (by omega : 1 ≤ preB.length + preF.length + 1 + slack v)
  rw [h1, le_floor_toNat_iff _ _ _ ha hxi, le_div_iff₀ hpos]
  push_cast
  rfl

/-- **The property's threshold — holds for the code as it is (`repaired`).** A shooting trial whose trajectories
    reach the interfaces (and fits the absolute limit) is accepted exactly when the drawn number is at
    most `n_old / n_new`. -/
theorem shoot_threshold (i : ShootIn)
    (preB preF restB restF : List Int) (xB xF : Int) (T : ReachingTrial i preB preF restB restF xB xF)
    (hld : i.genLd = false) (ham : i.allowMax = false) (hxi : 0 < i.xi)
    (hML : preB.length + preF.length + 3 ≤ i.maxlength) :
    Accepts .repaired i ↔ i.xi ≤ ((i.old.length : Rat) - 2) / ((preB.length + preF.length + 1 : Nat) : Rat) := by
  have := shoot_accept_iff_xi .repaired i preB preF restB restF xB xF T hld ham hxi (by simpa [slack] using hML)
  simpa [slack] using this

theorem wit_reaching : ReachingTrial wit [2] [2, 2] [] [] (-1) 5 where
  hL := by decide
  hidx1 := by decide
  hidx2 := by decide
  hk1 := by decide
  hk2 := by decide
  hB := ⟨rfl, by decide, by decide⟩
  hF := ⟨rfl, by decide, by decide⟩
  hside := by decide
  hshape := wit_shape

/-- **Counterexample (historical: the code before /repo f955162, `asIs`).** The trial of `wit` reaches both interfaces, `ξ = 0.49 ≤ 2/4 =
    n_old/n_new`, yet the move is rejected with status `FTL`: the property's threshold is false of
    the code as it is. -/
theorem shoot_threshold_counterexample :
    ReachingTrial wit [2] [2, 2] [] [] (-1) 5 ∧ wit.genLd = false ∧ wit.allowMax = false ∧ 0 < wit.xi ∧
    [2].length + [2, 2].length + 3 + 1 ≤ wit.maxlength ∧
    wit.xi ≤ ((wit.old.length : Rat) - 2) / (([2].length + [2, 2].length + 1 : Nat) : Rat) ∧
    (∃ o, shoot .asIs wit = .ok o ∧ o.accept = false ∧ o.status = .FTL ∧ o.trial = [-1, 2, 2, 2, 2, 5]) ∧
    ¬ Accepts .asIs wit ∧ Accepts .repaired wit := by
  have hev := wit_asIs_eval
  have hrep := wit_repaired_eval
  have hle : wit.xi ≤ ((wit.old.length : Rat) - 2) / (([2].length + [2, 2].length + 1 : Nat) : Rat) := by
    have h := wit_xi_le
    have e : ((wit.old.length : Rat) - 2) / (([2].length + [2, 2].length + 1 : Nat) : Rat) = 2 / 4 := by
      simp [wit]; norm_num
    rw [e]; exact h
  refine ⟨wit_reaching, rfl, rfl, wit_xi_pos, by decide, hle, ?_, ?_, ?_⟩
  · cases hs : shoot .asIs wit with
    | error e => rw [hs] at hev; cases hev
    | ok o =>
      rw [hs] at hev; simp only [Except.toOption, Option.some.injEq] at hev; subst hev
      exact ⟨_, rfl, rfl, rfl, rfl⟩
  · rintro ⟨o, ho, ha⟩
    rw [ho] at hev
    simp only [Except.toOption, Option.some.injEq] at hev
    subst hev
    cases ha
  · cases hs : shoot .repaired wit with
    | error e => rw [hs] at hrep; cases hrep
    | ok o =>
      rw [hs] at hrep; simp only [Except.toOption, Option.some.injEq] at hrep; subst hrep
      exact ⟨_, hs, rfl⟩

/-- **What did hold for the earlier (`asIs`) code.** Under the same hypotheses (absolute limit not binding):
    acceptance implies `ξ ≤ n_old/n_new`, and the trials with `ξ ≤ n_old/n_new` that are nevertheless
    rejected are exactly those with `n_old/(n_new+1) < ξ`, i.e. `⌊n_old/ξ⌋ = n_new`
    (`L_new = maxlen`, the trial fills the drawn limit exactly). -/
theorem shoot_threshold_partial (i : ShootIn)
    (preB preF restB restF : List Int) (xB xF : Int) (T : ReachingTrial i preB preF restB restF xB xF)
    (hld : i.genLd = false) (ham : i.allowMax = false) (hxi : 0 < i.xi)
    (hML : preB.length + preF.length + 3 + 1 ≤ i.maxlength) :
    (Accepts .asIs i → i.xi ≤ ((i.old.length : Rat) - 2) / ((preB.length + preF.length + 1 : Nat) : Rat)) ∧
    ((i.xi ≤ ((i.old.length : Rat) - 2) / ((preB.length + preF.length + 1 : Nat) : Rat) ∧ ¬ Accepts .asIs i) ↔
      (((i.old.length : Rat) - 2) / ((preB.length + preF.length + 1 + 1 : Nat) : Rat) < i.xi ∧
        i.xi ≤ ((i.old.length : Rat) - 2) / ((preB.length + preF.length + 1 : Nat) : Rat))) := by
  have hA := shoot_accept_iff_xi .asIs i preB preF restB restF xB xF T hld ham hxi (by simpa [slack] using hML)
  simp only [slack] at hA
  have hp1 : (0 : Rat) < ((preB.length + preF.length + 1 : Nat) : Rat) := by
    exact_mod_cast Nat.succ_pos _
  have hp2 : (0 : Rat) < ((preB.length + preF.length + 1 + 1 : Nat) : Rat) := by
    exact_mod_cast Nat.succ_pos _
  have hmono : i.xi ≤ ((i.old.length : Rat) - 2) / ((preB.length + preF.length + 1 + 1 : Nat) : Rat) →
      i.xi ≤ ((i.old.length : Rat) - 2) / ((preB.length + preF.length + 1 : Nat) : Rat) := by
    intro h
    rw [le_div_iff₀ hp2] at h
    rw [le_div_iff₀ hp1]
    push_cast at h ⊢
    nlinarith
  refine ⟨fun h => hmono (hA.1 h), ?_⟩
  rw [hA]
  constructor
  · rintro ⟨h1, h2⟩
    exact ⟨lt_of_not_ge h2, h1⟩
  · rintro ⟨h1, h2⟩
    exact ⟨h2, not_le.mpr h1⟩

example : ReachingTrial exIn [3] [2] [7] [7] (-1) 5 ∧ exIn.genLd = false ∧ exIn.allowMax = false ∧ 0 < exIn.xi
    ∧ [3].length + [2].length + 3 + 1 ≤ exIn.maxlength :=
  ⟨⟨by decide, by decide, by decide, by decide, by decide, ⟨rfl, by decide, by decide⟩, ⟨rfl, by decide, by decide⟩,
    by decide, exIn_shape⟩, rfl, rfl, exIn_xi_pos, by decide⟩

/-! ### rejections change nothing -/

/-- **Rejections leave the old path in place.** `run_md` keeps the old path as the live path of the
    ensemble whenever the move is not accepted, with exactly its old frames; it installs the trial
    path exactly on `ACC`.  (In the model the old path is an immutable input of `shoot`: no step of
    `shoot` has write access to it — `prepare_shooting_point` works on a copy, `trial_path +=
    path_back` copies.  That the Python objects behave like this is what the tie's deep snapshot of
    the old path, frame by frame with object identities, checks on every case.) -/
theorem reject_leaves_old_untouched (v : Variant) (i : ShootIn) (o : ShootOut) (h : shoot v i = .ok o) :
    (o.accept = false → runMd v i = .ok
        { status := o.status, live := i.old, replaced := false, trialLen := o.trial.length }) ∧
    (o.accept = true → runMd v i = .ok
        { status := .ACC, live := o.trial, replaced := true, trialLen := o.trial.length }) := by
  have hacc := accept_iff_status_acc v i o h
  unfold runMd
  rw [h]
  constructor
  · intro ha
    have : ¬ o.status = .ACC := by
      intro hs; rw [hacc.2 hs] at ha; cases ha
    simp [this]
  · intro ha
    simp [hacc.1 ha]

example : (runMd .repaired { exIn with forw := [2, 2, 2] }).toOption.map (fun o => (o.live, o.replaced))
    = some ([-1, 2, 2, -1], false) := by
  have h := exIn_reject_eval
  cases hs : shoot .repaired { exIn with forw := [2, 2, 2] } with
  | error e => rw [hs] at h; cases h
  | ok o =>
    rw [hs] at h; simp only [Except.toOption, Option.some.injEq] at h; subst h
    unfold runMd
    rw [hs]
    rfl

/-! ### wire fencing (model `Moves.wireFencing`: wire_fencing / extender / subt_acceptance) -/

theorem wf_accept_iff_status_acc (v : Variant) (i : WfIn) (o : WfOut) (h : wireFencing v i = .ok o) :
    o.accept = true ↔ o.status = .ACC := wf_accept_status v i o h

/-- **Membership of accepted wire-fencing paths.** Assume the ensemble is sane (`l ≤ m`, `cap ≤ r`) and
    the MD programs of the extender run at least `maxlength` steps (engines run `path.maxlen` steps; the
    extender ignores the engine's success flag, so this is what makes its `length >= maxlength` test
    sufficient).  If `wire_fencing` returns `ACC` then the returned path
    * is a path of the ensemble: first and last frame outside `[l, r)`, every other frame inside `[l, r]`,
    * starts on the side the start condition demands (`set(start_cond) == {start}`: the move's own assert),
    * is strictly shorter than `maxlength`,
    * contains a frame of the wire-fencing region `[m, cap)` (the last accepted shooting point), so it
      crosses the ensemble's interface `m`,
    * is a new object (not the old path), `generated = ("wf", 9000, n, len)` with `n ≥ 1` accepted jumps. -/
theorem wf_acc_member (v : Variant) (i : WfIn) (o : WfOut) (h : wireFencing v i = .ok o) (hs : o.status = .ACC)
    (hlm : i.l ≤ i.m) (hcr : capOf i ≤ i.r)
    (hlb : i.maxlength ≤ i.extBack.length) (hlf : i.maxlength ≤ i.extForw.length) :
    EnsPath i.l i.r o.path ∧
    (∃ first, o.path.head? = some first ∧
      ((first ≤ i.l ∧ i.sc.hasL = true ∧ i.sc.hasR = false) ∨ (i.r ≤ first ∧ i.sc.hasL = false ∧ i.sc.hasR = true))) ∧
    o.path.length < i.maxlength ∧
    (∃ y ∈ o.path, i.m ≤ y ∧ y < capOf i) ∧
    o.returnedOld = false ∧ o.oldRewritten = false ∧ 1 ≤ o.genSucc ∧ o.genLen = o.path.length ∧ o.accept = true := by
  obtain ⟨seg, segTO, succ, draws, t1, to1, t2, to2, first, hj, hsucc, hext, hsub, hlr, hfirst, hsc, ho⟩ :=
    wf_acc_inv v i o h hs
  rcases wfJumps_acc v i _ _ _ _ _ _ _ _ _ _ hj with ⟨h1, _⟩ | ⟨_, s, t, j, so, hsh, hacc, hseg⟩
  · exact absurd h1 hsucc
  · have hss := (accept_iff_status_acc v _ so hsh).1 hacc
    obtain ⟨preB, preF, restB, restF, xB, xF, _, _, htr, _, _, hin, hk2, _, _, _, _, _, _, _, _, _, _, _, _, _⟩ :=
      shoot_acc_member v _ so hsh hss
    simp only [subShootIn] at hin hk2 htr
    have hk1 : i.m ≤ j.kick := (hin j.kick (by simp)).1
    have hseg' : seg = xB :: ((preB.reverse ++ j.kick :: preF) ++ [xF]) := by rw [hseg, htr]; simp
    rw [hseg'] at hext
    obtain ⟨hens, hmem, hlen⟩ := extender_member v i xB xF (preB.reverse ++ j.kick :: preF) segTO to1 t1
      (fun y hy => by have := hin y hy; omega) hlb hlf hext
    have hkick1 : j.kick ∈ t1 := hmem j.kick (by simp)
    have hens2 : EnsPath i.l i.r t2 ∧ j.kick ∈ t2 ∧ t2.length = t1.length := by
      rcases subt_path i t1 to1 _ _ _ _ hsub with h2 | h2
      · rw [h2]; exact ⟨hens, hkick1, rfl⟩
      · rw [h2]; exact ⟨hens.reverse, by simpa using hkick1, by simp⟩
    subst ho
    refine ⟨hens2.1, ⟨first, hfirst, ?_⟩, by simp only; omega, ⟨j.kick, hens2.2.1, hk1, hk2⟩, rfl, rfl,
      by simp only; omega, rfl, rfl⟩
    unfold scIs WF.startPoint at hsc
    by_cases c1 : first ≤ i.l
    · left
      simp only [c1, if_true, Bool.and_eq_true, Bool.not_eq_true'] at hsc
      exact ⟨c1, hsc.1, hsc.2⟩
    · by_cases c2 : first ≥ i.r
      · right
        simp only [c1, c2, if_false, if_true, Bool.and_eq_true, Bool.not_eq_true'] at hsc
        exact ⟨c2, hsc.1, hsc.2⟩
      · simp [c1, c2] at hsc

example : ∃ o, wireFencing .repaired wfEx = .ok o ∧ o.status = .ACC ∧ wfEx.l ≤ wfEx.m ∧ capOf wfEx ≤ wfEx.r ∧
    wfEx.maxlength ≤ wfEx.extBack.length ∧ wfEx.maxlength ≤ wfEx.extForw.length ∧ o.path = [-1, 0, 1, 2, 3, 5] := by
  have h := wfEx_eval
  cases hs : wireFencing .repaired wfEx with
  | error e => rw [hs] at h; cases h
  | ok o =>
    rw [hs] at h; simp only [Except.toOption, Option.some.injEq] at h; subst h
    exact ⟨_, rfl, rfl, by decide, by decide, by decide, by decide, rfl⟩

/-- **A rejected wire-fencing move never returns changed frames of the old path**: when the old path
    object itself is returned (status `NSG`) its frames are the old frames; otherwise the returned path is a
    new object.  (Recorded observation, field `oldRewritten`: after jumps without any accepted segment the
    code overwrites `.status` and `.generated` of the old path object — frames and files stay intact.) -/
theorem wf_reject_old_frames (v : Variant) (i : WfIn) (o : WfOut) (h : wireFencing v i = .ok o) :
    (o.returnedOld = true → o.path = i.old ∧ o.status = .NSG ∧ o.accept = false) ∧
    (o.oldRewritten = true → o.returnedOld = true ∧ o.genSucc = 0) := by
  unfold wireFencing at h
  simp only at h
  repeat' split at h
  all_goals first
    | (cases h; done)
    | (simp only [Except.ok.injEq] at h; subst h; simp)

example : (wireFencing .repaired { wfEx with jumps := [{ idx := 2, kick := 7, back := [], forw := [] }] }).toOption.map
    (fun o => (o.returnedOld, o.oldRewritten, o.path, o.status)) = some (true, true, [-1, 1, 2, 1, -1], .NSG) := by
  rw [wfEx_reject_eval]; rfl

/-! ### run_md for two-ensemble moves (zero swaps): commit iff the MOVE status is ACC -/

/-- **`run_md` commits iff the move status is `ACC`.** For any result `r` of a two-ensemble move, both
    `picked[i]["traj"]` are replaced (by the two trial paths) exactly when `r.status = ACC` — whatever the
    trial paths' own `.status` attributes (`r.st0`, `r.st1`) say. -/
theorem run_md_commits_iff_acc (r : ZeroSwap.Result) (old0 old1 : List ZeroSwap.Frame) :
    ((runMdCommit2 r old0 old1).replaced0 = true ↔ r.status = .ACC) ∧
    ((runMdCommit2 r old0 old1).replaced1 = true ↔ r.status = .ACC) ∧
    (r.status = .ACC → (runMdCommit2 r old0 old1).live0 = r.path0 ∧ (runMdCommit2 r old0 old1).live1 = r.path1) ∧
    (runMdCommit2 r old0 old1).status = r.status := by
  unfold runMdCommit2
  refine ⟨by simp, by simp, ?_, rfl⟩
  intro h
  simp [h]

/-- **Rejections change nothing (two-ensemble moves).** After a QuanTIS or plain zero swap whose status is
    not `ACC`, both ensembles hold exactly their old frames and neither path was replaced — in particular
    when the first leg succeeded (`st0 = ACC`) and only the second failed (FTX / FTS / 0+R). -/
theorem run_md_rejection_changes_nothing (e0 e1 : ZeroSwap.Ens) (old0 old1 : List ZeroSwap.Frame)
    (scA scB scC scD : ZeroSwap.Script) (aa : Bool) (beta0 beta1 xi p : Rat) (o : Md2Out) :
    (runMdQuantis e0 e1 old0 old1 scA scB scC scD aa beta0 beta1 xi p = .ok o → o.status ≠ .ACC →
      o.live0 = old0 ∧ o.live1 = old1 ∧ o.replaced0 = false ∧ o.replaced1 = false) ∧
    (runMdRetisSwap e0 e1 old0 old1 scC scD xi = .ok o → o.status ≠ .ACC →
      o.live0 = old0 ∧ o.live1 = old1 ∧ o.replaced0 = false ∧ o.replaced1 = false) := by
  constructor
  · intro h hs
    unfold runMdQuantis at h
    split at h
    · cases h
    · simp only [Except.ok.injEq] at h
      subst h
      simp only [runMdCommit2] at hs ⊢
      simp [hs]
  · intro h hs
    unfold runMdRetisSwap at h
    split at h
    · cases h
    · simp only [Except.ok.injEq] at h
      subst h
      simp only [runMdCommit2] at hs ⊢
      simp [hs]

/-- the seeded scenario: the second leg of a QuanTIS swap fails with FTX while the new [0-] trial carries
    `.status = ACC`; `run_md` keeps both old paths -/
example : (ZeroSwap.quantisSwapZero QEx.e0 QEx.e1 QEx.old0 QEx.old1 QEx.scA QEx.scB QEx.bw QEx.fwLong true 1 1 0 1).toOption.map
      (fun r => (r.status, r.st0)) = some (.FTX, .ACC) ∧
    (runMdQuantis QEx.e0 QEx.e1 QEx.old0 QEx.old1 QEx.scA QEx.scB QEx.bw QEx.fwLong true 1 1 0 1).toOption =
      some { status := .FTX, live0 := QEx.old0, live1 := QEx.old1, replaced0 := false, replaced1 := false } := by
  refine ⟨?_, QEx.md_eval⟩
  have h := QEx.swap_eval
  cases hs : ZeroSwap.quantisSwapZero QEx.e0 QEx.e1 QEx.old0 QEx.old1 QEx.scA QEx.scB QEx.bw QEx.fwLong true 1 1 0 1 with
  | error e => rw [hs] at h; cases h
  | ok r =>
    rw [hs] at h
    simp only [Except.toOption, Option.map_some, Option.some.injEq, Prod.mk.injEq] at h ⊢
    exact ⟨h.2.1, h.2.2.1⟩

/-! ### call history: what a settings dict left with `allowmaxlength = True` does to a later shoot -/

/-- **With `allowmaxlength` set (or a loaded path) the drawn number plays no role.** The limit is `maxlength`, no
    `random()` is requested, and the whole result is independent of ξ.  `wire_fencing` leaves
    `tis_set["allowmaxlength"] = True` behind on the dict it was given (recorded observation), so a later shooting
    move on the same dict falls under this theorem instead of `shoot_threshold`. -/
theorem shoot_allowmax_ignores_xi (v : Variant) (i : ShootIn) (q : Rat) (h : i.allowMax = true ∨ i.genLd = true) :
    drawMaxlen i = .ok (i.maxlength, []) ∧ shoot v { i with xi := q } = shoot v i := by
  have hd : ∀ x : Rat, drawMaxlen { i with xi := x } = .ok (i.maxlength, []) := by
    intro x
    unfold drawMaxlen
    rcases h with h | h <;> simp [h]
  refine ⟨by simpa using hd i.xi, ?_⟩
  have h1 := hd q
  have h2 : drawMaxlen i = .ok (i.maxlength, []) := by simpa using hd i.xi
  have hf : ∀ t, finalChecks { i with xi := q } t = finalChecks i t := fun _ => rfl
  unfold shoot
  simp only [h1, h2, hf]

example : (shoot .repaired { exIn with allowMax := true, xi := 0 }).toOption.map (fun o => (o.status, o.draws))
    = some (.ACC, [.integers 1 3]) := by
  have h := (shoot_allowmax_ignores_xi .repaired { exIn with allowMax := true } 0 (Or.inl rfl)).2
  have e : ({ ({ exIn with allowMax := true } : ShootIn) with xi := 0 } : ShootIn) = { exIn with allowMax := true, xi := 0 } := rfl
  rw [e] at h
  rw [h]
  exact exIn_allowmax_eval


/-! ## Extension: status tables, dispatcher, `run_md` composed, wire-fencing weight
    (model `Infretis/Model/MovesRun.lean`) -/

/-! ### the status table of `shoot` -/

/-- **Status table (total).** For every input — completed or raising — the status of `shoot` is the table entry
    `statusOf` of the stage the move reached (`shootOutcome`: kick refused / backward failed with its length / wrong
    end / forward failed with the pasted length / the three final path tests); the error kinds coincide. -/
theorem shoot_status_table (v : Variant) (i : ShootIn) :
    (shoot v i).map (·.status) = (shootOutcome v i).map (statusOf i.maxlength) := shoot_status_eq v i

/-- for a completed move: its outcome exists, the status is the table entry, and the move reports acceptance exactly
    when the table entry is `ACC` -/
theorem shoot_status_by_table (v : Variant) (i : ShootIn) (o : ShootOut) (h : shoot v i = .ok o) :
    ∃ oc, shootOutcome v i = .ok oc ∧ o.status = statusOf i.maxlength oc ∧
      (o.accept = true ↔ statusOf i.maxlength oc = .ACC) := by
  obtain ⟨oc, h1, h2⟩ := shoot_table_of_ok v i o h
  exact ⟨oc, h1, h2, by rw [← h2]; exact accept_iff_status_acc v i o h⟩

example : (shootOutcome .repaired exIn).toOption = some (.final false false true) ∧
    (shootOutcome .repaired { exIn with forw := [2, 2, 2] }).toOption = some (.forwFail 6) := by
  constructor <;> decide +kernel

/-- **Every status characterised.** The table read backwards: each status string belongs to exactly one stage (two for
    `ACC`), `NSG` never comes out of a shooting move, and `ACC` requires both propagations to have succeeded, no
    forbidden left end, and a crossing of the middle interface unless the ensemble allows both start sides. -/
theorem status_table_inverse (ML : Nat) (oc : Outcome) :
    (statusOf ML oc = .KOB ↔ oc = .kob) ∧
    (statusOf ML oc = .BTL ↔ ∃ n, oc = .backFail n ∧ n + 1 < ML) ∧
    (statusOf ML oc = .BTX ↔ ∃ n, oc = .backFail n ∧ ML ≤ n + 1) ∧
    (statusOf ML oc = .BWI ↔ oc = .wrongEnd) ∧
    (statusOf ML oc = .FTL ↔ ∃ n, oc = .forwFail n ∧ n ≠ ML) ∧
    (statusOf ML oc = .FTX ↔ oc = .forwFail ML) ∧
    (statusOf ML oc = .ZL ↔ ∃ b c, oc = .final true b c) ∧
    (statusOf ML oc = .NCR ↔ oc = .final false false false) ∧
    (statusOf ML oc = .ACC ↔ ∃ b c, oc = .final false b c ∧ (b = true ∨ c = true)) ∧
    statusOf ML oc ≠ .NSG := by
  cases oc with
  | kob => simp [statusOf]
  | backFail n =>
    simp only [statusOf]
    by_cases h : n + 1 ≥ ML
    · simp [h]
    · simp [h]; omega
  | wrongEnd => simp [statusOf]
  | forwFail n =>
    simp only [statusOf]
    by_cases h : n = ML
    · simp [h]
    · simp [h]
  | final z b c => cases z <;> cases b <;> cases c <;> simp [statusOf]

example : statusOf 10 (.backFail 9) = .BTX ∧ statusOf 10 (.backFail 8) = .BTL ∧ statusOf 10 (.forwFail 10) = .FTX ∧
    statusOf 10 (.final false false true) = .ACC ∧ statusOf 10 (.final false false false) = .NCR := by decide

/-- **Every status of the table is produced by the move**: nine concrete inputs (variants of `exIn`), one per status
    string, evaluated through `shoot` itself. -/
theorem status_table_onto :
    (shoot .repaired exIn).toOption.map (·.status) = some .ACC ∧
    (shoot .repaired { exIn with kick := 4 }).toOption.map (·.status) = some .KOB ∧
    (shoot .repaired { exIn with back := [3, 3, 3, 3, 3, 3, 3, 3, 3, 3, 3, 3] }).toOption.map (·.status) = some .BTL ∧
    (shoot .repaired { exIn with maxlength := 4, back := [3, 3, 3, 3, 3, 3] }).toOption.map (·.status) = some .BTX ∧
    (shoot .repaired { exIn with back := [3, 7] }).toOption.map (·.status) = some .BWI ∧
    (shoot .repaired { exIn with forw := [2, 2, 2] }).toOption.map (·.status) = some .FTL ∧
    (shoot .repaired { exIn with maxlength := 5, forw := [2, 2, 2] }).toOption.map (·.status) = some .FTX ∧
    (shoot .repaired { exIn with sc := ⟨false, true⟩, back := [3, 7], forw := [2, -1] }).toOption.map (·.status) = some .ZL ∧
    (shoot .repaired { exIn with m := 4, forw := [2, -1] }).toOption.map (·.status) = some .NCR := by
  refine ⟨by rw [exIn_eval]; rfl, ?_, ?_, ?_, ?_, by rw [exIn_reject_eval]; rfl, ?_, ?_, ?_⟩ <;> decide +kernel

/-! ### the status table of `wire_fencing` -/

theorem wf_status_table (v : Variant) (i : WfIn) :
    (wireFencing v i).map (·.status) = (wfOutcome v i).map wfStatusOf := wf_status_eq v i

/-- **Exact acceptance rule of wire fencing, every status characterised.** A completed `wire_fencing` call ended at
    exactly one stage of `wfOutcome`; its status is `NSG` iff there was no frame to shoot from or no jump was accepted,
    `FTX` iff the extender's result reached `maxlength`, `BWI` iff neither end of the extended path lies on the start
    side, and it is accepted (`ACC`) iff all of: weight ≠ 0, at least one accepted jump, extended path shorter than
    `maxlength`, `subt_acceptance` found the start side (possibly after reversal), and the move's own start assertion
    holds.  No other status string comes out. -/
theorem wf_status_by_table (v : Variant) (i : WfIn) (o : WfOut) (h : wireFencing v i = .ok o) :
    ∃ oc, wfOutcome v i = .ok oc ∧ o.status = wfStatusOf oc ∧
      (o.status = .NSG ↔ oc = .noFrames ∨ oc = .noSegment) ∧
      (o.status = .FTX ↔ ∃ n, oc = .extTooLong n) ∧
      (o.status = .BWI ↔ oc = .wrongStart) ∧
      (o.accept = true ↔ ∃ s n, oc = .accepted s n) ∧
      (o.status = .NSG ∨ o.status = .FTX ∨ o.status = .BWI ∨ o.status = .ACC) := by
  obtain ⟨oc, h1, h2⟩ := wf_table_of_ok v i o h
  refine ⟨oc, h1, h2, ?_, ?_, ?_, ?_, ?_⟩
  · rw [h2]; cases oc <;> simp [wfStatusOf]
  · rw [h2]; cases oc <;> simp [wfStatusOf]
  · rw [h2]; cases oc <;> simp [wfStatusOf]
  · rw [wf_accept_iff_status_acc v i o h, h2]; cases oc <;> simp [wfStatusOf]
  · rw [h2]; cases oc <;> simp [wfStatusOf]

/-- what the stage `accepted` means in terms of the parts of the move (the rule the code really applies) -/
theorem wf_accepted_iff (v : Variant) (i : WfIn) (s n : Nat) :
    wfOutcome v i = .ok (.accepted s n) ↔
      WF.weight i.m (capOf i) i.old ≠ 0 ∧
      ∃ seg segTO d st1 t1 to1 st2 t2 to2 first,
        wfJumps v i i.nJumps i.jumps (wfSeg0 i) i.oldTimeOrigin 0 [.random] = .ok (seg, segTO, s, d) ∧ s ≠ 0 ∧
        extender v i seg segTO = .ok (true, st1, t1, to1) ∧
        subtAcceptance i t1 to1 = .ok (true, st2, t2, to2) ∧
        i.l ≤ i.r ∧ t2.head? = some first ∧ scIs i.sc (WF.startPoint i.l i.r first) = true ∧ n = t2.length := by
  unfold wfOutcome
  constructor
  · intro h
    split at h
    · cases h
    · rename_i hw
      split at h
      · cases h
      · rename_i seg segTO succ d hj
        split at h
        · cases h
        · rename_i hs
          split at h
          · cases h
          · rename_i ok1 st1 t1 to1 he
            split at h
            · cases h
            · rename_i hok1
              split at h
              · cases h
              · rename_i ok2 st2 t2 to2 hsub
                split at h
                · cases h
                · rename_i hok2
                  split at h
                  · cases h
                  · rename_i hlr
                    split at h
                    · cases h
                    · rename_i first hf
                      split at h
                      · cases h
                      · rename_i hsc
                        simp only [Except.ok.injEq, WfOutcome.accepted.injEq] at h
                        obtain ⟨e1, e2⟩ := h
                        subst e1
                        have hok1' : ok1 = true := by simpa using hok1
                        have hok2' : ok2 = true := by simpa using hok2
                        subst hok1' hok2'
                        exact ⟨hw, seg, segTO, d, st1, t1, to1, st2, t2, to2, first, hj, hs, he, hsub, by omega, hf,
                          by simpa using hsc, e2.symm⟩
  · rintro ⟨hw, seg, segTO, d, st1, t1, to1, st2, t2, to2, first, hj, hs, he, hsub, hlr, hf, hsc, hn⟩
    simp only [hw, if_false, hj, hs, he, hsub, hf, hsc, Bool.true_eq_false, hn]
    have : ¬ i.r < i.l := by omega
    simp [this]

example : (wfOutcome .repaired wfEx).toOption = some (.accepted 1 6) ∧
    (wfOutcome .repaired { wfEx with jumps := [{ idx := 2, kick := 7, back := [], forw := [] }] }).toOption
      = some .noSegment := by
  constructor <;> decide +kernel

/-! ### own-ensemble weight of an accepted wire-fencing path -/

/-- **High-acceptance weight is non-zero.** If `wire_fencing` accepts, the ensemble's start condition is one-sided
    and no frame of the returned path lies exactly ON the cap interface, then the path has positive wire-fencing weight
    for `(m, cap)` — the frames between the bounding frames of the last accepted shooting point count — and
    `compute_weight(path, [l, m, cap], "wf")`, the entry `calc_cv_vector` stores for the own ensemble, is a positive
    number. -/
theorem wf_acc_weight_pos (v : Variant) (i : WfIn) (o : WfOut) (h : wireFencing v i = .ok o) (hs : o.status = .ACC)
    (hsc : ¬ (i.scEns.hasL = true ∧ i.scEns.hasR = true))
    (hgen : ∀ y ∈ o.path, y ≠ capOf i) :
    0 < WF.weight i.m (capOf i) o.path ∧
    ∃ w, WF.computeWeight o.path i.l i.m (capOf i) true = .ok w ∧ 0 < w := by
  obtain ⟨hw, hl, hne⟩ := wf_acc_weight_pos_aux v i o h hs hsc hgen
  refine ⟨hw, ?_⟩
  unfold WF.computeWeight
  simp only [hl, if_true]
  cases hp : o.path with
  | nil => exact absurd hp hne
  | cons a t =>
    have hlast : ∃ z, (a :: t).getLast? = some z := ⟨(a :: t).getLast (by simp), List.getLast?_eq_some_getLast (by simp)⟩
    obtain ⟨z, hz⟩ := hlast
    rw [hp] at hw
    simp only [List.head?_cons, hz]
    split
    · exact ⟨_, rfl, by omega⟩
    · exact ⟨_, rfl, hw⟩

example : ∃ o, wireFencing .repaired wfEx = .ok o ∧ o.status = .ACC ∧
    ¬ (wfEx.scEns.hasL = true ∧ wfEx.scEns.hasR = true) ∧ (∀ y ∈ o.path, y ≠ capOf wfEx) ∧
    0 < WF.weight wfEx.m (capOf wfEx) o.path := by
  have h := wfEx_eval
  cases hs : wireFencing .repaired wfEx with
  | error e => rw [hs] at h; cases h
  | ok o =>
    rw [hs] at h; simp only [Except.toOption, Option.some.injEq] at h; subst h
    exact ⟨_, rfl, rfl, by decide, by decide, by decide⟩

/-- **Boundary counterexample (why the hypothesis `no frame on the cap` is there).** A frame exactly on the cap is
    "inside" for the engine loop (`add_to_path` stops on `> right`) but "right of the region" for the weight scan
    (`>= right`): the sub-path `1, 6, 3, 6, 1` with `m = 2`, cap `= 6` is accepted by the sub-ensemble shoot (it
    crosses `m`), the move is accepted with the path `-1, 1, 6, 3, 6, 1, -1`, and that path has wire-fencing weight 0
    in its own ensemble.  Measure-zero for real-valued order parameters; recorded as an observation. -/
theorem wf_weight_zero_on_cap_counterexample :
    ∃ o, wireFencing .repaired wfCapEx = .ok o ∧ o.status = .ACC ∧ o.accept = true ∧
      o.path = [-1, 1, 6, 3, 6, 1, -1] ∧ capOf wfCapEx = 6 ∧ (6 : Int) ∈ o.path ∧
      WF.weight wfCapEx.m (capOf wfCapEx) o.path = 0 ∧
      WF.computeWeight o.path wfCapEx.l wfCapEx.m (capOf wfCapEx) true = .ok 0 := by
  have h := wfCapEx_eval
  cases hs : wireFencing .repaired wfCapEx with
  | error e => rw [hs] at h; cases h
  | ok o =>
    rw [hs] at h; simp only [Except.toOption, Option.some.injEq] at h; subst h
    exact ⟨_, rfl, rfl, rfl, rfl, by decide, by decide, by decide, by decide⟩

/-! ### `select_shoot`: the dispatcher -/

/-- **Routing.** `select_shoot` runs a shooting move exactly for a single picked ensemble whose `mc_move` is "sh",
    wire fencing exactly for a single one with "wf", a zero swap exactly when the number of picked ensembles is not 1
    and the key −1 is present (QuanTIS iff the flag is set); everything else is a `KeyError` before any MD. -/
theorem route_table (n : Nat) (hm : Bool) (mv : MoveKey) (q : Bool) :
    (route n hm mv q = .shoot ↔ n = 1 ∧ mv = .sh) ∧
    (route n hm mv q = .wireFencing ↔ n = 1 ∧ mv = .wf) ∧
    (route n hm mv q = .quantisSwap ↔ n ≠ 1 ∧ hm = true ∧ q = true) ∧
    (route n hm mv q = .retisSwap ↔ n ≠ 1 ∧ hm = true ∧ q = false) ∧
    (route n hm mv q = .keyError ↔ (n = 1 ∧ mv = .other) ∨ (n ≠ 1 ∧ hm = false)) := by
  unfold route
  by_cases h1 : n = 1
  · simp only [h1, if_true]
    cases mv <;> simp
  · simp only [h1, if_false]
    cases hm <;> cases q <;> simp [h1]

example : route 1 false .wf true = .wireFencing ∧ route 2 true .sh false = .retisSwap ∧ route 1 true .other false = .keyError := by
  decide

/-! ### `run_md` for one-ensemble jobs, composed: route → move → bookkeeping → weights → replacement -/

/-- **`run_md` commits exactly on `ACC`** (shooting and wire fencing alike): the live path is replaced, and the trial
    gets a weight vector, iff the move's status is `ACC`; then the live path is the trial path. -/
theorem run_md_one_commits_iff_acc (v : Variant) (cfg : MdCfg) (x : OneIn) (o : MdOneOut)
    (h : runMdOne v cfg x = .ok o) :
    (o.replaced = true ↔ o.status = .ACC) ∧ (o.weights.isSome = true ↔ o.status = .ACC) ∧
    (o.status = .ACC → ∃ trial, runMove v x = .ok (.ACC, trial, false) ∧ o.live = trial ∧ o.trialLen = trial.length) := by
  unfold runMdOne at h
  cases hm : runMove v x with
  | error e => rw [hm] at h; cases h
  | ok r =>
    obtain ⟨st, trial, isOld⟩ := r
    rw [hm] at h
    simp only at h
    split at h
    · cases h
    · split at h
      · rename_i mn mx _ _
        by_cases hs : st = .ACC
        · simp only [hs, if_true] at h
          split at h
          · cases h
          · simp only [Except.ok.injEq] at h
            subst h
            have hold : isOld = false := by
              subst hs
              cases x with
              | sh i =>
                simp only [runMove] at hm
                repeat' split at hm
                all_goals first
                  | (cases hm)
                  | (simp only [Except.ok.injEq, Prod.mk.injEq] at hm; exact hm.2.2.symm)
              | wf i =>
                simp only [runMove] at hm
                split at hm
                · cases hm
                · rename_i wo hwo
                  simp only [Except.ok.injEq, Prod.mk.injEq] at hm
                  obtain ⟨e1, _, e3⟩ := hm
                  rw [← e3]
                  cases hro : wo.returnedOld with
                  | false => rfl
                  | true =>
                    have := ((wf_reject_old_frames v _ wo hwo).1 hro).2.1
                    rw [e1] at this; cases this
              | other o => simp [runMove] at hm
            subst hold
            subst hs
            simp only [Bool.not_false, Option.isSome_some]
            exact ⟨by simp, by simp, fun _ => ⟨_, rfl, rfl, rfl⟩⟩
        · simp only [hs, if_false, Except.ok.injEq] at h
          subst h
          simp [hs]
      · cases h

/-- **Rejections change nothing (composed, shooting and wire fencing).** Whenever `run_md` completes with a status
    other than `ACC`, the ensemble still holds its old path with exactly its old frames, nothing was replaced and no
    weight vector was assigned. -/
theorem run_md_one_rejection_changes_nothing (v : Variant) (cfg : MdCfg) (x : OneIn) (o : MdOneOut)
    (h : runMdOne v cfg x = .ok o) (hs : o.status ≠ .ACC) :
    o.live = x.old ∧ o.replaced = false ∧ o.weights = none := by
  unfold runMdOne at h
  cases hm : runMove v x with
  | error e => rw [hm] at h; cases h
  | ok r =>
    obtain ⟨st, trial, isOld⟩ := r
    rw [hm] at h
    simp only at h
    split at h
    · cases h
    · split at h
      · by_cases hst : st = .ACC
        · simp only [hst, if_true] at h
          split at h
          · cases h
          · simp only [Except.ok.injEq] at h
            subst h
            exact absurd rfl hs
        · simp only [hst, if_false, Except.ok.injEq] at h
          subst h
          exact ⟨rfl, rfl, rfl⟩
      · cases h

/-- **Accepted wire-fencing jobs, end to end.** If `run_md` completes a wire-fencing job with `ACC` (sane ensemble,
    extender streams at least `maxlength` long), the path now held by the ensemble is a path of the ensemble, starts
    on the side `ens_set["start_cond"]` names, is shorter than `maxlength`, and carries a weight vector. -/
theorem run_md_one_wf_acc_member (v : Variant) (cfg : MdCfg) (i : WfIn) (o : MdOneOut)
    (h : runMdOne v cfg (.wf i) = .ok o) (hs : o.status = .ACC)
    (hlm : i.l ≤ i.m) (hcr : capOf i ≤ i.r)
    (hlb : i.maxlength ≤ i.extBack.length) (hlf : i.maxlength ≤ i.extForw.length) :
    EnsPath i.l i.r o.live ∧ o.live.length < i.maxlength ∧ o.replaced = true ∧ o.weights.isSome = true ∧
    (∃ first, o.live.head? = some first ∧
      ((first ≤ i.l ∧ i.scEns.hasL = true ∧ i.scEns.hasR = false) ∨
       (i.r ≤ first ∧ i.scEns.hasL = false ∧ i.scEns.hasR = true))) ∧
    (∃ y ∈ o.live, i.m ≤ y ∧ y < capOf i) := by
  obtain ⟨h1, h2, h3⟩ := run_md_one_commits_iff_acc v cfg _ o h
  obtain ⟨trial, hm, hl, _⟩ := h3 hs
  simp only [runMove] at hm
  split at hm
  · cases hm
  · rename_i wo hwo
    simp only [Except.ok.injEq, Prod.mk.injEq] at hm
    obtain ⟨hst, e2, _⟩ := hm
    obtain ⟨m1, m2, m3, m4, _⟩ := wf_acc_member v _ wo hwo hst hlm hcr hlb hlf
    rw [hl, ← e2]
    exact ⟨m1, m3, h1.2 hs, h2.2 hs, m2, m4⟩

/-- **Accepted shooting jobs, end to end.** If `run_md` completes a shooting job with `ACC`, the path now held by the
    ensemble starts strictly outside on a side `ens_set["start_cond"]` allows, ends strictly outside, stays inside in
    between, contains the kicked shooting point, is at most `maxlength` long and carries a weight vector. -/
theorem run_md_one_sh_acc_member (v : Variant) (cfg : MdCfg) (i : ShootIn) (o : MdOneOut)
    (h : runMdOne v cfg (.sh i) = .ok o) (hs : o.status = .ACC) :
    ∃ sce xB xF mid, i.scEns = some sce ∧ o.live = xB :: (mid ++ [xF]) ∧
      ((xB < i.l ∧ sce.hasL = true) ∨ (i.r < xB ∧ sce.hasR = true)) ∧ (xF < i.l ∨ i.r < xF) ∧
      (∀ y ∈ mid, i.l ≤ y ∧ y ≤ i.r) ∧ i.kick ∈ mid ∧ o.live.length ≤ i.maxlength ∧
      o.replaced = true ∧ o.weights.isSome = true := by
  obtain ⟨h1, h2, h3⟩ := run_md_one_commits_iff_acc v cfg _ o h
  obtain ⟨trial, hm, hl, _⟩ := h3 hs
  simp only [runMove] at hm
  split at hm
  · cases hm
  · rename_i sce hsce
    split at hm
    · cases hm
    · rename_i so hso
      simp only [Except.ok.injEq, Prod.mk.injEq] at hm
      obtain ⟨hst, e2, _⟩ := hm
      obtain ⟨preB, preF, restB, restF, xB, xF, _, _, htr, hstart, hxF, hin, _, _, _, _, hlen, _⟩ :=
        shoot_acc_member v _ so hso hst
      refine ⟨sce, xB, xF, preB.reverse ++ i.kick :: preF, hsce, ?_, hstart, hxF, hin, by simp, ?_, h1.2 hs, h2.2 hs⟩
      · rw [hl, ← e2, htr]; simp
      · rw [hl, ← e2]; exact hlen

example : (runMdOne .repaired (mdCfgEx false) (.sh { exIn with scEns := some ⟨true, false⟩ })).toOption.map
      (fun o => (o.status, o.live, o.weights, o.replaced)) = some (.ACC, [-1, 3, 2, 2, 5], some [1, 1, 0], true) := by
  rw [mdEx_eval]; rfl

example : (runMdOne .repaired (mdCfgEx true) (.wf wfEx)).toOption.map
      (fun o => (o.status, o.live, o.weights, o.replaced)) = some (.ACC, [-1, 0, 1, 2, 3, 5], some [1, 6, 0], true) := by
  rw [mdWfEx_eval]; rfl

example : (runMdOne .repaired (mdCfgEx true)
      (.wf { wfEx with jumps := [{ idx := 2, kick := 7, back := [], forw := [] }] })).toOption.map
      (fun o => (o.status, o.live, o.weights, o.replaced)) = some (.NSG, [-1, 1, 2, 1, -1], none, false) := by
  rw [mdWfRejEx_eval]; rfl

/-! ### own-ensemble weight, end to end through `run_md` -/


/-- on `ACC` the weight vector `run_md` stores is `calc_cv_vector` of the trial path, which becomes the live path -/
theorem run_md_one_acc_weights (v : Variant) (cfg : MdCfg) (x : OneIn) (o : MdOneOut)
    (h : runMdOne v cfg x = .ok o) (hs : o.status = .ACC) :
    ∃ trial w, runMove v x = .ok (.ACC, trial, false) ∧ mdWeights cfg trial = .ok w ∧ o.weights = some w ∧
      o.live = trial := by
  obtain ⟨trial, hm, hl, _⟩ := (run_md_one_commits_iff_acc v cfg x o h).2.2 hs
  unfold runMdOne at h
  rw [hm] at h
  simp only at h
  split at h
  · cases h
  · split at h
    · simp only [if_true] at h
      split at h
      · cases h
      · rename_i w hw
        simp only [Except.ok.injEq] at h
        subst h
        exact ⟨trial, w, hm, hw, rfl, rfl⟩
    · cases h

/-- **Own-ensemble weight, shooting job, end to end.** `run_md` completes a shooting job with `ACC`; the ensemble's
    start condition is one-sided; `md_items` is consistent with the ensemble (its middle interface is entry `k = ens_num`
    of the interface list, its move is not wire fencing).  Then entry `k` of the stored weight vector is 1. -/
theorem run_md_one_sh_own_weight (v : Variant) (cfg : MdCfg) (i : ShootIn) (o : MdOneOut)
    (h : runMdOne v cfg (.sh i) = .ok o) (hs : o.status = .ACC)
    (sce : StartCond) (hsce : i.scEns = some sce) (hone : ¬ (sce.hasL = true ∧ sce.hasR = true))
    (k : Nat) (hk : cfg.ensNum = (k : Int)) (hm : cfg.interfaces.dropLast[k]? = some i.m)
    (hf : cfg.movesTail[k]? = some false) :
    ∃ ws, o.weights = some ws ∧ ws[k]? = some 1 := by
  obtain ⟨trial, w, hmv, hw, how, _⟩ := run_md_one_acc_weights v cfg _ o h hs
  simp only [runMove, hsce] at hmv
  split at hmv
  · cases hmv
  · rename_i so hso
    simp only [Except.ok.injEq, Prod.mk.injEq] at hmv
    obtain ⟨hst, e2, _⟩ := hmv
    obtain ⟨pmax, hp, h1⟩ := shoot_acc_weight_nonzero v _ so hso hst (by simpa [effSc, hsce] using hone)
    unfold mdWeights at hw
    have hnn : ¬ cfg.ensNum < 0 := by omega
    simp only [hnn, if_false] at hw
    cases hcv : WF.cvVector trial cfg.interfaces cfg.movesTail cfg.cap with
    | error e => rw [hcv] at hw; cases hw
    | ok ws =>
      rw [hcv] at hw
      simp only [Except.mapError, Except.ok.injEq] at hw
      subst hw
      obtain ⟨pmax', i0, ilast, w', hp', _, _, hwk, hval⟩ := cvVector_get trial _ _ _ _ hcv k i.m false hm hf
      rw [← e2] at hp'
      rw [hp] at hp'
      simp only [Option.some.injEq] at hp'
      subst hp'
      simp only [Bool.false_eq_true, if_false, Except.ok.injEq] at hval
      refine ⟨ws, how, ?_⟩
      rw [hwk, ← hval]
      simpa using h1

/-- **Own-ensemble weight, wire-fencing job, end to end.** Same for a wire-fencing ensemble (`mc_moves[k+1] == "wf"`,
    first interface and cap of `md_items` are the ensemble's), no frame of the new path exactly on the cap: entry `k`
    of the stored weight vector is positive. -/
theorem run_md_one_wf_own_weight (v : Variant) (cfg : MdCfg) (i : WfIn) (o : MdOneOut)
    (h : runMdOne v cfg (.wf i) = .ok o) (hs : o.status = .ACC)
    (hone : ¬ (i.scEns.hasL = true ∧ i.scEns.hasR = true)) (hgen : ∀ y ∈ o.live, y ≠ capOf i)
    (k : Nat) (hk : cfg.ensNum = (k : Int)) (hm : cfg.interfaces.dropLast[k]? = some i.m)
    (hf : cfg.movesTail[k]? = some true) (h0 : cfg.interfaces.head? = some i.l)
    (hcap : ∀ ilast, cfg.interfaces.getLast? = some ilast → capOr cfg.cap ilast = capOf i) :
    ∃ ws w, o.weights = some ws ∧ ws[k]? = some w ∧ 0 < w := by
  obtain ⟨trial, w, hmv, hw, how, hl⟩ := run_md_one_acc_weights v cfg _ o h hs
  simp only [runMove] at hmv
  split at hmv
  · cases hmv
  · rename_i wo hwo
    simp only [Except.ok.injEq, Prod.mk.injEq] at hmv
    obtain ⟨hst, e2, _⟩ := hmv
    have hgen' : ∀ y ∈ wo.path, y ≠ capOf { i with sc := i.scEns } := by
      intro y hy; exact hgen y (by rw [hl, ← e2]; exact hy)
    obtain ⟨_, wv, hcw, hpos⟩ := wf_acc_weight_pos v _ wo hwo hst hone hgen'
    unfold mdWeights at hw
    have hnn : ¬ cfg.ensNum < 0 := by omega
    simp only [hnn, if_false] at hw
    cases hcv : WF.cvVector trial cfg.interfaces cfg.movesTail cfg.cap with
    | error e => rw [hcv] at hw; cases hw
    | ok ws =>
      rw [hcv] at hw
      simp only [Except.mapError, Except.ok.injEq] at hw
      subst hw
      obtain ⟨pmax', i0, ilast, w', _, hh, hlast, hwk, hval⟩ := cvVector_get trial _ _ _ _ hcv k i.m true hm hf
      rw [h0] at hh
      simp only [Option.some.injEq] at hh
      subst hh
      rw [hcap ilast hlast] at hval
      simp only [if_true] at hval
      rw [← e2] at hval
      have e : capOf { i with sc := i.scEns } = capOf i := rfl
      rw [e] at hcw
      simp only at hcw
      rw [hcw] at hval
      simp only [Except.ok.injEq] at hval
      subst hval
      exact ⟨ws, wv, how, hwk, hpos⟩


example : (runMdOne .repaired (mdCfgEx false) (.sh { exIn with scEns := some ⟨true, false⟩ })).toOption.map (·.weights)
      = some (some [1, 1, 0]) ∧ (mdCfgEx false).ensNum = (1 : Nat) ∧ (mdCfgEx false).interfaces.dropLast[1]? = some exIn.m ∧
    (mdCfgEx false).movesTail[1]? = some false := by
  refine ⟨by rw [mdEx_eval]; rfl, rfl, rfl, rfl⟩

example : (runMdOne .repaired (mdCfgEx true) (.wf wfEx)).toOption.map (fun o => (o.weights, o.live))
      = some (some [1, 6, 0], [-1, 0, 1, 2, 3, 5]) ∧ (mdCfgEx true).movesTail[1]? = some true ∧
    (mdCfgEx true).interfaces.head? = some wfEx.l ∧ capOr (mdCfgEx true).cap 4 = capOf wfEx := by
  refine ⟨by rw [mdWfEx_eval]; rfl, rfl, rfl, rfl⟩

/-! ### the acceptance rule outside the scope of `shoot_threshold`: absolute limit, loaded paths, `allowmaxlength` -/

/-- **The absolute limit binds.** A reaching trial longer than `maxlength` is rejected whatever ξ is (drawn limit
    `min(⌊n_old/ξ⌋ + 2, maxlength) ≤ maxlength`): the case `shoot_threshold` excludes by `hML`. -/
theorem shoot_rejects_beyond_maxlength (v : Variant) (i : ShootIn)
    (preB preF restB restF : List Int) (xB xF : Int) (T : ReachingTrial i preB preF restB restF xB xF)
    (maxlen : Nat) (d2 : List Draw) (hd : drawMaxlen i = .ok (maxlen, d2))
    (hbig : i.maxlength < preB.length + preF.length + 3) : ¬ Accepts v i := by
  rw [shoot_accept_iff_limit v i maxlen d2 preB preF restB restF xB xF T hd]
  have := drawMaxlen_le i maxlen d2 hd
  omega

/-- **Loaded paths and `allowmaxlength`.** No ξ is drawn; a reaching trial is accepted iff it fits the absolute limit
    (`L_new ≤ maxlength` for the code as it is). This is the rule every sub-ensemble shoot of wire fencing follows. -/
theorem shoot_accept_iff_allowmax (i : ShootIn)
    (preB preF restB restF : List Int) (xB xF : Int) (T : ReachingTrial i preB preF restB restF xB xF)
    (h : i.allowMax = true ∨ i.genLd = true) :
    Accepts .repaired i ↔ preB.length + preF.length + 3 ≤ i.maxlength := by
  have hd := (shoot_allowmax_ignores_xi .repaired i i.xi h).1
  have := shoot_accept_iff_limit .repaired i _ _ preB preF restB restF xB xF T hd
  simpa [slack] using this

example : ReachingTrial { exIn with allowMax := true, maxlength := 4 } [3] [2] [7] [7] (-1) 5 ∧
    drawMaxlen { exIn with allowMax := true, maxlength := 4 } = .ok (4, []) ∧ (4 : Nat) < [3].length + [2].length + 3 :=
  ⟨⟨by decide, by decide, by decide, by decide, by decide, ⟨rfl, by decide, by decide⟩, ⟨rfl, by decide, by decide⟩,
    by decide, by decide⟩, (shoot_allowmax_ignores_xi .repaired _ 0 (Or.inl rfl)).1, by decide⟩

example : ReachingTrial { exIn with allowMax := true } [3] [2] [7] [7] (-1) 5 ∧
    [3].length + [2].length + 3 ≤ ({ exIn with allowMax := true } : ShootIn).maxlength :=
  ⟨⟨by decide, by decide, by decide, by decide, by decide, ⟨rfl, by decide, by decide⟩, ⟨rfl, by decide, by decide⟩,
    by decide, by decide⟩, by decide⟩

/-! ## Audit repair: "ordered in time" for accepted wire-fencing paths, frames with `vel_rev`
    (model `Infretis/Model/MovesTime.lean`; lemmas `Lemmas/MovesTime.lean`, `Lemmas/MovesTimeLink.lean`)

    Why: the order-value model cannot see whether a wire-fencing path that `subt_acceptance` turned around
    (`Path.reverse`) is still a trajectory — that depends on the `vel_rev` flag of every frame.  Before this section the
    clause "ordered in time" had a theorem for `shoot` only (the structure `xB :: reverse(preB) ++ kick :: preF ++ [xF]` of
    `shoot_acc_member`) and no predicate at all for wire fencing: a `reverse_velocities` that sets the flag instead of
    toggling it (seeded change C09-r5-mut1) left the check silent.

    Engine contract (assumed, implemented by the scripted engine of the tie): a stored phase point is `(traj, t, v)`, one
    MD step moves `t` by the stored velocity sign `v` (reversible dynamics); `propagate(…, system, reverse = d)` flips the
    stored velocity first iff `system.vel_rev ≠ d` and flags every produced frame `vel_rev = d`. -/

/-- the executable predicate (what the driver prints and the tie evaluates on the frames of the REAL path) is the
    statement `TimeOrdered`: consecutive frames are one MD step in the direction of the path apart -/
theorem time_ordered_iff_exec (fs : List TFrame) : timeOrderedB fs = true ↔ TimeOrdered fs := timeOrderedB_iff fs

example : timeOrderedB revExBefore = true ∧ timeOrderedB revExBefore.reverse = false := ⟨revExBefore_eval.1, revExBefore_eval.2.2.2.1⟩

/-- **`Path.reverse` keeps a path ordered in time** (frame list reversed AND every `vel_rev` toggled): the reversed
    path is the same trajectory walked the other way. -/
theorem reverse_keeps_time_order (fs : List TFrame) (h : TimeOrdered fs) : TimeOrdered (reverseT fs) :=
  timeOrdered_of_lined _ (lined_reverseT fs (lined_of_timeOrdered fs h))

/-- **Counterexample: the toggle is needed.** `revExBefore` (a B→A wire-fencing path: two frames from a backward
    propagation, flagged `vel_rev`, then three from a forward one) is ordered in time, and so is `Path.reverse` of it;
    reversing the frame list alone, or setting every flag to `True` instead of toggling (the seeded change), gives a
    path with the same order values that is NOT ordered in time. -/
theorem reverse_without_toggle_counterexample :
    TimeOrdered revExBefore ∧ TimeOrdered (reverseT revExBefore) ∧
    ¬ TimeOrdered (reverseSetTrue revExBefore) ∧ ¬ TimeOrdered revExBefore.reverse ∧
    (reverseSetTrue revExBefore).map (·.op) = (reverseT revExBefore).map (·.op) := by
  obtain ⟨h1, h2, h3, h4, h5⟩ := revExBefore_eval
  refine ⟨(timeOrderedB_iff _).1 h1, (timeOrderedB_iff _).1 h2, ?_, ?_, h5⟩
  · intro h; rw [← timeOrderedB_iff, h3] at h; cases h
  · intro h; rw [← timeOrderedB_iff, h4] at h; cases h

/-- **Accepted shooting paths are ordered in time, frame by frame.** If `shoot` returns `ACC`, the frames of the trial
    path exist (`shootT`, for whatever kicked point `K` the move started from), carry exactly its order values, and are
    ordered in time: the backward frames (flagged `vel_rev`) reversed, then the forward ones, all on the trajectory of
    the kicked point. -/
theorem shoot_acc_time_ordered (v : Variant) (i : ShootIn) (o : ShootOut) (K : TFrame) (h : shoot v i = .ok o)
    (hs : o.status = .ACC) :
    ∃ fs, shootT v i K = some fs ∧ fs.map (·.op) = o.trial ∧ TimeOrdered fs := by
  obtain ⟨fs, h1, h2⟩ := shootT_of_acc v i o K h ((accept_iff_status_acc v i o h).2 hs)
  exact ⟨fs, h1, h2, timeOrdered_of_lined fs (shootT_lined v i K fs h1)⟩

example : shootT .repaired exIn (kickFrame exIn.kick 1 false) = some
    [⟨-1, 1, -2, -1, true⟩, ⟨3, 1, -1, -1, true⟩, ⟨2, 1, 0, -1, true⟩, ⟨2, 1, 1, 1, false⟩, ⟨5, 1, 2, 1, false⟩] := by
  decide +kernel

/-- **Accepted wire-fencing paths are ordered in time** (the clause of the property; `subt_acceptance`'s reversal
    included).  If `wire_fencing` returns `ACC`, the frames of the returned path exist (`wireFencingT`, for whatever
    `vel_rev` flags `krevs` the kicked points carried and whatever frames `seg0T` the old path had), carry exactly the
    order values of the returned path, and are ordered in time. -/
theorem wf_acc_time_ordered (v : Variant) (i : WfIn) (o : WfOut) (krevs : List Bool) (seg0T : List TFrame)
    (h : wireFencing v i = .ok o) (hs : o.status = .ACC) :
    ∃ fs, wireFencingT v i krevs seg0T = some fs ∧ fs.map (·.op) = o.path ∧ TimeOrdered fs := by
  obtain ⟨fs, h1, h2⟩ := wireFencingT_of_acc v i o krevs seg0T h hs
  exact ⟨fs, h1, h2, timeOrdered_of_lined fs (wireFencingT_lined v i krevs seg0T fs h1)⟩

/-- non-vacuity on a move that IS turned around: `wfRevEx` is accepted with the path `-1, 0, 1, 3, 5`, generated as
    `5, 3, 1, 0, -1`; its frames after the reversal -/
example : (wireFencing .repaired wfRevEx).toOption.map (fun o => (o.status, o.path, o.timeOrigin))
      = some (.ACC, [-1, 0, 1, 3, 5], 0) ∧
    wireFencingT .repaired wfRevEx [false] [] = some
      [⟨-1, 1, 3, 1, true⟩, ⟨0, 1, 2, 1, true⟩, ⟨1, 1, 1, 1, true⟩, ⟨3, 1, 0, -1, false⟩, ⟨5, 1, -1, -1, false⟩] :=
  ⟨wfRevEx_eval, wfRevEx_frames⟩

/-- **End to end.** The path `run_md` installs after an accepted wire-fencing job is ordered in time. -/
theorem run_md_one_wf_time_ordered (v : Variant) (cfg : MdCfg) (i : WfIn) (o : MdOneOut) (krevs : List Bool)
    (seg0T : List TFrame) (h : runMdOne v cfg (.wf i) = .ok o) (hs : o.status = .ACC) :
    ∃ fs, wireFencingT v { i with sc := i.scEns } krevs seg0T = some fs ∧ fs.map (·.op) = o.live ∧ TimeOrdered fs := by
  obtain ⟨_, _, h3⟩ := run_md_one_commits_iff_acc v cfg _ o h
  obtain ⟨trial, hm, hl, _⟩ := h3 hs
  simp only [runMove] at hm
  split at hm
  · cases hm
  · rename_i wo hwo
    simp only [Except.ok.injEq, Prod.mk.injEq] at hm
    obtain ⟨hst, e2, _⟩ := hm
    obtain ⟨fs, f1, f2, f3⟩ := wf_acc_time_ordered v _ wo krevs seg0T hwo hst
    exact ⟨fs, f1, by rw [f2, hl, e2], f3⟩

example : (runMdOne .repaired (mdCfgEx true) (.wf wfEx)).toOption.map (·.status) = some .ACC := by
  rw [mdWfEx_eval]; rfl

/-- **Accepted shooting paths respect the DRAWN length limit** (not only `maxlength`): with `maxlen` the limit the move
    computed (`min(⌊(L_old−2)/ξ⌋ + 2, maxlength)`, or `maxlength` for loaded paths / `allowmaxlength`), an accepted
    trial path has at most `maxlen` frames. -/
theorem shoot_acc_within_drawn_limit (v : Variant) (i : ShootIn) (o : ShootOut) (h : shoot v i = .ok o)
    (hs : o.status = .ACC) :
    ∃ maxlen d2, drawMaxlen i = .ok (maxlen, d2) ∧ o.trial.length ≤ maxlen ∧ maxlen ≤ i.maxlength := by
  obtain ⟨maxlen, d2, pb, uB, e, pf, uF, _, _, _, _, _, hd, hfb, _, _, _, hff, _, ho⟩ := shoot_acc_inv v i o h hs
  refine ⟨maxlen, d2, hd, ?_, drawMaxlen_le i maxlen d2 hd⟩
  have hM1 : 0 < maxlen - 1 := by
    rcases Nat.eq_zero_or_pos (maxlen - 1) with h0 | h0
    · rw [h0, feedV_zero] at hfb; cases hfb
    · exact h0
  obtain ⟨qb, hpb, _, _, hlenb, _⟩ := feedV_shape v i.l i.r (maxlen - 1) _ [] 0 pb true uB (by simpa using hM1) hfb
  have hM2 : 0 < maxlen - pb.length + 1 := by omega
  obtain ⟨qf, hpf, _, hne, hlenf, _⟩ := feedV_shape v i.l i.r (maxlen - pb.length + 1) _ [] 0 pf true uF
    (by simp) hff
  subst ho
  simp only
  rw [paste_take]
  have hpfne : pf ≠ [] := by
    rw [hpf]; simpa using hne (by simp)
  have : pf.tail.length + 1 = pf.length := by
    cases pf with
    | nil => exact absurd rfl hpfne
    | cons a t => simp
  simp only [List.length_take, List.length_append, List.length_reverse]
  omega

example : ∃ o, shoot .repaired exIn = .ok o ∧ o.status = .ACC ∧ o.trial.length = 5 := by
  have h := exIn_eval
  cases hs : shoot .repaired exIn with
  | error e => rw [hs] at h; cases h
  | ok o =>
    rw [hs] at h; simp only [Except.toOption, Option.some.injEq] at h; subst h
    exact ⟨_, rfl, rfl, rfl⟩

end Infretis.C09
