import Infretis.Props.C10Core
import Infretis.Props.C10Ext
import Infretis.Props.C10Audit
/-!
# C10 — wire-fencing weights are exact, symmetric and drive segment choice

The property theorems (all in `namespace Infretis.C10`) live in two files:
* `Props/C10Core.lean` — the scan equals the scan-free specification, reversal symmetry, positivity, the pick law,
  valid segments, the wire-fencing move seed, `compute_weight`, the shape of the weight vector;
* `Props/C10Ext.lean` — extension pass (model `Model/WFExt.lean`): the traced scan, the frames of the segment handed on
  by the pick, move strings, `calc_cv_vector` for every ensemble kind, `high_acc_swap`, the call sites.
-/
