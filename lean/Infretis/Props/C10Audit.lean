import Infretis.Props.C10Ext
import Infretis.Lemmas.WFAudit
import Infretis.Lemmas.WFSegsSpec
/-!
# C10, audit pass — repairs after the independent audit

1. `left > right` (a cap below the ensemble's interface — nothing in the weight functions forbids it): the scan
   never records a segment and the specification counts nothing, so exactness, symmetry, positivity, validity and
   the statements built on them hold for ALL left/right pairs.  The guarded theorems of `C10Core`/`C10Ext` keep
   their names and signatures (other packages cite them); the `_all` versions below drop the guard.
2. Time reversal of the weight INCLUDING the doubling (`compute_weight`) and of the whole weight vector
   (`calc_cv_vector`): the property's "unchanged under time reversal" was proved for the scan weight only.
3. `REPEX_state.load_paths` loops over `range(size − 1)` with the STATE's size, not over the paths it is given:
   `Infretis.WFExt.loadPathsWeights` (every given path is weighed) is faithful only when the two numbers agree
   (`load_paths_count_counterexample`); `loadPathsWeightsN` is the function the driver runs now.
5. `path_arr` is EXACTLY the list of valid sub-paths, in path order, none twice (`scan_segments_valid` gave only
   "every recorded segment is valid"; nothing excluded a missed or a doubly recorded sub-path apart from the sum).
4. `run_md` weighs EVERY trial of `zip(trials, picked.keys())` with the `minus` flag of its own ensemble number
   (two trials after a zero swap): `runMdAll`.
-/
namespace Infretis.C10
open Infretis.WF Infretis.WFExt

/-! ## 1. every left/right pair -/

/-- **Exactness, every left/right pair.** -/
theorem scan_weight_eq_spec_all (l r : Int) (ops : List Int) : weight l r ops = specWeight l r ops := by
  by_cases hlr : l ≤ r
  · exact scan_weight_eq_spec l r hlr ops
  · rw [weight_of_gt l r (by omega), specWeight_of_gt l r (by omega)]

example : weight 2 0 [-1, 1, 3, 1, -1] = 0 ∧ specWeight 2 0 [-1, 1, 3, 1, -1] = 0 ∧
    weight 0 2 [-1, 1, 3, 1, -1] = 2 := by decide

/-- **Symmetry, every left/right pair.** -/
theorem weight_reverse_all (l r : Int) (ops : List Int) : weight l r ops.reverse = weight l r ops := by
  rw [scan_weight_eq_spec_all, scan_weight_eq_spec_all, spec_reverse]

/-- **Positivity, every left/right pair.** -/
theorem weight_pos_iff_all (l r : Int) (ops : List Int) :
    0 < weight l r ops ↔
      ∃ pre x suf, ops = pre ++ x :: suf ∧ validAt l r pre.reverse x suf = true := by
  rw [scan_weight_eq_spec_all]
  unfold specWeight
  simpa using countFrom_pos_iff l r ops []

example : 0 < weight 0 2 [-1, 1, 3] := by decide

/-- **Segments, every left/right pair** (for `left > right` the scan records none). -/
theorem scan_segments_valid_all (l r : Int) (ops : List Int) :
    ∀ seg ∈ (scan l r ops).arr, ValidSeg l r ops seg := by
  by_cases hlr : l ≤ r
  · exact scan_segments_valid l r hlr ops
  · intro seg hs
    rw [scan_arr_of_gt l r (by omega)] at hs
    simp at hs

example : (2, 5, 2) ∈ (scan 0 2 [-1, 1, -1, 1, 1, -1]).arr := by decide

/-- the picked segment is the sub-path, without `l ≤ r` -/
theorem picked_segment_is_the_subpath_all (maxlen : Option Nat) (l r : Int) (ops : List Int) (xi : Rat)
    (hmax : ∀ m, maxlen = some m → ops.length ≤ m) (o : PickOut)
    (h : wfWeightAndPick maxlen l r ops true (some xi) = .ok o) (hc : o.seg.copied = true) :
    ∃ b c, pick l r ops xi = some (o.seg.first, b, c) ∧ (o.seg.first, b, c) ∈ (scan l r ops).arr ∧
      o.seg.frames = (ops.drop o.seg.first).take (b + 1 - o.seg.first) ∧
      ∃ p mid q, o.seg.frames = p :: (mid ++ [q]) ∧ mid.length = c ∧ (∀ x ∈ mid, inside l r x = true) ∧
        inside l r p = false ∧ inside l r q = false ∧ ¬ (p ≥ r ∧ q ≥ r) ∧
        o.nFrames = weight l r ops ∧ 0 < o.nFrames ∧ o.draws = 1 := by
  by_cases hlr : l ≤ r
  · exact picked_segment_is_the_subpath maxlen l r hlr ops xi hmax o h hc
  · exfalso
    have harr := scan_arr_of_gt l r (by omega) ops
    unfold wfWeightAndPick at h
    simp [harr, sumLens] at h
    subst h
    simp [Seg.empty] at hc

example : ∃ o, wfWeightAndPick (some 7) 1 3 [0, 1, 2, 4, 2, 1, 0] true (some (1 / 2)) = .ok o ∧ o.seg.copied = true :=
  ⟨{ nFrames := 4, seg := { frames := [0, 1, 2, 4], first := 0, maxlen := some 7, copied := true }, draws := 1 },
    by decide +kernel, rfl⟩

/-- `wire_fencing`'s seed, without `λ_i ≤ cap` (a cap below the interface: always "NSG") -/
theorem wfSeed_frames_all (maxlen : Option Nat) (i1 i2 : Int) (cap : Option Int)
    (ops : List Int) (xi : Rat) (hx : xi ≤ 1) (hmax : ∀ m, maxlen = some m → ops.length ≤ m) :
    (weight i1 (cap.getD i2) ops = 0 → wfSeed maxlen i1 i2 cap ops xi = .ok none) ∧
    (0 < weight i1 (cap.getD i2) ops →
      ∃ a b c, pick i1 (cap.getD i2) ops xi = some (a, b, c) ∧
        ValidSeg i1 (cap.getD i2) ops (a, b, c) ∧
        wfSeed maxlen i1 i2 cap ops xi =
          .ok (some ([i1, i1, cap.getD i2],
                     { frames := (ops.drop a).take (b + 1 - a), first := a, maxlen := maxlen, copied := true }))) ∧
    (cap.getD i2 < i1 → wfSeed maxlen i1 i2 cap ops xi = .ok none) := by
  by_cases hc : i1 ≤ cap.getD i2
  · obtain ⟨h1, h2⟩ := wfSeed_frames maxlen i1 i2 cap hc ops xi hx hmax
    exact ⟨h1, h2, fun h => absurd hc (by omega)⟩
  · have hw : weight i1 (cap.getD i2) ops = 0 := weight_of_gt _ _ (by omega) ops
    have hnone : wfSeed maxlen i1 i2 cap ops xi = .ok none := by
      have hargs : wfCallArgs i1 i2 cap = ([i1, i1, cap.getD i2], i1, cap.getD i2) := by cases cap <;> rfl
      unfold wfSeed
      rw [hargs]
      unfold wfWeightAndPick
      unfold weight at hw
      simp [hw]
    exact ⟨fun _ => hnone, fun h => absurd h (by omega), fun _ => hnone⟩

example : wfSeed (some 100) 3 5 (some 1) [0, 1, 2, 4, 2, 1, 0] (1 / 2) = .ok none := by decide +kernel

/-- `compute_weight` for "wf" in the property's words, every middle/right pair -/
theorem computeWeightM_wf_spec_all (ops : List Int) (i0 i1 i2 first last : Int) (h02 : i0 ≤ i2)
    (hf : ops.head? = some first) (hl : ops.getLast? = some last) :
    computeWeightM ops i0 i1 i2 .wf =
      .ok ((if sidesDiffer (startPoint i0 i2 first) (endPoint i0 i2 last) then 2 else 1) * specWeight i1 i2 ops) := by
  rw [(computeWeightM_moves ops i0 i1 i2).1, computeWeight_wf ops i0 i1 i2 first last h02 hf hl,
    scan_weight_eq_spec_all i1 i2]
  split <;> simp

example : computeWeightM [-1, 1, 3, 1, -1] 0 2 1 .wf = .ok 0 := by decide

/-- **The weight vector, every ensemble kind, every cap** — `cv_vector_entries` without its guard `λ_k ≤ cap` on the
    wire-fencing entries (for `cap < λ_k` the entry is 0 = the number of frames in the empty region). -/
theorem cv_vector_entries_all (ops : List Int) (a : CvArgs) (ws : List Nat) (h : calcCvVector ops a = .ok ws) :
    ∃ pmax first last, maxOf ops = some pmax ∧ ops.head? = some first ∧ ops.getLast? = some last ∧
    (a.minus = true →
      ∃ bound, (a.lm1 = some bound ∨ (a.lm1 = none ∧ a.interfaces.head? = some bound)) ∧
        ws = [if bound ≤ pmax then 1 else 0]) ∧
    (a.minus = false →
      ws.length = max a.interfaces.length 1 ∧ ws.getLast? = some 0 ∧
      ∀ i0 ilast, a.interfaces.head? = some i0 → a.interfaces.getLast? = some ilast →
        ∀ k (hk : k + 1 < a.interfaces.length) (hw : k < ws.length),
          ∃ mv, a.moves[k + 1]? = some mv ∧
            (mv ≠ .wf → ws[k] = if a.interfaces[k] ≤ pmax then 1 else 0) ∧
            (mv = .wf → i0 ≤ a.cap.getD ilast ∧
              ws[k] = (if sidesDiffer (startPoint i0 (a.cap.getD ilast) first) (endPoint i0 (a.cap.getD ilast) last)
                       then 2 else 1) * specWeight a.interfaces[k] (a.cap.getD ilast) ops)) := by
  obtain ⟨pmax, first, last, hm, hf, hl, hminus, hplus⟩ := cv_vector_entries ops a ws h
  refine ⟨pmax, first, last, hm, hf, hl, hminus, ?_⟩
  intro hmin
  obtain ⟨hlen, hlast, hent⟩ := hplus hmin
  refine ⟨hlen, hlast, ?_⟩
  intro i0 ilast h0 hlst k hk hw
  obtain ⟨mv, hmv, hsh, hwf⟩ := hent i0 ilast h0 hlst k hk hw
  refine ⟨mv, hmv, hsh, ?_⟩
  intro hmvwf
  by_cases hkc : a.interfaces[k] ≤ a.cap.getD ilast
  · exact hwf hmvwf hkc
  · -- cap below λ_k: go back to the loop
    unfold calcCvVector at h
    simp only [hm, hmin, Bool.false_eq_true, if_false, h0, hlst] at h
    split at h
    · simp at h
    · rename_i ws' hws
      injection h with h
      subst h
      obtain ⟨hlen', hget⟩ := cvLoop_get ops i0 _ pmax _ _ _ hws
      have hk' : k < a.interfaces.dropLast.length := by simp; omega
      have hw' : k < ws'.length := by omega
      obtain ⟨mv', hmv', hval⟩ := hget k hk' hw'
      have hmv'' : mv' = mv := by
        have h2 : (a.moves.drop 1)[k]? = a.moves[k + 1]? := by simp [List.getElem?_drop, Nat.add_comm]
        rw [h2, hmv] at hmv'
        exact (Option.some.inj hmv').symm
      subst hmv''
      rw [if_pos hmvwf] at hval
      have hidx : a.interfaces.dropLast[k] = a.interfaces[k] := by simp [List.getElem_dropLast]
      rw [hidx] at hval
      have h02 : i0 ≤ a.cap.getD ilast := by
        by_contra hcon
        unfold computeWeightM at hval
        simp [hcon] at hval
      refine ⟨h02, ?_⟩
      rw [computeWeightM_wf_spec_all ops i0 _ _ first last h02 hf hl] at hval
      have hwk : (ws' ++ [0])[k] = ws'[k] := by simp [List.getElem_append_left hw']
      rw [hwk]
      exact (Except.ok.inj hval).symm

-- a cap (1) below the wire-fencing ensemble's interface (2): the entry is 0
example : calcCvVector [-1, 1, 3, 5, 3, -1]
    { interfaces := [0, 2, 4, 6], moves := [.sh, .sh, .wf, .sh], lm1 := none, cap := some 1, minus := false } =
    .ok [1, 0, 1, 0] := by decide

/-! ## 2. time reversal of the doubled weight and of the weight vector -/

/-- **`compute_weight` is unchanged under time reversal**, doubling included, for every move string, every
    interface triple, errors included. -/
theorem computeWeightM_reverse (ops : List Int) (i0 i1 i2 : Int) (mv : Move) :
    computeWeightM ops.reverse i0 i1 i2 mv = computeWeightM ops i0 i1 i2 mv := by
  unfold computeWeightM
  rw [weight_reverse_all]
  simp only [List.head?_reverse, List.getLast?_reverse]
  cases hh : ops.head? with
  | none =>
    have : ops = [] := by simpa using hh
    subst this
    rfl
  | some first =>
    cases hl : ops.getLast? with
    | none =>
      have : ops = [] := by simpa using hl
      subst this
      simp at hh
    | some last =>
      simp only []
      rw [sidesDiffer_comm, startPoint_eq_endPoint, ← startPoint_eq_endPoint i0 i2 first]

example : computeWeightM [-1, 1, 3, 5].reverse 0 0 4 .wf = .ok 4 ∧ computeWeightM [-1, 1, 3, 5] 0 0 4 .wf = .ok 4 := by
  decide

theorem cvLoop_reverse (ops : List Int) (i0 c pmax : Int) : ∀ (intfs : List Int) (mvs : List Move),
    cvLoop ops.reverse i0 c pmax intfs mvs = cvLoop ops i0 c pmax intfs mvs := by
  intro intfs
  induction intfs with
  | nil => intro mvs; simp [cvLoop]
  | cons a is ih =>
    intro mvs
    cases mvs with
    | nil => simp [cvLoop]
    | cons m ms => simp only [cvLoop, computeWeightM_reverse, ih]

/-- **The weight vector is unchanged under time reversal**: every argument combination of `calc_cv_vector`
    (minus / plus, any cap, any moves), errors included. -/
theorem calcCvVector_reverse (ops : List Int) (a : CvArgs) :
    calcCvVector ops.reverse a = calcCvVector ops a := by
  unfold calcCvVector
  simp only [maxOf_reverse, cvLoop_reverse]

example : calcCvVector [-1, 1, 3, 5, 3, 7].reverse
    { interfaces := [0, 2, 4, 6], moves := [.sh, .sh, .wf, .sh], lm1 := none, cap := some 5, minus := false } =
    .ok [1, 2, 1, 0] := by decide

/-! ## 3. load_paths with the state's own size -/

/-- `loadPathsWeights` (every given path weighed) is what `load_paths` does exactly when the number of paths equals
    the state's size -/
theorem loadPathsWeightsN_of_length (intfs : List Int) (moves : List Move) (lm1 cap : Option Int)
    (paths : List (List Int)) :
    loadPathsWeightsN paths.length intfs moves lm1 cap paths =
      (match loadPathsWeights intfs moves lm1 cap paths with
       | .ok wss => .ok (wss.map some)
       | .error e => .error e) := by
  cases paths with
  | nil => simp [loadPathsWeightsN, loadPlusIdx, loadPathsWeights]
  | cons p0 plus =>
    have hidx := loadPlusIdx_eq_loadPlus intfs moves lm1 cap plus [p0]
    simp only [List.singleton_append, List.length_singleton] at hidx
    unfold loadPathsWeightsN loadPathsWeights
    simp only [List.length_cons, Nat.add_sub_cancel, hidx]
    cases h : loadPlus intfs moves lm1 cap plus with
    | error e => rfl
    | ok ws =>
      have hl : ws.length = plus.length := (loadPlusIdx_spec intfs moves lm1 cap (p0 :: plus) _ _ ws (hidx ▸ h)).1
      simp [hl]

/-- OLD MODEL vs CODE (audit finding): three ensembles, two paths — `load_paths` raises IndexError at `paths[2]`
    (and has already weighed `paths[1]`), the size-blind model returned weights for both paths; four paths — the
    fourth is never looked at, the old model weighed it. -/
theorem load_paths_count_counterexample :
    loadPathsWeightsN 3 [0, 2, 4] [.sh, .wf, .sh] none none [[1, -1, 1], [-1, 1, 5]] = .error .index ∧
    loadPathsWeights [0, 2, 4] [.sh, .wf, .sh] none none [[1, -1, 1], [-1, 1, 5]] = .ok [[1], [2, 1, 0]] ∧
    loadPathsWeightsN 3 [0, 2, 4] [.sh, .wf, .sh] none none [[1, -1, 1], [-1, 1, 5], [-1, 3, 5], [-1, 3, -1]] =
      .ok [some [1], some [2, 1, 0], some [2, 1, 0], none] := by
  decide

/-- **What `load_paths` assigns, for a state of any size.**  When it returns: one entry per given path; the [0-] path
    gets `(1,)`; there are at least `size` paths (for `size ≥ 1`); path `j` with `1 ≤ j < size` gets the weight vector
    of `calc_cv_vector` with the configured interfaces, moves and cap; every path from index `max size 1` on is left
    without weights. -/
theorem load_paths_sized (size : Nat) (intfs : List Int) (moves : List Move) (lm1 cap : Option Int)
    (paths : List (List Int)) (out : List (Option (List Nat)))
    (h : loadPathsWeightsN size intfs moves lm1 cap paths = .ok out) :
    out.length = paths.length ∧ out.head? = some (some [1]) ∧ size ≤ max paths.length 1 ∧
    (∀ j, 1 ≤ j → j < size → ∃ p w, paths[j]? = some p ∧ loadPathWeights intfs moves lm1 cap p = .ok w ∧
        out[j]? = some (some w)) ∧
    (∀ j, max size 1 ≤ j → j < paths.length → out[j]? = some none) := by
  unfold loadPathsWeightsN at h
  cases hw : loadPlusIdx intfs moves lm1 cap paths 1 (size - 1) with
  | error e => simp [hw] at h
  | ok ws =>
    simp only [hw] at h
    cases paths with
    | nil => simp at h
    | cons p0 rest =>
      simp only at h
      injection h with h
      subst h
      obtain ⟨hl, hb, hget⟩ := loadPlusIdx_spec intfs moves lm1 cap (p0 :: rest) _ _ ws hw
      simp only [List.length_cons] at hb
      have hle : ws.length ≤ rest.length := by omega
      refine ⟨by simp; omega, rfl, by simp; omega, ?_, ?_⟩
      · intro j h1 h2
        obtain ⟨p, w, hp, hpw, hwt⟩ := hget (j - 1) (by omega)
        refine ⟨p, w, ?_, hpw, ?_⟩
        · rw [← hp]; congr 1; omega
        · obtain ⟨j', rfl⟩ : ∃ j', j = j' + 1 := ⟨j - 1, by omega⟩
          have hj' : j' < ws.length := by omega
          simp only [Nat.add_sub_cancel] at hwt
          rw [List.getElem?_cons_succ, List.getElem?_append_left (by simpa using hj')]
          simp [hwt]
      · intro j h1 h2
        obtain ⟨j', rfl⟩ : ∃ j', j = j' + 1 := ⟨j - 1, by omega⟩
        simp only [List.length_cons] at h2
        have hj' : ws.length ≤ j' := by omega
        rw [List.getElem?_cons_succ, List.getElem?_append_right (by simpa using hj')]
        simp only [List.length_map]
        rw [List.getElem?_replicate]
        rw [if_pos (by omega)]

example : loadPathsWeightsN 4 [0, 2, 4, 6] [.sh, .sh, .wf, .sh] none (some 5)
    [[1, -1, 1], [-1, 1, 3, 5, 3, -1], [-1, 1, 3, 5, 3, -1], [-1, 7]] =
    .ok [some [1], some [1, 2, 1, 0], some [1, 2, 1, 0], some [1, 0, 1, 0]] := by decide

/-! ## 4. run_md over all its trials -/

/-- **Every trial of one `run_md` call gets the vector of its own ensemble.**  When `run_md` returns, it has looked
    at `min(#trials, #picked)` trials; for status "ACC" trial `k` carries `calc_cv_vector(…, minus = ens_k < 0)` with
    the λ₋₁ of ITS ensemble and the one cap / interface list / move list of `md_items` (`runMdWeights`, the function
    `load_and_run_md_agree` and `cv_vector_entries` are about); for any other status no trial gets weights. -/
theorem run_md_each_trial (intfs : List Int) (moves : List Move) (cap : Option Int) (acc : Bool)
    (trials : List (List Int)) (keys : List (Int × Option Int)) (out : List (Option (List Nat)))
    (h : runMdAll intfs moves cap acc trials keys = .ok out) :
    out.length = min trials.length keys.length ∧
    ∀ k (hk : k < out.length) (ht : k < trials.length) (hq : k < keys.length),
      (acc = true → ∃ w, out[k] = some w ∧
          runMdWeights intfs moves keys[k].2 cap keys[k].1 trials[k] = .ok w) ∧
      (acc = false → out[k] = none) := by
  obtain ⟨hl, hget⟩ := runMdAll_spec intfs moves cap acc trials keys out h
  refine ⟨hl, ?_⟩
  intro k hk ht hq
  have h1 := hget k hk ht hq
  unfold runMdOne at h1
  split at h1
  · simp at h1
  · split at h1
    · simp at h1
    · constructor
      · intro ha
        simp only [ha, if_true] at h1
        cases hw : runMdWeights intfs moves keys[k].2 cap keys[k].1 trials[k] with
        | error e => simp [hw] at h1
        | ok w =>
          simp only [hw] at h1
          injection h1 with h1
          exact ⟨w, h1.symm, rfl⟩
      · intro ha
        simp only [ha] at h1
        injection h1 with h1
        exact h1.symm

-- a zero swap: the new [0-] path gets (1,) by λ₀ ≤ max, the new [0+] path the full vector
example : runMdAll [0, 2, 4] [.sh, .wf, .sh] none true [[1, -1, 1], [-1, 1, 5]] [(-1, none), (0, none)] =
    .ok [some [1], some [2, 1, 0]] := by decide

/-! ## 5. `path_arr` is exactly the list of valid sub-paths -/

/-- **The scan's `path_arr` is the scan-free list of valid sub-paths** (`specSegs`: one walk with the nearest outside
    frame and the length of the current inside run; no keys), for every left/right pair and every path. -/
theorem path_arr_eq_valid_subpaths (l r : Int) (ops : List Int) : (scan l r ops).arr = specSegs l r ops :=
  Infretis.WFExt.scan_arr_eq_specSegs l r ops

/-- **Soundness and completeness of `path_arr`.**  `(a, b, c)` is recorded iff frames `a < b` lie outside `[l, r)` and
    are not both on the right, all `c = b − a − 1 ≥ 1` frames between them lie inside. -/
theorem path_arr_mem_iff (l r : Int) (ops : List Int) (seg : Nat × Nat × Nat) :
    seg ∈ (scan l r ops).arr ↔ ValidSeg l r ops seg := by
  rw [path_arr_eq_valid_subpaths]
  exact mem_specSegs_iff l r ops seg

/-- recorded in path order, each sub-path ending no later than the next one starts; hence none twice -/
theorem path_arr_sorted (l r : Int) (ops : List Int) :
    (scan l r ops).arr.Pairwise (fun s u => s.2.1 ≤ u.1) ∧ (scan l r ops).arr.Nodup := by
  rw [path_arr_eq_valid_subpaths]
  exact ⟨(specSegs_sorted l r ops).1, specSegs_nodup l r ops⟩

/-- **Pick law over the valid sub-paths.**  For a draw `0 < ξ`, the segment handed back is the valid sub-path at the
    position whose cumulative frame counts bracket `ξ·n`, `n` = the number of frames on all valid sub-paths. -/
theorem pick_law_valid_subpaths (l r : Int) (ops : List Int) (xi : Rat) (hxi : 0 < xi) (seg : Nat × Nat × Nat) :
    pick l r ops xi = some seg ↔
      0 < specWeight l r ops ∧
      ∃ pre post, specSegs l r ops = pre ++ seg :: post ∧
        ((sumLens pre : Nat) : Rat) < xi * (specWeight l r ops : Rat) ∧
        xi * (specWeight l r ops : Rat) ≤ ((sumLens pre + seg.2.2 : Nat) : Rat) := by
  rw [pick_law l r ops xi hxi seg, scan_weight_eq_spec_all, path_arr_eq_valid_subpaths]

example : specSegs 0 2 [-1, 1, 3, 1, 3, -1, 0, 1, -1] = [(0, 2, 1), (5, 8, 2)] ∧
    (scan 0 2 [-1, 1, 3, 1, 3, -1, 0, 1, -1]).arr = [(0, 2, 1), (5, 8, 2)] := by decide
example : ValidSeg 0 2 [-1, 1, 3, 1, 3, -1, 0, 1, -1] (5, 8, 2) :=
  (path_arr_mem_iff 0 2 _ _).1 (by decide)

end Infretis.C10
