import Infretis.Lemmas.WF
import Infretis.Lemmas.WFSeg
import Mathlib.Algebra.Order.Field.Rat
import Mathlib.Tactic.Linarith
/-!
# C10 — wire-fencing weights are exact, symmetric and drive segment choice

Property theorems only (helper lemmas live in `Infretis/Lemmas/WF.lean`).
Model: `Infretis/Model/WF.lean` (mirrors tis.py `wirefence_weight_and_pick`,
`compute_weight`, `calc_cv_vector`).  All statements are for order sequences of any length.
-/
namespace Infretis.C10
open Infretis.WF

/-- **Exactness.** The five-branch scan returns the number of frames inside `[l, r)` lying on
    sub-paths connecting left-left, left-right or right-left. -/
theorem scan_weight_eq_spec (l r : Int) (hlr : l ≤ r) (ops : List Int) :
    weight l r ops = specWeight l r ops := by
  rw [weight_eq_runs l r hlr, runs_none_eq_spec]

example : weight 0 2 [-1, 0, 1, 0, -1, 3, 1, 3, 1, -1] = 4 ∧ (0 : Int) ≤ 2 := by decide

/-! ### time-reversal symmetry -/

theorem validAt_symm (l r : Int) (L R : List Int) (x : Int) :
    validAt l r L x R = validAt l r R x L := by
  simp [validAt, closes_comm]

theorem countFrom_shift (l r : Int) (L R : List Int) (x : Int) :
    countFrom l r (x :: R) L + countFrom l r L (x :: R)
      = countFrom l r R (x :: L) + countFrom l r (x :: L) R := by
  simp only [countFrom]
  rw [validAt_symm l r L R x]
  omega

theorem countFrom_total (l r : Int) : ∀ (R L : List Int),
    countFrom l r R L + countFrom l r L R
      = countFrom l r [] (R.reverse ++ L) + countFrom l r (R.reverse ++ L) [] := by
  intro R
  induction R with
  | nil => intro L; simp
  | cons x R ih =>
    intro L
    rw [countFrom_shift, ih (x :: L)]
    simp

/-- **Symmetry.** The weight is unchanged under time reversal of the path. -/
theorem spec_reverse (l r : Int) (ops : List Int) :
    specWeight l r ops.reverse = specWeight l r ops := by
  have h := countFrom_total l r ops []
  simp only [List.append_nil] at h
  unfold specWeight
  simp only [countFrom] at h
  omega

theorem weight_reverse (l r : Int) (hlr : l ≤ r) (ops : List Int) :
    weight l r ops.reverse = weight l r ops := by
  rw [scan_weight_eq_spec l r hlr, scan_weight_eq_spec l r hlr, spec_reverse]

example : weight 0 2 [3, 1, -1, 1, 1, -1].reverse = weight 0 2 [3, 1, -1, 1, 1, -1]
    ∧ weight 0 2 [3, 1, -1, 1, 1, -1] = 3 := by decide

/-! ### positivity -/

theorem countFrom_pos_iff (l r : Int) : ∀ (R L : List Int),
    0 < countFrom l r L R ↔
      ∃ pre x suf, R = pre ++ x :: suf ∧ validAt l r (pre.reverse ++ L) x suf = true := by
  intro R
  induction R with
  | nil => intro L; simp [countFrom]
  | cons y t ih =>
    intro L
    simp only [countFrom]
    constructor
    · intro h
      by_cases hv : validAt l r L y t = true
      · exact ⟨[], y, t, rfl, by simpa using hv⟩
      · have : 0 < countFrom l r (y :: L) t := by
          simp [hv] at h; exact h
        obtain ⟨pre, x, suf, he, hx⟩ := (ih (y :: L)).1 this
        exact ⟨y :: pre, x, suf, by simp [he], by simpa using hx⟩
    · rintro ⟨pre, x, suf, he, hx⟩
      cases pre with
      | nil =>
        simp at he
        obtain ⟨rfl, rfl⟩ := he
        simp at hx
        simp [hx]
      | cons z pre =>
        simp at he
        obtain ⟨rfl, rfl⟩ := he
        have : 0 < countFrom l r (y :: L) (pre ++ x :: suf) :=
          (ih (y :: L)).2 ⟨pre, x, suf, rfl, by simpa using hx⟩
        omega

/-- **Positivity.** The weight is positive exactly when some frame lies inside `[l, r)` on a
    valid sub-path (`pre`/`suf` = the frames before/after it). -/
theorem weight_pos_iff (l r : Int) (hlr : l ≤ r) (ops : List Int) :
    0 < weight l r ops ↔
      ∃ pre x suf, ops = pre ++ x :: suf ∧ validAt l r pre.reverse x suf = true := by
  rw [scan_weight_eq_spec l r hlr]
  unfold specWeight
  simpa using countFrom_pos_iff l r ops []

example : ∃ pre x suf, [(-1 : Int), 1, 3] = pre ++ x :: suf ∧ validAt 0 2 pre.reverse x suf = true :=
  ⟨[-1], 1, [3], rfl, by decide⟩

/-! ### the proportional pick -/

theorem ge_div_iff (n : Nat) (hn : 0 < n) (c : Nat) (xi : Rat) :
    (((c : Int) : Rat) / ((n : Int) : Rat) ≥ xi) ↔ xi * (n : Rat) ≤ (c : Rat) := by
  have hn' : (0 : Rat) < ((n : Int) : Rat) := by exact_mod_cast hn
  rw [ge_iff_le, le_div_iff₀ hn']
  norm_cast

theorem sumLens_cons (x : Nat × Nat × Nat) (a : List (Nat × Nat × Nat)) :
    sumLens (x :: a) = x.2.2 + sumLens a := by
  simp [sumLens]

/-- **Pick law.** With `n` the total weight and `cum < ξ·n` so far (initially `0 < ξ·n`, i.e.
    ξ > 0), the walk over the segment list returns `seg` exactly when `seg` sits at a position
    whose cumulative counts bracket `ξ·n`: `cum_before < ξ·n ≤ cum_before + len seg`.
    Hence the set of ξ selecting a given segment is a half-open interval of length
    `len seg / n`: probability proportional to its frame count. -/
theorem pickGo_law (n : Nat) (hn : 0 < n) (xi : Rat) :
    ∀ (arr : List (Nat × Nat × Nat)) (cum : Nat) (seg : Nat × Nat × Nat),
      ((cum : Nat) : Rat) < xi * (n : Rat) →
      (pickGo n xi cum arr = some seg ↔
        ∃ pre post, arr = pre ++ seg :: post ∧
          ((cum + sumLens pre : Nat) : Rat) < xi * (n : Rat) ∧
          xi * (n : Rat) ≤ ((cum + sumLens pre + seg.2.2 : Nat) : Rat)) := by
  intro arr
  induction arr with
  | nil => intro cum seg _; simp [pickGo]
  | cons s t ih =>
    intro cum seg hc
    simp only [pickGo]
    by_cases h : (((cum + s.2.2 : Nat) : Int) : Rat) / ((n : Int) : Rat) ≥ xi
    · rw [if_pos h]
      rw [ge_div_iff n hn] at h
      constructor
      · intro he
        cases he
        exact ⟨[], t, rfl, by simpa [sumLens] using hc, by simpa [sumLens] using h⟩
      · rintro ⟨pre, post, he, h1, h2⟩
        cases pre with
        | nil => simp at he; rw [he.1]
        | cons z pre =>
          simp at he
          obtain ⟨rfl, rfl⟩ := he
          rw [sumLens_cons] at h1
          have : ((cum + s.2.2 : Nat) : Rat) ≤ ((cum + (s.2.2 + sumLens pre) : Nat) : Rat) := by
            exact_mod_cast (by omega : cum + s.2.2 ≤ cum + (s.2.2 + sumLens pre))
          linarith
    · rw [if_neg h]
      rw [ge_div_iff n hn, not_le] at h
      rw [ih (cum + s.2.2) seg h]
      constructor
      · rintro ⟨pre, post, he, h1, h2⟩
        refine ⟨s :: pre, post, by simp [he], ?_, ?_⟩
        · rw [sumLens_cons]; rw [← Nat.add_assoc]; exact h1
        · rw [sumLens_cons]; rw [← Nat.add_assoc cum]; exact h2
      · rintro ⟨pre, post, he, h1, h2⟩
        cases pre with
        | nil =>
          simp at he
          obtain ⟨rfl, rfl⟩ := he
          simp [sumLens] at h2
          push_cast at h
          linarith
        | cons z pre =>
          simp at he
          obtain ⟨rfl, rfl⟩ := he
          refine ⟨pre, post, rfl, ?_, ?_⟩
          · rw [sumLens_cons, ← Nat.add_assoc] at h1; exact h1
          · rw [sumLens_cons, ← Nat.add_assoc cum] at h2; exact h2

/-- `pick` (the value returned with `return_seg`) for `0 < ξ`: the selected segment is one of
    the scan's valid sub-paths, at the position bracketing `ξ·n`. -/
theorem pick_law (l r : Int) (ops : List Int) (xi : Rat) (hxi : 0 < xi) (seg : Nat × Nat × Nat) :
    pick l r ops xi = some seg ↔
      0 < weight l r ops ∧
      ∃ pre post, (scan l r ops).arr = pre ++ seg :: post ∧
        ((sumLens pre : Nat) : Rat) < xi * (weight l r ops : Rat) ∧
        xi * (weight l r ops : Rat) ≤ ((sumLens pre + seg.2.2 : Nat) : Rat) := by
  unfold pick weight
  by_cases hn : sumLens (scan l r ops).arr = 0
  · simp [hn]
  · have hpos : 0 < sumLens (scan l r ops).arr := Nat.pos_of_ne_zero hn
    simp only [hn, if_false]
    have h0 : ((0 : Nat) : Rat) < xi * (sumLens (scan l r ops).arr : Rat) := by
      have : (0 : Rat) < (sumLens (scan l r ops).arr : Rat) := by exact_mod_cast hpos
      simpa using mul_pos hxi this
    rw [pickGo_law _ hpos xi _ 0 seg h0]
    simp [hpos]

/-- every ξ ∈ (0, 1] selects some segment when the weight is positive (`random()` ∈ [0,1)) -/
theorem pickGo_total (n : Nat) (hn : 0 < n) (xi : Rat) :
    ∀ (arr : List (Nat × Nat × Nat)) (cum : Nat),
      xi * (n : Rat) ≤ ((cum + sumLens arr : Nat) : Rat) → arr ≠ [] →
      ∃ seg, pickGo n xi cum arr = some seg ∧ seg ∈ arr := by
  intro arr
  induction arr with
  | nil => intro cum _ h; exact absurd rfl h
  | cons s t ih =>
    intro cum hle _
    simp only [pickGo]
    by_cases h : (((cum + s.2.2 : Nat) : Int) : Rat) / ((n : Int) : Rat) ≥ xi
    · exact ⟨s, by rw [if_pos h], by simp⟩
    · rw [if_neg h]
      rw [ge_div_iff n hn, not_le] at h
      cases t with
      | nil =>
        simp [sumLens] at hle
        push_cast at h
        linarith
      | cons u t =>
        rw [sumLens_cons, ← Nat.add_assoc] at hle
        obtain ⟨seg, h1, h2⟩ := ih (cum + s.2.2) hle (by simp)
        exact ⟨seg, h1, by simp at h2 ⊢; right; exact h2⟩

theorem pick_total (l r : Int) (ops : List Int) (xi : Rat) (hxi : xi ≤ 1)
    (hw : 0 < weight l r ops) : ∃ seg, pick l r ops xi = some seg ∧ seg ∈ (scan l r ops).arr := by
  unfold pick
  unfold weight at hw
  have hn : sumLens (scan l r ops).arr ≠ 0 := by omega
  simp only [hn, if_false]
  apply pickGo_total _ hw
  · have : (0 : Rat) ≤ (sumLens (scan l r ops).arr : Rat) := by exact_mod_cast Nat.zero_le _
    simp only [Nat.zero_add]
    nlinarith
  · intro h; rw [h] at hw; simp [sumLens] at hw

example : pick 0 2 [-1, 1, -1, 1, 1, -1] (1 / 2) = some (2, 5, 2) := by decide +kernel

/-! ### the recorded segments are exactly valid sub-paths -/

/-- **Segments.** Every `(a, b, c)` the scan records is a valid sub-path of the path: frames `a` and
    `b` lie outside `[l, r)` and are not both on the right, every frame strictly between them is
    inside, and `c = b − a − 1 ≥ 1` counts those frames. -/
theorem scan_segments_valid (l r : Int) (hlr : l ≤ r) (ops : List Int) :
    ∀ seg ∈ (scan l r ops).arr, ValidSeg l r ops seg :=
  scan_segments_valid' l r hlr ops

/-- **The seeding sub-path is one of them.** Whatever ξ ∈ (0, 1] is drawn, the segment returned for
    a path of positive weight is a valid sub-path in the sense above. -/
theorem pick_is_valid_segment (l r : Int) (hlr : l ≤ r) (ops : List Int) (xi : Rat) (seg : Nat × Nat × Nat)
    (h : pick l r ops xi = some seg) : ValidSeg l r ops seg := by
  unfold pick at h
  simp only [] at h
  split at h
  · simp at h
  · have : seg ∈ (scan l r ops).arr := by
      have go : ∀ (arr : List (Nat × Nat × Nat)) (n cum : Nat), pickGo n xi cum arr = some seg → seg ∈ arr := by
        intro arr
        induction arr with
        | nil => intro n cum hh; simp [pickGo] at hh
        | cons s t ih =>
          intro n cum hh
          simp only [pickGo] at hh
          split at hh
          · simp at hh; simp [hh]
          · exact List.mem_cons_of_mem _ (ih n _ hh)
      exact go _ _ _ h
    exact scan_segments_valid l r hlr ops seg this

example : ValidSeg 0 2 [-1, 1, -1, 1, 1, -1] (2, 5, 2) :=
  pick_is_valid_segment 0 2 (by decide) _ (1 / 2) _ (by decide +kernel)

/-- **The sub-path seeding a wire-fencing move is a valid sub-path of [λ_i, cap).**  Whatever ξ is drawn,
    when the move does not stop with "NSG" the segment it shoots from is a valid sub-path between the
    ensemble's own interface and the cap (the last interface when no cap is configured), and the
    sub-ensemble it shoots in is `[λ_i, λ_i, cap]`. -/
theorem wf_move_seed_valid (i1 i2 : Int) (cap : Option Int) (hc : i1 ≤ cap.getD i2) (ops : List Int)
    (xi : Rat) (m : MoveSeed) (h : wfMoveSeed i1 i2 cap ops xi = some m) :
    ValidSeg i1 (cap.getD i2) ops m.seg ∧ m.subIntf = [i1, i1, cap.getD i2] := by
  unfold wfMoveSeed at h
  simp only [Option.map_eq_some_iff] at h
  obtain ⟨seg, hp, rfl⟩ := h
  exact ⟨pick_is_valid_segment i1 (cap.getD i2) hc ops xi seg hp, rfl⟩

/-- the move stops without MD exactly when the weight below the cap is 0 (for a draw ξ ≤ 1) -/
theorem wf_move_seed_none_iff (i1 i2 : Int) (cap : Option Int) (ops : List Int) (xi : Rat) (hx : xi ≤ 1) :
    wfMoveSeed i1 i2 cap ops xi = none ↔ weight i1 (cap.getD i2) ops = 0 := by
  unfold wfMoveSeed
  simp only [Option.map_eq_none_iff]
  constructor
  · intro h
    by_cases hw : weight i1 (cap.getD i2) ops = 0
    · exact hw
    · exact absurd h (by
        have := pick_total i1 (cap.getD i2) ops xi hx (Nat.pos_of_ne_zero hw)
        intro hn; rw [hn] at this; simp at this)
  · intro h
    unfold pick
    simp only []
    unfold weight at h
    simp [h]

-- a capped move: the path reaches the cap 3 below the last interface 5; the seed is cut at the cap
example : wfMoveSeed 1 5 (some 3) [0, 1, 2, 4, 2, 1, 0] (1 / 2) = some { subIntf := [1, 1, 3], seg := (0, 3, 2) } := by
  decide +kernel
example : ValidSeg 1 3 [0, 1, 2, 4, 2, 1, 0] (0, 3, 2) :=
  (wf_move_seed_valid 1 5 (some 3) (by decide) [0, 1, 2, 4, 2, 1, 0] (1 / 2)
    { subIntf := [1, 1, 3], seg := (0, 3, 2) } (by decide +kernel)).1

/-! ### the weight vector -/

/-- `compute_weight` for `wf`: the scan weight, doubled iff start side ≠ end side
    (for a path defined on both ends: doubled exactly when it connects the two outer sides). -/
theorem computeWeight_wf (ops : List Int) (i0 i1 i2 : Int) (first last : Int) (h02 : i0 ≤ i2)
    (hf : ops.head? = some first) (hl : ops.getLast? = some last) :
    computeWeight ops i0 i1 i2 true =
      .ok (if sidesDiffer (startPoint i0 i2 first) (endPoint i0 i2 last)
           then 2 * weight i1 i2 ops else weight i1 i2 ops) := by
  unfold computeWeight
  simp [hf, hl, h02]
  split <;> rfl

/-- connecting the two outer sides doubles; same side does not -/
theorem sidesDiffer_outer (i0 i2 first last : Int) (h : i0 < i2) :
    ((first ≤ i0 ∧ last ≥ i2) ∨ (first ≥ i2 ∧ last ≤ i0) →
        sidesDiffer (startPoint i0 i2 first) (endPoint i0 i2 last) = true) ∧
    ((first ≤ i0 ∧ last ≤ i0) ∨ (first ≥ i2 ∧ last ≥ i2) →
        sidesDiffer (startPoint i0 i2 first) (endPoint i0 i2 last) = false) := by
  unfold startPoint endPoint
  constructor
  · rintro (⟨h1, h2⟩ | ⟨h1, h2⟩)
    · rw [if_pos h1, if_neg (by omega), if_pos h2]; rfl
    · rw [if_neg (by omega), if_pos h1, if_pos h2]; rfl
  · rintro (⟨h1, h2⟩ | ⟨h1, h2⟩)
    · rw [if_pos h1, if_pos h2]; rfl
    · rw [if_neg (by omega), if_pos h1, if_neg (by omega), if_pos h2]; rfl

/-- `compute_weight` for a non-wf move is 1 -/
theorem computeWeight_sh (ops : List Int) (i0 i1 i2 : Int) (first last : Int) (h02 : i0 ≤ i2)
    (hf : ops.head? = some first) (hl : ops.getLast? = some last) :
    computeWeight ops i0 i1 i2 false = .ok 1 := by
  unfold computeWeight
  simp [hf, hl, h02]

/-- shape of the weight vector: length = number of interfaces, last entry 0, and for every
    shooting ensemble `i` the entry is 1 iff `λ_i ≤ max(order)` (crossing), else 0. -/
theorem cvVectorGo_shape (ops : List Int) (i0 c pmax : Int) :
    ∀ (intfs : List Int) (mv : List Bool) (ws : List Nat),
      cvVectorGo ops i0 c pmax intfs mv = .ok ws →
      ws.length = intfs.length ∧
      ∀ k (hk : k < intfs.length) (hm : k < mv.length) (hw : k < ws.length),
        mv[k] = false → ws[k] = if intfs[k] ≤ pmax then 1 else 0 := by
  intro intfs
  induction intfs with
  | nil =>
    intro mv ws h
    simp [cvVectorGo] at h
    subst h
    simp
  | cons a is ih =>
    intro mv ws h
    cases mv with
    | nil => simp [cvVectorGo] at h
    | cons m ms =>
      simp only [cvVectorGo] at h
      split at h
      · simp at h
      · rename_i w hw0
        split at h
        · simp at h
        · rename_i ws' hws
          simp at h
          subst h
          obtain ⟨hlen, hrest⟩ := ih ms ws' hws
          refine ⟨by simp [hlen], ?_⟩
          intro k hk hm hw hmk
          cases k with
          | zero =>
            simp at hmk
            subst hmk
            simp at hw0
            simp [← hw0]
          | succ k =>
            simp at hmk ⊢
            exact hrest k (by simpa using hk) (by simpa using hm) (by simpa using hw) hmk

theorem cvVector_shape (ops intfs : List Int) (mv : List Bool) (cap : Option Int) (ws : List Nat)
    (h : cvVector ops intfs mv cap = .ok ws) :
    ws.length = intfs.length ∧ ws.getLast? = some 0 := by
  unfold cvVector at h
  cases hm : maxOf ops with
  | none => simp [hm] at h
  | some pmax =>
    cases hi : intfs.head? with
    | none => simp [hm, hi] at h
    | some i0 =>
      cases hl : intfs.getLast? with
      | none => simp [hm, hi, hl] at h
      | some ilast =>
        simp only [hm, hi, hl] at h
        split at h
        · simp at h
        · rename_i ws' hws
          have hw : ws = ws' ++ [0] := by
            injection h with h; exact h.symm
          subst hw
          have := (cvVectorGo_shape ops i0 _ pmax _ _ _ hws).1
          have hne : intfs ≠ [] := by intro e; simp [e] at hi
          have hpos : 0 < intfs.length := List.length_pos_iff.mpr hne
          simp [this]
          omega

/-- `(1,)` for a [0-] path whose maximum reaches the bound (a valid [0-] path starts right of λ₀) -/
theorem cvMinus_valid (ops : List Int) (bound pmax : Int) (h : maxOf ops = some pmax) :
    cvMinus ops bound = .ok [if bound ≤ pmax then 1 else 0] := by
  simp [cvMinus, h]

example : cvVector [-1, 1, 3, 5, 3, -1] [0, 2, 4, 6] [false, true, false] none = .ok [1, 3, 1, 0] := by
  decide

end Infretis.C10
