import Infretis.Props.C10Core
import Infretis.Lemmas.WFExt
import Mathlib.Tactic.FieldSimp
/-!
# C10, extension pass — theorems about `Infretis/Model/WFExt.lean`
-/
namespace Infretis.C10
open Infretis.WF

/-! ## Extension pass (model `Infretis/Model/WFExt.lean`)

The scan with its branches, the frames of the segment handed on by the pick, `compute_weight` with the move
string, `calc_cv_vector` with all its arguments, `high_acc_swap`, and the call sites that choose the cap. -/

open Infretis.WFExt

/-- **The traced scan is the scan.**  The branch-by-branch trace the tie compares with the real function's
    state after every loop iteration ends in exactly the state `scan` (and hence `weight`, `pick`) is about, and
    has one entry per consecutive frame pair. -/
theorem trace_final_eq_scan (l r : Int) (ops : List Int) :
    traceFinal l r ops = scan l r ops ∧ (trace l r ops).length = ops.length - 1 := by
  refine ⟨?_, traceFrom_length l r ops Scan.init 0⟩
  unfold traceFinal trace scan
  have := traceFrom_last l r ops Scan.init 0
  rw [← this]
  cases (traceFrom l r Scan.init 0 ops).getLast? with
  | none => rfl
  | some x => rfl

example : (trace 0 2 [-1, 1, 3, 1, 3, -1]).map (·.1) = [.openL, .close, .openR, .abortRR, .jump]
    ∧ (traceFinal 0 2 [-1, 1, 3, 1, 3, -1]).arr = [(0, 2, 1)] := by decide

/-- `n_frames` is the weight whatever the flags are, and the generator is asked for exactly one number iff
    `return_seg`, a positive weight and an `ens_set` come together (otherwise for none). -/
theorem wfWeightAndPick_weight_and_draws (maxlen : Option Nat) (l r : Int) (ops : List Int) (rs : Bool)
    (xi : Option Rat) (o : PickOut) (h : wfWeightAndPick maxlen l r ops rs xi = .ok o) :
    o.nFrames = weight l r ops ∧
    (o.draws = 1 ↔ (rs = true ∧ weight l r ops ≠ 0 ∧ xi.isSome = true)) ∧
    (o.draws = 0 ∨ o.draws = 1) ∧ (o.draws = 0 → o.seg = Seg.empty maxlen) := by
  unfold wfWeightAndPick at h
  simp only [] at h
  unfold weight
  cases rs <;> cases xi <;> by_cases hn : sumLens (scan l r ops).arr = 0 <;> simp [hn] at h
  all_goals first
    | (subst h; simp [hn, Seg.empty])
    | (split at h
       · split at h
         · simp at h
         · simp at h; subst h; simp [hn]
       · simp at h; subst h; simp [hn])

example : wfWeightAndPick none 0 2 [-1, 1, -1] false (some (1 / 2)) =
    .ok { nFrames := 1, seg := Seg.empty none, draws := 0 } := by decide +kernel

/-- **The segment handed on by the pick is exactly the frames of one valid sub-path.**  For a path whose own
    `maxlen` admits its length (the invariant `Path.append` maintains), every returned non-empty segment consists of
    the frames `a .. b` of a sub-path `(a, b, c)` recorded by the scan — the one `pick` selects for this ξ —: its
    first and last frame lie outside `[l, r)` and are not both on the right, the `c` frames between them all lie
    inside, nothing else is in it, and the weight and the single draw are reported with it. -/
theorem picked_segment_is_the_subpath (maxlen : Option Nat) (l r : Int) (hlr : l ≤ r) (ops : List Int) (xi : Rat)
    (hmax : ∀ m, maxlen = some m → ops.length ≤ m) (o : PickOut)
    (h : wfWeightAndPick maxlen l r ops true (some xi) = .ok o) (hc : o.seg.copied = true) :
    ∃ b c, pick l r ops xi = some (o.seg.first, b, c) ∧ (o.seg.first, b, c) ∈ (scan l r ops).arr ∧
      o.seg.frames = (ops.drop o.seg.first).take (b + 1 - o.seg.first) ∧
      ∃ p mid q, o.seg.frames = p :: (mid ++ [q]) ∧ mid.length = c ∧ (∀ x ∈ mid, inside l r x = true) ∧
        inside l r p = false ∧ inside l r q = false ∧ ¬ (p ≥ r ∧ q ≥ r) ∧
        o.nFrames = weight l r ops ∧ 0 < o.nFrames ∧ o.draws = 1 := by
  unfold wfWeightAndPick at h
  simp only [] at h
  by_cases hn : sumLens (scan l r ops).arr = 0
  · simp [hn] at h; subst h; simp [Seg.empty] at hc
  · simp only [hn, decide_false] at h
    cases hp : pickGo (sumLens (scan l r ops).arr) xi 0 (scan l r ops).arr with
    | none => simp [hp] at h; subst h; simp [Seg.empty] at hc
    | some seg =>
      obtain ⟨a, b, c⟩ := seg
      have hmem : (a, b, c) ∈ (scan l r ops).arr := pickGo_mem xi _ _ _ _ hp
      have hv : ValidSeg l r ops (a, b, c) := scan_segments_valid l r hlr ops _ hmem
      obtain ⟨hcnt, hfit, p, mid, q, hsl, hml, hin, hpo, hqo, hpq⟩ := validSeg_slice l r ops a b c hv
      have hcopy : rangeCopy maxlen ops a (b + 1 - a) [] = .ok ((ops.drop a).take (b + 1 - a)) := by
        have := rangeCopy_eq_slice maxlen ops (b + 1 - a) a [] (by omega)
          (by intro m hm; have := hmax m hm; simp; omega)
        simpa using this
      simp only [hp, hcopy] at h
      injection h with h
      subst h
      refine ⟨b, c, ?_, hmem, rfl, p, mid, q, ?_, hml, hin, hpo, hqo, hpq, rfl, Nat.pos_of_ne_zero hn, rfl⟩
      · unfold pick; simp only [hn, if_false]; exact hp
      · simp only [hcnt]; exact hsl

example : wfWeightAndPick (some 7) 1 3 [0, 1, 2, 4, 2, 1, 0] true (some (1 / 2)) =
    .ok { nFrames := 4, seg := { frames := [0, 1, 2, 4], first := 0, maxlen := some 7, copied := true }, draws := 1 } := by
  decide +kernel

/-- a `maxlen` below the segment's length makes `Path.append` refuse frames: the hypothesis of
    `picked_segment_is_the_subpath` cannot be dropped (such a path is never built by the library) -/
theorem picked_segment_truncated_counterexample :
    wfWeightAndPick (some 3) 1 3 [0, 1, 2, 4, 2, 1, 0] true (some (1 / 2)) =
      .ok { nFrames := 4, seg := { frames := [0, 1, 2], first := 0, maxlen := some 3, copied := true }, draws := 1 } := by
  decide +kernel

/-- **`wire_fencing` seeds its jumps with that segment, in the sub-ensemble `[λ_i, λ_i, cap]`**, and stops
    without any MD exactly when the weight below the cap is 0. -/
theorem wfSeed_frames (maxlen : Option Nat) (i1 i2 : Int) (cap : Option Int) (hc : i1 ≤ cap.getD i2)
    (ops : List Int) (xi : Rat) (hx : xi ≤ 1) (hmax : ∀ m, maxlen = some m → ops.length ≤ m) :
    (weight i1 (cap.getD i2) ops = 0 → wfSeed maxlen i1 i2 cap ops xi = .ok none) ∧
    (0 < weight i1 (cap.getD i2) ops →
      ∃ a b c, pick i1 (cap.getD i2) ops xi = some (a, b, c) ∧
        ValidSeg i1 (cap.getD i2) ops (a, b, c) ∧
        wfSeed maxlen i1 i2 cap ops xi =
          .ok (some ([i1, i1, cap.getD i2],
                     { frames := (ops.drop a).take (b + 1 - a), first := a, maxlen := maxlen, copied := true }))) := by
  have hargs : wfCallArgs i1 i2 cap = ([i1, i1, cap.getD i2], i1, cap.getD i2) := by
    cases cap <;> rfl
  constructor
  · intro hw
    unfold wfSeed
    rw [hargs]
    unfold wfWeightAndPick
    unfold weight at hw
    simp [hw]
  · intro hw
    obtain ⟨seg, hp, hmem⟩ := pick_total i1 (cap.getD i2) ops xi hx hw
    obtain ⟨a, b, c⟩ := seg
    have hv := scan_segments_valid i1 (cap.getD i2) hc ops _ hmem
    obtain ⟨hcnt, hfit, _⟩ := validSeg_slice i1 (cap.getD i2) ops a b c hv
    refine ⟨a, b, c, hp, hv, ?_⟩
    have hn : sumLens (scan i1 (cap.getD i2) ops).arr ≠ 0 := by unfold weight at hw; omega
    have hp' : pickGo (sumLens (scan i1 (cap.getD i2) ops).arr) xi 0 (scan i1 (cap.getD i2) ops).arr = some (a, b, c) := by
      unfold pick at hp; simpa [hn] using hp
    have hcopy : rangeCopy maxlen ops a (b + 1 - a) [] = .ok ((ops.drop a).take (b + 1 - a)) := by
      have := rangeCopy_eq_slice maxlen ops (b + 1 - a) a [] (by omega)
        (by intro m hm; have := hmax m hm; simp; omega)
      simpa using this
    unfold wfSeed
    rw [hargs]
    unfold wfWeightAndPick
    simp [hn, hp', hcopy]

example : wfSeed (some 100) 1 5 (some 3) [0, 1, 2, 4, 2, 1, 0] (1 / 2) =
    .ok (some ([1, 1, 3], { frames := [0, 1, 2, 4], first := 0, maxlen := some 100, copied := true })) := by
  decide +kernel

/-! ### compute_weight with the move string -/

/-- the move string: "wf" and every non-"ss" string behave like the two cases of `computeWeight`; "ss" gives 1,
    doubled iff start side ≠ end side -/
theorem computeWeightM_moves (ops : List Int) (i0 i1 i2 : Int) :
    computeWeightM ops i0 i1 i2 .wf = computeWeight ops i0 i1 i2 true ∧
    computeWeightM ops i0 i1 i2 .sh = computeWeight ops i0 i1 i2 false ∧
    (∀ first last, i0 ≤ i2 → ops.head? = some first → ops.getLast? = some last →
      computeWeightM ops i0 i1 i2 .ss =
        .ok (if sidesDiffer (startPoint i0 i2 first) (endPoint i0 i2 last) then 2 else 1)) := by
  refine ⟨?_, ?_, ?_⟩
  · unfold computeWeightM computeWeight
    cases ops.head? <;> cases ops.getLast? <;> simp
  · unfold computeWeightM computeWeight
    cases ops.head? <;> cases ops.getLast? <;> simp
  · intro first last h02 hf hl
    unfold computeWeightM
    simp [h02, hf, hl]
    split <;> simp_all

example : computeWeightM [-1, 1, 5] 0 2 4 .ss = .ok 2 ∧ computeWeightM [-1, 1, -1] 0 2 4 .ss = .ok 1 := by decide

/-- `compute_weight` for "wf" in the property's words: the number of frames on valid sub-paths of `[i1, i2)`,
    doubled iff the start side differs from the end side -/
theorem computeWeightM_wf_spec (ops : List Int) (i0 i1 i2 first last : Int) (h02 : i0 ≤ i2) (h12 : i1 ≤ i2)
    (hf : ops.head? = some first) (hl : ops.getLast? = some last) :
    computeWeightM ops i0 i1 i2 .wf =
      .ok ((if sidesDiffer (startPoint i0 i2 first) (endPoint i0 i2 last) then 2 else 1) * specWeight i1 i2 ops) := by
  rw [(computeWeightM_moves ops i0 i1 i2).1, computeWeight_wf ops i0 i1 i2 first last h02 hf hl,
    scan_weight_eq_spec i1 i2 h12]
  split <;> simp

/-! ### calc_cv_vector, every ensemble kind -/

/-- the new model with `minus = False`, a non-empty interface list and "wf"/"sh" moves is the old `cvVector` -/
theorem calcCvVector_eq_cvVector (ops intfs : List Int) (hne : intfs ≠ []) (m0 : Move) (tail : List Bool)
    (lm1 cap : Option Int) :
    calcCvVector ops { interfaces := intfs, moves := m0 :: tail.map (fun b => if b then Move.wf else Move.sh),
                       lm1 := lm1, cap := cap, minus := false } = cvVector ops intfs tail cap := by
  have hloop : ∀ (i0 c pmax : Int) (is : List Int) (tl : List Bool),
      cvLoop ops i0 c pmax is (tl.map (fun b => if b then Move.wf else Move.sh)) = cvVectorGo ops i0 c pmax is tl := by
    intro i0 c pmax is
    induction is with
    | nil => intro tl; simp [cvLoop, cvVectorGo]
    | cons a is ih =>
      intro tl
      cases tl with
      | nil => simp [cvLoop, cvVectorGo]
      | cons b tl =>
        simp only [List.map_cons, cvLoop, cvVectorGo, ih tl]
        cases b
        · cases cvVectorGo ops i0 c pmax is tl <;> simp
        · simp only [if_true, (computeWeightM_moves ops i0 a c).1]
          cases computeWeight ops i0 a c true <;> cases cvVectorGo ops i0 c pmax is tl <;> simp
  unfold calcCvVector cvVector
  cases hm : maxOf ops with
  | none => simp
  | some pmax =>
    cases intfs with
    | nil => exact absurd rfl hne
    | cons i0 rest =>
      have : ((i0 :: rest).getLast?) = some ((i0 :: rest).getLast (by simp)) := List.getLast?_eq_some_getLast (by simp)
      simp only [List.head?_cons, this, Bool.false_eq_true, if_false, List.drop_succ_cons, List.drop_zero, hloop]
      cases cap <;> simp only [Option.getD] <;>
        (generalize cvVectorGo ops i0 _ pmax _ tail = e; cases e <;> rfl)

/-- **The weight vector, every ensemble kind in one statement.**  `calc_cv_vector` returns
    * for a [0-] path (`minus`): `(1,)` iff the path's maximum reaches λ₋₁ when one is given (0.0 included), else λ₀;
    * otherwise one entry per interface, the last one 0; entry `k` is, for a shooting move, 1/0 by crossing
      (`λ_k ≤ max`), and for a wire-fencing move (`moves[k+1] = "wf"`, `λ_k ≤ cap`) the number of frames on valid
      sub-paths of `[λ_k, cap)` — `cap` = the configured cap, else the last interface — doubled iff the path starts
      and ends on different sides of `(λ₀, cap)`. -/
theorem cv_vector_entries (ops : List Int) (a : CvArgs) (ws : List Nat) (h : calcCvVector ops a = .ok ws) :
    ∃ pmax first last, maxOf ops = some pmax ∧ ops.head? = some first ∧ ops.getLast? = some last ∧
    (a.minus = true →
      ∃ bound, (a.lm1 = some bound ∨ (a.lm1 = none ∧ a.interfaces.head? = some bound)) ∧
        ws = [if bound ≤ pmax then 1 else 0]) ∧
    (a.minus = false →
      ws.length = max a.interfaces.length 1 ∧ ws.getLast? = some 0 ∧
      ∀ i0 ilast, a.interfaces.head? = some i0 → a.interfaces.getLast? = some ilast →
        ∀ k (hk : k + 1 < a.interfaces.length) (hw : k < ws.length),
          ∃ mv, a.moves[k + 1]? = some mv ∧
            (mv ≠ .wf → ws[k] = if a.interfaces[k] ≤ pmax then 1 else 0) ∧
            (mv = .wf → a.interfaces[k] ≤ a.cap.getD ilast → i0 ≤ a.cap.getD ilast ∧
              ws[k] = (if sidesDiffer (startPoint i0 (a.cap.getD ilast) first) (endPoint i0 (a.cap.getD ilast) last)
                       then 2 else 1) * specWeight a.interfaces[k] (a.cap.getD ilast) ops)) := by
  unfold calcCvVector at h
  cases hm : maxOf ops with
  | none => simp [hm] at h
  | some pmax =>
    have hne : ops ≠ [] := by intro e; simp [e, maxOf] at hm
    obtain ⟨first, hf⟩ : ∃ f, ops.head? = some f := by
      cases ops with
      | nil => exact absurd rfl hne
      | cons x t => exact ⟨x, rfl⟩
    have hl : ops.getLast? = some (ops.getLast hne) := List.getLast?_eq_some_getLast hne
    refine ⟨pmax, first, ops.getLast hne, rfl, hf, hl, ?_, ?_⟩
    · intro hmin
      simp only [hm, hmin, if_true] at h
      cases hlm : a.lm1 with
      | some b => simp [hlm] at h; exact ⟨b, Or.inl rfl, h.symm⟩
      | none =>
        simp only [hlm] at h
        cases hh : a.interfaces.head? with
        | none => simp [hh] at h
        | some i0 => simp [hh] at h; exact ⟨i0, Or.inr ⟨rfl, rfl⟩, h.symm⟩
    · intro hmin
      simp only [hm, hmin, Bool.false_eq_true, if_false] at h
      cases hh : a.interfaces.head? with
      | none =>
        have he : a.interfaces = [] := by simpa using hh
        simp [he] at h
        subst h
        simp [he]
      | some i0 =>
        have hne' : a.interfaces ≠ [] := by intro e; simp [e] at hh
        have hgl : a.interfaces.getLast? = some (a.interfaces.getLast hne') := List.getLast?_eq_some_getLast hne'
        simp only [hh, hgl] at h
        split at h
        · simp at h
        · rename_i ws' hws
          injection h with h
          subst h
          obtain ⟨hlen, hget⟩ := cvLoop_get ops i0 _ pmax _ _ _ hws
          have hpos : 0 < a.interfaces.length := List.length_pos_iff.mpr hne'
          refine ⟨by simp [hlen]; omega, by simp, ?_⟩
          intro i0' ilast h0 hlast k hk hw
          have e0 : i0' = i0 := by simpa using h0.symm
          have e1 : ilast = a.interfaces.getLast hne' := by
            rw [hgl] at hlast; exact (Option.some.inj hlast).symm
          subst e0 e1
          have hk' : k < a.interfaces.dropLast.length := by simp; omega
          have hw' : k < ws'.length := by omega
          obtain ⟨mv, hmv, hval⟩ := hget k hk' hw'
          have hidx : a.interfaces.dropLast[k] = a.interfaces[k] := by
            simp [List.getElem_dropLast]
          have hwk : (ws' ++ [0])[k] = ws'[k] := by
            simp [List.getElem_append_left hw']
          refine ⟨mv, by simpa [List.getElem?_drop, Nat.add_comm] using hmv, ?_, ?_⟩
          · intro hnw
            rw [if_neg hnw, hidx] at hval
            rw [hwk]
            exact (Except.ok.inj hval).symm
          · intro hwf hkc
            rw [if_pos hwf, hidx] at hval
            have h02 : i0' ≤ a.cap.getD (a.interfaces.getLast hne') := by
              by_contra hcon
              unfold computeWeightM at hval
              simp [hcon] at hval
            refine ⟨h02, ?_⟩
            rw [computeWeightM_wf_spec ops i0' _ _ first _ h02 hkc hf hl] at hval
            rw [hwk]
            exact (Except.ok.inj hval).symm

example : calcCvVector [-1, 1, 3, 5, 3, -1]
    { interfaces := [0, 2, 4, 6], moves := [.sh, .sh, .wf, .sh], lm1 := none, cap := some 5, minus := false } =
    .ok [1, 2, 1, 0] := by decide
example : calcCvVector [1, -3, 1] { interfaces := [0, 2], moves := [], lm1 := some (-2), cap := none, minus := true }
    = .ok [1] ∧ calcCvVector [1] { interfaces := [], moves := [], lm1 := none, cap := none, minus := false } = .ok [0] := by
  decide

/-! ### high_acc_swap -/

/-- **The swap is decided by the ratio of these weights.**  With `c1o, c2o, c1n, c2n` the four `compute_weight`
    values (old: each path in its own ensemble; new: exchanged), `p = 1` if an old weight is 0, else
    `c1n·c2n / (c1o·c2o)`, and the swap is accepted iff `ξ < p`; for positive old weights that is
    `ξ·c1o·c2o < c1n·c2n`. -/
theorem highAccSwap_decision (pa pb : List Int) (a0 a1 a2 b0 b1 b2 : Int) (m0 m1 : Move) (xi : Rat) (o : SwapOut)
    (h : highAccSwap pa pb a0 a1 a2 b0 b1 b2 m0 m1 xi = .ok o) :
    ∃ c1o c2o c1n c2n,
      computeWeightM pa a0 a1 a2 m0 = .ok c1o ∧ computeWeightM pb b0 b1 b2 m1 = .ok c2o ∧
      computeWeightM pb a0 a1 a2 m0 = .ok c1n ∧ computeWeightM pa b0 b1 b2 m1 = .ok c2n ∧
      o.ratio = (if c1o = 0 ∨ c2o = 0 then 1 else ((c1n * c2n : Nat) : Rat) / ((c1o * c2o : Nat) : Rat)) ∧
      (o.accept = true ↔ xi < o.ratio) ∧
      (0 < c1o → 0 < c2o → (o.accept = true ↔ xi * ((c1o * c2o : Nat) : Rat) < ((c1n * c2n : Nat) : Rat))) := by
  unfold highAccSwap at h
  cases h1 : computeWeightM pa a0 a1 a2 m0 with
  | error e => simp [h1] at h
  | ok c1o =>
  cases h2 : computeWeightM pb b0 b1 b2 m1 with
  | error e => simp [h1, h2] at h
  | ok c2o =>
  cases h3 : computeWeightM pb a0 a1 a2 m0 with
  | error e => simp [h1, h2, h3] at h
  | ok c1n =>
  cases h4 : computeWeightM pa b0 b1 b2 m1 with
  | error e => simp [h1, h2, h3, h4] at h
  | ok c2n =>
    simp only [h1, h2, h3, h4] at h
    injection h with h
    subst h
    refine ⟨c1o, c2o, c1n, c2n, rfl, rfl, rfl, rfl, rfl, by simp, ?_⟩
    intro p1 p2
    have hne : ¬ (c1o = 0 ∨ c2o = 0) := by omega
    have hpos : (0 : Rat) < ((c1o * c2o : Nat) : Rat) := by
      exact_mod_cast Nat.mul_pos p1 p2
    simp only [hne, if_false, decide_eq_true_eq]
    rw [lt_div_iff₀ hpos]

/-- **Exchanging old and new inverts the ratio** (the reverse swap has the reciprocal ratio, which is what makes
    `min(1, p)` acceptance satisfy detailed balance), whenever all four weights are positive. -/
theorem highAccSwap_ratio_exchange (pa pb : List Int) (a0 a1 a2 b0 b1 b2 : Int) (m0 m1 : Move) (xi xi' : Rat)
    (o o' : SwapOut) (c1o c2o c1n c2n : Nat)
    (h1 : computeWeightM pa a0 a1 a2 m0 = .ok c1o) (h2 : computeWeightM pb b0 b1 b2 m1 = .ok c2o)
    (h3 : computeWeightM pb a0 a1 a2 m0 = .ok c1n) (h4 : computeWeightM pa b0 b1 b2 m1 = .ok c2n)
    (p1 : 0 < c1o) (p2 : 0 < c2o) (p3 : 0 < c1n) (p4 : 0 < c2n)
    (h : highAccSwap pa pb a0 a1 a2 b0 b1 b2 m0 m1 xi = .ok o)
    (h' : highAccSwap pb pa a0 a1 a2 b0 b1 b2 m0 m1 xi' = .ok o') :
    o.ratio * o'.ratio = 1 := by
  unfold highAccSwap at h h'
  simp only [h1, h2, h3, h4] at h h'
  injection h with h
  injection h' with h'
  subst h h'
  have n1 : ¬ (c1o = 0 ∨ c2o = 0) := by omega
  have n2 : ¬ (c1n = 0 ∨ c2n = 0) := by omega
  simp only [n1, n2, if_false]
  have q1 : ((c1o * c2o : Nat) : Rat) ≠ 0 := by exact_mod_cast Nat.ne_of_gt (Nat.mul_pos p1 p2)
  have q2 : ((c1n * c2n : Nat) : Rat) ≠ 0 := by exact_mod_cast Nat.ne_of_gt (Nat.mul_pos p3 p4)
  field_simp

/-- **Without wire fencing the ratio is 1**: two shooting ensembles always accept (every ξ < 1). -/
theorem highAccSwap_no_wf (pa pb : List Int) (a0 a1 a2 b0 b1 b2 : Int) (xi : Rat) (hxi : xi < 1) (o : SwapOut)
    (h : highAccSwap pa pb a0 a1 a2 b0 b1 b2 .sh .sh xi = .ok o) : o.ratio = 1 ∧ o.accept = true := by
  have hsh : ∀ (p : List Int) (i0 i1 i2 : Int) (w : Nat), computeWeightM p i0 i1 i2 .sh = .ok w → w = 1 := by
    intro p i0 i1 i2 w hw
    unfold computeWeightM at hw
    simp at hw
    split at hw
    · split at hw <;> simp_all
    · simp at hw
  obtain ⟨c1o, c2o, c1n, c2n, e1, e2, e3, e4, hr, hacc, _⟩ := highAccSwap_decision _ _ _ _ _ _ _ _ _ _ _ _ h
  have := hsh _ _ _ _ _ e1; have := hsh _ _ _ _ _ e2; have := hsh _ _ _ _ _ e3; have := hsh _ _ _ _ _ e4
  subst_vars
  have hr1 : o.ratio = 1 := by rw [hr]; simp
  exact ⟨hr1, hacc.2 (by rw [hr1]; exact hxi)⟩

example : highAccSwap [-1, 1, 3, 5] [-1, 3, 3, -1] 0 0 4 0 2 4 .wf .wf (3 / 4) = .ok { accept := false, ratio := 1 / 2 } := by
  decide +kernel

/-! ### the call sites -/

/-- **A path gets the same weight vector whether it is loaded or generated.**  `REPEX_state.load_paths` and
    `run_md` (for a plus ensemble) hand `calc_cv_vector` the same interfaces, moves and cap; λ₋₁ plays no role for a
    plus path.  (Seeded change C10-r4-mut2 — `load_paths` without `cap=` — breaks exactly this.) -/
theorem load_and_run_md_agree (intfs : List Int) (moves : List Move) (lm1 lm1' cap : Option Int) (ens : Int)
    (he : 0 ≤ ens) (ops : List Int) :
    loadPathWeights intfs moves lm1 cap ops = runMdWeights intfs moves lm1' cap ens ops := by
  unfold loadPathWeights runMdWeights calcCvVector
  have : decide (ens < 0) = false := by simp; omega
  simp [this]

/-- the [0-] path is loaded with `(1,)` unconditionally; a generated [0-] path gets 1 iff it reaches λ₋₁ / λ₀ -/
theorem load_paths_minus_weight (intfs : List Int) (moves : List Move) (lm1 cap : Option Int) (p0 : List Int)
    (plus : List (List Int)) (wss : List (List Nat))
    (h : loadPathsWeights intfs moves lm1 cap (p0 :: plus) = .ok wss) :
    wss.head? = some [1] ∧ wss.length = plus.length + 1 := by
  simp only [loadPathsWeights] at h
  cases hws : loadPlus intfs moves lm1 cap plus with
  | error e => simp [hws] at h
  | ok ws =>
    simp only [hws] at h
    injection h with h
    subst h
    refine ⟨rfl, ?_⟩
    have : ∀ (ps : List (List Int)) (ws : List (List Nat)), loadPlus intfs moves lm1 cap ps = .ok ws → ws.length = ps.length := by
      intro ps
      induction ps with
      | nil => intro ws h; simp [loadPlus] at h; subst h; rfl
      | cons p ps ih =>
        intro ws h
        simp only [loadPlus] at h
        split at h
        · simp at h
        · split at h
          · simp at h
          · rename_i ws' hws'
            injection h with h
            subst h
            simp [ih ws' hws']
    simp [this plus ws hws]

/-- **`subt_acceptance` weighs with the same cap**: for a wire-fencing ensemble `(λ₀, λ_k, λ_N)` the `weight` it
    assigns is entry `k` of the weight vector `load_paths` / `run_md` assign (both use `[λ_k, cap)`, `cap` = the
    configured one, else λ_N). -/
theorem subt_weight_is_vector_entry (intfs : List Int) (moves : List Move) (lm1 cap : Option Int) (ops : List Int)
    (ws : List Nat) (i0 ilast : Int) (k : Nat) (hk : k + 1 < intfs.length) (hw : k < ws.length)
    (h0 : intfs.head? = some i0) (hl : intfs.getLast? = some ilast) (hmv : moves[k + 1]? = some .wf)
    (h : loadPathWeights intfs moves lm1 cap ops = .ok ws) :
    subtWeight i0 intfs[k] ilast cap .wf ops = .ok ws[k] := by
  unfold loadPathWeights calcCvVector at h
  cases hm : maxOf ops with
  | none => simp [hm] at h
  | some pmax =>
    simp only [hm, Bool.false_eq_true, if_false, h0, hl] at h
    split at h
    · simp at h
    · rename_i ws' hws
      injection h with h
      subst h
      obtain ⟨hlen, hget⟩ := cvLoop_get ops i0 _ pmax _ _ _ hws
      have hk' : k < intfs.dropLast.length := by simp; omega
      have hw' : k < ws'.length := by omega
      obtain ⟨mv, hmv', hval⟩ := hget k hk' hw'
      have : mv = .wf := by
        have h2 : (moves.drop 1)[k]? = moves[k + 1]? := by simp [List.getElem?_drop, Nat.add_comm]
        rw [h2, hmv] at hmv'
        exact (Option.some.inj hmv').symm
      subst this
      simp only [if_true] at hval
      have hidx : intfs.dropLast[k] = intfs[k] := by simp [List.getElem_dropLast]
      rw [hidx] at hval
      unfold subtWeight
      simp only [if_true]
      rw [hval]
      simp [List.getElem_append_left hw']

example : subtWeight 0 2 6 (some 5) .wf [-1, 1, 3, 5, 3, -1] = .ok 2 ∧
    loadPathWeights [0, 2, 4, 6] [.sh, .sh, .wf, .sh] none (some 5) [-1, 1, 3, 5, 3, -1] = .ok [1, 2, 1, 0] := by decide

end Infretis.C10
