/-
C11 — zero swaps exchange the crossing frames and are reversible.

Theorems about the model `Infretis.ZeroSwap.retisSwapZero` / `quantisSwapZero`
(Model/ZeroSwap.lean mirrors tis.py:798-1010 and 1064-1324 branch by branch).
-/
import Infretis.Lemmas.ZeroSwapTwice

namespace Infretis.C11
open Infretis.ZeroSwap Infretis.Engine

theorem propagate_head {m : Nat} {l r : Int} {sys : Frame} {rev : Bool} {scr : Script}
    {tmp : List Frame} {s : Bool} (h : propagate m l r sys rev scr = some (tmp, s))
    (h1 : 1 ≤ tmp.length) :
    ∃ t, tmp = { op := sys.op, cfg := startCfg sys rev, vr := rev, vpot := scr.v0 } :: t := by
  obtain ⟨_, htake, _, _⟩ := propagate_spec h
  cases hn : tmp.length with
  | zero => omega
  | succ k =>
    rw [hn] at htake
    simp only [streamOf, List.take_succ_cons] at htake
    exact ⟨_, htake⟩

/-- **accept ⇔ status ACC** for `retis_swap_zero` -/
theorem accept_iff_status_acc {e0 e1 : Ens} {old0 old1 : List Frame} {bw fw : Script} {xi : Rat}
    {r : Result} (h : retisSwapZero e0 e1 old0 old1 bw fw xi = .ok r) :
    r.accept = true ↔ r.status = .ACC := by
  obtain ⟨_, last0, _, hcase⟩ := retis_ok h
  rcases hcase with ⟨_, rfl⟩ | ⟨_, path0, rq0, path1, rq1, _, _, hf⟩
  · simp [rejected0L]
  · exact (finish_spec hf).2.2.2.2

/-- the pieces of an accepted swap, used by the theorems below -/
theorem accepted_shape {e0 e1 : Ens} {old0 old1 : List Frame} {bw fw : Script} {xi : Rat}
    {r : Result} (h : retisSwapZero e0 e1 old0 old1 bw fw xi = .ok r) (ha : r.accept = true) :
    ∃ pre0 a b c d post1 tmp0 s0 tmp1 s1,
      old0 = pre0 ++ [a, b] ∧ old1 = c :: d :: post1 ∧
      propagate (e1.maxlen - 1) e0.i0 e0.i2 c true bw = some (tmp0, s0) ∧
      propagate (e1.maxlen - 1) e1.i0 e1.i2 b false fw = some (tmp1, s1) ∧
      r.path0 = tmp0.reverse ++ [d] ∧ r.path1 = a :: tmp1 ∧
      2 ≤ tmp0.length ∧ tmp0.length + 1 < e0.maxlen ∧ 2 ≤ tmp1.length ∧ tmp1.length + 1 < e1.maxlen ∧
      status0 e0 r.path0 = .ACC ∧
      r.reqs = [propReq 0 (e1.maxlen - 1) e0.i0 e0.i2 c true, Req.dump 1 1 d.cfg true,
                propReq 1 (e1.maxlen - 1) e1.i0 e1.i2 b false, Req.dump 0 0 a.cfg true] := by
  obtain ⟨_, last0, hlast, hcase⟩ := retis_ok h
  rcases hcase with ⟨_, rfl⟩ | ⟨_, path0, rq0, path1, rq1, hb0, hb1, hf⟩
  · simp [rejected0L] at ha
  · obtain ⟨hp0, hp1, hrq, hacc, _⟩ := finish_spec hf
    obtain ⟨hs0, hs1, _⟩ := hacc ha
    obtain ⟨c, d, post1, tmp0, s0, hold1, _, hprop0, hpath0, h20, hl0, hrq0⟩ := buildPath0_acc hb0 hs0
    obtain ⟨pre0, a, b, tmp1, s1, hold0, _, hprop1, hpath1, h21, hl1, hrq1⟩ := buildPath1_acc hb1 hs1
    have hb : last0 = b := by
      rw [hold0] at hlast; simpa using hlast.symm
    subst hb
    refine ⟨pre0, a, last0, c, d, post1, tmp0, s0, tmp1, s1, hold0, hold1, hprop0, hprop1, ?_, ?_, h20, hl0, h21, hl1, ?_, ?_⟩
    · rw [hp0, hpath0]
    · rw [hp1, hpath1]
    · rw [hp0]; exact hs0
    · rw [hrq, hrq0, hrq1]; rfl

/-- **junction identity.**  On ACC the new [0-] path ends with `g0, d` where `d` is frame 1 of the
    old [0+] path unchanged (order value, configuration, vel_rev flag) and `g0` is frame 0 of the
    old [0+] path: same order value, same physical phase point, flagged `vel_rev` (its stored
    velocities are reversed iff the old frame was not flagged).  The new [0+] path starts with
    `a, g1` where `a` is the second-last frame of the old [0-] path unchanged and `g1` is its
    last frame: same order value, same phase point, not flagged. -/
theorem junction_identity {e0 e1 : Ens} {old0 old1 : List Frame} {bw fw : Script} {xi : Rat}
    {r : Result} (h : retisSwapZero e0 e1 old0 old1 bw fw xi = .ok r) (ha : r.accept = true) :
    ∃ pre0 a b c d post1 back g0 g1 fwd,
      old0 = pre0 ++ [a, b] ∧ old1 = c :: d :: post1 ∧
      r.path0 = back ++ [g0, d] ∧ r.path1 = a :: g1 :: fwd ∧
      g0.op = c.op ∧ g0.phys = c.phys ∧ g0.vr = true ∧ g0.cfg = (if c.vr then c.cfg else c.cfg.flip) ∧
      g1.op = b.op ∧ g1.phys = b.phys ∧ g1.vr = false ∧ g1.cfg = (if b.vr then b.cfg.flip else b.cfg) := by
  obtain ⟨pre0, a, b, c, d, post1, tmp0, s0, tmp1, s1, hold0, hold1, hprop0, hprop1, hp0, hp1, h20, _, h21, _, _, _⟩ :=
    accepted_shape h ha
  obtain ⟨t0, ht0⟩ := propagate_head hprop0 (by omega)
  obtain ⟨t1, ht1⟩ := propagate_head hprop1 (by omega)
  refine ⟨pre0, a, b, c, d, post1, t0.reverse,
    { op := c.op, cfg := startCfg c true, vr := true, vpot := bw.v0 },
    { op := b.op, cfg := startCfg b false, vr := false, vpot := fw.v0 }, t1, hold0, hold1, ?_, ?_,
    rfl, phys_start c true _ _, rfl, ?_, rfl, phys_start b false _ _, rfl, ?_⟩
  · rw [hp0, ht0]; simp
  · rw [hp1, ht1]
  · cases hv : c.vr <;> simp [startCfg, hv]
  · cases hv : b.vr <;> simp [startCfg, hv]

theorem second_mem_mid {c d f l : Frame} {post mid : List Frame}
    (h : c :: d :: post = f :: mid ++ [l]) (hne : mid ≠ []) : d ∈ mid := by
  cases mid with
  | nil => exact absurd rfl hne
  | cons m0 mid' =>
    simp at h
    rw [h.2.1]; simp

theorem secondlast_mem_mid {a b f l : Frame} {pre mid : List Frame}
    (h : pre ++ [a, b] = f :: mid ++ [l]) (hne : mid ≠ []) : a ∈ mid ∧ b = l := by
  have h' : (pre ++ [a]) ++ [b] = (f :: mid) ++ [l] := by simpa using h
  have hh := List.append_inj' h' rfl
  have hb : b = l := by simpa using hh.2
  refine ⟨?_, hb⟩
  rcases List.eq_nil_or_concat mid with hm | ⟨mid', z, hm⟩
  · exact absurd hm hne
  · rw [hm] at hh ⊢
    have h2 : pre ++ [a] = (f :: mid') ++ [z] := by simpa using hh.1
    have := List.append_inj' h2 rfl
    have haz : a = z := by simpa using this.2
    simp [haz]

/-- **ensemble membership.**  For length limits with `maxlen0 ≤ maxlen1` (in every configuration
    `initiate_ensembles` builds both are the same `tis_set["maxlength"]`), MD programs that do not end
    before the length limit, ordered [0-] interfaces, the shared interface λ0 (`e0.i2 = e1.i0`) and
    valid old paths: on ACC the new [0-] path starts outside (right of λ0, or left of λ₋₁ — only if 'L'
    is an allowed start), its interior stays in `[λ₋₁, λ0]`, it ends at or right of λ0; the new [0+] path
    starts at or left of λ0, its interior stays in `[λ0, λN]`, it ends outside; both are strictly
    shorter than their length limits. -/
theorem swap_members {e0 e1 : Ens} {old0 old1 : List Frame} {bw fw : Script} {xi : Rat} {r : Result}
    (h : retisSwapZero e0 e1 old0 old1 bw fw xi = .ok r) (ha : r.accept = true)
    (hm : e0.maxlen ≤ e1.maxlen)
    (hbw : e1.maxlen ≤ bw.rest.length + 2) (hfw : e1.maxlen ≤ fw.rest.length + 2)
    (hord : e0.i0 ≤ e0.i1 ∧ e0.i0 ≤ e0.i2) (hlam : e0.i2 = e1.i0)
    (hv0 : ValidMinus e0 old0) (hv1 : ValidPlus e1 old1) :
    ValidMinus e0 r.path0 ∧ ValidPlus e1 r.path1 ∧
      r.path0.length < e0.maxlen ∧ r.path1.length < e1.maxlen := by
  obtain ⟨pre0, a, b, c, d, post1, tmp0, s0, tmp1, s1, hold0, hold1, hprop0, hprop1, hp0, hp1, h20, hl0, h21, hl1,
    hst0, _⟩ := accepted_shape h ha
  obtain ⟨tpre0, tx0, _, htmp0, _, hnc0, hc0⟩ := propagate_crossed hprop0 (by omega) (by omega)
  obtain ⟨tpre1, tx1, _, htmp1, _, hnc1, hc1⟩ := propagate_crossed hprop1 (by omega) (by omega)
  obtain ⟨f0, mid0, l0, ho0, hne0, _, hmid0, _, _⟩ := hv0
  obtain ⟨f1, mid1, l1, ho1, hne1, _, hmid1, _, _⟩ := hv1
  have hd : d ∈ mid1 := second_mem_mid (hold1.symm.trans ho1) hne1
  have hab := secondlast_mem_mid (hold0.symm.trans ho0) hne0
  have hlo : e0.lo = e0.i0 := by unfold Ens.lo; omega
  have hpath0 : r.path0 = tx0 :: tpre0.reverse ++ [d] := by rw [hp0, htmp0]; simp
  have hpath1 : r.path1 = a :: tpre1 ++ [tx1] := by rw [hp1, htmp1]; simp
  have hlen0 : r.path0.length = tmp0.length + 1 := by rw [hp0]; simp
  have hlen1 : r.path1.length = tmp1.length + 1 := by rw [hp1]; simp
  have hne_t0 : tpre0 ≠ [] := by
    intro e; rw [e] at htmp0; rw [htmp0] at h20; simp at h20
  have hne_t1 : tpre1 ≠ [] := by
    intro e; rw [e] at htmp1; rw [htmp1] at h21; simp at h21
  refine ⟨⟨tx0, tpre0.reverse, d, hpath0, by simpa using hne_t0, ?_, ?_, ?_, by omega⟩,
    ⟨a, tpre1, tx1, hpath1, hne_t1, ?_, hnc1, hc1, by omega⟩, by omega, by omega⟩
  · -- the first frame of the new [0-] path
    rcases hc0 with hl | hr
    · right
      refine ⟨?_, hl⟩
      cases hsc : e0.scL with
      | true => rfl
      | false =>
        have := (status0_acc hst0).2.2 hsc
        rw [hpath0] at this
        simp [startIsL, hlo] at this
        omega
    · left; exact hr
  · intro g hg
    exact hnc0 g (by simpa using hg)
  · have := hmid1 d hd
    unfold Crosses at this
    omega
  · have := hmid0 a hab.1
    unfold Crosses at this
    omega

namespace Cex
def fr (o : Int) : Frame := { op := o, cfg := ⟨0, 0⟩, vr := false, vpot := none }
def frv (o : Int) : Frame := { op := o, cfg := ⟨0, 0⟩, vr := true, vpot := none }
def g (o : Int) : GenFrame := { op := o, cfg := ⟨0, 0⟩, vpot := none }
def e0 : Ens := { i0 := -9, i1 := 0, i2 := 0, maxlen := 9, scL := false, scR := true, wf := false, cap := none }
def e1 : Ens := { i0 := 0, i1 := 1, i2 := 3, maxlen := 4, scL := true, scR := false, wf := false, cap := none }
def old0 : List Frame := [fr 1, fr (-1), fr 1]
def old1 : List Frame := [fr (-1), fr 1, fr (-1)]
def bw : Script := ⟨none, [g (-1), g (-1), g (-1), g (-1)]⟩
def fw : Script := ⟨none, [g (-1), g 1, g 1]⟩
def res : Result :=
  { accept := true, status := .ACC, path0 := [frv (-1), frv (-1), frv (-1), fr 1],
    path1 := [fr (-1), fr 1, fr (-1)], st0 := .ACC, st1 := .ACC, w0 := 1, w1 := 1,
    reqs := [.propagate 0 true (-1) ⟨0, 0⟩ 3 (-9) 0 true, .dump 1 1 ⟨0, 0⟩ true,
             .propagate 1 false 1 ⟨0, 0⟩ 3 0 3 true, .dump 0 0 ⟨0, 0⟩ true],
    draws := 0, expArg := none }
end Cex

/-- `swap_members` needs `maxlen0 ≤ maxlen1`: with `maxlen0 = 9 > maxlen1 = 4` (unreachable from a
    configuration file, both are `tis_set["maxlength"]`) the backward path is cut at `maxlen1 - 1`
    frames without having crossed, `path0.length = maxlen1 ≠ maxlen0`, and the move is accepted with
    a new [0-] path `-1,-1,-1,1` that starts left of λ0 = 0. -/
theorem swap_members_maxlen_counterexample :
    retisSwapZero Cex.e0 Cex.e1 Cex.old0 Cex.old1 Cex.bw Cex.fw 0 = .ok Cex.res ∧
      Cex.res.accept = true ∧ Cex.e0.maxlen > Cex.e1.maxlen ∧
      ValidMinus Cex.e0 Cex.old0 ∧ ValidPlus Cex.e1 Cex.old1 ∧ ¬ ValidMinus Cex.e0 Cex.res.path0 := by
  refine ⟨by rfl, rfl, by decide, ?_, ?_, ?_⟩
  · exact ⟨Cex.fr 1, [Cex.fr (-1)], Cex.fr 1, rfl, by simp, Or.inl (by decide), by decide, by decide, by decide⟩
  · exact ⟨Cex.fr (-1), [Cex.fr 1], Cex.fr (-1), rfl, by simp, by decide, by decide, by decide, by decide⟩
  · rintro ⟨f, mid, l, hp, _, hf, _, _, _⟩
    have hf' : f = Cex.frv (-1) := by
      have := congrArg List.head? hp
      simp [Cex.res] at this
      exact this.symm
    subst hf'
    rcases hf with h1 | ⟨h2, _⟩
    · revert h1; decide
    · revert h2; decide

/-- **no propagation on the λ₋₁ early reject.**  With `start_cond = {L, R}` a [0-] path whose last
    frame is at or left of λ₋₁ (= `i0`, the smallest interface) is rejected with status '0-L', the
    old paths are returned and the engines receive no request at all (no propagate, no dump, no draw). -/
theorem lambda_minus_one_left_rejected (e0 e1 : Ens) (old0 old1 : List Frame) (bw fw : Script) (xi : Rat)
    (last0 : Frame) (hord : e0.i0 ≤ e0.i1 ∧ e0.i0 ≤ e0.i2) (hsc : e0.scL = true ∧ e0.scR = true)
    (hlast : old0.getLast? = some last0) (hleft : last0.op ≤ e0.i0) :
    ∃ r, retisSwapZero e0 e1 old0 old1 bw fw xi = .ok r ∧ r.accept = false ∧ r.status = .ZL ∧
      r.reqs = [] ∧ r.draws = 0 ∧ r.path0 = old0 ∧ r.path1 = old1 := by
  have hlo : e0.lo = e0.i0 := by
    unfold Ens.lo; omega
  have he : earlyLeft e0 last0 = true := by
    simp [earlyLeft, hsc.1, hsc.2, hlo, hleft]
  refine ⟨rejected0L old0 old1, ?_, rfl, rfl, rfl, rfl, rfl, rfl⟩
  unfold retisSwapZero
  simp [hord.2, hlast, he]

/-- conversely, every '0-L' early return leaves the engines alone; and whenever the engines were
    asked nothing the move was not accepted -/
theorem no_request_not_accepted {e0 e1 : Ens} {old0 old1 : List Frame} {bw fw : Script} {xi : Rat}
    {r : Result} (h : retisSwapZero e0 e1 old0 old1 bw fw xi = .ok r) (hq : r.reqs = []) :
    r.accept = false := by
  cases hacc : r.accept with
  | false => rfl
  | true =>
    obtain ⟨_, _, _, _, _, _, _, _, _, _, _, _, _, _, _, _, _, _, _, _, _, hr⟩ := accepted_shape h hacc
    rw [hq] at hr; cases hr

theorem quantisComplete_draws {e0 e1 : Ens} {lam : Int} {m0 m1 : Nat} {sc1L : Bool}
    {tmp0 tmp1 : List Frame} {scC scD : Script} {reqs : List Req} {ea : Option Rat} {r : Result}
    (h : quantisComplete e0 e1 lam m0 m1 sc1L tmp0 tmp1 scC scD reqs ea = .ok r) :
    r.draws = 1 ∧ r.expArg = ea := by
  unfold quantisComplete at h
  split at h
  · cases h
  · simp only [Except.ok.injEq] at h; subst h; exact ⟨rfl, rfl⟩

/-- **QuanTIS energy rule.**  Fix everything but `accept_all`.  If the move is accepted with
    `accept_all = True` (so: energies present, both shooting points left of λ0, both one-step
    crossings, both completed paths fine), then with `accept_all = False` it is accepted exactly when
    the drawn number is at most `min(1, p)` — `rand <= pacc` in the code, "at most" in the property —
    where `p` is the value of `exp(β₀·ΔV₀ − β₁·ΔV₁)`; otherwise the status is 'QEA'.  One number is
    drawn either way, and the exponent reported is the same. -/
theorem quantis_accept_iff (e0 e1 : Ens) (old0 old1 : List Frame) (scA scB scC scD : Script)
    (beta0 beta1 xi p : Rat) {rAll : Result}
    (hall : quantisSwapZero e0 e1 old0 old1 scA scB scC scD true beta0 beta1 xi p = .ok rAll)
    (hacc : rAll.accept = true) :
    ∃ r, quantisSwapZero e0 e1 old0 old1 scA scB scC scD false beta0 beta1 xi p = .ok r ∧
      (r.accept = true ↔ xi ≤ min 1 p) ∧ (¬ xi ≤ min 1 p → r.status = .QEA) ∧
      (xi ≤ min 1 p → r = rAll) ∧ r.draws = 1 ∧ r.expArg = rAll.expArg := by
  unfold quantisSwapZero at hall ⊢
  cases hpre : quantisPre e0 old0 old1 scA scB beta0 beta1 with
  | err e => simp [hpre] at hall
  | early status p0 p1 s0 s1 reqs =>
    simp only [hpre, Except.ok.injEq] at hall
    subst hall
    simp [qres] at hacc
  | reached tmp0 tmp1 reqs ea sc1L =>
    simp only [hpre, Bool.true_or, if_true] at hall
    obtain ⟨hd, hea⟩ := quantisComplete_draws hall
    simp only [Bool.false_or, decide_eq_true_eq]
    by_cases hx : xi ≤ min 1 p
    · rw [if_pos hx]
      exact ⟨rAll, hall, by simp [hacc, hx], fun h => absurd hx h, fun _ => rfl, hd, rfl⟩
    · rw [if_neg hx]
      exact ⟨_, rfl, by simp [qres, hx], fun _ => rfl, fun h => absurd h hx, rfl, by simp [qres, hea]⟩

/-- the exponent is the energy expression of the property: `β₀·(V₀(r₀) − V₀(r₁)) − β₁·(V₁(r₀) − V₁(r₁))`
    with `V₀(r₀)` the energy of the second-last frame of the old [0-] path, `V₁(r₁)` that of the first
    frame of the old [0+] path, and `V₀(r₁)`, `V₁(r₀)` the energies the engines report for the swapped
    configurations (frame 0 of the two one-step trajectories). -/
theorem quantis_exponent (beta0 beta1 : Rat) (v0r0 v0r1 v1r1 v1r0 : Int) :
    expArgOf beta0 beta1 v0r0 v0r1 v1r1 v1r0 =
      beta0 * ((v0r0 : Rat) - (v0r1 : Rat)) - beta1 * ((v1r0 : Rat) - (v1r1 : Rat)) := by
  unfold expArgOf
  rw [Rat.mul_comm beta0, Rat.mul_comm beta1]
  simp [Rat.intCast_sub]

/-! ### the old paths are left untouched (the C09 clause "a rejected move leaves the old path untouched",
for the zero swaps)

The model is pure, so its inputs cannot change; what can be stated — and what the tie compares on every
call — is that every object the engines are asked to mutate (`propagate` re-points `config` and forces
`vel_rev`; `dump_phasepoint` re-points `config`) is a fresh copy, never a frame object of an old path.
The harness logs for each request whether the `System` it received is (by identity) a frame of an old
path and additionally snapshots both old paths around every call. -/

theorem buildPath0_fresh {e0 e1 : Ens} {allowed : Bool} {old1 : List Frame} {bw : Script}
    {p : List Frame} {rq : List Req} (h : buildPath0 e0 e1 allowed old1 bw = .ok (p, rq)) :
    rq.all Req.fresh = true := by
  unfold buildPath0 at h
  repeat' split at h
  all_goals cases h
  all_goals simp [propReq, Req.fresh]

theorem buildPath1_fresh {e1 : Ens} {allowed : Bool} {old0 : List Frame} {last0 : Frame} {fw : Script}
    {p : List Frame} {rq : List Req} (h : buildPath1 e1 allowed old0 last0 fw = .ok (p, rq)) :
    rq.all Req.fresh = true := by
  unfold buildPath1 at h
  repeat' split at h
  all_goals cases h
  all_goals simp [propReq, Req.fresh]

/-- **`retis_swap_zero` hands only copies to the engines** (whatever the outcome: accepted, rejected
    before or after propagation); the '0-L' early return asks nothing and gives back the old paths. -/
theorem swap_leaves_old_untouched {e0 e1 : Ens} {old0 old1 : List Frame} {bw fw : Script} {xi : Rat}
    {r : Result} (h : retisSwapZero e0 e1 old0 old1 bw fw xi = .ok r) :
    ∀ q ∈ r.reqs, q.fresh = true := by
  obtain ⟨_, last0, _, hcase⟩ := retis_ok h
  rcases hcase with ⟨_, rfl⟩ | ⟨_, path0, rq0, path1, rq1, hb0, hb1, hf⟩
  · simp [rejected0L]
  · rw [(finish_spec hf).2.2.1]
    have := List.all_append (xs := rq0) (ys := rq1) (f := Req.fresh)
    have hall : (rq0 ++ rq1).all Req.fresh = true := by
      rw [this, buildPath0_fresh hb0, buildPath1_fresh hb1]; rfl
    exact fun q hq => List.all_eq_true.mp hall q hq

/-- requests collected by the part of `quantis_swap_zero` before the energy rule -/
def preReqs : QPre → List Req
  | .err _ => []
  | .early _ _ _ _ _ rq => rq
  | .reached _ _ rq _ _ => rq

theorem quantisPre_fresh (e0 : Ens) (old0 old1 : List Frame) (scA scB : Script) (beta0 beta1 : Rat) :
    (preReqs (quantisPre e0 old0 old1 scA scB beta0 beta1)).all Req.fresh = true := by
  unfold quantisPre
  dsimp only
  repeat' split
  all_goals simp [preReqs, propReq, Req.fresh]

theorem quantisCompleteCore_fresh {e0 e1 : Ens} {lam : Int} {m0 m1 : Nat} {sc1L : Bool}
    {tmp0 tmp1 : List Frame} {scC scD : Script} {reqs : List Req}
    {out : Bool × Status × List Frame × List Frame × Status × Status × Nat × List Req}
    (h : quantisCompleteCore e0 e1 lam m0 m1 sc1L tmp0 tmp1 scC scD reqs = .ok out)
    (hin : reqs.all Req.fresh = true) : out.2.2.2.2.2.2.2.all Req.fresh = true := by
  unfold quantisCompleteCore at h
  dsimp only at h
  repeat' split at h
  all_goals cases h
  all_goals simp [List.all_append, hin, propReq, Req.fresh]

/-- the same for `quantis_swap_zero` -/
theorem quantis_leaves_old_untouched {e0 e1 : Ens} {old0 old1 : List Frame} {scA scB scC scD : Script}
    {aa : Bool} {beta0 beta1 xi p : Rat} {r : Result}
    (h : quantisSwapZero e0 e1 old0 old1 scA scB scC scD aa beta0 beta1 xi p = .ok r) :
    ∀ q ∈ r.reqs, q.fresh = true := by
  have hpf := quantisPre_fresh e0 old0 old1 scA scB beta0 beta1
  suffices hall : r.reqs.all Req.fresh = true from fun q hq => List.all_eq_true.mp hall q hq
  unfold quantisSwapZero at h
  cases hpre : quantisPre e0 old0 old1 scA scB beta0 beta1 with
  | err e => simp [hpre] at h
  | early st p0 p1 s0 s1 reqs =>
    simp only [hpre, Except.ok.injEq] at h
    subst h
    rw [hpre] at hpf; exact hpf
  | reached t0 t1 reqs ea sc =>
    rw [hpre] at hpf
    simp only [hpre] at h
    split at h
    · unfold quantisComplete at h
      split at h
      · cases h
      · rename_i hc
        simp only [Except.ok.injEq] at h
        subst h
        exact quantisCompleteCore_fresh hc hpf
    · simp only [Except.ok.injEq] at h
      subst h
      exact hpf

/-! ### 'QNE' means a missing energy — 0 is an energy -/

theorem qstatus0_ne_qne (e0 : Ens) (m : Nat) (p : List Frame) : qstatus0 e0 m p ≠ .QNE := by
  unfold qstatus0; repeat' split
  all_goals simp

theorem qstatus1_ne_qne (lam : Int) (m : Nat) (p : List Frame) : qstatus1 lam m p ≠ .QNE := by
  unfold qstatus1; repeat' split
  all_goals simp

theorem core_status_ne_qne {e0 e1 : Ens} {lam : Int} {m0 m1 : Nat} {sc1L : Bool}
    {tmp0 tmp1 : List Frame} {scC scD : Script} {reqs : List Req}
    {out : Bool × Status × List Frame × List Frame × Status × Status × Nat × List Req}
    (h : quantisCompleteCore e0 e1 lam m0 m1 sc1L tmp0 tmp1 scC scD reqs = .ok out) : out.2.1 ≠ .QNE := by
  unfold quantisCompleteCore at h
  dsimp only at h
  repeat' split at h
  all_goals cases h
  all_goals first
    | exact qstatus0_ne_qne _ _ _
    | exact qstatus1_ne_qne _ _ _
    | simp

/-- `quantis_swap_zero` answers 'QNE' only if the second-last frame of the old [0-] path or the first frame of
    the old [0+] path carries no potential energy (`None`); an energy of 0 is an energy. -/
theorem quantis_qne_only_if_energy_missing {e0 e1 : Ens} {old0 old1 : List Frame} {scA scB scC scD : Script}
    {aa : Bool} {beta0 beta1 xi p : Rat} {r : Result} {sp0 sp1 last : Frame} {rest1 pre0 : List Frame}
    (h : quantisSwapZero e0 e1 old0 old1 scA scB scC scD aa beta0 beta1 xi p = .ok r)
    (h1 : old1 = sp0 :: rest1) (h0 : old0 = pre0 ++ [sp1, last])
    (hv0 : sp0.vpot ≠ none) (hv1 : sp1.vpot ≠ none) : r.status ≠ .QNE := by
  have hrev : old0.reverse = last :: sp1 :: pre0.reverse := by rw [h0]; simp
  have hn0 : sp0.vpot.isNone = false := by cases hh : sp0.vpot <;> simp_all
  have hn1 : sp1.vpot.isNone = false := by cases hh : sp1.vpot <;> simp_all
  unfold quantisSwapZero at h
  cases hpre : quantisPre e0 old0 old1 scA scB beta0 beta1 with
  | err e => simp [hpre] at h
  | early st p0 p1 s0 s1 reqs =>
    simp only [hpre, Except.ok.injEq] at h
    subst h
    unfold quantisPre at hpre
    rw [h1] at hpre
    simp only [hrev, hn0, hn1, Bool.or_self, Bool.false_eq_true, if_false] at hpre
    repeat' split at hpre
    all_goals cases hpre
    all_goals simp [qres]
  | reached t0 t1 reqs ea sc =>
    simp only [hpre] at h
    split at h
    · unfold quantisComplete at h
      split at h
      · cases h
      · rename_i hc
        simp only [Except.ok.injEq] at h
        subst h
        exact core_status_ne_qne hc
    · simp only [Except.ok.injEq] at h
      subst h
      simp [qres]

/-! ### the high-acceptance rule of the zero swap (wire fencing in [0-] or [0+]) -/

theorem cw_ok {p : List Frame} {e : Ens} {w : Nat} (h : cw p e = .ok w) :
    WF.computeWeight (ops p) e.i0 e.i1 e.w2 e.wf = .ok w := by
  unfold cw at h
  split at h
  · cases h
  · split at h
    · rename_i hw
      simp only [Except.ok.injEq] at h
      rw [hw, h]
    · cases h

/-- **the swap's acceptance ratio uses the weights at the cap.**  `high_acc_swap` accepts exactly when
    `ξ < (c1_new·c2_new)/(c1_old·c2_old)` (1 if a denominator weight is 0; strict `<` as in the code), and
    each of the four weights is `WF.computeWeight` — C10's weight — of the new [0+] path / the old [0+] path
    with the interfaces `[i0, i1, w2]`, where `w2 = tis_set["interface_cap"]` if it is set and the last
    interface otherwise (`Ens.w2`), i.e. the same right boundary `calc_cv_vector` and `wire_fencing` use. -/
theorem high_acc_uses_cap_weights {e0 e1 : Ens} {path1 old1 : List Frame} {xi : Rat} {a : Bool}
    (h : highAcc e0 e1 path1 old1 xi = .ok a) :
    ∃ c1o c2o c1n c2n : Nat,
      WF.computeWeight (ops path1) e0.i0 e0.i1 e0.w2 e0.wf = .ok c1o ∧
      WF.computeWeight (ops old1) e1.i0 e1.i1 e1.w2 e1.wf = .ok c2o ∧
      WF.computeWeight (ops old1) e0.i0 e0.i1 e0.w2 e0.wf = .ok c1n ∧
      WF.computeWeight (ops path1) e1.i0 e1.i1 e1.w2 e1.wf = .ok c2n ∧
      (a = true ↔ xi < (if c1o = 0 ∨ c2o = 0 then (1 : Rat)
                        else ((c1n * c2n : Nat) : Rat) / ((c1o * c2o : Nat) : Rat))) := by
  unfold highAcc at h
  cases h1 : cw path1 e0 with
  | error x => simp [h1] at h
  | ok c1o =>
    cases h2 : cw old1 e1 with
    | error x => simp [h1, h2] at h
    | ok c2o =>
      cases h3 : cw old1 e0 with
      | error x => simp [h1, h2, h3] at h
      | ok c1n =>
        cases h4 : cw path1 e1 with
        | error x => simp [h1, h2, h3, h4] at h
        | ok c2n =>
          simp only [h1, h2, h3, h4, Except.ok.injEq] at h
          refine ⟨c1o, c2o, c1n, c2n, cw_ok h1, cw_ok h2, cw_ok h3, cw_ok h4, ?_⟩
          rw [← h]; simp

/-- when both new paths are fine and one of the two ensembles uses wire fencing, the outcome of
    `retis_swap_zero` is decided by `high_acc_swap` alone: one number is drawn, ACC or HAS; and the weights
    put on the new paths are again `computeWeight` at the cap (1 for a non-wf ensemble). -/
theorem has_rule {e0 e1 : Ens} {old1 path0 path1 : List Frame} {reqs : List Req} {xi : Rat} {r : Result}
    (h : finish e0 e1 old1 path0 path1 reqs xi = .ok r)
    (h0 : status0 e0 path0 = .ACC) (h1 : status1 e1 path1 = .ACC) (hwf : (e0.wf || e1.wf) = true) :
    ∃ a, highAcc e0 e1 path1 old1 xi = .ok a ∧ r.accept = a ∧
      r.status = (if a then Status.ACC else Status.HAS) ∧ r.draws = 1 ∧
      finalWeight path0 e0 = .ok r.w0 ∧ finalWeight path1 e1 = .ok r.w1 := by
  unfold finish at h
  simp only [h0, h1, hwf, decide_true, Bool.and_self, Bool.and_true, if_true] at h
  cases hh : highAcc e0 e1 path1 old1 xi with
  | error x => simp [hh] at h
  | ok a =>
    simp only [hh] at h
    cases hw0 : finalWeight path0 e0 with
    | error x => simp [hw0] at h
    | ok w0 =>
      cases hw1 : finalWeight path1 e1 with
      | error x => simp [hw0, hw1] at h
      | ok w1 =>
        simp only [hw0, hw1, Except.ok.injEq] at h
        subst h
        exact ⟨a, rfl, rfl, rfl, rfl, rfl, rfl⟩

/-! ### swapping twice -/

theorem det_unfold {st : Cfg → Cfg} {opf : Cfg → Int} {vf : Cfg → Option Int} {n : Nat} {e0 e1 : Ens}
    {old0 old1 : List Frame} {xi : Rat} {r : Result}
    (h : retisSwapZeroDet st opf vf n e0 e1 old0 old1 xi = .ok r) (ha : r.accept = true) :
    ∃ first1 last0, old1.head? = some first1 ∧ old0.getLast? = some last0 ∧
      retisSwapZero e0 e1 old0 old1 (detScript st opf vf n (startCfg first1 true))
        (detScript st opf vf n (startCfg last0 false)) xi = .ok r := by
  unfold retisSwapZeroDet at h
  cases h1 : old1.head? with
  | none =>
    simp only [h1] at h
    obtain ⟨_, _, _, c, d, post1, _, _, _, _, _, hold1, _⟩ := accepted_shape h ha
    rw [hold1] at h1; simp at h1
  | some first1 =>
    cases h0 : old0.getLast? with
    | none =>
      simp only [h1, h0] at h
      obtain ⟨pre0, a, b, _, _, _, _, _, _, _, hold0, _⟩ := accepted_shape h ha
      rw [hold0] at h0; simp at h0
    | some last0 =>
      simp only [h1, h0] at h
      exact ⟨first1, last0, rfl, rfl, h⟩

theorem secondlast_split {a b f l : Frame} {pre mid : List Frame}
    (h : pre ++ [a, b] = f :: mid ++ [l]) : pre ++ [a] = f :: mid ∧ b = l := by
  have h' : (pre ++ [a]) ++ [b] = (f :: mid) ++ [l] := by simpa using h
  have hh := List.append_inj' h' rfl
  exact ⟨hh.1, by simpa using hh.2⟩

/-- **swapping twice restores the paths.**  Let both engines be one deterministic engine `D` that is
    time-reversible (`D.step (flip (D.step c)) = flip c`) with an order parameter that does not depend on
    the sign of the velocities, running at least `maxlen1 - 2` steps per call; let the old paths be valid
    members of their ensembles and trajectories of `D` (whatever their `vel_rev` flags), and
    `maxlen0 ≤ maxlen1`.  If the swap is accepted and the swap of the two new paths is accepted again,
    the result has the order-value sequences — and indeed the phase points — of the original paths. -/
theorem swap_twice_identity (D : Dyn) (hrev : D.Reversible) (hop : D.OpEven) (n : Nat)
    {e0 e1 : Ens} {old0 old1 : List Frame} {xi1 xi2 : Rat} {r1 r2 : Result}
    (h1 : retisSwapZeroDet D.step D.opf D.vf n e0 e1 old0 old1 xi1 = .ok r1) (ha1 : r1.accept = true)
    (h2 : retisSwapZeroDet D.step D.opf D.vf n e0 e1 r1.path0 r1.path1 xi2 = .ok r2) (ha2 : r2.accept = true)
    (hm : e0.maxlen ≤ e1.maxlen) (hn : e1.maxlen ≤ n + 2)
    (hv0 : ValidMinus e0 old0) (hv1 : ValidPlus e1 old1) (ht0 : IsTraj D old0) (ht1 : IsTraj D old1) :
    ops r2.path0 = ops old0 ∧ ops r2.path1 = ops old1 ∧
      r2.path0.map Frame.phys = old0.map Frame.phys ∧ r2.path1.map Frame.phys = old1.map Frame.phys := by
  -- first swap
  obtain ⟨_, _, _, _, h1'⟩ := det_unfold h1 ha1
  obtain ⟨pre0, a, b, c, d, post1, tmp0, s0, tmp1, s1, hold0, hold1, hprop0, hprop1, hp0, hp1, h20, _, h21, _, _, _⟩ :=
    accepted_shape h1' ha1
  obtain ⟨t0, ht0'⟩ := propagate_head hprop0 (by omega)
  obtain ⟨t1, ht1'⟩ := propagate_head hprop1 (by omega)
  -- second swap
  obtain ⟨first1', last0', hf1, hl0, h2'⟩ := det_unfold h2 ha2
  obtain ⟨pre0', a', b', c', d', post1', tmp0', s0', tmp1', s1', hold0', hold1', hprop0', hprop1', hp0', hp1',
    _, hl0', _, hl1', _, _⟩ := accepted_shape h2' ha2
  -- identify the frames of the second swap
  have hc' : c' = a ∧ d'.op = b.op ∧ d'.phys = b.phys := by
    rw [hp1, ht1'] at hold1'
    simp only [List.cons.injEq] at hold1'
    refine ⟨hold1'.1.symm, ?_, ?_⟩
    · rw [← hold1'.2.1]
    · rw [← hold1'.2.1]; exact phys_start b false _ _
  have hb' : a'.op = c.op ∧ a'.phys = c.phys ∧ b' = d := by
    rw [hp0, ht0'] at hold0'
    simp only [List.reverse_cons, List.append_assoc, List.singleton_append] at hold0'
    have := (List.append_inj' hold0' rfl).2
    simp only [List.cons.injEq, and_true] at this
    refine ⟨?_, ?_, this.2.symm⟩
    · rw [← this.1]
    · rw [← this.1]; exact phys_start c true _ _
  obtain ⟨hc'1, hd'op, hd'phys⟩ := hc'
  obtain ⟨ha'op, ha'phys, hb'd⟩ := hb'
  subst hc'1 hb'd
  have hfirst1' : first1' = c' := by
    rw [hold1'] at hf1; simpa using hf1.symm
  have hlast0' : last0' = b' := by
    rw [hold0'] at hl0; simpa using hl0.symm
  subst hfirst1' hlast0'
  -- the old paths as members and trajectories
  obtain ⟨f0, mid0, l0, ho0, hne0, hf0, hmid0, _, hlen0⟩ := hv0
  obtain ⟨f1, mid1, l1, ho1, hne1, _, hmid1, hcl1, hlen1⟩ := hv1
  obtain ⟨hsp0, _⟩ := secondlast_split (hold0.symm.trans ho0)
  have hsp1 : last0' :: post1 = mid1 ++ [l1] := by
    have := hold1.symm.trans ho1
    simp only [List.cons_append, List.cons.injEq] at this
    exact this.2
  -- backward call of the second swap retraces old [0-]
  have hback := propagate_retrace D Cfg.flip true (fun c => hop c) (fun c => by simp [ZeroSwap.flip_flip])
    (lst := pre0.reverse) (lpre := mid0.reverse) (lx := f0) hprop0' (by omega) (by omega)
    (by
      have := congrArg List.length hold0
      simp at this ⊢; omega)
    (startCfg_true first1')
    (by
      have hc : Consec (fun f g => g.phys = D.step f.phys) (pre0 ++ [first1']) := by
        have := ht0.2; rw [hold0] at this
        have e : pre0 ++ [first1', b] = (pre0 ++ [first1']) ++ [b] := by simp
        rw [e] at this; exact this.prefix
      have := consec_reverse hc
      simp only [List.reverse_append, List.reverse_cons, List.reverse_nil, List.nil_append, List.cons_append] at this
      refine Consec.imp ?_ this
      intro u w huw
      show D.step u.phys.flip = w.phys.flip
      rw [huw]; exact hrev w.phys)
    (by
      intro f hf
      apply ht0.1; rw [hold0]; simp at hf ⊢; exact Or.inl hf)
    (by
      have := congrArg List.reverse hsp0
      simpa using this)
    (by intro g hg; exact hmid0 g (by simpa using hg))
    (by
      rcases hf0 with h | ⟨_, h⟩
      · exact Or.inr h
      · exact Or.inl h)
  -- forward call of the second swap retraces old [0+]
  have hforw := propagate_retrace D id false (fun _ => rfl) (fun c => by simp)
    (lst := post1) (lpre := mid1) (lx := l1) hprop1' (by omega) (by omega)
    (by
      have := congrArg List.length hold1
      simp at this ⊢; omega)
    (startCfg_false last0')
    (by
      have := ht1.2; rw [hold1] at this
      refine Consec.imp ?_ this.tail
      intro u w huw
      simp only [id] at huw ⊢
      exact huw.symm)
    (by
      intro f hf
      apply ht1.1; rw [hold1]; simp [hf])
    hsp1 hmid1 hcl1
  obtain ⟨hbp, hbo⟩ := hback
  obtain ⟨hfp, hfo⟩ := hforw
  have hb_eq : b = l0 := (secondlast_split (hold0.symm.trans ho0)).2
  refine ⟨?_, ?_, ?_, ?_⟩
  · rw [hp0', hold0]
    simp only [ops, List.map_append, List.map_reverse, List.map_cons, List.map_nil] at hbo ⊢
    rw [hbo, hd'op]; simp
  · rw [hp1', hold1]
    simp only [ops, List.map_cons] at hfo ⊢
    rw [hfo, ha'op]
  · rw [hp0', hold0]
    simp only [List.map_append, List.map_reverse, List.map_cons, List.map_nil] at hbp ⊢
    rw [hbp, hd'phys]; simp
  · rw [hp1', hold1]
    simp only [List.map_cons] at hfp ⊢
    rw [hfp, ha'phys]

/-! ### non-vacuity: the hypotheses are met by concrete, non-trivial swaps -/
namespace Ex
def fr (o : Int) (x : Int) : Frame := { op := o, cfg := ⟨x, 1⟩, vr := false, vpot := some 0 }
def g (o : Int) (x : Int) : GenFrame := { op := o, cfg := ⟨x, 3⟩, vpot := some 0 }
def e0 : Ens := { i0 := -50, i1 := 0, i2 := 0, maxlen := 8, scL := false, scR := true, wf := false, cap := none }
def e0m : Ens := { i0 := -3, i1 := -2, i2 := 0, maxlen := 8, scL := true, scR := true, wf := false, cap := none }
def e1 : Ens := { i0 := 0, i1 := 1, i2 := 3, maxlen := 8, scL := true, scR := false, wf := false, cap := none }
def old0 : List Frame := [fr 1 100, fr (-1) 101, fr (-2) 102, fr 1 103]
def old0L : List Frame := [fr 1 100, fr (-1) 101, fr (-4) 102]
def old1 : List Frame := [fr (-1) 200, fr 1 201, fr 2 202, fr 4 203]
def bw : Script := ⟨some 0, [g (-2) 300, g (-1) 301, g 1 302, g 1 303, g 1 304, g 1 305]⟩
def fw : Script := ⟨some 0, [g 2 400, g 1 401, g (-1) 402, g 1 403, g 1 404, g 1 405]⟩
/-- QuanTIS: one-step scripts that cross λ0, energies 0/2, then the completions -/
def scA : Script := ⟨some 2, [g 1 500]⟩
def scB : Script := ⟨some 0, [g 1 600]⟩
end Ex

/-- an accepted plain swap meeting every hypothesis of `junction_identity` / `swap_members` -/
example : ∃ r, retisSwapZero Ex.e0 Ex.e1 Ex.old0 Ex.old1 Ex.bw Ex.fw 0 = .ok r ∧ r.accept = true ∧
    ops r.path0 = [1, -1, -2, -1, 1] ∧ ops r.path1 = [-2, 1, 2, 1, -1] ∧
    Ex.e0.maxlen ≤ Ex.e1.maxlen ∧ Ex.e1.maxlen ≤ Ex.bw.rest.length + 2 ∧ Ex.e1.maxlen ≤ Ex.fw.rest.length + 2 ∧
    (Ex.e0.i0 ≤ Ex.e0.i1 ∧ Ex.e0.i0 ≤ Ex.e0.i2) ∧ Ex.e0.i2 = Ex.e1.i0 ∧
    ValidMinus Ex.e0 Ex.old0 ∧ ValidPlus Ex.e1 Ex.old1 :=
  ⟨_, rfl, rfl, rfl, rfl, by decide, by decide, by decide, by decide, rfl,
    ⟨Ex.fr 1 100, [Ex.fr (-1) 101, Ex.fr (-2) 102], Ex.fr 1 103, rfl, by simp, Or.inl (by decide), by decide, by decide, by decide⟩,
    ⟨Ex.fr (-1) 200, [Ex.fr 1 201, Ex.fr 2 202], Ex.fr 4 203, rfl, by simp, by decide, by decide, by decide, by decide⟩⟩

/-- the λ₋₁ variant: an accepted swap whose new [0-] path starts LEFT of λ₋₁ = -3 -/
example : ∃ r, retisSwapZero Ex.e0m Ex.e1 Ex.old0 Ex.old1 ⟨some 0, [Ex.g (-2) 300, Ex.g (-4) 301, Ex.g 1 302, Ex.g 1 303, Ex.g 1 304, Ex.g 1 305]⟩ Ex.fw 0 = .ok r ∧
    r.accept = true ∧ ops r.path0 = [-4, -2, -1, 1] :=
  ⟨_, rfl, rfl, rfl⟩

/-- the λ₋₁ early reject: hypotheses of `lambda_minus_one_left_rejected` on a path ending at -4 ≤ λ₋₁ -/
example : (Ex.e0m.i0 ≤ Ex.e0m.i1 ∧ Ex.e0m.i0 ≤ Ex.e0m.i2) ∧ (Ex.e0m.scL = true ∧ Ex.e0m.scR = true) ∧
    Ex.old0L.getLast? = some (Ex.fr (-4) 102) ∧ (Ex.fr (-4) 102).op ≤ Ex.e0m.i0 :=
  ⟨by decide, by decide, rfl, by decide⟩

/-- QuanTIS: accepted with accept_all; with (ξ, p) = (0, 1) it is accepted and with (ξ, p) = (1, 0) the status is QEA -/
example : ∃ r, quantisSwapZero Ex.e0 Ex.e1 Ex.old0 Ex.old1 Ex.scA Ex.scB Ex.bw Ex.fw true 1 1 0 1 = .ok r ∧
    r.accept = true ∧ r.draws = 1 := ⟨_, rfl, rfl, rfl⟩

example : (quantisSwapZero Ex.e0 Ex.e1 Ex.old0 Ex.old1 Ex.scA Ex.scB Ex.bw Ex.fw false 1 1 0 1).toOption.map
    (fun r => (r.accept, r.status)) = some (true, .ACC) := by decide

example : (quantisSwapZero Ex.e0 Ex.e1 Ex.old0 Ex.old1 Ex.scA Ex.scB Ex.bw Ex.fw false 1 1 1 0).toOption.map
    (fun r => (r.accept, r.status)) = some (false, .QEA) := by decide

/-! ### non-vacuity of `swap_twice_identity`: the integer leap-frog engine in a double well -/

/-- position-Verlet with an integer force is exactly time-reversible -/
theorem dw_reversible (a k : Int) : ∀ c : Cfg, dwStep a k (dwStep a k c).flip = c.flip := by
  intro c
  cases c with
  | mk x v =>
    simp only [dwStep, Cfg.flip]
    have e : x + v + (v + dwForce a k (x + v)) + -(v + dwForce a k (x + v)) = x + v := by omega
    rw [e]
    congr 1 <;> omega

def dwDyn (a k : Int) : Dyn := { step := dwStep a k, opf := (·.x), vf := fun _ => some 0 }

theorem dwDyn_reversible (a k : Int) : (dwDyn a k).Reversible := dw_reversible a k
theorem dwDyn_opEven (a k : Int) : (dwDyn a k).OpEven := fun _ => rfl

namespace ExDet
def fr (x v : Int) (vr : Bool) : Frame := { op := x, cfg := ⟨x, v⟩, vr := vr, vpot := some 0 }
def e0 : Ens := { i0 := -50, i1 := -7, i2 := -7, maxlen := 16, scL := false, scR := true, wf := false, cap := none }
def e1 : Ens := { i0 := -7, i1 := -7, i2 := -2, maxlen := 16, scL := true, scR := false, wf := false, cap := none }
/-- a [0-] trajectory of the double well (a = 64, k = 64): x = -4, -10, -10, -4, stored with mixed flags -/
def old0 : List Frame := [fr (-4) 2 true, fr (-10) (-4) false, fr (-10) 4 false, fr (-4) 2 false]
/-- a [0+] trajectory: x = -10, -6, -2, 0 -/
def old1 : List Frame := [fr (-10) 1 false, fr (-6) (-3) true, fr (-2) (-1) true, fr 0 (-1) true]
end ExDet

/-- every hypothesis of `swap_twice_identity` holds for this pair: both swaps are accepted, the old
    paths are members and trajectories of the reversible engine -/
example : ∃ r1 r2,
    retisSwapZeroDet (dwDyn 64 64).step (dwDyn 64 64).opf (dwDyn 64 64).vf 18 ExDet.e0 ExDet.e1 ExDet.old0 ExDet.old1 0 = .ok r1 ∧
    r1.accept = true ∧ ops r1.path0 = [-4, -10, -6] ∧ ops r1.path1 = [-10, -4, -1] ∧
    retisSwapZeroDet (dwDyn 64 64).step (dwDyn 64 64).opf (dwDyn 64 64).vf 18 ExDet.e0 ExDet.e1 r1.path0 r1.path1 0 = .ok r2 ∧
    r2.accept = true ∧ ExDet.e0.maxlen ≤ ExDet.e1.maxlen ∧ ExDet.e1.maxlen ≤ 18 + 2 ∧
    ValidMinus ExDet.e0 ExDet.old0 ∧ ValidPlus ExDet.e1 ExDet.old1 ∧
    IsTraj (dwDyn 64 64) ExDet.old0 ∧ IsTraj (dwDyn 64 64) ExDet.old1 := by
  refine ⟨_, _, rfl, rfl, rfl, rfl, rfl, rfl, by decide, by decide, ?_, ?_, ?_, ?_⟩
  · exact ⟨ExDet.fr (-4) 2 true, [ExDet.fr (-10) (-4) false, ExDet.fr (-10) 4 false], ExDet.fr (-4) 2 false,
      rfl, by simp, Or.inl (by decide), by decide, by decide, by decide⟩
  · exact ⟨ExDet.fr (-10) 1 false, [ExDet.fr (-6) (-3) true, ExDet.fr (-2) (-1) true], ExDet.fr 0 (-1) true,
      rfl, by simp, by decide, by decide, by decide, by decide⟩
  · exact ⟨by decide, by decide, by decide, by decide, trivial⟩
  · exact ⟨by decide, by decide, by decide, by decide, trivial⟩

/-- non-vacuity: energies exactly 0 on both shooting points, and the swap is accepted -/
example : ∃ r, quantisSwapZero Ex.e0 Ex.e1 Ex.old0 Ex.old1 Ex.scA Ex.scB Ex.bw Ex.fw true 1 1 0 1 = .ok r ∧
    r.status = .ACC ∧ (Ex.fr (-1) 200).vpot = some 0 ∧ (Ex.fr (-2) 102).vpot = some 0 := ⟨_, rfl, rfl, rfl, rfl⟩

end Infretis.C11
