/-
C11 — zero swaps exchange the crossing frames and are reversible.

Theorems about the model `Infretis.ZeroSwap.retisSwapZero` / `quantisSwapZero`
(Model/ZeroSwap.lean mirrors tis.py:798-1010 and 1064-1324 branch by branch).
-/
import Infretis.Lemmas.ZeroSwapTwice
import Infretis.Lemmas.ZeroSwapAlg
import Infretis.Lemmas.ZeroSwapTwiceV
import Infretis.Lemmas.ZeroSwapInproc

namespace Infretis.C11
open Infretis.ZeroSwap Infretis.Engine

theorem propagate_head {m : Nat} {l r : Int} {sys : Frame} {rev : Bool} {scr : Script}
    {tmp : List Frame} {s : Bool} (h : propagate m l r sys rev scr = some (tmp, s))
    (h1 : 1 ≤ tmp.length) :
    ∃ t, tmp = { op := sys.op, cfg := startCfg sys rev, vr := rev, vpot := scr.v0 } :: t := by
  obtain ⟨_, htake, _, _⟩ := propagate_spec h
  cases hn : tmp.length with
  | zero => omega
  | succ k =>
    rw [hn] at htake
    simp only [streamOf, List.take_succ_cons] at htake
    exact ⟨_, htake⟩

/-- **accept ⇔ status ACC** for `retis_swap_zero` -/
theorem accept_iff_status_acc {e0 e1 : Ens} {old0 old1 : List Frame} {bw fw : Script} {xi : Rat}
    {r : Result} (h : retisSwapZero e0 e1 old0 old1 bw fw xi = .ok r) :
    r.accept = true ↔ r.status = .ACC := by
  obtain ⟨_, last0, _, hcase⟩ := retis_ok h
  rcases hcase with ⟨_, rfl⟩ | ⟨_, path0, rq0, path1, rq1, _, _, hf⟩
  · simp [rejected0L]
  · exact (finish_spec hf).2.2.2.2

/-- the pieces of an accepted swap, used by the theorems below -/
theorem accepted_shape {e0 e1 : Ens} {old0 old1 : List Frame} {bw fw : Script} {xi : Rat}
    {r : Result} (h : retisSwapZero e0 e1 old0 old1 bw fw xi = .ok r) (ha : r.accept = true) :
    ∃ pre0 a b c d post1 tmp0 s0 tmp1 s1,
      old0 = pre0 ++ [a, b] ∧ old1 = c :: d :: post1 ∧
      propagate (e1.maxlen - 1) e0.i0 e0.i2 c true bw = some (tmp0, s0) ∧
      propagate (e1.maxlen - 1) e1.i0 e1.i2 b false fw = some (tmp1, s1) ∧
      r.path0 = tmp0.reverse ++ [d] ∧ r.path1 = a :: tmp1 ∧
      2 ≤ tmp0.length ∧ tmp0.length + 1 < e0.maxlen ∧ 2 ≤ tmp1.length ∧ tmp1.length + 1 < e1.maxlen ∧
      status0 e0 r.path0 = .ACC ∧
      r.reqs = [propReq 0 (e1.maxlen - 1) e0.i0 e0.i2 c true, Req.dump 1 1 d.cfg true,
                propReq 1 (e1.maxlen - 1) e1.i0 e1.i2 b false, Req.dump 0 0 a.cfg true] := by
  obtain ⟨_, last0, hlast, hcase⟩ := retis_ok h
  rcases hcase with ⟨_, rfl⟩ | ⟨_, path0, rq0, path1, rq1, hb0, hb1, hf⟩
  · simp [rejected0L] at ha
  · obtain ⟨hp0, hp1, hrq, hacc, _⟩ := finish_spec hf
    obtain ⟨hs0, hs1, _⟩ := hacc ha
    obtain ⟨c, d, post1, tmp0, s0, hold1, _, hprop0, hpath0, h20, hl0, hrq0⟩ := buildPath0_acc hb0 hs0
    obtain ⟨pre0, a, b, tmp1, s1, hold0, _, hprop1, hpath1, h21, hl1, hrq1⟩ := buildPath1_acc hb1 hs1
    have hb : last0 = b := by
      rw [hold0] at hlast; simpa using hlast.symm
    subst hb
    refine ⟨pre0, a, last0, c, d, post1, tmp0, s0, tmp1, s1, hold0, hold1, hprop0, hprop1, ?_, ?_, h20, hl0, h21, hl1, ?_, ?_⟩
    · rw [hp0, hpath0]
    · rw [hp1, hpath1]
    · rw [hp0]; exact hs0
    · rw [hrq, hrq0, hrq1]; rfl

/-- **junction identity.**  On ACC the new [0-] path ends with `g0, d` where `d` is frame 1 of the
    old [0+] path unchanged (order value, configuration, vel_rev flag) and `g0` is frame 0 of the
    old [0+] path: same order value, same physical phase point, flagged `vel_rev` (its stored
    velocities are reversed iff the old frame was not flagged).  The new [0+] path starts with
    `a, g1` where `a` is the second-last frame of the old [0-] path unchanged and `g1` is its
    last frame: same order value, same phase point, not flagged. -/
theorem junction_identity {e0 e1 : Ens} {old0 old1 : List Frame} {bw fw : Script} {xi : Rat}
    {r : Result} (h : retisSwapZero e0 e1 old0 old1 bw fw xi = .ok r) (ha : r.accept = true) :
    ∃ pre0 a b c d post1 back g0 g1 fwd,
      old0 = pre0 ++ [a, b] ∧ old1 = c :: d :: post1 ∧
      r.path0 = back ++ [g0, d] ∧ r.path1 = a :: g1 :: fwd ∧
      g0.op = c.op ∧ g0.phys = c.phys ∧ g0.vr = true ∧ g0.cfg = (if c.vr then c.cfg else c.cfg.flip) ∧
      g1.op = b.op ∧ g1.phys = b.phys ∧ g1.vr = false ∧ g1.cfg = (if b.vr then b.cfg.flip else b.cfg) := by
  obtain ⟨pre0, a, b, c, d, post1, tmp0, s0, tmp1, s1, hold0, hold1, hprop0, hprop1, hp0, hp1, h20, _, h21, _, _, _⟩ :=
    accepted_shape h ha
  obtain ⟨t0, ht0⟩ := propagate_head hprop0 (by omega)
  obtain ⟨t1, ht1⟩ := propagate_head hprop1 (by omega)
  refine ⟨pre0, a, b, c, d, post1, t0.reverse,
    { op := c.op, cfg := startCfg c true, vr := true, vpot := bw.v0 },
    { op := b.op, cfg := startCfg b false, vr := false, vpot := fw.v0 }, t1, hold0, hold1, ?_, ?_,
    rfl, phys_start c true _ _, rfl, ?_, rfl, phys_start b false _ _, rfl, ?_⟩
  · rw [hp0, ht0]; simp
  · rw [hp1, ht1]
  · cases hv : c.vr <;> simp [startCfg, hv]
  · cases hv : b.vr <;> simp [startCfg, hv]

theorem second_mem_mid {c d f l : Frame} {post mid : List Frame}
    (h : c :: d :: post = f :: mid ++ [l]) (hne : mid ≠ []) : d ∈ mid := by
  cases mid with
  | nil => exact absurd rfl hne
  | cons m0 mid' =>
    simp at h
    rw [h.2.1]; simp

theorem secondlast_mem_mid {a b f l : Frame} {pre mid : List Frame}
    (h : pre ++ [a, b] = f :: mid ++ [l]) (hne : mid ≠ []) : a ∈ mid ∧ b = l := by
  have h' : (pre ++ [a]) ++ [b] = (f :: mid) ++ [l] := by simpa using h
  have hh := List.append_inj' h' rfl
  have hb : b = l := by simpa using hh.2
  refine ⟨?_, hb⟩
  rcases List.eq_nil_or_concat mid with hm | ⟨mid', z, hm⟩
  · exact absurd hm hne
  · rw [hm] at hh ⊢
    have h2 : pre ++ [a] = (f :: mid') ++ [z] := by simpa using hh.1
    have := List.append_inj' h2 rfl
    have haz : a = z := by simpa using this.2
    simp [haz]

/-- **ensemble membership.**  For length limits with `maxlen0 ≤ maxlen1` (in every configuration
    `initiate_ensembles` builds both are the same `tis_set["maxlength"]`), MD programs that do not end
    before the length limit, ordered [0-] interfaces, the shared interface λ0 (`e0.i2 = e1.i0`) and
    valid old paths: on ACC the new [0-] path starts outside (right of λ0, or left of λ₋₁ — only if 'L'
    is an allowed start), its interior stays in `[λ₋₁, λ0]`, it ends at or right of λ0; the new [0+] path
    starts at or left of λ0, its interior stays in `[λ0, λN]`, it ends outside; both are strictly
    shorter than their length limits. -/
theorem swap_members {e0 e1 : Ens} {old0 old1 : List Frame} {bw fw : Script} {xi : Rat} {r : Result}
    (h : retisSwapZero e0 e1 old0 old1 bw fw xi = .ok r) (ha : r.accept = true)
    (hm : e0.maxlen ≤ e1.maxlen)
    (hbw : e1.maxlen ≤ bw.rest.length + 2) (hfw : e1.maxlen ≤ fw.rest.length + 2)
    (hord : e0.i0 ≤ e0.i1 ∧ e0.i0 ≤ e0.i2) (hlam : e0.i2 = e1.i0)
    (hv0 : ValidMinus e0 old0) (hv1 : ValidPlus e1 old1) :
    ValidMinus e0 r.path0 ∧ ValidPlus e1 r.path1 ∧
      r.path0.length < e0.maxlen ∧ r.path1.length < e1.maxlen := by
  obtain ⟨pre0, a, b, c, d, post1, tmp0, s0, tmp1, s1, hold0, hold1, hprop0, hprop1, hp0, hp1, h20, hl0, h21, hl1,
    hst0, _⟩ := accepted_shape h ha
  obtain ⟨tpre0, tx0, _, htmp0, _, hnc0, hc0⟩ := propagate_crossed hprop0 (by omega) (by omega)
  obtain ⟨tpre1, tx1, _, htmp1, _, hnc1, hc1⟩ := propagate_crossed hprop1 (by omega) (by omega)
  obtain ⟨f0, mid0, l0, ho0, hne0, _, hmid0, _, _⟩ := hv0
  obtain ⟨f1, mid1, l1, ho1, hne1, _, hmid1, _, _⟩ := hv1
  have hd : d ∈ mid1 := second_mem_mid (hold1.symm.trans ho1) hne1
  have hab := secondlast_mem_mid (hold0.symm.trans ho0) hne0
  have hlo : e0.lo = e0.i0 := by unfold Ens.lo; omega
  have hpath0 : r.path0 = tx0 :: tpre0.reverse ++ [d] := by rw [hp0, htmp0]; simp
  have hpath1 : r.path1 = a :: tpre1 ++ [tx1] := by rw [hp1, htmp1]; simp
  have hlen0 : r.path0.length = tmp0.length + 1 := by rw [hp0]; simp
  have hlen1 : r.path1.length = tmp1.length + 1 := by rw [hp1]; simp
  have hne_t0 : tpre0 ≠ [] := by
    intro e; rw [e] at htmp0; rw [htmp0] at h20; simp at h20
  have hne_t1 : tpre1 ≠ [] := by
    intro e; rw [e] at htmp1; rw [htmp1] at h21; simp at h21
  refine ⟨⟨tx0, tpre0.reverse, d, hpath0, by simpa using hne_t0, ?_, ?_, ?_, by omega⟩,
    ⟨a, tpre1, tx1, hpath1, hne_t1, ?_, hnc1, hc1, by omega⟩, by omega, by omega⟩
  · -- the first frame of the new [0-] path
    rcases hc0 with hl | hr
    · right
      refine ⟨?_, hl⟩
      cases hsc : e0.scL with
      | true => rfl
      | false =>
        have := (status0_acc hst0).2.2 hsc
        rw [hpath0] at this
        simp [startIsL, hlo] at this
        omega
    · left; exact hr
  · intro g hg
    exact hnc0 g (by simpa using hg)
  · have := hmid1 d hd
    unfold Crosses at this
    omega
  · have := hmid0 a hab.1
    unfold Crosses at this
    omega

namespace Cex
def fr (o : Int) : Frame := { op := o, cfg := ⟨0, 0⟩, vr := false, vpot := none }
def frv (o : Int) : Frame := { op := o, cfg := ⟨0, 0⟩, vr := true, vpot := none }
def g (o : Int) : GenFrame := { op := o, cfg := ⟨0, 0⟩, vpot := none }
def e0 : Ens := { i0 := -9, i1 := 0, i2 := 0, maxlen := 9, scL := false, scR := true, wf := false, cap := none }
def e1 : Ens := { i0 := 0, i1 := 1, i2 := 3, maxlen := 4, scL := true, scR := false, wf := false, cap := none }
def old0 : List Frame := [fr 1, fr (-1), fr 1]
def old1 : List Frame := [fr (-1), fr 1, fr (-1)]
def bw : Script := ⟨none, [g (-1), g (-1), g (-1), g (-1)]⟩
def fw : Script := ⟨none, [g (-1), g 1, g 1]⟩
def res : Result :=
  { accept := true, status := .ACC, path0 := [frv (-1), frv (-1), frv (-1), fr 1],
    path1 := [fr (-1), fr 1, fr (-1)], st0 := .ACC, st1 := .ACC, w0 := 1, w1 := 1,
    reqs := [.propagate 0 true (-1) ⟨0, 0⟩ 3 (-9) 0 true, .dump 1 1 ⟨0, 0⟩ true,
             .propagate 1 false 1 ⟨0, 0⟩ 3 0 3 true, .dump 0 0 ⟨0, 0⟩ true],
    draws := 0, expArg := none }
end Cex

/-- `swap_members` needs `maxlen0 ≤ maxlen1`: with `maxlen0 = 9 > maxlen1 = 4` (unreachable from a
    configuration file, both are `tis_set["maxlength"]`) the backward path is cut at `maxlen1 - 1`
    frames without having crossed, `path0.length = maxlen1 ≠ maxlen0`, and the move is accepted with
    a new [0-] path `-1,-1,-1,1` that starts left of λ0 = 0. -/
theorem swap_members_maxlen_counterexample :
    retisSwapZero Cex.e0 Cex.e1 Cex.old0 Cex.old1 Cex.bw Cex.fw 0 = .ok Cex.res ∧
      Cex.res.accept = true ∧ Cex.e0.maxlen > Cex.e1.maxlen ∧
      ValidMinus Cex.e0 Cex.old0 ∧ ValidPlus Cex.e1 Cex.old1 ∧ ¬ ValidMinus Cex.e0 Cex.res.path0 := by
  refine ⟨by rfl, rfl, by decide, ?_, ?_, ?_⟩
  · exact ⟨Cex.fr 1, [Cex.fr (-1)], Cex.fr 1, rfl, by simp, Or.inl (by decide), by decide, by decide, by decide⟩
  · exact ⟨Cex.fr (-1), [Cex.fr 1], Cex.fr (-1), rfl, by simp, by decide, by decide, by decide, by decide⟩
  · rintro ⟨f, mid, l, hp, _, hf, _, _, _⟩
    have hf' : f = Cex.frv (-1) := by
      have := congrArg List.head? hp
      simp [Cex.res] at this
      exact this.symm
    subst hf'
    rcases hf with h1 | ⟨h2, _⟩
    · revert h1; decide
    · revert h2; decide

/-- **no propagation on the λ₋₁ early reject.**  With `start_cond = {L, R}` a [0-] path whose last
    frame is at or left of λ₋₁ (= `i0`, the smallest interface) is rejected with status '0-L', the
    old paths are returned and the engines receive no request at all (no propagate, no dump, no draw). -/
theorem lambda_minus_one_left_rejected (e0 e1 : Ens) (old0 old1 : List Frame) (bw fw : Script) (xi : Rat)
    (last0 : Frame) (hord : e0.i0 ≤ e0.i1 ∧ e0.i0 ≤ e0.i2) (hsc : e0.scL = true ∧ e0.scR = true)
    (hlast : old0.getLast? = some last0) (hleft : last0.op ≤ e0.i0) :
    ∃ r, retisSwapZero e0 e1 old0 old1 bw fw xi = .ok r ∧ r.accept = false ∧ r.status = .ZL ∧
      r.reqs = [] ∧ r.draws = 0 ∧ r.path0 = old0 ∧ r.path1 = old1 := by
  have hlo : e0.lo = e0.i0 := by
    unfold Ens.lo; omega
  have he : earlyLeft e0 last0 = true := by
    simp [earlyLeft, hsc.1, hsc.2, hlo, hleft]
  refine ⟨rejected0L old0 old1, ?_, rfl, rfl, rfl, rfl, rfl, rfl⟩
  unfold retisSwapZero
  simp [hord.2, hlast, he]

/-- conversely, every '0-L' early return leaves the engines alone; and whenever the engines were
    asked nothing the move was not accepted -/
theorem no_request_not_accepted {e0 e1 : Ens} {old0 old1 : List Frame} {bw fw : Script} {xi : Rat}
    {r : Result} (h : retisSwapZero e0 e1 old0 old1 bw fw xi = .ok r) (hq : r.reqs = []) :
    r.accept = false := by
  cases hacc : r.accept with
  | false => rfl
  | true =>
    obtain ⟨_, _, _, _, _, _, _, _, _, _, _, _, _, _, _, _, _, _, _, _, _, hr⟩ := accepted_shape h hacc
    rw [hq] at hr; cases hr

theorem quantisComplete_draws {e0 e1 : Ens} {lam : Int} {m0 m1 : Nat} {sc1L : Bool}
    {tmp0 tmp1 : List Frame} {scC scD : Script} {reqs : List Req} {ea : Option Rat} {r : Result}
    (h : quantisComplete e0 e1 lam m0 m1 sc1L tmp0 tmp1 scC scD reqs ea = .ok r) :
    r.draws = 1 ∧ r.expArg = ea := by
  unfold quantisComplete at h
  split at h
  · cases h
  · simp only [Except.ok.injEq] at h; subst h; exact ⟨rfl, rfl⟩

/-- **QuanTIS energy rule.**  Fix everything but `accept_all`.  If the move is accepted with
    `accept_all = True` (so: energies present, both shooting points left of λ0, both one-step
    crossings, both completed paths fine), then with `accept_all = False` it is accepted exactly when
    the drawn number is at most `min(1, p)` — `rand <= pacc` in the code, "at most" in the property —
    where `p` is the value of `exp(β₀·ΔV₀ − β₁·ΔV₁)`; otherwise the status is 'QEA'.  One number is
    drawn either way, and the exponent reported is the same. -/
theorem quantis_accept_iff (e0 e1 : Ens) (old0 old1 : List Frame) (scA scB scC scD : Script)
    (beta0 beta1 xi p : Rat) {rAll : Result}
    (hall : quantisSwapZero e0 e1 old0 old1 scA scB scC scD true beta0 beta1 xi p = .ok rAll)
    (hacc : rAll.accept = true) :
    ∃ r, quantisSwapZero e0 e1 old0 old1 scA scB scC scD false beta0 beta1 xi p = .ok r ∧
      (r.accept = true ↔ xi ≤ min 1 p) ∧ (¬ xi ≤ min 1 p → r.status = .QEA) ∧
      (xi ≤ min 1 p → r = rAll) ∧ r.draws = 1 ∧ r.expArg = rAll.expArg := by
  unfold quantisSwapZero at hall ⊢
  cases hpre : quantisPre e0 old0 old1 scA scB beta0 beta1 with
  | err e => simp [hpre] at hall
  | early status p0 p1 s0 s1 reqs =>
    simp only [hpre, Except.ok.injEq] at hall
    subst hall
    simp [qres] at hacc
  | reached tmp0 tmp1 reqs ea sc1L =>
    simp only [hpre, Bool.true_or, if_true] at hall
    obtain ⟨hd, hea⟩ := quantisComplete_draws hall
    simp only [Bool.false_or, decide_eq_true_eq]
    by_cases hx : xi ≤ min 1 p
    · rw [if_pos hx]
      exact ⟨rAll, hall, by simp [hacc, hx], fun h => absurd hx h, fun _ => rfl, hd, rfl⟩
    · rw [if_neg hx]
      exact ⟨_, rfl, by simp [qres, hx], fun _ => rfl, fun h => absurd h hx, rfl, by simp [qres, hea]⟩

/-- the exponent is the energy expression of the property: `β₀·(V₀(r₀) − V₀(r₁)) − β₁·(V₁(r₀) − V₁(r₁))`
    with `V₀(r₀)` the energy of the second-last frame of the old [0-] path, `V₁(r₁)` that of the first
    frame of the old [0+] path, and `V₀(r₁)`, `V₁(r₀)` the energies the engines report for the swapped
    configurations (frame 0 of the two one-step trajectories). -/
theorem quantis_exponent (beta0 beta1 : Rat) (v0r0 v0r1 v1r1 v1r0 : Int) :
    expArgOf beta0 beta1 v0r0 v0r1 v1r1 v1r0 =
      beta0 * ((v0r0 : Rat) - (v0r1 : Rat)) - beta1 * ((v1r0 : Rat) - (v1r1 : Rat)) := by
  unfold expArgOf
  rw [Rat.mul_comm beta0, Rat.mul_comm beta1]
  simp [Rat.intCast_sub]

/-! ### the old paths are left untouched (the C09 clause "a rejected move leaves the old path untouched",
for the zero swaps)

The model is pure, so its inputs cannot change; what can be stated — and what the tie compares on every
call — is that every object the engines are asked to mutate (`propagate` re-points `config` and forces
`vel_rev`; `dump_phasepoint` re-points `config`) is a fresh copy, never a frame object of an old path.
The harness logs for each request whether the `System` it received is (by identity) a frame of an old
path and additionally snapshots both old paths around every call. -/

theorem buildPath0_fresh {e0 e1 : Ens} {allowed : Bool} {old1 : List Frame} {bw : Script}
    {p : List Frame} {rq : List Req} (h : buildPath0 e0 e1 allowed old1 bw = .ok (p, rq)) :
    rq.all Req.fresh = true := by
  unfold buildPath0 at h
  repeat' split at h
  all_goals cases h
  all_goals simp [propReq, Req.fresh]

theorem buildPath1_fresh {e1 : Ens} {allowed : Bool} {old0 : List Frame} {last0 : Frame} {fw : Script}
    {p : List Frame} {rq : List Req} (h : buildPath1 e1 allowed old0 last0 fw = .ok (p, rq)) :
    rq.all Req.fresh = true := by
  unfold buildPath1 at h
  repeat' split at h
  all_goals cases h
  all_goals simp [propReq, Req.fresh]

/-- **`retis_swap_zero` hands only copies to the engines** (whatever the outcome: accepted, rejected
    before or after propagation); the '0-L' early return asks nothing and gives back the old paths. -/
theorem swap_leaves_old_untouched {e0 e1 : Ens} {old0 old1 : List Frame} {bw fw : Script} {xi : Rat}
    {r : Result} (h : retisSwapZero e0 e1 old0 old1 bw fw xi = .ok r) :
    ∀ q ∈ r.reqs, q.fresh = true := by
  obtain ⟨_, last0, _, hcase⟩ := retis_ok h
  rcases hcase with ⟨_, rfl⟩ | ⟨_, path0, rq0, path1, rq1, hb0, hb1, hf⟩
  · simp [rejected0L]
  · rw [(finish_spec hf).2.2.1]
    have := List.all_append (xs := rq0) (ys := rq1) (f := Req.fresh)
    have hall : (rq0 ++ rq1).all Req.fresh = true := by
      rw [this, buildPath0_fresh hb0, buildPath1_fresh hb1]; rfl
    exact fun q hq => List.all_eq_true.mp hall q hq

/-- requests collected by the part of `quantis_swap_zero` before the energy rule -/
def preReqs : QPre → List Req
  | .err _ => []
  | .early _ _ _ _ _ rq => rq
  | .reached _ _ rq _ _ => rq

theorem quantisPre_fresh (e0 : Ens) (old0 old1 : List Frame) (scA scB : Script) (beta0 beta1 : Rat) :
    (preReqs (quantisPre e0 old0 old1 scA scB beta0 beta1)).all Req.fresh = true := by
  unfold quantisPre
  dsimp only
  repeat' split
  all_goals simp [preReqs, propReq, Req.fresh]

theorem quantisCompleteCore_fresh {e0 e1 : Ens} {lam : Int} {m0 m1 : Nat} {sc1L : Bool}
    {tmp0 tmp1 : List Frame} {scC scD : Script} {reqs : List Req}
    {out : Bool × Status × List Frame × List Frame × Status × Status × Nat × List Req}
    (h : quantisCompleteCore e0 e1 lam m0 m1 sc1L tmp0 tmp1 scC scD reqs = .ok out)
    (hin : reqs.all Req.fresh = true) : out.2.2.2.2.2.2.2.all Req.fresh = true := by
  unfold quantisCompleteCore at h
  dsimp only at h
  repeat' split at h
  all_goals cases h
  all_goals simp [List.all_append, hin, propReq, Req.fresh]

/-- the same for `quantis_swap_zero` -/
theorem quantis_leaves_old_untouched {e0 e1 : Ens} {old0 old1 : List Frame} {scA scB scC scD : Script}
    {aa : Bool} {beta0 beta1 xi p : Rat} {r : Result}
    (h : quantisSwapZero e0 e1 old0 old1 scA scB scC scD aa beta0 beta1 xi p = .ok r) :
    ∀ q ∈ r.reqs, q.fresh = true := by
  have hpf := quantisPre_fresh e0 old0 old1 scA scB beta0 beta1
  suffices hall : r.reqs.all Req.fresh = true from fun q hq => List.all_eq_true.mp hall q hq
  unfold quantisSwapZero at h
  cases hpre : quantisPre e0 old0 old1 scA scB beta0 beta1 with
  | err e => simp [hpre] at h
  | early st p0 p1 s0 s1 reqs =>
    simp only [hpre, Except.ok.injEq] at h
    subst h
    rw [hpre] at hpf; exact hpf
  | reached t0 t1 reqs ea sc =>
    rw [hpre] at hpf
    simp only [hpre] at h
    split at h
    · unfold quantisComplete at h
      split at h
      · cases h
      · rename_i hc
        simp only [Except.ok.injEq] at h
        subst h
        exact quantisCompleteCore_fresh hc hpf
    · simp only [Except.ok.injEq] at h
      subst h
      exact hpf

/-! ### 'QNE' means a missing energy — 0 is an energy -/

theorem qstatus0_ne_qne (e0 : Ens) (m : Nat) (p : List Frame) : qstatus0 e0 m p ≠ .QNE := by
  unfold qstatus0; repeat' split
  all_goals simp

theorem qstatus1_ne_qne (lam : Int) (m : Nat) (p : List Frame) : qstatus1 lam m p ≠ .QNE := by
  unfold qstatus1; repeat' split
  all_goals simp

theorem core_status_ne_qne {e0 e1 : Ens} {lam : Int} {m0 m1 : Nat} {sc1L : Bool}
    {tmp0 tmp1 : List Frame} {scC scD : Script} {reqs : List Req}
    {out : Bool × Status × List Frame × List Frame × Status × Status × Nat × List Req}
    (h : quantisCompleteCore e0 e1 lam m0 m1 sc1L tmp0 tmp1 scC scD reqs = .ok out) : out.2.1 ≠ .QNE := by
  unfold quantisCompleteCore at h
  dsimp only at h
  repeat' split at h
  all_goals cases h
  all_goals first
    | exact qstatus0_ne_qne _ _ _
    | exact qstatus1_ne_qne _ _ _
    | simp

/-- `quantis_swap_zero` answers 'QNE' only if the second-last frame of the old [0-] path or the first frame of
    the old [0+] path carries no potential energy (`None`); an energy of 0 is an energy. -/
theorem quantis_qne_only_if_energy_missing {e0 e1 : Ens} {old0 old1 : List Frame} {scA scB scC scD : Script}
    {aa : Bool} {beta0 beta1 xi p : Rat} {r : Result} {sp0 sp1 last : Frame} {rest1 pre0 : List Frame}
    (h : quantisSwapZero e0 e1 old0 old1 scA scB scC scD aa beta0 beta1 xi p = .ok r)
    (h1 : old1 = sp0 :: rest1) (h0 : old0 = pre0 ++ [sp1, last])
    (hv0 : sp0.vpot ≠ none) (hv1 : sp1.vpot ≠ none) : r.status ≠ .QNE := by
  have hrev : old0.reverse = last :: sp1 :: pre0.reverse := by rw [h0]; simp
  have hn0 : sp0.vpot.isNone = false := by cases hh : sp0.vpot <;> simp_all
  have hn1 : sp1.vpot.isNone = false := by cases hh : sp1.vpot <;> simp_all
  unfold quantisSwapZero at h
  cases hpre : quantisPre e0 old0 old1 scA scB beta0 beta1 with
  | err e => simp [hpre] at h
  | early st p0 p1 s0 s1 reqs =>
    simp only [hpre, Except.ok.injEq] at h
    subst h
    unfold quantisPre at hpre
    rw [h1] at hpre
    simp only [hrev, hn0, hn1, Bool.or_self, Bool.false_eq_true, if_false] at hpre
    repeat' split at hpre
    all_goals cases hpre
    all_goals simp [qres]
  | reached t0 t1 reqs ea sc =>
    simp only [hpre] at h
    split at h
    · unfold quantisComplete at h
      split at h
      · cases h
      · rename_i hc
        simp only [Except.ok.injEq] at h
        subst h
        exact core_status_ne_qne hc
    · simp only [Except.ok.injEq] at h
      subst h
      simp [qres]

/-! ### the high-acceptance rule of the zero swap (wire fencing in [0-] or [0+]) -/

theorem cw_ok {p : List Frame} {e : Ens} {w : Nat} (h : cw p e = .ok w) :
    WF.computeWeight (ops p) e.i0 e.i1 e.w2 e.wf = .ok w := by
  unfold cw at h
  split at h
  · cases h
  · split at h
    · rename_i hw
      simp only [Except.ok.injEq] at h
      rw [hw, h]
    · cases h

/-- **the swap's acceptance ratio uses the weights at the cap.**  `high_acc_swap` accepts exactly when
    `ξ < (c1_new·c2_new)/(c1_old·c2_old)` (1 if a denominator weight is 0; strict `<` as in the code), and
    each of the four weights is `WF.computeWeight` — C10's weight — of the new [0+] path / the old [0+] path
    with the interfaces `[i0, i1, w2]`, where `w2 = tis_set["interface_cap"]` if it is set and the last
    interface otherwise (`Ens.w2`), i.e. the same right boundary `calc_cv_vector` and `wire_fencing` use. -/
theorem high_acc_uses_cap_weights {e0 e1 : Ens} {path1 old1 : List Frame} {xi : Rat} {a : Bool}
    (h : highAcc e0 e1 path1 old1 xi = .ok a) :
    ∃ c1o c2o c1n c2n : Nat,
      WF.computeWeight (ops path1) e0.i0 e0.i1 e0.w2 e0.wf = .ok c1o ∧
      WF.computeWeight (ops old1) e1.i0 e1.i1 e1.w2 e1.wf = .ok c2o ∧
      WF.computeWeight (ops old1) e0.i0 e0.i1 e0.w2 e0.wf = .ok c1n ∧
      WF.computeWeight (ops path1) e1.i0 e1.i1 e1.w2 e1.wf = .ok c2n ∧
      (a = true ↔ xi < (if c1o = 0 ∨ c2o = 0 then (1 : Rat)
                        else ((c1n * c2n : Nat) : Rat) / ((c1o * c2o : Nat) : Rat))) := by
  unfold highAcc at h
  cases h1 : cw path1 e0 with
  | error x => simp [h1] at h
  | ok c1o =>
    cases h2 : cw old1 e1 with
    | error x => simp [h1, h2] at h
    | ok c2o =>
      cases h3 : cw old1 e0 with
      | error x => simp [h1, h2, h3] at h
      | ok c1n =>
        cases h4 : cw path1 e1 with
        | error x => simp [h1, h2, h3, h4] at h
        | ok c2n =>
          simp only [h1, h2, h3, h4, Except.ok.injEq] at h
          refine ⟨c1o, c2o, c1n, c2n, cw_ok h1, cw_ok h2, cw_ok h3, cw_ok h4, ?_⟩
          rw [← h]; simp

/-- when both new paths are fine and one of the two ensembles uses wire fencing, the outcome of
    `retis_swap_zero` is decided by `high_acc_swap` alone: one number is drawn, ACC or HAS; and the weights
    put on the new paths are again `computeWeight` at the cap (1 for a non-wf ensemble). -/
theorem has_rule {e0 e1 : Ens} {old1 path0 path1 : List Frame} {reqs : List Req} {xi : Rat} {r : Result}
    (h : finish e0 e1 old1 path0 path1 reqs xi = .ok r)
    (h0 : status0 e0 path0 = .ACC) (h1 : status1 e1 path1 = .ACC) (hwf : (e0.wf || e1.wf) = true) :
    ∃ a, highAcc e0 e1 path1 old1 xi = .ok a ∧ r.accept = a ∧
      r.status = (if a then Status.ACC else Status.HAS) ∧ r.draws = 1 ∧
      finalWeight path0 e0 = .ok r.w0 ∧ finalWeight path1 e1 = .ok r.w1 := by
  unfold finish at h
  simp only [h0, h1, hwf, decide_true, Bool.and_self, Bool.and_true, if_true] at h
  cases hh : highAcc e0 e1 path1 old1 xi with
  | error x => simp [hh] at h
  | ok a =>
    simp only [hh] at h
    cases hw0 : finalWeight path0 e0 with
    | error x => simp [hw0] at h
    | ok w0 =>
      cases hw1 : finalWeight path1 e1 with
      | error x => simp [hw0, hw1] at h
      | ok w1 =>
        simp only [hw0, hw1, Except.ok.injEq] at h
        subst h
        exact ⟨a, rfl, rfl, rfl, rfl, rfl, rfl⟩

/-! ### swapping twice -/

theorem det_unfold {st : Cfg → Cfg} {opf : Cfg → Int} {vf : Cfg → Option Int} {n : Nat} {e0 e1 : Ens}
    {old0 old1 : List Frame} {xi : Rat} {r : Result}
    (h : retisSwapZeroDet st opf vf n e0 e1 old0 old1 xi = .ok r) (ha : r.accept = true) :
    ∃ first1 last0, old1.head? = some first1 ∧ old0.getLast? = some last0 ∧
      retisSwapZero e0 e1 old0 old1 (detScript st opf vf n (startCfg first1 true))
        (detScript st opf vf n (startCfg last0 false)) xi = .ok r := by
  unfold retisSwapZeroDet at h
  cases h1 : old1.head? with
  | none =>
    simp only [h1] at h
    obtain ⟨_, _, _, c, d, post1, _, _, _, _, _, hold1, _⟩ := accepted_shape h ha
    rw [hold1] at h1; simp at h1
  | some first1 =>
    cases h0 : old0.getLast? with
    | none =>
      simp only [h1, h0] at h
      obtain ⟨pre0, a, b, _, _, _, _, _, _, _, hold0, _⟩ := accepted_shape h ha
      rw [hold0] at h0; simp at h0
    | some last0 =>
      simp only [h1, h0] at h
      exact ⟨first1, last0, rfl, rfl, h⟩

theorem secondlast_split {a b f l : Frame} {pre mid : List Frame}
    (h : pre ++ [a, b] = f :: mid ++ [l]) : pre ++ [a] = f :: mid ∧ b = l := by
  have h' : (pre ++ [a]) ++ [b] = (f :: mid) ++ [l] := by simpa using h
  have hh := List.append_inj' h' rfl
  exact ⟨hh.1, by simpa using hh.2⟩

/-- **swapping twice restores the paths.**  Let both engines be one deterministic engine `D` that is
    time-reversible (`D.step (flip (D.step c)) = flip c`) with an order parameter that does not depend on
    the sign of the velocities, running at least `maxlen1 - 2` steps per call; let the old paths be valid
    members of their ensembles and trajectories of `D` (whatever their `vel_rev` flags), and
    `maxlen0 ≤ maxlen1`.  If the swap is accepted and the swap of the two new paths is accepted again,
    the result has the order-value sequences — and indeed the phase points — of the original paths. -/
theorem swap_twice_identity (D : Dyn) (hrev : D.Reversible) (hop : D.OpEven) (n : Nat)
    {e0 e1 : Ens} {old0 old1 : List Frame} {xi1 xi2 : Rat} {r1 r2 : Result}
    (h1 : retisSwapZeroDet D.step D.opf D.vf n e0 e1 old0 old1 xi1 = .ok r1) (ha1 : r1.accept = true)
    (h2 : retisSwapZeroDet D.step D.opf D.vf n e0 e1 r1.path0 r1.path1 xi2 = .ok r2) (ha2 : r2.accept = true)
    (hm : e0.maxlen ≤ e1.maxlen) (hn : e1.maxlen ≤ n + 2)
    (hv0 : ValidMinus e0 old0) (hv1 : ValidPlus e1 old1) (ht0 : IsTraj D old0) (ht1 : IsTraj D old1) :
    ops r2.path0 = ops old0 ∧ ops r2.path1 = ops old1 ∧
      r2.path0.map Frame.phys = old0.map Frame.phys ∧ r2.path1.map Frame.phys = old1.map Frame.phys := by
  -- first swap
  obtain ⟨_, _, _, _, h1'⟩ := det_unfold h1 ha1
  obtain ⟨pre0, a, b, c, d, post1, tmp0, s0, tmp1, s1, hold0, hold1, hprop0, hprop1, hp0, hp1, h20, _, h21, _, _, _⟩ :=
    accepted_shape h1' ha1
  obtain ⟨t0, ht0'⟩ := propagate_head hprop0 (by omega)
  obtain ⟨t1, ht1'⟩ := propagate_head hprop1 (by omega)
  -- second swap
  obtain ⟨first1', last0', hf1, hl0, h2'⟩ := det_unfold h2 ha2
  obtain ⟨pre0', a', b', c', d', post1', tmp0', s0', tmp1', s1', hold0', hold1', hprop0', hprop1', hp0', hp1',
    _, hl0', _, hl1', _, _⟩ := accepted_shape h2' ha2
  -- identify the frames of the second swap
  have hc' : c' = a ∧ d'.op = b.op ∧ d'.phys = b.phys := by
    rw [hp1, ht1'] at hold1'
    simp only [List.cons.injEq] at hold1'
    refine ⟨hold1'.1.symm, ?_, ?_⟩
    · rw [← hold1'.2.1]
    · rw [← hold1'.2.1]; exact phys_start b false _ _
  have hb' : a'.op = c.op ∧ a'.phys = c.phys ∧ b' = d := by
    rw [hp0, ht0'] at hold0'
    simp only [List.reverse_cons, List.append_assoc, List.singleton_append] at hold0'
    have := (List.append_inj' hold0' rfl).2
    simp only [List.cons.injEq, and_true] at this
    refine ⟨?_, ?_, this.2.symm⟩
    · rw [← this.1]
    · rw [← this.1]; exact phys_start c true _ _
  obtain ⟨hc'1, hd'op, hd'phys⟩ := hc'
  obtain ⟨ha'op, ha'phys, hb'd⟩ := hb'
  subst hc'1 hb'd
  have hfirst1' : first1' = c' := by
    rw [hold1'] at hf1; simpa using hf1.symm
  have hlast0' : last0' = b' := by
    rw [hold0'] at hl0; simpa using hl0.symm
  subst hfirst1' hlast0'
  -- the old paths as members and trajectories
  obtain ⟨f0, mid0, l0, ho0, hne0, hf0, hmid0, _, hlen0⟩ := hv0
  obtain ⟨f1, mid1, l1, ho1, hne1, _, hmid1, hcl1, hlen1⟩ := hv1
  obtain ⟨hsp0, _⟩ := secondlast_split (hold0.symm.trans ho0)
  have hsp1 : last0' :: post1 = mid1 ++ [l1] := by
    have := hold1.symm.trans ho1
    simp only [List.cons_append, List.cons.injEq] at this
    exact this.2
  -- backward call of the second swap retraces old [0-]
  have hback := propagate_retrace D Cfg.flip true (fun c => hop c) (fun c => by simp [ZeroSwap.flip_flip])
    (lst := pre0.reverse) (lpre := mid0.reverse) (lx := f0) hprop0' (by omega) (by omega)
    (by
      have := congrArg List.length hold0
      simp at this ⊢; omega)
    (startCfg_true first1')
    (by
      have hc : Consec (fun f g => g.phys = D.step f.phys) (pre0 ++ [first1']) := by
        have := ht0.2; rw [hold0] at this
        have e : pre0 ++ [first1', b] = (pre0 ++ [first1']) ++ [b] := by simp
        rw [e] at this; exact this.prefix
      have := consec_reverse hc
      simp only [List.reverse_append, List.reverse_cons, List.reverse_nil, List.nil_append, List.cons_append] at this
      refine Consec.imp ?_ this
      intro u w huw
      show D.step u.phys.flip = w.phys.flip
      rw [huw]; exact hrev w.phys)
    (by
      intro f hf
      apply ht0.1; rw [hold0]; simp at hf ⊢; exact Or.inl hf)
    (by
      have := congrArg List.reverse hsp0
      simpa using this)
    (by intro g hg; exact hmid0 g (by simpa using hg))
    (by
      rcases hf0 with h | ⟨_, h⟩
      · exact Or.inr h
      · exact Or.inl h)
  -- forward call of the second swap retraces old [0+]
  have hforw := propagate_retrace D id false (fun _ => rfl) (fun c => by simp)
    (lst := post1) (lpre := mid1) (lx := l1) hprop1' (by omega) (by omega)
    (by
      have := congrArg List.length hold1
      simp at this ⊢; omega)
    (startCfg_false last0')
    (by
      have := ht1.2; rw [hold1] at this
      refine Consec.imp ?_ this.tail
      intro u w huw
      simp only [id] at huw ⊢
      exact huw.symm)
    (by
      intro f hf
      apply ht1.1; rw [hold1]; simp [hf])
    hsp1 hmid1 hcl1
  obtain ⟨hbp, hbo⟩ := hback
  obtain ⟨hfp, hfo⟩ := hforw
  have hb_eq : b = l0 := (secondlast_split (hold0.symm.trans ho0)).2
  refine ⟨?_, ?_, ?_, ?_⟩
  · rw [hp0', hold0]
    simp only [ops, List.map_append, List.map_reverse, List.map_cons, List.map_nil] at hbo ⊢
    rw [hbo, hd'op]; simp
  · rw [hp1', hold1]
    simp only [ops, List.map_cons] at hfo ⊢
    rw [hfo, ha'op]
  · rw [hp0', hold0]
    simp only [List.map_append, List.map_reverse, List.map_cons, List.map_nil] at hbp ⊢
    rw [hbp, hd'phys]; simp
  · rw [hp1', hold1]
    simp only [List.map_cons] at hfp ⊢
    rw [hfp, ha'phys]

/-! ### non-vacuity: the hypotheses are met by concrete, non-trivial swaps -/
namespace Ex
def fr (o : Int) (x : Int) : Frame := { op := o, cfg := ⟨x, 1⟩, vr := false, vpot := some 0 }
def g (o : Int) (x : Int) : GenFrame := { op := o, cfg := ⟨x, 3⟩, vpot := some 0 }
def e0 : Ens := { i0 := -50, i1 := 0, i2 := 0, maxlen := 8, scL := false, scR := true, wf := false, cap := none }
def e0m : Ens := { i0 := -3, i1 := -2, i2 := 0, maxlen := 8, scL := true, scR := true, wf := false, cap := none }
def e1 : Ens := { i0 := 0, i1 := 1, i2 := 3, maxlen := 8, scL := true, scR := false, wf := false, cap := none }
def old0 : List Frame := [fr 1 100, fr (-1) 101, fr (-2) 102, fr 1 103]
def old0L : List Frame := [fr 1 100, fr (-1) 101, fr (-4) 102]
def old1 : List Frame := [fr (-1) 200, fr 1 201, fr 2 202, fr 4 203]
def bw : Script := ⟨some 0, [g (-2) 300, g (-1) 301, g 1 302, g 1 303, g 1 304, g 1 305]⟩
def fw : Script := ⟨some 0, [g 2 400, g 1 401, g (-1) 402, g 1 403, g 1 404, g 1 405]⟩
/-- QuanTIS: one-step scripts that cross λ0, energies 0/2, then the completions -/
def scA : Script := ⟨some 2, [g 1 500]⟩
def scB : Script := ⟨some 0, [g 1 600]⟩
end Ex

/-- an accepted plain swap meeting every hypothesis of `junction_identity` / `swap_members` -/
example : ∃ r, retisSwapZero Ex.e0 Ex.e1 Ex.old0 Ex.old1 Ex.bw Ex.fw 0 = .ok r ∧ r.accept = true ∧
    ops r.path0 = [1, -1, -2, -1, 1] ∧ ops r.path1 = [-2, 1, 2, 1, -1] ∧
    Ex.e0.maxlen ≤ Ex.e1.maxlen ∧ Ex.e1.maxlen ≤ Ex.bw.rest.length + 2 ∧ Ex.e1.maxlen ≤ Ex.fw.rest.length + 2 ∧
    (Ex.e0.i0 ≤ Ex.e0.i1 ∧ Ex.e0.i0 ≤ Ex.e0.i2) ∧ Ex.e0.i2 = Ex.e1.i0 ∧
    ValidMinus Ex.e0 Ex.old0 ∧ ValidPlus Ex.e1 Ex.old1 :=
  ⟨_, rfl, rfl, rfl, rfl, by decide, by decide, by decide, by decide, rfl,
    ⟨Ex.fr 1 100, [Ex.fr (-1) 101, Ex.fr (-2) 102], Ex.fr 1 103, rfl, by simp, Or.inl (by decide), by decide, by decide, by decide⟩,
    ⟨Ex.fr (-1) 200, [Ex.fr 1 201, Ex.fr 2 202], Ex.fr 4 203, rfl, by simp, by decide, by decide, by decide, by decide⟩⟩

/-- the λ₋₁ variant: an accepted swap whose new [0-] path starts LEFT of λ₋₁ = -3 -/
example : ∃ r, retisSwapZero Ex.e0m Ex.e1 Ex.old0 Ex.old1 ⟨some 0, [Ex.g (-2) 300, Ex.g (-4) 301, Ex.g 1 302, Ex.g 1 303, Ex.g 1 304, Ex.g 1 305]⟩ Ex.fw 0 = .ok r ∧
    r.accept = true ∧ ops r.path0 = [-4, -2, -1, 1] :=
  ⟨_, rfl, rfl, rfl⟩

/-- the λ₋₁ early reject: hypotheses of `lambda_minus_one_left_rejected` on a path ending at -4 ≤ λ₋₁ -/
example : (Ex.e0m.i0 ≤ Ex.e0m.i1 ∧ Ex.e0m.i0 ≤ Ex.e0m.i2) ∧ (Ex.e0m.scL = true ∧ Ex.e0m.scR = true) ∧
    Ex.old0L.getLast? = some (Ex.fr (-4) 102) ∧ (Ex.fr (-4) 102).op ≤ Ex.e0m.i0 :=
  ⟨by decide, by decide, rfl, by decide⟩

/-- QuanTIS: accepted with accept_all; with (ξ, p) = (0, 1) it is accepted and with (ξ, p) = (1, 0) the status is QEA -/
example : ∃ r, quantisSwapZero Ex.e0 Ex.e1 Ex.old0 Ex.old1 Ex.scA Ex.scB Ex.bw Ex.fw true 1 1 0 1 = .ok r ∧
    r.accept = true ∧ r.draws = 1 := ⟨_, rfl, rfl, rfl⟩

example : (quantisSwapZero Ex.e0 Ex.e1 Ex.old0 Ex.old1 Ex.scA Ex.scB Ex.bw Ex.fw false 1 1 0 1).toOption.map
    (fun r => (r.accept, r.status)) = some (true, .ACC) := by decide

example : (quantisSwapZero Ex.e0 Ex.e1 Ex.old0 Ex.old1 Ex.scA Ex.scB Ex.bw Ex.fw false 1 1 1 0).toOption.map
    (fun r => (r.accept, r.status)) = some (false, .QEA) := by decide

/-! ### non-vacuity of `swap_twice_identity`: the integer leap-frog engine in a double well -/

/-- position-Verlet with an integer force is exactly time-reversible -/
theorem dw_reversible (a k : Int) : ∀ c : Cfg, dwStep a k (dwStep a k c).flip = c.flip := by
  intro c
  cases c with
  | mk x v =>
    simp only [dwStep, Cfg.flip]
    have e : x + v + (v + dwForce a k (x + v)) + -(v + dwForce a k (x + v)) = x + v := by omega
    rw [e]
    congr 1 <;> omega

def dwDyn (a k : Int) : Dyn := { step := dwStep a k, opf := (·.x), vf := fun _ => some 0 }

theorem dwDyn_reversible (a k : Int) : (dwDyn a k).Reversible := dw_reversible a k
theorem dwDyn_opEven (a k : Int) : (dwDyn a k).OpEven := fun _ => rfl

namespace ExDet
def fr (x v : Int) (vr : Bool) : Frame := { op := x, cfg := ⟨x, v⟩, vr := vr, vpot := some 0 }
def e0 : Ens := { i0 := -50, i1 := -7, i2 := -7, maxlen := 16, scL := false, scR := true, wf := false, cap := none }
def e1 : Ens := { i0 := -7, i1 := -7, i2 := -2, maxlen := 16, scL := true, scR := false, wf := false, cap := none }
/-- a [0-] trajectory of the double well (a = 64, k = 64): x = -4, -10, -10, -4, stored with mixed flags -/
def old0 : List Frame := [fr (-4) 2 true, fr (-10) (-4) false, fr (-10) 4 false, fr (-4) 2 false]
/-- a [0+] trajectory: x = -10, -6, -2, 0 -/
def old1 : List Frame := [fr (-10) 1 false, fr (-6) (-3) true, fr (-2) (-1) true, fr 0 (-1) true]
end ExDet

/-- every hypothesis of `swap_twice_identity` holds for this pair: both swaps are accepted, the old
    paths are members and trajectories of the reversible engine -/
example : ∃ r1 r2,
    retisSwapZeroDet (dwDyn 64 64).step (dwDyn 64 64).opf (dwDyn 64 64).vf 18 ExDet.e0 ExDet.e1 ExDet.old0 ExDet.old1 0 = .ok r1 ∧
    r1.accept = true ∧ ops r1.path0 = [-4, -10, -6] ∧ ops r1.path1 = [-10, -4, -1] ∧
    retisSwapZeroDet (dwDyn 64 64).step (dwDyn 64 64).opf (dwDyn 64 64).vf 18 ExDet.e0 ExDet.e1 r1.path0 r1.path1 0 = .ok r2 ∧
    r2.accept = true ∧ ExDet.e0.maxlen ≤ ExDet.e1.maxlen ∧ ExDet.e1.maxlen ≤ 18 + 2 ∧
    ValidMinus ExDet.e0 ExDet.old0 ∧ ValidPlus ExDet.e1 ExDet.old1 ∧
    IsTraj (dwDyn 64 64) ExDet.old0 ∧ IsTraj (dwDyn 64 64) ExDet.old1 := by
  refine ⟨_, _, rfl, rfl, rfl, rfl, rfl, rfl, by decide, by decide, ?_, ?_, ?_, ?_⟩
  · exact ⟨ExDet.fr (-4) 2 true, [ExDet.fr (-10) (-4) false, ExDet.fr (-10) 4 false], ExDet.fr (-4) 2 false,
      rfl, by simp, Or.inl (by decide), by decide, by decide, by decide⟩
  · exact ⟨ExDet.fr (-10) 1 false, [ExDet.fr (-6) (-3) true, ExDet.fr (-2) (-1) true], ExDet.fr 0 (-1) true,
      rfl, by simp, by decide, by decide, by decide, by decide⟩
  · exact ⟨by decide, by decide, by decide, by decide, trivial⟩
  · exact ⟨by decide, by decide, by decide, by decide, trivial⟩

/-- non-vacuity: energies exactly 0 on both shooting points, and the swap is accepted -/
example : ∃ r, quantisSwapZero Ex.e0 Ex.e1 Ex.old0 Ex.old1 Ex.scA Ex.scB Ex.bw Ex.fw true 1 1 0 1 = .ok r ∧
    r.status = .ACC ∧ (Ex.fr (-1) 200).vpot = some 0 ∧ (Ex.fr (-2) 102).vpot = some 0 := ⟨_, rfl, rfl, rfl, rfl⟩

/-! ## Extension pass: status tables, QuanTIS frames and exponent, path algebra of C15 -/

/-- **status table of `retis_swap_zero`** (every outcome the code can return).  Either the λ₋₁ early return
    ('0-L', old paths handed back, no request, no draw, no status field touched), or the move built both paths
    and the returned status is `retisTable` of the two per-path statuses: the failure of the new [0-] path if
    it has one (BTX: length = maxlen0; BTS: shorter than 3; 0-L), else that of the new [0+] path (FTX: length ≥
    maxlen1; FTS), else 'HAS' when wire fencing is involved and `high_acc_swap` said no, else 'ACC'.
    `accept ⇔ ACC`; the [0-] path object always carries the returned status, the [0+] path object its own failure
    if it has one (so the two fields differ exactly when both paths failed); ξ is drawn exactly when both paths are
    fine and wire fencing is involved, and then after all four engine requests. -/
theorem retis_status_table {e0 e1 : Ens} {old0 old1 : List Frame} {bw fw : Script} {xi : Rat} {r : Result}
    (h : retisSwapZero e0 e1 old0 old1 bw fw xi = .ok r) :
    ∃ last0, old0.getLast? = some last0 ∧
      ((earlyLeft e0 last0 = true ∧ r.status = .ZL ∧ r.accept = false ∧ r.st0 = .none ∧ r.st1 = .none ∧
          r.path0 = old0 ∧ r.path1 = old1 ∧ r.reqs = [] ∧ r.draws = 0) ∨
       (earlyLeft e0 last0 = false ∧ ∃ a : Bool,
          (status0 e0 r.path0 = .ACC → status1 e1 r.path1 = .ACC → (e0.wf || e1.wf) = true →
            highAcc e0 e1 r.path1 old1 xi = .ok a) ∧
          r.status = retisTable (status0 e0 r.path0) (status1 e1 r.path1) (e0.wf || e1.wf) a ∧
          r.accept = decide (r.status = .ACC) ∧ r.st0 = r.status ∧
          r.st1 = retisField1 (status1 e1 r.path1) r.status ∧
          r.draws = (if status0 e0 r.path0 = .ACC ∧ status1 e1 r.path1 = .ACC ∧ (e0.wf || e1.wf) = true then 1 else 0) ∧
          retisDrawAt r = (if r.draws = 0 then none else some r.reqs.length))) := by
  obtain ⟨_, last0, hlast, hcase⟩ := retis_ok h
  refine ⟨last0, hlast, ?_⟩
  rcases hcase with ⟨he, rfl⟩ | ⟨he, path0, rq0, path1, rq1, _, _, hf⟩
  · exact Or.inl ⟨he, rfl, rfl, rfl, rfl, rfl, rfl, rfl, rfl⟩
  · right
    obtain ⟨hp0, hp1, _, _, _⟩ := finish_spec hf
    obtain ⟨a, ha, hst, hacc, h0, h1, hd, _⟩ := finish_table hf
    rw [hp0, hp1]
    exact ⟨he, a, ha, hst, hacc, h0, h1, hd, rfl⟩

/-- the table read row by row: for per-path statuses in their ranges (`status0` ∈ {BTX, BTS, 0-L, ACC},
    `status1` ∈ {FTX, FTS, ACC}) each status is returned under exactly one condition -/
theorem retis_table_rows (s0 s1 : Status) (wf a : Bool)
    (h0 : s0 = .BTX ∨ s0 = .BTS ∨ s0 = .ZL ∨ s0 = .ACC) (h1 : s1 = .FTX ∨ s1 = .FTS ∨ s1 = .ACC) :
    (retisTable s0 s1 wf a = .BTX ↔ s0 = .BTX) ∧ (retisTable s0 s1 wf a = .BTS ↔ s0 = .BTS) ∧
    (retisTable s0 s1 wf a = .ZL ↔ s0 = .ZL) ∧
    (retisTable s0 s1 wf a = .FTX ↔ s0 = .ACC ∧ s1 = .FTX) ∧ (retisTable s0 s1 wf a = .FTS ↔ s0 = .ACC ∧ s1 = .FTS) ∧
    (retisTable s0 s1 wf a = .HAS ↔ s0 = .ACC ∧ s1 = .ACC ∧ wf = true ∧ a = false) ∧
    (retisTable s0 s1 wf a = .ACC ↔ s0 = .ACC ∧ s1 = .ACC ∧ (wf = true → a = true)) ∧
    (retisField1 s1 (retisTable s0 s1 wf a) = retisTable s0 s1 wf a ↔ s0 = .ACC ∨ s1 = .ACC) := by
  rcases h0 with rfl | rfl | rfl | rfl <;> rcases h1 with rfl | rfl | rfl <;> cases wf <;> cases a <;>
    simp [retisTable, retisField1]

/-- the per-path statuses in terms of lengths and end points (tis.py:915-925, 968-973), incl. the two
    length-limit outcomes: BTX ⇔ the new [0-] path has EXACTLY `maxlen0` frames, FTX ⇔ the new [0+] path has
    AT LEAST `maxlen1` frames -/
theorem path_status_rows (e : Ens) (p : List Frame) :
    (status0 e p = .BTX ↔ p.length = e.maxlen) ∧
    (status0 e p = .BTS ↔ p.length ≠ e.maxlen ∧ p.length < 3) ∧
    (status0 e p = .ZL ↔ p.length ≠ e.maxlen ∧ 3 ≤ p.length ∧ e.scL = false ∧
        (startIsL e.lo p = true ∨ endIsL e.lo p = true)) ∧
    (status1 e p = .FTX ↔ e.maxlen ≤ p.length) ∧
    (status1 e p = .FTS ↔ p.length < e.maxlen ∧ p.length < 3) ∧
    (status1 e p = .ACC ↔ p.length < e.maxlen ∧ 3 ≤ p.length) := by
  unfold status0 status1
  by_cases h1 : p.length = e.maxlen <;> by_cases h2 : p.length < 3 <;> by_cases h3 : e.maxlen ≤ p.length <;>
    cases hs : e.scL <;> cases ha : startIsL e.lo p <;> cases hb : endIsL e.lo p <;>
    simp [h1, h2, h3] <;> omega

example : ∃ r, retisSwapZero Ex.e0 Ex.e1 Ex.old0 Ex.old1 Ex.bw Ex.fw 0 = .ok r ∧ r.status = .ACC ∧
    r.st0 = .ACC ∧ r.st1 = .ACC ∧ retisDrawAt r = none := ⟨_, rfl, rfl, rfl, rfl, rfl⟩

/-- both new paths fail (BTX and FTX): the returned status is that of the [0-] path and the two status
    fields differ -/
example : ∃ r, retisSwapZero { Ex.e0 with maxlen := 5 } { Ex.e1 with maxlen := 5 } Ex.old0 Ex.old1 Ex.bw Ex.fw 0 = .ok r ∧
    r.status = .BTX ∧ r.st0 = .BTX ∧ r.st1 = .FTX := ⟨_, rfl, rfl, rfl, rfl⟩


/-- **status table of `quantis_swap_zero`.**  Whatever the inputs, a returned result has one of fourteen
    statuses; the move is accepted exactly on 'ACC'; the status fields of the two returned path objects are those
    of `quantisFields` (they agree with the returned status except: QS1 and QR* leave the first path without a
    status, a failed [0-] completion (BTX/BTS/0-L) leaves the second without one, and a failed [0+] completion
    (FTX/FTS/0+R) returns the new [0-] path still marked 'ACC'); ξ is drawn exactly when the status is not one of
    the four pre-checks QNE/QLL/QS0/QS1, and then after exactly two engine requests; 'QEA' is returned exactly
    when the energy rule was evaluated, `accept_all` is off and ξ > min(1, p). -/
theorem quantis_status_table {e0 e1 : Ens} {old0 old1 : List Frame} {scA scB scC scD : Script} {aa : Bool}
    {b0 b1 xi p : Rat} {r : Result}
    (h : quantisSwapZero e0 e1 old0 old1 scA scB scC scD aa b0 b1 xi p = .ok r) :
    r.accept = decide (r.status = .ACC) ∧ (r.st0, r.st1) = quantisFields r.status ∧
    r.status ∈ [Status.QNE, .QLL, .QS0, .QS1, .QEA, .QRS, .BTX, .BTS, .ZL, .QLR, .FTX, .FTS, .ZR, .ACC] ∧
    r.draws = (if r.status = .QNE ∨ r.status = .QLL ∨ r.status = .QS0 ∨ r.status = .QS1 then 0 else 1) ∧
    quantisDrawAt r = (if r.draws = 0 then none else some 2) ∧
    (r.status = .QEA ↔ r.draws = 1 ∧ aa = false ∧ ¬ xi ≤ min 1 p) ∧
    (r.draws = 0 → r.reqs.length ≤ 2 ∧ r.expArg = none) := by
  unfold quantisSwapZero at h
  cases hpre : quantisPre e0 old0 old1 scA scB b0 b1 with
  | err e => simp [hpre] at h
  | early st p0 p1 s0 s1 reqs =>
    simp only [hpre, Except.ok.injEq] at h
    subst h
    obtain ⟨hst, hf, hl⟩ := quantisPre_early hpre
    simp only [qres, quantisDrawAt]
    rcases hst with rfl | rfl | rfl | rfl <;> simp_all
  | reached tmp0 tmp1 reqs ea sc1L =>
    have hlen := quantisPre_reached hpre
    simp only [hpre] at h
    split at h
    · rename_i hbr
      unfold quantisComplete at h
      split at h
      · cases h
      · rename_i a st p0 p1 s0 s1 w rq hc
        simp only [Except.ok.injEq] at h
        subst h
        obtain ⟨hacc, hf, hr⟩ := core_table hc
        obtain ⟨more, hm⟩ := core_reqs hc
        simp only at hacc hf hr hm
        have hmin : min 2 rq.length = 2 := by rw [hm]; simp; omega
        have hbr' : ¬ (aa = false ∧ ¬ xi ≤ min 1 p) := by
          intro ⟨h1, h2⟩
          simp [h1, h2] at hbr
        simp only [qres, quantisDrawAt, hmin]
        refine ⟨?_, hf, ?_, ?_, by simp, ?_, by simp⟩
        · cases a <;> simp_all
        · rcases hr with h | h | h | h | h | h | h | h | h <;> simp [h]
        · rcases hr with h | h | h | h | h | h | h | h | h <;> simp [h]
        · rcases hr with h | h | h | h | h | h | h | h | h <;> simp [h] <;> exact fun h1 => by simp_all
    · rename_i hbr
      simp only [Except.ok.injEq] at h
      subst h
      have hbr' : aa = false ∧ ¬ xi ≤ min 1 p := by
        cases aa <;> simp_all
      simp [qres, quantisDrawAt, quantisFields, hlen, hbr'.1, hbr'.2]


theorem quantis_run_early {e0 e1 : Ens} {old0 old1 : List Frame} {scA scB scC scD : Script} {aa : Bool}
    {b0 b1 xi p : Rat} {r : Result} {st : Status} {p0 p1 : List Frame} {s0 s1 : Status} {rq : List Req}
    (hpre : quantisPre e0 old0 old1 scA scB b0 b1 = .early st p0 p1 s0 s1 rq)
    (h : quantisSwapZero e0 e1 old0 old1 scA scB scC scD aa b0 b1 xi p = .ok r) :
    r.status = st ∧ r.draws = 0 ∧ r.accept = false := by
  unfold quantisSwapZero at h
  simp only [hpre, Except.ok.injEq] at h
  subst h
  exact ⟨rfl, rfl, rfl⟩

theorem quantis_run_reached {e0 e1 : Ens} {old0 old1 : List Frame} {scA scB scC scD : Script} {aa : Bool}
    {b0 b1 xi p : Rat} {r : Result} {tmp0 tmp1 : List Frame} {reqs : List Req} {ea : Rat} {sc1L : Bool}
    (hpre : quantisPre e0 old0 old1 scA scB b0 b1 = .reached tmp0 tmp1 reqs ea sc1L)
    (h : quantisSwapZero e0 e1 old0 old1 scA scB scC scD aa b0 b1 xi p = .ok r) :
    r.draws = 1 ∧ r.expArg = some ea ∧ (∃ more, r.reqs = reqs ++ more) ∧
    (r.accept = true → ∃ out : CoreOut,
      quantisCompleteCore e0 e1 e0.i2 e0.maxlen e0.maxlen sc1L tmp0 tmp1 scC scD reqs = .ok out ∧
      out.1 = true ∧ r.path0 = out.2.2.1 ∧ r.path1 = out.2.2.2.1 ∧ r.reqs = out.2.2.2.2.2.2.2) := by
  unfold quantisSwapZero at h
  simp only [hpre] at h
  split at h
  · unfold quantisComplete at h
    split at h
    · cases h
    · rename_i a st p0 p1 s0 s1 w rq hc
      simp only [Except.ok.injEq] at h
      subst h
      obtain ⟨more, hm⟩ := core_reqs hc
      refine ⟨rfl, rfl, ⟨more, hm⟩, ?_⟩
      intro ha
      exact ⟨_, hc, ha, rfl, rfl, rfl⟩
  · simp only [Except.ok.injEq] at h
    subst h
    exact ⟨rfl, rfl, ⟨[], by simp [qres]⟩, by simp [qres]⟩

/-- **input-level table of the four pre-checks and of "the energy rule is evaluated"** for well-formed paths
    (`sp0` = first frame of the old [0+] path, `sp1` = second-last frame of the old [0-] path):
    QNE ⇔ an energy is missing (`None`; 0.0 is an energy); QLL ⇔ energies present and a shooting point is not
    strictly left of λ0; QS0 / QS1 ⇔ the one-step crossing (`oneStep`: shooting point not left of λ₋₁, the MD
    program produced a next frame, that frame strictly right of λ0) failed for [0-] / for [0+]; ξ is drawn ⇔
    all of these hold. -/
theorem quantis_input_table {e0 e1 : Ens} {pre0 rest1 : List Frame} {sp1 last sp0 : Frame}
    {scA scB scC scD : Script} {aa : Bool} {b0 b1 xi p : Rat} {r : Result}
    (h : quantisSwapZero e0 e1 (pre0 ++ [sp1, last]) (sp0 :: rest1) scA scB scC scD aa b0 b1 xi p = .ok r) :
    (r.status = .QNE ↔ sp0.vpot = none ∨ sp1.vpot = none) ∧
    (r.status = .QLL ↔ sp0.vpot ≠ none ∧ sp1.vpot ≠ none ∧ ¬ (sp0.op < e0.i2 ∧ sp1.op < e0.i2)) ∧
    (r.status = .QS0 ↔ sp0.vpot ≠ none ∧ sp1.vpot ≠ none ∧ sp0.op < e0.i2 ∧ sp1.op < e0.i2 ∧
        oneStep e0 sp0 scA = none) ∧
    (r.status = .QS1 ↔ sp0.vpot ≠ none ∧ sp1.vpot ≠ none ∧ sp0.op < e0.i2 ∧ sp1.op < e0.i2 ∧
        oneStep e0 sp0 scA ≠ none ∧ oneStep e0 sp1 scB = none) ∧
    (r.draws = 1 ↔ sp0.vpot ≠ none ∧ sp1.vpot ≠ none ∧ sp0.op < e0.i2 ∧ sp1.op < e0.i2 ∧
        oneStep e0 sp0 scA ≠ none ∧ oneStep e0 sp1 scB ≠ none) := by
  obtain ⟨cA, cB, cC, cD, cE⟩ := quantisPre_cases e0 pre0 rest1 sp1 last sp0 scA scB b0 b1
  obtain ⟨_, _, _, hdraws, _⟩ := quantis_status_table h
  by_cases hn : sp0.vpot = none ∨ sp1.vpot = none
  · obtain ⟨hs, hd, _⟩ := quantis_run_early (cA hn) h
    have : ¬ (sp0.vpot ≠ none ∧ sp1.vpot ≠ none) := by
      rcases hn with h' | h' <;> simp [h']
    simp [hs, hd, hn]
    refine ⟨?_, ?_, ?_, ?_⟩ <;> intro a b <;> exact absurd ⟨a, b⟩ this
  · have h0 : sp0.vpot ≠ none := fun e => hn (Or.inl e)
    have h1 : sp1.vpot ≠ none := fun e => hn (Or.inr e)
    by_cases hl : sp0.op < e0.i2 ∧ sp1.op < e0.i2
    · obtain ⟨hl0, hl1⟩ := hl
      cases ho0 : oneStep e0 sp0 scA with
      | none =>
        obtain ⟨tmp0, hP, _⟩ := cC h0 h1 hl0 hl1 ho0
        obtain ⟨hs, hd, _⟩ := quantis_run_early hP h
        simp [hs, hd, hn, h0, h1, hl0, hl1, ho0]
      | some g0 =>
        cases ho1 : oneStep e0 sp1 scB with
        | none =>
          obtain ⟨tmp1, hP, _⟩ := cD g0 h0 h1 hl0 hl1 ho0 ho1
          obtain ⟨hs, hd, _⟩ := quantis_run_early hP h
          simp [hs, hd, hn, h0, h1, hl0, hl1, ho0, ho1]
        | some g1 =>
          obtain ⟨v0r0, hv1⟩ := Option.ne_none_iff_exists'.mp h1
          obtain ⟨v1r1, hv0⟩ := Option.ne_none_iff_exists'.mp h0
          obtain ⟨hok, hbad⟩ := cE g0 g1 v0r0 v1r1 hv1 hv0 hl0 hl1 ho0 ho1
          cases hA : scA.v0 with
          | none =>
            have := hbad (Or.inl hA)
            unfold quantisSwapZero at h
            simp [this] at h
          | some v0r1 =>
            cases hB : scB.v0 with
            | none =>
              have := hbad (Or.inr hB)
              unfold quantisSwapZero at h
              simp [this] at h
            | some v1r0 =>
              obtain ⟨hd, _, _, _⟩ := quantis_run_reached (hok v0r1 v1r0 hA hB) h
              rw [hd] at hdraws
              have hst : ¬ (r.status = .QNE ∨ r.status = .QLL ∨ r.status = .QS0 ∨ r.status = .QS1) := by
                intro hh; rw [if_pos hh] at hdraws; cases hdraws
              simp only [not_or] at hst
              simp [hst.1, hst.2.1, hst.2.2.1, hst.2.2.2, hd, hn, h0, h1, hl0, hl1, ho0, ho1]
    · obtain ⟨hs, hd, _⟩ := quantis_run_early (cB h0 h1 hl) h
      have hl' : ¬ (sp0.op < e0.i2 ∧ sp1.op < e0.i2) := hl
      simp [hs, hd, h0, h1]
      refine ⟨?_, ?_, ?_, ?_⟩ <;> (intros; omega)


/-- **which frames and energies enter the QuanTIS energy rule, and when ξ is drawn.**  Whenever ξ is drawn (well-
    formed paths), the exponent handed to `exp` is `β₀·(V₀(r₀) − V₀(r₁)) − β₁·(V₁(r₀) − V₁(r₁))` with
    `V₀(r₀)` = stored energy of the SECOND-LAST frame of the old [0-] path, `V₁(r₁)` = stored energy of the FIRST
    frame of the old [0+] path, `V₀(r₁)` = energy engine 0 reports for frame 0 of its one-step trajectory from
    that first frame, `V₁(r₀)` = energy engine 1 reports for frame 0 of its one-step trajectory from that
    second-last frame; both one-step crossings succeeded; and the draw comes after exactly these two requests:
    engine 0 forward from the [0+] frame, engine 1 forward from the [0-] frame, both into a path of 2 frames and
    both with the interfaces of [0-] (the code hands `ens_set0` to engine 1, too). -/
theorem quantis_energy_rule_frames {e0 e1 : Ens} {pre0 rest1 : List Frame} {sp1 last sp0 : Frame}
    {scA scB scC scD : Script} {aa : Bool} {b0 b1 xi p : Rat} {r : Result}
    (h : quantisSwapZero e0 e1 (pre0 ++ [sp1, last]) (sp0 :: rest1) scA scB scC scD aa b0 b1 xi p = .ok r)
    (hd : r.draws = 1) :
    ∃ v0r0 v0r1 v1r1 v1r0 g0 g1,
      sp1.vpot = some v0r0 ∧ scA.v0 = some v0r1 ∧ sp0.vpot = some v1r1 ∧ scB.v0 = some v1r0 ∧
      oneStep e0 sp0 scA = some g0 ∧ oneStep e0 sp1 scB = some g1 ∧
      r.expArg = some (b0 * ((v0r0 : Rat) - (v0r1 : Rat)) - b1 * ((v1r0 : Rat) - (v1r1 : Rat))) ∧
      r.reqs.take 2 = [propReq 0 2 e0.i0 e0.i2 sp0 false, propReq 1 2 e0.i0 e0.i2 sp1 false] ∧
      quantisDrawAt r = some 2 := by
  obtain ⟨_, _, _, _, cE⟩ := quantisPre_cases e0 pre0 rest1 sp1 last sp0 scA scB b0 b1
  obtain ⟨h0, h1, hl0, hl1, ho0, ho1⟩ := (quantis_input_table h).2.2.2.2.mp hd
  obtain ⟨_, _, _, _, hat, _, _⟩ := quantis_status_table h
  obtain ⟨v0r0, hv1⟩ := Option.ne_none_iff_exists'.mp h1
  obtain ⟨v1r1, hv0⟩ := Option.ne_none_iff_exists'.mp h0
  obtain ⟨g0, hg0⟩ := Option.ne_none_iff_exists'.mp ho0
  obtain ⟨g1, hg1⟩ := Option.ne_none_iff_exists'.mp ho1
  obtain ⟨hok, hbad⟩ := cE g0 g1 v0r0 v1r1 hv1 hv0 hl0 hl1 hg0 hg1
  cases hA : scA.v0 with
  | none =>
    have := hbad (Or.inl hA)
    unfold quantisSwapZero at h
    simp [this] at h
  | some v0r1 =>
    cases hB : scB.v0 with
    | none =>
      have := hbad (Or.inr hB)
      unfold quantisSwapZero at h
      simp [this] at h
    | some v1r0 =>
      obtain ⟨_, hea, ⟨more, hm⟩, _⟩ := quantis_run_reached (hok v0r1 v1r0 hA hB) h
      refine ⟨v0r0, v0r1, v1r1, v1r0, g0, g1, hv1, rfl, hv0, rfl, hg0, hg1, ?_, ?_, ?_⟩
      · rw [hea, quantis_exponent]
      · rw [hm]; rfl
      · rw [hat, hd]; rfl

/-- **junction identity of an accepted QuanTIS swap.**  The new [0-] path ends with `g0, x0`: `g0` is the first
    frame of the old [0+] path (same order value, same phase point, flagged `vel_rev`, carrying the energy engine 0
    reports for it) and `x0` is the frame engine 0 produced one step after it, strictly right of λ0.  The new
    [0+] path starts with `f1, x1`: `f1` is the second-last frame of the old [0-] path (same order value, same
    phase point, not flagged, carrying the energy engine 1 reports for it) and `x1` the frame engine 1 produced
    one step after it, strictly right of λ0.  Both new paths are strictly shorter than `maxlen0` — QuanTIS reads
    both limits from the [0-] settings — and have at least 3 frames. -/
theorem quantis_junction_identity {e0 e1 : Ens} {pre0 rest1 : List Frame} {sp1 last sp0 : Frame}
    {scA scB scC scD : Script} {aa : Bool} {b0 b1 xi p : Rat} {r : Result}
    (h : quantisSwapZero e0 e1 (pre0 ++ [sp1, last]) (sp0 :: rest1) scA scB scC scD aa b0 b1 xi p = .ok r)
    (ha : r.accept = true) :
    ∃ back g0 x0 f1 x1 fwd,
      r.path0 = back ++ [g0, genFrame x0 false] ∧ r.path1 = f1 :: genFrame x1 false :: fwd ∧
      g0.op = sp0.op ∧ g0.phys = sp0.phys ∧ g0.vr = true ∧ g0.vpot = scC.v0 ∧ g0.cfg.x = sp0.cfg.x ∧
      f1.op = sp1.op ∧ f1.phys = sp1.phys ∧ f1.vr = false ∧ f1.vpot = scB.v0 ∧ f1.cfg.x = sp1.cfg.x ∧
      oneStep e0 sp0 scA = some x0 ∧ x0.op > e0.i2 ∧ oneStep e0 sp1 scB = some x1 ∧ x1.op > e0.i2 ∧
      r.path0.length < e0.maxlen ∧ r.path1.length < e0.maxlen ∧ 3 ≤ r.path0.length ∧ 3 ≤ r.path1.length := by
  obtain ⟨_, _, _, _, cE⟩ := quantisPre_cases e0 pre0 rest1 sp1 last sp0 scA scB b0 b1
  obtain ⟨hacc, _, _, hdr, _, _, _⟩ := quantis_status_table h
  have hst : r.status = .ACC := by rw [hacc] at ha; simpa using ha
  have hd : r.draws = 1 := by rw [hdr, hst]; simp
  obtain ⟨v0r0, v0r1, v1r1, v1r0, g0, g1, hv1, hA, hv0, hB, hg0, hg1, _, _, _⟩ := quantis_energy_rule_frames h hd
  obtain ⟨h0, h1, hl0, hl1, _, _⟩ := (quantis_input_table h).2.2.2.2.mp hd
  obtain ⟨hok, _⟩ := cE g0 g1 v0r0 v1r1 hv1 hv0 hl0 hl1 hg0 hg1
  obtain ⟨_, _, _, hrun⟩ := quantis_run_reached (hok v0r1 v1r0 hA hB) h
  obtain ⟨out, hc, hout, hp0, hp1, _⟩ := hrun ha
  obtain ⟨back, sb, spl, forw, sf, hpb, hn0, hq0, hlast, _, hpf, hn1, hq1, _, _⟩ := core_acc hc hout
  have hspl : spl = genFrame g1 false := by simpa using hlast.symm
  -- lengths from the two statuses
  have hlen0 : out.2.2.1.length < e0.maxlen ∧ 3 ≤ out.2.2.1.length := by
    unfold qstatus0 at hq0
    by_cases c1 : out.2.2.1.length ≥ e0.maxlen
    · rw [if_pos c1] at hq0; cases hq0
    · rw [if_neg c1] at hq0
      by_cases c2 : out.2.2.1.length < 3
      · rw [if_pos c2] at hq0; cases hq0
      · omega
  have hlen1 : out.2.2.2.1.length ≠ e0.maxlen ∧ 3 ≤ out.2.2.2.1.length := by
    unfold qstatus1 at hq1
    by_cases c1 : out.2.2.2.1.length = e0.maxlen
    · rw [if_pos c1] at hq1; cases hq1
    · rw [if_neg c1] at hq1
      by_cases c2 : out.2.2.2.1.length < 3
      · rw [if_pos c2] at hq1; cases hq1
      · exact ⟨c1, by omega⟩
  have hbl : 2 ≤ back.length := by
    have := hlen0.2; rw [hn0] at this; simp at this; omega
  obtain ⟨t, ht⟩ := propagate_head hpb (by omega)
  -- the forward completion never exceeds its own limit maxlen0 - 1
  have hfl : forw.length ≤ e0.maxlen - 1 := by
    obtain ⟨_, _, _, hfo⟩ := propagate_spec hpf
    have : (ops forw).length ≤ e0.maxlen - 1 := by
      cases hfo with
      | crossed pre x post hx ho hpre hcx hlen => rw [ho]; simp; simp at hlen; omega
      | full pre post hx ho hpre hlen => omega
      | dry ho hpre hlen => omega
    simpa [ops_length] using this
  have hg0x := hg0
  have hg1x := hg1
  unfold oneStep at hg0x hg1x
  have hx0 : g0.op > e0.i2 := by
    split at hg0x
    · cases hg0x
    · split at hg0x
      · split at hg0x
        · rename_i hh; simp only [Option.some.injEq] at hg0x; rw [← hg0x]; exact hh
        · cases hg0x
      · cases hg0x
  have hx1 : g1.op > e0.i2 := by
    split at hg1x
    · cases hg1x
    · split at hg1x
      · split at hg1x
        · rename_i hh; simp only [Option.some.injEq] at hg1x; rw [← hg1x]; exact hh
        · cases hg1x
      · cases hg1x
  refine ⟨t.reverse, { op := sp0.op, cfg := startCfg (startFrame sp0 scA) true, vr := true, vpot := scC.v0 }, g0,
    startFrame sp1 scB, g1, forw.tail, ?_, ?_, rfl, ?_, rfl, rfl, ?_, rfl, ?_, rfl, rfl, ?_,
    hg0, hx0, hg1, hx1, ?_, ?_, ?_, ?_⟩
  · rw [hp0, hn0, ht]; simp [startFrame]
  · rw [hp1, hn1]; rfl
  · exact phys_start (startFrame sp0 scA) true _ _ |>.trans (phys_start sp0 false _ _)
  · cases hv : sp0.vr <;> simp [startCfg, startFrame, hv, Cfg.flip]
  · exact phys_start sp1 false _ _
  · cases hv : sp1.vr <;> simp [startCfg, startFrame, hv, Cfg.flip]
  · rw [hp0]; exact hlen0.1
  · rw [hp1]
    have : out.2.2.2.1.length ≤ e0.maxlen := by
      rw [hn1]; simp; omega
    omega
  · rw [hp0]; exact hlen0.2
  · rw [hp1]; exact hlen1.2


/-- **the QuanTIS acceptance is reversible (detailed balance).**  Let the energies the two engines report be
    functions `V₀`, `V₁` of the configuration (and let the stored energies of the two old shooting frames be
    those values, as for paths the engines generated).  If a swap is accepted and the two NEW paths are swapped
    again far enough for the energy rule to be evaluated, the exponent of the second swap is exactly the negative
    of the exponent of the first: the second swap uses the frames the first one put at the junctions (second-last
    of new [0-] = old [0+] first frame with engine 0's energy; first of new [0+] = old [0-] second-last frame with
    engine 1's energy).  Hence `p_acc(forward) / p_acc(back) = min(1, eˣ) / min(1, e⁻ˣ) = eˣ`. -/
theorem quantis_detailed_balance (V0 V1 : Int → Int)
    {e0 e1 : Ens} {pre0 rest1 : List Frame} {sp1 last sp0 : Frame}
    {scA scB scC scD scA' scB' scC' scD' : Script} {aa aa' : Bool} {b0 b1 xi p xi' p' : Rat} {r1 r2 : Result}
    (h1 : quantisSwapZero e0 e1 (pre0 ++ [sp1, last]) (sp0 :: rest1) scA scB scC scD aa b0 b1 xi p = .ok r1)
    (ha : r1.accept = true)
    (h2 : quantisSwapZero e0 e1 r1.path0 r1.path1 scA' scB' scC' scD' aa' b0 b1 xi' p' = .ok r2)
    (hd2 : r2.draws = 1)
    (hold0 : sp1.vpot = some (V0 sp1.cfg.x)) (hold1 : sp0.vpot = some (V1 sp0.cfg.x))
    (hA : scA.v0 = some (V0 sp0.cfg.x)) (hB : scB.v0 = some (V1 sp1.cfg.x)) (hC : scC.v0 = some (V0 sp0.cfg.x))
    (hA' : scA'.v0 = some (V0 sp1.cfg.x)) (hB' : scB'.v0 = some (V1 sp0.cfg.x)) :
    ∃ ea, r1.expArg = some ea ∧ r2.expArg = some (-ea) := by
  obtain ⟨hacc, _, _, hdr, _, _, _⟩ := quantis_status_table h1
  have hst : r1.status = .ACC := by rw [hacc] at ha; simpa using ha
  have hd1 : r1.draws = 1 := by rw [hdr, hst]; simp
  obtain ⟨v0r0, v0r1, v1r1, v1r0, _, _, e1', e2', e3', e4', _, _, hea1, _, _⟩ := quantis_energy_rule_frames h1 hd1
  obtain ⟨back, g0, x0, f1, x1, fwd, hp0, hp1, _, _, _, hg0v, hg0x, _, _, _, hf1v, hf1x, _⟩ :=
    quantis_junction_identity h1 ha
  rw [hp0, hp1] at h2
  obtain ⟨w0r0, w0r1, w1r1, w1r0, _, _, f1', f2', f3', f4', _, _, hea2, _, _⟩ := quantis_energy_rule_frames h2 hd2
  rw [hold0] at e1'; rw [hA] at e2'; rw [hold1] at e3'; rw [hB] at e4'
  rw [hg0v, hC] at f1'; rw [hA'] at f2'; rw [hf1v, hB] at f3'; rw [hB'] at f4'
  simp only [Option.some.injEq] at e1' e2' e3' e4' f1' f2' f3' f4'
  subst e1' e2' e3' e4' f1' f2' f3' f4'
  refine ⟨_, hea1, ?_⟩
  rw [hea2]
  congr 1
  grind


/-- **the QuanTIS junctions are built by C15's `paste_paths` and `Path.reverse`.**  In any heap of System
    objects in which four path objects hold the values of the backward completion, the two one-step paths and
    the forward completion, `paste_paths(new_path0, tmp_path0, maxlen=maxlen0)` and
    `paste_paths(tmp_path1.reverse(None, rev_v=False), new_path1, maxlen=maxlen1)` — computed with the path
    algebra of C15 (`PathAlg.paste`, `PathAlg.Path.reverse`: references re-used by `paste_paths`, copied by
    `reverse`, truncation at the limit, `time_origin`) — hold exactly the frames `quantisCompleteCore` computes
    with its private list functions (the two right-hand sides are its `new0` and `new1`); the System objects
    that existed before are untouched. -/
theorem quantis_paste_is_path_algebra (h : PathAlg.Heap) (B T0 T1 F : PathAlg.Path)
    (back tmp0 tmp1 forw : List Frame) (m0 m1 : Nat)
    (hB : PathAlg.vals h B = fvals back) (hT0 : PathAlg.vals h T0 = fvals tmp0)
    (hT1 : PathAlg.vals h T1 = fvals tmp1) (hF : PathAlg.vals h F = fvals forw)
    (hml : T1.maxlen = some 2) (hlen : tmp1.length ≤ 2) :
    (∃ P0, quantisPaste0 B T0 m0 = .ok P0 ∧
        PathAlg.vals h P0 = fvals (appendAll (appendAll [] m0 back.reverse) m0 tmp0.tail) ∧
        P0.maxlen = some (m0 : Int) ∧ P0.timeOrigin = B.timeOrigin - (back.length : Int) + 1) ∧
    (∃ h1 P1, quantisPaste1 h T1 F m1 = .ok (h1, P1) ∧
        PathAlg.vals h1 P1 = fvals (appendAll (appendAll [] m1 tmp1.reverse.reverse) m1 forw.tail) ∧
        P1.maxlen = some (m1 : Int) ∧ P1.timeOrigin = 0 - (tmp1.length : Int) + 1 ∧
        ∀ r, r < h.sys.length → h1.look r = h.look r) :=
  ⟨paste0_alg h B T0 back tmp0 m0 hB hT0,
   paste1_alg h T1 F tmp1 forw m1 hT1 hF (by rw [hml]; simp [PathAlg.capLen]; omega)⟩

/-- **ensemble membership under the exact guard.**  What `swap_members` needs from the two length limits is
    only that the new [0-] path is shorter than `maxlen1`: the backward segment is generated into a path of
    `maxlen1 - 1` frames but the length check of the new [0-] path compares with `maxlen0`, so a segment cut at
    `maxlen1 - 1` without a crossing is noticed only if `maxlen0 ≤ maxlen1`
    (`swap_members_maxlen_counterexample`: `maxlen0 = 9 > maxlen1 = 4`, new [0-] path of exactly `maxlen1`
    frames).  Not a defect of /repo: both limits are the one `tis_set["maxlength"]` in every configuration. -/
theorem swap_members_guard {e0 e1 : Ens} {old0 old1 : List Frame} {bw fw : Script} {xi : Rat} {r : Result}
    (h : retisSwapZero e0 e1 old0 old1 bw fw xi = .ok r) (ha : r.accept = true)
    (hg : r.path0.length < e1.maxlen)
    (hbw : e1.maxlen ≤ bw.rest.length + 2) (hfw : e1.maxlen ≤ fw.rest.length + 2)
    (hord : e0.i0 ≤ e0.i1 ∧ e0.i0 ≤ e0.i2) (hlam : e0.i2 = e1.i0)
    (hv0 : ValidMinus e0 old0) (hv1 : ValidPlus e1 old1) :
    ValidMinus e0 r.path0 ∧ ValidPlus e1 r.path1 ∧
      r.path0.length < e0.maxlen ∧ r.path1.length < e1.maxlen := by
  obtain ⟨pre0, a, b, c, d, post1, tmp0, s0, tmp1, s1, hold0, hold1, hprop0, hprop1, hp0, hp1, h20, hl0, h21, hl1,
    hst0, _⟩ := accepted_shape h ha
  have hlen0 : r.path0.length = tmp0.length + 1 := by rw [hp0]; simp
  have hlen1 : r.path1.length = tmp1.length + 1 := by rw [hp1]; simp
  obtain ⟨tpre0, tx0, _, htmp0, _, hnc0, hc0⟩ := propagate_crossed hprop0 (by omega) (by omega)
  obtain ⟨tpre1, tx1, _, htmp1, _, hnc1, hc1⟩ := propagate_crossed hprop1 (by omega) (by omega)
  obtain ⟨f0, mid0, l0, ho0, hne0, _, hmid0, _, _⟩ := hv0
  obtain ⟨f1, mid1, l1, ho1, hne1, _, hmid1, _, _⟩ := hv1
  have hd : d ∈ mid1 := second_mem_mid (hold1.symm.trans ho1) hne1
  have hab := secondlast_mem_mid (hold0.symm.trans ho0) hne0
  have hlo : e0.lo = e0.i0 := by unfold Ens.lo; omega
  have hpath0 : r.path0 = tx0 :: tpre0.reverse ++ [d] := by rw [hp0, htmp0]; simp
  have hpath1 : r.path1 = a :: tpre1 ++ [tx1] := by rw [hp1, htmp1]; simp
  have hne_t0 : tpre0 ≠ [] := by
    intro e; rw [e] at htmp0; rw [htmp0] at h20; simp at h20
  have hne_t1 : tpre1 ≠ [] := by
    intro e; rw [e] at htmp1; rw [htmp1] at h21; simp at h21
  refine ⟨⟨tx0, tpre0.reverse, d, hpath0, by simpa using hne_t0, ?_, ?_, ?_, by omega⟩,
    ⟨a, tpre1, tx1, hpath1, hne_t1, ?_, hnc1, hc1, by omega⟩, by omega, by omega⟩
  · rcases hc0 with hl | hr
    · right
      refine ⟨?_, hl⟩
      cases hsc : e0.scL with
      | true => rfl
      | false =>
        have := (status0_acc hst0).2.2 hsc
        rw [hpath0] at this
        simp [startIsL, hlo] at this
        omega
    · left; exact hr
  · intro g hg
    exact hnc0 g (by simpa using hg)
  · have := hmid1 d hd
    unfold Crosses at this
    omega
  · have := hmid0 a hab.1
    unfold Crosses at this
    omega

/-- the witness of `swap_members_maxlen_counterexample` sits exactly on the boundary of the guard -/
example : Cex.res.path0.length = Cex.e1.maxlen := by decide

/-! ### non-vacuity of the extension theorems -/
namespace ExQ
/-- energies V₀(x) = x, V₁(x) = 2x on the configuration's position -/
def fr (o x v : Int) (vp : Int) : Frame := { op := o, cfg := ⟨x, v⟩, vr := false, vpot := some vp }
def g (o x : Int) (vp : Int) : GenFrame := { op := o, cfg := ⟨x, 3⟩, vpot := some vp }
def e0 : Ens := { i0 := -50, i1 := 0, i2 := 0, maxlen := 8, scL := false, scR := true, wf := false, cap := none }
def e1 : Ens := { i0 := 0, i1 := 1, i2 := 3, maxlen := 8, scL := true, scR := false, wf := false, cap := none }
def old0 : List Frame := [fr 1 100 1 100, fr (-1) 101 1 101, fr (-2) 102 1 102, fr 1 103 1 103]
def old1 : List Frame := [fr (-1) 200 1 400, fr 1 201 1 402, fr 2 202 1 404, fr 4 203 1 406]
def scA : Script := ⟨some 200, [g 1 500 500]⟩          -- engine 0 from old1[0] (x = 200): V₀ = 200
def scB : Script := ⟨some 204, [g 1 600 1200]⟩         -- engine 1 from old0[-2] (x = 102): V₁ = 204
def scC : Script := ⟨some 200, [g (-2) 300 300, g (-1) 301 301, g 1 302 302, g 1 303 303, g 1 304 304, g 1 305 305]⟩
def scD : Script := ⟨some 1200, [g 2 400 800, g 1 401 802, g (-1) 402 804, g 1 403 806, g 1 404 808, g 1 405 810]⟩
end ExQ

/-- an accepted QuanTIS swap on well-formed paths: status table, junction frames and exponent
    `β₀(102 − 200) − β₁(204 − 400) = 98` for β = 1 -/
example : ∃ r, quantisSwapZero ExQ.e0 ExQ.e1 ([ExQ.fr 1 100 1 100, ExQ.fr (-1) 101 1 101] ++ [ExQ.fr (-2) 102 1 102, ExQ.fr 1 103 1 103])
      (ExQ.fr (-1) 200 1 400 :: [ExQ.fr 1 201 1 402, ExQ.fr 2 202 1 404, ExQ.fr 4 203 1 406])
      ExQ.scA ExQ.scB ExQ.scC ExQ.scD false 1 1 0 1 = .ok r ∧
    r.accept = true ∧ r.draws = 1 ∧ r.expArg = some (expArgOf 1 1 102 200 400 204) ∧
    expArgOf 1 1 102 200 400 204 = 98 ∧ quantisDrawAt r = some 2 ∧
    ops r.path0 = [1, -1, -2, -1, 1] ∧ ops r.path1 = [-2, 1, 2, 1, -1] :=
  ⟨_, rfl, rfl, rfl, rfl, by unfold expArgOf; grind, rfl, rfl, rfl⟩

/-- the accepted pair swapped back with the engines' energies V₀(x) = x, V₁(x) = 2x: every hypothesis of
    `quantis_detailed_balance` holds and the exponents are 98 and −98 -/
example : ∃ r1 r2,
    quantisSwapZero ExQ.e0 ExQ.e1 ([ExQ.fr 1 100 1 100, ExQ.fr (-1) 101 1 101] ++ [ExQ.fr (-2) 102 1 102, ExQ.fr 1 103 1 103])
      (ExQ.fr (-1) 200 1 400 :: [ExQ.fr 1 201 1 402, ExQ.fr 2 202 1 404, ExQ.fr 4 203 1 406])
      ExQ.scA ExQ.scB ExQ.scC ExQ.scD false 1 1 0 1 = .ok r1 ∧ r1.accept = true ∧
    quantisSwapZero ExQ.e0 ExQ.e1 r1.path0 r1.path1 ⟨some 102, [ExQ.g 1 700 700]⟩ ⟨some 400, [ExQ.g 1 800 1600]⟩
      ExQ.scC ExQ.scD true 1 1 0 1 = .ok r2 ∧ r2.draws = 1 ∧
    r1.expArg = some (expArgOf 1 1 102 200 400 204) ∧ r2.expArg = some (expArgOf 1 1 200 102 204 400) ∧
    expArgOf 1 1 200 102 204 400 = - expArgOf 1 1 102 200 400 204 ∧
    (ExQ.fr (-2) 102 1 102).vpot = some ((fun x => x) (ExQ.fr (-2) 102 1 102).cfg.x) ∧
    (ExQ.fr (-1) 200 1 400).vpot = some ((fun x => 2 * x) (ExQ.fr (-1) 200 1 400).cfg.x) :=
  ⟨_, _, rfl, rfl, rfl, rfl, rfl, rfl, by unfold expArgOf; grind, rfl, rfl⟩

/-- every pre-check of the QuanTIS table is reachable: QNE (energy missing), QLL (shooting point on λ0),
    QS0 / QS1 (one-step frame on λ0: not strictly right), QEA (ξ = 1 > p = 0) -/
example :
    (quantisSwapZero ExQ.e0 ExQ.e1 [Ex.fr 1 0, { Ex.fr (-1) 0 with vpot := none }, Ex.fr 1 0] ExQ.old1 ExQ.scA ExQ.scB ExQ.scC ExQ.scD
      false 1 1 0 1).toOption.map (·.status) = some .QNE ∧
    (quantisSwapZero ExQ.e0 ExQ.e1 [Ex.fr 1 0, Ex.fr 0 0, Ex.fr 1 0] ExQ.old1 ExQ.scA ExQ.scB ExQ.scC ExQ.scD
      false 1 1 0 1).toOption.map (·.status) = some .QLL ∧
    (quantisSwapZero ExQ.e0 ExQ.e1 ExQ.old0 ExQ.old1 ⟨some 0, [ExQ.g 0 1 1]⟩ ExQ.scB ExQ.scC ExQ.scD
      false 1 1 0 1).toOption.map (fun r => (r.status, r.st0, r.st1)) = some (.QS0, .QS0, .QS0) ∧
    (quantisSwapZero ExQ.e0 ExQ.e1 ExQ.old0 ExQ.old1 ExQ.scA ⟨some 0, [ExQ.g 0 1 1]⟩ ExQ.scC ExQ.scD
      false 1 1 0 1).toOption.map (fun r => (r.status, r.st0, r.st1)) = some (.QS1, .none, .QS1) ∧
    (quantisSwapZero ExQ.e0 ExQ.e1 ExQ.old0 ExQ.old1 ExQ.scA ExQ.scB ExQ.scC ExQ.scD
      false 1 1 1 0).toOption.map (fun r => (r.status, r.draws)) = some (.QEA, 1) := by
  refine ⟨by decide, by decide, by decide, by decide, by decide⟩

/-- a failed [0+] completion (FTS: the forward program leaves at once) returns the new [0-] path marked 'ACC' -/
example : (quantisSwapZero ExQ.e0 ExQ.e1 ExQ.old0 ExQ.old1 ExQ.scA ⟨some 204, [ExQ.g 4 600 1200]⟩ ExQ.scC
      ⟨some 0, []⟩ false 1 1 0 1).toOption.map (fun r => (r.accept, r.status, r.st0, r.st1)) =
    some (false, .FTS, .ACC, .FTS) := by decide

/-- the two pastes of the accepted swap above on a concrete heap, through C15's functions: frames and time origins -/
example : (quantisPasteRun
      [⟨-1, ⟨200, -1⟩, true, some 200⟩, ⟨-2, ⟨300, 3⟩, true, some 300⟩, ⟨-1, ⟨301, 3⟩, true, some 301⟩, ⟨1, ⟨302, 3⟩, true, some 302⟩]
      [⟨-1, ⟨200, 1⟩, false, some 200⟩, ⟨1, ⟨500, 3⟩, false, some 500⟩]
      [⟨-2, ⟨102, 1⟩, false, some 204⟩, ⟨1, ⟨600, 3⟩, false, some 1200⟩]
      [⟨1, ⟨600, 3⟩, false, some 1200⟩, ⟨2, ⟨400, 3⟩, false, some 800⟩, ⟨1, ⟨401, 3⟩, false, some 802⟩, ⟨-1, ⟨402, 3⟩, false, some 804⟩]
      8 8).map (fun x => (ops x.1.1, x.1.2, ops x.2.1, x.2.2)) =
    some ([1, -1, -2, -1, 1], -3, [-2, 1, 2, 1, -1], -1) := by decide

/-- hypotheses of `quantis_paste_is_path_algebra` on a concrete heap -/
example : ∃ h rb r0 r1 rf,
    PathAlg.vals h (pathOf 7 rb) = fvals [Ex.fr 1 0, Ex.fr 2 0] ∧ PathAlg.vals h (pathOf 2 r0) = fvals [Ex.fr 3 0, Ex.fr 4 0] ∧
    PathAlg.vals h (pathOf 2 r1) = fvals [Ex.fr 5 0, Ex.fr 6 0] ∧ PathAlg.vals h (pathOf 7 rf) = fvals [Ex.fr 6 0, Ex.fr 7 0] ∧
    (pathOf 2 r1).maxlen = some 2 :=
  ⟨(allocFrames PathAlg.Heap.empty [Ex.fr 1 0, Ex.fr 2 0, Ex.fr 3 0, Ex.fr 4 0, Ex.fr 5 0, Ex.fr 6 0, Ex.fr 6 0, Ex.fr 7 0]).1,
    [0, 1], [2, 3], [4, 5], [6, 7], by decide, by decide, by decide, by decide, rfl⟩

/-! ### swapping twice with a velocity-dependent order parameter -/

theorem detV_unfold {st : Cfg → Cfg} {opf : Cfg → Int} {vf : Cfg → Option Int} {n : Nat} {e0 e1 : Ens}
    {old0 old1 : List Frame} {xi : Rat} {r : Result}
    (h : retisSwapZeroDetV st opf vf n e0 e1 old0 old1 xi = .ok r) (ha : r.accept = true) :
    ∃ first1 last0, old1.head? = some first1 ∧ old0.getLast? = some last0 ∧
      retisSwapZero e0 e1 old0 old1 (detScriptV st opf vf true n (startCfg first1 true))
        (detScriptV st opf vf false n (startCfg last0 false)) xi = .ok r := by
  unfold retisSwapZeroDetV at h
  cases h1 : old1.head? with
  | none =>
    simp only [h1] at h
    obtain ⟨_, _, _, c, d, post1, _, _, _, _, _, hold1, _⟩ := accepted_shape h ha
    rw [hold1] at h1; simp at h1
  | some first1 =>
    cases h0 : old0.getLast? with
    | none =>
      simp only [h1, h0] at h
      obtain ⟨pre0, a, b, _, _, _, _, _, _, _, hold0, _⟩ := accepted_shape h ha
      rw [hold0] at h0; simp at h0
    | some last0 =>
      simp only [h1, h0] at h
      exact ⟨first1, last0, rfl, rfl, h⟩

/-- **swapping twice restores the paths — velocity-dependent order parameters included.**  The hypothesis
    `OpEven` of `swap_twice_identity` is an artefact of evaluating the order function on the STORED configuration:
    every engine evaluates it on the physical phase point (`calculate_order` negates the stored velocities of a
    `vel_rev` frame; model `orbitV`).  With that engine model the statement needs only determinism and
    time-reversibility: let both engines be one deterministic engine `D` that is
    time-reversible (`D.step (flip (D.step c)) = flip c`), with ANY order function of the phase point,
    running at least `maxlen1 - 2` steps per call; let the old paths be valid
    members of their ensembles and trajectories of `D` (whatever their `vel_rev` flags), and
    `maxlen0 ≤ maxlen1`.  If the swap is accepted and the swap of the two new paths is accepted again,
    the result has the order-value sequences — and indeed the phase points — of the original paths. -/
theorem swap_twice_identity_veldep (D : Dyn) (hrev : D.Reversible) (n : Nat)
    {e0 e1 : Ens} {old0 old1 : List Frame} {xi1 xi2 : Rat} {r1 r2 : Result}
    (h1 : retisSwapZeroDetV D.step D.opf D.vf n e0 e1 old0 old1 xi1 = .ok r1) (ha1 : r1.accept = true)
    (h2 : retisSwapZeroDetV D.step D.opf D.vf n e0 e1 r1.path0 r1.path1 xi2 = .ok r2) (ha2 : r2.accept = true)
    (hm : e0.maxlen ≤ e1.maxlen) (hn : e1.maxlen ≤ n + 2)
    (hv0 : ValidMinus e0 old0) (hv1 : ValidPlus e1 old1) (ht0 : IsTraj D old0) (ht1 : IsTraj D old1) :
    ops r2.path0 = ops old0 ∧ ops r2.path1 = ops old1 ∧
      r2.path0.map Frame.phys = old0.map Frame.phys ∧ r2.path1.map Frame.phys = old1.map Frame.phys := by
  -- first swap
  obtain ⟨_, _, _, _, h1'⟩ := detV_unfold h1 ha1
  obtain ⟨pre0, a, b, c, d, post1, tmp0, s0, tmp1, s1, hold0, hold1, hprop0, hprop1, hp0, hp1, h20, _, h21, _, _, _⟩ :=
    accepted_shape h1' ha1
  obtain ⟨t0, ht0'⟩ := propagate_head hprop0 (by omega)
  obtain ⟨t1, ht1'⟩ := propagate_head hprop1 (by omega)
  -- second swap
  obtain ⟨first1', last0', hf1, hl0, h2'⟩ := detV_unfold h2 ha2
  obtain ⟨pre0', a', b', c', d', post1', tmp0', s0', tmp1', s1', hold0', hold1', hprop0', hprop1', hp0', hp1',
    _, hl0', _, hl1', _, _⟩ := accepted_shape h2' ha2
  -- identify the frames of the second swap
  have hc' : c' = a ∧ d'.op = b.op ∧ d'.phys = b.phys := by
    rw [hp1, ht1'] at hold1'
    simp only [List.cons.injEq] at hold1'
    refine ⟨hold1'.1.symm, ?_, ?_⟩
    · rw [← hold1'.2.1]
    · rw [← hold1'.2.1]; exact phys_start b false _ _
  have hb' : a'.op = c.op ∧ a'.phys = c.phys ∧ b' = d := by
    rw [hp0, ht0'] at hold0'
    simp only [List.reverse_cons, List.append_assoc, List.singleton_append] at hold0'
    have := (List.append_inj' hold0' rfl).2
    simp only [List.cons.injEq, and_true] at this
    refine ⟨?_, ?_, this.2.symm⟩
    · rw [← this.1]
    · rw [← this.1]; exact phys_start c true _ _
  obtain ⟨hc'1, hd'op, hd'phys⟩ := hc'
  obtain ⟨ha'op, ha'phys, hb'd⟩ := hb'
  subst hc'1 hb'd
  have hfirst1' : first1' = c' := by
    rw [hold1'] at hf1; simpa using hf1.symm
  have hlast0' : last0' = b' := by
    rw [hold0'] at hl0; simpa using hl0.symm
  subst hfirst1' hlast0'
  -- the old paths as members and trajectories
  obtain ⟨f0, mid0, l0, ho0, hne0, hf0, hmid0, _, hlen0⟩ := hv0
  obtain ⟨f1, mid1, l1, ho1, hne1, _, hmid1, hcl1, hlen1⟩ := hv1
  obtain ⟨hsp0, _⟩ := secondlast_split (hold0.symm.trans ho0)
  have hsp1 : last0' :: post1 = mid1 ++ [l1] := by
    have := hold1.symm.trans ho1
    simp only [List.cons_append, List.cons.injEq] at this
    exact this.2
  -- backward call of the second swap retraces old [0-]
  have hback := propagate_retraceV D Cfg.flip true (fun c => by simp [physOf, ZeroSwap.flip_flip])
    (lst := pre0.reverse) (lpre := mid0.reverse) (lx := f0) hprop0' (by omega) (by omega)
    (by
      have := congrArg List.length hold0
      simp at this ⊢; omega)
    (startCfg_true first1')
    (by
      have hc : Consec (fun f g => g.phys = D.step f.phys) (pre0 ++ [first1']) := by
        have := ht0.2; rw [hold0] at this
        have e : pre0 ++ [first1', b] = (pre0 ++ [first1']) ++ [b] := by simp
        rw [e] at this; exact this.prefix
      have := consec_reverse hc
      simp only [List.reverse_append, List.reverse_cons, List.reverse_nil, List.nil_append, List.cons_append] at this
      refine Consec.imp ?_ this
      intro u w huw
      show D.step u.phys.flip = w.phys.flip
      rw [huw]; exact hrev w.phys)
    (by
      intro f hf
      apply ht0.1; rw [hold0]; simp at hf ⊢; exact Or.inl hf)
    (by
      have := congrArg List.reverse hsp0
      simpa using this)
    (by intro g hg; exact hmid0 g (by simpa using hg))
    (by
      rcases hf0 with h | ⟨_, h⟩
      · exact Or.inr h
      · exact Or.inl h)
  -- forward call of the second swap retraces old [0+]
  have hforw := propagate_retraceV D id false (fun c => by simp [physOf])
    (lst := post1) (lpre := mid1) (lx := l1) hprop1' (by omega) (by omega)
    (by
      have := congrArg List.length hold1
      simp at this ⊢; omega)
    (startCfg_false last0')
    (by
      have := ht1.2; rw [hold1] at this
      refine Consec.imp ?_ this.tail
      intro u w huw
      simp only [id] at huw ⊢
      exact huw.symm)
    (by
      intro f hf
      apply ht1.1; rw [hold1]; simp [hf])
    hsp1 hmid1 hcl1
  obtain ⟨hbp, hbo⟩ := hback
  obtain ⟨hfp, hfo⟩ := hforw
  have hb_eq : b = l0 := (secondlast_split (hold0.symm.trans ho0)).2
  refine ⟨?_, ?_, ?_, ?_⟩
  · rw [hp0', hold0]
    simp only [ops, List.map_append, List.map_reverse, List.map_cons, List.map_nil] at hbo ⊢
    rw [hbo, hd'op]; simp
  · rw [hp1', hold1]
    simp only [ops, List.map_cons] at hfo ⊢
    rw [hfo, ha'op]
  · rw [hp0', hold0]
    simp only [List.map_append, List.map_reverse, List.map_cons, List.map_nil] at hbp ⊢
    rw [hbp, hd'phys]; simp
  · rw [hp1', hold1]
    simp only [List.map_cons] at hfp ⊢
    rw [hfp, ha'phys]


/-- the double-well leap-frog engine with the velocity-dependent order parameter λ = 2x + v -/
def dwVelDyn (a k : Int) : Dyn := { step := dwStep a k, opf := fun c => 2 * c.x + c.v, vf := fun _ => some 0 }

namespace ExVel
def fr (x v : Int) (vr : Bool) : Frame :=
  { op := 2 * x + (if vr then -v else v), cfg := ⟨x, v⟩, vr := vr, vpot := some 0 }
def e0 : Ens := { i0 := -1000000, i1 := -16, i2 := -16, maxlen := 15, scL := false, scR := true, wf := false, cap := none }
def e1 : Ens := { i0 := -16, i1 := -16, i2 := -1, maxlen := 15, scL := true, scR := false, wf := false, cap := none }
/-- λ = -8, -17, -14 -/
def old0 : List Frame := [fr (-4) 0 false, fr (-7) (-3) false, fr (-8) 2 false]
/-- λ = -21, -3, 17 (the last frame stored with reversed velocities) -/
def old1 : List Frame := [fr (-12) 3 false, fr (-4) 5 false, fr 6 (-5) true]
end ExVel

/-- every hypothesis of `swap_twice_identity_veldep` holds for this pair (a = k = 64, λ = 2x + v is NOT even in v) -/
example : ∃ r1 r2,
    retisSwapZeroDetV (dwVelDyn 64 64).step (dwVelDyn 64 64).opf (dwVelDyn 64 64).vf 17 ExVel.e0 ExVel.e1 ExVel.old0 ExVel.old1 (1/2) = .ok r1 ∧
    r1.accept = true ∧ ops r1.path0 = [-8, -25, -21, -3] ∧ ops r1.path1 = [-17, -14, -12, -18] ∧
    retisSwapZeroDetV (dwVelDyn 64 64).step (dwVelDyn 64 64).opf (dwVelDyn 64 64).vf 17 ExVel.e0 ExVel.e1 r1.path0 r1.path1 (1/2) = .ok r2 ∧
    r2.accept = true ∧ (dwVelDyn 64 64).Reversible ∧ ¬ (dwVelDyn 64 64).OpEven ∧
    ExVel.e0.maxlen ≤ ExVel.e1.maxlen ∧ ExVel.e1.maxlen ≤ 17 + 2 ∧
    ValidMinus ExVel.e0 ExVel.old0 ∧ ValidPlus ExVel.e1 ExVel.old1 ∧
    IsTraj (dwVelDyn 64 64) ExVel.old0 ∧ IsTraj (dwVelDyn 64 64) ExVel.old1 := by
  refine ⟨_, _, rfl, rfl, rfl, rfl, rfl, rfl, dw_reversible 64 64, ?_, by decide, by decide, ?_, ?_, ?_, ?_⟩
  · intro h
    have := h ⟨0, 1⟩
    revert this; decide
  · exact ⟨ExVel.fr (-4) 0 false, [ExVel.fr (-7) (-3) false], ExVel.fr (-8) 2 false,
      rfl, by simp, Or.inl (by decide), by decide, by decide, by decide⟩
  · exact ⟨ExVel.fr (-12) 3 false, [ExVel.fr (-4) 5 false], ExVel.fr 6 (-5) true,
      rfl, by simp, by decide, by decide, by decide, by decide⟩
  · exact ⟨by decide, by decide, by decide, trivial⟩
  · exact ⟨by decide, by decide, by decide, trivial⟩

/-! ### ensemble membership of an accepted QuanTIS swap -/

theorem qstatus0_acc {e0 : Ens} {m : Nat} {p : List Frame} (h : qstatus0 e0 m p = .ACC) :
    p.length < m ∧ 3 ≤ p.length ∧ (e0.scL = false → startIsL e0.lo p = false ∧ endIsL e0.lo p = false) := by
  unfold qstatus0 at h
  by_cases h1 : p.length ≥ m
  · simp [h1] at h
  · by_cases h2 : p.length < 3
    · simp [h1, h2] at h
    · by_cases h3 : (!e0.scL && (startIsL e0.lo p || endIsL e0.lo p)) = true
      · simp [h1, h2, h3] at h
      · refine ⟨by omega, by omega, ?_⟩
        intro hsc
        simp [hsc] at h3
        exact h3

theorem qstatus1_acc {lam : Int} {m : Nat} {p : List Frame} (h : qstatus1 lam m p = .ACC) :
    p.length ≠ m ∧ 3 ≤ p.length ∧ startIsL lam p = true := by
  unfold qstatus1 at h
  by_cases h1 : p.length = m
  · simp [h1] at h
  · by_cases h2 : p.length < 3
    · simp [h1, h2] at h
    · by_cases h3 : startIsL lam p = true
      · exact ⟨h1, by omega, h3⟩
      · simp [h1, h2, h3] at h

/-- **an accepted QuanTIS swap yields members of both ensembles** — without any assumption on the old paths
    beyond their having the two shooting frames: for MD programs that do not end before the length limit,
    ordered [0-] interfaces, the shared interface λ0 and `maxlen0 ≤ maxlen1` (QuanTIS reads both limits from
    the [0-] settings), the new [0-] path starts outside (right of λ0, or left of λ₋₁ only if 'L' is an allowed
    start), stays inside `[λ₋₁, λ0]` and ends strictly right of λ0; the new [0+] path starts strictly left of
    λ0, stays inside `[λ0, λN]` in between and ends outside; both are shorter than the limit. -/
theorem quantis_swap_members {e0 e1 : Ens} {pre0 rest1 : List Frame} {sp1 last sp0 : Frame}
    {scA scB scC scD : Script} {aa : Bool} {b0 b1 xi p : Rat} {r : Result}
    (h : quantisSwapZero e0 e1 (pre0 ++ [sp1, last]) (sp0 :: rest1) scA scB scC scD aa b0 b1 xi p = .ok r)
    (ha : r.accept = true)
    (hC : e0.maxlen ≤ scC.rest.length + 2) (hD : e0.maxlen ≤ scD.rest.length + 2)
    (hord : e0.i0 ≤ e0.i1 ∧ e0.i0 ≤ e0.i2) (hlam : e0.i2 = e1.i0) (hm : e0.maxlen ≤ e1.maxlen) :
    ValidMinus e0 r.path0 ∧ ValidPlus e1 r.path1 := by
  obtain ⟨_, _, _, _, cE⟩ := quantisPre_cases e0 pre0 rest1 sp1 last sp0 scA scB b0 b1
  obtain ⟨hacc, _, _, hdr, _, _, _⟩ := quantis_status_table h
  have hst : r.status = .ACC := by rw [hacc] at ha; simpa using ha
  have hd : r.draws = 1 := by rw [hdr, hst]; simp
  obtain ⟨v0r0, v0r1, v1r1, v1r0, g0, g1, hv1, hA, hv0, hB, hg0, hg1, _, _, _⟩ := quantis_energy_rule_frames h hd
  obtain ⟨_, _, hl0, hl1, _, _⟩ := (quantis_input_table h).2.2.2.2.mp hd
  obtain ⟨hok, _⟩ := cE g0 g1 v0r0 v1r1 hv1 hv0 hl0 hl1 hg0 hg1
  obtain ⟨_, _, _, hrun⟩ := quantis_run_reached (hok v0r1 v1r0 hA hB) h
  obtain ⟨out, hc, hout, hp0, hp1, _⟩ := hrun ha
  obtain ⟨back, sb, spl, forw, sf, hpb, hn0, hq0, hlast, _, hpf, hn1, hq1, _, _⟩ := core_acc hc hout
  have hspl : spl = genFrame g1 false := by simpa using hlast.symm
  subst hspl
  obtain ⟨hlt0, h30, hL0⟩ := qstatus0_acc hq0
  obtain ⟨hne1, h31, hS1⟩ := qstatus1_acc hq1
  have hlo : e0.lo = e0.i0 := by unfold Ens.lo; omega
  -- the one-step frames are strictly right of λ0
  have hx0 : g0.op > e0.i2 := by
    unfold oneStep at hg0
    split at hg0
    · cases hg0
    · split at hg0
      · split at hg0
        · rename_i hh; simp only [Option.some.injEq] at hg0; rw [← hg0]; exact hh
        · cases hg0
      · cases hg0
  -- [0-]: the backward completion crossed
  have hbl : back.length + 1 < e0.maxlen ∧ 2 ≤ back.length := by
    rw [hn0] at hlt0 h30; simp at hlt0 h30; omega
  obtain ⟨tpre, tx, _, hback, _, hnc, hcx⟩ := propagate_crossed hpb (by omega) (by omega)
  have hne_t : tpre ≠ [] := by
    intro e; rw [e] at hback; rw [hback] at hbl; simp at hbl
  have hpath0 : r.path0 = tx :: tpre.reverse ++ [genFrame g0 false] := by
    rw [hp0, hn0, hback]; simp
  -- [0+]: the forward completion crossed
  have hforw_le : forw.length ≤ e0.maxlen - 1 := by
    obtain ⟨_, _, _, hfo⟩ := propagate_spec hpf
    have : (ops forw).length ≤ e0.maxlen - 1 := by
      cases hfo with
      | crossed pre x post hx ho hpre hcx hlen => rw [ho]; simp; simp at hlen; omega
      | full pre post hx ho hpre hlen => omega
      | dry ho hpre hlen => omega
    simpa [ops_length] using this
  have hfl : forw.length + 1 < e0.maxlen ∧ 2 ≤ forw.length := by
    have e : out.2.2.2.1.length = forw.length + 1 := by
      rw [hn1]; simp
      have : 1 ≤ forw.length := by
        rw [hn1] at h31; simp at h31; omega
      omega
    rw [e] at hne1 h31
    omega
  obtain ⟨fpre, fx, _, hforw, _, hfnc, hfcx⟩ := propagate_crossed hpf (by omega) (by omega)
  obtain ⟨ft, hft⟩ := propagate_head hpf (by omega)
  -- fpre = head :: fpre'
  cases fpre with
  | nil => rw [hforw] at hfl; simp at hfl
  | cons fh fpre' =>
    have hfh : fh.op = g1.op := by
      rw [hforw] at hft
      simp only [List.cons_append, List.cons.injEq] at hft
      rw [hft.1]; rfl
    have hpath1 : r.path1 = startFrame sp1 scB :: (genFrame g1 false :: fpre') ++ [fx] := by
      rw [hp1, hn1, hforw]; simp
    refine ⟨⟨tx, tpre.reverse, genFrame g0 false, hpath0, by simpa using hne_t, ?_, ?_, ?_, ?_⟩,
      ⟨startFrame sp1 scB, genFrame g1 false :: fpre', fx, hpath1, by simp, ?_, ?_, ?_, ?_⟩⟩
    · rcases hcx with hl | hr
      · right
        refine ⟨?_, hl⟩
        cases hsc : e0.scL with
        | true => rfl
        | false =>
          have := (hL0 hsc).1
          rw [hn0, hback] at this
          simp [startIsL, hlo] at this
          omega
      · left; exact hr
    · intro g hg; exact hnc g (by simpa using hg)
    · show g0.op ≥ e0.i2
      omega
    · rw [hp0]; omega
    · show sp1.op ≤ e1.i0
      omega
    · intro g hg
      rcases List.mem_cons.mp hg with rfl | hg'
      · have := hfnc fh (by simp)
        rw [hfh] at this; exact this
      · exact hfnc g (by simp [hg'])
    · exact hfcx
    · rw [hp1, hn1]; simp; omega

/-- the accepted QuanTIS swap of `ExQ` meets every hypothesis of `quantis_swap_members` -/
example : ∃ r, quantisSwapZero ExQ.e0 ExQ.e1 ([ExQ.fr 1 100 1 100, ExQ.fr (-1) 101 1 101] ++ [ExQ.fr (-2) 102 1 102, ExQ.fr 1 103 1 103])
      (ExQ.fr (-1) 200 1 400 :: [ExQ.fr 1 201 1 402, ExQ.fr 2 202 1 404, ExQ.fr 4 203 1 406])
      ExQ.scA ExQ.scB ExQ.scC ExQ.scD false 1 1 0 1 = .ok r ∧ r.accept = true ∧
    ExQ.e0.maxlen ≤ ExQ.scC.rest.length + 2 ∧ ExQ.e0.maxlen ≤ ExQ.scD.rest.length + 2 ∧
    (ExQ.e0.i0 ≤ ExQ.e0.i1 ∧ ExQ.e0.i0 ≤ ExQ.e0.i2) ∧ ExQ.e0.i2 = ExQ.e1.i0 ∧ ExQ.e0.maxlen ≤ ExQ.e1.maxlen :=
  ⟨_, rfl, rfl, by decide, by decide, by decide, rfl, by decide⟩

/-! ## Audit pass 2026-09-30: the engine hypothesis of the membership theorems, dead statuses, QuanTIS + λ₋₁ -/

/-- **the in-process engines offer `path.maxlen` frames.**  The loop of `ASEEngine._propagate_from`
    (`range(subcycles * maxlen)`, a frame when `i % subcycles == 0`) offers exactly `maxlen` frames, that of
    `TurtleMDEngine._propagate_from` (`subcycles * maxlen + 1` iterations) `maxlen` or `maxlen + 1` — never fewer.
    This is the hypothesis "the MD program does not end before the length limit" of `swap_members` /
    `quantis_swap_members`, and the engines meet it with ZERO slack: `maxlen1 ≤ inprocSteps sub (maxlen1 − 1) ase + 2`
    holds with equality for ASE (`swap_members_short_engine_counterexample`: one frame fewer and a truncated piece is
    accepted).  The tie counts the frames the real engines offer (`inprocframes`) and sweeps the limit through the
    untruncated lengths with both real engines (harness/props/c11_real.py). -/
theorem inproc_offers_maxlen (sub maxlen : Nat) (ase : Bool) (hsub : 0 < sub) :
    maxlen ≤ inprocOffered sub maxlen ase ∧ inprocOffered sub maxlen ase ≤ maxlen + 1 ∧
      (ase = true → inprocOffered sub maxlen ase = maxlen) ∧
      maxlen + 1 ≤ inprocSteps sub maxlen ase + 2 :=
  ⟨(inprocOffered_bounds sub maxlen ase hsub).1, (inprocOffered_bounds sub maxlen ase hsub).2.1,
   (inprocOffered_bounds sub maxlen ase hsub).2.2, by
     have := (inprocOffered_bounds sub maxlen ase hsub).1
     unfold inprocSteps; omega⟩

example : inprocOffered 5 7 true = 7 ∧ inprocOffered 5 7 false = 8 ∧ inprocSteps 4 9 true = 8 ∧
    inprocFill 5 7 true = some (7, false) ∧ inprocFill 3 4 false = some (4, false) := by decide

/-- **ensemble membership between two in-process engines — no hypothesis on the MD program left.**
    `swap_members` with the engine hypothesis discharged by the engines' own loop bound: for any deterministic
    dynamics `D` run by ASE (`ase = true`) or TurtleMD with any `subcycles ≥ 1`, an accepted `retis_swap_zero` of valid
    old paths (`maxlen0 ≤ maxlen1`, ordered [0-] interfaces, shared λ0) yields valid members, strictly shorter than
    the limits. -/
theorem swap_members_inproc (D : Dyn) (sub : Nat) (ase : Bool) (hsub : 0 < sub)
    {e0 e1 : Ens} {old0 old1 : List Frame} {xi : Rat} {r : Result}
    (h : retisSwapZeroInproc D.step D.opf D.vf sub ase e0 e1 old0 old1 xi = .ok r) (ha : r.accept = true)
    (hm : e0.maxlen ≤ e1.maxlen)
    (hord : e0.i0 ≤ e0.i1 ∧ e0.i0 ≤ e0.i2) (hlam : e0.i2 = e1.i0)
    (hv0 : ValidMinus e0 old0) (hv1 : ValidPlus e1 old1) :
    ValidMinus e0 r.path0 ∧ ValidPlus e1 r.path1 ∧
      r.path0.length < e0.maxlen ∧ r.path1.length < e1.maxlen := by
  unfold retisSwapZeroInproc at h
  obtain ⟨first1, last0, _, _, h'⟩ := detV_unfold h ha
  have hn := inprocSteps_enough sub e1.maxlen ase hsub
  exact swap_members h' ha hm (by simp only [detScriptV, orbitV_length]; exact hn)
    (by simp only [detScriptV, orbitV_length]; exact hn) hord hlam hv0 hv1

namespace Short
/-- a dynamics that drifts to the left: x ↦ x − 1, order parameter x -/
def D : Dyn := { step := fun c => ⟨c.x - 1, c.v⟩, opf := (·.x), vf := fun _ => none }
def fr (x : Int) : Frame := { op := x, cfg := ⟨x, 0⟩, vr := false, vpot := none }
def e0 : Ens := { i0 := -50, i1 := 0, i2 := 0, maxlen := 6, scL := false, scR := true, wf := false, cap := none }
def e1 : Ens := { i0 := 0, i1 := 1, i2 := 3, maxlen := 6, scL := true, scR := false, wf := false, cap := none }
def old0 : List Frame := [fr 1, fr (-1), fr 1]
def old1 : List Frame := [fr (-1), fr 1, fr 4]
end Short

/-- **the engine hypothesis has no slack.**  Valid old paths, `maxlen0 = maxlen1 = 6`, a dynamics that drifts left
    from the first frame of the old [0+] path and never comes back: with the ASE loop bound the backward piece fills
    its path of 5 frames, the new [0-] path has 6 = `maxlen0` frames and the swap is rejected 'BTX'; an engine that
    offers ONE frame fewer (`inprocSteps − 1` steps: seeded change C11-r5-mut2) leaves 4 frames, the new [0-] path
    `-4 -3 -2 -1 1` has 5 ≠ `maxlen0` frames and is ACCEPTED although it starts inside the state (left of λ0 = 0),
    never having crossed. -/
theorem swap_members_short_engine_counterexample :
    (retisSwapZeroInproc Short.D.step Short.D.opf Short.D.vf 1 true Short.e0 Short.e1 Short.old0 Short.old1 0).toOption.map
        (fun r => (r.accept, r.status)) = some (false, .BTX) ∧
    (retisSwapZeroDetV Short.D.step Short.D.opf Short.D.vf (inprocSteps 1 (Short.e1.maxlen - 1) true - 1)
        Short.e0 Short.e1 Short.old0 Short.old1 0).toOption.map (fun r => (r.accept, ops r.path0, ops r.path1)) =
      some (true, [-4, -3, -2, -1, 1], [-1, 1, 0, -1]) ∧
    Short.e0.maxlen ≤ Short.e1.maxlen ∧ ValidMinus Short.e0 Short.old0 ∧ ValidPlus Short.e1 Short.old1 ∧
    (∀ p : List Frame, ops p = [-4, -3, -2, -1, 1] → ¬ ValidMinus Short.e0 p) := by
  refine ⟨by decide, by decide, by decide, ?_, ?_, ?_⟩
  · exact ⟨Short.fr 1, [Short.fr (-1)], Short.fr 1, rfl, by simp, Or.inl (by decide), by decide, by decide, by decide⟩
  · exact ⟨Short.fr (-1), [Short.fr 1], Short.fr 4, rfl, by simp, by decide, by decide, by decide, by decide⟩
  · rintro p hp ⟨f, mid, l, rfl, _, hf, _, _, _⟩
    have hf' : f.op = -4 := by
      simp only [ops, List.map_cons, List.cons_append, List.cons.injEq] at hp
      exact hp.1
    rcases hf with h1 | ⟨h2, _⟩
    · rw [hf'] at h1; revert h1; decide
    · revert h2; decide

/-- the hypotheses of `swap_members_inproc` on the integer leap-frog engine run with the ASE loop bound -/
example : ∃ r, retisSwapZeroInproc (dwDyn 64 64).step (dwDyn 64 64).opf (dwDyn 64 64).vf 3 true ExDet.e0 ExDet.e1
      ExDet.old0 ExDet.old1 0 = .ok r ∧ r.accept = true ∧ ops r.path0 = [-4, -10, -6] ∧
    ExDet.e0.maxlen ≤ ExDet.e1.maxlen ∧ (ExDet.e0.i0 ≤ ExDet.e0.i1 ∧ ExDet.e0.i0 ≤ ExDet.e0.i2) ∧ ExDet.e0.i2 = ExDet.e1.i0 :=
  ⟨_, rfl, rfl, rfl, by decide, by decide, rfl⟩

/-- **three of the fourteen QuanTIS statuses are dead.**  For well-formed old paths no input makes
    `quantis_swap_zero` return 'QR*', 'QLR' or '0+R': `start_cond1` was checked to be "L" before; the start of the
    forward completion is the frame that passed the one-step crossing (strictly right of λ0); the new [0+] path starts
    with the [0-] shooting frame (strictly left of λ0).  (They guard against an engine that re-computes a different
    order value for a configuration it is handed — outside the model: frame 0 of a trajectory carries the order value of
    the system it was started from.)  With `quantis_status_table`: eleven statuses are possible. -/
theorem quantis_dead_statuses {e0 e1 : Ens} {pre0 rest1 : List Frame} {sp1 last sp0 : Frame}
    {scA scB scC scD : Script} {aa : Bool} {b0 b1 xi p : Rat} {r : Result}
    (h : quantisSwapZero e0 e1 (pre0 ++ [sp1, last]) (sp0 :: rest1) scA scB scC scD aa b0 b1 xi p = .ok r) :
    r.status ≠ .QRS ∧ r.status ≠ .QLR ∧ r.status ≠ .ZR := by
  obtain ⟨_, _, _, hdr, _, _, _⟩ := quantis_status_table h
  by_cases hd : r.draws = 1
  · obtain ⟨v0r0, v0r1, v1r1, v1r0, g0, g1, hv1, hA, hv0, hB, hg0, hg1, _, _, _⟩ := quantis_energy_rule_frames h hd
    obtain ⟨_, _, hl0, hl1, _, _⟩ := (quantis_input_table h).2.2.2.2.mp hd
    obtain ⟨_, _, _, _, cE⟩ := quantisPre_cases e0 pre0 rest1 sp1 last sp0 scA scB b0 b1
    obtain ⟨hok, _⟩ := cE g0 g1 v0r0 v1r1 hv1 hv0 hl0 hl1 hg0 hg1
    have hP := hok v0r1 v1r0 hA hB
    have hx1 : g1.op > e0.i2 := by
      unfold oneStep at hg1
      split at hg1
      · cases hg1
      · split at hg1
        · split at hg1
          · rename_i hh; simp only [Option.some.injEq] at hg1; rw [← hg1]; exact hh
          · cases hg1
        · cases hg1
    unfold quantisSwapZero at h
    simp only [hP] at h
    split at h
    · unfold quantisComplete at h
      split at h
      · cases h
      · rename_i a st p0 p1 s0 s1 w rq hc
        simp only [Except.ok.injEq] at h
        subst h
        have hf1 : (startFrame sp1 scB).op ≤ e0.i2 := by show sp1.op ≤ e0.i2; omega
        have hg1' : ¬ (genFrame g1 false).op < e0.i2 := by show ¬ g1.op < e0.i2; omega
        exact core_dead hc hf1 hg1'
    · simp only [Except.ok.injEq] at h
      subst h
      simp [qres]
  · have hc : r.status = .QNE ∨ r.status = .QLL ∨ r.status = .QS0 ∨ r.status = .QS1 := by
      by_cases hcc : r.status = .QNE ∨ r.status = .QLL ∨ r.status = .QS0 ∨ r.status = .QS1
      · exact hcc
      · rw [if_neg hcc] at hdr; exact absurd hdr hd
    rcases hc with hc | hc | hc | hc <;> simp [hc]

/-- non-vacuity: the accepted QuanTIS swap of `ExQ` is well-formed input of `quantis_dead_statuses` -/
example : ∃ r, quantisSwapZero ExQ.e0 ExQ.e1 ([ExQ.fr 1 100 1 100, ExQ.fr (-1) 101 1 101] ++ [ExQ.fr (-2) 102 1 102, ExQ.fr 1 103 1 103])
      (ExQ.fr (-1) 200 1 400 :: [ExQ.fr 1 201 1 402, ExQ.fr 2 202 1 404, ExQ.fr 4 203 1 406])
      ExQ.scA ExQ.scB ExQ.scC ExQ.scD false 1 1 0 1 = .ok r ∧ r.status = .ACC := ⟨_, rfl, rfl⟩

namespace Lm1Q
def fr (o x : Int) : Frame := { op := o, cfg := ⟨x, 1⟩, vr := false, vpot := some 0 }
def g (o x : Int) : GenFrame := { op := o, cfg := ⟨x, 3⟩, vpot := some 0 }
/-- the λ₋₁ variant: interfaces of [0-] are (λ₋₁, ·, λ0) = (-3, -2, 0), both start sides allowed -/
def e0 : Ens := { i0 := -3, i1 := -2, i2 := 0, maxlen := 8, scL := true, scR := true, wf := false, cap := none }
def e1 : Ens := { i0 := 0, i1 := 1, i2 := 3, maxlen := 8, scL := true, scR := false, wf := false, cap := none }
/-- a [0-] path that ENDED ON THE LEFT (last frame -4 ≤ λ₋₁) -/
def old0 : List Frame := [fr 1 100, fr (-1) 101, fr (-2) 102, fr (-4) 103]
def old1 : List Frame := [fr (-1) 200, fr 1 201, fr 2 202, fr 4 203]
def scA : Script := ⟨some 0, [g 1 500]⟩
def scB : Script := ⟨some 0, [g 1 600]⟩
def scC : Script := ⟨some 0, [g (-2) 300, g 1 301, g 1 302, g 1 303, g 1 304, g 1 305]⟩
def scD : Script := ⟨some 0, [g 2 400, g 1 401, g (-1) 402, g 1 403, g 1 404, g 1 405]⟩
end Lm1Q

/-- **`quantis_swap_zero` has no λ₋₁ early reject.**  Same ensemble settings and the same [0-] path that ended on
    the left for which `retis_swap_zero` answers '0-L' without asking the engines anything
    (`lambda_minus_one_left_rejected`): `quantis_swap_zero` propagates four times and ACCEPTS.  A statement about the
    move function alone: `check_config` excludes the combination ("Cannot run quantis with lambda_minus_one!",
    `quantis_runs_without_lm1`); until fix b3eda5b it tested `if quantis and lambda_minus_one:` and a λ₋₁ of 0.0,
    being falsy, passed (known_findings: C11:quantis-lm1-left-not-rejected-early, fixed). -/
theorem quantis_lm1_left_not_rejected_counterexample :
    (Lm1Q.e0.scL = true ∧ Lm1Q.e0.scR = true) ∧ Lm1Q.old0.getLast? = some (Lm1Q.fr (-4) 103) ∧
      (Lm1Q.fr (-4) 103).op ≤ Lm1Q.e0.i0 ∧
    (∃ r, retisSwapZero Lm1Q.e0 Lm1Q.e1 Lm1Q.old0 Lm1Q.old1 Lm1Q.scC Lm1Q.scD 0 = .ok r ∧ r.status = .ZL ∧ r.reqs = []) ∧
    (∃ r, quantisSwapZero Lm1Q.e0 Lm1Q.e1 Lm1Q.old0 Lm1Q.old1 Lm1Q.scA Lm1Q.scB Lm1Q.scC Lm1Q.scD false 1 1 0 1 = .ok r ∧
      r.accept = true ∧ r.reqs.length = 4 ∧ ops r.path0 = [1, -2, -1, 1] ∧ ops r.path1 = [-2, 1, 2, 1, -1]) :=
  ⟨by decide, rfl, by decide, ⟨_, rfl, rfl, rfl⟩, ⟨_, rfl, rfl, rfl, rfl, rfl⟩⟩

/-- **QuanTIS never runs with λ₋₁** (the precondition under which the QuanTIS theorems are the property's clauses; cf.
    `quantis_lm1_left_not_rejected_counterexample` for the move function alone).  `check_config` rejects QuanTIS together
    with ANY λ₋₁ value — 0 included (fix b3eda5b) —, so a configuration that passes with QuanTIS has no λ₋₁, its [0-]
    ensemble gets `start_cond = "R"`, and the λ₋₁ condition ("`start_cond` = {L, R} and the path ended on the left")
    is false for every [0-] path: the property's λ₋₁ clause has nothing to say about a QuanTIS run. -/
theorem quantis_runs_without_lm1 :
    (∀ v : Rat, configRejectsQuantisLm1 true (some v) = true) ∧
    (∀ lm1, configRejectsQuantisLm1 true lm1 = false →
      lm1 = none ∧ zeroMinusStartCond lm1 = (false, true) ∧
      ∀ (e0 : Ens) (last0 : Frame), (e0.scL, e0.scR) = zeroMinusStartCond lm1 → earlyLeft e0 last0 = false) ∧
    (∀ lm1, configRejectsQuantisLm1 false lm1 = false) := by
  refine ⟨fun v => rfl, ?_, fun lm1 => rfl⟩
  intro lm1 h
  cases lm1 with
  | some v => simp [configRejectsQuantisLm1] at h
  | none =>
    refine ⟨rfl, rfl, ?_⟩
    intro e0 last0 hsc
    simp only [zeroMinusStartCond, Option.isSome_none, Bool.false_eq_true, if_false, Prod.mk.injEq] at hsc
    simp [earlyLeft, hsc.1]

/-- the ensemble of `Lm1Q` (both start sides) is exactly what a QuanTIS configuration cannot produce; the λ₋₁ ensemble of
    the retis examples comes from `zeroMinusStartCond (some _)` -/
example : zeroMinusStartCond (some (-3)) = (Lm1Q.e0.scL, Lm1Q.e0.scR) ∧ configRejectsQuantisLm1 true (some 0) = true ∧
    zeroMinusStartCond none = (Ex.e0.scL, Ex.e0.scR) ∧ configRejectsQuantisLm1 true none = false :=
  ⟨rfl, rfl, rfl, rfl⟩

end Infretis.C11
