import Infretis.Lemmas.EngineLoopsPath
import Infretis.Lemmas.EnginePropagate
import Infretis.Lemmas.EngineLoopsLimit
import Infretis.Lemmas.EngineFault
/-!
# C12 — every engine returns the trajectory it actually ran

Property theorems only.  Models: `Infretis/Model/AddToPath.lean` (`add_to_path`, shared) and
`Infretis/Model/EngineLoops.lean` (`_propagate_from` of LAMMPS/CP2K = `extRun`, ASE/TurtleMD = `inproc`,
GROMACS = `gmxRun`), `Infretis/Model/EnginePropagate.lean` (the `propagate` wrapper, `execute_command`,
`calculate_order`, `snapshot_to_system`, whole-`propagate` compositions; last section of this file).
Lemmas: `Infretis/Lemmas/EngineLoops{Feed,Ext,Inproc,Path}.lean`, `Infretis/Lemmas/EnginePropagate.lean`.

All loop theorems hold for EVERY schedule `sched : Nat → World` of the external program (which frames are
visible and whether the process is alive at each `sleep`/`poll` of the engine), every exit code, frame list,
interfaces, length limit, and every amount of fuel (`Err.fuel` = the code would still be looping).

Findings re-established here:
* `lammps_frame_uses_own_box` was FALSE for the code as found (`Variant.asIs`, lammps.py:499
  `box_trajectory.pop()`): `lammps_frame_uses_own_box_counterexample`; it holds under the guards of
  `lammps_frame_uses_own_box_partial` and, at full strength, for `Variant.repaired` (`pop(0)`), which is what
  /repo does since commit d3f25c6 (the tie now agrees with `repaired` only; the witness lives in corpus/C12).
* `success_iff_outside` is stated at full strength since `add_to_path` was repaired (f955162).
* GROMACS hands the order function the file velocity also for backward paths (negated twice:
  gromacs.py:520 `system.vel *= -1` for `reverse`, then `calculate_order` negates again because
  `system.vel_rev = reverse`): `gromacs_velocity_direction_counterexample`.  CONFIRMED on the real
  `GromacsEngine` through fake gmx (tie signature `C12:gromacs:velocity-direction`); every other engine hands
  over `-v` on backward paths.  Repaired in /repo by f551f52; `gromacs_frame_uses_own_box_and_velocity` is the
  full theorem for the repaired loop, which is what the tie agrees with now.
* CP2K never reads a box from the program's output: `cp2k_frame_uses_own_box_partial` needs a constant box
  (documented NVT-only limitation of the engine).
* LAMMPS and CP2K left the MD program RUNNING when an exception left the polling loop's body (order function raising
  on a frame, `OSError` of `write_xyz_trajectory`, `KeyboardInterrupt` in `sleep`): record
  `body_exception_leaves_program_running_counterexample` (`Guard.asIs`, realistic length limit, CONFIRMED on the real
  engines with fake lmp / fake cp2k; tie signatures `C12:lammps|cp2k:program-left-running-after-exception`).  Repaired in
  /repo (`except BaseException: … killpg; wait; raise` around the loops = `Guard.guarded`, what the tie agrees with now):
  `guarded_program_stopped_on_every_exception` is the full theorem for the code as it is
  (`program_stopped_unless_body_exception_partial` = what held before; last section).
-/
namespace Infretis.C12
open Infretis.Engine Infretis.EngineLoops

/-! ### `add_to_path` / `feed`: any stream of order values -/

/-- **First frame.** Propagating into an empty path (limit ≠ 0) records the start value first. -/
theorem first_frame_is_start (l r : Int) (ml : Option Nat) (hml : ml ≠ some 0) (x : Int) (t ops : List Int)
    (succ : Bool) (k : Nat) (h : feed l r ml [] (x :: t) 0 = some (ops, succ, k)) : ops.head? = some x := by
  have hfit : ∀ m, ml = some m → ([] : List Int).length < m := by
    intro m hm; cases m with
    | zero => exact absurd hm hml
    | succ m => simp
  obtain ⟨n, _, hn, hops, _, hend⟩ := feed_spec l r ml (x :: t) [] 0 ops succ k hfit h
  have hpos : 0 < n := by
    rcases hend with ⟨h1, _⟩ | ⟨_, h1, _⟩
    · simp at h1; omega
    · exact h1
  cases n with
  | zero => omega
  | succ n => simp [hops]

example : feed 0 8 (some 5) [] [3, 4, 9, 1] 0 = some ([3, 4, 9], true, 3) ∧ (some 5 : Option Nat) ≠ some 0 := by decide

/-- **Stop rule.** `feed` records exactly the prefix of the stream up to and including the FIRST value that is
    outside `[l, r]` or that brings the path length to `maxlen` (or the whole stream if there is none). -/
theorem stops_at_first_outside_or_limit (l r : Int) (ml : Option Nat) (stream ops0 ops : List Int) (succ : Bool)
    (k : Nat) (hfit : ∀ m, ml = some m → ops0.length < m)
    (h : feed l r ml ops0 stream 0 = some (ops, succ, k)) :
    k ≤ stream.length ∧ ops = ops0 ++ stream.take k ∧
    (∀ i x, i + 1 < k → stream[i]? = some x → l ≤ x ∧ x ≤ r ∧ ml ≠ some (ops0.length + i + 1)) ∧
    ((k = stream.length ∧ ∀ i x, stream[i]? = some x → l ≤ x ∧ x ≤ r ∧ ml ≠ some (ops0.length + i + 1)) ∨
     (∃ x, 0 < k ∧ stream[k - 1]? = some x ∧ (x < l ∨ x > r ∨ ml = some (ops0.length + k)))) := by
  obtain ⟨n, hk, hn, hops, hin, hend⟩ := feed_spec l r ml stream ops0 0 ops succ k hfit h
  have : k = n := by omega
  subst this
  refine ⟨hn, hops, hin, ?_⟩
  rcases hend with ⟨h1, _, h3⟩ | ⟨x, h1, h2, h3, _⟩
  · exact Or.inl ⟨h1, h3⟩
  · exact Or.inr ⟨x, h1, h2, h3⟩

example : feed 0 8 (some 3) [] [3, 4, 5, 9] 0 = some ([3, 4, 5], false, 3) := by decide

/-- **Success rule, full strength** (after the repair f955162 of `add_to_path`): success iff the frame that
    ended propagation is outside the interfaces — also when it is the last admissible frame.  Propagation that
    ends at the length limit (or because the stream ended) with an inside frame reports no success. -/
theorem success_iff_outside (l r : Int) (ml : Option Nat) (stream ops0 ops : List Int)
    (succ : Bool) (k : Nat) (hfit : ∀ m, ml = some m → ops0.length < m)
    (h : feed l r ml ops0 stream 0 = some (ops, succ, k)) :
    succ = true ↔ ∃ x, 0 < k ∧ stream[k - 1]? = some x ∧ (x < l ∨ x > r) := by
  obtain ⟨n, hk, hn, hops, hin, hend⟩ := feed_spec l r ml stream ops0 0 ops succ k hfit h
  have : k = n := by omega
  subst this
  rcases hend with ⟨h1, h2, h3⟩ | ⟨x, h1, h2, _, h4⟩
  · constructor
    · intro hs; rw [h2] at hs; cases hs
    · rintro ⟨x, hpos, hx, hout⟩
      have := h3 _ x hx
      omega
  · constructor
    · intro hs; exact ⟨x, h1, h2, h4.1 hs⟩
    · rintro ⟨y, _, hy, hout⟩
      rw [h2] at hy
      cases hy
      exact h4.2 hout

/-- the crossing value 9 arrives as frame number `maxlen = 2`: stop AND success; an inside value at the
    limit: stop without success -/
example : feed 0 8 (some 2) [] [1, 9] 0 = some ([1, 9], true, 2) ∧
    feed 0 8 (some 2) [] [1, 5, 9] 0 = some ([1, 5], false, 2) := by decide

/-! ### LAMMPS and CP2K: every schedule -/

/-- **Frames in order, each once (LAMMPS, both variants; CP2K).** The path's `k`-th frame refers to index `k`
    of the trajectory file, was computed from the coordinates and the velocity (with the `vel_rev` sign) of the
    `k`-th frame the program wrote, and its stored order is the order function of exactly these inputs and of
    the box the entry names. -/
theorem frames_in_order_once (kind : Kind) (c : Cfg) (sched : Sched) (code : Int) (frames : List Frame) (fuel : Nat)
    (k : Nat) (hk : k < (extRun kind c sched code frames fuel).es.length) :
    ∃ f, frames[k]? = some f ∧
      ((extRun kind c sched code frames fuel).es[k]).idx = k ∧
      ((extRun kind c sched code frames fuel).es[k]).cid = f.cid ∧
      ((extRun kind c sched code frames fuel).es[k]).vel = velSeen c.rev f.vel ∧
      ((extRun kind c sched code frames fuel).es[k]).order
        = c.ord f.cid ((extRun kind c sched code frames fuel).es[k]).bid (velSeen c.rev f.vel) := by
  obtain ⟨f, b, h1, h2, _⟩ := extRun_rec kind c sched code frames fuel k hk
  exact ⟨f, h1, by rw [h2]; rfl, by rw [h2]; rfl, by rw [h2]; rfl, by rw [h2]; rfl⟩

/-- **Own box — full theorem for the repaired pairing (`box_trajectory.pop(0)`).** -/
theorem lammps_frame_uses_own_box (c : Cfg) (sched : Sched) (code : Int) (frames : List Frame) (fuel : Nat)
    (k : Nat) (hk : k < (extRun (.lammps .repaired) c sched code frames fuel).es.length) :
    ∃ f, frames[k]? = some f ∧
      (extRun (.lammps .repaired) c sched code frames fuel).es[k] = mkEntry c k f.cid f.bid f.vel := by
  obtain ⟨f, b, h1, h2, h3⟩ := extRun_rec (.lammps .repaired) c sched code frames fuel k hk
  have : b = f.bid := h3.1 rfl
  subst this
  exact ⟨f, h1, h2⟩

/-- a concrete schedule for the examples: the file holds `vis t` frames at tick `t`, the program ends at tick `die` -/
def demoSched (vis : Nat → Nat) (die : Nat) : Sched :=
  fun t => { file := true, vis := vis t, vis2 := vis t, alive := decide (t < die) }

/-- order function of the witness: distance `cid` in a periodic box `bid` (minimum image on integers) -/
def demoOrd (cid bid : Nat) (_v : Int) : Int :=
  if 2 * cid > bid then (bid : Int) - cid else cid

def demoCfg : Cfg := { ord := demoOrd, left := 0, right := 8, maxlen := 20, rev := false }

/-- six frames, boxes 10…20, distance 9 in the last one (own box 20 → order 9 > 8: a crossing) -/
def demoFrames : List Frame :=
  [⟨1, 10, 1⟩, ⟨2, 12, 1⟩, ⟨2, 14, 1⟩, ⟨3, 16, 1⟩, ⟨3, 18, 1⟩, ⟨9, 20, 1⟩]

/-- three frames per poll: visible from tick 0, the rest from tick 4 (second read), exit at tick 8 -/
def demoVis (t : Nat) : Nat := if t < 4 then 3 else 6

example : (extRun (.lammps .repaired) demoCfg (demoSched demoVis 8) 0 demoFrames 50).es.map (·.order)
      = [1, 2, 2, 3, 3, 9] ∧
    (extRun (.lammps .repaired) demoCfg (demoSched demoVis 8) 0 demoFrames 50).success = true := by
  decide +kernel

/-- **The full statement is FALSE for the code as it is** (`box_trajectory.pop()`, the LAST box of the poll):
    with three frames arriving per poll and a varying box, the last frame (distance 9 in its own box 20 → order 9,
    beyond the right interface 8) is evaluated with the box 16 of another frame → order 7: the crossing is missed,
    propagation returns without success.  Signature in the tie: `C12:lammps:box-paired-with-last`. -/
theorem lammps_frame_uses_own_box_counterexample :
    let R := extRun (.lammps .asIs) demoCfg (demoSched demoVis 8) 0 demoFrames 50
    R.raised = none ∧ R.es.map (·.bid) = [14, 12, 10, 20, 18, 16] ∧ R.es.map (·.order) = [1, 2, 2, 3, 3, 7] ∧
    R.success = false ∧
    ¬ (∀ k (hk : k < R.es.length), ∃ f, demoFrames[k]? = some f ∧ R.es[k] = mkEntry demoCfg k f.cid f.bid f.vel) := by
  refine ⟨by decide +kernel, by decide +kernel, by decide +kernel, by decide +kernel, ?_⟩
  intro h
  obtain ⟨f, hf, he⟩ := h 5 (by decide +kernel)
  have hf' : f = ⟨9, 20, 1⟩ := by
    have : demoFrames[5]? = some ⟨9, 20, 1⟩ := by decide
    rw [this] at hf; exact (Option.some.inj hf).symm
  subst hf'
  revert he
  decide +kernel

/-- **Own box for the code as it is, under exactly the guards that exclude the defect**: the box never changes,
    or no poll ever delivered two frames at once. -/
theorem lammps_frame_uses_own_box_partial (c : Cfg) (sched : Sched) (code : Int) (frames : List Frame) (fuel : Nat)
    (hguard : (∃ b0, ∀ f, f ∈ frames → f.bid = b0) ∨
              (extRun (.lammps .asIs) c sched code frames fuel).multi = false)
    (k : Nat) (hk : k < (extRun (.lammps .asIs) c sched code frames fuel).es.length) :
    ∃ f, frames[k]? = some f ∧
      (extRun (.lammps .asIs) c sched code frames fuel).es[k] = mkEntry c k f.cid f.bid f.vel := by
  obtain ⟨f, b, h1, h2, h3⟩ := extRun_rec (.lammps .asIs) c sched code frames fuel k hk
  have hb : b = f.bid := by
    rcases hguard with ⟨b0, hb0⟩ | hm
    · obtain ⟨f', hf', hbf'⟩ := h3.2.2
      have hfm : f ∈ frames := List.mem_of_getElem? h1
      rw [hbf', hb0 f' hf', hb0 f hfm]
    · exact h3.2.1 hm
  subst hb
  exact ⟨f, h1, h2⟩

example : (extRun (.lammps .asIs) demoCfg (demoSched (fun t => t / 3) 30) 0 demoFrames 50).multi = false ∧
    (extRun (.lammps .asIs) demoCfg (demoSched (fun t => t / 3) 30) 0 demoFrames 50).success = true := by
  decide +kernel

/-- **CP2K pairs the k-th position frame with the k-th velocity frame**, however the two files advance;
    the box is the one read before the run. -/
theorem cp2k_pairs_position_with_own_velocity (box0 : Nat) (c : Cfg) (sched : Sched) (code : Int)
    (frames : List Frame) (fuel : Nat)
    (k : Nat) (hk : k < (extRun (.cp2k box0) c sched code frames fuel).es.length) :
    ∃ f, frames[k]? = some f ∧
      (extRun (.cp2k box0) c sched code frames fuel).es[k] = mkEntry c k f.cid box0 f.vel := by
  obtain ⟨f, b, h1, h2, h3⟩ := extRun_rec (.cp2k box0) c sched code frames fuel k hk
  have : b = box0 := h3
  subst this
  exact ⟨f, h1, h2⟩

/-- own box for CP2K only when the box is constant (the engine reads no box from CP2K's output) -/
theorem cp2k_frame_uses_own_box_partial (box0 : Nat) (c : Cfg) (sched : Sched) (code : Int)
    (frames : List Frame) (fuel : Nat) (hconst : ∀ f, f ∈ frames → f.bid = box0)
    (k : Nat) (hk : k < (extRun (.cp2k box0) c sched code frames fuel).es.length) :
    ∃ f, frames[k]? = some f ∧
      (extRun (.cp2k box0) c sched code frames fuel).es[k] = mkEntry c k f.cid f.bid f.vel := by
  obtain ⟨f, h1, h2⟩ := cp2k_pairs_position_with_own_velocity box0 c sched code frames fuel k hk
  refine ⟨f, h1, ?_⟩
  rw [h2, hconst f (List.mem_of_getElem? h1)]

/-- positions one frame ahead of velocities at every poll; still paired frame by frame -/
example : (extRun (.cp2k 30) { demoCfg with rev := true }
      (fun t => { file := true, vis := t / 2 + 1, vis2 := t / 2, alive := decide (t < 20) }) 0
      [⟨1, 30, 5⟩, ⟨2, 30, -6⟩, ⟨9, 30, 7⟩] 50).es.map (fun e => (e.idx, e.cid, e.vel))
    = [(0, 1, -5), (1, 2, 6), (2, 9, -7)] := by
  decide +kernel

/-- **The external program is stopped when propagation ends** (return or RuntimeError). -/
theorem program_stopped_on_return (kind : Kind) (c : Cfg) (sched : Sched) (code : Int) (frames : List Frame)
    (fuel : Nat)
    (h : (extRun kind c sched code frames fuel).raised = none ∨
         (extRun kind c sched code frames fuel).raised = some .runtime) :
    (extRun kind c sched code frames fuel).dead = true :=
  extRun_program_stopped kind c sched code frames fuel h

/-- **A non-zero exit code raises** — unless `add_to_path` had said stop (then `*_was_terminated` is set and the
    path is complete; note the code sets the flag even when no signal had to be sent). -/
theorem nonzero_exit_raises (kind : Kind) (c : Cfg) (sched : Sched) (code : Int) (frames : List Frame) (fuel : Nat)
    (hcode : code ≠ 0) (h : (extRun kind c sched code frames fuel).raised = none) :
    (extRun kind c sched code frames fuel).terminated = true :=
  extRun_nonzero_exit kind c sched code frames fuel hcode h

/-- the program dies with code 3 after two harmless frames: RuntimeError, program known dead -/
example : (extRun (.lammps .asIs) demoCfg (demoSched (fun _ => 2) 3) 3 demoFrames 50).raised = some .runtime ∧
    (extRun (.lammps .asIs) demoCfg (demoSched (fun _ => 2) 3) 3 demoFrames 50).dead = true ∧
    (3 : Int) ≠ 0 := by
  decide +kernel

/-- exit code 3 but the crossing had been found first: no raise, flag set -/
example : (extRun (.lammps .repaired) demoCfg (demoSched (fun _ => 6) 3) 3 demoFrames 50).raised = none ∧
    (extRun (.lammps .repaired) demoCfg (demoSched (fun _ => 6) 3) 3 demoFrames 50).terminated = true := by
  decide +kernel

/-! ### ASE / TurtleMD -/

/-- **In-process engines: the k-th frame is the system after k·subcycles steps**, with its own coordinates,
    box and velocity direction, for every dynamics, subcycles ≥ 1, interfaces and limit. -/
theorem inproc_frame_is_own_sample (c : Cfg) (sub : Nat) (hsub : 0 < sub) (micro : Nat → Frame) (ase : Bool)
    (k : Nat) (hk : k < (inproc c sub micro ase).es.length) :
    (inproc c sub micro ase).es[k]
      = mkEntry c k (micro (k * sub)).cid (micro (k * sub)).bid (micro (k * sub)).vel :=
  inproc_sampled c sub hsub micro ase k hk

example : ((inproc demoCfg 3 (fun i => ⟨i, 100, 1⟩) true).es.map (·.cid)) = [0, 3, 6, 9] ∧ 0 < 3 := by
  decide +kernel

/-- **Backward propagation retraces the forward trajectory** for time-reversible dynamics: if the dynamics started
    from frame `N·sub` of the forward run with reversed velocity visits the forward states in reverse order
    (velocities negated), then the backward path's `k`-th frame has the coordinates, box, velocity direction and
    order parameter of the forward path's frame `N − k`. -/
theorem backward_retraces_forward (c : Cfg) (sub : Nat) (hsub : 0 < sub) (fw bw : Nat → Frame) (N : Nat) (ase : Bool)
    (hrev : ∀ i, i ≤ N * sub → bw i = { fw (N * sub - i) with vel := -(fw (N * sub - i)).vel })
    (k : Nat) (hkN : k ≤ N)
    (hb : k < (inproc { c with rev := true } sub bw ase).es.length)
    (hf : N - k < (inproc { c with rev := false } sub fw ase).es.length) :
    let eb := (inproc { c with rev := true } sub bw ase).es[k]
    let ef := (inproc { c with rev := false } sub fw ase).es[N - k]
    eb.cid = ef.cid ∧ eb.bid = ef.bid ∧ eb.vel = ef.vel ∧ eb.order = ef.order := by
  have h1 := inproc_sampled { c with rev := true } sub hsub bw ase k hb
  have h2 := inproc_sampled { c with rev := false } sub hsub fw ase (N - k) hf
  have hle : k * sub ≤ N * sub := Nat.mul_le_mul_right _ hkN
  have hidx : N * sub - k * sub = (N - k) * sub := (Nat.sub_mul N k sub).symm
  have hbw := hrev (k * sub) hle
  rw [hidx] at hbw
  simp only
  rw [h1, h2, hbw]
  simp [mkEntry, velSeen]

example : ((inproc { demoCfg with rev := true } 2 (fun i => ⟨6 - i, 100, -1⟩) true).es.take 4).map (·.order)
    = ((inproc { demoCfg with rev := false } 2 (fun i => ⟨i, 100, 1⟩) true).es.take 4).reverse.map (·.order) := by
  decide +kernel

/-! ### GROMACS (`gmxRun`: the consumer loop; `gmxExt`: with `GromacsRunner` at tick level, tied through fake gmx)

`Variant.asIs` = the code as found (gromacs.py:520-521 negate the velocities for `reverse`, `calculate_order`
negates again); `Variant.repaired` = those two lines deleted (/repo f551f52), what the tie now agrees with. -/

/-- **GROMACS through `GromacsRunner`, every schedule, exit code, `need0`, both variants**: the path's `k`-th frame
    is the `k`-th frame mdrun wrote — index, own coordinates, own box — the velocity is `gmxVel`. -/
theorem gromacs_runner_frames_in_order_once (gv : Variant) (c : Cfg) (sched : Sched) (code : Int) (need0 : Nat)
    (frames : List Frame) (fuel : Nat) (k : Nat) (hk : k < (gmxExt gv c sched code need0 frames fuel).es.length) :
    ∃ f, frames[k]? = some f ∧ (gmxExt gv c sched code need0 frames fuel).es[k] = gmxEntry gv c k f :=
  gmxExt_rec gv c sched code need0 frames fuel k hk

/-- **Own box and own velocity direction — full theorem for the repaired velocity handling**: the stored order is
    the order function of the frame's own coordinates, own box and `(-1)^vel_rev ·` its own velocity. -/
theorem gromacs_frame_uses_own_box_and_velocity (c : Cfg) (sched : Sched) (code : Int) (need0 : Nat)
    (frames : List Frame) (fuel : Nat) (k : Nat)
    (hk : k < (gmxExt .repaired c sched code need0 frames fuel).es.length) :
    ∃ f, frames[k]? = some f ∧
      (gmxExt .repaired c sched code need0 frames fuel).es[k] = mkEntry c k f.cid f.bid f.vel := by
  obtain ⟨f, h1, h2⟩ := gmxExt_rec .repaired c sched code need0 frames fuel k hk
  exact ⟨f, h1, by rw [h2]; rfl⟩

/-- backward run, one frame per poll, mdrun ends with code 0 at tick 30: each frame with its own box; the file
    velocities 5, -6, 7 reach the order function as -5, 6, -7 (repaired) … -/
example : (gmxExt .repaired { demoCfg with rev := true } (demoSched (fun t => t / 3) 30) 0 1
      [⟨1, 10, 5⟩, ⟨2, 12, -6⟩, ⟨9, 20, 7⟩] 60).es.map (fun e => (e.idx, e.bid, e.vel, e.order))
    = [(0, 10, -5, 1), (1, 12, 6, 2), (2, 20, -7, 9)] := by
  decide +kernel

/-- … and unchanged, as 5, -6, 7, in the code as found although `vel_rev = true` -/
example : (gmxExt .asIs { demoCfg with rev := true } (demoSched (fun t => t / 3) 30) 0 1
      [⟨1, 10, 5⟩, ⟨2, 12, -6⟩, ⟨9, 20, 7⟩] 60).es.map (fun e => (e.idx, e.bid, e.vel, e.order))
    = [(0, 10, 5, 1), (1, 12, -6, 2), (2, 20, 7, 9)] := by
  decide +kernel

/-- GROMACS consumer loop alone: frames in order, each once, with their own coordinates and box -/
theorem gromacs_frames_in_order_once (gv : Variant) (c : Cfg) (frames : List Frame) (k : Nat)
    (hk : k < (gmxRun gv c frames).es.length) :
    ∃ f, frames[k]? = some f ∧ (gmxRun gv c frames).es[k] = gmxEntry gv c k f :=
  gmxRun_rec gv c frames k hk

/-- **Record of the finding** (confirmed on the real engine before f551f52, tie signature
    `C12:gromacs:velocity-direction`): as found, the order function sees the file velocity also on backward paths,
    whereas every other engine — and the repaired loop — hands it `-v`. -/
theorem gromacs_velocity_direction_counterexample :
    (∀ rev v, gmxVel .asIs rev v = v) ∧ gmxVel .asIs true 1 ≠ velSeen true 1 ∧
    (∀ rev v, gmxVel .repaired rev v = velSeen rev v) :=
  ⟨gmxVelSeen_eq, by decide, fun _ _ => rfl⟩

example : (gmxRun .asIs { demoCfg with rev := true } [⟨1, 10, 5⟩, ⟨9, 20, 6⟩]).es.map (·.vel) = [5, 6] := by
  decide +kernel

/-- **GROMACS: any non-zero return code collected by `check_poll` raises RuntimeError** (exit codes and deaths by
    signal alike): a normal return with `code ≠ 0` is only possible after `add_to_path` had said stop — the path
    is complete, never silently truncated. -/
theorem gromacs_nonzero_exit_raises (gv : Variant) (c : Cfg) (sched : Sched) (code : Int) (hcode : code ≠ 0)
    (need0 : Nat) (frames : List Frame) (fuel : Nat)
    (h : (gmxExt gv c sched code need0 frames fuel).raised = none) :
    (gmxExt gv c sched code need0 frames fuel).terminated = true :=
  gmxExt_nonzero_exit gv c sched code hcode need0 frames fuel h

/-- **GROMACS: mdrun is terminated / collected whenever propagate returns or raises** (every outcome of the model
    except out-of-fuel = still looping).  `stop()` sends SIGTERM iff no return code had been collected
    (`killed := !dead && alive` in `gmxExt`), then waits. -/
theorem gromacs_program_stopped_on_return (gv : Variant) (c : Cfg) (sched : Sched) (code : Int) (need0 : Nat)
    (frames : List Frame) (fuel : Nat)
    (h : (gmxExt gv c sched code need0 frames fuel).raised ≠ some .fuel) :
    (gmxExt gv c sched code need0 frames fuel).dead = true :=
  gmxExt_program_stopped gv c sched code need0 frames fuel h

/-- mdrun is killed by SIGKILL (-9) after two inside frames: RuntimeError, process collected, nothing to kill;
    with the crossing frame seen first: normal return, flag set, SIGTERM sent -/
example : (gmxExt .repaired demoCfg (demoSched (fun _ => 2) 6) (-9) 1 demoFrames 60).raised = some .runtime ∧
    (gmxExt .repaired demoCfg (demoSched (fun _ => 2) 6) (-9) 1 demoFrames 60).dead = true ∧
    (gmxExt .repaired demoCfg (demoSched (fun _ => 6) 40) (-9) 1 demoFrames 60).raised = none ∧
    (gmxExt .repaired demoCfg (demoSched (fun _ => 6) 40) (-9) 1 demoFrames 60).terminated = true ∧
    (gmxExt .repaired demoCfg (demoSched (fun _ => 6) 40) (-9) 1 demoFrames 60).killed = true ∧ (-9 : Int) ≠ 0 := by
  decide +kernel

/-! ### every loop builds its path by `feed`: the stop and success rules transfer -/

/-- **`loop_path_eq_feed`, LAMMPS / CP2K, every schedule**: feeding the order values of the processed frames (=
    the path's entries, which by `frames_in_order_once` are the first frames written) through `add_to_path`
    reproduces the path, its success flag, and consumes all of them. -/
theorem lammps_cp2k_path_eq_feed (kind : Kind) (c : Cfg) (sched : Sched) (code : Int) (frames : List Frame)
    (fuel : Nat) :
    let R := extRun kind c sched code frames fuel
    feed c.left c.right (some c.maxlen) [] (R.es.map (·.order)) 0 = some (R.es.map (·.order), R.success, R.es.length) :=
  extRun_path_eq_feed kind c sched code frames fuel

theorem gromacs_path_eq_feed (gv : Variant) (c : Cfg) (sched : Sched) (code : Int) (need0 : Nat)
    (frames : List Frame) (fuel : Nat) :
    let R := gmxExt gv c sched code need0 frames fuel
    feed c.left c.right (some c.maxlen) [] (R.es.map (·.order)) 0 = some (R.es.map (·.order), R.success, R.es.length) :=
  gmxExt_path_eq_feed gv c sched code need0 frames fuel

theorem inproc_loop_path_eq_feed (c : Cfg) (sub : Nat) (micro : Nat → Frame) (ase : Bool) :
    let R := inproc c sub micro ase
    feed c.left c.right (some c.maxlen) [] (R.es.map (·.order)) 0 = some (R.es.map (·.order), R.success, R.es.length) :=
  inproc_path_eq_feed c sub micro ase

/-- the stop rule on a path: every frame but the last is inside the interfaces and below the limit; the last one
    is outside or at the limit — unless the frames simply ended (then all are inside and below the limit) -/
def StopRule (c : Cfg) (es : List Entry) : Prop :=
  (∀ i x, i + 1 < es.length → (es.map (·.order))[i]? = some x →
      c.left ≤ x ∧ x ≤ c.right ∧ i + 1 ≠ c.maxlen) ∧
  ((∀ i x, (es.map (·.order))[i]? = some x → c.left ≤ x ∧ x ≤ c.right ∧ i + 1 ≠ c.maxlen) ∨
   (∃ x, 0 < es.length ∧ (es.map (·.order))[es.length - 1]? = some x ∧
      (x < c.left ∨ x > c.right ∨ c.maxlen = es.length)))

/-- the success rule on a path: success iff its last frame is outside the interfaces -/
def SuccessRule (c : Cfg) (es : List Entry) (succ : Bool) : Prop :=
  succ = true ↔ ∃ x, 0 < es.length ∧ (es.map (·.order))[es.length - 1]? = some x ∧ (x < c.left ∨ x > c.right)

theorem path_stops_at_first_outside_or_limit (c : Cfg) (hm : 0 < c.maxlen) (es : List Entry) (succ : Bool)
    (h : feed c.left c.right (some c.maxlen) [] (es.map (·.order)) 0 = some (es.map (·.order), succ, es.length)) :
    StopRule c es := by
  obtain ⟨_, _, h3, h4⟩ := stops_at_first_outside_or_limit c.left c.right (some c.maxlen) (es.map (·.order)) []
    (es.map (·.order)) succ es.length (by intro m hm'; simp at hm'; subst hm'; simpa using hm) h
  refine ⟨?_, ?_⟩
  · intro i x hi hx
    obtain ⟨a, b, c'⟩ := h3 i x hi hx
    exact ⟨a, b, by intro e; apply c'; simp [e]⟩
  · rcases h4 with ⟨_, h5⟩ | ⟨x, h5, h6, h7⟩
    · left
      intro i x hx
      obtain ⟨a, b, c'⟩ := h5 i x hx
      exact ⟨a, b, by intro e; apply c'; simp [e]⟩
    · right
      refine ⟨x, h5, h6, ?_⟩
      rcases h7 with h7 | h7 | h7
      · exact Or.inl h7
      · exact Or.inr (Or.inl h7)
      · exact Or.inr (Or.inr (by simpa using h7))

theorem path_success_iff_outside (c : Cfg) (hm : 0 < c.maxlen) (es : List Entry) (succ : Bool)
    (h : feed c.left c.right (some c.maxlen) [] (es.map (·.order)) 0 = some (es.map (·.order), succ, es.length)) :
    SuccessRule c es succ := by
  unfold SuccessRule
  exact success_iff_outside c.left c.right (some c.maxlen) (es.map (·.order)) [] (es.map (·.order)) succ es.length
    (by intro m hm'; simp at hm'; subst hm'; simpa using hm) h

/-- **LAMMPS / CP2K stop at the first frame outside the interfaces or at the length limit**, every schedule -/
theorem lammps_cp2k_stops_at_first_outside_or_limit (kind : Kind) (c : Cfg) (hm : 0 < c.maxlen) (sched : Sched)
    (code : Int) (frames : List Frame) (fuel : Nat) : StopRule c (extRun kind c sched code frames fuel).es :=
  path_stops_at_first_outside_or_limit c hm _ _ (extRun_path_eq_feed kind c sched code frames fuel)

/-- **… and report success iff that frame is outside**, every schedule (when an error is raised, the flag left
    behind obeys the same rule) -/
theorem lammps_cp2k_success_iff_outside (kind : Kind) (c : Cfg) (hm : 0 < c.maxlen) (sched : Sched)
    (code : Int) (frames : List Frame) (fuel : Nat) :
    SuccessRule c (extRun kind c sched code frames fuel).es (extRun kind c sched code frames fuel).success :=
  path_success_iff_outside c hm _ _ (extRun_path_eq_feed kind c sched code frames fuel)

theorem gromacs_stops_at_first_outside_or_limit (gv : Variant) (c : Cfg) (hm : 0 < c.maxlen) (sched : Sched)
    (code : Int) (need0 : Nat) (frames : List Frame) (fuel : Nat) :
    StopRule c (gmxExt gv c sched code need0 frames fuel).es :=
  path_stops_at_first_outside_or_limit c hm _ _ (gmxExt_path_eq_feed gv c sched code need0 frames fuel)

theorem gromacs_success_iff_outside (gv : Variant) (c : Cfg) (hm : 0 < c.maxlen) (sched : Sched)
    (code : Int) (need0 : Nat) (frames : List Frame) (fuel : Nat) :
    SuccessRule c (gmxExt gv c sched code need0 frames fuel).es (gmxExt gv c sched code need0 frames fuel).success :=
  path_success_iff_outside c hm _ _ (gmxExt_path_eq_feed gv c sched code need0 frames fuel)

theorem inproc_stops_at_first_outside_or_limit (c : Cfg) (hm : 0 < c.maxlen) (sub : Nat) (micro : Nat → Frame)
    (ase : Bool) : StopRule c (inproc c sub micro ase).es :=
  path_stops_at_first_outside_or_limit c hm _ _ (inproc_path_eq_feed c sub micro ase)

theorem inproc_success_iff_outside (c : Cfg) (hm : 0 < c.maxlen) (sub : Nat) (micro : Nat → Frame) (ase : Bool) :
    SuccessRule c (inproc c sub micro ase).es (inproc c sub micro ase).success :=
  path_success_iff_outside c hm _ _ (inproc_path_eq_feed c sub micro ase)

/-- the witness run of the (former) LAMMPS defect, repaired pairing: path = feed of its own orders, success -/
example : (0 : Nat) < demoCfg.maxlen ∧
    feed 0 8 (some 20) [] [1, 2, 2, 3, 3, 9] 0 = some ([1, 2, 2, 3, 3, 9], true, 6) ∧
    (extRun (.lammps .repaired) demoCfg (demoSched demoVis 8) 0 demoFrames 50).es.map (·.order) = [1, 2, 2, 3, 3, 9] := by
  decide +kernel

/-! ### the error branch not covered by `program_stopped_on_return` -/

/-- **`lmp` ends with exit code 0 without ever creating its dump file** (every schedule that never shows the file):
    the on-the-fly reader returns `[]`, `frames[0]` raises IndexError — with the program already collected, no
    signal sent, the path empty.  The only other outcome of the model is out-of-fuel (the program is still alive
    and the code still waiting).  CP2K in the same situation returns normally with an empty path
    (covered by `program_stopped_on_return`). -/
theorem lammps_no_dump_raises_index_with_program_stopped (v : Variant) (c : Cfg) (sched : Sched)
    (frames : List Frame) (fuel : Nat) (hnf : ∀ t, (sched t).file = false) :
    (extRun (.lammps v) c sched 0 frames fuel).raised = some .fuel ∨
    ((extRun (.lammps v) c sched 0 frames fuel).raised = some .index ∧
     (extRun (.lammps v) c sched 0 frames fuel).dead = true ∧
     (extRun (.lammps v) c sched 0 frames fuel).killed = false ∧
     (extRun (.lammps v) c sched 0 frames fuel).es = []) :=
  lammps_no_dump_index_error v c sched frames fuel hnf

example : (extRun (.lammps .repaired) demoCfg
      (fun t => { file := false, vis := 0, vis2 := 0, alive := decide (t < 5) }) 0 demoFrames 50).raised = some .index ∧
    (∀ t, ((fun t => { file := false, vis := 0, vis2 := 0, alive := decide (t < 5) } : Sched) t).file = false) := by
  refine ⟨by decide +kernel, fun _ => rfl⟩

/-! ## Extension pass: the whole `propagate` (wrapper + loop), `execute_command`, CP2K's own trajectory file

Model: `Infretis/Model/EnginePropagate.lean`.  `propagateInproc` / `propagateExt` / `propagateGmx` are the functions
the driver runs for the ops `propinproc`, `propext`, `propgmx`; the tie feeds them the PHASE POINT (file, index,
`vel_rev`) and `reverse`, not a pre-digested start frame. -/

open Infretis.EnginePropagate

/-- **`execute_command` raises iff the return code is non-zero** (exit codes and deaths by signal alike); it returns
    only `0`; the log files are removed exactly when it returns. -/
theorem execute_command_raises_iff_nonzero (rc : Int) :
    ((execCommand rc).raised = true ↔ rc ≠ 0) ∧
    ((execCommand rc).raised = false → (execCommand rc).ret = some 0 ∧ (execCommand rc).logsKept = false) ∧
    ((execCommand rc).raised = true → (execCommand rc).ret = none ∧ (execCommand rc).logsKept = true) := by
  unfold execCommand
  by_cases h : rc = 0
  · subst h; simp
  · simp [h]

example : (execCommand (-11)).raised = true ∧ (execCommand 0).ret = some 0 ∧ (execCommand 3).logsKept = true := by decide

/-- **The `propagate` wrapper**: the start frame is taken from the phase point's OWN `(file, idx)` (extract, or a copy
    when `idx` is `None`, or nothing when the file already is the target), velocities are reversed exactly when
    `reverse != vel_rev`, and `_propagate_from` gets `(initial_conf, 0)` with `vel_rev = reverse`. -/
theorem propagate_setup_spec (reverse : Bool) (p : Point) :
    let su := propagateSetup reverse p
    su.sys = ⟨su.initialConf, some 0, reverse⟩ ∧ su.backward = reverse ∧
    (su.calls.take (dumpConfig p.file p.idx .conf).length = dumpConfig p.file p.idx .conf) ∧
    ((Call.reverse .conf .rconf ∈ su.calls) ↔ reverse ≠ p.velRev) ∧
    (su.initialConf = if reverse ≠ p.velRev then FName.rconf else FName.conf) ∧
    (∀ i, p.idx = some i → su.calls.head? = some (.extract p.file i .conf)) := by
  obtain ⟨file, idx, vr⟩ := p
  simp only
  refine ⟨propagateSetup_sys _ _, ?_, ?_, ?_, ?_, ?_⟩
  · unfold propagateSetup; simp only; split <;> rfl
  · unfold propagateSetup; simp only; split <;> simp
  · unfold propagateSetup dumpConfig
    cases reverse <;> cases vr <;> cases idx <;> simp <;> split <;> simp
  · unfold propagateSetup
    cases reverse <;> cases vr <;> simp
  · intro i hi
    cases hi
    unfold propagateSetup dumpConfig
    cases reverse <;> cases vr <;> simp

example : (propagateSetup true ⟨.user 7, some 3, false⟩).calls = [.extract (.user 7) 3 .conf, .reverse .conf .rconf] ∧
    (propagateSetup true ⟨.user 7, none, true⟩).calls = [.copy (.user 7) .conf] ∧
    (propagateSetup false ⟨.conf, none, false⟩).calls = [] := by decide

/-- **First frame is that point — in-process engines, composed `propagate`, forward and backward, every
    `vel_rev`**: if the phase point refers to frame `f`, the returned path's first entry has index 0, `f`'s own
    coordinates and box, and the order function saw the point's own physical velocity `(-1)^vel_rev · v`. -/
theorem inproc_propagate_first_frame_is_start (c : Cfg) (sub : Nat) (hsub : 0 < sub) (step : Frame → Frame) (ase : Bool)
    (reverse : Bool) (st : Store) (p : Point) (f : Frame) (hp : PointHas st p f) :
    ∃ out, propagateInproc c sub step ase reverse st p = some out ∧
      ∀ (h0 : 0 < out.res.es.length),
        out.res.es[0] = { idx := 0, cid := f.cid, bid := f.bid, vel := velSeen p.velRev f.vel,
                          order := c.ord f.cid f.bid (velSeen p.velRev f.vel) } := by
  have hs := startFrame_spec reverse st p f hp
  refine ⟨_, propagateInproc_eq c sub step ase reverse st p _ hs, ?_⟩
  intro h0
  have hk := inproc_sampled { c with rev := (propagateSetup reverse p).sys.velRev } sub hsub
    (iter step (if reverse != p.velRev then flipV f else f)) ase 0 h0
  rw [hk]
  simp only [Nat.zero_mul, iter, mkEntry, propagateSetup_velRev, start_velocity_seen,
    (start_cid_bid reverse p.velRev f).1, (start_cid_bid reverse p.velRev f).2]

/-- **… and the k-th frame is the state after `k·subcycles` steps from that point** (composed `propagate`) -/
theorem inproc_propagate_frame_is_own_sample (c : Cfg) (sub : Nat) (hsub : 0 < sub) (step : Frame → Frame) (ase : Bool)
    (reverse : Bool) (st : Store) (p : Point) (f : Frame) (hp : PointHas st p f) :
    ∃ out, propagateInproc c sub step ase reverse st p = some out ∧
      ∀ k (hk : k < out.res.es.length),
        let g := iter step (if reverse != p.velRev then flipV f else f) (k * sub)
        out.res.es[k] = { idx := k, cid := g.cid, bid := g.bid, vel := velSeen reverse g.vel,
                          order := c.ord g.cid g.bid (velSeen reverse g.vel) } := by
  have hs := startFrame_spec reverse st p f hp
  refine ⟨_, propagateInproc_eq c sub step ase reverse st p _ hs, ?_⟩
  intro k hk
  have := inproc_sampled { c with rev := (propagateSetup reverse p).sys.velRev } sub hsub
    (iter step (if reverse != p.velRev then flipV f else f)) ase k hk
  rw [this]
  simp only [mkEntry, propagateSetup_velRev]

/-- free flight on a line: `cid` advances by `vel` per step -/
def demoStep (f : Frame) : Frame := { f with cid := (f.cid + f.vel).toNat }

def demoStore : Store := fun n => if n = .user 1 then [⟨50, 100, 9⟩, ⟨3, 100, 1⟩] else []

/-- shooting backward from frame 1 of file `user 1` (stored velocity +1, `vel_rev = false`): the file is extracted,
    reversed, the dynamics runs with −1, and the order function sees +1·(−1)·(−1) … i.e. the point's own velocity -/
example : ((propagateInproc { demoCfg with maxlen := 4 } 1 demoStep true true demoStore ⟨.user 1, some 1, false⟩).map
      (fun o => (o.setup.calls, o.res.es.map (fun e => (e.idx, e.cid, e.vel)))))
    = some ([.extract (.user 1) 1 .conf, .reverse .conf .rconf], [(0, 3, 1), (1, 2, 1), (2, 1, 1), (3, 0, 1)]) ∧
    PointHas demoStore ⟨.user 1, some 1, false⟩ ⟨3, 100, 1⟩ := by
  refine ⟨by decide +kernel, by unfold PointHas; decide⟩

/-- **Backward propagation retraces the forward trajectory — composed `propagate`, hypothesis on the ONE-STEP map
    only**: for a time-reversible integrator step, shooting backward (`reverse = true`) from frame `N` of the forward
    trajectory file (which holds the forward run's `N`-th sample, `vel_rev = false`) gives a path whose `k`-th frame
    has the coordinates, box, seen velocity and order parameter of the forward path's frame `N − k`. -/
theorem propagate_backward_retraces_forward (c : Cfg) (sub : Nat) (hsub : 0 < sub) (step : Frame → Frame)
    (hrev : Reversible step) (ase : Bool) (st stB : Store) (p : Point) (hpv : p.velRev = false) (f : Frame)
    (hp : PointHas st p f) (t N : Nat) (hfile : (stB (.user t))[N]? = some (iter step f (N * sub))) :
    ∃ outF outB, propagateInproc c sub step ase false st p = some outF ∧
      propagateInproc c sub step ase true stB ⟨.user t, some N, false⟩ = some outB ∧
      ∀ k, k ≤ N → ∀ (hb : k < outB.res.es.length) (hf : N - k < outF.res.es.length),
        (outB.res.es[k]).cid = (outF.res.es[N - k]).cid ∧ (outB.res.es[k]).bid = (outF.res.es[N - k]).bid ∧
        (outB.res.es[k]).vel = (outF.res.es[N - k]).vel ∧ (outB.res.es[k]).order = (outF.res.es[N - k]).order := by
  have hsF := startFrame_spec false st p f hp
  have hsB := startFrame_spec true stB ⟨.user t, some N, false⟩ (iter step f (N * sub)) hfile
  rw [hpv] at hsF
  simp only [bne_self_eq_false, Bool.false_eq_true, if_false] at hsF
  simp only [Bool.true_bne, Bool.not_false, if_true] at hsB
  refine ⟨_, _, propagateInproc_eq c sub step ase false st p _ hsF,
    propagateInproc_eq c sub step ase true stB _ _ hsB, ?_⟩
  intro k hkN hb hf
  simp only [propagateSetup_velRev] at hb hf ⊢
  exact backward_retraces_forward c sub hsub (iter step f) (iter step (flipV (iter step f (N * sub)))) N ase
    (fun i hi => reversible_iter step hrev f (N * sub) i hi) k hkN hb hf

/-- leap-frog-like reversible toy step: `cid += vel` is undone by flipping the velocity and stepping again -/
example : ∀ x : Frame, 0 ≤ (x.cid : Int) + x.vel → demoStep (flipV (demoStep x)) = flipV x := by
  intro x hx
  cases x with
  | mk cid bid vel =>
    simp only [demoStep, flipV, Frame.mk.injEq, and_true]
    simp only at hx
    omega

/-! non-vacuity of `Reversible` (audit pass): the example above holds on a sub-domain only (`Nat` truncation), so it does
not instantiate the hypothesis `Reversible step` (∀ states).  Free flight on the WHOLE integer line, stored in a `Nat`
by the zig-zag code, is reversible everywhere and not the identity. -/

def zigEnc (z : Int) : Nat := if 0 ≤ z then 2 * z.toNat else 2 * (-z).toNat - 1
def zigDec (n : Nat) : Int := if n % 2 = 0 then (n / 2 : Nat) else -(((n + 1) / 2 : Nat) : Int)

theorem zigDec_enc (z : Int) : zigDec (zigEnc z) = z := by
  unfold zigDec zigEnc
  by_cases h : 0 ≤ z
  · simp only [h, if_true]
    have : 2 * z.toNat % 2 = 0 := by omega
    simp only [this, if_true]
    omega
  · simp only [h, if_false]
    have h1 : (2 * (-z).toNat - 1) % 2 ≠ 0 := by omega
    simp only [h1, if_false]
    omega

theorem zigEnc_dec (n : Nat) : zigEnc (zigDec n) = n := by
  unfold zigDec zigEnc
  by_cases h : n % 2 = 0
  · simp only [h, if_true]
    have : (0 : Int) ≤ ((n / 2 : Nat) : Int) := by omega
    simp only [this, if_true]
    omega
  · simp only [h, if_false]
    have : ¬ (0 : Int) ≤ -(((n + 1) / 2 : Nat) : Int) := by omega
    simp only [this, if_false]
    omega

/-- free flight on the integer line -/
def zigStep (f : Frame) : Frame := { f with cid := zigEnc (zigDec f.cid + f.vel) }

theorem zigStep_reversible : Reversible zigStep := by
  intro x
  cases x with
  | mk cid bid vel =>
    simp only [zigStep, flipV, Frame.mk.injEq, and_true, zigDec_enc]
    have : zigDec cid + vel + -vel = zigDec cid := by omega
    rw [this, zigEnc_dec]

/-- the hypotheses of `propagate_backward_retraces_forward` on a concrete reversible dynamics: forward from position 3
    (code 6) with velocity −2 over the origin, backward from frame 3 of that trajectory (position −3, code 5) -/
example : Reversible zigStep ∧
    ((propagateInproc { demoCfg with left := -100, right := 100, maxlen := 4, ord := fun c _ _ => zigDec c } 1 zigStep true false
        (fun n => if n = .user 1 then [⟨6, 100, -2⟩] else []) ⟨.user 1, some 0, false⟩).map (fun o => o.res.es.map (·.order)))
      = some [3, 1, -1, -3] ∧
    ((propagateInproc { demoCfg with left := -100, right := 100, maxlen := 4, ord := fun c _ _ => zigDec c } 1 zigStep true true
        (fun n => if n = .user 2 then [⟨0, 0, 0⟩, ⟨0, 0, 0⟩, ⟨0, 0, 0⟩, ⟨5, 100, -2⟩] else []) ⟨.user 2, some 3, false⟩).map
        (fun o => o.res.es.map (·.order))) = some [-3, -1, 1, 3] :=
  ⟨zigStep_reversible, by decide +kernel, by decide +kernel⟩

/-- **First frame is that point — LAMMPS / CP2K, composed `propagate`** (assumption on the MD program only: the
    first frame it writes is the configuration it was started from): index 0, own coordinates, own physical
    velocity; the box is the one the entry names (LAMMPS repaired pairing: the frame's own; CP2K: the box read
    before the run). -/
theorem ext_propagate_first_frame_is_start (kind : Kind) (c : Cfg) (sched : Sched) (code : Int) (prog : Frame → List Frame)
    (hprog : ∀ g, (prog g)[0]? = some g) (fuel : Nat) (reverse : Bool) (st : Store) (p : Point) (f : Frame)
    (hp : PointHas st p f) :
    ∃ out, propagateExt kind c sched code prog fuel reverse st p = some out ∧
      ∀ (h0 : 0 < out.res.es.length),
        (out.res.es[0]).idx = 0 ∧ (out.res.es[0]).cid = f.cid ∧ (out.res.es[0]).vel = velSeen p.velRev f.vel ∧
        (out.res.es[0]).order = c.ord f.cid (out.res.es[0]).bid (velSeen p.velRev f.vel) ∧
        (kind = .lammps .repaired → (out.res.es[0]).bid = f.bid) := by
  have hs := startFrame_spec reverse st p f hp
  refine ⟨_, propagateExt_eq kind c sched code prog fuel reverse st p _ hs, ?_⟩
  intro h0
  simp only [propagateSetup_velRev] at h0 ⊢
  obtain ⟨g, hg, h1, h2, h3, h4⟩ := frames_in_order_once kind { c with rev := reverse } sched code
    (prog (if reverse != p.velRev then flipV f else f)) fuel 0 h0
  rw [hprog] at hg
  cases hg
  refine ⟨h1, ?_, ?_, ?_, ?_⟩
  · rw [h2]; exact (start_cid_bid reverse p.velRev f).1
  · rw [h3]; exact start_velocity_seen reverse p.velRev f
  · rw [h4]
    simp only [start_velocity_seen, (start_cid_bid reverse p.velRev f).1]
  · intro hk
    subst hk
    obtain ⟨g', hg', he⟩ := lammps_frame_uses_own_box { c with rev := reverse } sched code
      (prog (if reverse != p.velRev then flipV f else f)) fuel 0 h0
    rw [hprog] at hg'
    cases hg'
    rw [he]
    exact (start_cid_bid reverse p.velRev f).2

example : (∀ g : Frame, ((fun g => [g, demoStep g]) g)[0]? = some g) ∧
    ((propagateExt (.lammps .repaired) demoCfg (demoSched (fun _ => 2) 9) 0 (fun g => [g, demoStep g]) 50 true demoStore
      ⟨.user 1, some 1, false⟩).map (fun o => o.res.es.map (fun e => (e.idx, e.cid, e.bid, e.vel))))
      = some [(0, 3, 100, 1), (1, 2, 100, 1)] := by
  refine ⟨fun _ => rfl, by decide +kernel⟩

/-- **CP2K: the order stored with frame `k` is the one recomputed from the k-th configuration the path REFERS to** —
    full, every schedule, varying boxes in CP2K's own output or not: the referenced file `{name}.xyz` is written by
    the engine itself (cp2k.py:935), frame `k` of it holds the `k`-th position frame, the `k`-th velocity frame and
    the box read before the run, and the stored order is the order function of exactly that frame with the
    `vel_rev` sign.  (Supersedes the constant-box hypothesis of `cp2k_frame_uses_own_box_partial` for the words
    "recomputed from the configuration it references"; what CP2K itself may have used as a cell is not read.) -/
theorem cp2k_referenced_frame_recomputes (box0 : Nat) (c : Cfg) (sched : Sched) (code : Int) (frames : List Frame)
    (fuel : Nat) (k : Nat) (hk : k < (extRun (.cp2k box0) c sched code frames fuel).es.length) :
    ∃ f g, frames[k]? = some f ∧
      (cp2kTrajFile c.rev (extRun (.cp2k box0) c sched code frames fuel).es)[k]? = some g ∧
      g = ⟨f.cid, box0, f.vel⟩ ∧
      ((extRun (.cp2k box0) c sched code frames fuel).es[k]).idx = k ∧
      ((extRun (.cp2k box0) c sched code frames fuel).es[k]).order = c.ord g.cid g.bid (velSeen c.rev g.vel) := by
  obtain ⟨f, h1, h2⟩ := cp2k_pairs_position_with_own_velocity box0 c sched code frames fuel k hk
  refine ⟨f, ⟨f.cid, box0, f.vel⟩, h1, ?_, rfl, by rw [h2]; rfl, by rw [h2]; rfl⟩
  simp only [cp2kTrajFile, List.getElem?_map, List.getElem?_eq_getElem hk, Option.map_some, h2, mkEntry,
    unSee_velSeen]

/-- CP2K's own output claims boxes 30, 31, 32; the path refers to frames that all carry the box 30 read before the run -/
example : cp2kTrajFile true (extRun (.cp2k 30) { demoCfg with rev := true }
      (fun t => { file := true, vis := t / 2 + 1, vis2 := t / 2, alive := decide (t < 20) }) 0
      [⟨1, 30, 5⟩, ⟨2, 31, -6⟩, ⟨9, 32, 7⟩] 50).es = [⟨1, 30, 5⟩, ⟨2, 30, -6⟩, ⟨9, 30, 7⟩] := by
  decide +kernel

/-- **GROMACS, whole `propagate`: a failing `gmx grompp` or `gmx energy` raises** — a normal return needs return
    code 0 from both tools; if grompp fails mdrun is never started and the path stays empty. -/
theorem gromacs_propagate_tool_failure_raises (gv : Variant) (c : Cfg) (sched : Sched) (code : Int) (need0 : Nat)
    (prog : Frame → List Frame) (fuel : Nat) (gromppRc energyRc : Int) (reverse : Bool) (st : Store) (p : Point)
    (out : Out) (h : propagateGmx gv c sched code need0 prog fuel gromppRc energyRc reverse st p = some out) :
    (out.res.raised = none → gromppRc = 0 ∧ energyRc = 0) ∧
    (gromppRc ≠ 0 → out.started = false ∧ out.res.raised = some .runtime ∧ out.res.es = []) := by
  unfold propagateGmx at h
  simp only at h
  cases hs : startFrame reverse st p with
  | none => simp [hs] at h
  | some f0 =>
    simp only [hs] at h
    by_cases hg : gromppRc = 0
    · subst hg
      simp only [execCommand, ne_eq, not_true_eq_false, if_false, Bool.false_eq_true] at h
      refine ⟨?_, fun hh => absurd rfl hh⟩
      intro hr
      refine ⟨rfl, ?_⟩
      generalize gmxExt gv _ sched code need0 (prog f0) fuel = r at h
      cases hrr : r.raised with
      | some e =>
        simp only [hrr, Option.some.injEq] at h
        subst h
        simp [hrr] at hr
      | none =>
        simp only [hrr] at h
        by_cases he : energyRc = 0
        · exact he
        · simp only [he, not_false_eq_true, if_true, Option.some.injEq] at h
          subst h
          simp at hr
    · simp only [execCommand, ne_eq, hg, not_false_eq_true, if_true, Option.some.injEq] at h
      subst h
      refine ⟨?_, fun _ => ⟨rfl, rfl, rfl⟩⟩
      intro hr
      simp [notStarted] at hr

/-- **GROMACS, whole `propagate`: mdrun is stopped whenever `propagate` returns or raises** (every schedule, exit code,
    tool return codes), or it was never started. -/
theorem gromacs_propagate_program_stopped (gv : Variant) (c : Cfg) (sched : Sched) (code : Int) (need0 : Nat)
    (prog : Frame → List Frame) (fuel : Nat) (gromppRc energyRc : Int) (reverse : Bool) (st : Store) (p : Point)
    (out : Out) (h : propagateGmx gv c sched code need0 prog fuel gromppRc energyRc reverse st p = some out)
    (hfuel : out.res.raised ≠ some .fuel) : out.started = false ∨ out.res.dead = true := by
  unfold propagateGmx at h
  simp only at h
  cases hs : startFrame reverse st p with
  | none => simp [hs] at h
  | some f0 =>
    simp only [hs] at h
    split at h
    · simp only [Option.some.injEq] at h; subst h; exact Or.inl rfl
    · right
      have hd := gromacs_program_stopped_on_return gv { c with rev := (propagateSetup reverse p).sys.velRev } sched code
        need0 (prog f0) fuel
      generalize gmxExt gv _ sched code need0 (prog f0) fuel = r at h hd
      cases hrr : r.raised with
      | some e =>
        simp only [hrr, Option.some.injEq] at h
        subst h
        exact hd hfuel
      | none =>
        simp only [hrr] at h
        have hdd := hd (by rw [hrr]; simp)
        split at h <;> (simp only [Option.some.injEq] at h; subst h; exact hdd)

/-- grompp fails (return code 1): RuntimeError, mdrun never started; energy fails after a complete run: RuntimeError
    with mdrun stopped and the three frames in the path -/
example : ((propagateGmx .repaired demoCfg (demoSched (fun t => t / 3) 30) 0 1 (fun g => [g, demoStep g, ⟨9, 100, 1⟩]) 60 1 0
      false demoStore ⟨.user 1, some 1, false⟩).map (fun o => (o.started, o.res.raised))) = some (false, some .runtime) ∧
    ((propagateGmx .repaired demoCfg (demoSched (fun t => t / 3) 30) 0 1 (fun g => [g, demoStep g, ⟨9, 100, 1⟩]) 60 0 2
      false demoStore ⟨.user 1, some 1, false⟩).map (fun o => (o.started, o.res.raised, o.res.dead, o.res.es.length)))
      = some (true, some .runtime, true, 3) := by
  decide +kernel

/-- **Why "IndexError ⇒ program stopped" cannot be stated for every input** (record of an observation, model level and
    confirmed on the real `LAMMPSEngine` with fake lmp): with a length limit of 0 `add_to_path` raises IndexError
    on the first frame (`path.phasepoints[-1]` of an empty path) while the program is alive; the LAMMPS/CP2K loops have
    no `try/finally`, so the exception leaves `_propagate_from` with the program still running (GROMACS stops mdrun
    in `__exit__`: `gromacs_program_stopped_on_return` covers every error).  The same holds for ANY exception raised
    inside the loop body (order function, reader).  `maxlen = 0` is not produced by the moves (`maxlen ≥ 2` there);
    a witness the moves DO produce: `body_exception_leaves_program_running_counterexample` (audit pass, last section).
    `extRun` is the loop WITHOUT the exception guard: since the repair in /repo this is a record; for the code as it is
    the IndexError also stops the program (`guarded_program_stopped_on_every_exception`, example below it). -/
theorem lammps_index_error_leaves_program_running_counterexample :
    let R := extRun (.lammps .repaired) { demoCfg with maxlen := 0 } (demoSched (fun _ => 2) 30) 0 demoFrames 50
    R.raised = some .index ∧ R.dead = false ∧ R.killed = false ∧ R.es = [] ∧
    (gmxExt .repaired { demoCfg with maxlen := 0 } (demoSched (fun _ => 2) 30) 0 1 demoFrames 50).raised = some .index ∧
    (gmxExt .repaired { demoCfg with maxlen := 0 } (demoSched (fun _ => 2) 30) 0 1 demoFrames 50).dead = true := by
  decide +kernel

/-- **The in-process loop reaches the length limit — composed `propagate`, every subcycles ≥ 1, ASE and TurtleMD**:
    (a) if no frame before index `maxlen − 1` is outside the interfaces, the path has exactly `maxlen` frames (the
    loop bound `range(subcycles * maxlen)` / `subcycles * maxlen + 1` systems is long enough to generate the frame with
    index `maxlen − 1`), nothing is raised, and success is reported iff that last frame is outside;
    (b) if the first outside frame has index `f ≤ maxlen − 1`, the path has exactly `f + 1` frames and success is
    reported.  Frames are the samples `k·subcycles` of the dynamics started from the phase point. -/
theorem inproc_reaches_length_limit (c : Cfg) (hm : 0 < c.maxlen) (sub : Nat) (hsub : 0 < sub) (step : Frame → Frame)
    (ase : Bool) (reverse : Bool) (st : Store) (p : Point) (f0 : Frame) (hp : PointHas st p f0) :
    ∃ out, propagateInproc c sub step ase reverse st p = some out ∧
      ((∀ k, k + 1 < c.maxlen → ¬ Outside { c with rev := reverse }
            (sampleOrd { c with rev := reverse } sub (iter step (if reverse != p.velRev then flipV f0 else f0)) k)) →
        out.res.es.length = c.maxlen ∧ out.res.raised = none ∧
        (out.res.success = true ↔ Outside { c with rev := reverse }
            (sampleOrd { c with rev := reverse } sub (iter step (if reverse != p.velRev then flipV f0 else f0)) (c.maxlen - 1)))) ∧
      (∀ f, f < c.maxlen →
        (∀ k, k < f → ¬ Outside { c with rev := reverse }
            (sampleOrd { c with rev := reverse } sub (iter step (if reverse != p.velRev then flipV f0 else f0)) k)) →
        Outside { c with rev := reverse }
            (sampleOrd { c with rev := reverse } sub (iter step (if reverse != p.velRev then flipV f0 else f0)) f) →
        out.res.es.length = f + 1 ∧ out.res.raised = none ∧ out.res.success = true) := by
  have hs := startFrame_spec reverse st p f0 hp
  refine ⟨_, propagateInproc_eq c sub step ase reverse st p _ hs, ?_, ?_⟩
  · intro hin
    simp only [propagateSetup_velRev]
    have h := inproc_stops_at { c with rev := reverse } sub hsub
      (iter step (if reverse != p.velRev then flipV f0 else f0)) ase (c.maxlen - 1) (by simp only; omega)
      (fun k hk => hin k (by omega)) (Or.inr (by simp only; omega))
    refine ⟨by rw [h.1]; omega, h.2.1, h.2.2⟩
  · intro f hf hin hout
    simp only [propagateSetup_velRev]
    have h := inproc_stops_at { c with rev := reverse } sub hsub
      (iter step (if reverse != p.velRev then flipV f0 else f0)) ase f hf hin (Or.inl hout)
    exact ⟨h.1, h.2.1, h.2.2.mpr hout⟩

/-- free flight from cid 3 with velocity +1 and subcycles 2 (samples 3, 5, 7, 9, …), right interface 8: limits 2 and 3 →
    exactly 2 / 3 frames, no success; limit 4 → the crossing frame 9 has index 3 = maxlen − 1: 4 frames, success;
    limit 9 → still 4 frames -/
example : ((propagateInproc { demoCfg with maxlen := 2 } 2 demoStep true false demoStore ⟨.user 1, some 1, false⟩).map
      (fun o => (o.res.es.map (·.order), o.res.success))) = some ([3, 5], false) ∧
    ((propagateInproc { demoCfg with maxlen := 3 } 2 demoStep true false demoStore ⟨.user 1, some 1, false⟩).map
      (fun o => (o.res.es.map (·.order), o.res.success))) = some ([3, 5, 7], false) ∧
    ((propagateInproc { demoCfg with maxlen := 4 } 2 demoStep false false demoStore ⟨.user 1, some 1, false⟩).map
      (fun o => (o.res.es.map (·.order), o.res.success))) = some ([3, 5, 7, 9], true) ∧
    ((propagateInproc { demoCfg with maxlen := 9 } 2 demoStep false false demoStore ⟨.user 1, some 1, false⟩).map
      (fun o => (o.res.es.map (·.order), o.res.success))) = some ([3, 5, 7, 9], true) ∧ (0 : Nat) < 2 := by
  decide +kernel

/-! ## Audit pass: exceptions that leave the polling loop's body (LAMMPS / CP2K)

Model: `Infretis/Model/EngineFault.lean` (`extRunF`: `extRun` with a foreign exception raised while frame `step_nr = k`
is processed — after the `pop`s, before `add_to_path` — and `Guard.asIs` / `Guard.guarded` for the handler).
The driver runs `extRunF` (op `extf`); the tie raises the exception inside the REAL engines (order function raising on
the `k`-th frame of the loop, `write_xyz_trajectory` failing with ENOSPC) and compares state, path and process. -/

open Infretis.EngineFault

/-- **Nothing changes on runs without such an exception**: the faulty-loop model IS `extRun` — for the code as it is
    (`guarded`) whenever `extRun` does not end in IndexError, the only own exception raised inside the block (then the
    handler polls once more; the tie compares those cases with `extRunF .guarded`); for the record (`asIs`) always.
    So every theorem about `extRun` above is a theorem about the current code on all runs without IndexError, and
    `guarded_program_stopped_on_every_exception` covers the IndexError runs. -/
theorem fault_free_loop_is_extRun (kind : Kind) (c : Cfg) (sched : Sched) (code : Int) (frames : List Frame) (fuel : Nat) :
    extRunF .asIs kind c sched code frames fuel none = { res := extRun kind c sched code frames fuel, body := false } ∧
    ((extRun kind c sched code frames fuel).raised ≠ some .index →
      extRunF .guarded kind c sched code frames fuel none = { res := extRun kind c sched code frames fuel, body := false }) :=
  ⟨extRunF_asIs_none kind c sched code frames fuel, extRunF_guarded_none kind c sched code frames fuel⟩

example : (extRun (.lammps .repaired) demoCfg (demoSched demoVis 8) 0 demoFrames 50).raised ≠ some .index ∧
    (extRunF .guarded (.lammps .repaired) demoCfg (demoSched demoVis 8) 0 demoFrames 50 none).res.es.length = 6 := by
  decide +kernel

/-- **Record of the finding: "the external program is stopped when propagation ends" was FALSE for LAMMPS and CP2K as
    found (`Guard.asIs`)** — with a realistic length limit (20): the program (alive until tick 30) has written six frames, two arrive per poll; the
    order function (or `write_xyz_trajectory`) raises on the frame with `step_nr = 2`.  The exception
    leaves `_propagate_from` with two frames in the path, no signal sent, the program still running.  Supersedes the
    `maxlen = 0` witness of `lammps_index_error_leaves_program_running_counterexample` (which the moves never produce).
    Confirmed on the real `LAMMPSEngine` / `CP2KEngine` (tie class `body-fault`). -/
theorem body_exception_leaves_program_running_counterexample :
    let R := extRunF .asIs (.lammps .repaired) demoCfg (demoSched (fun t => 2 * (t / 3 + 1)) 30) 0 demoFrames 50 (some 2)
    let Q := extRunF .asIs (.cp2k 30) demoCfg (demoSched (fun t => 2 * (t / 3 + 1)) 30) 0 demoFrames 50 (some 2)
    R.body = true ∧ R.res.dead = false ∧ R.res.killed = false ∧ R.res.es.length = 2 ∧ demoCfg.maxlen = 20 ∧
    Q.body = true ∧ Q.res.dead = false ∧ Q.res.killed = false ∧ Q.res.es.length = 2 ∧
    ¬ (∀ (g : Guard) (k : Kind) (fault : Option Nat),
        (extRunF g k demoCfg (demoSched (fun t => 2 * (t / 3 + 1)) 30) 0 demoFrames 50 fault).res.raised ≠ some .fuel →
        (extRunF g k demoCfg (demoSched (fun t => 2 * (t / 3 + 1)) 30) 0 demoFrames 50 fault).res.dead = true) := by
  refine ⟨by decide +kernel, by decide +kernel, by decide +kernel, by decide +kernel, rfl,
    by decide +kernel, by decide +kernel, by decide +kernel, by decide +kernel, ?_⟩
  intro h
  have := h .asIs (.lammps .repaired) (some 2) (by decide +kernel)
  revert this
  decide +kernel

/-- **What held for the code as found (`Guard.asIs`, record)**: the program is stopped on every way out of the loop
    EXCEPT an exception raised by the loop body (guard `body = false`: it did not fire in this run) and the IndexError of
    `lammps_index_error_leaves_program_running_counterexample`. -/
theorem program_stopped_unless_body_exception_partial (kind : Kind) (c : Cfg) (sched : Sched) (code : Int)
    (frames : List Frame) (fuel : Nat) (fault : Option Nat)
    (hb : (extRunF .asIs kind c sched code frames fuel fault).body = false)
    (h : (extRunF .asIs kind c sched code frames fuel fault).res.raised = none ∨
         (extRunF .asIs kind c sched code frames fuel fault).res.raised = some .runtime) :
    (extRunF .asIs kind c sched code frames fuel fault).res.dead = true :=
  extRunF_asIs_program_stopped kind c sched code frames fuel fault hb h

/-- the fault sits on frame 7, the crossing is found on frame 5: the exception never fires, the program is stopped -/
example : (extRunF .asIs (.lammps .repaired) demoCfg (demoSched (fun t => 2 * (t / 3 + 1)) 30) 0 demoFrames 50 (some 7)).body = false ∧
    (extRunF .asIs (.lammps .repaired) demoCfg (demoSched (fun t => 2 * (t / 3 + 1)) 30) 0 demoFrames 50 (some 7)).res.raised = none ∧
    (extRunF .asIs (.lammps .repaired) demoCfg (demoSched (fun t => 2 * (t / 3 + 1)) 30) 0 demoFrames 50 (some 7)).res.killed = true := by
  decide +kernel

/-- **HEADLINE for the code as it is (`Guard.guarded`: `except BaseException: if exe.poll() is None: killpg; wait; raise`
    around the block, /repo since the repair): the external program is stopped whenever propagation ends** — on EVERY
    way out — return, RuntimeError, IndexError (also `maxlen = 0`), the
    body's exception at any frame — for every schedule, exit code, frames, limit (out of fuel = still looping). -/
theorem guarded_program_stopped_on_every_exception (kind : Kind) (c : Cfg) (sched : Sched) (code : Int)
    (frames : List Frame) (fuel : Nat) (fault : Option Nat)
    (h : (extRunF .guarded kind c sched code frames fuel fault).res.raised ≠ some .fuel) :
    (extRunF .guarded kind c sched code frames fuel fault).res.dead = true :=
  extRunF_guarded_program_stopped kind c sched code frames fuel fault h

/-- the witness of the counterexample, guarded: the exception still leaves (`body`), two frames in the path, but SIGTERM
    was sent and the program collected; and the `maxlen = 0` IndexError likewise -/
example : (extRunF .guarded (.lammps .repaired) demoCfg (demoSched (fun t => 2 * (t / 3 + 1)) 30) 0 demoFrames 50 (some 2)).body = true ∧
    (extRunF .guarded (.lammps .repaired) demoCfg (demoSched (fun t => 2 * (t / 3 + 1)) 30) 0 demoFrames 50 (some 2)).res.killed = true ∧
    (extRunF .guarded (.lammps .repaired) demoCfg (demoSched (fun t => 2 * (t / 3 + 1)) 30) 0 demoFrames 50 (some 2)).res.es.length = 2 ∧
    (extRunF .guarded (.lammps .repaired) { demoCfg with maxlen := 0 } (demoSched (fun _ => 2) 30) 0 demoFrames 50 none).res.raised = some .index ∧
    (extRunF .guarded (.lammps .repaired) { demoCfg with maxlen := 0 } (demoSched (fun _ => 2) 30) 0 demoFrames 50 none).res.dead = true := by
  decide +kernel

end Infretis.C12
