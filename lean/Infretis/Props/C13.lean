import Infretis.Lemmas.ReadersXyz
import Infretis.Lemmas.ReadersLmpRun
import Infretis.Lemmas.ReadersSpec
import Infretis.Lemmas.ReadersTrr
/-!
# C13 — on-the-fly trajectory readers never return a torn frame

Property theorems only.  Model: `Infretis/Model/Readers.lean` (mirrors `ReadAndProcessOnTheFly`,
`xyz_reader`, `lammpstrj_reader` of engineparts.py); lemmas: `Infretis/Lemmas/Readers*.lean`.

A trajectory is the text the MD program writes, frame by frame and line by line (`XyzF`, `LmpF`);
well-formedness (`XyzF.WF N`, `LmpF.WF N`) asks for complete lines, the atom count `N ≥ 1` on the
count line, float literals where numbers are read — and nothing about the amount of blanks, the
number formats, the comment line or the order of the atom ids.  The *values* of a frame
(`decode`) are the number tokens of its complete lines, exactly as written.  A cut sequence is any
list of prefix lengths; `pollAll reader content cuts 0` polls one reader object once per prefix.

`exactStages lens decoded cuts 0` is the behaviour the property demands: every poll returns exactly
the not yet returned frames that are completely inside the visible bytes.

TRR (`get_gromacs_frames`): only the size-guard state machine is modelled (`trrRun`, last section);
decoding, byte order and precision are checked by the tie.
-/
namespace Infretis.C13
open Infretis.Readers

def xyzContent (frames : List XyzF) : List Char := (frames.map XyzF.enc).flatten
def xyzLens (frames : List XyzF) : List Nat := frames.map XyzF.len
def xyzDecoded (frames : List XyzF) : List XFrame := frames.map XyzF.decode

/-! ## concrete witnesses (also used for the non-vacuity examples) -/

/-- "2\ncomment\nH 1.0 2.0 3.0\nC 4.0 5.0 6.283185\n" (43 bytes) -/
def wF1 : XyzF :=
  { cnt := ['2', '\n'],
    cmt := ['c', 'o', 'm', 'm', 'e', 'n', 't', '\n'],
    atoms := [['H', ' ', '1', '.', '0', ' ', '2', '.', '0', ' ', '3', '.', '0', '\n'],
              ['C', ' ', '4', '.', '0', ' ', '5', '.', '0', ' ', '6', '.', '2', '8', '3', '1', '8', '5', '\n']] }

/-- "   2\ncomment\nH 1.5 2.5 3.5\nC 4.5 5.5 -6.5e-1\n" (45 bytes; CP2K-style padded count line) -/
def wF2 : XyzF :=
  { cnt := [' ', ' ', ' ', '2', '\n'],
    cmt := ['c', 'o', 'm', 'm', 'e', 'n', 't', '\n'],
    atoms := [['H', ' ', '1', '.', '5', ' ', '2', '.', '5', ' ', '3', '.', '5', '\n'],
              ['C', ' ', '4', '.', '5', ' ', '5', '.', '5', ' ', '-', '6', '.', '5', 'e', '-', '1', '\n']] }

def witness : List XyzF := [wF1, wF2]

theorem isLine_of (l body : List Char) (h : l = body ++ ['\n']) (hb : '\n' ∉ body) : IsLine l :=
  ⟨body, h, hb⟩

theorem wF1_wf : wF1.WF 2 where
  cnt := isLine_of _ ['2'] rfl (by decide)
  cntTok := ⟨['2'], [], by decide, by decide⟩
  cmt := isLine_of _ ['c', 'o', 'm', 'm', 'e', 'n', 't'] rfl (by decide)
  natoms := rfl
  atoms := by
    intro a ha
    simp only [wF1, List.mem_cons, List.not_mem_nil, or_false] at ha
    rcases ha with rfl | rfl
    · exact ⟨isLine_of _ ['H', ' ', '1', '.', '0', ' ', '2', '.', '0', ' ', '3', '.', '0'] rfl (by decide), by decide, by decide⟩
    · exact ⟨isLine_of _ ['C', ' ', '4', '.', '0', ' ', '5', '.', '0', ' ', '6', '.', '2', '8', '3', '1', '8', '5'] rfl (by decide), by decide, by decide⟩

theorem wF2_wf : wF2.WF 2 where
  cnt := isLine_of _ [' ', ' ', ' ', '2'] rfl (by decide)
  cntTok := ⟨['2'], [], by decide, by decide⟩
  cmt := isLine_of _ ['c', 'o', 'm', 'm', 'e', 'n', 't'] rfl (by decide)
  natoms := rfl
  atoms := by
    intro a ha
    simp only [wF2, List.mem_cons, List.not_mem_nil, or_false] at ha
    rcases ha with rfl | rfl
    · exact ⟨isLine_of _ ['H', ' ', '1', '.', '5', ' ', '2', '.', '5', ' ', '3', '.', '5'] rfl (by decide), by decide, by decide⟩
    · exact ⟨isLine_of _ ['C', ' ', '4', '.', '5', ' ', '5', '.', '5', ' ', '-', '6', '.', '5', 'e', '-', '1'] rfl (by decide), by decide, by decide⟩

theorem witness_wf : ∀ f ∈ witness, f.WF 2 := by
  intro f hf
  simp only [witness, List.mem_cons, List.not_mem_nil, or_false] at hf
  rcases hf with rfl | rfl
  · exact wF1_wf
  · exact wF2_wf

deriving instance DecidableEq for Except

/-! ## the xyz reader as it is: the property fails -/

/-- the torn frame: the last number reads `6.2`, written was `6.283185` -/
def tornFrame : XFrame :=
  [[['1', '.', '0'], ['2', '.', '0'], ['3', '.', '0']],
   [['4', '.', '0'], ['5', '.', '0'], ['6', '.', '2']]]

/-- **SAFETY fails for `xyz_reader` as it is.**  With 37 of the 88 bytes visible (the cut lies inside
    the last number of the first frame) the first poll returns a frame — none is completely on disk —
    whose last value is torn (`6.2` for `6.283185`); and although the file is then completed and polled
    three more times, no further frame is ever returned: the second frame is lost. -/
theorem xyz_safety_counterexample :
    (∀ f ∈ witness, f.WF 2) ∧
    pollAll (xyzReader .asIs) (xyzContent witness) [37, 88, 88, 88] 0 = .ok [[tornFrame], [], [], []] ∧
    tornFrame ∉ xyzDecoded witness ∧
    completeCount (xyzLens witness) 37 = 0 ∧
    pollAll (xyzReader .asIs) (xyzContent witness) [37, 88, 88, 88] 0
      ≠ .ok (exactStages (xyzLens witness) (xyzDecoded witness) [37, 88, 88, 88] 0) := by
  refine ⟨witness_wf, by decide, by decide, by decide, by decide⟩

/-- **NO EXCEPTION fails for `xyz_reader` as it is**, in three ways: a cut just in front of the final
    newline of a frame (the next poll starts on a blank line: `i % 0`), a cut inside the leading blanks
    of the atom-count line (blank first line: `i % 0`), a cut behind the sign or inside the exponent of
    a number (`float("-")`, `float("-6.5e")`). -/
theorem xyz_noexception_counterexample :
    pollAll (xyzReader .asIs) (xyzContent witness) [42, 88] 0 = .error .zerodiv ∧
    pollAll (xyzReader .asIs) (xyzContent witness) [43, 45] 0 = .error .zerodiv ∧
    pollAll (xyzReader .asIs) (xyzContent witness) [43, 81] 0 = .error .value ∧
    pollAll (xyzReader .asIs) (xyzContent witness) [43, 85] 0 = .error .value := by
  refine ⟨by decide, by decide, by decide, by decide⟩

/-! ## the xyz reader: what does hold -/

/-- **Exactness of the repaired reader, for every byte cut** (this contains NO EXCEPTION): for every
    well-formed trajectory and *every* list of cut points the poll-by-poll output of the `repaired` reader
    is that of the exact reader. -/
theorem xyz_repaired_exact (N : Nat) (hN : 1 ≤ N) (frames : List XyzF) (hwf : ∀ f ∈ frames, f.WF N)
    (cuts : List Nat) :
    pollAll (xyzReader .repaired) (xyzContent frames) cuts 0
      = .ok (exactStages (xyzLens frames) (xyzDecoded frames) cuts 0) := by
  have := xyz_pollAll .repaired N hN frames hwf cuts (Or.inl rfl) 0 (Nat.zero_le _)
  simpa [sumLens, xyzContent, xyzLens, xyzDecoded] using this

example : pollAll (xyzReader .repaired) (xyzContent witness) [37, 42, 43, 45, 81, 85, 88] 0
    = .ok [[], [], [wF1.decode], [], [], [], [wF2.decode]] := by decide

/-- **`xyz_safety_partial`: the reader as it is, cuts at line ends only.**  If every visible prefix is
    empty or ends with a newline (the guard that excludes the defect), the as-is reader is exact, too. -/
theorem xyz_safety_partial (N : Nat) (hN : 1 ≤ N) (frames : List XyzF) (hwf : ∀ f ∈ frames, f.WF N)
    (cuts : List Nat) (hcuts : ∀ c ∈ cuts, LineEnd ((xyzContent frames).take c)) :
    pollAll (xyzReader .asIs) (xyzContent frames) cuts 0
      = .ok (exactStages (xyzLens frames) (xyzDecoded frames) cuts 0) := by
  have := xyz_pollAll .asIs N hN frames hwf cuts (Or.inr hcuts) 0 (Nat.zero_le _)
  simpa [sumLens, xyzContent, xyzLens, xyzDecoded] using this

example : (∀ c ∈ [2, 24, 43, 56, 88], LineEnd ((xyzContent witness).take c)) ∧
    pollAll (xyzReader .asIs) (xyzContent witness) [2, 24, 43, 56, 88] 0
      = .ok [[], [], [wF1.decode], [], [wF2.decode]] := by
  refine ⟨?_, by decide⟩
  intro c hc
  simp only [List.mem_cons, List.not_mem_nil, or_false] at hc
  rcases hc with rfl | rfl | rfl | rfl | rfl <;> exact Or.inr (by decide)

/-- **SAFETY** (what "exact" means, stage by stage): with non-decreasing cuts, after every poll the frames
    returned so far are precisely the frames completely contained in the visible bytes — a prefix of
    the trajectory, each frame once, in order, tokens exactly as written — and they really fit into the
    visible bytes (no torn frame). Holds for any reader whose stages are `exactStages`. -/
theorem exact_safety {F : Type} (lens : List Nat) (dec : List F) (cuts : List Nat)
    (hs : cuts.Pairwise (· ≤ ·)) (k : Nat) (hk : k < cuts.length) :
    ((exactStages lens dec cuts 0).take (k + 1)).flatten = dec.take (completeCount lens cuts[k])
    ∧ sumLens (lens.take (completeCount lens cuts[k])) ≤ cuts[k] := by
  refine ⟨?_, completeCount_sum_le _ _⟩
  have := exactStages_prefix lens dec cuts 0 hs (fun _ _ => Nat.zero_le _) k hk
  simpa using this

/-- **COMPLETENESS**: once a poll has seen the whole file, everything has been returned. -/
theorem exact_complete {F : Type} (lens : List Nat) (dec : List F) (hlen : dec.length = lens.length)
    (pre : List Nat) (T : Nat) (hs : (pre ++ [T]).Pairwise (· ≤ ·)) (hT : sumLens lens ≤ T) :
    (exactStages lens dec (pre ++ [T]) 0).flatten = dec := by
  have hk : pre.length < (pre ++ [T]).length := by simp
  have := exactStages_prefix lens dec (pre ++ [T]) 0 hs (fun _ _ => Nat.zero_le _) pre.length hk
  have hl := exactStages_length lens dec (pre ++ [T]) 0
  have hl' : (exactStages lens dec (pre ++ [T]) 0).length ≤ pre.length + 1 := by rw [hl]; simp
  rw [List.take_of_length_le hl'] at this
  simp only [List.take_zero, List.nil_append] at this
  rw [this]
  have hT' : (pre ++ [T])[pre.length] = T := by simp
  rw [hT', completeCount_all lens T hT, ← hlen, List.take_length]

/-- SAFETY and COMPLETENESS of the repaired xyz reader in one statement -/
theorem xyz_repaired_safety_complete (N : Nat) (hN : 1 ≤ N) (frames : List XyzF)
    (hwf : ∀ f ∈ frames, f.WF N) (cuts : List Nat) (hs : cuts.Pairwise (· ≤ ·)) :
    ∃ stages, pollAll (xyzReader .repaired) (xyzContent frames) cuts 0 = .ok stages
      ∧ stages.length = cuts.length
      ∧ (∀ k (hk : k < cuts.length),
          (stages.take (k + 1)).flatten = (xyzDecoded frames).take (completeCount (xyzLens frames) cuts[k])
          ∧ sumLens ((xyzLens frames).take (completeCount (xyzLens frames) cuts[k])) ≤ cuts[k])
      ∧ (∀ c ∈ cuts.getLast?, (xyzContent frames).length ≤ c → stages.flatten = xyzDecoded frames) := by
  refine ⟨_, xyz_repaired_exact N hN frames hwf cuts, exactStages_length _ _ _ _, ?_, ?_⟩
  · intro k hk
    exact exact_safety _ _ cuts hs k hk
  · intro c hc hle
    obtain ⟨pre, rfl⟩ : ∃ pre, cuts = pre ++ [c] := by
      have := List.getLast?_eq_some_iff.mp (Option.mem_def.mp hc)
      exact this
    apply exact_complete _ _ (by simp [xyzDecoded, xyzLens]) pre c hs
    rw [xyzContent, flatten_enc_length] at hle
    exact hle

example : (1 ≤ 2) ∧ (∀ f ∈ witness, f.WF 2) ∧ [37, 42, 88].Pairwise (· ≤ ·) := by
  refine ⟨by decide, witness_wf, by decide⟩

/-! ## polls without growth, polls before the file exists

`xyz_repaired_exact` and `lmp_exact` quantify over *every* cut list, so schedules with several polls at the
same size (also as the last polls) are included.  Two consequences spelled out: -/

/-- a poll of an empty file — or of a file that does not exist yet, for which
    `read_and_process_content` returns `[]` without calling the reader — returns nothing, moves nothing -/
theorem poll_empty_file (v : Variant) (pos : Nat) :
    xyzReader v [] pos = .ok ([], pos) ∧ lmpReader [] pos = .ok ([], pos) := by
  refine ⟨?_, ?_⟩ <;> simp [xyzReader, lmpReader, lines, xyzRun, lmpRun, finish, xInit, lInit]

/-- **a poll without growth returns nothing** (exact reader): the second of two polls at the same size
    has an empty stage, whatever happened before and whatever follows -/
theorem no_growth_poll_returns_nothing {F : Type} (lens : List Nat) (dec : List F) (c : Nat) (cs : List Nat)
    (done : Nat) : (exactStages lens dec (c :: c :: cs) done)[1]? = some [] := by
  have hres := completeCount_resume (lens.drop done) (completeCount (lens.drop done) (c - sumLens (lens.take done)))
    (c - sumLens (lens.take done)) (Nat.le_refl _)
  have h0 : completeCount ((lens.drop done).drop (completeCount (lens.drop done) (c - sumLens (lens.take done))))
      (c - sumLens (lens.take done)
        - sumLens ((lens.drop done).take (completeCount (lens.drop done) (c - sumLens (lens.take done))))) = 0 := by
    omega
  simp only [exactStages, List.getElem?_cons_succ, List.getElem?_cons_zero, Option.some.injEq]
  rw [sumLens_take_add', ← List.drop_drop, Nat.sub_add_eq, h0]
  simp

example : exactStages [43, 45] [0, 1] [43, 43, 43, 88, 88, 88] 0 = [[0], [], [], [1], [], []] := by decide

/-! ## non-ASCII text

The content is bytes; '\n' is the only structural byte.  All bytes of UTF-8 multi-byte characters are
≥ 0x80, so they can neither end a line nor separate tokens: the theorems above and below hold verbatim for
trajectories with arbitrary non-ASCII text in the comment line, atom names and header texts, and for
cuts inside a multi-byte character (`XyzF.WF`/`LmpF.WF` put no condition on those bytes). -/

theorem text_nonascii_inert (c : Char) (h : 128 ≤ c.toNat) : c ≠ '\n' ∧ isBlank c = false :=
  nonascii_not_structural c h

/-- "1\n a = 5 Å\nCα 1.0 2.0 3.0\n" as bytes (Å = c3 85, α = ce b1) -/
def wU : XyzF :=
  { cnt := ['1', '\n'],
    cmt := [' ', 'a', ' ', '=', ' ', '5', ' ', '\xc3', '\x85', '\n'],
    atoms := [['C', '\xce', '\xb1', ' ', '1', '.', '0', ' ', '2', '.', '0', ' ', '3', '.', '0', '\n']] }

theorem wU_wf : wU.WF 1 where
  cnt := isLine_of _ ['1'] rfl (by decide)
  cntTok := ⟨['1'], [], by decide, by decide⟩
  cmt := isLine_of _ [' ', 'a', ' ', '=', ' ', '5', ' ', '\xc3', '\x85'] rfl (by decide)
  natoms := rfl
  atoms := by
    intro a ha
    simp only [wU, List.mem_cons, List.not_mem_nil, or_false] at ha
    subst ha
    exact ⟨isLine_of _ ['C', '\xce', '\xb1', ' ', '1', '.', '0', ' ', '2', '.', '0', ' ', '3', '.', '0'] rfl (by decide), by decide, by decide⟩

/-- cuts inside Å (byte 10) and inside α (byte 14), then the complete 28-byte frame twice -/
example : (∀ f ∈ [wU, wU], f.WF 1) ∧
    pollAll (xyzReader .repaired) (xyzContent [wU, wU]) [10, 14, 28, 38, 42, 56] 0
      = .ok [[], [], [wU.decode], [], [], [wU.decode]] := by
  refine ⟨?_, by decide⟩
  intro f hf
  simp only [List.mem_cons, List.not_mem_nil, or_false] at hf
  rcases hf with rfl | rfl <;> exact wU_wf

/-! ## the LAMMPS reader

`LmpF.WF N`: complete lines; line 4 starts with the integer `N ≥ 1`; three box lines of two or three
float literals; `N` atom lines `id type x y z vx vy vz id` (nine tokens, first = last, a valid row index,
float literals, no blank after the trailing id); header texts, blanks, number formats, id order arbitrary.
`lmpStages` states the reader's one-poll lag honestly: a frame is returned as soon as everything but
its final newline is visible; the poll that then meets this newline only skips it and returns nothing. -/

def lmpContent (frames : List LmpF) : List Char := (frames.map LmpF.enc).flatten
def lmpLens (frames : List LmpF) : List Nat := frames.map LmpF.len
def lmpDecoded (N : Nat) (frames : List LmpF) : List LFrame := frames.map (LmpF.decode N)

/-- the terminating newline does not change what `line.split()` returns -/
theorem lmp_newline_irrelevant (body : List Char) : split (body ++ ['\n']) = split body :=
  split_append_nl body

/-- **trailing-id sentinel**: for an atom line `id type x y z vx vy vz id` (nine tokens, first = last, no
    blank after the trailing id, any blanks elsewhere) every strict prefix is rejected by
    `len(spl) != 9 or spl[0] != spl[-1]` — no torn atom line is ever accepted, at any byte cut. -/
theorem lmp_torn_atom_line_rejected (st : LSt) (body init : List Char) (c : Char)
    (hb : body = init ++ [c]) (hc : isBlank c = false) (h9 : (split body).length = 9)
    (hid : (split body).head? = (split body).getLast?) (n : Nat) (hn : n < body.length)
    (hline : 9 ≤ st.i % st.block) (tell' : Nat) :
    lBody st ((body ++ ['\n']).take n) (split ((body ++ ['\n']).take n)) tell' = .ret (st.traj, st.pos) :=
  lBody_torn_atom st body init c hb hc h9 hid n hn hline tell'

example : (split ['1', '2', ' ', '1', ' ', '1', ' ', '2', ' ', '3', ' ', '4', ' ', '5', ' ', '6', ' ', '1', '2']).length = 9
    ∧ (split ['1', '2', ' ', '1', ' ', '1', ' ', '2', ' ', '3', ' ', '4', ' ', '5', ' ', '6', ' ', '1', '2']).head? = (split ['1', '2', ' ', '1', ' ', '1', ' ', '2', ' ', '3', ' ', '4', ' ', '5', ' ', '6', ' ', '1', '2']).getLast?
    ∧ isBlank '2' = false := by decide

/-- "T\n0\nN\n1\nB\n0 1\n0 1\n0 1\nA\n1 1 1 2 3 4 5 6 1\n" (42 bytes; header texts shortened — the reader
    never looks at them) -/
def wL1 : LmpF :=
  { l0 := ['T', '\n'],
    l1 := ['0', '\n'],
    l2 := ['N', '\n'],
    l3 := ['1', '\n'],
    l4 := ['B', '\n'],
    b0 := ['0', ' ', '1', '\n'],
    b1 := ['0', ' ', '1', '\n'],
    b2 := ['0', ' ', '1', '\n'],
    l8 := ['A', '\n'],
    atoms := [['1', ' ', '1', ' ', '1', ' ', '2', ' ', '3', ' ', '4', ' ', '5', ' ', '6', ' ', '1', '\n']] }

/-- "T\n5\nN\n1\nB\n0 2 0\n0 2 0\n0 2 0\nA\n1 1 7 8 9 -1 .5 6e1 1\n" (52 bytes, 3-column box lines) -/
def wL2 : LmpF :=
  { l0 := ['T', '\n'],
    l1 := ['5', '\n'],
    l2 := ['N', '\n'],
    l3 := ['1', '\n'],
    l4 := ['B', '\n'],
    b0 := ['0', ' ', '2', ' ', '0', '\n'],
    b1 := ['0', ' ', '2', ' ', '0', '\n'],
    b2 := ['0', ' ', '2', ' ', '0', '\n'],
    l8 := ['A', '\n'],
    atoms := [['1', ' ', '1', ' ', '7', ' ', '8', ' ', '9', ' ', '-', '1', ' ', '.', '5', ' ', '6', 'e', '1', ' ', '1', '\n']] }

theorem wL1_wf : wL1.WF 1 where
  l0 := isLine_of _ ['T'] rfl (by decide)
  l0ne := by decide
  l1 := isLine_of _ ['0'] rfl (by decide)
  l2 := isLine_of _ ['N'] rfl (by decide)
  l3 := isLine_of _ ['1'] rfl (by decide)
  l3tok := ⟨['1'], [], by decide, by decide⟩
  l4 := isLine_of _ ['B'] rfl (by decide)
  b0 := ⟨isLine_of _ ['0', ' ', '1'] rfl (by decide), by decide, by decide⟩
  b1 := ⟨isLine_of _ ['0', ' ', '1'] rfl (by decide), by decide, by decide⟩
  b2 := ⟨isLine_of _ ['0', ' ', '1'] rfl (by decide), by decide, by decide⟩
  l8 := isLine_of _ ['A'] rfl (by decide)
  natoms := rfl
  atoms := by
    intro a ha
    simp only [wL1, List.mem_cons, List.not_mem_nil, or_false] at ha
    subst ha
    exact ⟨⟨['1', ' ', '1', ' ', '1', ' ', '2', ' ', '3', ' ', '4', ' ', '5', ' ', '6', ' '], '1', rfl, by decide, by decide⟩,
      ⟨by decide, by decide, ⟨1, 0, by decide, by decide⟩, by decide⟩⟩

theorem wL2_wf : wL2.WF 1 where
  l0 := isLine_of _ ['T'] rfl (by decide)
  l0ne := by decide
  l1 := isLine_of _ ['5'] rfl (by decide)
  l2 := isLine_of _ ['N'] rfl (by decide)
  l3 := isLine_of _ ['1'] rfl (by decide)
  l3tok := ⟨['1'], [], by decide, by decide⟩
  l4 := isLine_of _ ['B'] rfl (by decide)
  b0 := ⟨isLine_of _ ['0', ' ', '2', ' ', '0'] rfl (by decide), by decide, by decide⟩
  b1 := ⟨isLine_of _ ['0', ' ', '2', ' ', '0'] rfl (by decide), by decide, by decide⟩
  b2 := ⟨isLine_of _ ['0', ' ', '2', ' ', '0'] rfl (by decide), by decide, by decide⟩
  l8 := isLine_of _ ['A'] rfl (by decide)
  natoms := rfl
  atoms := by
    intro a ha
    simp only [wL2, List.mem_cons, List.not_mem_nil, or_false] at ha
    subst ha
    exact ⟨⟨['1', ' ', '1', ' ', '7', ' ', '8', ' ', '9', ' ', '-', '1', ' ', '.', '5', ' ', '6', 'e', '1', ' '], '1', rfl, by decide, by decide⟩,
      ⟨by decide, by decide, ⟨1, 0, by decide, by decide⟩, by decide⟩⟩

def wLmpFrames : List LmpF := [wL1, wL2]

theorem wLmp_wf : ∀ f ∈ wLmpFrames, f.WF 1 := by
  intro f hf
  simp only [wLmpFrames, List.mem_cons, List.not_mem_nil, or_false] at hf
  rcases hf with rfl | rfl
  · exact wL1_wf
  · exact wL2_wf

/-- **Exactness of `lammpstrj_reader` for every byte cut** (this contains NO EXCEPTION): for every
    well-formed LAMMPS trajectory and *every* list of cut points, the reader object polled on the growing
    file returns, poll by poll, exactly what `lmpStages` says. -/
theorem lmp_exact (N : Nat) (hN : 1 ≤ N) (frames : List LmpF) (hwf : ∀ f ∈ frames, f.WF N) (cuts : List Nat) :
    pollAll lmpReader (lmpContent frames) cuts 0
      = .ok (lmpStages (lmpLens frames) (lmpDecoded N frames) cuts 0 false) := by
  have := lmp_pollAll N hN frames hwf cuts 0 false (Nat.zero_le _) (by intro h; cases h)
  simpa [sumLens, lmpContent, lmpLens, lmpDecoded] using this

instance : DecidableEq LFrame := inferInstanceAs (DecidableEq (List (List (List Char)) × List (List (List Char))))

/-- non-vacuity, incl. the late-newline lag: cut 41 = everything but the final newline of frame 1 — the
    frame is returned; the next poll only skips the newline; the poll after that returns frame 2 -/
example : (1 ≤ 1) ∧ (∀ f ∈ wLmpFrames, f.WF 1) ∧
    pollAll lmpReader (lmpContent wLmpFrames) [1, 7, 12, 20, 30, 40, 41, 94, 94, 94] 0
      = .ok [[], [], [], [], [], [], [wL1.decode 1], [], [wL2.decode 1], []] := by
  refine ⟨by decide, wLmp_wf, by decide⟩

/-- **values exactly as written**: in a decoded frame, the row `id − 1` of every atom holds its six tokens
    `x y z vx vy vz` (given that the ids of the frame go to pairwise different rows) -/
theorem lmp_decode_row (N : Nat) (f : LmpF) (hf : f.WF N)
    (hd : f.atoms.Pairwise (fun x y => atomIdx N x ≠ atomIdx N y)) (a : Line) (ha : a ∈ f.atoms) :
    ∃ k, atomIdx N a = some k ∧ k < N ∧ (f.decode N).1[k]? = some (((split a).drop 2).take 6) := by
  obtain ⟨id, k, hp, hk⟩ := (hf.atoms a ha).tok.idx
  have hka : atomIdx N a = some k := by
    unfold atomIdx; rw [hp]; exact hk
  have hkN : k < N := by
    unfold pyIndex at hk
    split at hk
    · injection hk with hk; omega
    · split at hk
      · injection hk with hk; omega
      · cases hk
  exact ⟨k, hka, hkN, decode_row N f.atoms (zeros N 6) hd a ha k hka (by simp [zeros]; exact hkN)⟩

example : (wL2.decode 1).1[0]? = some [['7'], ['8'], ['9'], ['-', '1'], ['.', '5'], ['6', 'e', '1']] := by decide

/-- **SAFETY of the stage behaviour (with the lag stated)**: for non-decreasing cuts, after every poll the
    frames returned so far are a prefix of the trajectory (each once, in order), and all their bytes
    except possibly the final newline of the last one were visible at that poll (no torn frame). -/
theorem lmpStages_safety {F : Type} (lens : List Nat) (dec : List F) (cuts : List Nat)
    (hs : cuts.Pairwise (· ≤ ·)) (k : Nat) (hk : k < cuts.length) :
    ∃ d, ((lmpStages lens dec cuts 0 false).take (k + 1)).flatten = dec.take d ∧ d ≤ lens.length
      ∧ sumLens (lens.take d) ≤ cuts[k] + 1 := by
  have hsplit : cuts = cuts.take (k + 1) ++ cuts.drop (k + 1) := (List.take_append_drop _ _).symm
  have hsp : (cuts.take (k + 1)).Pairwise (· ≤ ·) := hs.sublist (List.take_sublist _ _)
  have hv : LValid lens (cuts.take (k + 1)) 0 false := ⟨Nat.zero_le _, by simp⟩
  obtain ⟨h1, h2, h3⟩ := lmp_run lens dec (cuts.take (k + 1)) 0 false hsp hv
  refine ⟨_, ?_, h2, ?_⟩
  · rw [hsplit, lmpStages_append]
    have hl : (lmpStages lens dec (cuts.take (k + 1)) 0 false).length = k + 1 := by
      rw [lmpStages_length]; simp; omega
    rw [List.take_append_of_le_length (by omega), List.take_of_length_le (by omega)]
    simpa using h1
  · apply h3
    rw [List.take_succ_eq_append_getElem hk, List.getLast?_concat]
    rfl

/-- **COMPLETENESS of the stage behaviour**: after two polls that see the complete file (the engines poll
    twice more after the MD program stopped) every frame has been returned — one poll may be spent on a
    newline that arrived late. -/
theorem lmpStages_complete {F : Type} (lens : List Nat) (dec : List F)
    (hlen : dec.length = lens.length) (pre : List Nat) (T : Nat)
    (hs : (pre ++ [T, T]).Pairwise (· ≤ ·)) (hT : sumLens lens ≤ T) :
    (lmpStages lens dec (pre ++ [T, T]) 0 false).flatten = dec := by
  have hv : LValid lens (pre ++ [T, T]) 0 false := ⟨Nat.zero_le _, by simp⟩
  obtain ⟨h1, _, _⟩ := lmp_run lens dec (pre ++ [T, T]) 0 false hs hv
  have hsp : pre.Pairwise (· ≤ ·) := hs.sublist (List.sublist_append_left _ _)
  obtain ⟨_, h2, _⟩ := lmp_run lens dec pre 0 false hsp ⟨Nat.zero_le _, by simp⟩
  rw [lmpFinal_append, lmp_final_polls lens dec hlen T hT _ _ h2, ← hlen, List.take_length] at h1
  simpa using h1

example : [3, 44, 44].Pairwise (· ≤ ·) ∧ sumLens [44] ≤ 44 := by decide

/-- SAFETY, NO EXCEPTION and COMPLETENESS of `lammpstrj_reader` in one statement about the reader itself -/
theorem lmp_safety_complete (N : Nat) (hN : 1 ≤ N) (frames : List LmpF) (hwf : ∀ f ∈ frames, f.WF N)
    (cuts : List Nat) (hs : cuts.Pairwise (· ≤ ·)) :
    ∃ stages, pollAll lmpReader (lmpContent frames) cuts 0 = .ok stages
      ∧ stages.length = cuts.length
      ∧ (∀ k (hk : k < cuts.length), ∃ d,
          (stages.take (k + 1)).flatten = (lmpDecoded N frames).take d ∧ d ≤ frames.length
          ∧ sumLens ((lmpLens frames).take d) ≤ cuts[k] + 1)
      ∧ (∀ pre T, cuts = pre ++ [T, T] → (lmpContent frames).length ≤ T →
          stages.flatten = lmpDecoded N frames) := by
  refine ⟨_, lmp_exact N hN frames hwf cuts, lmpStages_length _ _ _ _ _, ?_, ?_⟩
  · intro k hk
    obtain ⟨d, h1, h2, h3⟩ := lmpStages_safety (lmpLens frames) (lmpDecoded N frames) cuts hs k hk
    exact ⟨d, h1, by simpa [lmpLens] using h2, h3⟩
  · intro pre T hc hT
    subst hc
    apply lmpStages_complete _ _ (by simp [lmpDecoded, lmpLens]) pre T hs
    rw [lmpContent, flatten_lenc_length] at hT
    exact hT

example : (1 ≤ 1) ∧ (∀ f ∈ wLmpFrames, f.WF 1) ∧ [41, 60, 94, 94].Pairwise (· ≤ ·)
    ∧ [41, 60, 94, 94] = [41, 60] ++ [94, 94] ∧ (lmpContent wLmpFrames).length ≤ 94 := by
  refine ⟨by decide, wLmp_wf, by decide, rfl, by decide⟩

/-! ## TRR: the size guards of `get_gromacs_frames`

Model `trrTick`/`trrRun` (Model/Readers.lean): one tick = one evaluation of a size guard with the file size
observed at that moment; a frame is abstracted to the sizes of its header and data block.  Decoding, byte
order and precision are outside the model (the tie compares decoded values for all four combinations). -/

/-- **no read is issued unless the bytes are there, and every read is exactly a frame's header or data
    block at that frame's offset** — for every sequence of observed file sizes whatsoever, provided all
    headers have the same size `H ≤ TRR_HEAD_SIZE` (GROMACS: 84 or 92 bytes; data sizes may vary). -/
theorem trr_reads_safe (frames : List TFrame) (H : Nat) (hH : ∀ f ∈ frames, f.hsize = H)
    (hle : H ≤ trrHeadSize) (hpos : 0 < H) (sizes : List Nat) :
    ∀ e ∈ trrRun frames sizes tInit, EvOK frames e :=
  trrRun_ok frames H hH hle hpos sizes tInit (tInit_inv frames H)

example : (∀ f ∈ [(⟨92, 1992⟩ : TFrame), ⟨92, 1992⟩], f.hsize = 92) ∧ 92 ≤ trrHeadSize ∧
    trrRun [⟨92, 1992⟩, ⟨92, 1992⟩] [500, 1000, 2000, 2084, 2100, 2175, 2176, 4000, 4168] tInit
      = [.wait, .read 0 92 1000, .wait, .read 92 1992 2084, .yield 0, .wait, .wait, .read 2084 92 2176,
         .wait, .read 2176 1992 4168, .yield 1] := by
  refine ⟨by decide, by decide, by decide⟩

/-- the first header guard only protects headers of at most `TRR_HEAD_SIZE` bytes (witness: a 1200-byte
    header would be requested with 1000 bytes visible) — the hypothesis `H ≤ TRR_HEAD_SIZE` is needed -/
theorem trr_guard_needs_small_header :
    trrRun [⟨1200, 10⟩] [1000] tInit = [.read 0 1200 1000] ∧ ¬ EvOK [⟨1200, 10⟩] (.read 0 1200 1000) := by
  refine ⟨by decide, ?_⟩
  intro h
  have := h.1
  omega

/-- **no TRR frame is withheld** (heterogeneous frames included): once the header size has been learned,
    a frame that is completely visible is yielded by the next two guard evaluations — the data guard waits
    for the frame's *own* data size, taken from its own header. -/
theorem trr_no_frame_withheld (frames : List TFrame) (H : Nat) (hH : ∀ f ∈ frames, f.hsize = H) (hpos : 0 < H)
    (st : TSt) (hinv : TInv frames H st) (hl : st.headerSize = H) (hp : st.pending = none)
    (f : TFrame) (hf : frames[st.k]? = some f) (size : Nat) (hs : tOffset frames (st.k + 1) ≤ size) :
    TEv.yield st.k ∈ trrRun frames [size, size] st :=
  trr_two_ticks_yield frames H hH hpos st hinv hl hp f hf size hs

/-- frames with different blocks (x+v+f, then x only, then x+v): each guard uses the frame's own size -/
example : trrRun [⟨92, 936⟩, ⟨92, 360⟩, ⟨92, 648⟩] [1000, 1027, 1028, 1479, 1480, 1572, 2219, 2220] tInit
    = [.read 0 92 1000, .wait, .read 92 936 1028, .yield 0, .read 1028 92 1479,
       .read 1120 360 1480, .yield 1, .read 1480 92 1572, .wait, .read 1572 648 2220, .yield 2] := by decide

/-! ### TRR header decoding at byte level (`read_trr_header`, `is_double`) -/

/-- **header bytes → frame size**: for both byte orders and both precisions, the header GROMACS writes
    (magic 1993, (13, 12), "GMX_trn_file", 13 ints < 2³¹, two reals) is decoded to exactly its integers;
    the byte order and precision are recognised; 76 + 2·(4|8) bytes are consumed — so the sizes the guard
    machine `trrRun` works with are functions of the header bytes: header size 84/92, data size
    box+vir+pres+x+v+f of *this* header. -/
theorem trr_header_bytes (little dbl : Bool) (ns : List Nat) (hlen : ns.length = 13)
    (hb : ∀ n ∈ ns, n < 2147483648) (hd : isDouble (ns.map Int.ofNat) = .ok dbl)
    (reals : List Nat) (hr : reals.length = 2 * (if dbl then 8 else 4)) (rest : List Nat) :
    ∃ h, trrHeader (encHeader little ns reals ++ rest) = .ok (h, rest)
      ∧ h.little = little ∧ h.double = dbl ∧ h.ints = ns.map Int.ofNat
      ∧ h.frame = ⟨76 + 2 * (if dbl then 8 else 4), (dataSize (ns.map Int.ofNat)).toNat⟩ :=
  ⟨_, trrHeader_encHeader little dbl ns hlen hb hd reals hr rest, rfl, rfl, rfl, rfl⟩

/-- 12 atoms, double precision, box + x + v, written little-endian, followed by 3 further bytes -/
example : isDouble ([0, 0, 72, 0, 0, 0, 0, 288, 288, 0, 12, 5, 0].map Int.ofNat) = .ok true ∧
    (trrHeader (encHeader true [0, 0, 72, 0, 0, 0, 0, 288, 288, 0, 12, 5, 0] (List.replicate 16 7) ++ [1, 2, 3])).map
      (fun r => (r.1.frame.hsize, r.1.frame.dsize, r.1.little, r.1.double, r.2)) = .ok (92, 648, true, true, [1, 2, 3]) := by
  refine ⟨by decide, by decide⟩

end Infretis.C13
