import Infretis.Lemmas.ReadersXyz
import Infretis.Lemmas.ReadersLmpRun
import Infretis.Lemmas.ReadersSpec
import Infretis.Lemmas.ReadersTrr
import Infretis.Lemmas.ReadersObj
import Infretis.Lemmas.ReadersTrrData
import Infretis.Lemmas.ReadersGmx
import Infretis.Lemmas.ReadersLmpAny
import Infretis.Lemmas.ReadersObjAny
/-!
# C13 — on-the-fly trajectory readers never return a torn frame

Property theorems only.  Model: `Infretis/Model/Readers.lean` (mirrors `ReadAndProcessOnTheFly`,
`xyz_reader`, `lammpstrj_reader` of engineparts.py); lemmas: `Infretis/Lemmas/Readers*.lean`.

A trajectory is the text the MD program writes, frame by frame and line by line (`XyzF`, `LmpF`);
well-formedness (`XyzF.WF N`, `LmpF.WF N`) asks for complete lines, the atom count `N ≥ 1` on the
count line, float literals where numbers are read — and nothing about the amount of blanks, the
number formats, the comment line or the order of the atom ids.  The *values* of a frame
(`decode`) are the number tokens of its complete lines, exactly as written.  A cut sequence is any
list of prefix lengths; `pollAll reader content cuts 0` polls one reader object once per prefix.

`exactStages lens decoded cuts 0` is the behaviour the property demands: every poll returns exactly
the not yet returned frames that are completely inside the visible bytes.

TRR (`get_gromacs_frames`): the size-guard state machine `trrRun` and, since the extension pass, the whole generator
at byte level (`gGen`, Model/ReadersObj.lean); the decoding of the reals is checked by the tie.

Carriage returns: since /repo d5ef98e the readers open with `newline="\n"`, so '\r' is an ordinary blank and only
'\n' ends a line — exactly what `lines` / `isBlank` of the model do; `XyzF.WF` / `LmpF.WF` put no condition on
'\r' (CRLF files, lone '\r' as a blank or in free text are inside the theorems; witness `wCR` below).
LAMMPS: the whole-schedule theorems without any cut guard are the `*_any_slack` theorems at the end of this file
(per-frame-slack specification `lmpStagesS`, Model/ReadersSlack.lean); `lmp_exact` (slack = 1) and the
`*_trailing_partial` theorems (cut guard `tbFree`) are kept as they were.
-/
namespace Infretis.C13
open Infretis.Readers

def xyzContent (frames : List XyzF) : List Char := (frames.map XyzF.enc).flatten
def xyzLens (frames : List XyzF) : List Nat := frames.map XyzF.len
def xyzDecoded (frames : List XyzF) : List XFrame := frames.map XyzF.decode

/-! ## concrete witnesses (also used for the non-vacuity examples) -/

/-- "2\ncomment\nH 1.0 2.0 3.0\nC 4.0 5.0 6.283185\n" (43 bytes) -/
def wF1 : XyzF :=
  { cnt := ['2', '\n'],
    cmt := ['c', 'o', 'm', 'm', 'e', 'n', 't', '\n'],
    atoms := [['H', ' ', '1', '.', '0', ' ', '2', '.', '0', ' ', '3', '.', '0', '\n'],
              ['C', ' ', '4', '.', '0', ' ', '5', '.', '0', ' ', '6', '.', '2', '8', '3', '1', '8', '5', '\n']] }

/-- "   2\ncomment\nH 1.5 2.5 3.5\nC 4.5 5.5 -6.5e-1\n" (45 bytes; CP2K-style padded count line) -/
def wF2 : XyzF :=
  { cnt := [' ', ' ', ' ', '2', '\n'],
    cmt := ['c', 'o', 'm', 'm', 'e', 'n', 't', '\n'],
    atoms := [['H', ' ', '1', '.', '5', ' ', '2', '.', '5', ' ', '3', '.', '5', '\n'],
              ['C', ' ', '4', '.', '5', ' ', '5', '.', '5', ' ', '-', '6', '.', '5', 'e', '-', '1', '\n']] }

def witness : List XyzF := [wF1, wF2]

theorem isLine_of (l body : List Char) (h : l = body ++ ['\n']) (hb : '\n' ∉ body) : IsLine l :=
  ⟨body, h, hb⟩

theorem wF1_wf : wF1.WF 2 where
  cnt := isLine_of _ ['2'] rfl (by decide)
  cntTok := ⟨['2'], [], by decide, by decide⟩
  cmt := isLine_of _ ['c', 'o', 'm', 'm', 'e', 'n', 't'] rfl (by decide)
  natoms := rfl
  atoms := by
    intro a ha
    simp only [wF1, List.mem_cons, List.not_mem_nil, or_false] at ha
    rcases ha with rfl | rfl
    · exact ⟨isLine_of _ ['H', ' ', '1', '.', '0', ' ', '2', '.', '0', ' ', '3', '.', '0'] rfl (by decide), by decide, by decide⟩
    · exact ⟨isLine_of _ ['C', ' ', '4', '.', '0', ' ', '5', '.', '0', ' ', '6', '.', '2', '8', '3', '1', '8', '5'] rfl (by decide), by decide, by decide⟩

theorem wF2_wf : wF2.WF 2 where
  cnt := isLine_of _ [' ', ' ', ' ', '2'] rfl (by decide)
  cntTok := ⟨['2'], [], by decide, by decide⟩
  cmt := isLine_of _ ['c', 'o', 'm', 'm', 'e', 'n', 't'] rfl (by decide)
  natoms := rfl
  atoms := by
    intro a ha
    simp only [wF2, List.mem_cons, List.not_mem_nil, or_false] at ha
    rcases ha with rfl | rfl
    · exact ⟨isLine_of _ ['H', ' ', '1', '.', '5', ' ', '2', '.', '5', ' ', '3', '.', '5'] rfl (by decide), by decide, by decide⟩
    · exact ⟨isLine_of _ ['C', ' ', '4', '.', '5', ' ', '5', '.', '5', ' ', '-', '6', '.', '5', 'e', '-', '1'] rfl (by decide), by decide, by decide⟩

theorem witness_wf : ∀ f ∈ witness, f.WF 2 := by
  intro f hf
  simp only [witness, List.mem_cons, List.not_mem_nil, or_false] at hf
  rcases hf with rfl | rfl
  · exact wF1_wf
  · exact wF2_wf

deriving instance DecidableEq for Except

/-! ## the xyz reader as it is: the property fails -/

/-- the torn frame: the last number reads `6.2`, written was `6.283185` -/
def tornFrame : XFrame :=
  [[['1', '.', '0'], ['2', '.', '0'], ['3', '.', '0']],
   [['4', '.', '0'], ['5', '.', '0'], ['6', '.', '2']]]

/-- **SAFETY fails for `xyz_reader` as it is.**  With 37 of the 88 bytes visible (the cut lies inside
    the last number of the first frame) the first poll returns a frame — none is completely on disk —
    whose last value is torn (`6.2` for `6.283185`); and although the file is then completed and polled
    three more times, no further frame is ever returned: the second frame is lost. -/
theorem xyz_safety_counterexample :
    (∀ f ∈ witness, f.WF 2) ∧
    pollAll (xyzReader .asIs) (xyzContent witness) [37, 88, 88, 88] 0 = .ok [[tornFrame], [], [], []] ∧
    tornFrame ∉ xyzDecoded witness ∧
    completeCount (xyzLens witness) 37 = 0 ∧
    pollAll (xyzReader .asIs) (xyzContent witness) [37, 88, 88, 88] 0
      ≠ .ok (exactStages (xyzLens witness) (xyzDecoded witness) [37, 88, 88, 88] 0) := by
  refine ⟨witness_wf, by decide, by decide, by decide, by decide⟩

/-- **NO EXCEPTION fails for `xyz_reader` as it is**, in three ways: a cut just in front of the final
    newline of a frame (the next poll starts on a blank line: `i % 0`), a cut inside the leading blanks
    of the atom-count line (blank first line: `i % 0`), a cut behind the sign or inside the exponent of
    a number (`float("-")`, `float("-6.5e")`). -/
theorem xyz_noexception_counterexample :
    pollAll (xyzReader .asIs) (xyzContent witness) [42, 88] 0 = .error .zerodiv ∧
    pollAll (xyzReader .asIs) (xyzContent witness) [43, 45] 0 = .error .zerodiv ∧
    pollAll (xyzReader .asIs) (xyzContent witness) [43, 81] 0 = .error .value ∧
    pollAll (xyzReader .asIs) (xyzContent witness) [43, 85] 0 = .error .value := by
  refine ⟨by decide, by decide, by decide, by decide⟩

/-! ## the xyz reader: what does hold -/

/-- **Exactness of the repaired reader, for every byte cut** (this contains NO EXCEPTION): for every
    well-formed trajectory and *every* list of cut points the poll-by-poll output of the `repaired` reader
    is that of the exact reader. -/
theorem xyz_repaired_exact (N : Nat) (hN : 1 ≤ N) (frames : List XyzF) (hwf : ∀ f ∈ frames, f.WF N)
    (cuts : List Nat) :
    pollAll (xyzReader .repaired) (xyzContent frames) cuts 0
      = .ok (exactStages (xyzLens frames) (xyzDecoded frames) cuts 0) := by
  have := xyz_pollAll .repaired N hN frames hwf cuts (Or.inl rfl) 0 (Nat.zero_le _)
  simpa [sumLens, xyzContent, xyzLens, xyzDecoded] using this

example : pollAll (xyzReader .repaired) (xyzContent witness) [37, 42, 43, 45, 81, 85, 88] 0
    = .ok [[], [], [wF1.decode], [], [], [], [wF2.decode]] := by decide

/-- **`xyz_safety_partial`: the reader as it is, cuts at line ends only.**  If every visible prefix is
    empty or ends with a newline (the guard that excludes the defect), the as-is reader is exact, too. -/
theorem xyz_safety_partial (N : Nat) (hN : 1 ≤ N) (frames : List XyzF) (hwf : ∀ f ∈ frames, f.WF N)
    (cuts : List Nat) (hcuts : ∀ c ∈ cuts, LineEnd ((xyzContent frames).take c)) :
    pollAll (xyzReader .asIs) (xyzContent frames) cuts 0
      = .ok (exactStages (xyzLens frames) (xyzDecoded frames) cuts 0) := by
  have := xyz_pollAll .asIs N hN frames hwf cuts (Or.inr hcuts) 0 (Nat.zero_le _)
  simpa [sumLens, xyzContent, xyzLens, xyzDecoded] using this

example : (∀ c ∈ [2, 24, 43, 56, 88], LineEnd ((xyzContent witness).take c)) ∧
    pollAll (xyzReader .asIs) (xyzContent witness) [2, 24, 43, 56, 88] 0
      = .ok [[], [], [wF1.decode], [], [wF2.decode]] := by
  refine ⟨?_, by decide⟩
  intro c hc
  simp only [List.mem_cons, List.not_mem_nil, or_false] at hc
  rcases hc with rfl | rfl | rfl | rfl | rfl <;> exact Or.inr (by decide)

/-- **SAFETY** (what "exact" means, stage by stage): with non-decreasing cuts, after every poll the frames
    returned so far are precisely the frames completely contained in the visible bytes — a prefix of
    the trajectory, each frame once, in order, tokens exactly as written — and they really fit into the
    visible bytes (no torn frame). Holds for any reader whose stages are `exactStages`. -/
theorem exact_safety {F : Type} (lens : List Nat) (dec : List F) (cuts : List Nat)
    (hs : cuts.Pairwise (· ≤ ·)) (k : Nat) (hk : k < cuts.length) :
    ((exactStages lens dec cuts 0).take (k + 1)).flatten = dec.take (completeCount lens cuts[k])
    ∧ sumLens (lens.take (completeCount lens cuts[k])) ≤ cuts[k] := by
  refine ⟨?_, completeCount_sum_le _ _⟩
  have := exactStages_prefix lens dec cuts 0 hs (fun _ _ => Nat.zero_le _) k hk
  simpa using this

/-- **COMPLETENESS**: once a poll has seen the whole file, everything has been returned. -/
theorem exact_complete {F : Type} (lens : List Nat) (dec : List F) (hlen : dec.length = lens.length)
    (pre : List Nat) (T : Nat) (hs : (pre ++ [T]).Pairwise (· ≤ ·)) (hT : sumLens lens ≤ T) :
    (exactStages lens dec (pre ++ [T]) 0).flatten = dec := by
  have hk : pre.length < (pre ++ [T]).length := by simp
  have := exactStages_prefix lens dec (pre ++ [T]) 0 hs (fun _ _ => Nat.zero_le _) pre.length hk
  have hl := exactStages_length lens dec (pre ++ [T]) 0
  have hl' : (exactStages lens dec (pre ++ [T]) 0).length ≤ pre.length + 1 := by rw [hl]; simp
  rw [List.take_of_length_le hl'] at this
  simp only [List.take_zero, List.nil_append] at this
  rw [this]
  have hT' : (pre ++ [T])[pre.length] = T := by simp
  rw [hT', completeCount_all lens T hT, ← hlen, List.take_length]

/-- SAFETY and COMPLETENESS of the repaired xyz reader in one statement -/
theorem xyz_repaired_safety_complete (N : Nat) (hN : 1 ≤ N) (frames : List XyzF)
    (hwf : ∀ f ∈ frames, f.WF N) (cuts : List Nat) (hs : cuts.Pairwise (· ≤ ·)) :
    ∃ stages, pollAll (xyzReader .repaired) (xyzContent frames) cuts 0 = .ok stages
      ∧ stages.length = cuts.length
      ∧ (∀ k (hk : k < cuts.length),
          (stages.take (k + 1)).flatten = (xyzDecoded frames).take (completeCount (xyzLens frames) cuts[k])
          ∧ sumLens ((xyzLens frames).take (completeCount (xyzLens frames) cuts[k])) ≤ cuts[k])
      ∧ (∀ c ∈ cuts.getLast?, (xyzContent frames).length ≤ c → stages.flatten = xyzDecoded frames) := by
  refine ⟨_, xyz_repaired_exact N hN frames hwf cuts, exactStages_length _ _ _ _, ?_, ?_⟩
  · intro k hk
    exact exact_safety _ _ cuts hs k hk
  · intro c hc hle
    obtain ⟨pre, rfl⟩ : ∃ pre, cuts = pre ++ [c] := by
      have := List.getLast?_eq_some_iff.mp (Option.mem_def.mp hc)
      exact this
    apply exact_complete _ _ (by simp [xyzDecoded, xyzLens]) pre c hs
    rw [xyzContent, flatten_enc_length] at hle
    exact hle

example : (1 ≤ 2) ∧ (∀ f ∈ witness, f.WF 2) ∧ [37, 42, 88].Pairwise (· ≤ ·) := by
  refine ⟨by decide, witness_wf, by decide⟩

/-! ## polls without growth, polls before the file exists

`xyz_repaired_exact` and `lmp_exact` quantify over *every* cut list, so schedules with several polls at the
same size (also as the last polls) are included.  Two consequences spelled out: -/

/-- a poll of an empty file — or of a file that does not exist yet, for which
    `read_and_process_content` returns `[]` without calling the reader — returns nothing, moves nothing -/
theorem poll_empty_file (v : Variant) (pos : Nat) :
    xyzReader v [] pos = .ok ([], pos) ∧ lmpReader v [] pos = .ok ([], pos) := by
  refine ⟨?_, ?_⟩ <;> simp [xyzReader, lmpReader, lines, xyzRun, lmpRun, finish, xInit, lInit]

/-- **a poll without growth returns nothing** (exact reader): the second of two polls at the same size
    has an empty stage, whatever happened before and whatever follows -/
theorem no_growth_poll_returns_nothing {F : Type} (lens : List Nat) (dec : List F) (c : Nat) (cs : List Nat)
    (done : Nat) : (exactStages lens dec (c :: c :: cs) done)[1]? = some [] := by
  have hres := completeCount_resume (lens.drop done) (completeCount (lens.drop done) (c - sumLens (lens.take done)))
    (c - sumLens (lens.take done)) (Nat.le_refl _)
  have h0 : completeCount ((lens.drop done).drop (completeCount (lens.drop done) (c - sumLens (lens.take done))))
      (c - sumLens (lens.take done)
        - sumLens ((lens.drop done).take (completeCount (lens.drop done) (c - sumLens (lens.take done))))) = 0 := by
    omega
  simp only [exactStages, List.getElem?_cons_succ, List.getElem?_cons_zero, Option.some.injEq]
  rw [sumLens_take_add', ← List.drop_drop, Nat.sub_add_eq, h0]
  simp

example : exactStages [43, 45] [0, 1] [43, 43, 43, 88, 88, 88] 0 = [[0], [], [], [1], [], []] := by decide

/-! ## non-ASCII text

The content is bytes; '\n' is the only structural byte.  All bytes of UTF-8 multi-byte characters are
≥ 0x80, so they can neither end a line nor separate tokens: the theorems above and below hold verbatim for
trajectories with arbitrary non-ASCII text in the comment line, atom names and header texts, and for
cuts inside a multi-byte character (`XyzF.WF`/`LmpF.WF` put no condition on those bytes). -/

theorem text_nonascii_inert (c : Char) (h : 128 ≤ c.toNat) : c ≠ '\n' ∧ isBlank c = false :=
  nonascii_not_structural c h

/-- "1\n a = 5 Å\nCα 1.0 2.0 3.0\n" as bytes (Å = c3 85, α = ce b1) -/
def wU : XyzF :=
  { cnt := ['1', '\n'],
    cmt := [' ', 'a', ' ', '=', ' ', '5', ' ', '\xc3', '\x85', '\n'],
    atoms := [['C', '\xce', '\xb1', ' ', '1', '.', '0', ' ', '2', '.', '0', ' ', '3', '.', '0', '\n']] }

theorem wU_wf : wU.WF 1 where
  cnt := isLine_of _ ['1'] rfl (by decide)
  cntTok := ⟨['1'], [], by decide, by decide⟩
  cmt := isLine_of _ [' ', 'a', ' ', '=', ' ', '5', ' ', '\xc3', '\x85'] rfl (by decide)
  natoms := rfl
  atoms := by
    intro a ha
    simp only [wU, List.mem_cons, List.not_mem_nil, or_false] at ha
    subst ha
    exact ⟨isLine_of _ ['C', '\xce', '\xb1', ' ', '1', '.', '0', ' ', '2', '.', '0', ' ', '3', '.', '0'] rfl (by decide), by decide, by decide⟩

/-- cuts inside Å (byte 10) and inside α (byte 14), then the complete 28-byte frame twice -/
example : (∀ f ∈ [wU, wU], f.WF 1) ∧
    pollAll (xyzReader .repaired) (xyzContent [wU, wU]) [10, 14, 28, 38, 42, 56] 0
      = .ok [[], [], [wU.decode], [], [], [wU.decode]] := by
  refine ⟨?_, by decide⟩
  intro f hf
  simp only [List.mem_cons, List.not_mem_nil, or_false] at hf
  rcases hf with rfl | rfl <;> exact wU_wf

/-! ## the LAMMPS reader

`LmpF.WF N`: complete lines; the first line not white space only; line 4 starts with the integer `N ≥ 1`; three
box lines of two or three float literals; `N` atom lines `id type x y z vx vy vz id` (nine tokens, first = last, a
valid row index, float literals, ANY blanks/tabs between the trailing id and the newline — what LAMMPS writes);
header texts, blanks, number formats, id order arbitrary.  `f.slack` = number of bytes behind the trailing id of
the LAST atom line of the frame (its white space and the newline; 1 = only the newline).
`lmpStages` states the reader's one-poll lag honestly: a frame is returned as soon as everything but
its final newline is visible; the poll that then meets this newline only skips it and returns nothing. -/

def lmpContent (frames : List LmpF) : List Char := (frames.map LmpF.enc).flatten
def lmpLens (frames : List LmpF) : List Nat := frames.map LmpF.len
def lmpDecoded (N : Nat) (frames : List LmpF) : List LFrame := frames.map (LmpF.decode N)

/-- the terminating newline does not change what `line.split()` returns -/
theorem lmp_newline_irrelevant (body : List Char) : split (body ++ ['\n']) = split body :=
  split_append_nl body

/-- **trailing-id sentinel**: for an atom line `id type x y z vx vy vz id` (nine tokens, first = last, no
    blank after the trailing id, any blanks elsewhere) every strict prefix is rejected by
    `len(spl) != 9 or spl[0] != spl[-1]` — no torn atom line is ever accepted, at any byte cut. -/
theorem lmp_torn_atom_line_rejected (st : LSt) (body init : List Char) (c : Char)
    (hb : body = init ++ [c]) (hc : isBlank c = false) (h9 : (split body).length = 9)
    (hid : (split body).head? = (split body).getLast?) (n : Nat) (hn : n < body.length)
    (hline : 9 ≤ st.i % st.block) (tell' : Nat) :
    lBody st ((body ++ ['\n']).take n) (split ((body ++ ['\n']).take n)) tell' = .ret (st.traj, st.pos) :=
  lBody_torn_atom st body init c hb hc h9 hid n hn hline tell'

example : (split ['1', '2', ' ', '1', ' ', '1', ' ', '2', ' ', '3', ' ', '4', ' ', '5', ' ', '6', ' ', '1', '2']).length = 9
    ∧ (split ['1', '2', ' ', '1', ' ', '1', ' ', '2', ' ', '3', ' ', '4', ' ', '5', ' ', '6', ' ', '1', '2']).head? = (split ['1', '2', ' ', '1', ' ', '1', ' ', '2', ' ', '3', ' ', '4', ' ', '5', ' ', '6', ' ', '1', '2']).getLast?
    ∧ isBlank '2' = false := by decide

/-- "T\n0\nN\n1\nB\n0 1\n0 1\n0 1\nA\n1 1 1 2 3 4 5 6 1\n" (42 bytes; header texts shortened — the reader
    never looks at them) -/
def wL1 : LmpF :=
  { l0 := ['T', '\n'],
    l1 := ['0', '\n'],
    l2 := ['N', '\n'],
    l3 := ['1', '\n'],
    l4 := ['B', '\n'],
    b0 := ['0', ' ', '1', '\n'],
    b1 := ['0', ' ', '1', '\n'],
    b2 := ['0', ' ', '1', '\n'],
    l8 := ['A', '\n'],
    atoms := [['1', ' ', '1', ' ', '1', ' ', '2', ' ', '3', ' ', '4', ' ', '5', ' ', '6', ' ', '1', '\n']] }

/-- "T\n5\nN\n1\nB\n0 2 0\n0 2 0\n0 2 0\nA\n1 1 7 8 9 -1 .5 6e1 1\n" (52 bytes, 3-column box lines) -/
def wL2 : LmpF :=
  { l0 := ['T', '\n'],
    l1 := ['5', '\n'],
    l2 := ['N', '\n'],
    l3 := ['1', '\n'],
    l4 := ['B', '\n'],
    b0 := ['0', ' ', '2', ' ', '0', '\n'],
    b1 := ['0', ' ', '2', ' ', '0', '\n'],
    b2 := ['0', ' ', '2', ' ', '0', '\n'],
    l8 := ['A', '\n'],
    atoms := [['1', ' ', '1', ' ', '7', ' ', '8', ' ', '9', ' ', '-', '1', ' ', '.', '5', ' ', '6', 'e', '1', ' ', '1', '\n']] }

theorem wL1_wf : wL1.WF 1 where
  l0 := isLine_of _ ['T'] rfl (by decide)
  l0nb := ⟨'T', by decide, by decide⟩
  l1 := isLine_of _ ['0'] rfl (by decide)
  l2 := isLine_of _ ['N'] rfl (by decide)
  l3 := isLine_of _ ['1'] rfl (by decide)
  l3tok := ⟨['1'], [], by decide, by decide⟩
  l4 := isLine_of _ ['B'] rfl (by decide)
  b0 := ⟨isLine_of _ ['0', ' ', '1'] rfl (by decide), by decide, by decide⟩
  b1 := ⟨isLine_of _ ['0', ' ', '1'] rfl (by decide), by decide, by decide⟩
  b2 := ⟨isLine_of _ ['0', ' ', '1'] rfl (by decide), by decide, by decide⟩
  l8 := isLine_of _ ['A'] rfl (by decide)
  natoms := rfl
  atoms := by
    intro a ha
    simp only [wL1, List.mem_cons, List.not_mem_nil, or_false] at ha
    subst ha
    exact ⟨⟨['1', ' ', '1', ' ', '1', ' ', '2', ' ', '3', ' ', '4', ' ', '5', ' ', '6', ' '], '1', [], rfl, by decide, by decide, by simp⟩,
      ⟨by decide, by decide, ⟨1, 0, by decide, by decide⟩, by decide⟩⟩

theorem wL2_wf : wL2.WF 1 where
  l0 := isLine_of _ ['T'] rfl (by decide)
  l0nb := ⟨'T', by decide, by decide⟩
  l1 := isLine_of _ ['5'] rfl (by decide)
  l2 := isLine_of _ ['N'] rfl (by decide)
  l3 := isLine_of _ ['1'] rfl (by decide)
  l3tok := ⟨['1'], [], by decide, by decide⟩
  l4 := isLine_of _ ['B'] rfl (by decide)
  b0 := ⟨isLine_of _ ['0', ' ', '2', ' ', '0'] rfl (by decide), by decide, by decide⟩
  b1 := ⟨isLine_of _ ['0', ' ', '2', ' ', '0'] rfl (by decide), by decide, by decide⟩
  b2 := ⟨isLine_of _ ['0', ' ', '2', ' ', '0'] rfl (by decide), by decide, by decide⟩
  l8 := isLine_of _ ['A'] rfl (by decide)
  natoms := rfl
  atoms := by
    intro a ha
    simp only [wL2, List.mem_cons, List.not_mem_nil, or_false] at ha
    subst ha
    exact ⟨⟨['1', ' ', '1', ' ', '7', ' ', '8', ' ', '9', ' ', '-', '1', ' ', '.', '5', ' ', '6', 'e', '1', ' '], '1', [], rfl, by decide, by decide, by simp⟩,
      ⟨by decide, by decide, ⟨1, 0, by decide, by decide⟩, by decide⟩⟩

def wLmpFrames : List LmpF := [wL1, wL2]

theorem wLmp_wf : ∀ f ∈ wLmpFrames, f.WF 1 := by
  intro f hf
  simp only [wLmpFrames, List.mem_cons, List.not_mem_nil, or_false] at hf
  rcases hf with rfl | rfl
  · exact wL1_wf
  · exact wL2_wf

/-- **`lmp_exact_trailing_partial`: exactness of `lammpstrj_reader` (the code as it is now), atom lines with any
    white space behind the trailing id** — for every list of cut points none of which falls strictly inside the
    white space behind the trailing id of a frame's LAST atom line (`tbFree`: the first incomplete frame misses
    more than its `slack` bytes, or exactly its final newline): the reader polled on the growing file returns,
    poll by poll, exactly what `lmpStages` says.  This contains NO EXCEPTION.
    What is missing for the unguarded statement: a cut inside that white space makes the reader return the frame
    already then (`lmp_trailing_frame_poll`, all values are there) and the next polls skip the late line end
    (`lmp_late_line_end_skipped`); the poll-by-poll specification `lmpStages` knows only the one-byte lag and
    has not been generalised to a per-frame `slack`. -/
theorem lmp_exact_trailing_partial (N : Nat) (hN : 1 ≤ N) (frames : List LmpF) (hwf : ∀ f ∈ frames, f.WF N)
    (cuts : List Nat) (hfree : ∀ c ∈ cuts, tbFree frames c) :
    pollAll (lmpReader .repaired) (lmpContent frames) cuts 0
      = .ok (lmpStages (lmpLens frames) (lmpDecoded N frames) cuts 0 false) := by
  have := lmp_pollAll (v := .repaired) N hN frames hwf cuts
    (fun c hc d hd => tbFree_drop N hN frames hwf c (hfree c hc) d hd) 0 false (Nat.zero_le _) (by intro h; cases h)
  simpa [sumLens, lmpContent, lmpLens, lmpDecoded] using this

/-- **Exactness of `lammpstrj_reader` for every byte cut** (this contains NO EXCEPTION): for every
    well-formed LAMMPS trajectory whose frames end right behind the trailing id of their last atom line
    (`slack = 1`; all other atom lines may carry any white space there) and *every* list of cut points, the
    reader object polled on the growing file returns, poll by poll, exactly what `lmpStages` says. -/
theorem lmp_exact (N : Nat) (hN : 1 ≤ N) (frames : List LmpF) (hwf : ∀ f ∈ frames, f.WF N)
    (hntb : ∀ f ∈ frames, f.slack = 1) (cuts : List Nat) :
    pollAll (lmpReader .repaired) (lmpContent frames) cuts 0
      = .ok (lmpStages (lmpLens frames) (lmpDecoded N frames) cuts 0 false) :=
  lmp_exact_trailing_partial N hN frames hwf cuts (fun c _ => tbFree_of_slack_one frames hntb c)

instance : DecidableEq LFrame := inferInstanceAs (DecidableEq (List (List (List Char)) × List (List (List Char))))

/-- non-vacuity, incl. the late-newline lag: cut 41 = everything but the final newline of frame 1 — the
    frame is returned; the next poll only skips the newline; the poll after that returns frame 2 -/
example : (1 ≤ 1) ∧ (∀ f ∈ wLmpFrames, f.WF 1) ∧
    pollAll (lmpReader .repaired) (lmpContent wLmpFrames) [1, 7, 12, 20, 30, 40, 41, 94, 94, 94] 0
      = .ok [[], [], [], [], [], [], [wL1.decode 1], [], [wL2.decode 1], []] := by
  refine ⟨by decide, wLmp_wf, by decide⟩

/-- **values exactly as written**: in a decoded frame, the row `id − 1` of every atom holds its six tokens
    `x y z vx vy vz` (given that the ids of the frame go to pairwise different rows) -/
theorem lmp_decode_row (N : Nat) (f : LmpF) (hf : f.WF N)
    (hd : f.atoms.Pairwise (fun x y => atomIdx N x ≠ atomIdx N y)) (a : Line) (ha : a ∈ f.atoms) :
    ∃ k, atomIdx N a = some k ∧ k < N ∧ (f.decode N).1[k]? = some (((split a).drop 2).take 6) := by
  obtain ⟨id, k, hp, hk⟩ := (hf.atoms a ha).tok.idx
  have hka : atomIdx N a = some k := by
    unfold atomIdx; rw [hp]; exact hk
  have hkN : k < N := by
    unfold pyIndex at hk
    split at hk
    · injection hk with hk; omega
    · split at hk
      · injection hk with hk; omega
      · cases hk
  exact ⟨k, hka, hkN, decode_row N f.atoms (zeros N 6) hd a ha k hka (by simp [zeros]; exact hkN)⟩

example : (wL2.decode 1).1[0]? = some [['7'], ['8'], ['9'], ['-', '1'], ['.', '5'], ['6', 'e', '1']] := by decide

/-- **SAFETY of the stage behaviour (with the lag stated)**: for non-decreasing cuts, after every poll the
    frames returned so far are a prefix of the trajectory (each once, in order), and all their bytes
    except possibly the final newline of the last one were visible at that poll (no torn frame). -/
theorem lmpStages_safety {F : Type} (lens : List Nat) (dec : List F) (cuts : List Nat)
    (hs : cuts.Pairwise (· ≤ ·)) (k : Nat) (hk : k < cuts.length) :
    ∃ d, ((lmpStages lens dec cuts 0 false).take (k + 1)).flatten = dec.take d ∧ d ≤ lens.length
      ∧ sumLens (lens.take d) ≤ cuts[k] + 1 := by
  have hsplit : cuts = cuts.take (k + 1) ++ cuts.drop (k + 1) := (List.take_append_drop _ _).symm
  have hsp : (cuts.take (k + 1)).Pairwise (· ≤ ·) := hs.sublist (List.take_sublist _ _)
  have hv : LValid lens (cuts.take (k + 1)) 0 false := ⟨Nat.zero_le _, by simp⟩
  obtain ⟨h1, h2, h3⟩ := lmp_run lens dec (cuts.take (k + 1)) 0 false hsp hv
  refine ⟨_, ?_, h2, ?_⟩
  · rw [hsplit, lmpStages_append]
    have hl : (lmpStages lens dec (cuts.take (k + 1)) 0 false).length = k + 1 := by
      rw [lmpStages_length]; simp; omega
    rw [List.take_append_of_le_length (by omega), List.take_of_length_le (by omega)]
    simpa using h1
  · apply h3
    rw [List.take_succ_eq_append_getElem hk, List.getLast?_concat]
    rfl

/-- **COMPLETENESS of the stage behaviour**: after two polls that see the complete file (the engines poll
    twice more after the MD program stopped) every frame has been returned — one poll may be spent on a
    newline that arrived late. -/
theorem lmpStages_complete {F : Type} (lens : List Nat) (dec : List F)
    (hlen : dec.length = lens.length) (pre : List Nat) (T : Nat)
    (hs : (pre ++ [T, T]).Pairwise (· ≤ ·)) (hT : sumLens lens ≤ T) :
    (lmpStages lens dec (pre ++ [T, T]) 0 false).flatten = dec := by
  have hv : LValid lens (pre ++ [T, T]) 0 false := ⟨Nat.zero_le _, by simp⟩
  obtain ⟨h1, _, _⟩ := lmp_run lens dec (pre ++ [T, T]) 0 false hs hv
  have hsp : pre.Pairwise (· ≤ ·) := hs.sublist (List.sublist_append_left _ _)
  obtain ⟨_, h2, _⟩ := lmp_run lens dec pre 0 false hsp ⟨Nat.zero_le _, by simp⟩
  rw [lmpFinal_append, lmp_final_polls lens dec hlen T hT _ _ h2, ← hlen, List.take_length] at h1
  simpa using h1

example : [3, 44, 44].Pairwise (· ≤ ·) ∧ sumLens [44] ≤ 44 := by decide

/-- SAFETY, NO EXCEPTION and COMPLETENESS of `lammpstrj_reader` (code as it is now) for trajectories with any
    white space behind the trailing ids, under the cut guard of `lmp_exact_trailing_partial` -/
theorem lmp_safety_complete_trailing_partial (N : Nat) (hN : 1 ≤ N) (frames : List LmpF)
    (hwf : ∀ f ∈ frames, f.WF N) (cuts : List Nat) (hs : cuts.Pairwise (· ≤ ·))
    (hfree : ∀ c ∈ cuts, tbFree frames c) :
    ∃ stages, pollAll (lmpReader .repaired) (lmpContent frames) cuts 0 = .ok stages
      ∧ stages.length = cuts.length
      ∧ (∀ k (hk : k < cuts.length), ∃ d,
          (stages.take (k + 1)).flatten = (lmpDecoded N frames).take d ∧ d ≤ frames.length
          ∧ sumLens ((lmpLens frames).take d) ≤ cuts[k] + 1)
      ∧ (∀ pre T, cuts = pre ++ [T, T] → (lmpContent frames).length ≤ T →
          stages.flatten = lmpDecoded N frames) := by
  refine ⟨_, lmp_exact_trailing_partial N hN frames hwf cuts hfree, lmpStages_length _ _ _ _ _, ?_, ?_⟩
  · intro k hk
    obtain ⟨d, h1, h2, h3⟩ := lmpStages_safety (lmpLens frames) (lmpDecoded N frames) cuts hs k hk
    exact ⟨d, h1, by simpa [lmpLens] using h2, h3⟩
  · intro pre T hc hT
    subst hc
    apply lmpStages_complete _ _ (by simp [lmpDecoded, lmpLens]) pre T hs
    rw [lmpContent, flatten_lenc_length] at hT
    exact hT

/-- SAFETY, NO EXCEPTION and COMPLETENESS of `lammpstrj_reader` in one statement about the reader itself -/
theorem lmp_safety_complete (N : Nat) (hN : 1 ≤ N) (frames : List LmpF) (hwf : ∀ f ∈ frames, f.WF N)
    (hntb : ∀ f ∈ frames, f.slack = 1) (cuts : List Nat) (hs : cuts.Pairwise (· ≤ ·)) :
    ∃ stages, pollAll (lmpReader .repaired) (lmpContent frames) cuts 0 = .ok stages
      ∧ stages.length = cuts.length
      ∧ (∀ k (hk : k < cuts.length), ∃ d,
          (stages.take (k + 1)).flatten = (lmpDecoded N frames).take d ∧ d ≤ frames.length
          ∧ sumLens ((lmpLens frames).take d) ≤ cuts[k] + 1)
      ∧ (∀ pre T, cuts = pre ++ [T, T] → (lmpContent frames).length ≤ T →
          stages.flatten = lmpDecoded N frames) :=
  lmp_safety_complete_trailing_partial N hN frames hwf cuts hs (fun c _ => tbFree_of_slack_one frames hntb c)

example : (1 ≤ 1) ∧ (∀ f ∈ wLmpFrames, f.WF 1) ∧ [41, 60, 94, 94].Pairwise (· ≤ ·)
    ∧ [41, 60, 94, 94] = [41, 60] ++ [94, 94] ∧ (lmpContent wLmpFrames).length ≤ 94 := by
  refine ⟨by decide, wLmp_wf, by decide, rfl, by decide⟩

/-! ## TRR: the size guards of `get_gromacs_frames`

Model `trrTick`/`trrRun` (Model/Readers.lean): one tick = one evaluation of a size guard with the file size
observed at that moment; a frame is abstracted to the sizes of its header and data block.  Decoding, byte
order and precision are outside the model (the tie compares decoded values for all four combinations). -/

/-- **no read is issued unless the bytes are there, and every read is exactly a frame's header or data
    block at that frame's offset** — for every sequence of observed file sizes whatsoever, provided all
    headers have the same size `H ≤ TRR_HEAD_SIZE` (GROMACS: 84 or 92 bytes; data sizes may vary). -/
theorem trr_reads_safe (frames : List TFrame) (H : Nat) (hH : ∀ f ∈ frames, f.hsize = H)
    (hle : H ≤ trrHeadSize) (hpos : 0 < H) (sizes : List Nat) :
    ∀ e ∈ trrRun frames sizes tInit, EvOK frames e :=
  trrRun_ok frames H hH hle hpos sizes tInit (tInit_inv frames H)

example : (∀ f ∈ [(⟨92, 1992⟩ : TFrame), ⟨92, 1992⟩], f.hsize = 92) ∧ 92 ≤ trrHeadSize ∧
    trrRun [⟨92, 1992⟩, ⟨92, 1992⟩] [500, 1000, 2000, 2084, 2100, 2175, 2176, 4000, 4168] tInit
      = [.wait, .read 0 92 1000, .wait, .read 92 1992 2084, .yield 0, .wait, .wait, .read 2084 92 2176,
         .wait, .read 2176 1992 4168, .yield 1] := by
  refine ⟨by decide, by decide, by decide⟩

/-- the first header guard only protects headers of at most `TRR_HEAD_SIZE` bytes (witness: a 1200-byte
    header would be requested with 1000 bytes visible) — the hypothesis `H ≤ TRR_HEAD_SIZE` is needed -/
theorem trr_guard_needs_small_header :
    trrRun [⟨1200, 10⟩] [1000] tInit = [.read 0 1200 1000] ∧ ¬ EvOK [⟨1200, 10⟩] (.read 0 1200 1000) := by
  refine ⟨by decide, ?_⟩
  intro h
  have := h.1
  omega

/-- **no TRR frame is withheld** (heterogeneous frames included): once the header size has been learned,
    a frame that is completely visible is yielded by the next two guard evaluations — the data guard waits
    for the frame's *own* data size, taken from its own header. -/
theorem trr_no_frame_withheld (frames : List TFrame) (H : Nat) (hH : ∀ f ∈ frames, f.hsize = H) (hpos : 0 < H)
    (st : TSt) (hinv : TInv frames H st) (hl : st.headerSize = H) (hp : st.pending = none)
    (f : TFrame) (hf : frames[st.k]? = some f) (size : Nat) (hs : tOffset frames (st.k + 1) ≤ size) :
    TEv.yield st.k ∈ trrRun frames [size, size] st :=
  trr_two_ticks_yield frames H hH hpos st hinv hl hp f hf size hs

/-- frames with different blocks (x+v+f, then x only, then x+v): each guard uses the frame's own size -/
example : trrRun [⟨92, 936⟩, ⟨92, 360⟩, ⟨92, 648⟩] [1000, 1027, 1028, 1479, 1480, 1572, 2219, 2220] tInit
    = [.read 0 92 1000, .wait, .read 92 936 1028, .yield 0, .read 1028 92 1479,
       .read 1120 360 1480, .yield 1, .read 1480 92 1572, .wait, .read 1572 648 2220, .yield 2] := by decide

/-! ### TRR header decoding at byte level (`read_trr_header`, `is_double`) -/

/-- **header bytes → frame size**: for both byte orders and both precisions, the header GROMACS writes
    (magic 1993, (13, 12), "GMX_trn_file", 13 ints < 2³¹, two reals) is decoded to exactly its integers;
    the byte order and precision are recognised; 76 + 2·(4|8) bytes are consumed — so the sizes the guard
    machine `trrRun` works with are functions of the header bytes: header size 84/92, data size
    box+vir+pres+x+v+f of *this* header. -/
theorem trr_header_bytes (little dbl : Bool) (ns : List Nat) (hlen : ns.length = 13)
    (hb : ∀ n ∈ ns, n < 2147483648) (hd : isDouble (ns.map Int.ofNat) = .ok dbl)
    (reals : List Nat) (hr : reals.length = 2 * (if dbl then 8 else 4)) (rest : List Nat) :
    ∃ h, trrHeader (encHeader little ns reals ++ rest) = .ok (h, rest)
      ∧ h.little = little ∧ h.double = dbl ∧ h.ints = ns.map Int.ofNat
      ∧ h.frame = ⟨76 + 2 * (if dbl then 8 else 4), (dataSize (ns.map Int.ofNat)).toNat⟩ :=
  ⟨_, trrHeader_encHeader little dbl ns hlen hb hd reals hr rest, rfl, rfl, rfl, rfl⟩

/-- 12 atoms, double precision, box + x + v, written little-endian, followed by 3 further bytes -/
example : isDouble ([0, 0, 72, 0, 0, 0, 0, 288, 288, 0, 12, 5, 0].map Int.ofNat) = .ok true ∧
    (trrHeader (encHeader true [0, 0, 72, 0, 0, 0, 0, 288, 288, 0, 12, 5, 0] (List.replicate 16 7) ++ [1, 2, 3])).map
      (fun r => (r.1.frame.hsize, r.1.frame.dsize, r.1.little, r.1.double, r.2)) = .ok (92, 648, true, true, [1, 2, 3]) := by
  refine ⟨by decide, by decide⟩

/-! ## the reader OBJECT: `ReadAndProcessOnTheFly` with `current_position` / `previous_position`

Model `rpRun` (Model/ReadersObj.lean): one object polled on a sequence of file states (`none` = the file does
not exist: `FileNotFoundError → []`).  The driver runs `rpRun`; the tie compares frames, `current_position`
and `previous_position` after every poll. -/

/-- **`previous_position` is write-only, and the object is the function model**: for every content and every
    object state, the frames returned and the new `current_position` are those of `xyzReader` / `lmpReader`
    at `current_position` — `previous_position` never influences a poll. -/
theorem rp_object_is_function (v : Variant) (content : List Char) (o : RP) :
    objProj (xyzReaderO v content o) = xyzReader v content o.cur
    ∧ objProj (lmpReaderO v content o) = lmpReader v content o.cur :=
  ⟨xyzReaderO_proj v content o, lmpReaderO_proj v content o⟩

example : xyzReaderO .repaired (xyzContent witness) ⟨0, 7⟩ = .ok ([wF1.decode, wF2.decode], ⟨88, 43⟩)
    ∧ xyzReader .repaired (xyzContent witness) 0 = .ok ([wF1.decode, wF2.decode], 88) := by decide

/-- **the object polled on growing prefixes is `pollAll`** — so `xyz_repaired_exact`, `lmp_exact` and all
    their consequences are theorems about the object the driver runs -/
theorem rp_eq_pollAll (v : Variant) (content : List Char) (cuts : List Nat) :
    stagesFrames (rpRun (xyzReaderO v) (visible content (cuts.map some)) rpInit) = pollAll (xyzReader v) content cuts 0
    ∧ stagesFrames (rpRun (lmpReaderO v) (visible content (cuts.map some)) rpInit) = pollAll (lmpReader v) content cuts 0 :=
  ⟨rpRun_eq_pollAll _ _ (xyzReaderO_proj v) content cuts rpInit,
   rpRun_eq_pollAll _ _ (lmpReaderO_proj v) content cuts rpInit⟩

example : stagesFrames (rpRun (xyzReaderO .repaired) (visible (xyzContent witness) ([37, 43, 88].map some)) rpInit)
    = .ok [[], [wF1.decode], [wF2.decode]] := by decide

/-- **xyz, any sequence of polls of an append-only file (absent, any prefix, in any order), with positions**:
    every poll returns exactly the not yet returned frames that are completely visible, and leaves
    `current_position` at the end of the last frame returned so far — never inside a frame. -/
theorem rp_xyz_exact_pos (N : Nat) (hN : 1 ≤ N) (frames : List XyzF) (hwf : ∀ f ∈ frames, f.WF N)
    (evs : List (Option Nat)) :
    stagesPos (rpRun (xyzReaderO .repaired) (visible (xyzContent frames) evs) rpInit)
      = .ok (exactStagesPos (xyzLens frames) (xyzDecoded frames) evs 0) := by
  have := xyz_rpRun_pos .repaired N hN frames hwf evs (Or.inl rfl) 0 (Nat.zero_le _) 0
  simpa [sumLens, xyzContent, xyzLens, xyzDecoded, rpInit] using this

instance : DecidableEq XFrame := inferInstanceAs (DecidableEq (List (List (List Char))))

/-- file absent, absent, 37 bytes (inside frame 1), frame 1 complete, no growth, everything, no growth -/
example : (∀ f ∈ witness, f.WF 2) ∧
    stagesPos (rpRun (xyzReaderO .repaired) (visible (xyzContent witness) [none, none, some 37, some 43, some 43, some 88, some 88]) rpInit)
      = .ok [(([] : List XFrame), 0), ([], 0), ([], 0), ([wF1.decode], 43), ([], 43), ([wF2.decode], 88), ([], 88)] := by
  refine ⟨witness_wf, ?_⟩
  decide

/-- **LAMMPS, positions, any white space behind the trailing ids, guarded** (see `lmp_exact_trailing_partial`) -/
theorem rp_lmp_exact_pos_trailing_partial (N : Nat) (hN : 1 ≤ N) (frames : List LmpF)
    (hwf : ∀ f ∈ frames, f.WF N) (evs : List (Option Nat)) (hfree : ∀ e ∈ evs, tbFree frames (visBytes e)) :
    stagesPos (rpRun (lmpReaderO .repaired) (visible (lmpContent frames) evs) rpInit)
      = .ok (lmpStagesPos (lmpLens frames) (lmpDecoded N frames) evs 0 false) := by
  have := lmp_rpRun_pos .repaired N hN frames hwf evs
    (fun e he d hd => tbFree_drop N hN frames hwf (visBytes e) (hfree e he) d hd)
    0 false (Nat.zero_le _) (by intro h; cases h) 0
  simpa [sumLens, lmpContent, lmpLens, lmpDecoded, rpInit] using this

/-- **LAMMPS, the same with the one-poll lag**: `current_position` is the end of the last frame returned, minus
    one while that frame's final newline has not been consumed -/
theorem rp_lmp_exact_pos (N : Nat) (hN : 1 ≤ N) (frames : List LmpF) (hwf : ∀ f ∈ frames, f.WF N)
    (hntb : ∀ f ∈ frames, f.slack = 1) (evs : List (Option Nat)) :
    stagesPos (rpRun (lmpReaderO .repaired) (visible (lmpContent frames) evs) rpInit)
      = .ok (lmpStagesPos (lmpLens frames) (lmpDecoded N frames) evs 0 false) :=
  rp_lmp_exact_pos_trailing_partial N hN frames hwf evs (fun e _ => tbFree_of_slack_one frames hntb _)

example : (∀ f ∈ wLmpFrames, f.WF 1) ∧
    stagesPos (rpRun (lmpReaderO .repaired) (visible (lmpContent wLmpFrames) [none, some 41, none, some 41, some 94, some 94]) rpInit)
      = .ok [([], 0), ([wL1.decode 1], 41), ([], 41), ([], 41), ([], 42), ([wL2.decode 1], 94)] :=
  ⟨wLmp_wf, by decide⟩

/-- **SAFETY and COMPLETENESS of the xyz reader object over any schedule of polls** (polls before the file
    exists, polls without growth, the final polls after the program exited): with non-decreasing visible sizes,
    after every poll the frames returned so far are exactly the frames completely on disk (each once, in order,
    as written, all their bytes visible); once a poll has seen the whole file everything has been returned. -/
theorem rp_xyz_safety_complete (N : Nat) (hN : 1 ≤ N) (frames : List XyzF) (hwf : ∀ f ∈ frames, f.WF N)
    (evs : List (Option Nat)) (hs : (evs.map visBytes).Pairwise (· ≤ ·)) :
    ∃ stages, rpRun (xyzReaderO .repaired) (visible (xyzContent frames) evs) rpInit = .ok stages
      ∧ stages.length = evs.length
      ∧ (∀ k (hk : k < (evs.map visBytes).length),
          ((stages.map Prod.fst).take (k + 1)).flatten
            = (xyzDecoded frames).take (completeCount (xyzLens frames) (evs.map visBytes)[k])
          ∧ sumLens ((xyzLens frames).take (completeCount (xyzLens frames) (evs.map visBytes)[k]))
              ≤ (evs.map visBytes)[k])
      ∧ (∀ c ∈ (evs.map visBytes).getLast?, (xyzContent frames).length ≤ c →
          (stages.map Prod.fst).flatten = xyzDecoded frames) := by
  have hab := rpRun_absent_as_empty (xyzReaderO .repaired) (xyzReaderO_empty .repaired) (xyzContent frames) evs rpInit
  have hpa := (rp_eq_pollAll .repaired (xyzContent frames) (evs.map visBytes)).1
  rw [← hab] at hpa
  obtain ⟨st0, h0, h1, h2, h3⟩ := xyz_repaired_safety_complete N hN frames hwf (evs.map visBytes) hs
  rw [h0] at hpa
  cases hr : rpRun (xyzReaderO .repaired) (visible (xyzContent frames) evs) rpInit with
  | error e => rw [hr] at hpa; simp [stagesFrames] at hpa
  | ok stages =>
    rw [hr] at hpa
    simp only [stagesFrames, Except.ok.injEq] at hpa
    refine ⟨stages, rfl, ?_, ?_, ?_⟩
    · have := congrArg List.length hpa
      simpa [h1] using this
    · intro k hk
      rw [hpa]
      exact h2 k hk
    · intro c hc hle
      rw [hpa]
      exact h3 c hc hle

example : ([none, some 37, some 37, some 88].map visBytes).Pairwise (· ≤ ·) := by decide

/-- **the same for the LAMMPS reader object** (with its one-poll lag, as in `lmp_safety_complete`); any white space
    behind the trailing ids is allowed, under the cut guard `tbFree` of `lmp_exact_trailing_partial` — which holds
    for every schedule when the frames end right behind their last trailing id (`tbFree_of_slack_one`) -/
theorem rp_lmp_safety_complete (N : Nat) (hN : 1 ≤ N) (frames : List LmpF) (hwf : ∀ f ∈ frames, f.WF N)
    (evs : List (Option Nat)) (hs : (evs.map visBytes).Pairwise (· ≤ ·))
    (hfree : ∀ e ∈ evs, tbFree frames (visBytes e)) :
    ∃ stages, rpRun (lmpReaderO .repaired) (visible (lmpContent frames) evs) rpInit = .ok stages
      ∧ stages.length = evs.length
      ∧ (∀ k (hk : k < (evs.map visBytes).length), ∃ d,
          ((stages.map Prod.fst).take (k + 1)).flatten = (lmpDecoded N frames).take d ∧ d ≤ frames.length
          ∧ sumLens ((lmpLens frames).take d) ≤ (evs.map visBytes)[k] + 1)
      ∧ (∀ pre T, evs.map visBytes = pre ++ [T, T] → (lmpContent frames).length ≤ T →
          (stages.map Prod.fst).flatten = lmpDecoded N frames) := by
  have hab := rpRun_absent_as_empty (lmpReaderO .repaired) (lmpReaderO_empty .repaired) (lmpContent frames) evs rpInit
  have hpa := (rp_eq_pollAll .repaired (lmpContent frames) (evs.map visBytes)).2
  rw [← hab] at hpa
  obtain ⟨st0, h0, h1, h2, h3⟩ := lmp_safety_complete_trailing_partial N hN frames hwf (evs.map visBytes) hs
    (by intro c hc; obtain ⟨e, he, rfl⟩ := List.mem_map.mp hc; exact hfree e he)
  rw [h0] at hpa
  cases hr : rpRun (lmpReaderO .repaired) (visible (lmpContent frames) evs) rpInit with
  | error e => rw [hr] at hpa; simp [stagesFrames] at hpa
  | ok stages =>
    rw [hr] at hpa
    simp only [stagesFrames, Except.ok.injEq] at hpa
    refine ⟨stages, rfl, ?_, ?_, ?_⟩
    · have := congrArg List.length hpa
      simpa [h1] using this
    · intro k hk
      rw [hpa]
      exact h2 k hk
    · intro pre T hc hle
      rw [hpa]
      exact h3 pre T hc hle

example : ([none, some 41, some 94, some 94].map visBytes) = [0, 41] ++ [94, 94] := by decide

/-- **a file that does not reach beyond `current_position`** — truncated, replaced by something shorter, or
    absent — **is inert**: the poll returns nothing, moves neither position, raises nothing, whatever the
    file contains (both readers, both variants). -/
theorem rp_poll_short_file (v : Variant) (o : RP) (file : Option (List Char))
    (h : ∀ content ∈ file, content.length ≤ o.cur) :
    rpPoll (xyzReaderO v) o file = .ok ([], o) ∧ rpPoll (lmpReaderO v) o file = .ok ([], o) := by
  cases file with
  | none => exact ⟨rfl, rfl⟩
  | some content =>
    have hc := h content rfl
    exact ⟨xyzReaderO_short v content o hc, lmpReaderO_short v content o hc⟩

example : rpPoll (xyzReaderO .repaired) ⟨43, 0⟩ (some ((xyzContent witness).take 20)) = .ok ([], ⟨43, 0⟩) := by decide

/-! ## TRR: the data part of a frame (`get_data` / `read_trr_data` / `read_matrix` / `read_coord`) -/

/-- **layout of the data part, for every combination of the six presence fields and both precisions**: on a
    header whose announced blocks have the sizes of their reals (`FieldsOK`: box/vir/pres = 9 reals, x/v/f =
    natoms·3 reals, or absent), `get_data` returns the data **iff** all `data_size = box+vir+pres+x+v+f` bytes
    are there; it then consumes exactly `data_size` bytes (next offset exact: `bytes_read` and the file pointer
    stay together), and the blocks are exactly the announced ones, in the order box vir pres x v f, each with its
    announced length, cut at the cumulative offsets; a missing byte gives `EOFError` or `struct.error`, never
    data. -/
theorem trr_data_layout (h : THeader) (hok : FieldsOK (if h.double then 8 else 4) (dataFields h.ints))
    (bs : List Nat) :
    0 ≤ dataSize h.ints ∧
    ((dataSize h.ints).toNat ≤ bs.length →
        trrData h bs = ⟨.ok (sliceBlocks (dataFields h.ints) bs), bs.drop (dataSize h.ints).toNat⟩
        ∧ (sliceBlocks (dataFields h.ints) bs).map Prod.fst
            = ((dataFields h.ints).filter (fun p => decide (p.2.1 ≠ 0))).map Prod.fst
        ∧ (sliceBlocks (dataFields h.ints) bs).map (fun b => b.2.length)
            = ((dataFields h.ints).filter (fun p => decide (p.2.1 ≠ 0))).map (fun p => p.2.1.toNat)) ∧
    (bs.length < (dataSize h.ints).toNat →
        (trrData h bs).res = .error .eof ∨ (trrData h bs).res = .error .struct) := by
  obtain ⟨h1, h2, h3⟩ := trrData_layout h hok bs
  refine ⟨h1, ?_, h3⟩
  intro hl
  refine ⟨h2 hl, sliceBlocks_keys _ _, sliceBlocks_lengths _ _ ?_⟩
  obtain ⟨_, h5⟩ := fieldsTotal_eq_sum _ _ hok
  rw [← dataSize_eq_sum] at h5
  omega

/-- 1 atom, single precision, box + x + f (no vir, pres, v): 36 + 12 + 12 = 60 bytes -/
def wTH : THeader :=
  { little := true, double := false, ints := [0, 0, 36, 0, 0, 0, 0, 12, 0, 12, 1, 5, 0], hlen := 84 }

theorem wTH_ok : FieldsOK (if wTH.double then 8 else 4) (dataFields wTH.ints) := by
  intro p hp
  simp only [wTH, dataFields, List.getD_eq_getElem?_getD, List.mem_cons, List.not_mem_nil, or_false] at hp
  rcases hp with rfl | rfl | rfl | rfl | rfl | rfl <;> simp <;> decide

example : dataSize wTH.ints = 60
    ∧ (trrData wTH (List.replicate 62 1)).rest.length = 2
    ∧ ((sliceBlocks (dataFields wTH.ints) (List.replicate 62 1)).map (fun b => (b.1, b.2.length))) = [(0, 36), (3, 12), (5, 12)]
    ∧ (trrData wTH (List.replicate 59 1)).res = .error .struct
    ∧ (trrData wTH (List.replicate 48 1)).res = .error .eof := by
  refine ⟨by decide, by decide, by decide, by decide, by decide⟩

/-- the hypothesis `FieldsOK` is needed: a header whose x block is announced with the size of the *other*
    precision (box says single, x sized for double) makes `get_data` consume 36 + 12 bytes while `data_size`
    — what `get_gromacs_frames` adds to `bytes_read` — is 36 + 24: guards and file pointer drift apart.
    (GROMACS does not write such headers; the tie feeds them to model and code alike.) -/
theorem trr_data_inconsistent_header_drifts :
    dataSize [0, 0, 36, 0, 0, 0, 0, 24, 0, 0, 1, 5, 0] = 60
    ∧ (trrData { little := true, double := false, ints := [0, 0, 36, 0, 0, 0, 0, 24, 0, 0, 1, 5, 0], hlen := 84 }
          (List.replicate 70 1)).rest.length = 70 - 48
    ∧ ¬ FieldsOK 4 (dataFields [0, 0, 36, 0, 0, 0, 0, 24, 0, 0, 1, 5, 0]) := by
  refine ⟨by decide, by decide, ?_⟩
  intro hok
  have := hok (3, 24, 3) (by decide)
  simp at this

/-! ## TRR: the whole `get_gromacs_frames` generator at byte level

Model `gRun` / `gRemaining` / `gGen` (Model/ReadersObj.lean): the generator as the code is — size guards,
`read_trr_header` and `get_data` on the bytes visible at that moment, `bytes_read` next to the file pointer,
the swallowed `EOFError`s with their stale locals, and the unguarded final phase `read_remaining_trr`.  A
well-formed file (`gFile frames`, every frame `GFrame.WF dbl`): headers as GROMACS writes them (either byte
order per frame, one precision per file, 13 ints < 2³¹), any combination of the six blocks per frame with the
sizes of their reals, payload of exactly `data_size` bytes. -/

/-- **composition**: on a well-formed file and for every sequence of observed sizes (≤ the final length), the
    byte-level generator *is* the abstract guard machine `trrRun` (about which `trr_reads_safe` and
    `trr_no_frame_withheld` speak) — same waits, same reads at the same offsets with the same lengths, and
    `yield k` hands out exactly the blocks of frame `k`; it never dies. -/
theorem trr_generator_is_guard_machine (dbl : Bool) (frames : List GFrame) (hwf : ∀ f ∈ frames, f.WF dbl)
    (sizes : List Nat) (hsz : ∀ s ∈ sizes, s ≤ (gFile frames).length) :
    (gRun (gFile frames) sizes gInit).2
        = (trrRun (frames.map (GFrame.t dbl)) sizes tInit).map (liftEv frames)
    ∧ (gRun (gFile frames) sizes gInit).1.dead = false :=
  gRun_rel dbl frames hwf sizes hsz gInit tInit (gInit_rel dbl frames)

/-- one atom, single precision, little-endian: box + x (frame 1), box + x + v (frame 2) -/
def wG1 : GFrame :=
  { little := true, ns := [0, 0, 36, 0, 0, 0, 0, 12, 0, 0, 1, 0, 0], reals := List.replicate 8 0,
    payload := List.replicate 48 1 }
def wG2 : GFrame :=
  { little := false, ns := [0, 0, 36, 0, 0, 0, 0, 12, 12, 0, 1, 1, 0], reals := List.replicate 8 0,
    payload := List.replicate 60 2 }

theorem wG_fields (ns : List Nat) (h : ns = wG1.ns ∨ ns = wG2.ns) :
    FieldsOK 4 (dataFields (ns.map Int.ofNat)) := by
  intro p hp
  rcases h with rfl | rfl <;>
  · simp only [wG1, wG2, dataFields, List.map_cons, List.map_nil, List.getD_eq_getElem?_getD, List.mem_cons,
      List.not_mem_nil, or_false] at hp
    rcases hp with rfl | rfl | rfl | rfl | rfl | rfl <;> simp <;> decide

theorem wG_wf : ∀ f ∈ [wG1, wG2], f.WF false := by
  intro f hf
  simp only [List.mem_cons, List.not_mem_nil, or_false] at hf
  rcases hf with rfl | rfl
  · exact ⟨rfl, by intro n hn; simp only [wG1, List.mem_cons, List.not_mem_nil, or_false] at hn; omega,
      by decide, rfl, wG_fields _ (Or.inl rfl), by decide⟩
  · exact ⟨rfl, by intro n hn; simp only [wG2, List.mem_cons, List.not_mem_nil, or_false] at hn; omega,
      by decide, rfl, wG_fields _ (Or.inr rfl), by decide⟩

example : (∀ f ∈ [wG1, wG2], f.WF false) ∧ (gFile [wG1, wG2]).length = 276 := by
  refine ⟨wG_wf, ?_⟩
  rw [gFile_length false _ wG_wf]
  decide

/-- **SAFETY of the byte-level generator while the program runs**: every read lies inside the bytes visible
    at that moment and is exactly the header or the data part of a frame at that frame's offset; every yield
    hands out the blocks of a frame of the file; no `EOFError` is swallowed, nothing is raised, no endless
    wait — for every sequence of observed sizes. -/
theorem trr_generator_safe (dbl : Bool) (frames : List GFrame) (hwf : ∀ f ∈ frames, f.WF dbl)
    (sizes : List Nat) (hsz : ∀ s ∈ sizes, s ≤ (gFile frames).length) :
    ∀ e ∈ (gRun (gFile frames) sizes gInit).2,
      gBad e = false ∧
      (∀ off len size, e = .read off len size → off + len ≤ size ∧ ∃ k f, frames[k]? = some f ∧
        ((off = (gFile (frames.take k)).length ∧ len = 76 + 2 * (if dbl then 8 else 4))
          ∨ (off = (gFile (frames.take k)).length + (76 + 2 * (if dbl then 8 else 4)) ∧ len = f.payload.length))) := by
  intro e he
  rw [(trr_generator_is_guard_machine dbl frames hwf sizes hsz).1] at he
  obtain ⟨te, hte, rfl⟩ := List.mem_map.mp he
  refine ⟨gBad_lift frames te, ?_⟩
  intro off len size heq
  have hH : ∀ f ∈ frames.map (GFrame.t dbl), f.hsize = 76 + 2 * (if dbl then 8 else 4) := by
    intro f hf
    obtain ⟨g, _, rfl⟩ := List.mem_map.mp hf
    rfl
  have hok := trr_reads_safe (frames.map (GFrame.t dbl)) _ hH (H_le dbl) (H_pos dbl) sizes te hte
  cases te with
  | wait => cases heq
  | yield k =>
    have h := congrArg gYield heq
    rw [gYield_lift] at h
    simp [tYield, gYield] at h
  | read o l s =>
    simp only [liftEv, GEv.read.injEq] at heq
    obtain ⟨rfl, rfl, rfl⟩ := heq
    obtain ⟨h1, k, tf, htf, h2⟩ := hok
    refine ⟨h1, k, ?_⟩
    rw [List.getElem?_map] at htf
    cases hf : frames[k]? with
    | none => rw [hf] at htf; cases htf
    | some f =>
      rw [hf] at htf
      simp only [Option.map_some, Option.some.injEq] at htf
      subst htf
      refine ⟨f, rfl, ?_⟩
      rw [tOffset_eq_prefix dbl frames hwf] at h2
      simpa [GFrame.t] using h2

example : (gRun (gFile [wG1, wG2]) [100, 276] gInit).2 = [.wait, .wait] := by decide

/-- **each frame once, in order (running phase)**: the frames yielded while the program runs are exactly the
    first `n` frames of the file, each once, in order, with exactly their bytes. -/
theorem trr_generator_yields_prefix (dbl : Bool) (frames : List GFrame) (hwf : ∀ f ∈ frames, f.WF dbl)
    (sizes : List Nat) (hsz : ∀ s ∈ sizes, s ≤ (gFile frames).length) :
    ∃ n, n ≤ frames.length ∧
      (gRun (gFile frames) sizes gInit).2.filterMap gYield = (frames.take n).map GFrame.blocks := by
  have hH : ∀ f ∈ frames.map (GFrame.t dbl), f.hsize = 76 + 2 * (if dbl then 8 else 4) := by
    intro f hf
    obtain ⟨g, _, rfl⟩ := List.mem_map.mp hf
    rfl
  obtain ⟨n, h1, h2, h3⟩ := trrRun_yields (frames.map (GFrame.t dbl)) _ hH (H_le dbl) (H_pos dbl) sizes tInit
    (tInit_inv _ _) (Nat.zero_le _)
  have hn : n ≤ frames.length := by
    rw [h2] at h3; simpa [tInit] using h3
  refine ⟨n, hn, ?_⟩
  rw [(trr_generator_is_guard_machine dbl frames hwf sizes hsz).1, List.filterMap_map]
  have : (gYield ∘ liftEv frames) = fun e => (tYield e).map (blocksAt frames) := by
    funext e; exact gYield_lift frames e
  rw [this, ← List.map_filterMap, h1]
  exact range_map_blocksAt frames n hn

/-- **COMPLETENESS of the whole generator** (running phase + `read_remaining_trr` after the program has ended):
    every frame of the file is yielded exactly once, in order, with exactly its bytes, and nothing is raised —
    for every sequence of sizes observed while the program ran (the generator is not left inside its inner
    wait loop, which it only leaves when the data are there). -/
theorem trr_generator_complete (dbl : Bool) (frames : List GFrame) (hwf : ∀ f ∈ frames, f.WF dbl)
    (sizes : List Nat) (hsz : ∀ s ∈ sizes, s ≤ (gFile frames).length)
    (hnd : (gRun (gFile frames) sizes gInit).1.inData = false) :
    (gGen (gFile frames) sizes).filterMap gYield = frames.map GFrame.blocks
    ∧ ∀ e ∈ gGen (gFile frames) sizes, gBad e = false := by
  have hH : ∀ f ∈ frames.map (GFrame.t dbl), f.hsize = 76 + 2 * (if dbl then 8 else 4) := by
    intro f hf
    obtain ⟨g, _, rfl⟩ := List.mem_map.mp hf
    rfl
  obtain ⟨hev, hdead⟩ := trr_generator_is_guard_machine dbl frames hwf sizes hsz
  have hrel := gRun_final_rel dbl frames hwf sizes hsz gInit tInit (gInit_rel dbl frames)
  obtain ⟨n, h1, h2, h3⟩ := trrRun_yields (frames.map (GFrame.t dbl)) _ hH (H_le dbl) (H_pos dbl) sizes tInit
    (tInit_inv _ _) (Nat.zero_le _)
  have hn : n ≤ frames.length := by
    rw [h2] at h3; simpa [tInit] using h3
  have hk : (sizes.foldl (fun s size => (trrTick (frames.map (GFrame.t dbl)) size s).1) tInit).k = n := by
    rw [h2]; simp [tInit]
  have hrun : (gRun (gFile frames) sizes gInit).2.filterMap gYield = (frames.take n).map GFrame.blocks := by
    rw [hev, List.filterMap_map]
    have : (gYield ∘ liftEv frames) = fun e => (tYield e).map (blocksAt frames) := by
      funext e; exact gYield_lift frames e
    rw [this, ← List.map_filterMap, h1]
    exact range_map_blocksAt frames n hn
  have hbadrun : ∀ e ∈ (gRun (gFile frames) sizes gInit).2, gBad e = false :=
    fun e he => (trr_generator_safe dbl frames hwf sizes hsz e he).1
  -- where the running phase ended: at the start of frame n
  have hpend := hrel.pend
  have hpos : (gRun (gFile frames) sizes gInit).1.fpos = (gFile (frames.take n)).length
      ∧ (gRun (gFile frames) sizes gInit).1.bytesRead = ((gFile (frames.take n)).length : Int) := by
    cases hp : (sizes.foldl (fun s size => (trrTick (frames.map (GFrame.t dbl)) size s).1) tInit).pending with
    | some d =>
      rw [hp] at hpend
      rw [hpend.1] at hnd; cases hnd
    | none =>
      rw [hp] at hpend
      have hoff := hpend.2
      rw [hk, tOffset_eq_prefix dbl frames hwf] at hoff
      exact ⟨by rw [hrel.fpos, hoff], by rw [hrel.br, hoff]⟩
  obtain ⟨hfp, hbr⟩ := hpos
  unfold gGen
  simp only [hdead, Bool.false_eq_true, if_false, hnd]
  rw [hbr, hfp]
  by_cases hrem : ((gFile frames).length : Int) - ((gFile (frames.take n)).length : Int) > 0
  · simp only [hrem, if_true]
    obtain ⟨hy, hb⟩ := gRemaining_yields dbl frames hwf ((gFile frames).length + 1) n hn
      (by have := frames_le_file dbl frames hwf; omega)
    refine ⟨?_, ?_⟩
    · rw [List.filterMap_append, hrun, hy, ← List.map_append, List.take_append_drop]
    · intro e he
      rcases List.mem_append.mp he with he | he
      · exact hbadrun e he
      · exact hb e he
  · simp only [hrem, if_false]
    refine ⟨?_, hbadrun⟩
    rw [hrun]
    have hnl : n = frames.length := by
      rcases Nat.lt_or_ge n frames.length with hlt | hge
      · exfalso
        have hf : frames[n]? = some frames[n] := List.getElem?_eq_getElem hlt
        have h1 := prefix_succ dbl frames hwf n _ hf
        have h2 := gFile_take_le frames (n + 1)
        have := H_pos dbl
        omega
      · omega
    rw [hnl, List.take_length]

set_option maxRecDepth 20000 in
/-- a 276-byte file (< TRR_HEAD_SIZE): nothing can be read while the program runs; the final phase yields both
    frames, first box + x, then box + x + v -/
example : (gGen (gFile [wG1, wG2]) [100, 276]).filterMap gYield = [wG1.blocks, wG2.blocks]
    ∧ (wG2.blocks.map (fun b => (b.1, b.2.length))) = [(0, 36), (3, 12), (4, 12)] := by
  refine ⟨by decide, by decide⟩

/-! ## LAMMPS atom lines that end in a blank (what `dump custom` writes): the late-line-end skip

Real LAMMPS dumps end every atom line with `"id \n"`.  A poll that sees a frame up to its last id — but not the
`" \n"` behind it — accepts the frame (nine tokens, first = last) and leaves `current_position` in front of `" \n"`;
the next poll starts on the line `" \n"`.  The code as it was found (`asIs`) skipped only a bare `"\n"` there, so
every line number was off by one and `int("ITEM:")` raised (finding C13:lammps:trailing-blank-late-newline,
repaired by /repo dfb19e7); the code as it is now (`repaired`) skips a white-space-only, newline-terminated
first line. -/

/-- "T\n0\nN\n1\nB\n0 1\n0 1\n0 1\nA\n1 1 1 2 3 4 5 6 1 \n" (43 bytes): `wL1` with a blank behind the trailing id -/
def wLT : LmpF :=
  { wL1 with atoms := [['1', ' ', '1', ' ', '1', ' ', '2', ' ', '3', ' ', '4', ' ', '5', ' ', '6', ' ', '1', ' ', '\n']] }

/-- **RECORD: NO EXCEPTION failed for `lammpstrj_reader` as it was before fix dfb19e7** on trailing-blank atom
    lines: with 41 of 86 bytes visible (frame 1 up to its last id) the frame is returned; the next poll, on the
    complete file, raises `ValueError`.  Cuts one byte earlier or later were fine. -/
theorem lmp_trailing_blank_counterexample :
    pollAll (lmpReader .asIs) (lmpContent [wLT, wLT]) [41] 0 = .ok [[wLT.decode 1]]
    ∧ pollAll (lmpReader .asIs) (lmpContent [wLT, wLT]) [41, 86] 0 = .error .value
    ∧ pollAll (lmpReader .asIs) (lmpContent [wLT, wLT]) [40, 86, 86] 0 = .ok [[], [wLT.decode 1, wLT.decode 1], []]
    ∧ pollAll (lmpReader .asIs) (lmpContent [wLT, wLT]) [42, 86, 86] 0 = .ok [[wLT.decode 1], [], [wLT.decode 1]] := by
  refine ⟨by decide, by decide, by decide, by decide⟩

/-- **the same witness on the code as it is now**: the frame is returned at 41 bytes; the poll on the complete
    file skips the late `" \n"` and returns nothing (the one-poll lag); the next poll returns frame 2.  Also when
    the blank and the newline arrive separately (42: only the blank — nothing happens, the position stays). -/
theorem lmp_trailing_blank_repaired :
    pollAll (lmpReader .repaired) (lmpContent [wLT, wLT]) [41, 86, 86] 0 = .ok [[wLT.decode 1], [], [wLT.decode 1]]
    ∧ pollAll (lmpReader .repaired) (lmpContent [wLT, wLT]) [41, 42, 43, 86, 86] 0
        = .ok [[wLT.decode 1], [], [], [wLT.decode 1], []]
    ∧ pollAll (lmpReader .repaired) (lmpContent [wLT, wLT]) [41, 42, 86, 86] 0
        = .ok [[wLT.decode 1], [], [], [wLT.decode 1]]
    ∧ pollAll (lmpReader .repaired) (lmpContent [wLT, wLT]) [40, 86, 86] 0 = .ok [[], [wLT.decode 1, wLT.decode 1], []] := by
  refine ⟨by decide, by decide, by decide, by decide⟩

theorem wLT_wf : wLT.WF 1 where
  l0 := isLine_of _ ['T'] rfl (by decide)
  l0nb := ⟨'T', by decide, by decide⟩
  l1 := isLine_of _ ['0'] rfl (by decide)
  l2 := isLine_of _ ['N'] rfl (by decide)
  l3 := isLine_of _ ['1'] rfl (by decide)
  l3tok := ⟨['1'], [], by decide, by decide⟩
  l4 := isLine_of _ ['B'] rfl (by decide)
  b0 := ⟨isLine_of _ ['0', ' ', '1'] rfl (by decide), by decide, by decide⟩
  b1 := ⟨isLine_of _ ['0', ' ', '1'] rfl (by decide), by decide, by decide⟩
  b2 := ⟨isLine_of _ ['0', ' ', '1'] rfl (by decide), by decide, by decide⟩
  l8 := isLine_of _ ['A'] rfl (by decide)
  natoms := rfl
  atoms := by
    intro a ha
    simp only [wLT, wL1, List.mem_cons, List.not_mem_nil, or_false] at ha
    subst ha
    exact ⟨⟨['1', ' ', '1', ' ', '1', ' ', '2', ' ', '3', ' ', '4', ' ', '5', ' ', '6', ' '], '1', [' '], rfl, by decide,
      by decide, by intro x hx; simp only [List.mem_singleton] at hx; subst hx; decide⟩,
      ⟨by decide, by decide, ⟨1, 0, by decide, by decide⟩, by decide⟩⟩

theorem wLTs_wf : ∀ f ∈ [wLT, wLT], f.WF 1 := by
  intro f hf
  simp only [List.mem_cons, List.not_mem_nil, or_false] at hf
  rcases hf with rfl | rfl <;> exact wLT_wf

/-- non-vacuity of the guarded theorems on the trailing-blank witness (`slack = 2`): the cuts 40, 42, 43, 84, 85,
    86 are free, 41 (= 43 − 2: frame 1 up to its last id) is the one cut of frame 1 that is not -/
example : wLT.slack = 2 ∧ (∀ f ∈ [wLT, wLT], f.WF 1) ∧ (∀ c ∈ [40, 42, 43, 85, 86, 86], tbFree [wLT, wLT] c)
    ∧ ¬ tbFree [wLT, wLT] 41
    ∧ pollAll (lmpReader .repaired) (lmpContent [wLT, wLT]) [40, 42, 43, 85, 86, 86] 0
        = .ok [[], [wLT.decode 1], [], [wLT.decode 1], [], []] := by
  refine ⟨by decide, wLTs_wf, ?_, ?_, by decide⟩
  · intro c hc
    simp only [List.mem_cons, List.not_mem_nil, or_false] at hc
    rcases hc with rfl | rfl | rfl | rfl | rfl | rfl <;> simp only [tbFree] <;> decide
  · simp only [tbFree]; decide

/-- frames that end right behind their last trailing id: the hypothesis of `lmp_exact` etc. -/
example : ∀ f ∈ wLmpFrames, f.slack = 1 := by
  intro f hf
  simp only [wLmpFrames, List.mem_cons, List.not_mem_nil, or_false] at hf
  rcases hf with rfl | rfl <;> decide

/-- **one poll on a partly visible frame, any white space behind the trailing ids, no guard** (code as it is now
    and as it was): from a frame boundary, with the next frame `f` visible up to byte `c`, the reader returns `f`
    iff at most `f.slack` bytes of it are missing — the white space and the newline behind the trailing id of
    its last atom line, never a byte of a value — and then stands at `c`; otherwise it returns nothing and does
    not move.  No exception.  (`tbFree` excludes exactly the cuts with `1 <` missing `≤ slack`.) -/
theorem lmp_trailing_frame_poll (v : Variant) (N : Nat) (hN : 1 ≤ N) (done : List LmpF) (f : LmpF)
    (rest : List LmpF) (hf : f.WF N) (c : Nat) (h1 : (lmpContent done).length ≤ c)
    (h2 : c < (lmpContent done).length + f.len) :
    lmpReader v ((lmpContent (done ++ f :: rest)).take c) (lmpContent done).length
      = .ok (if f.enc.length ≤ (c - (lmpContent done).length) + f.slack
             then ([f.decode N], c) else ([], (lmpContent done).length)) :=
  lmpReader_poll_partial N hN done f rest hf c h1 h2

example : lmpReader .repaired ((lmpContent ([wLT] ++ wLT :: [])).take 84) (lmpContent [wLT]).length
    = .ok ([wLT.decode 1], 84) := by decide

/-- **the late line end is skipped (code as it is now), for all inputs**: a poll that starts in front of any
    white space followed by a newline — what is left of a frame that was returned early — returns nothing and
    moves behind the newline as soon as the newline is visible; before that it returns nothing and stays.
    Never an exception.  With the old rule (`line == "\n"`) this failed: `lmp_trailing_blank_counterexample`. -/
theorem lmp_late_line_end_skipped (pre ws rest : List Char) (hws : ∀ x ∈ ws, isBlank x = true ∧ x ≠ '\n') (c : Nat) :
    lmpReader .repaired ((pre ++ (ws ++ '\n' :: rest)).take c) pre.length
      = .ok ([], if pre.length + ws.length + 1 ≤ c then pre.length + ws.length + 1 else pre.length) :=
  lmpReader_late_line_end pre ws rest hws c

example : (∀ x ∈ [' ', '\t'], isBlank x = true ∧ x ≠ '\n')
    ∧ lmpReader .repaired ((['a', 'b'] ++ ([' ', '\t'] ++ '\n' :: ['T', '\n'])).take 5) 2 = .ok ([], 5)
    ∧ lmpReader .repaired ((['a', 'b'] ++ ([' ', '\t'] ++ '\n' :: ['T', '\n'])).take 4) 2 = .ok ([], 2) := by
  refine ⟨by decide, by decide, by decide⟩

/-! ## LAMMPS, EVERY cut, any white space behind the trailing ids: the per-frame-slack specification

Audit + repair pass.  The whole-schedule theorems above hold unconditionally only for `slack = 1` — which no real
LAMMPS dump has (`dump custom` ends atom lines with `"id \n"`: slack 2) — and otherwise under the cut guard `tbFree`,
because `lmpStages` knows only a one-byte lag.  `lmpStagesS` (Model/ReadersSlack.lean) takes every frame as
`(len, slack)` and keeps, between polls, how many bytes of the last returned frame's line end have not been consumed
(`miss`); with it the guard disappears. -/

/-- **Exactness of `lammpstrj_reader` (code as it is now) for EVERY byte cut, any white space behind the trailing
    ids** (contains NO EXCEPTION): for every well-formed LAMMPS trajectory and every list of cut points the reader
    polled on the growing file returns, poll by poll, exactly what `lmpStagesS` says.  No guard on the cuts, no
    condition on `slack` (cf. `lmp_exact`, `lmp_exact_trailing_partial`). -/
theorem lmp_exact_any_slack (N : Nat) (hN : 1 ≤ N) (frames : List LmpF) (hwf : ∀ f ∈ frames, f.WF N)
    (cuts : List Nat) :
    pollAll (lmpReader .repaired) (lmpContent frames) cuts 0
      = .ok (lmpStagesS (frOf frames) (lmpDecoded N frames) cuts 0 0) := by
  have := lmp_pollAllS N hN frames hwf cuts 0 0 (Nat.zero_le _) (by intro h; exact absurd rfl h)
  simpa [endOf_zero, lmpContent, lmpDecoded] using this

/-- non-vacuity on the trailing-blank witness (`slack = 2`), with the cuts 41 and 84 that `tbFree` excludes: the
    frame is returned at 41; 42 (only the blank) changes nothing; the poll that sees the newline skips the line end;
    frame 2 is returned at 84 = 86 − 2 -/
example : (∀ f ∈ [wLT, wLT], f.WF 1) ∧ ¬ tbFree [wLT, wLT] 41 ∧ frOf [wLT, wLT] = [(43, 2), (43, 2)]
    ∧ pollAll (lmpReader .repaired) (lmpContent [wLT, wLT]) [41, 42, 50, 84, 85, 86, 86] 0
        = .ok [[wLT.decode 1], [], [], [wLT.decode 1], [], [], []]
    ∧ lmpStagesS [(43, 2), (43, 2)] [0, 1] [41, 42, 50, 84, 85, 86, 86] 0 0 = [[0], [], [], [1], [], [], []] := by
  refine ⟨wLTs_wf, ?_, by decide, by decide, by decide⟩
  simp only [tbFree]; decide

/-- **SAFETY of the stage behaviour, any slack**: for non-decreasing cuts, after every poll the frames returned so
    far are a prefix of the trajectory (each once, in order), and all their bytes were visible at that poll except
    `miss` bytes that lie inside the slack of the last returned frame — the white space and the newline behind the
    trailing id of its last atom line, never a byte of a value (no torn frame). -/
theorem lmpStagesS_safety {F : Type} (fr : List (Nat × Nat)) (dec : List F) (cuts : List Nat)
    (hs : cuts.Pairwise (· ≤ ·)) (k : Nat) (hk : k < cuts.length) :
    ∃ d miss, ((lmpStagesS fr dec cuts 0 0).take (k + 1)).flatten = dec.take d ∧ d ≤ fr.length
      ∧ endOf fr d ≤ cuts[k] + miss ∧ (miss = 0 ∨ (1 ≤ d ∧ ∃ f, fr[d - 1]? = some f ∧ miss ≤ f.2)) := by
  have hsplit : cuts = cuts.take (k + 1) ++ cuts.drop (k + 1) := (List.take_append_drop _ _).symm
  have hsp : (0 :: cuts.take (k + 1)).Pairwise (· ≤ ·) :=
    List.pairwise_cons.mpr ⟨fun _ _ => Nat.zero_le _, hs.sublist (List.take_sublist _ _)⟩
  have hv : LInvS fr 0 0 0 := ⟨Nat.zero_le _, by simp [endOf_zero], Or.inl rfl⟩
  obtain ⟨h1, h2⟩ := lmpS_run fr dec (cuts.take (k + 1)) 0 0 0 hsp hv
  have hlast : (0 :: cuts.take (k + 1)).getLast? = some cuts[k] := by
    rw [List.take_succ_eq_append_getElem hk, ← List.cons_append, List.getLast?_concat]
  obtain ⟨g1, g2, g3⟩ := h2 cuts[k] (by rw [hlast]; rfl)
  refine ⟨_, _, ?_, g1, g2, g3⟩
  rw [hsplit, lmpStagesS_append]
  have hl : (lmpStagesS fr dec (cuts.take (k + 1)) 0 0).length = k + 1 := by
    rw [lmpStagesS_length]; simp; omega
  rw [List.take_append_of_le_length (by omega), List.take_of_length_le (by omega)]
  simpa using h1

/-- **COMPLETENESS of the stage behaviour, any slack**: after two polls that see the complete file every frame has
    been returned — one poll may be spent on a line end that arrived late. -/
theorem lmpStagesS_complete {F : Type} (fr : List (Nat × Nat)) (dec : List F) (hlen : dec.length = fr.length)
    (pre : List Nat) (T : Nat) (hs : (pre ++ [T, T]).Pairwise (· ≤ ·)) (hT : sumLens (fr.map Prod.fst) ≤ T) :
    (lmpStagesS fr dec (pre ++ [T, T]) 0 0).flatten = dec := by
  have hsp : (0 :: (pre ++ [T, T])).Pairwise (· ≤ ·) := List.pairwise_cons.mpr ⟨fun _ _ => Nat.zero_le _, hs⟩
  have hv : LInvS fr 0 0 0 := ⟨Nat.zero_le _, by simp [endOf_zero], Or.inl rfl⟩
  obtain ⟨h1, _⟩ := lmpS_run fr dec (pre ++ [T, T]) 0 0 0 hsp hv
  rw [lmpFinalS_append, lmpS_final_polls fr T hT _ _ (lmpFinalS_le fr pre 0 0 (Nat.zero_le _)), ← hlen,
    List.take_length] at h1
  simpa using h1

example : [41, 86, 86].Pairwise (· ≤ ·) ∧ sumLens ([(43, 2), (43, 2)].map Prod.fst) ≤ 86
    ∧ (lmpStagesS [(43, 2), (43, 2)] [0, 1] ([41] ++ [86, 86]) 0 0).flatten = [0, 1] := by decide

/-- **SAFETY, NO EXCEPTION and COMPLETENESS of `lammpstrj_reader` (code as it is now) in one statement about the
    reader itself, for every non-decreasing schedule of byte cuts and any white space behind the trailing ids** — no
    guard (supersedes `lmp_safety_complete_trailing_partial`; `lmp_safety_complete` is the case `miss ≤ 1`). -/
theorem lmp_safety_complete_any_slack (N : Nat) (hN : 1 ≤ N) (frames : List LmpF) (hwf : ∀ f ∈ frames, f.WF N)
    (cuts : List Nat) (hs : cuts.Pairwise (· ≤ ·)) :
    ∃ stages, pollAll (lmpReader .repaired) (lmpContent frames) cuts 0 = .ok stages
      ∧ stages.length = cuts.length
      ∧ (∀ k (hk : k < cuts.length), ∃ d miss,
          (stages.take (k + 1)).flatten = (lmpDecoded N frames).take d ∧ d ≤ frames.length
          ∧ sumLens ((lmpLens frames).take d) ≤ cuts[k] + miss
          ∧ (miss = 0 ∨ (1 ≤ d ∧ ∃ f, frames[d - 1]? = some f ∧ miss ≤ f.slack)))
      ∧ (∀ pre T, cuts = pre ++ [T, T] → (lmpContent frames).length ≤ T →
          stages.flatten = lmpDecoded N frames) := by
  refine ⟨_, lmp_exact_any_slack N hN frames hwf cuts, lmpStagesS_length _ _ _ _ _, ?_, ?_⟩
  · intro k hk
    obtain ⟨d, miss, h1, h2, h3, h4⟩ := lmpStagesS_safety (frOf frames) (lmpDecoded N frames) cuts hs k hk
    refine ⟨d, miss, h1, by simpa [frOf] using h2, by rw [endOf_frOf] at h3; exact h3, ?_⟩
    rcases h4 with h4 | ⟨h5, g, h6, h7⟩
    · exact Or.inl h4
    · right
      simp only [frOf, List.getElem?_map, Option.map_eq_some_iff] at h6
      obtain ⟨f0, hf0, hg⟩ := h6
      exact ⟨h5, f0, hf0, by rw [← hg] at h7; exact h7⟩
  · intro pre T hc hT
    subst hc
    apply lmpStagesS_complete _ _ (by simp [lmpDecoded, frOf]) pre T hs
    rw [lmpContent, flatten_lenc_length] at hT
    rw [frOf_fst]
    exact hT

example : (1 ≤ 1) ∧ (∀ f ∈ [wLT, wLT], f.WF 1) ∧ [41, 84, 86, 86].Pairwise (· ≤ ·)
    ∧ [41, 84, 86, 86] = [41, 84] ++ [86, 86] ∧ (lmpContent [wLT, wLT]).length ≤ 86 := by
  refine ⟨by decide, wLTs_wf, by decide, rfl, by decide⟩

/-- the one-byte-lag specification of `lmp_exact` is the case "every slack = 1" of the per-frame-slack
    specification: on such trajectories `lmp_exact_any_slack` and `lmp_exact` say the same -/
theorem lmpStagesS_eq_lmpStages_of_slack_one (N : Nat) (frames : List LmpF) (hntb : ∀ f ∈ frames, f.slack = 1)
    (cuts : List Nat) :
    lmpStagesS (frOf frames) (lmpDecoded N frames) cuts 0 0
      = lmpStages (lmpLens frames) (lmpDecoded N frames) cuts 0 false := by
  have h : ∀ g ∈ frOf frames, g.2 = 1 := by
    intro g hg
    simp only [frOf, List.mem_map] at hg
    obtain ⟨f, hf, rfl⟩ := hg
    exact hntb f hf
  have := lmpStagesS_slack_one (frOf frames) h (lmpDecoded N frames) cuts 0 false
  simpa [frOf_fst, lmpLens] using this

example : (∀ f ∈ wLmpFrames, f.slack = 1) ∧ frOf wLmpFrames = [(42, 1), (52, 1)] := by
  refine ⟨?_, by decide⟩
  intro f hf
  simp only [wLmpFrames, List.mem_cons, List.not_mem_nil, or_false] at hf
  rcases hf with rfl | rfl <;> decide

/-- **the reader OBJECT with `lammpstrj_reader` (code as it is now): frames and `current_position` after every
    poll, for ANY sequence of polls of an append-only file (absent, any prefix, in any order) and any white space
    behind the trailing ids** — no guard (cf. `rp_lmp_exact_pos`, `rp_lmp_exact_pos_trailing_partial`):
    `current_position` is the end of the last frame returned, minus the bytes of its line end that were not visible
    when it was returned and have not been skipped yet — never inside a value, never inside another frame. -/
theorem rp_lmp_exact_pos_any_slack (N : Nat) (hN : 1 ≤ N) (frames : List LmpF) (hwf : ∀ f ∈ frames, f.WF N)
    (evs : List (Option Nat)) :
    stagesPos (rpRun (lmpReaderO .repaired) (visible (lmpContent frames) evs) rpInit)
      = .ok (lmpStagesPosS (frOf frames) (lmpDecoded N frames) evs 0 0) := by
  have := lmp_rpRun_posS N hN frames hwf evs 0 0 (Nat.zero_le _) (by intro h; exact absurd rfl h) 0
  simpa [endOf_zero, lmpContent, lmpDecoded, rpInit] using this

/-- file absent; frame 1 up to its last id (41 = 43 − 2, the cut `tbFree` excludes); absent; only the blank; the
    newline (skip poll); frame 2 up to its last id (84); everything; no growth -/
example : (∀ f ∈ [wLT, wLT], f.WF 1) ∧
    stagesPos (rpRun (lmpReaderO .repaired)
        (visible (lmpContent [wLT, wLT]) [none, some 41, none, some 42, some 43, some 84, some 86, some 86]) rpInit)
      = .ok [([], 0), ([wLT.decode 1], 41), ([], 41), ([], 41), ([], 43), ([wLT.decode 1], 84), ([], 86), ([], 86)] :=
  ⟨wLTs_wf, by decide⟩

/-- **SAFETY, NO EXCEPTION and COMPLETENESS of the LAMMPS reader object over any non-decreasing schedule of polls,
    any white space behind the trailing ids** — no guard (supersedes the hypothesis `hfree` of
    `rp_lmp_safety_complete`). -/
theorem rp_lmp_safety_complete_any_slack (N : Nat) (hN : 1 ≤ N) (frames : List LmpF) (hwf : ∀ f ∈ frames, f.WF N)
    (evs : List (Option Nat)) (hs : (evs.map visBytes).Pairwise (· ≤ ·)) :
    ∃ stages, rpRun (lmpReaderO .repaired) (visible (lmpContent frames) evs) rpInit = .ok stages
      ∧ stages.length = evs.length
      ∧ (∀ k (hk : k < (evs.map visBytes).length), ∃ d miss,
          ((stages.map Prod.fst).take (k + 1)).flatten = (lmpDecoded N frames).take d ∧ d ≤ frames.length
          ∧ sumLens ((lmpLens frames).take d) ≤ (evs.map visBytes)[k] + miss
          ∧ (miss = 0 ∨ (1 ≤ d ∧ ∃ f, frames[d - 1]? = some f ∧ miss ≤ f.slack)))
      ∧ (∀ pre T, evs.map visBytes = pre ++ [T, T] → (lmpContent frames).length ≤ T →
          (stages.map Prod.fst).flatten = lmpDecoded N frames) := by
  have hab := rpRun_absent_as_empty (lmpReaderO .repaired) (lmpReaderO_empty .repaired) (lmpContent frames) evs rpInit
  have hpa := (rp_eq_pollAll .repaired (lmpContent frames) (evs.map visBytes)).2
  rw [← hab] at hpa
  obtain ⟨st0, h0, h1, h2, h3⟩ := lmp_safety_complete_any_slack N hN frames hwf (evs.map visBytes) hs
  rw [h0] at hpa
  cases hr : rpRun (lmpReaderO .repaired) (visible (lmpContent frames) evs) rpInit with
  | error e => rw [hr] at hpa; simp [stagesFrames] at hpa
  | ok stages =>
    rw [hr] at hpa
    simp only [stagesFrames, Except.ok.injEq] at hpa
    refine ⟨stages, rfl, ?_, ?_, ?_⟩
    · have := congrArg List.length hpa
      simpa [h1] using this
    · intro k hk
      rw [hpa]
      exact h2 k hk
    · intro pre T hc hle
      rw [hpa]
      exact h3 pre T hc hle

example : ([none, some 41, some 84, some 86, some 86].map visBytes) = [0, 41, 84] ++ [86, 86]
    ∧ ([none, some 41, some 84, some 86, some 86].map visBytes).Pairwise (· ≤ ·) := by decide

/-- **NO COMPLETE FRAME IS WITHHELD BEYOND ONE POLL (stage behaviour, any slack)**: in a non-decreasing schedule,
    every frame that is completely visible at a poll (`a`) has been returned at the latest by the end of the next
    poll (`b`) — the only poll that returns nothing although complete frames are waiting is the one that skips a
    late line end, and two of those never follow each other. -/
theorem lmpStagesS_no_frame_withheld {F : Type} (fr : List (Nat × Nat)) (dec : List F) (hlen : dec.length = fr.length)
    (pre : List Nat) (a b : Nat) (hs : (pre ++ [a, b]).Pairwise (· ≤ ·)) :
    completeCount (fr.map Prod.fst) a ≤ ((lmpStagesS fr dec (pre ++ [a, b]) 0 0).flatten).length := by
  have hsp0 : (0 :: (pre ++ [a, b])).Pairwise (· ≤ ·) := List.pairwise_cons.mpr ⟨fun _ _ => Nat.zero_le _, hs⟩
  have hv : LInvS fr 0 0 0 := ⟨Nat.zero_le _, by simp [endOf_zero], Or.inl rfl⟩
  obtain ⟨h1, _⟩ := lmpS_run fr dec (pre ++ [a, b]) 0 0 0 hsp0 hv
  have hfl : (lmpStagesS fr dec (pre ++ [a, b]) 0 0).flatten = dec.take (lmpFinalS fr (pre ++ [a, b]) 0 0).1 := by
    simpa using h1
  have hle := lmpFinalS_le fr (pre ++ [a, b]) 0 0 (Nat.zero_le _)
  rw [hfl, List.length_take, hlen, Nat.min_eq_left hle, lmpFinalS_append]
  -- the state after `pre` is valid for the last cut of `pre` (or 0), which is ≤ a
  obtain ⟨hp1, hp2⟩ := List.pairwise_append.mp hs |>.2
  have hab : a ≤ b := by
    have := (List.pairwise_append.mp hs).2.1
    simp only [List.pairwise_cons, List.mem_singleton, forall_eq, List.not_mem_nil, false_imp_iff, implies_true,
      List.Pairwise.nil, and_true] at this
    exact this
  have hsp : (0 :: pre).Pairwise (· ≤ ·) :=
    List.pairwise_cons.mpr ⟨fun _ _ => Nat.zero_le _, (List.pairwise_append.mp hs).1⟩
  obtain ⟨_, g2⟩ := lmpS_run fr dec pre 0 0 0 hsp hv
  cases hx : (0 :: pre).getLast? with
  | none => simp at hx
  | some x =>
    have hxm : x ∈ 0 :: pre := List.mem_of_getLast? hx
    have hxa : x ≤ a := by
      rcases List.mem_cons.mp hxm with rfl | hm
      · exact Nat.zero_le _
      · exact hp2 x hm a (by simp)
    exact lmpS_two_polls fr x a b _ _ hxa hab (g2 x (by rw [hx]; rfl))

example : completeCount ([(43, 2), (43, 2)].map Prod.fst) 86 = 2
    ∧ (lmpStagesS [(43, 2), (43, 2)] [0, 1] ([41] ++ [86, 86]) 0 0) = [[0], [], [1]] := by decide

/-- **the same about `lammpstrj_reader` itself (code as it is now), every schedule, any white space behind the
    trailing ids**: after the polls `pre ++ [a, b]` the reader has returned at least every frame that was completely
    on disk at `a`.  Together with `lmp_safety_complete_any_slack` (nothing but complete-up-to-slack frames, each
    once, in order): "exactly the frames completely on disk", up to the white space + newline behind a frame's last
    id and up to the one skip poll. -/
theorem lmp_no_frame_withheld_any_slack (N : Nat) (hN : 1 ≤ N) (frames : List LmpF) (hwf : ∀ f ∈ frames, f.WF N)
    (pre : List Nat) (a b : Nat) (hs : (pre ++ [a, b]).Pairwise (· ≤ ·)) :
    ∃ stages, pollAll (lmpReader .repaired) (lmpContent frames) (pre ++ [a, b]) 0 = .ok stages
      ∧ completeCount (lmpLens frames) a ≤ stages.flatten.length := by
  refine ⟨_, lmp_exact_any_slack N hN frames hwf (pre ++ [a, b]), ?_⟩
  have := lmpStagesS_no_frame_withheld (frOf frames) (lmpDecoded N frames) (by simp [lmpDecoded, frOf]) pre a b hs
  rw [frOf_fst] at this
  exact this

example : (∀ f ∈ [wLT, wLT], f.WF 1) ∧ ([41] ++ [86, 86]).Pairwise (· ≤ ·)
    ∧ completeCount (lmpLens [wLT, wLT]) 86 = 2 := ⟨wLTs_wf, by decide, by decide⟩

/-! ## carriage returns (finding C13:text:carriage-return, fixed by /repo d5ef98e)

The code opens the file with `newline="\n"`: '\r' is a blank of `str.split()`/`str.strip()` and never a line end —
`isBlank '\r' = true`, `lines` splits at '\n' only.  No theorem has a condition on '\r'. -/

/-- "2\r\nc\r\nH 1 2 3\r\nC 4 5 6\r\n" (24 bytes, CRLF line ends) -/
def wCR : XyzF :=
  { cnt := ['2', '\r', '\n'],
    cmt := ['c', '\r', '\n'],
    atoms := [['H', ' ', '1', ' ', '2', ' ', '3', '\r', '\n'], ['C', ' ', '4', ' ', '5', ' ', '6', '\r', '\n']] }

theorem wCR_wf : wCR.WF 2 where
  cnt := isLine_of _ ['2', '\r'] rfl (by decide)
  cntTok := ⟨['2'], [], by decide, by decide⟩
  cmt := isLine_of _ ['c', '\r'] rfl (by decide)
  natoms := rfl
  atoms := by
    intro a ha
    simp only [wCR, List.mem_cons, List.not_mem_nil, or_false] at ha
    rcases ha with rfl | rfl
    · exact ⟨isLine_of _ ['H', ' ', '1', ' ', '2', ' ', '3', '\r'] rfl (by decide), by decide, by decide⟩
    · exact ⟨isLine_of _ ['C', ' ', '4', ' ', '5', ' ', '6', '\r'] rfl (by decide), by decide, by decide⟩

/-- the recorded witness of the finding on the code as it is now: cut between '\r' and '\n' of frame 1's last line
    (23 of 48 bytes), then the whole file twice — nothing at 23, both frames at 48, no exception -/
example : (∀ f ∈ [wCR, wCR], f.WF 2) ∧ isBlank '\r' = true ∧
    pollAll (xyzReader .repaired) (xyzContent [wCR, wCR]) [23, 48, 48] 0 = .ok [[], [wCR.decode, wCR.decode], []] := by
  refine ⟨?_, by decide, by decide⟩
  intro f hf
  simp only [List.mem_cons, List.not_mem_nil, or_false] at hf
  rcases hf with rfl | rfl <;> exact wCR_wf

end Infretis.C13
