import Infretis.Lemmas.ReadersXyz
import Infretis.Lemmas.ReadersLmp
import Infretis.Lemmas.ReadersSpec
/-!
# C13 — on-the-fly trajectory readers never return a torn frame

Property theorems only.  Model: `Infretis/Model/Readers.lean` (mirrors `ReadAndProcessOnTheFly`,
`xyz_reader`, `lammpstrj_reader` of engineparts.py); lemmas: `Infretis/Lemmas/Readers*.lean`.

A trajectory is the text the MD program writes, frame by frame and line by line (`XyzF`, `LmpF`);
well-formedness (`XyzF.WF N`, `LmpF.WF N`) asks for complete lines, the atom count `N ≥ 1` on the
count line, float literals where numbers are read — and nothing about the amount of blanks, the
number formats, the comment line or the order of the atom ids.  The *values* of a frame
(`decode`) are the number tokens of its complete lines, exactly as written.  A cut sequence is any
list of prefix lengths; `pollAll reader content cuts 0` polls one reader object once per prefix.

`exactStages lens decoded cuts 0` is the behaviour the property demands: every poll returns exactly
the not yet returned frames that are completely inside the visible bytes.

TRR (`get_gromacs_frames`) has no Lean model; its size guards are exercised by the tie only.
-/
namespace Infretis.C13
open Infretis.Readers

def xyzContent (frames : List XyzF) : List Char := (frames.map XyzF.enc).flatten
def xyzLens (frames : List XyzF) : List Nat := frames.map XyzF.len
def xyzDecoded (frames : List XyzF) : List XFrame := frames.map XyzF.decode

/-! ## concrete witnesses (also used for the non-vacuity examples) -/

/-- "2\ncomment\nH 1.0 2.0 3.0\nC 4.0 5.0 6.283185\n" (43 bytes) -/
def wF1 : XyzF :=
  { cnt := ['2', '\n'],
    cmt := ['c', 'o', 'm', 'm', 'e', 'n', 't', '\n'],
    atoms := [['H', ' ', '1', '.', '0', ' ', '2', '.', '0', ' ', '3', '.', '0', '\n'],
              ['C', ' ', '4', '.', '0', ' ', '5', '.', '0', ' ', '6', '.', '2', '8', '3', '1', '8', '5', '\n']] }

/-- "   2\ncomment\nH 1.5 2.5 3.5\nC 4.5 5.5 -6.5e-1\n" (45 bytes; CP2K-style padded count line) -/
def wF2 : XyzF :=
  { cnt := [' ', ' ', ' ', '2', '\n'],
    cmt := ['c', 'o', 'm', 'm', 'e', 'n', 't', '\n'],
    atoms := [['H', ' ', '1', '.', '5', ' ', '2', '.', '5', ' ', '3', '.', '5', '\n'],
              ['C', ' ', '4', '.', '5', ' ', '5', '.', '5', ' ', '-', '6', '.', '5', 'e', '-', '1', '\n']] }

def witness : List XyzF := [wF1, wF2]

theorem isLine_of (l body : List Char) (h : l = body ++ ['\n']) (hb : '\n' ∉ body) : IsLine l :=
  ⟨body, h, hb⟩

theorem wF1_wf : wF1.WF 2 where
  cnt := isLine_of _ ['2'] rfl (by decide)
  cntTok := ⟨['2'], [], by decide, by decide⟩
  cmt := isLine_of _ ['c', 'o', 'm', 'm', 'e', 'n', 't'] rfl (by decide)
  natoms := rfl
  atoms := by
    intro a ha
    simp only [wF1, List.mem_cons, List.not_mem_nil, or_false] at ha
    rcases ha with rfl | rfl
    · exact ⟨isLine_of _ ['H', ' ', '1', '.', '0', ' ', '2', '.', '0', ' ', '3', '.', '0'] rfl (by decide), by decide, by decide⟩
    · exact ⟨isLine_of _ ['C', ' ', '4', '.', '0', ' ', '5', '.', '0', ' ', '6', '.', '2', '8', '3', '1', '8', '5'] rfl (by decide), by decide, by decide⟩

theorem wF2_wf : wF2.WF 2 where
  cnt := isLine_of _ [' ', ' ', ' ', '2'] rfl (by decide)
  cntTok := ⟨['2'], [], by decide, by decide⟩
  cmt := isLine_of _ ['c', 'o', 'm', 'm', 'e', 'n', 't'] rfl (by decide)
  natoms := rfl
  atoms := by
    intro a ha
    simp only [wF2, List.mem_cons, List.not_mem_nil, or_false] at ha
    rcases ha with rfl | rfl
    · exact ⟨isLine_of _ ['H', ' ', '1', '.', '5', ' ', '2', '.', '5', ' ', '3', '.', '5'] rfl (by decide), by decide, by decide⟩
    · exact ⟨isLine_of _ ['C', ' ', '4', '.', '5', ' ', '5', '.', '5', ' ', '-', '6', '.', '5', 'e', '-', '1'] rfl (by decide), by decide, by decide⟩

theorem witness_wf : ∀ f ∈ witness, f.WF 2 := by
  intro f hf
  simp only [witness, List.mem_cons, List.not_mem_nil, or_false] at hf
  rcases hf with rfl | rfl
  · exact wF1_wf
  · exact wF2_wf

deriving instance DecidableEq for Except

/-! ## the xyz reader as it is: the property fails -/

/-- the torn frame: the last number reads `6.2`, written was `6.283185` -/
def tornFrame : XFrame :=
  [[['1', '.', '0'], ['2', '.', '0'], ['3', '.', '0']],
   [['4', '.', '0'], ['5', '.', '0'], ['6', '.', '2']]]

/-- **SAFETY fails for `xyz_reader` as it is.**  With 37 of the 88 bytes visible (the cut lies inside
    the last number of the first frame) the first poll returns a frame — none is completely on disk —
    whose last value is torn (`6.2` for `6.283185`); and although the file is then completed and polled
    three more times, no further frame is ever returned: the second frame is lost. -/
theorem xyz_safety_counterexample :
    (∀ f ∈ witness, f.WF 2) ∧
    pollAll (xyzReader .asIs) (xyzContent witness) [37, 88, 88, 88] 0 = .ok [[tornFrame], [], [], []] ∧
    tornFrame ∉ xyzDecoded witness ∧
    completeCount (xyzLens witness) 37 = 0 ∧
    pollAll (xyzReader .asIs) (xyzContent witness) [37, 88, 88, 88] 0
      ≠ .ok (exactStages (xyzLens witness) (xyzDecoded witness) [37, 88, 88, 88] 0) := by
  refine ⟨witness_wf, by decide, by decide, by decide, by decide⟩

/-- **NO EXCEPTION fails for `xyz_reader` as it is**, in three ways: a cut just in front of the final
    newline of a frame (the next poll starts on a blank line: `i % 0`), a cut inside the leading blanks
    of the atom-count line (blank first line: `i % 0`), a cut behind the sign or inside the exponent of
    a number (`float("-")`, `float("-6.5e")`). -/
theorem xyz_noexception_counterexample :
    pollAll (xyzReader .asIs) (xyzContent witness) [42, 88] 0 = .error .zerodiv ∧
    pollAll (xyzReader .asIs) (xyzContent witness) [43, 45] 0 = .error .zerodiv ∧
    pollAll (xyzReader .asIs) (xyzContent witness) [43, 81] 0 = .error .value ∧
    pollAll (xyzReader .asIs) (xyzContent witness) [43, 85] 0 = .error .value := by
  refine ⟨by decide, by decide, by decide, by decide⟩

/-! ## the xyz reader: what does hold -/

/-- **Exactness of the repaired reader, for every byte cut** (this contains NO EXCEPTION): for every
    well-formed trajectory and *every* list of cut points the poll-by-poll output of the `repaired` reader
    is that of the exact reader. -/
theorem xyz_repaired_exact (N : Nat) (hN : 1 ≤ N) (frames : List XyzF) (hwf : ∀ f ∈ frames, f.WF N)
    (cuts : List Nat) :
    pollAll (xyzReader .repaired) (xyzContent frames) cuts 0
      = .ok (exactStages (xyzLens frames) (xyzDecoded frames) cuts 0) := by
  have := xyz_pollAll .repaired N hN frames hwf cuts (Or.inl rfl) 0 (Nat.zero_le _)
  simpa [sumLens, xyzContent, xyzLens, xyzDecoded] using this

example : pollAll (xyzReader .repaired) (xyzContent witness) [37, 42, 43, 45, 81, 85, 88] 0
    = .ok [[], [], [wF1.decode], [], [], [], [wF2.decode]] := by decide

/-- **`xyz_safety_partial`: the reader as it is, cuts at line ends only.**  If every visible prefix is
    empty or ends with a newline (the guard that excludes the defect), the as-is reader is exact, too. -/
theorem xyz_safety_partial (N : Nat) (hN : 1 ≤ N) (frames : List XyzF) (hwf : ∀ f ∈ frames, f.WF N)
    (cuts : List Nat) (hcuts : ∀ c ∈ cuts, LineEnd ((xyzContent frames).take c)) :
    pollAll (xyzReader .asIs) (xyzContent frames) cuts 0
      = .ok (exactStages (xyzLens frames) (xyzDecoded frames) cuts 0) := by
  have := xyz_pollAll .asIs N hN frames hwf cuts (Or.inr hcuts) 0 (Nat.zero_le _)
  simpa [sumLens, xyzContent, xyzLens, xyzDecoded] using this

example : (∀ c ∈ [2, 24, 43, 56, 88], LineEnd ((xyzContent witness).take c)) ∧
    pollAll (xyzReader .asIs) (xyzContent witness) [2, 24, 43, 56, 88] 0
      = .ok [[], [], [wF1.decode], [], [wF2.decode]] := by
  refine ⟨?_, by decide⟩
  intro c hc
  simp only [List.mem_cons, List.not_mem_nil, or_false] at hc
  rcases hc with rfl | rfl | rfl | rfl | rfl <;> exact Or.inr (by decide)

/-- **SAFETY** (what "exact" means, stage by stage): with non-decreasing cuts, after every poll the frames
    returned so far are precisely the frames completely contained in the visible bytes — a prefix of
    the trajectory, each frame once, in order, tokens exactly as written — and they really fit into the
    visible bytes (no torn frame). Holds for any reader whose stages are `exactStages`. -/
theorem exact_safety {F : Type} (lens : List Nat) (dec : List F) (cuts : List Nat)
    (hs : cuts.Pairwise (· ≤ ·)) (k : Nat) (hk : k < cuts.length) :
    ((exactStages lens dec cuts 0).take (k + 1)).flatten = dec.take (completeCount lens cuts[k])
    ∧ sumLens (lens.take (completeCount lens cuts[k])) ≤ cuts[k] := by
  refine ⟨?_, completeCount_sum_le _ _⟩
  have := exactStages_prefix lens dec cuts 0 hs (fun _ _ => Nat.zero_le _) k hk
  simpa using this

/-- **COMPLETENESS**: once a poll has seen the whole file, everything has been returned. -/
theorem exact_complete {F : Type} (lens : List Nat) (dec : List F) (hlen : dec.length = lens.length)
    (pre : List Nat) (T : Nat) (hs : (pre ++ [T]).Pairwise (· ≤ ·)) (hT : sumLens lens ≤ T) :
    (exactStages lens dec (pre ++ [T]) 0).flatten = dec := by
  have hk : pre.length < (pre ++ [T]).length := by simp
  have := exactStages_prefix lens dec (pre ++ [T]) 0 hs (fun _ _ => Nat.zero_le _) pre.length hk
  have hl := exactStages_length lens dec (pre ++ [T]) 0
  have hl' : (exactStages lens dec (pre ++ [T]) 0).length ≤ pre.length + 1 := by rw [hl]; simp
  rw [List.take_of_length_le hl'] at this
  simp only [List.take_zero, List.nil_append] at this
  rw [this]
  have hT' : (pre ++ [T])[pre.length] = T := by simp
  rw [hT', completeCount_all lens T hT, ← hlen, List.take_length]

/-- SAFETY and COMPLETENESS of the repaired xyz reader in one statement -/
theorem xyz_repaired_safety_complete (N : Nat) (hN : 1 ≤ N) (frames : List XyzF)
    (hwf : ∀ f ∈ frames, f.WF N) (cuts : List Nat) (hs : cuts.Pairwise (· ≤ ·)) :
    ∃ stages, pollAll (xyzReader .repaired) (xyzContent frames) cuts 0 = .ok stages
      ∧ stages.length = cuts.length
      ∧ (∀ k (hk : k < cuts.length),
          (stages.take (k + 1)).flatten = (xyzDecoded frames).take (completeCount (xyzLens frames) cuts[k])
          ∧ sumLens ((xyzLens frames).take (completeCount (xyzLens frames) cuts[k])) ≤ cuts[k])
      ∧ (∀ c ∈ cuts.getLast?, (xyzContent frames).length ≤ c → stages.flatten = xyzDecoded frames) := by
  refine ⟨_, xyz_repaired_exact N hN frames hwf cuts, exactStages_length _ _ _ _, ?_, ?_⟩
  · intro k hk
    exact exact_safety _ _ cuts hs k hk
  · intro c hc hle
    obtain ⟨pre, rfl⟩ : ∃ pre, cuts = pre ++ [c] := by
      have := List.getLast?_eq_some_iff.mp (Option.mem_def.mp hc)
      exact this
    apply exact_complete _ _ (by simp [xyzDecoded, xyzLens]) pre c hs
    rw [xyzContent, flatten_enc_length] at hle
    exact hle

example : (1 ≤ 2) ∧ (∀ f ∈ witness, f.WF 2) ∧ [37, 42, 88].Pairwise (· ≤ ·) := by
  refine ⟨by decide, witness_wf, by decide⟩

end Infretis.C13
