import Infretis.Lemmas.ReadersXyz
import Infretis.Lemmas.ReadersLmp
import Infretis.Lemmas.ReadersSpec
/-!
# C13 — on-the-fly trajectory readers never return a torn frame

Property theorems only.  Model: `Infretis/Model/Readers.lean` (mirrors `ReadAndProcessOnTheFly`,
`xyz_reader`, `lammpstrj_reader` of engineparts.py); lemmas: `Infretis/Lemmas/Readers*.lean`.

A trajectory is the text the MD program writes, frame by frame and line by line (`XyzF`, `LmpF`);
well-formedness (`XyzF.WF N`, `LmpF.WF N`) asks for complete lines, the atom count `N ≥ 1` on the
count line, float literals where numbers are read — and nothing about the amount of blanks, the
number formats, the comment line or the order of the atom ids.  The *values* of a frame
(`decode`) are the number tokens of its complete lines, exactly as written.  A cut sequence is any
list of prefix lengths; `pollAll reader content cuts 0` polls one reader object once per prefix.

`exactStages lens decoded cuts 0` is the behaviour the property demands: every poll returns exactly
the not yet returned frames that are completely inside the visible bytes.

TRR (`get_gromacs_frames`) has no Lean model; its size guards are exercised by the tie only.
-/
namespace Infretis.C13
open Infretis.Readers

def xyzContent (frames : List XyzF) : List Char := (frames.map XyzF.enc).flatten
def xyzLens (frames : List XyzF) : List Nat := frames.map XyzF.len
def xyzDecoded (frames : List XyzF) : List XFrame := frames.map XyzF.decode

/-! ## concrete witnesses (also used for the non-vacuity examples) -/

/-- "2\ncomment\nH 1.0 2.0 3.0\nC 4.0 5.0 6.283185\n" (43 bytes) -/
def wF1 : XyzF :=
  { cnt := ['2', '\n'],
    cmt := ['c', 'o', 'm', 'm', 'e', 'n', 't', '\n'],
    atoms := [['H', ' ', '1', '.', '0', ' ', '2', '.', '0', ' ', '3', '.', '0', '\n'],
              ['C', ' ', '4', '.', '0', ' ', '5', '.', '0', ' ', '6', '.', '2', '8', '3', '1', '8', '5', '\n']] }

/-- "   2\ncomment\nH 1.5 2.5 3.5\nC 4.5 5.5 -6.5e-1\n" (45 bytes; CP2K-style padded count line) -/
def wF2 : XyzF :=
  { cnt := [' ', ' ', ' ', '2', '\n'],
    cmt := ['c', 'o', 'm', 'm', 'e', 'n', 't', '\n'],
    atoms := [['H', ' ', '1', '.', '5', ' ', '2', '.', '5', ' ', '3', '.', '5', '\n'],
              ['C', ' ', '4', '.', '5', ' ', '5', '.', '5', ' ', '-', '6', '.', '5', 'e', '-', '1', '\n']] }

def witness : List XyzF := [wF1, wF2]

theorem isLine_of (l body : List Char) (h : l = body ++ ['\n']) (hb : '\n' ∉ body) : IsLine l :=
  ⟨body, h, hb⟩

theorem wF1_wf : wF1.WF 2 where
  cnt := isLine_of _ ['2'] rfl (by decide)
  cntTok := ⟨['2'], [], by decide, by decide⟩
  cmt := isLine_of _ ['c', 'o', 'm', 'm', 'e', 'n', 't'] rfl (by decide)
  natoms := rfl
  atoms := by
    intro a ha
    simp only [wF1, List.mem_cons, List.not_mem_nil, or_false] at ha
    rcases ha with rfl | rfl
    · exact ⟨isLine_of _ ['H', ' ', '1', '.', '0', ' ', '2', '.', '0', ' ', '3', '.', '0'] rfl (by decide), by decide, by decide⟩
    · exact ⟨isLine_of _ ['C', ' ', '4', '.', '0', ' ', '5', '.', '0', ' ', '6', '.', '2', '8', '3', '1', '8', '5'] rfl (by decide), by decide, by decide⟩

theorem wF2_wf : wF2.WF 2 where
  cnt := isLine_of _ [' ', ' ', ' ', '2'] rfl (by decide)
  cntTok := ⟨['2'], [], by decide, by decide⟩
  cmt := isLine_of _ ['c', 'o', 'm', 'm', 'e', 'n', 't'] rfl (by decide)
  natoms := rfl
  atoms := by
    intro a ha
    simp only [wF2, List.mem_cons, List.not_mem_nil, or_false] at ha
    rcases ha with rfl | rfl
    · exact ⟨isLine_of _ ['H', ' ', '1', '.', '5', ' ', '2', '.', '5', ' ', '3', '.', '5'] rfl (by decide), by decide, by decide⟩
    · exact ⟨isLine_of _ ['C', ' ', '4', '.', '5', ' ', '5', '.', '5', ' ', '-', '6', '.', '5', 'e', '-', '1'] rfl (by decide), by decide, by decide⟩

theorem witness_wf : ∀ f ∈ witness, f.WF 2 := by
  intro f hf
  simp only [witness, List.mem_cons, List.not_mem_nil, or_false] at hf
  rcases hf with rfl | rfl
  · exact wF1_wf
  · exact wF2_wf

deriving instance DecidableEq for Except

/-! ## the xyz reader as it is: the property fails -/

/-- the torn frame: the last number reads `6.2`, written was `6.283185` -/
def tornFrame : XFrame :=
  [[['1', '.', '0'], ['2', '.', '0'], ['3', '.', '0']],
   [['4', '.', '0'], ['5', '.', '0'], ['6', '.', '2']]]

/-- **SAFETY fails for `xyz_reader` as it is.**  With 37 of the 88 bytes visible (the cut lies inside
    the last number of the first frame) the first poll returns a frame — none is completely on disk —
    whose last value is torn (`6.2` for `6.283185`); and although the file is then completed and polled
    three more times, no further frame is ever returned: the second frame is lost. -/
theorem xyz_safety_counterexample :
    (∀ f ∈ witness, f.WF 2) ∧
    pollAll (xyzReader .asIs) (xyzContent witness) [37, 88, 88, 88] 0 = .ok [[tornFrame], [], [], []] ∧
    tornFrame ∉ xyzDecoded witness ∧
    completeCount (xyzLens witness) 37 = 0 ∧
    pollAll (xyzReader .asIs) (xyzContent witness) [37, 88, 88, 88] 0
      ≠ .ok (exactStages (xyzLens witness) (xyzDecoded witness) [37, 88, 88, 88] 0) := by
  refine ⟨witness_wf, by decide, by decide, by decide, by decide⟩

/-- **NO EXCEPTION fails for `xyz_reader` as it is**, in three ways: a cut just in front of the final
    newline of a frame (the next poll starts on a blank line: `i % 0`), a cut inside the leading blanks
    of the atom-count line (blank first line: `i % 0`), a cut behind the sign or inside the exponent of
    a number (`float("-")`, `float("-6.5e")`). -/
theorem xyz_noexception_counterexample :
    pollAll (xyzReader .asIs) (xyzContent witness) [42, 88] 0 = .error .zerodiv ∧
    pollAll (xyzReader .asIs) (xyzContent witness) [43, 45] 0 = .error .zerodiv ∧
    pollAll (xyzReader .asIs) (xyzContent witness) [43, 81] 0 = .error .value ∧
    pollAll (xyzReader .asIs) (xyzContent witness) [43, 85] 0 = .error .value := by
  refine ⟨by decide, by decide, by decide, by decide⟩

/-! ## the xyz reader: what does hold -/

/-- **Exactness of the repaired reader, for every byte cut** (this contains NO EXCEPTION): for every
    well-formed trajectory and *every* list of cut points the poll-by-poll output of the `repaired` reader
    is that of the exact reader. -/
theorem xyz_repaired_exact (N : Nat) (hN : 1 ≤ N) (frames : List XyzF) (hwf : ∀ f ∈ frames, f.WF N)
    (cuts : List Nat) :
    pollAll (xyzReader .repaired) (xyzContent frames) cuts 0
      = .ok (exactStages (xyzLens frames) (xyzDecoded frames) cuts 0) := by
  have := xyz_pollAll .repaired N hN frames hwf cuts (Or.inl rfl) 0 (Nat.zero_le _)
  simpa [sumLens, xyzContent, xyzLens, xyzDecoded] using this

example : pollAll (xyzReader .repaired) (xyzContent witness) [37, 42, 43, 45, 81, 85, 88] 0
    = .ok [[], [], [wF1.decode], [], [], [], [wF2.decode]] := by decide

/-- **`xyz_safety_partial`: the reader as it is, cuts at line ends only.**  If every visible prefix is
    empty or ends with a newline (the guard that excludes the defect), the as-is reader is exact, too. -/
theorem xyz_safety_partial (N : Nat) (hN : 1 ≤ N) (frames : List XyzF) (hwf : ∀ f ∈ frames, f.WF N)
    (cuts : List Nat) (hcuts : ∀ c ∈ cuts, LineEnd ((xyzContent frames).take c)) :
    pollAll (xyzReader .asIs) (xyzContent frames) cuts 0
      = .ok (exactStages (xyzLens frames) (xyzDecoded frames) cuts 0) := by
  have := xyz_pollAll .asIs N hN frames hwf cuts (Or.inr hcuts) 0 (Nat.zero_le _)
  simpa [sumLens, xyzContent, xyzLens, xyzDecoded] using this

example : (∀ c ∈ [2, 24, 43, 56, 88], LineEnd ((xyzContent witness).take c)) ∧
    pollAll (xyzReader .asIs) (xyzContent witness) [2, 24, 43, 56, 88] 0
      = .ok [[], [], [wF1.decode], [], [wF2.decode]] := by
  refine ⟨?_, by decide⟩
  intro c hc
  simp only [List.mem_cons, List.not_mem_nil, or_false] at hc
  rcases hc with rfl | rfl | rfl | rfl | rfl <;> exact Or.inr (by decide)

/-- **SAFETY** (what "exact" means, stage by stage): with non-decreasing cuts, after every poll the frames
    returned so far are precisely the frames completely contained in the visible bytes — a prefix of
    the trajectory, each frame once, in order, tokens exactly as written — and they really fit into the
    visible bytes (no torn frame). Holds for any reader whose stages are `exactStages`. -/
theorem exact_safety {F : Type} (lens : List Nat) (dec : List F) (cuts : List Nat)
    (hs : cuts.Pairwise (· ≤ ·)) (k : Nat) (hk : k < cuts.length) :
    ((exactStages lens dec cuts 0).take (k + 1)).flatten = dec.take (completeCount lens cuts[k])
    ∧ sumLens (lens.take (completeCount lens cuts[k])) ≤ cuts[k] := by
  refine ⟨?_, completeCount_sum_le _ _⟩
  have := exactStages_prefix lens dec cuts 0 hs (fun _ _ => Nat.zero_le _) k hk
  simpa using this

/-- **COMPLETENESS**: once a poll has seen the whole file, everything has been returned. -/
theorem exact_complete {F : Type} (lens : List Nat) (dec : List F) (hlen : dec.length = lens.length)
    (pre : List Nat) (T : Nat) (hs : (pre ++ [T]).Pairwise (· ≤ ·)) (hT : sumLens lens ≤ T) :
    (exactStages lens dec (pre ++ [T]) 0).flatten = dec := by
  have hk : pre.length < (pre ++ [T]).length := by simp
  have := exactStages_prefix lens dec (pre ++ [T]) 0 hs (fun _ _ => Nat.zero_le _) pre.length hk
  have hl := exactStages_length lens dec (pre ++ [T]) 0
  have hl' : (exactStages lens dec (pre ++ [T]) 0).length ≤ pre.length + 1 := by rw [hl]; simp
  rw [List.take_of_length_le hl'] at this
  simp only [List.take_zero, List.nil_append] at this
  rw [this]
  have hT' : (pre ++ [T])[pre.length] = T := by simp
  rw [hT', completeCount_all lens T hT, ← hlen, List.take_length]

/-- SAFETY and COMPLETENESS of the repaired xyz reader in one statement -/
theorem xyz_repaired_safety_complete (N : Nat) (hN : 1 ≤ N) (frames : List XyzF)
    (hwf : ∀ f ∈ frames, f.WF N) (cuts : List Nat) (hs : cuts.Pairwise (· ≤ ·)) :
    ∃ stages, pollAll (xyzReader .repaired) (xyzContent frames) cuts 0 = .ok stages
      ∧ stages.length = cuts.length
      ∧ (∀ k (hk : k < cuts.length),
          (stages.take (k + 1)).flatten = (xyzDecoded frames).take (completeCount (xyzLens frames) cuts[k])
          ∧ sumLens ((xyzLens frames).take (completeCount (xyzLens frames) cuts[k])) ≤ cuts[k])
      ∧ (∀ c ∈ cuts.getLast?, (xyzContent frames).length ≤ c → stages.flatten = xyzDecoded frames) := by
  refine ⟨_, xyz_repaired_exact N hN frames hwf cuts, exactStages_length _ _ _ _, ?_, ?_⟩
  · intro k hk
    exact exact_safety _ _ cuts hs k hk
  · intro c hc hle
    obtain ⟨pre, rfl⟩ : ∃ pre, cuts = pre ++ [c] := by
      have := List.getLast?_eq_some_iff.mp (Option.mem_def.mp hc)
      exact this
    apply exact_complete _ _ (by simp [xyzDecoded, xyzLens]) pre c hs
    rw [xyzContent, flatten_enc_length] at hle
    exact hle

example : (1 ≤ 2) ∧ (∀ f ∈ witness, f.WF 2) ∧ [37, 42, 88].Pairwise (· ≤ ·) := by
  refine ⟨by decide, witness_wf, by decide⟩

/-! ## the LAMMPS reader

Proved at full strength: (i) the two sentinels at character level — the terminating newline never
changes the tokens of a line, and a torn atom line (cut anywhere before the end of its trailing id)
is never accepted, for every line, every layout of blanks and every cut; (ii) safety and completeness
of the poll-by-poll specification `lmpStages` (which states the one-poll lag honestly) for all frame
lengths and all non-decreasing cut sequences.
**Missing link (hence `_partial`)**: the theorem
`pollAll lmpReader (enc T) cuts 0 = .ok (lmpStages lens (decode T) cuts 0 false)` for every well-formed
LAMMPS trajectory — the frame-by-frame induction over the nine header lines (the analogue of
`xyz_pollAll`) was not completed.  It is checked on every run by the tie (driver ops `lmp` vs `lspec`,
every single cut and every pair of cuts of every generated trajectory) and below on a concrete file. -/

/-- the terminating newline does not change what `line.split()` returns -/
theorem lmp_newline_irrelevant (body : List Char) : split (body ++ ['\n']) = split body :=
  split_append_nl body

/-- **trailing-id sentinel**: for an atom line `id type x y z vx vy vz id` (nine tokens, first = last, no
    blank after the trailing id, any blanks elsewhere) every strict prefix is rejected by
    `len(spl) != 9 or spl[0] != spl[-1]` — no torn atom line is ever accepted, at any byte cut. -/
theorem lmp_torn_atom_line_rejected (st : LSt) (body init : List Char) (c : Char)
    (hb : body = init ++ [c]) (hc : isBlank c = false) (h9 : (split body).length = 9)
    (hid : (split body).head? = (split body).getLast?) (n : Nat) (hn : n < body.length)
    (hline : 9 ≤ st.i % st.block) (tell' : Nat) :
    lBody st ((body ++ ['\n']).take n) (split ((body ++ ['\n']).take n)) tell' = .ret (st.traj, st.pos) :=
  lBody_torn_atom st body init c hb hc h9 hid n hn hline tell'

example : (split ['1', '2', ' ', '1', ' ', '1', ' ', '2', ' ', '3', ' ', '4', ' ', '5', ' ', '6', ' ', '1', '2']).length = 9
    ∧ (split ['1', '2', ' ', '1', ' ', '1', ' ', '2', ' ', '3', ' ', '4', ' ', '5', ' ', '6', ' ', '1', '2']).head? = (split ['1', '2', ' ', '1', ' ', '1', ' ', '2', ' ', '3', ' ', '4', ' ', '5', ' ', '6', ' ', '1', '2']).getLast?
    ∧ isBlank '2' = false := by decide

/-- **SAFETY of the LAMMPS stage specification (with the lag stated)**: for non-decreasing cuts, after
    every poll the frames returned so far are a prefix of the trajectory (each once, in order), and all
    their bytes except possibly the final newline of the last one were visible at that poll. -/
theorem lmpStages_safety_partial {F : Type} (lens : List Nat) (dec : List F) (cuts : List Nat)
    (hs : cuts.Pairwise (· ≤ ·)) (k : Nat) (hk : k < cuts.length) :
    ∃ d, ((lmpStages lens dec cuts 0 false).take (k + 1)).flatten = dec.take d ∧ d ≤ lens.length
      ∧ sumLens (lens.take d) ≤ cuts[k] + 1 := by
  have hsplit : cuts = cuts.take (k + 1) ++ cuts.drop (k + 1) := (List.take_append_drop _ _).symm
  have hsp : (cuts.take (k + 1)).Pairwise (· ≤ ·) := hs.sublist (List.take_sublist _ _)
  have hv : LValid lens (cuts.take (k + 1)) 0 false := ⟨Nat.zero_le _, by simp⟩
  obtain ⟨h1, h2, h3⟩ := lmp_run lens dec (cuts.take (k + 1)) 0 false hsp hv
  refine ⟨_, ?_, h2, ?_⟩
  · rw [hsplit, lmpStages_append]
    have hl : (lmpStages lens dec (cuts.take (k + 1)) 0 false).length = k + 1 := by
      rw [lmpStages_length]; simp; omega
    rw [List.take_append_of_le_length (by omega), List.take_of_length_le (by omega)]
    simpa using h1
  · apply h3
    rw [List.take_succ_eq_append_getElem hk, List.getLast?_concat]
    rfl

/-- **COMPLETENESS of the LAMMPS stage specification**: after two polls that see the complete file (the
    engines poll twice more after the MD program stopped) every frame has been returned — one poll may be
    spent on a newline that arrived late. -/
theorem lmpStages_complete_partial {F : Type} (lens : List Nat) (dec : List F)
    (hlen : dec.length = lens.length) (pre : List Nat) (T : Nat)
    (hs : (pre ++ [T, T]).Pairwise (· ≤ ·)) (hT : sumLens lens ≤ T) :
    (lmpStages lens dec (pre ++ [T, T]) 0 false).flatten = dec := by
  have hv : LValid lens (pre ++ [T, T]) 0 false := ⟨Nat.zero_le _, by simp⟩
  obtain ⟨h1, _, _⟩ := lmp_run lens dec (pre ++ [T, T]) 0 false hs hv
  have hsp : pre.Pairwise (· ≤ ·) := hs.sublist (List.sublist_append_left _ _)
  obtain ⟨_, h2, _⟩ := lmp_run lens dec pre 0 false hsp ⟨Nat.zero_le _, by simp⟩
  rw [lmpFinal_append, lmp_final_polls lens dec hlen T hT _ _ h2, ← hlen, List.take_length] at h1
  simpa using h1

example : [3, 44, 44].Pairwise (· ≤ ·) ∧ sumLens [44] ≤ 44 := by decide

instance : DecidableEq LFrame := inferInstanceAs (DecidableEq (List (List (List Char)) × List (List (List Char))))

/-- a concrete LAMMPS file (2 frames of 1 atom, 42 + 52 bytes; header texts shortened — the reader
    never looks at them) -/
def wLmp : List Char :=
  ['T', '\n', '0', '\n', 'N', '\n', '1', '\n', 'B', '\n', '0', ' ', '1', '\n', '0', ' ', '1', '\n', '0', ' ', '1', '\n', 'A', '\n', '1', ' ', '1', ' ', '1', ' ', '2', ' ', '3', ' ', '4', ' ', '5', ' ', '6', ' ', '1', '\n'] ++
  ['T', '\n', '5', '\n', 'N', '\n', '1', '\n', 'B', '\n', '0', ' ', '2', ' ', '0', '\n', '0', ' ', '2', ' ', '0', '\n', '0', ' ', '2', ' ', '0', '\n', 'A', '\n', '1', ' ', '1', ' ', '7', ' ', '8', ' ', '9', ' ', '-', '1', ' ', '.', '5', ' ', '6', 'e', '1', ' ', '1', '\n']

def wLmpDecoded : List LFrame :=
  [([[['1'], ['2'], ['3'], ['4'], ['5'], ['6']]],
    [[['0'], ['1'], ['0']], [['0'], ['1'], ['0']], [['0'], ['1'], ['0']]]),
   ([[['7'], ['8'], ['9'], ['-', '1'], ['.', '5'], ['6', 'e', '1']]],
    [[['0'], ['2'], ['0']], [['0'], ['2'], ['0']], [['0'], ['2'], ['0']]])]

/-- the missing link on the concrete file, including the late-newline lag (cut 41 = everything but the
    final newline of frame 1: the frame is returned; the next poll only skips the newline; the poll after
    that returns frame 2) and cuts inside every kind of line -/
theorem lmp_concrete_instance :
    pollAll lmpReader wLmp [1, 7, 12, 20, 30, 40, 41, 94, 94, 94] 0
      = .ok (lmpStages [42, 52] wLmpDecoded [1, 7, 12, 20, 30, 40, 41, 94, 94, 94] 0 false)
    ∧ lmpStages [42, 52] wLmpDecoded [1, 7, 12, 20, 30, 40, 41, 94, 94, 94] 0 false
      = [[], [], [], [], [], [], [wLmpDecoded[0]], [], [wLmpDecoded[1]], []]
    ∧ pollAll lmpReader wLmp [42, 60, 93, 94, 94] 0
      = .ok (lmpStages [42, 52] wLmpDecoded [42, 60, 93, 94, 94] 0 false) := by
  refine ⟨by decide, by decide, by decide⟩

end Infretis.C13
