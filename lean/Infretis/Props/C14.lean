import Infretis.Lemmas.StoreCodec
import Infretis.Lemmas.StoreProt
import Infretis.Lemmas.StoreLag
import Infretis.Lemmas.StoreNR
/-!
# C14 — stored paths read back unchanged; live paths never lose files

Property theorems only (helper lemmas: `Infretis/Lemmas/Store*.lean`; model:
`Infretis/Model/Store.lean`, mirroring formatter.py `PathStorage.output`, the three path
formatters, `read_some_lines`, path.py `load_path`, and the delete_old block of repex.py
`treat_output`).  All statements hold for paths of any length and histories of any length,
any number of ensembles.
-/
namespace Infretis.C14
open Infretis.Store

/-! ## Part A — the codec -/

/-- **Round trip.** Storing a path with ≥ 1 frames (any number of files, any frame → file map,
    reversed frames, index `None`, energies present or absent per frame and per term, any
    number of order parameters as long as all frames have the same number) and loading it again
    gives, frame by frame, the same basename, index (`None` ↦ 0), velocity direction, the order
    parameters to the six decimals written, the energies where present and NaN where absent. -/
theorem load_store_roundtrip (step : Nat) (mv : List String) (fs : List Frame) (hne : fs ≠ [])
    (c : Nat) (hc : ∀ f ∈ fs, f.order.length = c) :
    loadStored (store step mv fs) = .ok (fs.map expected) := by
  unfold loadStored load store
  simp only
  rw [firstBlock_traj]
  simp only [snapshots_rows]
  have hf := files_check fs
  simp only [hf, not_true_eq_false, if_false]
  rw [firstBlock_order step mv fs c hc]
  simp only
  have hrows : (rowsFrom orderRow 0 fs).map numRow ≠ [] := by
    cases fs with
    | nil => exact absurd rfl hne
    | cons f fs => simp [rowsFrom]
  simp only [dropFirstCol, hrows, if_false, order_cols, zipFrames_maps]
  rw [firstBlock_energy]
  simp only
  cases fs with
  | nil => exact absurd rfl hne
  | cons f fs' =>
    have := setEnergies_rows (f :: fs') 0
    simp only [rowsFrom, List.map_cons] at this ⊢
    simp only [numRow, parseNum_energyRow] at this ⊢
    simp only [List.length_cons, List.length_nil]
    simp only [show ¬ (0 + 1 + 1 + 1 + 1 + 1 < 3) by omega, if_false]
    rw [this]

example : loadStored (store 7 ["('sh',", "0.5,", "1,", "3)"]
    [{ dir := "w0", base := "a.xyz", idx := some 0, velRev := false, order := [-500000, 3], vpot := some 1250000, ekin := none },
     { dir := "w1", base := "b.xyz", idx := none, velRev := true, order := [1500000, 4], vpot := none, ekin := some 2 },
     { dir := "w0", base := "a.xyz", idx := some 5, velRev := true, order := [-1, 5], vpot := none, ekin := none }])
    = .ok [{ base := "a.xyz", idx := 0, velRev := false, order := [.val (-500000), .val 3], vpot := some (.val 1250000), ekin := some .nan },
           { base := "b.xyz", idx := 0, velRev := true, order := [.val 1500000, .val 4], vpot := some .nan, ekin := some (.val 2) },
           { base := "a.xyz", idx := 5, velRev := true, order := [.val (-1), .val 5], vpot := some .nan, ekin := some .nan }] := by
  rfl

theorem expected_reframe (dir : String) (f : Frame) : expected (reframe dir (expected f)) = expected f := by
  rcases f with ⟨d, b, ix, vr, ord, vp, ek⟩
  cases vp <;> cases ek <;> simp [expected, reframe, idx0, eNum]

/-- **Round trip twice.** Storing the *loaded* path again (under another number, from its
    `accepted/` directory) and loading that gives the same frames as the first load: the archive
    format is a fixed point after one trip (`None` index ↦ 0 and missing energy ↦ NaN happen once). -/
theorem load_store_roundtrip_twice (step step' : Nat) (mv mv' : List String) (fs : List Frame) (hne : fs ≠ [])
    (c : Nat) (hc : ∀ f ∈ fs, f.order.length = c) (dir : String) :
    loadStored (store step mv fs) = .ok (fs.map expected) ∧
    loadStored (store step' mv' ((fs.map expected).map (reframe dir))) = .ok (fs.map expected) := by
  refine ⟨load_store_roundtrip step mv fs hne c hc, ?_⟩
  have h := load_store_roundtrip step' mv' ((fs.map expected).map (reframe dir))
    (by cases fs with | nil => exact absurd rfl hne | cons a t => simp) c
    (by
      intro g hg
      simp only [List.map_map, List.mem_map, Function.comp] at hg
      obtain ⟨f, hf, rfl⟩ := hg
      simp [reframe, expected, hc f hf])
  rw [h]
  congr 1
  simp only [List.map_map]
  apply List.map_congr_left
  intro f _
  exact expected_reframe dir f

example : (loadStored (store 8 [] (([{ dir := "w0", base := "a.xyz", idx := none, velRev := true, order := [0, -1], vpot := some 0, ekin := none },
      { dir := "w1", base := "b.xyz", idx := some 0, velRev := false, order := [7, 0], vpot := none, ekin := some 0 }] : List Frame).map expected
      |>.map (reframe "load/3/accepted")))) =
    .ok ([{ dir := "w0", base := "a.xyz", idx := none, velRev := true, order := [0, -1], vpot := some 0, ekin := none },
      { dir := "w1", base := "b.xyz", idx := some 0, velRev := false, order := [7, 0], vpot := none, ekin := some 0 }].map expected) := by
  rfl

/-- the hypothesis "≥ 1 frame" is needed: an empty path is stored but does not load -/
theorem load_store_empty (step : Nat) (mv : List String) : loadStored (store step mv []) = .error .index := by
  cases mv <;> rfl

/-- **Files.** Every frame of the stored path refers to a file moved into the path's own
    `accepted/` directory, nothing else is moved there, and if distinct source files have
    distinct basenames no moved file overwrites another. -/
theorem stored_files_under_own_dir (step : Nat) (mv : List String) (fs : List Frame) :
    (∀ f ∈ fs, f.base ∈ (store step mv fs).accepted) ∧
    (∀ b ∈ (store step mv fs).accepted, ∃ f ∈ fs, f.base = b) ∧
    ((∀ f ∈ fs, ∀ g ∈ fs, f.base = g.base → f.dir = g.dir) → (store step mv fs).accepted.Nodup) := by
  refine ⟨?_, ?_, ?_⟩
  · intro f hf
    exact List.mem_map.mpr ⟨(f.dir, f.base), mem_sources fs f hf, rfl⟩
  · intro b hb
    obtain ⟨s, hs, rfl⟩ := List.mem_map.mp hb
    obtain ⟨f, hf, rfl⟩ := sources_sub fs s hs
    exact ⟨f, hf, rfl⟩
  · intro hinj
    show ((sources fs).map (·.2)).Nodup
    refine nodup_map_on _ _ ?_ (sources_nodup fs)
    intro a ha b hb hab
    obtain ⟨f, hf, rfl⟩ := sources_sub fs a ha
    obtain ⟨g, hg, rfl⟩ := sources_sub fs b hb
    simp only at hab
    rw [hinj f hf g hg hab, hab]

example : (store 0 [] [{ dir := "w0", base := "a.xyz", idx := some 0, velRev := false, order := [1], vpot := none, ekin := none },
                       { dir := "w1", base := "b.xyz", idx := some 1, velRev := true, order := [2], vpot := none, ekin := none }]).accepted
    = ["a.xyz", "b.xyz"] := by decide

/-! ## Part B — deletion of old paths -/

/-- a history in which every `treat_output` call replaces at most `n − 1` paths
    (the code picks one or two ensembles per call and `n ≥ 3`) -/
def opOk (s : St) : Op → Prop
  | .replace _ _ _ => s.cnt + 1 < s.n
  | .finish => True
  | .stale _ _ => True

instance (s : St) (op : Op) : Decidable (opOk s op) := by
  cases op <;> unfold opOk <;> infer_instance

def Bounded : St → List Op → Prop
  | _, [] => True
  | s, op :: ops => opOk s op ∧ ((step s op).2 = none → Bounded (step s op).1 ops)

instance decBounded : (s : St) → (ops : List Op) → Decidable (Bounded s ops)
  | _, [] => isTrue trivial
  | s, op :: ops =>
    have d2 : Decidable ((step s op).2 = none → Bounded (step s op).1 ops) :=
      if h : (step s op).2 = none then
        match decBounded (step s op).1 ops with
        | isTrue hb => isTrue (fun _ => hb)
        | isFalse hb => isFalse (fun f => hb (f h))
      else isTrue (fun h' => absurd h' h)
    @instDecidableAnd _ _ inferInstance d2

theorem good_step (s : St) (hg : Good s) (op : Op) : Good (step s op).1 := by
  cases op with
  | replace p f k => exact good_replace s hg p f k
  | finish => exact good_finish s hg
  | stale p nm => exact good_stale s hg p nm

theorem good_run : ∀ (ops : List Op) (s : St), Good s → Good (run s ops).1 := by
  intro ops
  induction ops with
  | nil => intro s h; exact h
  | cons op ops ih =>
    intro s h
    unfold run
    split
    · exact ih _ (good_step s h op)
    · exact good_step s h op

theorem prot_run : ∀ (ops : List Op) (s : St), Good s → Prot s → Bounded s ops → Prot (run s ops).1 := by
  intro ops
  induction ops with
  | nil => intro s _ h _; exact h
  | cons op ops ih =>
    intro s hg hp hb
    have hstep : Prot (step s op).1 := by
      cases op with
      | replace p f k => exact prot_replace s hg hp hb.1 p f k
      | finish => exact prot_finish s hg hp
      | stale p nm => exact prot_stale s hp p nm
    unfold run
    split
    · rename_i hok
      exact ih _ (good_step s hg op) hstep (hb.2 hok)
    · exact hstep

theorem mem_initFiles : ∀ (paths : List (Nat × List String)) (p : Nat) (adr : List String), (p, adr) ∈ paths →
    DFile.txt p 0 ∈ initFiles paths ∧ DFile.txt p 1 ∈ initFiles paths ∧ ∀ a ∈ adr, DFile.acc p a ∈ initFiles paths := by
  intro paths
  induction paths with
  | nil => intro p adr h; simp at h
  | cons e t ih =>
    intro p adr h
    obtain ⟨p', adr'⟩ := e
    rcases List.mem_cons.mp h with h | h
    · simp only [Prod.mk.injEq] at h
      obtain ⟨rfl, rfl⟩ := h
      refine ⟨by simp [initFiles], by simp [initFiles], ?_⟩
      intro a ha
      simp only [initFiles]
      exact List.mem_append_left _ (List.mem_append_right _ (List.mem_map_of_mem ha))
    · obtain ⟨h0, h1, h2⟩ := ih p adr h
      simp only [initFiles]
      exact ⟨List.mem_append_right _ h0, List.mem_append_right _ h1, fun a ha => List.mem_append_right _ (h2 a ha)⟩

theorem initFiles_pn : ∀ (paths : List (Nat × List String)) (g : DFile), g ∈ initFiles paths → g.pn ∈ paths.map (·.1) := by
  intro paths
  induction paths with
  | nil => intro g h; simp [initFiles] at h
  | cons e t ih =>
    intro g h
    obtain ⟨p', adr'⟩ := e
    simp only [initFiles, List.mem_append, List.mem_cons, List.mem_map, List.not_mem_nil, or_false] at h
    rcases h with ((h | h | h) | ⟨a, _, h⟩) | h
    all_goals first
      | (subst h; simp [DFile.pn])
      | (have := ih g h; exact List.mem_cons_of_mem _ this)

/-- the state built by `load_paths` satisfies the invariants -/
theorem init_good (n : Nat) (d a : Bool) (paths : List (Nat × List String)) (v : Variant) (kp : List String)
    (hn : 1 ≤ n) (hp : ∀ e ∈ paths, e.1 + 1 < n) : Good (init n d a paths v kp) ∧ Prot (init n d a paths v kp) := by
  have hlt : ∀ p ∈ paths.map (·.1), p < n - 1 := by
    intro p hp'
    obtain ⟨e, he, rfl⟩ := List.mem_map.mp hp'
    have := hp e he
    omega
  have hint : ∀ p ∈ paths.map (·.1), Intact (init n d a paths v kp) p := by
    intro p hp'
    obtain ⟨e, he, rfl⟩ := List.mem_map.mp hp'
    obtain ⟨h0, h1, _⟩ := mem_initFiles paths e.1 e.2 he
    refine ⟨h0, h1, ?_⟩
    intro adr hl b hb
    exact (mem_initFiles paths e.1 adr (lookup_mem _ _ _ hl)).2.2 b hb
  refine ⟨⟨?_, hlt, hlt, hint⟩, ⟨hlt, hint, ?_, ?_⟩⟩
  · intro q hq; simp [init, keys] at hq
  · simp [init]; omega
  · intro p _ hq; simp [init, keys] at hq

/-- **Live paths never lose files** (state form): after any history — including one that ends in an
    exception, the state then being what is on disk — every live path has its traj.txt, order.txt
    and every trajectory file its traj.txt refers to. -/
theorem never_deletes_live_file (s : St) (hg : Good s) (ops : List Op) :
    ∀ p ∈ (run s ops).1.live, Intact (run s ops).1 p :=
  (good_run ops s hg).live_intact

/-- (step form) a file that disappears in a step belongs to a path that is not live, is not an
    initial path, and was numbered before this step. -/
theorem step_removes_only_dead (s : St) (hg : Good s) (op : Op) (g : DFile) (hgd : g ∈ s.disk)
    (hn : g ∉ (step s op).1.disk) : g.pn ∉ s.live ∧ (s.n : Int) - 2 < g.pn ∧ g.pn < s.trajNum := by
  cases op with
  | finish => exact absurd ((finish_disk s).1 ▸ hgd) hn
  | stale p nm => exact absurd (stale_disk s p nm g hgd) hn
  | replace p f k =>
    obtain ⟨pd, adr, rest, h1, h2, _⟩ := replace_removed s p f k g hgd hn
    have : pd ∈ keys s.pnOlds := by rw [h1]; simp [keys]
    rw [h2]
    exact hg.olds_dead pd this

/-- **The restart file's paths keep their files**: the `active` list of the restart.toml on disk
    (written at the end of the last completed `treat_output`) only names paths that still load,
    at every moment, also in the middle of a call and after an exception. -/
theorem never_deletes_restart_referenced (s : St) (hg : Good s) (hp : Prot s) (ops : List Op)
    (hb : Bounded s ops) : ∀ p ∈ (run s ops).1.restart, Intact (run s ops).1 p :=
  (prot_run ops s hg hp hb).restart_intact

theorem run_n : ∀ (ops : List Op) (s : St), (run s ops).1.n = s.n := by
  intro ops
  induction ops with
  | nil => intro s; rfl
  | cons op ops ih =>
    intro s
    have h1 : (step s op).1.n = s.n := by
      cases op with
      | replace p f k => exact (replace_ctl s p f k).1
      | finish => exact (finish_disk s).2
      | stale p nm => exact (stale_ctl s p nm).1
    unfold run
    split
    · rw [ih, h1]
    · exact h1

/-- **Initial paths are never touched**: a file of a path numbered ≤ n − 2 survives every history. -/
theorem never_touches_initial_paths : ∀ (ops : List Op) (s : St), Good s → ∀ g ∈ s.disk,
    (g.pn : Int) ≤ (s.n : Int) - 2 → g ∈ (run s ops).1.disk := by
  intro ops
  induction ops with
  | nil => intro s _ g h _; exact h
  | cons op ops ih =>
    intro s hg g hgd hle
    have h1 : g ∈ (step s op).1.disk := by
      apply Classical.byContradiction
      intro hn
      have := (step_removes_only_dead s hg op g hgd hn).2.1
      omega
    have hn : (step s op).1.n = s.n := by
      cases op with
      | replace p f k => exact (replace_ctl s p f k).1
      | finish => exact (finish_disk s).2
      | stale p nm => exact (stale_ctl s p nm).1
    unfold run
    split
    · exact ih _ (good_step s hg op) g h1 (by rw [hn]; exact hle)
    · exact h1

/-- all three for the state `load_paths` builds: n − 1 initial paths numbered below n − 1 -/
theorem safety_from_init (n : Nat) (d a : Bool) (paths : List (Nat × List String)) (v : Variant) (kp : List String)
    (hn : 1 ≤ n) (hp : ∀ e ∈ paths, e.1 + 1 < n) (ops : List Op) :
    (∀ p ∈ (run (init n d a paths v kp) ops).1.live, Intact (run (init n d a paths v kp) ops).1 p) ∧
    (Bounded (init n d a paths v kp) ops →
      ∀ p ∈ (run (init n d a paths v kp) ops).1.restart, Intact (run (init n d a paths v kp) ops).1 p) ∧
    (∀ g ∈ initFiles paths, g ∈ (run (init n d a paths v kp) ops).1.disk) := by
  obtain ⟨hg, hpr⟩ := init_good n d a paths v kp hn hp
  refine ⟨never_deletes_live_file _ hg ops, fun hb => never_deletes_restart_referenced _ hg hpr ops hb, ?_⟩
  intro g hgi
  refine never_touches_initial_paths ops _ hg g hgi ?_
  obtain ⟨e, he, hpn⟩ := List.mem_map.mp (initFiles_pn paths g hgi)
  have := hp e he
  show (g.pn : Int) ≤ (n : Int) - 2
  omega

/-- a concrete non-trivial history: 2 ensembles (n = 3), delete_old, four accepted moves -/
def demoInit : St := init 3 true false [(0, ["i0.xyz"]), (1, ["i1a.xyz", "i1b.xyz"])]
def demoOps : List Op :=
  [.replace 1 ["a.xyz"] [], .finish, .replace 2 ["b.xyz"] [], .finish, .replace 0 ["c.xyz"] [], .finish,
   .replace 3 ["d.xyz"] [], .finish, .replace 5 ["e.xyz"] [], .finish]

example : Bounded demoInit demoOps ∧ (run demoInit demoOps).2 = none ∧ (run demoInit demoOps).1.live = [4, 6]
    ∧ keys (run demoInit demoOps).1.pnOlds = [3, 5] ∧ DFile.acc 2 "a.xyz" ∉ (run demoInit demoOps).1.disk
    ∧ DFile.acc 1 "i1a.xyz" ∈ (run demoInit demoOps).1.disk := by
  decide

example : (1 : Nat) ≤ 3 ∧ ∀ e ∈ [((0 : Nat), ["i0.xyz"]), (1, ["i1a.xyz", "i1b.xyz"])], e.1 + 1 < 3 := by decide

/-! ### the lag -/

/-- **Lag, part 1.** A live, non-initial path replaced under `delete_old` is queued with exactly
    `n − 1` (= number of ensembles) qualifying replacements to go, whatever the queue held. -/
theorem deletion_lag_queued (s : St) (hg : Good s) (hlen : s.pnOlds.length + 1 ≤ s.n) (pnOld : Nat)
    (files kept : List String) (hl : pnOld ∈ s.live) (hq : qualifies s pnOld = true)
    (hok : (replace s pnOld files kept).2 = none) :
    pnOld ∈ keys (replace s pnOld files kept).1.pnOlds ∧ remn (replace s pnOld files kept).1 pnOld = s.n - 1 :=
  lag_push s hg hlen pnOld files kept hl hq hok

/-- **Lag, part 2.** For a queued path `q` and one later accepted replacement: a non-qualifying
    one (delete_old off or an initial path replaced) leaves the queue and `q`'s files alone; a
    qualifying one removes `q`'s queue entry and all files of its `adress` exactly when its
    counter `remn` is 1, and otherwise decrements the counter and leaves every file of `q` in place.
    Together with part 1: a replaced path's files are removed at, and not before, the
    (n − 1)-th later qualifying replacement. (`finish` does not touch queue or files.) -/
theorem deletion_lag (s : St) (hg : Good s) (hlen : s.pnOlds.length + 1 ≤ s.n) (hnd : (keys s.pnOlds).Nodup)
    (q : Nat) (hqk : q ∈ keys s.pnOlds) (pnOld : Nat) (files kept : List String) (hl : pnOld ∈ s.live)
    (hok : (replace s pnOld files kept).2 = none) :
    (qualifies s pnOld = false →
      (replace s pnOld files kept).1.pnOlds = s.pnOlds ∧
      ∀ g ∈ s.disk, g.pn = q → g ∈ (replace s pnOld files kept).1.disk) ∧
    (qualifies s pnOld = true →
      (remn s q = 1 → q ∉ keys (replace s pnOld files kept).1.pnOlds ∧
        ∀ adr, (q, adr) ∈ s.pnOlds → ∀ a ∈ adr, DFile.acc q a ∉ (replace s pnOld files kept).1.disk) ∧
      (remn s q ≠ 1 → q ∈ keys (replace s pnOld files kept).1.pnOlds ∧
        remn (replace s pnOld files kept).1 q + 1 = remn s q ∧
        ∀ g ∈ s.disk, g.pn = q → g ∈ (replace s pnOld files kept).1.disk)) :=
  lag_step s hg hlen hnd q hqk pnOld files kept hl hok

/-- the side conditions of the two lag theorems are invariants of every history -/
theorem deletion_lag_invariants (s : St) (hg : Good s) (hp : Prot s) (hnd : (keys s.pnOlds).Nodup)
    (hb : s.cnt + 1 < s.n) (pnOld : Nat) (files kept : List String) :
    (replace s pnOld files kept).1.pnOlds.length + 1 ≤ (replace s pnOld files kept).1.n ∧
    (keys (replace s pnOld files kept).1.pnOlds).Nodup ∧
    (finish s).1.pnOlds = s.pnOlds ∧ (finish s).1.disk = s.disk :=
  ⟨(prot_replace s hg hp hb pnOld files kept).olds_len, nodup_replace s hnd pnOld files kept,
   by unfold finish; dsimp only; split <;> rfl, (finish_disk s).1⟩

/-- the lag on a concrete history (n = 3, lag 2): path 2 is queued by the third op, still has its
    file after one more qualifying replacement, and loses it at the second -/
example :
    let s1 := (run demoInit (demoOps.take 3)).1
    let s2 := (run demoInit (demoOps.take 7)).1
    let s3 := (run demoInit (demoOps.take 9)).1
    remn s1 2 = 2 ∧ 2 ∉ s1.live ∧ DFile.acc 2 "a.xyz" ∈ s2.disk ∧ remn s2 2 = 1 ∧
    DFile.acc 2 "a.xyz" ∉ s3.disk ∧ 2 ∉ keys s3.pnOlds := by
  decide

/-! ### the delete block can raise -/

/-- **Defect of the code before /repo commit 867b445 (variant `asIs`).** With `delete_old_all` and `keep_traj_fnames` the side files moved into
    `accepted/` are not in `adress`; when the path's turn comes `os.rmdir(accepted)` hits a
    non-empty directory: OSError, the run dies.  Witness: 2 ensembles, three accepted shooting
    moves in [0+], the first new path kept one side file. -/
def cexInit : St := init 3 true true [(0, ["i0.xyz"]), (1, ["i1.xyz"])] .asIs [".adp"]
def cexOps : List Op :=
  [.replace 1 ["a.xyz"] ["a.adp"], .finish, .replace 2 ["b.xyz"] [], .finish, .replace 3 ["c.xyz"] [], .finish,
   .replace 4 ["d.xyz"] [], .finish]

theorem delete_block_never_raises_counterexample :
    ¬ (∀ (s : St) (ops : List Op), Good s → Prot s → Bounded s ops → (run s ops).2 = none) := by
  intro h
  have hi := init_good 3 true true [(0, ["i0.xyz"]), (1, ["i1.xyz"])] .asIs [".adp"] (by decide) (by decide)
  have := h cexInit cexOps hi.1 hi.2 (by decide)
  revert this
  decide

example : (run cexInit cexOps).2 = some .notempty := by decide


/-- the shared argument: the body of the delete block for the queue head `pd` does not raise when
    its `adress` files are there (once each) and either `delete_old_all` is off or both
    directories exist and `load/pd` holds nothing but the three text files, the `adress` files
    and — only for the repaired code — any other entry of accepted/ whatsoever. -/
theorem delete_block_ok (c : DelCfg) (pd : Nat) (adr : List String)
    (rest : List (Nat × List String)) (disk : List DFile) (dirs : List DDir)
    (hnd : adr.Nodup) (hex : ∀ a ∈ adr, DFile.acc pd a ∈ disk)
    (hguard : c.delAll = false ∨
      (DDir.accepted pd ∈ dirs ∧ DDir.path pd ∈ dirs ∧
       ∀ g ∈ disk, g.pn = pd → (g = .txt pd 0 ∨ g = .txt pd 1 ∨ g = .txt pd 2 ∨ (∃ a ∈ adr, g = .acc pd a) ∨
         (c.variant = .repaired ∧ isAccOf pd g = true)))) :
    (delHeadCore c ((pd, adr) :: rest) disk dirs).2.2.2 = none ∧
    (delHeadCore c ((pd, adr) :: rest) disk dirs).1 = rest :=
  block_ok c pd adr rest disk dirs hnd hex hguard

/-- **The delete block never raises (repaired code, per block).** If the `adress` files of the
    queue head exist (once each) and its two directories exist, deleting it succeeds and pops the
    queue head, with or without `delete_old_all`, whatever else lies in `accepted/` (kept side
    files, stale files of an interrupted store). -/
theorem delete_block_never_raises (c : DelCfg) (hv : c.variant = .repaired) (pd : Nat) (adr : List String)
    (rest : List (Nat × List String)) (disk : List DFile) (dirs : List DDir)
    (hnd : adr.Nodup) (hex : ∀ a ∈ adr, DFile.acc pd a ∈ disk)
    (hd1 : DDir.accepted pd ∈ dirs) (hd2 : DDir.path pd ∈ dirs)
    (htxt : ∀ p k, DFile.txt p k ∈ disk → k < 3) :
    (delHeadCore c ((pd, adr) :: rest) disk dirs).2.2.2 = none ∧
    (delHeadCore c ((pd, adr) :: rest) disk dirs).1 = rest :=
  block_never_raises c hv pd adr rest disk dirs hnd hex hd1 hd2 htxt

/-- the block that killed the run before the repair now succeeds: a kept `a.adp` next to `a.xyz` -/
example : (delHeadCore { delAll := true, variant := .repaired, keep := [".adp"] } [(2, ["a.xyz"])]
    [.txt 2 0, .txt 2 1, .txt 2 2, .acc 2 "a.xyz", .acc 2 "a.adp", .txt 3 1]
    [.path 2, .accepted 2, .path 3]).2.2.2 = none ∧
  (delHeadCore { delAll := true, variant := .asIs, keep := [".adp"] } [(2, ["a.xyz"])]
    [.txt 2 0, .txt 2 1, .txt 2 2, .acc 2 "a.xyz", .acc 2 "a.adp", .txt 3 1]
    [.path 2, .accepted 2, .path 3]).2.2.2 = some .notempty := by decide

/-- the whole history that raised with the old code runs through with the repaired one -/
example : (run (init 3 true true [(0, ["i0.xyz"]), (1, ["i1.xyz"])] .repaired [".adp"]) cexOps).2 = none := by decide

/-- **What held before the repair** (variant `asIs`): the block does not raise as long as no side
    file was kept — the guard is exactly the negation of the defect. -/
theorem delete_block_never_raises_partial (c : DelCfg) (pd : Nat) (adr : List String)
    (rest : List (Nat × List String)) (disk : List DFile) (dirs : List DDir)
    (hnd : adr.Nodup) (hex : ∀ a ∈ adr, DFile.acc pd a ∈ disk)
    (hguard : c.delAll = false ∨
      (DDir.accepted pd ∈ dirs ∧ DDir.path pd ∈ dirs ∧
       ∀ g ∈ disk, g.pn = pd → (g = .txt pd 0 ∨ g = .txt pd 1 ∨ g = .txt pd 2 ∨ ∃ a ∈ adr, g = .acc pd a))) :
    (delHeadCore c ((pd, adr) :: rest) disk dirs).2.2.2 = none ∧
    (delHeadCore c ((pd, adr) :: rest) disk dirs).1 = rest := by
  refine delete_block_ok c pd adr rest disk dirs hnd hex ?_
  rcases hguard with h | ⟨h1, h2, h3⟩
  · exact Or.inl h
  · refine Or.inr ⟨h1, h2, ?_⟩
    intro g hg hp
    rcases h3 g hg hp with h | h | h | h
    · exact Or.inl h
    · exact Or.inr (Or.inl h)
    · exact Or.inr (Or.inr (Or.inl h))
    · exact Or.inr (Or.inr (Or.inr (Or.inl h)))

example : (delHeadCore { delAll := true, variant := .asIs, keep := [] } [(2, ["a.xyz"])]
    [.txt 2 0, .txt 2 1, .txt 2 2, .acc 2 "a.xyz", .txt 3 1]
    [.path 2, .accepted 2, .path 3]).2.2.2 = none := by decide

/-! ### whole histories with the repaired code -/

/-- a well-formed history: every accepted replacement replaces a path that is live at that
    moment and the new path's `adress` is a set; stale files may appear at any time -/
def wfOp (s : St) : Op → Prop
  | .replace p f _ => p ∈ s.live ∧ f.Nodup
  | _ => True

instance (s : St) (op : Op) : Decidable (wfOp s op) := by
  cases op <;> unfold wfOp <;> infer_instance

def WF : St → List Op → Prop
  | _, [] => True
  | s, op :: ops => wfOp s op ∧ WF (step s op).1 ops

instance decWF : (s : St) → (ops : List Op) → Decidable (WF s ops)
  | _, [] => isTrue trivial
  | s, op :: ops => @instDecidableAnd _ _ inferInstance (decWF (step s op).1 ops)

theorem nr_run : ∀ (ops : List Op) (s : St), NR s → WF s ops → (run s ops).2 = none ∧ NR (run s ops).1 := by
  intro ops
  induction ops with
  | nil => intro s h _; exact ⟨rfl, h⟩
  | cons op ops ih =>
    intro s h hw
    have hstep : (step s op).2 = none ∧ NR (step s op).1 := by
      cases op with
      | replace p f k => exact nr_replace s h p f k hw.1.1 hw.1.2
      | finish => exact nr_finish s h
      | stale p nm => exact ⟨rfl, nr_stale s h p nm⟩
    unfold run
    simp only [hstep.1]
    exact ih _ hstep.2 hw.2

theorem mem_initDirs : ∀ (paths : List (Nat × List String)) (p : Nat) (adr : List String), (p, adr) ∈ paths →
    DDir.accepted p ∈ initDirs paths ∧ DDir.path p ∈ initDirs paths := by
  intro paths
  induction paths with
  | nil => intro p adr h; simp at h
  | cons e t ih =>
    intro p adr h
    obtain ⟨p', adr'⟩ := e
    rcases List.mem_cons.mp h with h | h
    · simp only [Prod.mk.injEq] at h
      obtain ⟨rfl, rfl⟩ := h
      simp [initDirs]
    · obtain ⟨h0, h1⟩ := ih p adr h
      simp only [initDirs]
      exact ⟨List.mem_cons_of_mem _ (List.mem_cons_of_mem _ h0), List.mem_cons_of_mem _ (List.mem_cons_of_mem _ h1)⟩

theorem initFiles_txt : ∀ (paths : List (Nat × List String)) (p k : Nat), DFile.txt p k ∈ initFiles paths → k < 3 := by
  intro paths
  induction paths with
  | nil => intro p k h; simp [initFiles] at h
  | cons e t ih =>
    intro p k h
    obtain ⟨p', adr'⟩ := e
    simp only [initFiles, List.mem_append, List.mem_cons, List.mem_map, List.not_mem_nil, or_false] at h
    rcases h with ((h | h | h) | ⟨a, _, h⟩) | h
    · injection h with _ h; omega
    · injection h with _ h; omega
    · injection h with _ h; omega
    · exact absurd h (by simp)
    · exact ih p k h

/-- the state `load_paths` builds satisfies the never-raises invariant of the repaired code -/
theorem init_nr (n : Nat) (d a : Bool) (paths : List (Nat × List String)) (kp : List String) (hn : 2 ≤ n)
    (hp : ∀ e ∈ paths, e.1 + 1 < n) (hnd : ∀ e ∈ paths, e.2.Nodup) : NR (init n d a paths .repaired kp) := by
  obtain ⟨hg, hpr⟩ := init_good n d a paths .repaired kp (by omega) hp
  refine ⟨rfl, hn, hg, ?_, ?_, ?_, hpr.olds_len, List.nodup_nil, ?_, ?_⟩
  · intro e he; simp [init] at he
  · intro p hpl
    obtain ⟨e, he, rfl⟩ := List.mem_map.mp hpl
    have hex : ∃ adr, lookup e.1 paths = some adr := by
      clear hp hnd hg hpr hpl
      induction paths with
      | nil => simp at he
      | cons x t ih =>
        obtain ⟨k, v⟩ := x
        unfold lookup
        by_cases hk : k = e.1
        · exact ⟨v, by simp [hk]⟩
        · simp only [hk, if_false]
          rcases List.mem_cons.mp he with h | h
          · exact absurd (by rw [h]) hk
          · exact ih h
    obtain ⟨adr, hla⟩ := hex
    have hm := lookup_mem _ _ _ hla
    refine ⟨adr, hla, hnd _ hm, (mem_initFiles paths e.1 adr hm).2.2, (mem_initDirs paths e.1 adr hm).1,
      (mem_initDirs paths e.1 adr hm).2⟩
  · simp [init, keys]
  · intro p hpp; simp [init] at hpp
  · exact initFiles_txt paths

/-- **No delete block ever raises (repaired code, whole histories).** From the state `load_paths`
    builds — any number of ensembles, any delete_old / delete_old_all / keep_traj_fnames — every
    well-formed history of accepted replacements (with whatever kept side files), `finish`es and
    stale files appearing in `accepted/` directories runs through without an exception. -/
theorem delete_block_never_raises_history (n : Nat) (d a : Bool) (paths : List (Nat × List String))
    (kp : List String) (hn : 2 ≤ n) (hp : ∀ e ∈ paths, e.1 + 1 < n) (hnd : ∀ e ∈ paths, e.2.Nodup)
    (ops : List Op) (hw : WF (init n d a paths .repaired kp) ops) :
    (run (init n d a paths .repaired kp) ops).2 = none :=
  (nr_run ops _ (init_nr n d a paths kp hn hp hnd) hw).1

/-- a history with kept side files and a stale file that is well-formed: it is `cexOps` plus a stale file -/
example : WF (init 3 true true [(0, ["i0.xyz"]), (1, ["i1.xyz"])] .repaired [".adp"])
    (.stale 1 "junk" :: cexOps ++ [.stale 5 "left.tmp", .replace 5 ["e.xyz"] ["e.adp"], .finish,
      .replace 6 ["f.xyz"] [], .finish, .replace 0 ["g.xyz"] [], .finish, .replace 7 ["h.xyz"] [], .finish]) ∧
    (∀ e ∈ [((0 : Nat), ["i0.xyz"]), (1, ["i1.xyz"])], e.2.Nodup) := by
  decide

/-! ### the bound on replacements per call holds for the real call pattern -/

/-- at most `m` replacements between two `finish`es, `c` already done in the running call -/
def callsOK (m : Nat) : Nat → List Op → Prop
  | _, [] => True
  | c, .replace _ _ _ :: ops => c + 1 ≤ m ∧ callsOK m (c + 1) ops
  | _, .finish :: ops => callsOK m 0 ops
  | c, .stale _ _ :: ops => callsOK m c ops

instance decCallsOK (m : Nat) : (c : Nat) → (ops : List Op) → Decidable (callsOK m c ops)
  | _, [] => isTrue trivial
  | c, .replace _ _ _ :: ops => @instDecidableAnd _ _ inferInstance (decCallsOK m (c + 1) ops)
  | _, .finish :: ops => decCallsOK m 0 ops
  | c, .stale _ _ :: ops => decCallsOK m c ops

theorem finish_cnt (s : St) (h : (finish s).2 = none) : (finish s).1.cnt = 0 := by
  unfold finish at h ⊢
  dsimp only at h ⊢
  split
  · rename_i e he; simp [he] at h
  · rfl

theorem bounded_of_calls (m : Nat) : ∀ (ops : List Op) (s : St), m < s.n → callsOK m s.cnt ops → Bounded s ops := by
  intro ops
  induction ops with
  | nil => intro s _ _; trivial
  | cons op ops ih =>
    intro s hm hc
    cases op with
    | replace p f k =>
      obtain ⟨h1, h2⟩ := hc
      refine ⟨by show s.cnt + 1 < s.n; omega, ?_⟩
      intro hok
      apply ih
      · rw [show (step s (.replace p f k)).1.n = s.n from (replace_ctl s p f k).1]; exact hm
      · rcases replace_fields s p f k with he | ⟨_, _, hcnt, _⟩
        · have : (step s (.replace p f k)).2 = some .key := by show (replace s p f k).2 = _; rw [he]
          rw [this] at hok; simp at hok
        · rw [show (step s (.replace p f k)).1.cnt = s.cnt + 1 from hcnt]; exact h2
    | finish =>
      refine ⟨trivial, ?_⟩
      intro hok
      apply ih
      · rw [show (step s .finish).1.n = s.n from (finish_disk s).2]; exact hm
      · rw [show (step s .finish).1.cnt = 0 from finish_cnt s hok]; exact hc
    | stale p nm =>
      refine ⟨trivial, ?_⟩
      intro _
      apply ih
      · rw [show (step s (.stale p nm)).1.n = s.n from (stale_ctl s p nm).1]; exact hm
      · rw [show (step s (.stale p nm)).1.cnt = s.cnt from (stale_ctl s p nm).2.2.2.2.2.2.1]; exact hc

/-- **The restart file's paths keep their files, for the calls the code really makes**: one or
    two replacements per `treat_output` (a shooting move or a zero swap), at least two interfaces
    (n ≥ 3) — in particular for an accepted zero swap with n = 3, where both replaced paths are
    still named by the restart.toml on disk while the second one is being stored. -/
theorem never_deletes_restart_referenced_calls (n : Nat) (d a : Bool) (paths : List (Nat × List String))
    (v : Variant) (kp : List String) (hn : 3 ≤ n) (hp : ∀ e ∈ paths, e.1 + 1 < n) (ops : List Op)
    (hc : callsOK 2 0 ops) :
    ∀ p ∈ (run (init n d a paths v kp) ops).1.restart, Intact (run (init n d a paths v kp) ops).1 p := by
  obtain ⟨hg, hpr⟩ := init_good n d a paths v kp (by omega) hp
  exact never_deletes_restart_referenced _ hg hpr ops (bounded_of_calls 2 ops _ (by show 2 < n; omega) hc)

/-- an accepted zero swap (two replacements in one call) with two interfaces (n = 3), delete_old on -/
example : callsOK 2 0 [.replace 0 ["a.xyz"] [], .replace 1 ["b.xyz"] [], .finish,
    .replace 2 ["c.xyz"] [], .replace 3 ["d.xyz"] [], .finish, .replace 4 ["e.xyz"] [], .finish] := by
  decide

end Infretis.C14
