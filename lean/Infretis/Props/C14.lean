import Infretis.Lemmas.StoreCodec
import Infretis.Lemmas.StoreProt
import Infretis.Lemmas.StoreLag
import Infretis.Lemmas.StoreNR
import Infretis.Lemmas.StorePath
import Infretis.Lemmas.StoreTextFile
import Infretis.Lemmas.StoreMove
import Infretis.Lemmas.StoreRestart
/-!
# C14 — stored paths read back unchanged; live paths never lose files

Property theorems only (helper lemmas: `Infretis/Lemmas/Store*.lean`; model:
`Infretis/Model/Store.lean`, mirroring formatter.py `PathStorage.output`, the three path
formatters, `read_some_lines`, path.py `load_path`, and the delete_old block of repex.py
`treat_output`).  All statements hold for paths of any length and histories of any length,
any number of ensembles.
-/
namespace Infretis.C14
open Infretis.Store

/-! ## Part A — the codec -/

/-- **Round trip.** Storing a path with ≥ 1 frames (any number of files, any frame → file map,
    reversed frames, index `None`, energies present or absent per frame and per term, any
    number of order parameters as long as all frames have the same number) and loading it again
    gives, frame by frame, the same basename, index (`None` ↦ 0), velocity direction, the order
    parameters to the six decimals written, the energies where present and NaN where absent. -/
theorem load_store_roundtrip (step : Nat) (mv : List String) (fs : List Frame) (hne : fs ≠ [])
    (c : Nat) (hc : ∀ f ∈ fs, f.order.length = c) :
    loadStored (store step mv fs) = .ok (fs.map expected) := by
  unfold loadStored load store
  simp only
  rw [firstBlock_traj]
  simp only [snapshots_rows]
  have hf := files_check fs
  simp only [hf, not_true_eq_false, if_false]
  rw [firstBlock_order step mv fs c hc]
  simp only
  have hrows : (rowsFrom orderRow 0 fs).map numRow ≠ [] := by
    cases fs with
    | nil => exact absurd rfl hne
    | cons f fs => simp [rowsFrom]
  simp only [dropFirstCol, hrows, if_false, order_cols, zipFrames_maps]
  rw [firstBlock_energy]
  simp only
  cases fs with
  | nil => exact absurd rfl hne
  | cons f fs' =>
    have := setEnergies_rows (f :: fs') 0
    simp only [rowsFrom, List.map_cons] at this ⊢
    simp only [numRow, parseNum_energyRow] at this ⊢
    simp only [List.length_cons, List.length_nil]
    simp only [show ¬ (0 + 1 + 1 + 1 + 1 + 1 < 3) by omega, if_false]
    rw [this]

example : loadStored (store 7 ["('sh',", "0.5,", "1,", "3)"]
    [{ dir := "w0", base := "a.xyz", idx := some 0, velRev := false, order := [-500000, 3], vpot := some 1250000, ekin := none },
     { dir := "w1", base := "b.xyz", idx := none, velRev := true, order := [1500000, 4], vpot := none, ekin := some 2 },
     { dir := "w0", base := "a.xyz", idx := some 5, velRev := true, order := [-1, 5], vpot := none, ekin := none }])
    = .ok [{ base := "a.xyz", idx := 0, velRev := false, order := [.val (-500000), .val 3], vpot := some (.val 1250000), ekin := some .nan },
           { base := "b.xyz", idx := 0, velRev := true, order := [.val 1500000, .val 4], vpot := some .nan, ekin := some (.val 2) },
           { base := "a.xyz", idx := 5, velRev := true, order := [.val (-1), .val 5], vpot := some .nan, ekin := some .nan }] := by
  rfl

theorem expected_reframe (dir : String) (f : Frame) : expected (reframe dir (expected f)) = expected f := by
  rcases f with ⟨d, b, ix, vr, ord, vp, ek⟩
  cases vp <;> cases ek <;> simp [expected, reframe, idx0, eNum]

/-- **Round trip twice.** Storing the *loaded* path again (under another number, from its
    `accepted/` directory) and loading that gives the same frames as the first load: the archive
    format is a fixed point after one trip (`None` index ↦ 0 and missing energy ↦ NaN happen once). -/
theorem load_store_roundtrip_twice (step step' : Nat) (mv mv' : List String) (fs : List Frame) (hne : fs ≠ [])
    (c : Nat) (hc : ∀ f ∈ fs, f.order.length = c) (dir : String) :
    loadStored (store step mv fs) = .ok (fs.map expected) ∧
    loadStored (store step' mv' ((fs.map expected).map (reframe dir))) = .ok (fs.map expected) := by
  refine ⟨load_store_roundtrip step mv fs hne c hc, ?_⟩
  have h := load_store_roundtrip step' mv' ((fs.map expected).map (reframe dir))
    (by cases fs with | nil => exact absurd rfl hne | cons a t => simp) c
    (by
      intro g hg
      simp only [List.map_map, List.mem_map, Function.comp] at hg
      obtain ⟨f, hf, rfl⟩ := hg
      simp [reframe, expected, hc f hf])
  rw [h]
  congr 1
  simp only [List.map_map]
  apply List.map_congr_left
  intro f _
  exact expected_reframe dir f

example : (loadStored (store 8 [] (([{ dir := "w0", base := "a.xyz", idx := none, velRev := true, order := [0, -1], vpot := some 0, ekin := none },
      { dir := "w1", base := "b.xyz", idx := some 0, velRev := false, order := [7, 0], vpot := none, ekin := some 0 }] : List Frame).map expected
      |>.map (reframe "load/3/accepted")))) =
    .ok ([{ dir := "w0", base := "a.xyz", idx := none, velRev := true, order := [0, -1], vpot := some 0, ekin := none },
      { dir := "w1", base := "b.xyz", idx := some 0, velRev := false, order := [7, 0], vpot := none, ekin := some 0 }].map expected) := by
  rfl

/-- the hypothesis "≥ 1 frame" is needed: an empty path is stored but does not load -/
theorem load_store_empty (step : Nat) (mv : List String) : loadStored (store step mv []) = .error .index := by
  cases mv <;> rfl

/-- **Files.** Every frame of the stored path refers to a file moved into the path's own
    `accepted/` directory, nothing else is moved there, and if distinct source files have
    distinct basenames no moved file overwrites another. -/
theorem stored_files_under_own_dir (step : Nat) (mv : List String) (fs : List Frame) :
    (∀ f ∈ fs, f.base ∈ (store step mv fs).accepted) ∧
    (∀ b ∈ (store step mv fs).accepted, ∃ f ∈ fs, f.base = b) ∧
    ((∀ f ∈ fs, ∀ g ∈ fs, f.base = g.base → f.dir = g.dir) → (store step mv fs).accepted.Nodup) := by
  refine ⟨?_, ?_, ?_⟩
  · intro f hf
    exact List.mem_map.mpr ⟨(f.dir, f.base), mem_sources fs f hf, rfl⟩
  · intro b hb
    obtain ⟨s, hs, rfl⟩ := List.mem_map.mp hb
    obtain ⟨f, hf, rfl⟩ := sources_sub fs s hs
    exact ⟨f, hf, rfl⟩
  · intro hinj
    show ((sources fs).map (·.2)).Nodup
    refine nodup_map_on _ _ ?_ (sources_nodup fs)
    intro a ha b hb hab
    obtain ⟨f, hf, rfl⟩ := sources_sub fs a ha
    obtain ⟨g, hg, rfl⟩ := sources_sub fs b hb
    simp only at hab
    rw [hinj f hf g hg hab, hab]

example : (store 0 [] [{ dir := "w0", base := "a.xyz", idx := some 0, velRev := false, order := [1], vpot := none, ekin := none },
                       { dir := "w1", base := "b.xyz", idx := some 1, velRev := true, order := [2], vpot := none, ekin := none }]).accepted
    = ["a.xyz", "b.xyz"] := by decide

/-! ## Part B — deletion of old paths -/

/-- a history in which every `treat_output` call replaces at most `n − 1` paths
    (the code picks one or two ensembles per call and `n ≥ 3`) -/
def opOk (s : St) : Op → Prop
  | .replace _ _ _ => s.cnt + 1 < s.n
  | .finish => True
  | .stale _ _ => True

instance (s : St) (op : Op) : Decidable (opOk s op) := by
  cases op <;> unfold opOk <;> infer_instance

def Bounded : St → List Op → Prop
  | _, [] => True
  | s, op :: ops => opOk s op ∧ ((step s op).2 = none → Bounded (step s op).1 ops)

instance decBounded : (s : St) → (ops : List Op) → Decidable (Bounded s ops)
  | _, [] => isTrue trivial
  | s, op :: ops =>
    have d2 : Decidable ((step s op).2 = none → Bounded (step s op).1 ops) :=
      if h : (step s op).2 = none then
        match decBounded (step s op).1 ops with
        | isTrue hb => isTrue (fun _ => hb)
        | isFalse hb => isFalse (fun f => hb (f h))
      else isTrue (fun h' => absurd h' h)
    @instDecidableAnd _ _ inferInstance d2

theorem good_step (s : St) (hg : Good s) (op : Op) : Good (step s op).1 := by
  cases op with
  | replace p f k => exact good_replace s hg p f k
  | finish => exact good_finish s hg
  | stale p nm => exact good_stale s hg p nm

theorem good_run : ∀ (ops : List Op) (s : St), Good s → Good (run s ops).1 := by
  intro ops
  induction ops with
  | nil => intro s h; exact h
  | cons op ops ih =>
    intro s h
    unfold run
    split
    · exact ih _ (good_step s h op)
    · exact good_step s h op

theorem prot_run : ∀ (ops : List Op) (s : St), Good s → Prot s → Bounded s ops → Prot (run s ops).1 := by
  intro ops
  induction ops with
  | nil => intro s _ h _; exact h
  | cons op ops ih =>
    intro s hg hp hb
    have hstep : Prot (step s op).1 := by
      cases op with
      | replace p f k => exact prot_replace s hg hp hb.1 p f k
      | finish => exact prot_finish s hg hp
      | stale p nm => exact prot_stale s hp p nm
    unfold run
    split
    · rename_i hok
      exact ih _ (good_step s hg op) hstep (hb.2 hok)
    · exact hstep

theorem mem_initFiles : ∀ (paths : List (Nat × List String)) (p : Nat) (adr : List String), (p, adr) ∈ paths →
    DFile.txt p 0 ∈ initFiles paths ∧ DFile.txt p 1 ∈ initFiles paths ∧ ∀ a ∈ adr, DFile.acc p a ∈ initFiles paths := by
  intro paths
  induction paths with
  | nil => intro p adr h; simp at h
  | cons e t ih =>
    intro p adr h
    obtain ⟨p', adr'⟩ := e
    rcases List.mem_cons.mp h with h | h
    · simp only [Prod.mk.injEq] at h
      obtain ⟨rfl, rfl⟩ := h
      refine ⟨by simp [initFiles], by simp [initFiles], ?_⟩
      intro a ha
      simp only [initFiles]
      exact List.mem_append_left _ (List.mem_append_right _ (List.mem_map_of_mem ha))
    · obtain ⟨h0, h1, h2⟩ := ih p adr h
      simp only [initFiles]
      exact ⟨List.mem_append_right _ h0, List.mem_append_right _ h1, fun a ha => List.mem_append_right _ (h2 a ha)⟩

theorem initFiles_pn : ∀ (paths : List (Nat × List String)) (g : DFile), g ∈ initFiles paths → g.pn ∈ paths.map (·.1) := by
  intro paths
  induction paths with
  | nil => intro g h; simp [initFiles] at h
  | cons e t ih =>
    intro g h
    obtain ⟨p', adr'⟩ := e
    simp only [initFiles, List.mem_append, List.mem_cons, List.mem_map, List.not_mem_nil, or_false] at h
    rcases h with ((h | h | h) | ⟨a, _, h⟩) | h
    all_goals first
      | (subst h; simp [DFile.pn])
      | (have := ih g h; exact List.mem_cons_of_mem _ this)

theorem lookup_of_mem {α : Type} : ∀ (paths : List (Nat × α)) (e : Nat × α), e ∈ paths → ∃ v, lookup e.1 paths = some v := by
  intro paths
  induction paths with
  | nil => intro e he; simp at he
  | cons x t ih =>
    intro e he
    obtain ⟨k, v⟩ := x
    unfold lookup
    by_cases hk : k = e.1
    · exact ⟨v, by simp [hk]⟩
    · simp only [hk, if_false]
      rcases List.mem_cons.mp he with h | h
      · exact absurd (by rw [h]) hk
      · exact ih e h

/-- the state built by `load_paths` satisfies the invariants -/
theorem init_good (n : Nat) (d a : Bool) (paths : List (Nat × List String)) (v : Variant) (kp : List String)
    (hn : 1 ≤ n) (hp : ∀ e ∈ paths, e.1 + 1 < n) : Good (init n d a paths v kp) ∧ Prot (init n d a paths v kp) := by
  have hlt : ∀ p ∈ paths.map (·.1), p < n - 1 := by
    intro p hp'
    obtain ⟨e, he, rfl⟩ := List.mem_map.mp hp'
    have := hp e he
    omega
  have hint : ∀ p ∈ paths.map (·.1), Intact (init n d a paths v kp) p := by
    intro p hp'
    obtain ⟨e, he, rfl⟩ := List.mem_map.mp hp'
    obtain ⟨h0, h1, _⟩ := mem_initFiles paths e.1 e.2 he
    obtain ⟨adr, hl⟩ := lookup_of_mem paths e he
    refine ⟨h0, h1, adr, hl, ?_⟩
    intro b hb
    exact (mem_initFiles paths e.1 adr (lookup_mem _ _ _ hl)).2.2 b hb
  refine ⟨⟨?_, hlt, hlt, hint⟩, ⟨hlt, hint, ?_, ?_⟩⟩
  · intro q hq; simp [init, keys] at hq
  · simp [init]; omega
  · intro p _ hq; simp [init, keys] at hq

/-- **Live paths never lose files** (state form): after any history — including one that ends in an
    exception, the state then being what is on disk — every live path has its traj.txt, order.txt,
    a record of what its traj.txt refers to (`Intact` demands that it EXISTS; the tie compares the record with
    the names in the real traj.txt after every call) and every trajectory file that record names. -/
theorem never_deletes_live_file (s : St) (hg : Good s) (ops : List Op) :
    ∀ p ∈ (run s ops).1.live, Intact (run s ops).1 p :=
  (good_run ops s hg).live_intact

/-- … spelled out: for every live path the record of what its traj.txt refers to EXISTS and every trajectory
    file it names is on disk (since the audit of 2026-09-29 `Intact` demands the record; before, a path without a
    record was vacuously intact). -/
theorem live_files_on_disk (s : St) (hg : Good s) (ops : List Op) :
    ∀ p ∈ (run s ops).1.live, ∃ adr, lookup p (run s ops).1.txt = some adr ∧ ∀ f ∈ adr, DFile.acc p f ∈ (run s ops).1.disk :=
  fun p hp => (never_deletes_live_file s hg ops p hp).2.2

/-- a state whose live path has its two text files but no record and no trajectory file: not `Intact`, not `Good` -/
def noRecord : St :=
  { n := 3, delOld := true, delAll := true, variant := .repaired, keep := [], trajNum := 6, live := [5],
    trajData := [(5, ["gone.xyz"])], pnOlds := [], disk := [.txt 5 0, .txt 5 1], dirs := [.path 5, .accepted 5],
    restart := [5], pending := [], cnt := 0, txt := [] }

theorem intact_needs_record : ¬ Intact noRecord 5 ∧ ¬ Good noRecord := by
  have h : ¬ Intact noRecord 5 := by
    rintro ⟨_, _, adr, hl, _⟩
    simp [noRecord, lookup] at hl
  exact ⟨h, fun hg => h (hg.live_intact 5 (by simp [noRecord]))⟩

/-- (step form) a file that disappears in a step belongs to a path that is not live, is not an
    initial path, and was numbered before this step. -/
theorem step_removes_only_dead (s : St) (hg : Good s) (op : Op) (g : DFile) (hgd : g ∈ s.disk)
    (hn : g ∉ (step s op).1.disk) : g.pn ∉ s.live ∧ (s.n : Int) - 2 < g.pn ∧ g.pn < s.trajNum := by
  cases op with
  | finish => exact absurd ((finish_disk s).1 ▸ hgd) hn
  | stale p nm => exact absurd (stale_disk s p nm g hgd) hn
  | replace p f k =>
    obtain ⟨pd, adr, rest, h1, h2, _⟩ := replace_removed s p f k g hgd hn
    have : pd ∈ keys s.pnOlds := by rw [h1]; simp [keys]
    rw [h2]
    exact hg.olds_dead pd this

/-- **The restart file's paths keep their files**: the `active` list of the restart.toml on disk
    (written at the end of the last completed `treat_output`) only names paths that still load,
    at every moment, also in the middle of a call and after an exception. -/
theorem never_deletes_restart_referenced (s : St) (hg : Good s) (hp : Prot s) (ops : List Op)
    (hb : Bounded s ops) : ∀ p ∈ (run s ops).1.restart, Intact (run s ops).1 p :=
  (prot_run ops s hg hp hb).restart_intact

theorem run_n : ∀ (ops : List Op) (s : St), (run s ops).1.n = s.n := by
  intro ops
  induction ops with
  | nil => intro s; rfl
  | cons op ops ih =>
    intro s
    have h1 : (step s op).1.n = s.n := by
      cases op with
      | replace p f k => exact (replace_ctl s p f k).1
      | finish => exact (finish_disk s).2
      | stale p nm => exact (stale_ctl s p nm).1
    unfold run
    split
    · rw [ih, h1]
    · exact h1

/-- **Initial paths are never touched**: a file of a path numbered ≤ n − 2 survives every history. -/
theorem never_touches_initial_paths : ∀ (ops : List Op) (s : St), Good s → ∀ g ∈ s.disk,
    (g.pn : Int) ≤ (s.n : Int) - 2 → g ∈ (run s ops).1.disk := by
  intro ops
  induction ops with
  | nil => intro s _ g h _; exact h
  | cons op ops ih =>
    intro s hg g hgd hle
    have h1 : g ∈ (step s op).1.disk := by
      apply Classical.byContradiction
      intro hn
      have := (step_removes_only_dead s hg op g hgd hn).2.1
      omega
    have hn : (step s op).1.n = s.n := by
      cases op with
      | replace p f k => exact (replace_ctl s p f k).1
      | finish => exact (finish_disk s).2
      | stale p nm => exact (stale_ctl s p nm).1
    unfold run
    split
    · exact ih _ (good_step s hg op) g h1 (by rw [hn]; exact hle)
    · exact h1

/-- all three for the state `load_paths` builds: n − 1 initial paths numbered below n − 1 -/
theorem safety_from_init (n : Nat) (d a : Bool) (paths : List (Nat × List String)) (v : Variant) (kp : List String)
    (hn : 1 ≤ n) (hp : ∀ e ∈ paths, e.1 + 1 < n) (ops : List Op) :
    (∀ p ∈ (run (init n d a paths v kp) ops).1.live, Intact (run (init n d a paths v kp) ops).1 p) ∧
    (Bounded (init n d a paths v kp) ops →
      ∀ p ∈ (run (init n d a paths v kp) ops).1.restart, Intact (run (init n d a paths v kp) ops).1 p) ∧
    (∀ g ∈ initFiles paths, g ∈ (run (init n d a paths v kp) ops).1.disk) := by
  obtain ⟨hg, hpr⟩ := init_good n d a paths v kp hn hp
  refine ⟨never_deletes_live_file _ hg ops, fun hb => never_deletes_restart_referenced _ hg hpr ops hb, ?_⟩
  intro g hgi
  refine never_touches_initial_paths ops _ hg g hgi ?_
  obtain ⟨e, he, hpn⟩ := List.mem_map.mp (initFiles_pn paths g hgi)
  have := hp e he
  show (g.pn : Int) ≤ (n : Int) - 2
  omega

/-- a concrete non-trivial history: 2 ensembles (n = 3), delete_old, four accepted moves -/
def demoInit : St := init 3 true false [(0, ["i0.xyz"]), (1, ["i1a.xyz", "i1b.xyz"])]
def demoOps : List Op :=
  [.replace 1 ["a.xyz"] [], .finish, .replace 2 ["b.xyz"] [], .finish, .replace 0 ["c.xyz"] [], .finish,
   .replace 3 ["d.xyz"] [], .finish, .replace 5 ["e.xyz"] [], .finish]

example : Bounded demoInit demoOps ∧ (run demoInit demoOps).2 = none ∧ (run demoInit demoOps).1.live = [4, 6]
    ∧ keys (run demoInit demoOps).1.pnOlds = [3, 5] ∧ DFile.acc 2 "a.xyz" ∉ (run demoInit demoOps).1.disk
    ∧ DFile.acc 1 "i1a.xyz" ∈ (run demoInit demoOps).1.disk := by
  decide

example : (1 : Nat) ≤ 3 ∧ ∀ e ∈ [((0 : Nat), ["i0.xyz"]), (1, ["i1a.xyz", "i1b.xyz"])], e.1 + 1 < 3 := by decide

/-! ### the lag -/

/-- **Lag, part 1.** A live, non-initial path replaced under `delete_old` is queued with exactly
    `n − 1` (= number of ensembles) qualifying replacements to go, whatever the queue held. -/
theorem deletion_lag_queued (s : St) (hg : Good s) (hlen : s.pnOlds.length + 1 ≤ s.n) (pnOld : Nat)
    (files kept : List String) (hl : pnOld ∈ s.live) (hq : qualifies s pnOld = true)
    (hok : (replace s pnOld files kept).2 = none) :
    pnOld ∈ keys (replace s pnOld files kept).1.pnOlds ∧ remn (replace s pnOld files kept).1 pnOld = s.n - 1 :=
  lag_push s hg hlen pnOld files kept hl hq hok

/-- **Lag, part 2.** For a queued path `q` and one later accepted replacement: a non-qualifying
    one (delete_old off or an initial path replaced) leaves the queue and `q`'s files alone; a
    qualifying one removes `q`'s queue entry and all files of its `adress` exactly when its
    counter `remn` is 1, and otherwise decrements the counter and leaves every file of `q` in place.
    Together with part 1: a replaced path's files are removed at, and not before, the
    (n − 1)-th later qualifying replacement. (`finish` does not touch queue or files.) -/
theorem deletion_lag (s : St) (hg : Good s) (hlen : s.pnOlds.length + 1 ≤ s.n) (hnd : (keys s.pnOlds).Nodup)
    (q : Nat) (hqk : q ∈ keys s.pnOlds) (pnOld : Nat) (files kept : List String) (hl : pnOld ∈ s.live)
    (hok : (replace s pnOld files kept).2 = none) :
    (qualifies s pnOld = false →
      (replace s pnOld files kept).1.pnOlds = s.pnOlds ∧
      ∀ g ∈ s.disk, g.pn = q → g ∈ (replace s pnOld files kept).1.disk) ∧
    (qualifies s pnOld = true →
      (remn s q = 1 → q ∉ keys (replace s pnOld files kept).1.pnOlds ∧
        ∀ adr, (q, adr) ∈ s.pnOlds → ∀ a ∈ adr, DFile.acc q a ∉ (replace s pnOld files kept).1.disk) ∧
      (remn s q ≠ 1 → q ∈ keys (replace s pnOld files kept).1.pnOlds ∧
        remn (replace s pnOld files kept).1 q + 1 = remn s q ∧
        ∀ g ∈ s.disk, g.pn = q → g ∈ (replace s pnOld files kept).1.disk)) :=
  lag_step s hg hlen hnd q hqk pnOld files kept hl hok

/-- the side conditions of the two lag theorems are invariants of every history -/
theorem deletion_lag_invariants (s : St) (hg : Good s) (hp : Prot s) (hnd : (keys s.pnOlds).Nodup)
    (hb : s.cnt + 1 < s.n) (pnOld : Nat) (files kept : List String) :
    (replace s pnOld files kept).1.pnOlds.length + 1 ≤ (replace s pnOld files kept).1.n ∧
    (keys (replace s pnOld files kept).1.pnOlds).Nodup ∧
    (finish s).1.pnOlds = s.pnOlds ∧ (finish s).1.disk = s.disk :=
  ⟨(prot_replace s hg hp hb pnOld files kept).olds_len, nodup_replace s hnd pnOld files kept,
   by unfold finish; dsimp only; split <;> rfl, (finish_disk s).1⟩

/-- the lag on a concrete history (n = 3, lag 2): path 2 is queued by the third op, still has its
    file after one more qualifying replacement, and loses it at the second -/
example :
    let s1 := (run demoInit (demoOps.take 3)).1
    let s2 := (run demoInit (demoOps.take 7)).1
    let s3 := (run demoInit (demoOps.take 9)).1
    remn s1 2 = 2 ∧ 2 ∉ s1.live ∧ DFile.acc 2 "a.xyz" ∈ s2.disk ∧ remn s2 2 = 1 ∧
    DFile.acc 2 "a.xyz" ∉ s3.disk ∧ 2 ∉ keys s3.pnOlds := by
  decide

/-! ### the delete block can raise -/

/-- **Defect of the code before /repo commit 867b445 (variant `asIs`).** With `delete_old_all` and `keep_traj_fnames` the side files moved into
    `accepted/` are not in `adress`; when the path's turn comes `os.rmdir(accepted)` hits a
    non-empty directory: OSError, the run dies.  Witness: 2 ensembles, three accepted shooting
    moves in [0+], the first new path kept one side file. -/
def cexInit : St := init 3 true true [(0, ["i0.xyz"]), (1, ["i1.xyz"])] .asIs [".adp"]
def cexOps : List Op :=
  [.replace 1 ["a.xyz"] ["a.adp"], .finish, .replace 2 ["b.xyz"] [], .finish, .replace 3 ["c.xyz"] [], .finish,
   .replace 4 ["d.xyz"] [], .finish]

theorem delete_block_never_raises_counterexample :
    ¬ (∀ (s : St) (ops : List Op), Good s → Prot s → Bounded s ops → (run s ops).2 = none) := by
  intro h
  have hi := init_good 3 true true [(0, ["i0.xyz"]), (1, ["i1.xyz"])] .asIs [".adp"] (by decide) (by decide)
  have := h cexInit cexOps hi.1 hi.2 (by decide)
  revert this
  decide

example : (run cexInit cexOps).2 = some .notempty := by decide


/-- the shared argument: the body of the delete block for the queue head `pd` does not raise when
    its `adress` files are there (once each) and either `delete_old_all` is off or both
    directories exist and `load/pd` holds nothing but the three text files, the `adress` files
    and — only for the repaired code — any other entry of accepted/ whatsoever. -/
theorem delete_block_ok (c : DelCfg) (pd : Nat) (adr : List String)
    (rest : List (Nat × List String)) (disk : List DFile) (dirs : List DDir)
    (hnd : adr.Nodup) (hex : ∀ a ∈ adr, DFile.acc pd a ∈ disk)
    (hguard : c.delAll = false ∨
      (DDir.accepted pd ∈ dirs ∧ DDir.path pd ∈ dirs ∧
       ∀ g ∈ disk, g.pn = pd → (g = .txt pd 0 ∨ g = .txt pd 1 ∨ g = .txt pd 2 ∨ (∃ a ∈ adr, g = .acc pd a) ∨
         (c.variant = .repaired ∧ isAccOf pd g = true)))) :
    (delHeadCore c ((pd, adr) :: rest) disk dirs).2.2.2 = none ∧
    (delHeadCore c ((pd, adr) :: rest) disk dirs).1 = rest :=
  block_ok c pd adr rest disk dirs hnd hex hguard

/-- **The delete block never raises (repaired code, per block).** If the `adress` files of the
    queue head exist (once each) and its two directories exist, deleting it succeeds and pops the
    queue head, with or without `delete_old_all`, whatever else lies in `accepted/` (kept side
    files, stale files of an interrupted store). -/
theorem delete_block_never_raises (c : DelCfg) (hv : c.variant = .repaired) (pd : Nat) (adr : List String)
    (rest : List (Nat × List String)) (disk : List DFile) (dirs : List DDir)
    (hnd : adr.Nodup) (hex : ∀ a ∈ adr, DFile.acc pd a ∈ disk)
    (hd1 : DDir.accepted pd ∈ dirs) (hd2 : DDir.path pd ∈ dirs)
    (htxt : ∀ p k, DFile.txt p k ∈ disk → k < 3) :
    (delHeadCore c ((pd, adr) :: rest) disk dirs).2.2.2 = none ∧
    (delHeadCore c ((pd, adr) :: rest) disk dirs).1 = rest :=
  block_never_raises c hv pd adr rest disk dirs hnd hex hd1 hd2 htxt

/-- the block that killed the run before the repair now succeeds: a kept `a.adp` next to `a.xyz` -/
example : (delHeadCore { delAll := true, variant := .repaired, keep := [".adp"] } [(2, ["a.xyz"])]
    [.txt 2 0, .txt 2 1, .txt 2 2, .acc 2 "a.xyz", .acc 2 "a.adp", .txt 3 1]
    [.path 2, .accepted 2, .path 3]).2.2.2 = none ∧
  (delHeadCore { delAll := true, variant := .asIs, keep := [".adp"] } [(2, ["a.xyz"])]
    [.txt 2 0, .txt 2 1, .txt 2 2, .acc 2 "a.xyz", .acc 2 "a.adp", .txt 3 1]
    [.path 2, .accepted 2, .path 3]).2.2.2 = some .notempty := by decide

/-- the whole history that raised with the old code runs through with the repaired one -/
example : (run (init 3 true true [(0, ["i0.xyz"]), (1, ["i1.xyz"])] .repaired [".adp"]) cexOps).2 = none := by decide

/-- **What held before the repair** (variant `asIs`): the block does not raise as long as no side
    file was kept — the guard is exactly the negation of the defect. -/
theorem delete_block_never_raises_partial (c : DelCfg) (pd : Nat) (adr : List String)
    (rest : List (Nat × List String)) (disk : List DFile) (dirs : List DDir)
    (hnd : adr.Nodup) (hex : ∀ a ∈ adr, DFile.acc pd a ∈ disk)
    (hguard : c.delAll = false ∨
      (DDir.accepted pd ∈ dirs ∧ DDir.path pd ∈ dirs ∧
       ∀ g ∈ disk, g.pn = pd → (g = .txt pd 0 ∨ g = .txt pd 1 ∨ g = .txt pd 2 ∨ ∃ a ∈ adr, g = .acc pd a))) :
    (delHeadCore c ((pd, adr) :: rest) disk dirs).2.2.2 = none ∧
    (delHeadCore c ((pd, adr) :: rest) disk dirs).1 = rest := by
  refine delete_block_ok c pd adr rest disk dirs hnd hex ?_
  rcases hguard with h | ⟨h1, h2, h3⟩
  · exact Or.inl h
  · refine Or.inr ⟨h1, h2, ?_⟩
    intro g hg hp
    rcases h3 g hg hp with h | h | h | h
    · exact Or.inl h
    · exact Or.inr (Or.inl h)
    · exact Or.inr (Or.inr (Or.inl h))
    · exact Or.inr (Or.inr (Or.inr (Or.inl h)))

example : (delHeadCore { delAll := true, variant := .asIs, keep := [] } [(2, ["a.xyz"])]
    [.txt 2 0, .txt 2 1, .txt 2 2, .acc 2 "a.xyz", .txt 3 1]
    [.path 2, .accepted 2, .path 3]).2.2.2 = none := by decide

/-! ### whole histories with the repaired code -/

/-- a well-formed history: every accepted replacement replaces a path that is live at that
    moment and the new path's `adress` is a set; stale files may appear at any time -/
def wfOp (s : St) : Op → Prop
  | .replace p f _ => p ∈ s.live ∧ f.Nodup
  | _ => True

instance (s : St) (op : Op) : Decidable (wfOp s op) := by
  cases op <;> unfold wfOp <;> infer_instance

def WF : St → List Op → Prop
  | _, [] => True
  | s, op :: ops => wfOp s op ∧ WF (step s op).1 ops

instance decWF : (s : St) → (ops : List Op) → Decidable (WF s ops)
  | _, [] => isTrue trivial
  | s, op :: ops => @instDecidableAnd _ _ inferInstance (decWF (step s op).1 ops)

theorem nr_run : ∀ (ops : List Op) (s : St), NR s → WF s ops → (run s ops).2 = none ∧ NR (run s ops).1 := by
  intro ops
  induction ops with
  | nil => intro s h _; exact ⟨rfl, h⟩
  | cons op ops ih =>
    intro s h hw
    have hstep : (step s op).2 = none ∧ NR (step s op).1 := by
      cases op with
      | replace p f k => exact nr_replace s h p f k hw.1.1 hw.1.2
      | finish => exact nr_finish s h
      | stale p nm => exact ⟨rfl, nr_stale s h p nm⟩
    unfold run
    simp only [hstep.1]
    exact ih _ hstep.2 hw.2

theorem mem_initDirs : ∀ (paths : List (Nat × List String)) (p : Nat) (adr : List String), (p, adr) ∈ paths →
    DDir.accepted p ∈ initDirs paths ∧ DDir.path p ∈ initDirs paths := by
  intro paths
  induction paths with
  | nil => intro p adr h; simp at h
  | cons e t ih =>
    intro p adr h
    obtain ⟨p', adr'⟩ := e
    rcases List.mem_cons.mp h with h | h
    · simp only [Prod.mk.injEq] at h
      obtain ⟨rfl, rfl⟩ := h
      simp [initDirs]
    · obtain ⟨h0, h1⟩ := ih p adr h
      simp only [initDirs]
      exact ⟨List.mem_cons_of_mem _ (List.mem_cons_of_mem _ h0), List.mem_cons_of_mem _ (List.mem_cons_of_mem _ h1)⟩

theorem initFiles_txt : ∀ (paths : List (Nat × List String)) (p k : Nat), DFile.txt p k ∈ initFiles paths → k < 3 := by
  intro paths
  induction paths with
  | nil => intro p k h; simp [initFiles] at h
  | cons e t ih =>
    intro p k h
    obtain ⟨p', adr'⟩ := e
    simp only [initFiles, List.mem_append, List.mem_cons, List.mem_map, List.not_mem_nil, or_false] at h
    rcases h with ((h | h | h) | ⟨a, _, h⟩) | h
    · injection h with _ h; omega
    · injection h with _ h; omega
    · injection h with _ h; omega
    · exact absurd h (by simp)
    · exact ih p k h

/-- the state `load_paths` builds satisfies the never-raises invariant of the repaired code -/
theorem init_nr (n : Nat) (d a : Bool) (paths : List (Nat × List String)) (kp : List String) (hn : 2 ≤ n)
    (hp : ∀ e ∈ paths, e.1 + 1 < n) (hnd : ∀ e ∈ paths, e.2.Nodup) : NR (init n d a paths .repaired kp) := by
  obtain ⟨hg, hpr⟩ := init_good n d a paths .repaired kp (by omega) hp
  refine ⟨rfl, hn, hg, ?_, ?_, ?_, hpr.olds_len, List.nodup_nil, ?_, ?_⟩
  · intro e he; simp [init] at he
  · intro p hpl
    obtain ⟨e, he, rfl⟩ := List.mem_map.mp hpl
    have hex : ∃ adr, lookup e.1 paths = some adr := by
      clear hp hnd hg hpr hpl
      induction paths with
      | nil => simp at he
      | cons x t ih =>
        obtain ⟨k, v⟩ := x
        unfold lookup
        by_cases hk : k = e.1
        · exact ⟨v, by simp [hk]⟩
        · simp only [hk, if_false]
          rcases List.mem_cons.mp he with h | h
          · exact absurd (by rw [h]) hk
          · exact ih h
    obtain ⟨adr, hla⟩ := hex
    have hm := lookup_mem _ _ _ hla
    refine ⟨adr, hla, hnd _ hm, (mem_initFiles paths e.1 adr hm).2.2, (mem_initDirs paths e.1 adr hm).1,
      (mem_initDirs paths e.1 adr hm).2⟩
  · simp [init, keys]
  · intro p hpp; simp [init] at hpp
  · exact initFiles_txt paths

/-- **No delete block ever raises (repaired code, whole histories).** From the state `load_paths`
    builds — any number of ensembles, any delete_old / delete_old_all / keep_traj_fnames — every
    well-formed history of accepted replacements (with whatever kept side files), `finish`es and
    stale files appearing in `accepted/` directories runs through without an exception. -/
theorem delete_block_never_raises_history (n : Nat) (d a : Bool) (paths : List (Nat × List String))
    (kp : List String) (hn : 2 ≤ n) (hp : ∀ e ∈ paths, e.1 + 1 < n) (hnd : ∀ e ∈ paths, e.2.Nodup)
    (ops : List Op) (hw : WF (init n d a paths .repaired kp) ops) :
    (run (init n d a paths .repaired kp) ops).2 = none :=
  (nr_run ops _ (init_nr n d a paths kp hn hp hnd) hw).1

/-- a history with kept side files and a stale file that is well-formed: it is `cexOps` plus a stale file -/
example : WF (init 3 true true [(0, ["i0.xyz"]), (1, ["i1.xyz"])] .repaired [".adp"])
    (.stale 1 "junk" :: cexOps ++ [.stale 5 "left.tmp", .replace 5 ["e.xyz"] ["e.adp"], .finish,
      .replace 6 ["f.xyz"] [], .finish, .replace 0 ["g.xyz"] [], .finish, .replace 7 ["h.xyz"] [], .finish]) ∧
    (∀ e ∈ [((0 : Nat), ["i0.xyz"]), (1, ["i1.xyz"])], e.2.Nodup) := by
  decide

/-! ### the bound on replacements per call holds for the real call pattern -/

/-- at most `m` replacements between two `finish`es, `c` already done in the running call -/
def callsOK (m : Nat) : Nat → List Op → Prop
  | _, [] => True
  | c, .replace _ _ _ :: ops => c + 1 ≤ m ∧ callsOK m (c + 1) ops
  | _, .finish :: ops => callsOK m 0 ops
  | c, .stale _ _ :: ops => callsOK m c ops

instance decCallsOK (m : Nat) : (c : Nat) → (ops : List Op) → Decidable (callsOK m c ops)
  | _, [] => isTrue trivial
  | c, .replace _ _ _ :: ops => @instDecidableAnd _ _ inferInstance (decCallsOK m (c + 1) ops)
  | _, .finish :: ops => decCallsOK m 0 ops
  | c, .stale _ _ :: ops => decCallsOK m c ops

theorem finish_cnt (s : St) (h : (finish s).2 = none) : (finish s).1.cnt = 0 := by
  unfold finish at h ⊢
  dsimp only at h ⊢
  split
  · rename_i e he; simp [he] at h
  · rfl

theorem bounded_of_calls (m : Nat) : ∀ (ops : List Op) (s : St), m < s.n → callsOK m s.cnt ops → Bounded s ops := by
  intro ops
  induction ops with
  | nil => intro s _ _; trivial
  | cons op ops ih =>
    intro s hm hc
    cases op with
    | replace p f k =>
      obtain ⟨h1, h2⟩ := hc
      refine ⟨by show s.cnt + 1 < s.n; omega, ?_⟩
      intro hok
      apply ih
      · rw [show (step s (.replace p f k)).1.n = s.n from (replace_ctl s p f k).1]; exact hm
      · rcases replace_fields s p f k with he | ⟨_, _, hcnt, _⟩
        · have : (step s (.replace p f k)).2 = some .key := by show (replace s p f k).2 = _; rw [he]
          rw [this] at hok; simp at hok
        · rw [show (step s (.replace p f k)).1.cnt = s.cnt + 1 from hcnt]; exact h2
    | finish =>
      refine ⟨trivial, ?_⟩
      intro hok
      apply ih
      · rw [show (step s .finish).1.n = s.n from (finish_disk s).2]; exact hm
      · rw [show (step s .finish).1.cnt = 0 from finish_cnt s hok]; exact hc
    | stale p nm =>
      refine ⟨trivial, ?_⟩
      intro _
      apply ih
      · rw [show (step s (.stale p nm)).1.n = s.n from (stale_ctl s p nm).1]; exact hm
      · rw [show (step s (.stale p nm)).1.cnt = s.cnt from (stale_ctl s p nm).2.2.2.2.2.2.1]; exact hc

/-- **The restart file's paths keep their files, for the calls the code really makes**: one or
    two replacements per `treat_output` (a shooting move or a zero swap), at least two interfaces
    (n ≥ 3) — in particular for an accepted zero swap with n = 3, where both replaced paths are
    still named by the restart.toml on disk while the second one is being stored. -/
theorem never_deletes_restart_referenced_calls (n : Nat) (d a : Bool) (paths : List (Nat × List String))
    (v : Variant) (kp : List String) (hn : 3 ≤ n) (hp : ∀ e ∈ paths, e.1 + 1 < n) (ops : List Op)
    (hc : callsOK 2 0 ops) :
    ∀ p ∈ (run (init n d a paths v kp) ops).1.restart, Intact (run (init n d a paths v kp) ops).1 p := by
  obtain ⟨hg, hpr⟩ := init_good n d a paths v kp (by omega) hp
  exact never_deletes_restart_referenced _ hg hpr ops (bounded_of_calls 2 ops _ (by show 2 < n; omega) hc)

/-- an accepted zero swap (two replacements in one call) with two interfaces (n = 3), delete_old on -/
example : callsOK 2 0 [.replace 0 ["a.xyz"] [], .replace 1 ["b.xyz"] [], .finish,
    .replace 2 ["c.xyz"] [], .replace 3 ["d.xyz"] [], .finish, .replace 4 ["e.xyz"] [], .finish] := by
  decide

/-- … spelled out for the restart file: every path it names has a record and all its trajectory files on disk -/
theorem restart_files_on_disk (n : Nat) (d a : Bool) (paths : List (Nat × List String))
    (v : Variant) (kp : List String) (hn : 3 ≤ n) (hp : ∀ e ∈ paths, e.1 + 1 < n) (ops : List Op)
    (hc : callsOK 2 0 ops) :
    ∀ p ∈ (run (init n d a paths v kp) ops).1.restart, ∃ adr, lookup p (run (init n d a paths v kp) ops).1.txt = some adr ∧
      ∀ f ∈ adr, DFile.acc p f ∈ (run (init n d a paths v kp) ops).1.disk :=
  fun p hp' => (never_deletes_restart_referenced_calls n d a paths v kp hn hp ops hc p hp').2.2

example : ∀ p ∈ (run demoInit demoOps).1.live, ∃ adr, lookup p (run demoInit demoOps).1.txt = some adr ∧ adr ≠ [] := by decide

/-! ## Part A, continued — the `Path` object: limits never cut a stored path -/

/-- **Round trip at every length, whatever the default limit.** `load_path` builds the path with
    `Path()` — limit `lim` = `DEFAULT_MAXLEN`, bound at definition time — and puts the frames into
    `phasepoints` directly: the loaded path has all frames of the stored one, also when the stored
    path is longer than that limit (`maxlength` is a free user setting), and carries the limit. -/
theorem load_path_roundtrip_any_limit (lim : Option Int) (step : Nat) (mv : List String) (fs : List Frame)
    (hne : fs ≠ []) (c : Nat) (hc : ∀ f ∈ fs, f.order.length = c) :
    loadStoredPath .push lim (store step mv fs) = .ok { maxlen := lim, pts := fs.map expected } := by
  unfold loadStoredPath
  rw [loadPath_push]
  have h := load_store_roundtrip step mv fs hne c hc
  unfold loadStored at h
  rw [h]

/-- three frames through a default limit of two -/
example : (loadStoredPath .push (some 2) (store 7 ["ki"]
    [{ dir := "w0", base := "a.xyz", idx := some 0, velRev := false, order := [1], vpot := some 5, ekin := none },
     { dir := "w0", base := "a.xyz", idx := some 1, velRev := true, order := [2], vpot := none, ekin := none },
     { dir := "w1", base := "b.xyz", idx := some 0, velRev := false, order := [3], vpot := none, ekin := some 6 }])).toOption.map
      (fun p => (p.maxlen, p.pts.length, p.pts.map (·.base))) = some (some 2, 3, ["a.xyz", "a.xyz", "b.xyz"]) := by
  rfl

/-- **Same length**, stated for the real default: however long the stored path is (100 000,
    100 001, …), `load_path` returns a path of exactly that length. -/
theorem load_path_same_length (step : Nat) (mv : List String) (fs : List Frame)
    (hne : fs ≠ []) (c : Nat) (hc : ∀ f ∈ fs, f.order.length = c) :
    ∃ p, loadStoredPath .push (some defaultMaxlen) (store step mv fs) = .ok p ∧ p.pts.length = fs.length ∧
      p.maxlen = some defaultMaxlen :=
  ⟨_, load_path_roundtrip_any_limit (some defaultMaxlen) step mv fs hne c hc, by simp, rfl⟩

/-- **The variant through `Path.append`** (what `load_path` must not do): the loaded path is the
    stored one cut at the default limit — frames, file references, order parameters and energies
    beyond it are dropped without an error. -/
theorem load_path_via_append (lim : Option Int) (step : Nat) (mv : List String) (fs : List Frame)
    (hne : fs ≠ []) (c : Nat) (hc : ∀ f ∈ fs, f.order.length = c) :
    loadStoredPath .viaAppend lim (store step mv fs) =
      .ok { maxlen := lim, pts := match lim with
                                  | none => fs.map expected
                                  | some m => (fs.map expected).take m.toNat } := by
  unfold loadStoredPath loadPath
  rw [loadFrames_store step mv fs hne c hc]
  simp only [fill_append_empty]
  cases lim with
  | none =>
    have h := loadEnergies_store step mv fs hne fs.length
    rw [List.take_of_length_le (by simp), List.take_of_length_le (by simp)] at h
    simp only [h]
  | some m =>
    simp only [loadEnergies_store step mv fs hne m.toNat]

/-- with the variant, a stored path longer than the limit comes back with another length -/
theorem load_path_via_append_truncates (m : Int) (hm : 0 ≤ m) (step : Nat) (mv : List String) (fs : List Frame)
    (hlen : m < fs.length) (c : Nat) (hc : ∀ f ∈ fs, f.order.length = c) :
    ∃ p, loadStoredPath .viaAppend (some m) (store step mv fs) = .ok p ∧ (p.pts.length : Int) = m ∧
      p.pts.length ≠ fs.length := by
  have hne : fs ≠ [] := by
    intro h; subst h; simp at hlen; omega
  refine ⟨_, load_path_via_append (some m) step mv fs hne c hc, ?_, ?_⟩
  · simp only [List.length_take, List.length_map]
    omega
  · simp only [List.length_take, List.length_map]
    omega

/-- in particular at the real default: 100 001 stored frames would come back as 100 000 -/
theorem load_path_via_append_default (step : Nat) (mv : List String) (fs : List Frame)
    (hlen : fs.length = 100001) (c : Nat) (hc : ∀ f ∈ fs, f.order.length = c) :
    ∃ p, loadStoredPath .viaAppend (some defaultMaxlen) (store step mv fs) = .ok p ∧ p.pts.length = 100000 := by
  obtain ⟨p, h1, h2, _⟩ := load_path_via_append_truncates defaultMaxlen (by decide) step mv fs
    (by rw [hlen]; decide) c hc
  refine ⟨p, h1, ?_⟩
  have : (p.pts.length : Int) = 100000 := h2
  omega

example (f : Frame) : (List.replicate 100001 f).length = 100001 ∧ ∀ g ∈ List.replicate 100001 f, g.order.length = f.order.length :=
  ⟨List.length_replicate, fun g hg => by rw [List.eq_of_mem_replicate hg]⟩

/-- the round trip is NOT a theorem for the variant: three frames, limit two -/
theorem load_path_via_append_counterexample :
    ¬ (∀ (lim : Option Int) (step : Nat) (mv : List String) (fs : List Frame), fs ≠ [] →
        ∀ c, (∀ f ∈ fs, f.order.length = c) →
        ∃ p, loadStoredPath .viaAppend lim (store step mv fs) = .ok p ∧ p.pts.length = fs.length) := by
  intro h
  let f : Frame := { dir := "w", base := "a.xyz", idx := some 0, velRev := false, order := [1], vpot := none, ekin := none }
  obtain ⟨p, hp, hl⟩ := h (some 2) 0 [] [f, f, f] (by simp) 1 (by simp [f])
  obtain ⟨q, hq, hq2, _⟩ := load_path_via_append_truncates 2 (by decide) 0 [] [f, f, f] (by decide) 1 (by simp [f])
  rw [hp] at hq
  injection hq with hq
  subst hq
  simp at hl
  omega

/-! ### load_paths_from_disk: every active path comes back whole, with the configured maximum length -/

/-- the archive `PathStorage.output` leaves for a stored path -/
def archiveOf (step : Nat) (mv : List String) (fs : List Frame) : Archive :=
  { traj := some (store step mv fs).traj, order := some (store step mv fs).order,
    energy := some (store step mv fs).energy, files := (store step mv fs).accepted }

/-- **Restart load.** If every path number in `current.active` holds a stored path (≥ 1 frame, the
    same number of order parameters in all frames of a path), `load_paths_from_disk` returns them
    all, in order, each with all its frames — whatever the default limit of `Path()` — with
    `maxlen` = the configured `maxlength` and its number. -/
theorem load_paths_from_disk_roundtrip (deflim maxlength : Option Int) (restarted : Bool)
    (disk : Nat → Archive) (content : Nat → Nat × List String × List Frame) :
    ∀ (active : List Nat),
      (∀ pn ∈ active, disk pn = archiveOf (content pn).1 (content pn).2.1 (content pn).2.2 ∧ (content pn).2.2 ≠ [] ∧
        ∃ c, ∀ f ∈ (content pn).2.2, f.order.length = c) →
      ∃ ps, loadPathsFromDisk .push deflim maxlength restarted disk active = .ok ps ∧
        ps.map (·.number) = active ∧
        ps.map (fun l => l.path.pts) = active.map (fun pn => (content pn).2.2.map expected) ∧
        ∀ l ∈ ps, l.path.maxlen = maxlength ∧ l.status = (if restarted then "re" else "ld") := by
  intro active
  induction active with
  | nil => intro _; exact ⟨[], rfl, rfl, rfl, fun l hl => absurd hl (by simp)⟩
  | cons pn rest ih =>
    intro h
    obtain ⟨hd, hne, c, hc⟩ := h pn (by simp)
    obtain ⟨ps, hps, h1, h2, h3⟩ := ih (fun q hq => h q (List.mem_cons_of_mem _ hq))
    have hl := load_path_roundtrip_any_limit deflim (content pn).1 (content pn).2.1 (content pn).2.2 hne c hc
    unfold loadStoredPath at hl
    unfold loadPathsFromDisk
    rw [hd]
    simp only [archiveOf, hl, hps]
    refine ⟨_, rfl, by simp [h1], by simp [h2], ?_⟩
    intro l hl'
    rcases List.mem_cons.mp hl' with e | e
    · subst e; exact ⟨rfl, rfl⟩
    · exact h3 l e

example : archiveOf 0 [] [{ dir := "w", base := "a.xyz", idx := some 0, velRev := false, order := [1], vpot := none, ekin := none }]
    = archiveOf 0 [] [{ dir := "w", base := "a.xyz", idx := some 0, velRev := false, order := [1], vpot := none, ekin := none }] ∧
    ([{ dir := "w", base := "a.xyz", idx := some 0, velRev := false, order := [1], vpot := none, ekin := none }] : List Frame) ≠ [] := by
  exact ⟨rfl, by simp⟩

/-! ### the storing side: `PathStorage.output` moves the files of `path.copy()` -/

/-- **A path within its own limit is stored whole**: `Path.copy` (through `Path.append`) returns all
    frames, so the files moved and the path returned are those of the whole path — the storing
    side of the object model coincides with `store`. -/
theorem storeObj_of_fits (step : Nat) (mv : List String) (p : PathObj Frame) (h : p.fits) :
    (storeObj step mv p).1.traj = (store step mv p.pts).traj ∧
    (storeObj step mv p).1.order = (store step mv p.pts).order ∧
    (storeObj step mv p).1.energy = (store step mv p.pts).energy ∧
    (storeObj step mv p).1.accepted = (store step mv p.pts).accepted ∧
    (storeObj step mv p).1.moves = (store step mv p.pts).moves ∧
    (storeObj step mv p).2.pts.length = p.pts.length ∧ (storeObj step mv p).2.maxlen = p.maxlen := by
  unfold storeObj store
  simp only [copy_of_fits p h, List.length_map, and_self]

/-- **Round trip on Path objects.** A path that respects its own limit (every path built through
    `Path.append` does, length = limit included), stored by `PathStorage.output` and read by
    `load_path` under any default limit, comes back whole. -/
theorem store_load_path_object_roundtrip (lim : Option Int) (step : Nat) (mv : List String) (p : PathObj Frame)
    (hfit : p.fits) (hne : p.pts ≠ []) (c : Nat) (hc : ∀ f ∈ p.pts, f.order.length = c) :
    loadStoredPath .push lim (storeObj step mv p).1 = .ok { maxlen := lim, pts := p.pts.map expected } := by
  have h := load_path_roundtrip_any_limit lim step mv p.pts hne c hc
  obtain ⟨h1, h2, h3, h4, _⟩ := storeObj_of_fits step mv p hfit
  unfold loadStoredPath at h ⊢
  rw [h1, h2, h3, h4]
  exact h

/-- length = limit is inside the guard -/
example : ({ maxlen := some 2, pts := [1, 2] } : PathObj Nat).fits ∧ ¬ ({ maxlen := some 2, pts := [1, 2, 3] } : PathObj Nat).fits
    ∧ ({ maxlen := none, pts := [1, 2, 3] } : PathObj Nat).fits := by decide

/-- two frames in two files, limit one -/
def overlong : PathObj Frame := { maxlen := some 1, pts :=
    [{ dir := "w", base := "a.xyz", idx := some 0, velRev := false, order := [1], vpot := none, ekin := none },
     { dir := "w", base := "b.xyz", idx := some 0, velRev := false, order := [2], vpot := none, ekin := none }] }

theorem overlong_load : loadStoredPath .push none (storeObj 0 [] overlong).1 = .error .assert := by rfl

example : (storeObj 0 [] overlong).1.accepted = ["a.xyz"] ∧ (storeObj 0 [] overlong).2.pts.length = 1 := by decide

/-- the guard is needed: a path object LONGER than its own limit (no code path builds one, but
    `load_path` of a path longer than the default returns one until `load_paths_from_disk` resets
    `maxlen`) is written out whole, yet only the files of the first `maxlen` frames are moved —
    the archive does not load. -/
theorem storeObj_overlong_counterexample :
    ¬ (∀ (lim : Option Int) (step : Nat) (mv : List String) (p : PathObj Frame), p.pts ≠ [] →
        ∀ c, (∀ f ∈ p.pts, f.order.length = c) →
        ∃ q, loadStoredPath .push lim (storeObj step mv p).1 = .ok q) := by
  intro h
  obtain ⟨q, hq⟩ := h none 0 [] overlong (by simp [overlong]) 1 (by simp [overlong])
  rw [overlong_load] at hq
  cases hq


/-! ## Part A at the level of the TEXT of the three files (characters, fields, widths) -/

section Text
open Infretis.StoreText
open Infretis.Codec (NoBrk Dec unlines)

/-- **Round trip on the text.** For every path object within its own limit, with ≥ 1 frames whose
    basenames are single tokens (non-empty, none of the 29 characters Python's `str.split()` separates
    at — `Tokn` is stated w.r.t. the COMPLETE white-space set of `Model/StoreWs.lean`, and text is Unicode,
    not ASCII: `é`, `ß`, CJK … in names, in `str(path.generated)` are covered) and the same number of order parameters
    in every frame, every cycle number and every `str(path.generated)` without a line break:
    `PathStorage.output` writes traj.txt / order.txt / energy.txt — `_make_header`, the three
    `format` generators with their column widths, `write(line + "\n")` — and `load_path` on that text
    — universal-newline line iteration, `strip`, `startswith("#")`, `split`, `int()`, `float()`, the
    block reader, the numpy column slices, `Path()` under ANY default limit, `update_energies` —
    returns, frame by frame: the basename, the index (`None` ↦ 0), the velocity direction, every order
    parameter as the six-decimal value that was written (`written`: correctly rounded, sign kept,
    NaN ↦ NaN, ±∞ ↦ ±∞), the energies likewise and NaN where they were `None`.  Fields wider than their
    column (long names, large numbers) are included: nothing is ever truncated.

    [Statement before the audit of 2026-09-29: the same words, but `Tokn` meant "no ASCII white space"
    (`Infretis.Codec.NoWs`) and the model's `strip`/`split` knew only ASCII white space.  That statement is
    FALSE of the real code on part of its domain: Python splits "a\u00a0b.xyz" in two, `int("b.xyz")`
    raises ValueError.  The model now splits like Python and the guard is exact; the old statement is
    refuted by `roundtrip_text_nbsp_in_name_counterexample` below.] -/
theorem load_store_roundtrip_text (lim : Option Int) (step : Nat) (gen : Str) (p : PathObj TFrame)
    (hfit : p.fits) (hne : p.pts ≠ []) (hg : NoBrk gen) (hn : ∀ f ∈ p.pts, Tokn f.base)
    (c : Nat) (hc : ∀ f ∈ p.pts, f.order.length = c) :
    loadStoredT .push lim (storeT step gen p).1 = .ok { maxlen := lim, pts := p.pts.map expectedT } := by
  unfold loadStoredT storeT loadPathT
  simp only [copy_of_fits p hfit]
  rw [loadFramesT_stored0 step gen hg p.pts hne hn c hc]
  simp only [fill_push, PathObj.empty, List.nil_append]
  have h := loadEnergiesT_stored0 step gen hg p.pts hne p.pts.length
  rw [List.take_of_length_le (by simp), List.take_of_length_le (by simp)] at h
  simp only [h]

set_option maxRecDepth 8000 in
/-- a concrete stored path, character for character: a backward frame, a rounding tie
    (1/128 = 0.0078125 ↦ 0.007812), a tiny negative (↦ -0.000000), a missing energy, a long name -/
example : (storeT 7 "('sh', 0.5, 3, 10)".toList { maxlen := some 2, pts :=
    [{ dir := "w0".toList, base := "a.xyz".toList, idx := none, velRev := true, order := [.num false 1 128, .num true 1 10000000],
       vpot := some (.num true 5 2), ekin := none },
     { dir := "w1".toList, base := "a_rather_long_file_name.lammpstrj".toList, idx := some 12, velRev := false,
       order := [.nan, .num false 123456789 1], vpot := none, ekin := some (.num false 0 1) }] }).1.order =
  ("# Cycle: 7, status: ACC, move: ('sh', 0.5, 3, 10)\n" ++
   "#     Time       Orderp\n" ++
   "         0     0.007812    -0.000000\n" ++
   "         1          nan 123456789.000000\n").toList := by
  decide

set_option maxRecDepth 8000 in
example : (storeT 7 [] { maxlen := none, pts :=
    [{ dir := "w0".toList, base := "a.xyz".toList, idx := none, velRev := true, order := [], vpot := none, ekin := none },
     { dir := "w1".toList, base := "a_rather_long_file_name.lammpstrj".toList, idx := some 12, velRev := false,
       order := [], vpot := none, ekin := none }] }).1.traj =
  ("# Cycle: 7, status: ACC\n" ++
   "#     Step              Filename       index    vel\n" ++
   "         0                 a.xyz           0     -1\n" ++
   "         1  a_rather_long_file_name.lammpstrj          12      1\n").toList := by
  decide

/-- the header lines `_make_header` produces for the three formatters -/
theorem headers_text :
    hdrOrder = "#     Time       Orderp".toList ∧
    hdrEnergy = "#     Time      Potential        Kinetic".toList ∧
    hdrTraj = "#     Step              Filename       index    vel".toList := by
  decide

/-- **The six-decimal guard.** The decimal written for a float of magnitude `n/d` is within half a
    unit of the sixth decimal: `|m·10⁻⁶ − n/d| ≤ ½·10⁻⁶` (cross-multiplied), and it is the value
    itself exactly when the value is a multiple of 10⁻⁶. -/
theorem six_decimals_written (neg : Bool) (n d : Nat) (hd : 0 < d) :
    ∃ m, written (.num neg n d) = .dec ⟨neg, m⟩ ∧
      2 * (m * d) ≤ 2 * (n * 1000000) + d ∧ 2 * (n * 1000000) ≤ 2 * (m * d) + d ∧
      (m * d = n * 1000000 ↔ d ∣ n * 1000000) :=
  ⟨round6 n d, rfl, (round6_err n d hd).1, (round6_err n d hd).2, round6_exact_iff n d hd⟩

example : written (.num false 1 128) = .dec ⟨false, 7812⟩ ∧ written (.num false 3 128) = .dec ⟨false, 23438⟩ ∧
    written (.num true 1 10000000) = .dec ⟨true, 0⟩ ∧ written (.num false 1500000 1000000) = .dec ⟨false, 1500000⟩ := by
  decide

theorem written_reIn (v : FVal) : written (reIn v) = v := by
  cases v with
  | dec d => simp [reIn, written, round6_exact]
  | nan => rfl
  | inf neg => rfl

theorem expectedT_reframeT (dir : Str) (f : TFrame) : expectedT (reframeT dir (expectedT f)) = expectedT f := by
  rcases f with ⟨d, b, ix, vr, ord, vp, ek⟩
  simp only [expectedT, reframeT, idx0, List.map_map, Option.map_some, eIn, written_reIn]
  congr 1
  simp only [List.map_inj_left, Function.comp_apply]
  intro x _
  exact written_reIn _

/-- **Round trip twice on the text**: storing the loaded path again (from its `accepted/`
    directory, under another number) and loading that gives the same frames — the archive text is
    a fixed point after one trip. -/
theorem load_store_roundtrip_text_twice (lim lim' ml' : Option Int) (step step' : Nat) (gen gen' : Str)
    (p : PathObj TFrame) (hfit : p.fits) (hne : p.pts ≠ []) (hg : NoBrk gen) (hg' : NoBrk gen')
    (hn : ∀ f ∈ p.pts, Tokn f.base) (c : Nat) (hc : ∀ f ∈ p.pts, f.order.length = c) (dir : Str)
    (hfit' : ({ maxlen := ml', pts := (p.pts.map expectedT).map (reframeT dir) } : PathObj TFrame).fits) :
    loadStoredT .push lim (storeT step gen p).1 = .ok { maxlen := lim, pts := p.pts.map expectedT } ∧
    loadStoredT .push lim' (storeT step' gen' { maxlen := ml', pts := (p.pts.map expectedT).map (reframeT dir) }).1 =
      .ok { maxlen := lim', pts := p.pts.map expectedT } := by
  refine ⟨load_store_roundtrip_text lim step gen p hfit hne hg hn c hc, ?_⟩
  have h := load_store_roundtrip_text lim' step' gen' { maxlen := ml', pts := (p.pts.map expectedT).map (reframeT dir) }
    hfit' (by cases hp : p.pts with | nil => exact absurd hp hne | cons a t => simp) hg'
    (by
      intro g hg
      simp only [List.map_map, List.mem_map, Function.comp] at hg
      obtain ⟨f, hf, rfl⟩ := hg
      exact hn f hf) c
    (by
      intro g hg
      simp only [List.map_map, List.mem_map, Function.comp] at hg
      obtain ⟨f, hf, rfl⟩ := hg
      simp [reframeT, expectedT, hc f hf])
  rw [h]
  congr 2
  simp only [List.map_map]
  apply List.map_congr_left
  intro f _
  exact expectedT_reframeT dir f

/-- the variant of `load_path` through `Path.append`, on the text: cut at the default limit -/
theorem load_path_via_append_text (lim : Option Int) (step : Nat) (gen : Str) (p : PathObj TFrame)
    (hfit : p.fits) (hne : p.pts ≠ []) (hg : NoBrk gen) (hn : ∀ f ∈ p.pts, Tokn f.base)
    (c : Nat) (hc : ∀ f ∈ p.pts, f.order.length = c) :
    loadStoredT .viaAppend lim (storeT step gen p).1 =
      .ok { maxlen := lim, pts := match lim with
                                  | none => p.pts.map expectedT
                                  | some m => (p.pts.map expectedT).take m.toNat } := by
  unfold loadStoredT storeT loadPathT
  simp only [copy_of_fits p hfit]
  rw [loadFramesT_stored0 step gen hg p.pts hne hn c hc]
  simp only [fill_append_empty]
  cases lim with
  | none =>
    have h := loadEnergiesT_stored0 step gen hg p.pts hne p.pts.length
    rw [List.take_of_length_le (by simp), List.take_of_length_le (by simp)] at h
    simp only [h]
  | some m =>
    simp only [loadEnergiesT_stored0 step gen hg p.pts hne m.toNat]

/-- **Trailing blank lines do not matter.** Any number of whitespace-only lines appended to any of
    the three files of a stored path (an editor's final newline, a half-written line of blanks):
    `read_some_lines` skips them (`strip` leaves nothing, the parsed row is empty and falsy) and
    `load_path` returns exactly the stored frames. -/
theorem load_path_trailing_blank_lines (lim : Option Int) (step : Nat) (gen : Str) (p : PathObj TFrame)
    (hfit : p.fits) (hne : p.pts ≠ []) (hg : NoBrk gen) (hn : ∀ f ∈ p.pts, Tokn f.base)
    (c : Nat) (hc : ∀ f ∈ p.pts, f.order.length = c)
    (b1 b2 b3 : List Str) (h1 : ∀ l ∈ b1, Blank l) (h2 : ∀ l ∈ b2, Blank l) (h3 : ∀ l ∈ b3, Blank l) :
    loadPathT .push lim (some (unlines (trajLines step p.pts ++ b1))) (some (unlines (orderLines step gen p.pts ++ b2)))
      (some (unlines (energyLines step gen p.pts ++ b3))) (storeT step gen p).1.accepted =
      .ok { maxlen := lim, pts := p.pts.map expectedT } := by
  unfold storeT loadPathT
  simp only [copy_of_fits p hfit]
  rw [loadFramesT_stored step gen hg p.pts hne hn c hc b1 b2 h1 h2]
  simp only [fill_push, PathObj.empty, List.nil_append]
  have h := loadEnergiesT_stored step gen hg p.pts hne p.pts.length b3 h3
  rw [List.take_of_length_le (by simp), List.take_of_length_le (by simp)] at h
  simp only [h]

example : Blank "  \t ".toList ∧ Blank [] ∧ ¬ Blank " x".toList := by
  refine ⟨⟨by decide, by unfold Codec.NoBrk; decide⟩, ⟨by decide, by unfold Codec.NoBrk; decide⟩, ?_⟩
  intro h
  exact absurd (h.1 'x' (by decide)) (by decide)

/-- **An empty order.txt** (zero bytes; likewise one holding only comment lines is a block without
    rows): `next(orderfile.load())` has nothing to yield — StopIteration, whatever traj.txt holds. -/
theorem load_path_empty_order_file (v : Fill) (lim : Option Int) (step : Nat) (p : PathObj TFrame)
    (hn : ∀ f ∈ p.pts, Tokn f.base) (energy : Option Str) :
    loadPathT v lim (some (unlines (trajLines step p.pts))) (some []) energy ((sourcesT p.pts).map (·.2)) =
      .error .stopIteration := by
  unfold loadPathT loadFramesT
  simp only
  rw [firstBlockT_traj0 step p.pts hn]
  simp only [snapshotsT_rows p.pts 0 hn, files_checkT p.pts, not_true_eq_false, if_false]
  rfl

/-- the hypothesis on basenames is needed: a blank inside a name splits it into two tokens, the row
    has five columns, `snapshot[1]` is only the first half and `int(snapshot[2])` raises ValueError —
    the archive does not load -/
def blankName : PathObj TFrame := { maxlen := none, pts :=
  [{ dir := "w".toList, base := "a b.xyz".toList, idx := some 0, velRev := false, order := [.num false 1 1], vpot := none, ekin := none }] }

def isOk {α : Type} : Except Err α → Bool
  | .ok _ => true
  | .error _ => false

set_option maxRecDepth 8000 in
theorem blankName_fails : isOk (loadStoredT .push none (storeT 0 [] blankName).1) = false := by decide

theorem roundtrip_text_blank_in_name_counterexample :
    ¬ (∀ (lim : Option Int) (step : Nat) (gen : Str) (p : PathObj TFrame), p.fits → p.pts ≠ [] → NoBrk gen →
        ∀ c, (∀ f ∈ p.pts, f.order.length = c) →
        ∃ q, loadStoredT .push lim (storeT step gen p).1 = .ok q) := by
  intro h
  obtain ⟨q, hq⟩ := h none 0 [] blankName (by decide) (by simp [blankName]) (by intro c hc; cases hc) 1
    (by simp [blankName])
  have := blankName_fails
  rw [hq] at this
  cases this

def errOf {α : Type} : Except Err α → Option Err
  | .ok _ => none
  | .error e => some e

/-- a name with a NO-BREAK SPACE (U+00A0) inside: one token for ASCII-only white space, two for Python -/
def nbspName : PathObj TFrame := { maxlen := none, pts :=
  [{ dir := "w".toList, base := ['a', Char.ofNat 0xA0, 'b', '.', 'x', 'y', 'z'], idx := some 0, velRev := false,
     order := [.num false 1 2], vpot := none, ekin := none },
   { dir := "w".toList, base := ['a', Char.ofNat 0xA0, 'b', '.', 'x', 'y', 'z'], idx := some 1, velRev := false,
     order := [.num false 1 2], vpot := none, ekin := none }] }

set_option maxRecDepth 20000 in
/-- the stored archive does not load: `int("b.xyz")` — ValueError, as the real `load_path` does -/
theorem nbspName_fails : errOf (loadStoredT .push none (storeT 0 [] nbspName).1) = some .value := by decide

/-- the name satisfies the OLD guard (no ASCII white space) and not the exact one -/
theorem nbspName_old_guard : (∀ f ∈ nbspName.pts, f.base ≠ [] ∧ Infretis.Codec.NoWs f.base) ∧
    ¬ (∀ f ∈ nbspName.pts, Tokn f.base) := by
  constructor
  · intro f hf
    simp only [nbspName, List.mem_cons, List.not_mem_nil, or_false] at hf
    rcases hf with rfl | rfl <;> exact ⟨by decide, by unfold Infretis.Codec.NoWs; decide⟩
  · intro h
    have := (h (nbspName.pts.head (by decide)) (by decide)).2 (Char.ofNat 0xA0) (by decide)
    revert this
    decide

/-- **The round trip under the ASCII-only guard is refuted** (the statement `load_store_roundtrip_text` had
    before the audit): non-ASCII white space in a basename — a legal file name — is stored but does not
    load.  Engine-generated names (`<ensemble>_<pid>_<counter>_traj{B,F}.<ext>`) hold no white space of
    either kind; the tie feeds both kinds of non-ASCII names (letters must round-trip, white space must
    fail with ValueError in model and code alike). -/
theorem roundtrip_text_nbsp_in_name_counterexample :
    ¬ (∀ (lim : Option Int) (step : Nat) (gen : Str) (p : PathObj TFrame), p.fits → p.pts ≠ [] → NoBrk gen →
        (∀ f ∈ p.pts, f.base ≠ [] ∧ Infretis.Codec.NoWs f.base) →
        ∀ c, (∀ f ∈ p.pts, f.order.length = c) →
        ∃ q, loadStoredT .push lim (storeT step gen p).1 = .ok q) := by
  intro h
  obtain ⟨q, hq⟩ := h none 0 [] nbspName (by decide) (by simp [nbspName]) (by intro c hc; cases hc)
    nbspName_old_guard.1 1 (by simp [nbspName])
  have := nbspName_fails
  rw [hq] at this
  cases this

/-- the white-space name in a LATER row: that row has five columns, `read_some_lines` skips it as malformed -/
def nbspLater : PathObj TFrame := { maxlen := none, pts :=
  [{ dir := "w".toList, base := "a.xyz".toList, idx := some 0, velRev := false, order := [.num false 1 2], vpot := none, ekin := none },
   { dir := "w".toList, base := ['a', Char.ofNat 0xA0, 'b', '.', 'x', 'y', 'z'], idx := some 0, velRev := false,
     order := [.num false 3 2], vpot := none, ekin := none }] }

set_option maxRecDepth 20000 in
/-- … and then NO error is raised: the archive loads as a path of ONE frame (the frame with the white-space name is
    dropped silently, the second row of order.txt / energy.txt is ignored by `zip`) — same in the real `load_path` -/
theorem nbsp_later_row_drops_frame :
    (loadStoredT .push none (storeT 0 [] nbspLater).1).toOption.map (fun q => q.pts.map (fun f => (f.base, f.order))) =
      some [("a.xyz".toList, [FVal.dec ⟨false, 500000⟩])] := by decide

/-- every character Python's `split()` separates at is excluded by the exact guard, and only those -/
theorem tokn_iff (t : Str) : Tokn t ↔ t ≠ [] ∧ ∀ c ∈ t, isWs c = false := Iff.rfl

/-- non-ASCII LETTERS are inside the guard: `é`, `ß`, a CJK character, an emoji — and such a name round-trips -/
example : Tokn ['t', 'r', 'a', 'j', 'é', 'ß', Char.ofNat 0x4E2D, Char.ofNat 0x1F600, '.', 'x', 'y', 'z'] :=
  ⟨by decide, by unfold NoWs; decide⟩

set_option maxRecDepth 20000 in
example : (loadStoredT .push none (storeT 3 "('sh', 0.5, 1, 2)".toList { maxlen := some 5, pts :=
    [{ dir := "w".toList, base := ['é', Char.ofNat 0x4E2D, '.', 'x'], idx := none, velRev := true,
       order := [.inf true, .num false 1 4], vpot := some (.inf false), ekin := none }] }).1).toOption.map
      (fun q => (q.maxlen, q.pts)) =
  some (none, [({ base := ['é', Char.ofNat 0x4E2D, '.', 'x'], idx := 0, velRev := true,
                  order := [FVal.inf true, FVal.dec ⟨false, 250000⟩], vpot := some (FVal.inf false),
                  ekin := some FVal.nan } : LFrameT)]) := by
  decide

/-- all 29 white-space code points, and their neighbours are not -/
example : ([9, 10, 11, 12, 13, 28, 29, 30, 31, 32, 0x85, 0xA0, 0x1680, 0x2000, 0x2001, 0x2002, 0x2003, 0x2004, 0x2005,
      0x2006, 0x2007, 0x2008, 0x2009, 0x200A, 0x2028, 0x2029, 0x202F, 0x205F, 0x3000].all (fun n => isWs (Char.ofNat n))) = true ∧
    ([8, 14, 27, 33, 0x84, 0x86, 0x9F, 0xA1, 0x167F, 0x1681, 0x180E, 0x1FFF, 0x200B, 0x2027, 0x202A, 0x202E, 0x2030, 0x205E,
      0x2060, 0x2FFF, 0x3001, 0xFEFF].any (fun n => isWs (Char.ofNat n))) = false := by decide

/-- an empty path is stored but does not load (as on the token level) -/
theorem load_store_text_empty (lim ml : Option Int) (step : Nat) (gen : Str) (hg : NoBrk gen) :
    loadStoredT .push lim (storeT step gen { maxlen := ml, pts := [] }).1 = .error .index := by
  have hc : ({ maxlen := ml, pts := [] } : PathObj TFrame).copy = { maxlen := ml, pts := [] } := by
    cases ml <;> rfl
  unfold loadStoredT storeT loadPathT loadFramesT
  simp only [hc]
  rw [firstBlockT_traj0 step [] (by intro f hf; cases hf)]
  simp only [rowsFromT, List.map_nil, snapshotsT, sourcesT, List.all_nil, not_true_eq_false, if_false]
  rw [firstBlockT_order0 step gen hg [] 0 (by intro f hf; cases hf)]
  rfl

end Text

/-! ## Part A — the file operations of `_move_path`: every referenced file ends up under the path's own directory -/

/-- **Files, as a theorem about the effect sequence.** A path within its own limit whose frames refer
    to existing files outside `target = load/<n>/accepted`, any `keep_traj_fnames`, any file system
    (stale files already in `target` included), provided the names that go to `target` are pairwise
    different: `_move_path` raises nothing, returns a path of the same length, and afterwards
    every frame's file lies in `target` under its basename WITH THE CONTENT THE SOURCE HAD, the
    source is gone (moved, not copied), every entry of the move dict (side files kept through
    `keep_traj_fnames` included) arrived with its content, and no file outside `target` that is not
    a source was touched. -/
theorem move_path_files (keep : List String) (target : String) (p : PathObj Frame) (fs : FS)
    (hfit : p.fits) (H1 : ∀ f ∈ p.pts, fsGet fs (f.dir, f.base) ≠ none) (H2 : ∀ f ∈ p.pts, f.dir ≠ target)
    (hnames : ((moveDict fs target keep p.pts).map (·.1.2)).Nodup) :
    (movePath keep target p fs).2.2 = none ∧
    (movePath keep target p fs).2.1.pts.length = p.pts.length ∧
    (∀ f ∈ (movePath keep target p fs).2.1.pts, f.dir = target) ∧
    (∀ f ∈ p.pts, fsGet (movePath keep target p fs).1 (target, f.base) = fsGet fs (f.dir, f.base) ∧
                  fsGet (movePath keep target p fs).1 (f.dir, f.base) = none) ∧
    (∀ e ∈ moveDict fs target keep p.pts, e.2 = (target, e.1.2) ∧ fsGet (movePath keep target p fs).1 e.2 = fsGet fs e.1) ∧
    (∀ k, k.1 ≠ target → k ∉ (moveDict fs target keep p.pts).map (·.1) → fsGet (movePath keep target p fs).1 k = fsGet fs k) := by
  obtain ⟨hinv, hkeys⟩ := moveDict_inv fs target keep p.pts H1
  have hok : DictOk target (moveDict fs target keep p.pts) := by
    refine ⟨?_, hinv.keys_nodup, hnames⟩
    intro e he
    obtain ⟨h1, h2⟩ := hinv.form e he
    obtain ⟨f, hf, hfd⟩ := List.mem_map.mp h2
    exact ⟨h1, by rw [← hfd]; exact H2 f hf⟩
  obtain ⟨s1, s2, s3⟩ := doMoves_spec target _ fs hok hinv.present
  unfold movePath
  simp only [copy_of_fits p hfit]
  refine ⟨s1, by simp, ?_, ?_, ?_, ?_⟩
  · intro f hf
    obtain ⟨g, _, rfl⟩ := List.mem_map.mp hf
    rfl
  · intro f hf
    obtain ⟨e, he, hek⟩ := List.mem_map.mp (hkeys f hf)
    obtain ⟨a, b⟩ := s2 e he
    have hform := (hok.form e he).1
    rw [hform, hek] at a
    rw [hek] at b
    exact ⟨a, b⟩
  · intro e he
    exact ⟨(hok.form e he).1, (s2 e he).1⟩
  · intro k hk1 hk2
    refine s3 k hk2 ?_
    intro hm
    obtain ⟨e, he, hek⟩ := List.mem_map.mp hm
    apply hk1
    rw [← hek, (hok.form e he).1]

/-- **END TO END: store on the file system, then load.** For every path within its own limit, with
    ≥ 1 frames and the same number of order parameters in all of them, whose frames refer to
    existing files outside `target`, any `keep_traj_fnames`, any file system, any default limit of
    `Path()`, provided the names that go to `target` are pairwise different: `PathStorage.output`
    followed by `load_path` — the model function `outputThenLoad` the driver runs — returns the
    stored frames (basename, index, velocity direction, six-decimal order parameters, energies or
    NaN), each referring to a file that exists in `target` with the content its source had. -/
theorem output_then_load (keep : List String) (target : String) (step : Nat) (mv : List String) (p : PathObj Frame)
    (fs : FS) (deflim : Option Int) (hfit : p.fits) (hne : p.pts ≠ []) (c : Nat) (hc : ∀ f ∈ p.pts, f.order.length = c)
    (H1 : ∀ f ∈ p.pts, fsGet fs (f.dir, f.base) ≠ none) (H2 : ∀ f ∈ p.pts, f.dir ≠ target)
    (hnames : ((moveDict fs target keep p.pts).map (·.1.2)).Nodup) :
    outputThenLoad keep target step mv p fs deflim = .ok { maxlen := deflim, pts := p.pts.map expected } ∧
    ∀ f ∈ p.pts, fsGet (movePath keep target p fs).1 (target, (expected f).base) = fsGet fs (f.dir, f.base) := by
  obtain ⟨m1, _, _, m4, _, _⟩ := move_path_files keep target p fs hfit H1 H2 hnames
  refine ⟨?_, fun f hf => (m4 f hf).1⟩
  unfold outputThenLoad
  simp only [m1]
  have hfiles : ∀ f ∈ p.pts, f.base ∈ accListing (movePath keep target p fs).1 target := by
    intro f hf
    apply mem_accListing
    rw [(m4 f hf).1]
    exact H1 f hf
  unfold loadPath
  rw [loadFrames_text step mv p.pts hne c hc _ hfiles]
  simp only [fill_push, PathObj.empty, List.nil_append]
  have h := loadEnergies_store step mv p.pts hne p.pts.length
  rw [List.take_of_length_le (by simp), List.take_of_length_le (by simp)] at h
  simp only [store] at h
  simp only [h]

example : (outputThenLoad [".adp"] "load/4/accepted" 3 ["ki"] { maxlen := some 2, pts :=
      [{ dir := "w0", base := "a.xyz", idx := some 0, velRev := true, order := [1], vpot := none, ekin := none },
       { dir := "w1", base := "b.xyz", idx := some 0, velRev := false, order := [2], vpot := some 4, ekin := none }] }
    [(("w0", "a.xyz"), 1), (("w0", "a.adp"), 2), (("w1", "b.xyz"), 3), (("load/4/accepted", "a.xyz"), 9)] (some 1)).toOption.map
      (fun q => q.pts.map (·.base)) = some ["a.xyz", "b.xyz"] := by
  rfl

/-- without `keep_traj_fnames` the side condition is the property's own assumption: distinct source
    files have distinct basenames -/
theorem move_path_files_plain (target : String) (p : PathObj Frame) (fs : FS)
    (hfit : p.fits) (H1 : ∀ f ∈ p.pts, fsGet fs (f.dir, f.base) ≠ none) (H2 : ∀ f ∈ p.pts, f.dir ≠ target)
    (H3 : ∀ f ∈ p.pts, ∀ g ∈ p.pts, f.base = g.base → f.dir = g.dir) :
    (movePath [] target p fs).2.2 = none ∧
    (∀ f ∈ p.pts, fsGet (movePath [] target p fs).1 (target, f.base) = fsGet fs (f.dir, f.base) ∧
                  fsGet (movePath [] target p fs).1 (f.dir, f.base) = none) := by
  have hn : ((moveDict fs target [] p.pts).map (·.1.2)).Nodup := by
    show ((sourceDict target p.pts).map (·.1.2)).Nodup
    have : (sourceDict target p.pts).map (·.1.2) = (sources p.pts).map (·.2) := by
      simp [sourceDict, List.map_map, Function.comp_def]
    rw [this]
    exact (stored_files_under_own_dir 0 [] p.pts).2.2 H3
  obtain ⟨a, _, _, b, _, _⟩ := move_path_files [] target p fs hfit H1 H2 hn
  exact ⟨a, b⟩

/-- two backward/forward files, a kept `.adp` next to the first, a stale file already in accepted/ -/
example :
    let fs : FS := [(("w0", "a.xyz"), 1), (("w0", "a.adp"), 2), (("w1", "b.xyz"), 3), (("load/4/accepted", "a.xyz"), 9), (("w1", "other"), 7)]
    let p : PathObj Frame := { maxlen := some 3, pts :=
      [{ dir := "w0", base := "a.xyz", idx := some 0, velRev := true, order := [1], vpot := none, ekin := none },
       { dir := "w1", base := "b.xyz", idx := some 0, velRev := false, order := [2], vpot := none, ekin := none },
       { dir := "w1", base := "b.xyz", idx := some 1, velRev := false, order := [3], vpot := none, ekin := none }] }
    p.fits ∧ ((moveDict fs "load/4/accepted" [".adp"] p.pts).map (·.1.2)).Nodup ∧
    (movePath [".adp"] "load/4/accepted" p fs).1 =
      [(("load/4/accepted", "a.adp"), 2), (("load/4/accepted", "b.xyz"), 3), (("load/4/accepted", "a.xyz"), 1), (("w1", "other"), 7)] := by
  decide

/-- the side condition is needed: two source files with one basename (different directories) — the
    second move removes what the first one put there; frames of the first file now read the
    second file's content -/
theorem move_path_same_basename_counterexample :
    ¬ (∀ (target : String) (p : PathObj Frame) (fs : FS), p.fits →
        (∀ f ∈ p.pts, fsGet fs (f.dir, f.base) ≠ none) → (∀ f ∈ p.pts, f.dir ≠ target) →
        ∀ f ∈ p.pts, fsGet (movePath [] target p fs).1 (target, f.base) = fsGet fs (f.dir, f.base)) := by
  intro h
  have := h "acc" { maxlen := none, pts :=
      [{ dir := "w0", base := "t.xyz", idx := some 0, velRev := false, order := [], vpot := none, ekin := none },
       { dir := "w1", base := "t.xyz", idx := some 0, velRev := false, order := [], vpot := none, ekin := none }] }
    [(("w0", "t.xyz"), 1), (("w1", "t.xyz"), 2)] (by decide) (by decide) (by decide)
    { dir := "w0", base := "t.xyz", idx := some 0, velRev := false, order := [], vpot := none, ekin := none } (by simp)
  revert this
  decide

/-- a missing source file raises (FileNotFoundError) after the earlier moves were done -/
example : (movePath [] "acc" { maxlen := none, pts :=
      [{ dir := "w0", base := "a.xyz", idx := some 0, velRev := false, order := [], vpot := none, ekin := none },
       { dir := "w0", base := "gone.xyz", idx := some 0, velRev := false, order := [], vpot := none, ekin := none }] }
    [(("w0", "a.xyz"), 1)]).2.2 = some .nofile := by decide

/-! ## Part B, continued — histories with RESTARTS between calls -/

/-- a restart is taken between two calls (nothing pending); the other ops as before -/
def opOkR (s : St) : OpR → Prop
  | .op o => opOk s o
  | .restart => s.pending = []

instance (s : St) (o : OpR) : Decidable (opOkR s o) := by
  cases o <;> unfold opOkR <;> infer_instance

def BoundedR : St → List OpR → Prop
  | _, [] => True
  | s, o :: os => opOkR s o ∧ ((stepR s o).2 = none → BoundedR (stepR s o).1 os)

instance decBoundedR : (s : St) → (ops : List OpR) → Decidable (BoundedR s ops)
  | _, [] => isTrue trivial
  | s, o :: os =>
    have d2 : Decidable ((stepR s o).2 = none → BoundedR (stepR s o).1 os) :=
      if h : (stepR s o).2 = none then
        match decBoundedR (stepR s o).1 os with
        | isTrue hb => isTrue (fun _ => hb)
        | isFalse hb => isFalse (fun f => hb (f h))
      else isTrue (fun h' => absurd h' h)
    @instDecidableAnd _ _ inferInstance d2

theorem good_stepR (s : St) (hg : Good s) (hp : Prot s) (o : OpR) : Good (stepR s o).1 := by
  cases o with
  | op o => exact good_step s hg o
  | restart => exact good_restart s hp

theorem prot_stepR (s : St) (hg : Good s) (hp : Prot s) (o : OpR) (hb : opOkR s o) : Prot (stepR s o).1 := by
  cases o with
  | op o =>
    cases o with
    | replace p f k => exact prot_replace s hg hp hb p f k
    | finish => exact prot_finish s hg hp
    | stale p nm => exact prot_stale s hp p nm
  | restart => exact prot_restart s hp

theorem inv_runR : ∀ (ops : List OpR) (s : St), Good s → Prot s → BoundedR s ops →
    Good (runR s ops).1 ∧ Prot (runR s ops).1 := by
  intro ops
  induction ops with
  | nil => intro s hg hp _; exact ⟨hg, hp⟩
  | cons o os ih =>
    intro s hg hp hb
    have h1 := good_stepR s hg hp o
    have h2 := prot_stepR s hg hp o hb.1
    unfold runR
    split
    · rename_i hok
      exact ih _ h1 h2 (hb.2 hok)
    · exact ⟨h1, h2⟩

/-- **Live paths and the restart file's paths keep their files, across restarts**: any history of
    accepted replacements, ends of calls, stale files and restarts between calls (a new
    REPEX_state from restart.toml, the paths re-read from disk, the deletion queue forgotten). -/
theorem never_deletes_live_file_restarts (s : St) (hg : Good s) (hp : Prot s) (ops : List OpR) (hb : BoundedR s ops) :
    (∀ p ∈ (runR s ops).1.live, Intact (runR s ops).1 p) ∧ (∀ p ∈ (runR s ops).1.restart, Intact (runR s ops).1 p) :=
  ⟨(inv_runR ops s hg hp hb).1.live_intact, (inv_runR ops s hg hp hb).2.restart_intact⟩

theorem stepR_n (s : St) (o : OpR) : (stepR s o).1.n = s.n := by
  cases o with
  | op o =>
    cases o with
    | replace p f k => exact (replace_ctl s p f k).1
    | finish => exact (finish_disk s).2
    | stale p nm => exact (stale_ctl s p nm).1
  | restart => rfl

/-- **Initial paths are never touched, across restarts.** -/
theorem never_touches_initial_paths_restarts : ∀ (ops : List OpR) (s : St), Good s → Prot s → BoundedR s ops →
    ∀ g ∈ s.disk, (g.pn : Int) ≤ (s.n : Int) - 2 → g ∈ (runR s ops).1.disk := by
  intro ops
  induction ops with
  | nil => intro s _ _ _ g h _; exact h
  | cons o os ih =>
    intro s hg hp hb g hgd hle
    have h1 : g ∈ (stepR s o).1.disk := by
      cases o with
      | op o =>
        apply Classical.byContradiction
        intro hn
        have := (step_removes_only_dead s hg o g hgd hn).2.1
        omega
      | restart => exact hgd
    unfold runR
    split
    · rename_i hok
      exact ih _ (good_stepR s hg hp o) (prot_stepR s hg hp o hb.1) (hb.2 hok) g h1 (by rw [stepR_n]; exact hle)
    · exact h1

/-- **A path queued for deletion when the run is restarted is never deleted afterwards** (`pn_olds`
    is not persisted): a path that is not live, not named by the restart file, not in `traj_data`,
    not in the queue, and numbered below `traj_num` keeps every file, whatever follows. -/
def Frozen (s : St) (q : Nat) : Prop :=
  q ∉ s.live ∧ q ∉ s.restart ∧ q ∉ keys s.trajData ∧ q ∉ keys s.pnOlds ∧ q < s.trajNum

theorem frozen_step (s : St) (hg : Good s) (q : Nat) (hf : Frozen s q) (o : OpR) :
    Frozen (stepR s o).1 q ∧ ∀ g ∈ s.disk, g.pn = q → g ∈ (stepR s o).1.disk := by
  obtain ⟨h1, h2, h3, h4, h5⟩ := hf
  cases o with
  | restart =>
    refine ⟨⟨h2, h2, ?_, by simp [restartSt, stepR, keys], h5⟩, fun g hg _ => hg⟩
    intro hk
    exact h2 (restart_keys s q hk)
  | op o =>
    cases o with
    | finish =>
      refine ⟨?_, fun g hgd _ => by show g ∈ (finish s).1.disk; rw [(finish_disk s).1]; exact hgd⟩
      show Frozen (finish s).1 q
      unfold finish
      dsimp only
      split
      · exact ⟨h1, h2, fun hk => h3 (popAll_keys_sub _ _ q hk), h4, h5⟩
      · exact ⟨h1, h1, fun hk => h3 (popAll_keys_sub _ _ q hk), h4, h5⟩
    | stale p nm =>
      obtain ⟨_, c2, c3, c4, c5, c6, _⟩ := stale_ctl s p nm
      refine ⟨?_, fun g hgd _ => stale_disk s p nm g hgd⟩
      show Frozen (addStale s p nm) q
      unfold Frozen
      rw [c2, c3, c4, c5, c6]
      exact ⟨h1, h2, h3, h4, h5⟩
    | replace p f k =>
      have hr := (replace_ctl s p f k).2.1
      refine ⟨?_, ?_⟩
      · show Frozen (replace s p f k).1 q
        rcases replace_fields s p f k with he | ⟨htn, htd, _, ⟨adrOld, hlk⟩, hcase⟩
        · rw [he]; exact ⟨h1, h2, h3, h4, h5⟩
        · have hpq : p ≠ q := by
            intro e; subst e; exact h3 (lookup_keys _ _ _ hlk)
          have hqt : q ≠ s.trajNum := by omega
          unfold Frozen
          rw [hr, htn, htd]
          refine ⟨?_, h2, ?_, ?_, by omega⟩
          · rcases hcase with ⟨_, hl, _⟩ | ⟨_, hl, _⟩
            · rw [hl]; exact h1
            · rw [hl]
              intro hm
              obtain ⟨x, hx, hxe⟩ := List.mem_map.mp hm
              by_cases hxp : x = p
              · simp only [hxp, if_true] at hxe; exact hqt hxe.symm
              · simp only [hxp, if_false] at hxe; subst hxe; exact h1 hx
          · simp only [keys, List.map_cons, List.mem_cons, not_or]
            exact ⟨hqt, h3⟩
          · rcases hcase with ⟨_, _, hk⟩ | ⟨_, _, hk⟩
            · intro hm; exact h4 (hk q hm)
            · intro hm
              rcases hk q hm with h | ⟨h, _⟩
              · exact h4 h
              · exact hpq h.symm
      · intro g hgd hgq
        apply Classical.byContradiction
        intro hn
        obtain ⟨pd, adr, rest, e1, e2, _⟩ := replace_removed s p f k g hgd hn
        apply h4
        rw [← hgq, e2, e1]
        simp [keys]

theorem queued_at_restart_never_deleted : ∀ (ops : List OpR) (s : St), Good s → Prot s → BoundedR s ops →
    ∀ q, Frozen s q → ∀ g ∈ s.disk, g.pn = q → g ∈ (runR s ops).1.disk := by
  intro ops
  induction ops with
  | nil => intro s _ _ _ q _ g h _; exact h
  | cons o os ih =>
    intro s hg hp hb q hf g hgd hgq
    obtain ⟨hf', hd'⟩ := frozen_step s hg q hf o
    unfold runR
    split
    · rename_i hok
      exact ih _ (good_stepR s hg hp o) (prot_stepR s hg hp o hb.1) (hb.2 hok) q hf' g (hd' g hgd hgq) hgq
    · exact hd' g hgd hgq

/-- a path that is in the queue when the run is restarted is frozen from then on -/
theorem frozen_of_queued (s : St) (hg : Good s) (hj : ∀ p ∈ s.restart, p ∈ s.live) (q : Nat) (hq : q ∈ keys s.pnOlds) :
    Frozen (restartSt s) q := by
  obtain ⟨h1, _, h3⟩ := hg.olds_dead q hq
  have h2 : q ∉ s.restart := fun h => h1 (hj q h)
  exact ⟨h2, h2, fun hk => h2 (restart_keys s q hk), by simp [restartSt, keys], h3⟩

/-- all of it from the state `load_paths` builds -/
theorem safety_from_init_restarts (n : Nat) (d a : Bool) (paths : List (Nat × List String)) (v : Variant) (kp : List String)
    (hn : 1 ≤ n) (hp : ∀ e ∈ paths, e.1 + 1 < n) (ops : List OpR) (hb : BoundedR (init n d a paths v kp) ops) :
    (∀ p ∈ (runR (init n d a paths v kp) ops).1.live, Intact (runR (init n d a paths v kp) ops).1 p) ∧
    (∀ p ∈ (runR (init n d a paths v kp) ops).1.restart, Intact (runR (init n d a paths v kp) ops).1 p) ∧
    (∀ g ∈ initFiles paths, g ∈ (runR (init n d a paths v kp) ops).1.disk) := by
  obtain ⟨hg, hpr⟩ := init_good n d a paths v kp hn hp
  obtain ⟨h1, h2⟩ := never_deletes_live_file_restarts _ hg hpr ops hb
  refine ⟨h1, h2, ?_⟩
  intro g hgi
  refine never_touches_initial_paths_restarts ops _ hg hpr hb g hgi ?_
  obtain ⟨e, he, hpn⟩ := List.mem_map.mp (initFiles_pn paths g hgi)
  have := hp e he
  show (g.pn : Int) ≤ (n : Int) - 2
  omega

/-- the demo history with a restart after the third call: path 2 sits in the queue at the restart
    and keeps its file to the end; without the restart it is deleted (see the lag example above) -/
def demoOpsR : List OpR :=
  (demoOps.take 6).map OpR.op ++ [.restart] ++ (demoOps.drop 6).map OpR.op ++
    [.op (.replace 6 ["f.xyz"] []), .op .finish, .op (.replace 4 ["g.xyz"] []), .op .finish]

example : BoundedR demoInit demoOpsR ∧ (runR demoInit demoOpsR).2 = none ∧
    2 ∈ keys (runR demoInit ((demoOps.take 6).map OpR.op)).1.pnOlds ∧
    DFile.acc 2 "a.xyz" ∈ (runR demoInit demoOpsR).1.disk ∧ keys (runR demoInit demoOpsR).1.pnOlds = [6, 4] ∧
    DFile.acc 3 "b.xyz" ∉ (runR demoInit demoOpsR).1.disk := by
  decide

end Infretis.C14
