import Infretis.Lemmas.PathAlg
import Infretis.Lemmas.PathAlgCls
import Infretis.Lemmas.PathAlgRev
import Infretis.Lemmas.PathAlgWF
import Infretis.Lemmas.PathAlgExt
/-!
# C15 — path algebra: paste, reverse, copy and classification are consistent

Property theorems only (helper lemmas: `Infretis/Lemmas/PathAlg.lean`, `PathAlgCls.lean`, `PathAlgRev.lean`,
`PathAlgWF.lean`, `PathAlgExt.lean`).
Model: `Infretis/Model/PathAlg.lean` (mirrors `infretis/classes/path.py`, `system.py`).
Paths of any length, any limit (`maxlen` may be `None`, zero or negative), any heap.

The clause "reversing twice restores the frames" holds exactly under the two guards of `reverse_reverse`:
the path is within its limit (`hfits`; otherwise the first reversal truncates:
`reverse_reverse_overlimit_counterexample`, a state reachable through `load_paths_from_disk` / a lowered
`maxlen`) and, when the order parameter is re-computed, the stored orders are the ones the order function
computes (`hcons`; otherwise `reverse_reverse_stale_order_counterexample`).  `paste_paths` is modelled as the
repaired code (960b399); the behaviour before it is `pasteV .asIs` (`paste_none_limit_asIs_counterexample`).

Vocabulary: `capTake ml xs` = `xs` truncated at the limit `ml` (`None` = no limit, limits ≤ 0 keep
nothing); `capLen ml n` = the corresponding length; `WF h rs` = all references in `rs` point into
the heap `h`; `h.look r` = the object behind reference `r` (`none` if dangling).
-/
namespace Infretis.C15
open Infretis.PathAlg

/-! ## paste_paths -/

/-- the frames offered by `paste_paths`: the backward segment reversed, then the forward segment
    without its first point when the segments overlap -/
def pasteSeq (back forw : Path) (ov : Bool) : List Nat :=
  back.frames.reverse ++ (if ov then forw.frames.drop 1 else forw.frames)

/-- **The limit of the pasted path** as the (repaired, 960b399) code computes it, for EVERY pair of
    limits: the explicit `maxlen` if given, else the common limit, else — when exactly one of the two
    is `None` — the other one, else the larger one.  It never fails. -/
theorem paste_limit (bm fm ml : Option Int) :
    pasteMaxlen bm fm ml =
      match ml, bm, fm with
      | some m, _, _ => .ok (some m)
      | none, none, none => .ok none
      | none, some a, some b => .ok (some (max a b))
      | none, none, some b => .ok (some b)
      | none, some a, none => .ok (some a) := by
  cases ml with
  | some m => rfl
  | none =>
    cases bm with
    | none => cases fm <;> simp [pasteMaxlen, pasteMaxlenV]
    | some a =>
      cases fm with
      | none => simp [pasteMaxlen, pasteMaxlenV]
      | some b =>
        simp only [pasteMaxlen, pasteMaxlenV]
        by_cases hab : a = b
        · subst hab; simp
        · have : (some a = some b) = False := by simp [hab]
          simp only [this, if_false]
          congr 2
          by_cases h : b > a
          · rw [if_pos h]; omega
          · rw [if_neg h]; omega

/-- **`paste_paths` is total**: for every pair of segments, every pair of limits (also exactly one
    `None`), every overlap flag and every explicit limit it returns a path. -/
theorem paste_total (back forw : Path) (ov : Bool) (ml : Option Int) :
    ∃ np, paste back forw ov ml = .ok np := by
  have hl := paste_limit back.maxlen forw.maxlen ml
  have : ∃ cap, pasteMaxlen back.maxlen forw.maxlen ml = .ok cap := by
    rw [hl]
    cases ml with
    | some m => exact ⟨_, rfl⟩
    | none => cases back.maxlen <;> cases forw.maxlen <;> exact ⟨_, rfl⟩
  obtain ⟨cap, hc⟩ := this
  exact ⟨_, paste_closed back forw ov ml cap hc⟩

/-- **Before fix 960b399** (`Variant.asIs`) the limit computation was `max(path_back.maxlen,
    path_forw.maxlen)`, which raises TypeError when exactly one limit is `None`: pasting an unlimited
    backward segment with a forward segment limited to 100 frames failed although the property
    quantifies over all limits.  The repaired code picks the other limit. -/
theorem paste_none_limit_asIs_counterexample :
    let back : Path := { Path.empty none 0 with frames := [0, 1] }
    let forw : Path := { Path.empty (some 100) 0 with frames := [0, 2] }
    pasteV .asIs back forw true none = .error .type
    ∧ pasteV .asIs forw back true none = .error .type
    ∧ (paste back forw true none).map (fun np => (np.maxlen, np.frames)) = .ok (some 100, [1, 0, 2])
    ∧ (paste forw back true none).map (fun np => (np.maxlen, np.frames)) = .ok (some 100, [2, 0, 1]) := by
  refine ⟨rfl, rfl, rfl, rfl⟩

/-- the two variants are the same function wherever the old code did not raise -/
theorem pasteV_agree (back forw np : Path) (ov : Bool) (ml : Option Int)
    (h : pasteV .asIs back forw ov ml = .ok np) : paste back forw ov ml = .ok np := by
  have key : pasteMaxlenV .asIs back.maxlen forw.maxlen ml = pasteMaxlen back.maxlen forw.maxlen ml
      ∨ ∃ e, pasteMaxlenV .asIs back.maxlen forw.maxlen ml = .error e := by
    unfold pasteMaxlen pasteMaxlenV
    cases ml with
    | some m => exact Or.inl rfl
    | none =>
      cases back.maxlen with
      | none =>
        cases forw.maxlen with
        | none => exact Or.inl rfl
        | some b => exact Or.inr ⟨.type, by simp⟩
      | some a =>
        cases forw.maxlen with
        | none => exact Or.inr ⟨.type, by simp⟩
        | some b => exact Or.inl (by by_cases hab : a = b <;> simp [hab])
  rcases key with k | ⟨e, k⟩
  · unfold pasteV at h; unfold paste; rw [← k]; exact h
  · unfold pasteV at h; rw [k] at h; cases h

/-- `paste_paths` fails only through the limit computation (which, by `paste_limit`, never fails:
    see `paste_total`) -/
theorem paste_error_iff (back forw : Path) (ov : Bool) (ml : Option Int) (e : Err) :
    paste back forw ov ml = .error e ↔ pasteMaxlen back.maxlen forw.maxlen ml = .error e := by
  cases hc : pasteMaxlen back.maxlen forw.maxlen ml with
  | error e' => simp [paste, hc]
  | ok cap => rw [paste_closed back forw ov ml cap hc]; simp

/-- **paste_order.** The pasted path holds exactly the references of reversed(back) followed by the
    forward frames (minus the shared point), truncated at the limit; its limit is the computed one
    and its other attributes are those of a new path. No System is copied. -/
theorem paste_order (back forw np : Path) (ov : Bool) (ml : Option Int)
    (h : paste back forw ov ml = .ok np) :
    pasteMaxlen back.maxlen forw.maxlen ml = .ok np.maxlen
    ∧ np.frames = capTake np.maxlen (pasteSeq back forw ov)
    ∧ np.status = 0 ∧ np.generated = none ∧ np.pathNumber = none ∧ np.weights = none ∧ np.weight = 0 := by
  cases hc : pasteMaxlen back.maxlen forw.maxlen ml with
  | error e => simp [paste, hc] at h
  | ok cap =>
    rw [paste_closed back forw ov ml cap hc] at h
    injection h with h
    subst h
    exact ⟨rfl, rfl, rfl, rfl, rfl, rfl, rfl⟩

/-- **paste_length.** `len = min(limit, |back| + |forw| − [overlap])` (no `min` when the limit is `None`;
    an empty forward segment has no shared point to drop). -/
theorem paste_length (back forw np : Path) (ov : Bool) (ml : Option Int)
    (h : paste back forw ov ml = .ok np) :
    np.frames.length
      = capLen np.maxlen (back.frames.length + (forw.frames.length - (if ov then 1 else 0))) := by
  rw [(paste_order back forw np ov ml h).2.1, length_capTake]
  congr 1
  unfold pasteSeq
  cases ov <;> simp

/-- **paste_head_is_last_backward.** If the backward segment is non-empty and the limit admits at
    least one frame, the pasted path begins with the last backward frame (the same object). -/
theorem paste_head_is_last_backward (back forw np : Path) (ov : Bool) (ml : Option Int)
    (h : paste back forw ov ml = .ok np) (hb : back.frames ≠ []) (hlim : capLen np.maxlen 1 = 1) :
    np.frames.head? = back.frames.getLast? := by
  rw [(paste_order back forw np ov ml h).2.1]
  have hhead : (pasteSeq back forw ov).head? = back.frames.getLast? := by
    unfold pasteSeq
    rw [List.head?_append, List.head?_reverse]
    cases hl : back.frames.getLast? with
    | none => exact absurd (List.getLast?_eq_none_iff.1 hl) hb
    | some x => rfl
  cases hm : np.maxlen with
  | none => simpa [capTake] using hhead
  | some m =>
    rw [hm] at hlim
    simp only [capLen] at hlim
    simp only [capTake]
    rw [List.head?_take, if_neg (by omega)]
    exact hhead

/-- **paste_time_origin.** The pasted path starts at the time of the last backward frame. -/
theorem paste_time_origin (back forw np : Path) (ov : Bool) (ml : Option Int)
    (h : paste back forw ov ml = .ok np) :
    np.timeOrigin = back.timeOrigin - (back.frames.length : Int) + 1 := by
  cases hc : pasteMaxlen back.maxlen forw.maxlen ml with
  | error e => simp [paste, hc] at h
  | ok cap =>
    rw [paste_closed back forw ov ml cap hc] at h
    injection h with h
    subst h
    rfl

/-- **paste shares references**: every frame of the pasted path IS a frame object of one of the two
    segments, so a field assignment through the pasted path is seen through the segment (and vice
    versa). This is the precise list of sharing for `paste_paths`. -/
theorem paste_shares_refs (back forw np : Path) (ov : Bool) (ml : Option Int)
    (h : paste back forw ov ml = .ok np) :
    ∀ r ∈ np.frames, r ∈ back.frames ∨ r ∈ forw.frames := by
  intro r hr
  rw [(paste_order back forw np ov ml h).2.1] at hr
  have hr' : r ∈ pasteSeq back forw ov := by
    cases hm : np.maxlen with
    | none => simpa [capTake, hm] using hr
    | some m => rw [hm] at hr; exact List.mem_of_mem_take hr
  unfold pasteSeq at hr'
  rcases List.mem_append.1 hr' with h1 | h1
  · exact Or.inl (by simpa using h1)
  · cases ov with
    | true => exact Or.inr (List.mem_of_mem_drop h1)
    | false => exact Or.inr h1

example :
    let back : Path := { Path.empty (some 10) 7 with frames := [0, 1, 2] }
    let forw : Path := { Path.empty (some 4) 0 with frames := [0, 3, 4] }
    paste back forw true none = .ok ({ Path.empty (some 10) 5 with frames := [2, 1, 0, 3, 4] })
    ∧ (paste back forw true (some 4)).map (·.frames) = .ok [2, 1, 0, 3]
    ∧ (paste back forw false (some (-1))).map (·.frames) = .ok [] := by
  refine ⟨rfl, rfl, rfl⟩

/-- one limit `None`: the other is picked (before 960b399: `max(None, int)` raised TypeError) -/
example : (paste (Path.empty none 0) (Path.empty (some 3) 0) true none).map (·.maxlen) = .ok (some 3)
    ∧ pasteV .asIs (Path.empty none 0) (Path.empty (some 3) 0) true none = .error .type := ⟨rfl, rfl⟩


/-! ## copy, `+=`, append: what is fresh and what is shared -/

/-- **copy allocates fresh references**: the frames of `p.copy()` are the next unused references,
    as many as the limit admits. -/
theorem copy_frames_fresh (h : Heap) (p : Path) (hwf : WF h p.frames) :
    (Path.copy h p).2.frames = List.range' h.sys.length (capLen p.maxlen p.frames.length) := by
  have := copyEach_frames id false p.frames h (Path.empty p.maxlen 0) hwf
  show (copyEach id false h (Path.empty p.maxlen 0) p.frames).2.frames = _
  rw [this, room_empty]; simp

/-- **copy carries the same values** (shallow: the whole System record including the identity of its
    `order` list object), truncated at the limit, and the attributes `status`, `time_origin`,
    `generated`, `maxlen`, `path_number`, `weights`; `weight` is NOT carried (stays 0). -/
theorem copy_values (h : Heap) (p : Path) (hwf : WF h p.frames) :
    (Path.copy h p).2.frames.map (Path.copy h p).1.look = capTake p.maxlen (p.frames.map h.look)
    ∧ (Path.copy h p).2.maxlen = p.maxlen ∧ (Path.copy h p).2.status = p.status
    ∧ (Path.copy h p).2.timeOrigin = p.timeOrigin ∧ (Path.copy h p).2.generated = p.generated
    ∧ (Path.copy h p).2.pathNumber = p.pathNumber ∧ (Path.copy h p).2.weights = p.weights
    ∧ (Path.copy h p).2.weight = 0 := by
  refine ⟨?_, rfl, rfl, rfl, rfl, rfl, rfl, ?_⟩
  · rw [copy_frames_fresh h p hwf]
    have := copyEach_new_looks id false p.frames h (Path.empty p.maxlen 0) hwf
    rw [room_empty] at this
    show List.map (copyEach id false h (Path.empty p.maxlen 0) p.frames).1.look _ = _
    rw [this, ← take_capLen, List.length_map, List.map_take]
    simp
  · show (copyEach id false h (Path.empty p.maxlen 0) p.frames).2.weight = 0
    rw [copyEach_frames id false p.frames h (Path.empty p.maxlen 0) hwf]; rfl

/-- objects that existed before `p.copy()` are untouched by it -/
theorem copy_old_untouched (h : Heap) (p : Path) (hwf : WF h p.frames) (r : Nat) (hr : r < h.sys.length) :
    (Path.copy h p).1.look r = h.look r :=
  copyEach_old id false p.frames h (Path.empty p.maxlen 0) hwf r hr

/-- **copy_independent.** After `p' = p.copy()`, re-assigning ANY field of ANY frame of `p'` leaves
    every object that existed before the copy — in particular every frame of `p` — exactly as it
    was. -/
theorem copy_independent (h : Heap) (p : Path) (hwf : WF h p.frames)
    (r' : Nat) (hr' : r' ∈ (Path.copy h p).2.frames) (fld : Field) :
    (∀ r, r < h.sys.length → (assignField (Path.copy h p).1 r' fld).look r = h.look r)
    ∧ (∀ r ∈ p.frames, (assignField (Path.copy h p).1 r' fld).look r = h.look r) := by
  rw [copy_frames_fresh h p hwf] at hr'
  have hge : h.sys.length ≤ r' := (List.mem_range'_1.1 hr').1
  have key : ∀ r, r < h.sys.length → (assignField (Path.copy h p).1 r' fld).look r = h.look r := by
    intro r hr
    rw [assignField_look_ne _ r r' fld (by omega)]
    exact copy_old_untouched h p hwf r hr
  exact ⟨key, fun r hr => key r (hwf r hr)⟩

/-- The independence is that of a SHALLOW copy: it does not extend to in-place mutation of the
    shared `order` list (`copy.frames[0].order[0] = 9` is seen through the original). -/
theorem copy_inplace_counterexample :
    let v : Vals := { config := (0, 0), order := [1], velRev := false, ekin := none, vpot := none,
                      pos := 0, vel := 0, box := 0, temp := 0 }
    let h : Heap := { sys := [{ v := v, orderObj := 0 }], nOrd := 1 }
    let p : Path := { Path.empty none 0 with frames := [0] }
    (Path.copy h p).2.frames = [1]
    ∧ (((Path.copy h p).1.setItem0 1 9).bind (fun h' => h'.look 0)).map (·.v.order) = some [9]
    ∧ (h.look 0).map (·.v.order) = some [1] := by
  refine ⟨rfl, rfl, rfl⟩

/-- **`+=` keeps its own frames and adds fresh copies**: the frames already in `self` stay the same
    references; as many copies of `other`'s frames as the limit admits are appended under fresh
    references, with the same values. -/
theorem iadd_frames (h : Heap) (self other : Path) (hwf : WF h other.frames) :
    (Path.iadd h self other).2
        = self.withFrames (self.frames ++ List.range' h.sys.length (room self other.frames.length))
    ∧ (List.range' h.sys.length (room self other.frames.length)).map (Path.iadd h self other).1.look
        = (other.frames.take (room self other.frames.length)).map h.look
    ∧ (∀ r, r < h.sys.length → (Path.iadd h self other).1.look r = h.look r) := by
  refine ⟨copyEach_frames id true other.frames h self hwf, ?_, ?_⟩
  · have := copyEach_new_looks id true other.frames h self hwf
    unfold Path.iadd
    rw [this]; simp
  · exact fun r hr => copyEach_old id true other.frames h self hwf r hr

/-- frames added by `+=` are independent of the source path -/
theorem iadd_independent (h : Heap) (self other : Path) (hwf : WF h other.frames)
    (r' : Nat) (hr' : r' ∈ List.range' h.sys.length (room self other.frames.length)) (fld : Field) :
    ∀ r ∈ other.frames, (assignField (Path.iadd h self other).1 r' fld).look r = h.look r := by
  intro r hr
  have hge : h.sys.length ≤ r' := (List.mem_range'_1.1 hr').1
  have hlt := hwf r hr
  rw [assignField_look_ne _ r r' fld (by omega)]
  exact (iadd_frames h self other hwf).2.2 r hlt

/-- **append shares the reference**: `Path.append` stores the very object it is given (if the limit
    admits it), it never copies. -/
theorem append_shares_ref (p : Path) (r : Nat) :
    p.append r = if p.canAppend then (p.withFrames (p.frames ++ [r]), true) else (p, false) := by
  cases hc : p.canAppend with
  | true => simp [append_of_can p r hc]
  | false => simp [append_of_cannot p r hc]

example :
    let v : Vals := { config := (0, 0), order := [1], velRev := false, ekin := none, vpot := none,
                      pos := 0, vel := 0, box := 0, temp := 0 }
    let h : Heap := { sys := [{ v := v, orderObj := 0 }, { v := flipV v, orderObj := 1 }], nOrd := 2 }
    let p : Path := { Path.empty (some 5) 3 with frames := [0, 1], status := 2 }
    WF h p.frames ∧ (Path.copy h p).2.frames = [2, 3] ∧ (Path.copy h p).2.status = 2 := by
  refine ⟨?_, rfl, rfl⟩
  intro r hr
  simp at hr
  rcases hr with rfl | rfl <;> decide


/-! ## reverse

`vals h p` = the field values of the frames of `p` in heap `h`; `revVals ofn rv v` = `v` with
`vel_rev` flipped when `rev_v` and, when moreover an order function is given that is velocity
dependent, `order` re-computed by it on the flipped frame. -/

/-- **reverse_frames.** The reversed path carries the frames in reversed order (each transformed by
    `revVals`), truncated at the limit; it has the same limit and `weights`, and fresh attributes
    otherwise (`time_origin = 0`, empty status, …). -/
theorem reverse_frames (h : Heap) (p : Path) (ofn : Option OrderFn) (rv : Bool) (hwf : WF h p.frames) :
    vals (Path.reverse h p ofn rv).1 (Path.reverse h p ofn rv).2
        = capTake p.maxlen ((vals h p).reverse.map (Option.map (revVals ofn rv)))
    ∧ (Path.reverse h p ofn rv).2.maxlen = p.maxlen ∧ (Path.reverse h p ofn rv).2.weights = p.weights
    ∧ (Path.reverse h p ofn rv).2.timeOrigin = 0 ∧ (Path.reverse h p ofn rv).2.status = 0
    ∧ (Path.reverse h p ofn rv).2.generated = none ∧ (Path.reverse h p ofn rv).2.pathNumber = none
    ∧ (Path.reverse h p ofn rv).2.weight = 0 := by
  refine ⟨reverse_vals h p ofn rv hwf, ?_⟩
  rw [reverse_snd h p ofn rv hwf]
  exact ⟨rfl, rfl, rfl, rfl, rfl, rfl, rfl⟩

/-- **reverse_flags.** Frame `k` of the reversed path has the velocity flag of frame `n−1−k` of the
    original, flipped iff `rev_v`. -/
theorem reverse_flags (h : Heap) (p : Path) (ofn : Option OrderFn) (rv : Bool) (hwf : WF h p.frames) :
    (vals (Path.reverse h p ofn rv).1 (Path.reverse h p ofn rv).2).map (Option.map (·.velRev))
      = capTake p.maxlen ((vals h p).reverse.map (Option.map (fun v => v.velRev != rv))) := by
  rw [reverse_vals h p ofn rv hwf, map_capTake, List.map_map]
  congr 1
  apply List.map_congr_left
  intro o _
  cases o with
  | none => rfl
  | some v => simp [revVals_velRev]

/-- the length of the reversed path -/
theorem reverse_length (h : Heap) (p : Path) (ofn : Option OrderFn) (rv : Bool) (hwf : WF h p.frames) :
    (Path.reverse h p ofn rv).2.frames.length = capLen p.maxlen p.frames.length := by
  rw [reverse_snd h p ofn rv hwf]; simp

/-- **reverse returns an independent path**: its frames are fresh references, the objects that
    existed before are untouched by `reverse` and by any later field assignment through the
    reversed path. -/
theorem reverse_independent (h : Heap) (p : Path) (ofn : Option OrderFn) (rv : Bool) (hwf : WF h p.frames)
    (r' : Nat) (hr' : r' ∈ (Path.reverse h p ofn rv).2.frames) (fld : Field) :
    h.sys.length ≤ r'
    ∧ (∀ r, r < h.sys.length → (Path.reverse h p ofn rv).1.look r = h.look r)
    ∧ (∀ r ∈ p.frames, (assignField (Path.reverse h p ofn rv).1 r' fld).look r = h.look r) := by
  rw [reverse_snd h p ofn rv hwf] at hr'
  have hge : h.sys.length ≤ r' := (List.mem_range'_1.1 hr').1
  have hold := (reverse_heap h p ofn rv hwf).2
  refine ⟨hge, hold, ?_⟩
  intro r hr
  have := hwf r hr
  rw [assignField_look_ne _ r r' fld (by omega)]
  exact hold r this

/-- **reverse_reverse.** For a path within its limit, reversing twice (same arguments) restores the
    field values of all frames, in order. When the order parameter is re-computed (velocity
    dependent order function and `rev_v`), this needs what any order function satisfies: it does
    not read the stored `order`, and the stored `order` of the original frames is the one it
    computes. -/
theorem reverse_reverse (h : Heap) (p : Path) (ofn : Option OrderFn) (rv : Bool) (hwf : WF h p.frames)
    (hfits : capLen p.maxlen p.frames.length = p.frames.length)
    (hcons : ∀ f, ofn = some f → f.velDep = true → rv = true →
      (∀ w o, f.calcF { w with order := o } = f.calcF w)
      ∧ ∀ r ∈ p.frames, ∀ s, h.look r = some s → f.calcF s.v = s.v.order) :
    vals (Path.reverse (Path.reverse h p ofn rv).1 (Path.reverse h p ofn rv).2 ofn rv).1
         (Path.reverse (Path.reverse h p ofn rv).1 (Path.reverse h p ofn rv).2 ofn rv).2
      = vals h p := by
  have hlenv : (vals h p).length = p.frames.length := by simp [vals]
  have hml : (Path.reverse h p ofn rv).2.maxlen = p.maxlen := (reverse_frames h p ofn rv hwf).2.1
  have hwf1 : WF (Path.reverse h p ofn rv).1 (Path.reverse h p ofn rv).2.frames := by
    intro r hr
    rw [reverse_snd h p ofn rv hwf] at hr
    have := (List.mem_range'_1.1 hr).2
    have := capLen_le p.maxlen p.frames.length
    rw [(reverse_heap h p ofn rv hwf).1]
    simp only [withFrames_frames] at hr
    omega
  have h1 : vals (Path.reverse h p ofn rv).1 (Path.reverse h p ofn rv).2
      = (vals h p).reverse.map (Option.map (revVals ofn rv)) := by
    rw [reverse_vals h p ofn rv hwf]
    exact capTake_of_fits _ _ (by simpa [hlenv] using hfits)
  rw [reverse_vals _ _ ofn rv hwf1, hml, h1]
  rw [capTake_of_fits _ _ (by simpa [hlenv] using hfits)]
  rw [← List.map_reverse, List.reverse_reverse, List.map_map]
  conv => rhs; rw [← List.map_id (vals h p)]
  apply List.map_congr_left
  intro o ho
  unfold vals at ho
  obtain ⟨r, hr, rfl⟩ := List.mem_map.1 ho
  cases hl : h.look r with
  | none => rfl
  | some s =>
    simp only [Function.comp, Option.map_some, id]
    congr 1
    apply revVals_revVals
    intro f hf hvd hrv
    obtain ⟨c1, c2⟩ := hcons f hf hvd hrv
    exact ⟨c1, c2 r hr s hl⟩

/-- non-vacuity of `reverse_reverse` WITH order re-computation: the stored orders are the ones the order
    function computes (`hcons`), the path is within its limit (`hfits`); the theorem is applied -/
example :
    let v : Vals := { config := (0, 0), order := [3], velRev := false, ekin := none, vpot := none,
                      pos := 1, vel := 2, box := 0, temp := 0 }
    let w : Vals := { v with order := [3], velRev := true, pos := 5 }
    let h : Heap := { sys := [{ v := v, orderObj := 0 }, { v := w, orderObj := 1 }], nOrd := 2 }
    let p : Path := { Path.empty (some 5) 3 with frames := [0, 1] }
    let f : OrderFn := { velDep := true, calcF := fun x => [x.pos + (if x.velRev then -1 else 1) * x.vel] }
    vals (Path.reverse h p (some f) true).1 (Path.reverse h p (some f) true).2
      = [some { w with velRev := false, order := [7] }, some { v with velRev := true, order := [-1] }]
    ∧ vals (Path.reverse (Path.reverse h p (some f) true).1 (Path.reverse h p (some f) true).2 (some f) true).1
           (Path.reverse (Path.reverse h p (some f) true).1 (Path.reverse h p (some f) true).2 (some f) true).2
        = vals h p := by
  intro v w h p f
  refine ⟨rfl, ?_⟩
  apply reverse_reverse h p (some f) true
  · intro r hr
    have : r = 0 ∨ r = 1 := by simpa [p, Path.empty] using hr
    rcases this with rfl | rfl <;> decide
  · rfl
  · intro f' hf _ _
    have hf' : f = f' := Option.some.inj hf
    subst hf'
    refine ⟨fun _ _ => rfl, ?_⟩
    intro r hr s hs
    have : r = 0 ∨ r = 1 := by simpa [p, Path.empty] using hr
    rcases this with rfl | rfl
    · have : s = { v := v, orderObj := 0 } := (Option.some.inj hs).symm
      subst this; rfl
    · have : s = { v := w, orderObj := 1 } := (Option.some.inj hs).symm
      subst this; rfl

/-- **`reverse_reverse` needs `hfits`**: a path LONGER than its limit is reachable
    (`load_paths_from_disk` fills `phasepoints` directly and sets `maxlen` afterwards; `tis.py` lowers
    `maxlen` of existing paths).  On the op machine: 4 frames (orders 0,1,2,3), then the limit is set to 3:
    the first `reverse` keeps only the 3 latest frames (3,2,1), the second gives (1,2,3) — reversing
    twice does NOT restore the frames (path 0 ≠ path 2), and the state violates exactly `hfits`. -/
theorem reverse_reverse_overlimit_counterexample :
    let v : Vals := { config := (0, 0), order := [0], velRev := false, ekin := none, vpot := none,
                      pos := 0, vel := 0, box := 0, temp := 0 }
    let m := Machine.init.run [.new none 0, .sys 0 v, .sys 0 { v with order := [1] }, .sys 0 { v with order := [2] },
      .sys 0 { v with order := [3] }, .pset 0 (.maxlen (some 3)), .rev 0 none true, .rev 1 none true]
    m.paths.map (fun p => (vals m.heap p).map (Option.map (·.order)))
      = [[some [0], some [1], some [2], some [3]], [some [3], some [2], some [1]], [some [1], some [2], some [3]]]
    ∧ m.paths.map (fun p => decide (capLen p.maxlen p.frames.length = p.frames.length)) = [false, true, true]
    ∧ (∀ p0 p2, m.paths[0]? = some p0 → m.paths[2]? = some p2 → vals m.heap p2 ≠ vals m.heap p0) := by
  intro v m
  have e : m.paths.map (fun p => (vals m.heap p).map (Option.map (·.order)))
      = [[some [0], some [1], some [2], some [3]], [some [3], some [2], some [1]], [some [1], some [2], some [3]]] := by
    decide
  refine ⟨e, by decide, ?_⟩
  intro p0 p2 h0 h2 hh
  have e0 : (m.paths.map (fun p => (vals m.heap p).map (Option.map (·.order))))[0]?
      = some ((vals m.heap p0).map (Option.map (·.order))) := by rw [List.getElem?_map, h0]; rfl
  have e2 : (m.paths.map (fun p => (vals m.heap p).map (Option.map (·.order))))[2]?
      = some ((vals m.heap p2).map (Option.map (·.order))) := by rw [List.getElem?_map, h2]; rfl
  rw [e] at e0 e2
  rw [hh] at e2
  rw [← e2] at e0
  revert e0
  decide

/-- **`reverse_reverse` needs `hcons`**: when a frame's stored `order` is NOT what the (velocity
    dependent) order function computes for it — a stale value — the second reversal re-computes it, so
    the frames are not restored (stored 7, recomputed 3). -/
theorem reverse_reverse_stale_order_counterexample :
    let v : Vals := { config := (0, 0), order := [7], velRev := false, ekin := none, vpot := none,
                      pos := 1, vel := 2, box := 0, temp := 0 }
    let h : Heap := { sys := [{ v := v, orderObj := 0 }], nOrd := 1 }
    let p : Path := { Path.empty none 0 with frames := [0] }
    let f : OrderFn := { velDep := true, calcF := fun x => [x.pos + (if x.velRev then -1 else 1) * x.vel] }
    let r1 := Path.reverse h p (some f) true
    let r2 := Path.reverse r1.1 r1.2 (some f) true
    vals r2.1 r2.2 = [some { v with order := [3] }] ∧ vals h p = [some v] ∧ vals r2.1 r2.2 ≠ vals h p
    ∧ f.calcF v ≠ v.order := by
  intro v h p f r1 r2
  refine ⟨rfl, rfl, by decide, by decide⟩

/-! ## classification: ordermin / ordermax / start / end / crossing against the sequence -/

/-- **ordermin agrees with the minimum** of the sequence and reports the FIRST index attaining it
    (`np.argmin`). -/
theorem ordermin_agrees (ops : List Int) (hne : ops ≠ []) :
    ∃ v j, ordermin ops = .ok (v, j) ∧ ops[j]? = some v ∧ (∀ x ∈ ops, v ≤ x)
      ∧ (∀ k y, k < j → ops[k]? = some y → v < y) := by
  cases ops with
  | nil => exact absurd rfl hne
  | cons a t => exact ⟨_, _, rfl, ordermin_isFirstMin a t⟩

/-- **ordermax agrees with the maximum** of the sequence and reports the FIRST index attaining it. -/
theorem ordermax_agrees (ops : List Int) (hne : ops ≠ []) :
    ∃ v j, ordermax ops = .ok (v, j) ∧ ops[j]? = some v ∧ (∀ x ∈ ops, x ≤ v)
      ∧ (∀ k y, k < j → ops[k]? = some y → y < v) := by
  cases ops with
  | nil => exact absurd rfl hne
  | cons a t => exact ⟨_, _, rfl, ordermax_isFirstMax a t⟩

/-- empty path: `np.argmin([])` raises ValueError, `phasepoints[0]` IndexError (after the assertion),
    `check_interfaces` warns and returns `(None, None, "*", [False, …])` for any interface list. -/
theorem empty_path_behaviour (intf : List Int) (left : Int) (right : Option Int) :
    ordermin [] = .error .value ∧ ordermax [] = .error .value
    ∧ checkInterfaces [] intf = .ok ⟨none, none, false, intf.map (fun _ => false)⟩
    ∧ (startPoint [] left right = .error .index ∨ startPoint [] left right = .error .assert)
    ∧ (endPoint [] left right = .error .index ∨ endPoint [] left right = .error .assert) := by
  refine ⟨rfl, rfl, rfl, ?_, ?_⟩
  · cases right with
    | none => left; simp [startPoint]
    | some r => by_cases h : left ≤ r <;> simp [startPoint, h]
  · cases right with
    | none => left; simp [endPoint]
    | some r => by_cases h : left ≤ r <;> simp [endPoint, h]

/-- **start / end point** for `left ≤ right` (`right = None` means `right = left`): `L` iff the
    first (last) value is `≤ left`, `R` iff it is `> left` and `≥ right`, undefined strictly between;
    values EQUAL to an interface count as beyond it. `left > right` raises AssertionError. -/
theorem start_end_agree (ops : List Int) (first last : Int) (left : Int) (right : Option Int) (r : Int)
    (hr : right = some r ∨ (right = none ∧ r = left))
    (hf : ops.head? = some first) (hl : ops.getLast? = some last) :
    (left ≤ r →
      startPoint ops left right = .ok (if first ≤ left then .L else if r ≤ first then .R else .U)
      ∧ endPoint ops left right = .ok (if last ≤ left then .L else if r ≤ last then .R else .U))
    ∧ (r < left → startPoint ops left right = .error .assert ∧ endPoint ops left right = .error .assert) := by
  rcases hr with rfl | ⟨rfl, rfl⟩
  · constructor
    · intro hle
      simp [startPoint, endPoint, sideOf, hf, hl, hle]
    · intro hlt
      simp only [startPoint, endPoint, if_neg (by omega : ¬ left ≤ r)]
      exact ⟨trivial, trivial⟩
  · constructor
    · intro hle
      simp [startPoint, endPoint, sideOf, hf, hl]
    · intro hlt; omega

/-- **classification_agrees.** For every non-empty order sequence and every interface list with at
    least two members (in particular every triple, in any order, with or without equal members):
    `check_interfaces` succeeds and
    * `cross[k]` is true iff some frame lies strictly below interface `k` and some frame lies at or
      above it (i.e. `min < λ_k ≤ max`),
    * `middle` is `"M"` iff `cross[1]`,
    * start is `L` iff the first value is `≤` every interface, `R` iff it is not `L` and `≥` every
      interface, else `?`; the same for the end point with the last value. -/
theorem classification_agrees (ops intf : List Int) (first last : Int)
    (hf : ops.head? = some first) (hl : ops.getLast? = some last) (h2 : 2 ≤ intf.length) :
    ∃ c, checkInterfaces ops intf = .ok c
      ∧ c.cross = intf.map (fun lam => decide ((∃ x ∈ ops, x < lam) ∧ (∃ y ∈ ops, lam ≤ y)))
      ∧ (c.middle = true ↔ c.cross[1]? = some true)
      ∧ (c.start = some .L ↔ ∀ lam ∈ intf, first ≤ lam)
      ∧ (c.start = some .R ↔ (¬ ∀ lam ∈ intf, first ≤ lam) ∧ ∀ lam ∈ intf, lam ≤ first)
      ∧ c.start ≠ none
      ∧ (c.end_ = some .L ↔ ∀ lam ∈ intf, last ≤ lam)
      ∧ (c.end_ = some .R ↔ (¬ ∀ lam ∈ intf, last ≤ lam) ∧ ∀ lam ∈ intf, lam ≤ last)
      ∧ c.end_ ≠ none := by
  cases ops with
  | nil => simp at hf
  | cons a t =>
    match intf, h2 with
    | i0 :: i1 :: rest, _ =>
      obtain ⟨lo, hi, left, right, last', jmin, jmax, hmin, hmax, hleft, hright, hlast, hc⟩ :=
        check_closed a t i0 i1 rest
      have hfa : first = a := by simpa using hf.symm
      have hla : last = last' := by rw [hl] at hlast; exact Option.some.inj hlast
      subst hfa; subst hla
      have smin := ordermin_isFirstMin first t
      have smax := ordermax_isFirstMax first t
      have elo : lo = (argminGo first 0 1 t).1 := by
        have : Except.ok (argminGo first 0 1 t) = Except.ok (lo, jmin) := hmin
        injection this with this; rw [this]
      have ehi : hi = (argmaxGo first 0 1 t).1 := by
        have : Except.ok (argmaxGo first 0 1 t) = Except.ok (hi, jmax) := hmax
        injection this with this; rw [this]
      rw [← elo] at smin; rw [← ehi] at smax
      have lo_mem : lo ∈ first :: t := List.mem_of_getElem? smin.1
      have hi_mem : hi ∈ first :: t := List.mem_of_getElem? smax.1
      have sl := minList_spec _ _ hleft
      have sr := maxList_spec _ _ hright
      -- the two characterisations used everywhere
      have cross_iff : ∀ lam : Int, (decide (lo < lam) && decide (lam ≤ hi)) =
          decide ((∃ x ∈ first :: t, x < lam) ∧ (∃ y ∈ first :: t, lam ≤ y)) := by
        intro lam
        rw [Bool.eq_iff_iff]
        simp only [Bool.and_eq_true, decide_eq_true_eq]
        constructor
        · rintro ⟨h1, h2⟩; exact ⟨⟨lo, lo_mem, h1⟩, ⟨hi, hi_mem, h2⟩⟩
        · rintro ⟨⟨x, hx, h1⟩, ⟨y, hy, h2⟩⟩
          have := smin.2.1 x hx; have := smax.2.1 y hy
          constructor <;> omega
      have side_L : ∀ x : Int, sideOf left right x = .L ↔ ∀ lam ∈ i0 :: i1 :: rest, x ≤ lam := by
        intro x
        unfold sideOf
        constructor
        · intro h lam hlam
          have := sl.2 lam hlam
          by_cases hx : x ≤ left
          · omega
          · rw [if_neg hx] at h; split at h <;> cases h
        · intro h
          rw [if_pos (h left sl.1)]
      have side_R : ∀ x : Int, sideOf left right x = .R ↔
          (¬ ∀ lam ∈ i0 :: i1 :: rest, x ≤ lam) ∧ ∀ lam ∈ i0 :: i1 :: rest, lam ≤ x := by
        intro x
        unfold sideOf
        constructor
        · intro h
          by_cases hx : x ≤ left
          · rw [if_pos hx] at h; cases h
          · rw [if_neg hx] at h
            by_cases hx2 : x ≥ right
            · refine ⟨fun hall => hx (hall left sl.1), fun lam hlam => ?_⟩
              have := sr.2 lam hlam; omega
            · rw [if_neg hx2] at h; cases h
        · rintro ⟨h1, h2⟩
          have hx : ¬ x ≤ left := by
            intro hx; apply h1; intro lam hlam; have := sl.2 lam hlam; omega
          rw [if_neg hx, if_pos (h2 right sr.1)]
      refine ⟨_, hc, ?_, ?_, ?_, ?_, ?_, ?_, ?_, ?_⟩
      · simp only
        apply List.map_congr_left
        intro lam _
        exact cross_iff lam
      · simp
      · simp only [Option.some.injEq]; exact side_L first
      · simp only [Option.some.injEq]; exact side_R first
      · simp
      · simp only [Option.some.injEq]; exact side_L last
      · simp only [Option.some.injEq]; exact side_R last
      · simp

/-- fewer than two interfaces on a non-empty path: `min([])` raises ValueError, `cross[1]` IndexError -/
theorem check_short_interfaces (a : Int) (t : List Int) (i0 : Int) :
    checkInterfaces (a :: t) [] = .error .value ∧ checkInterfaces (a :: t) [i0] = .error .index := by
  constructor
  · unfold checkInterfaces
    rw [if_neg (by simp)]
    simp [ordermax, ordermin, minList]
  · obtain ⟨last, hlast⟩ : ∃ last, (a :: t).getLast? = some last := by
      cases h : (a :: t).getLast? with
      | none => simp at h
      | some x => exact ⟨x, rfl⟩
    unfold checkInterfaces
    rw [if_neg (by simp)]
    simp [ordermax, ordermin, minList, maxList, endPoint, startPoint, hlast]

/-- **a path from the left of all interfaces to the right of all interfaces crosses every interface
    above the lowest one** (start/end classification and crossing flags are mutually consistent). -/
theorem left_to_right_crosses (ops intf : List Int) (first last : Int) (c : Check)
    (hf : ops.head? = some first) (hl : ops.getLast? = some last) (h2 : 2 ≤ intf.length)
    (hc : checkInterfaces ops intf = .ok c) (hs : c.start = some .L) (he : c.end_ = some .R)
    (k : Nat) (lam : Int) (hk : intf[k]? = some lam) (hlow : ∃ mu ∈ intf, mu < lam) :
    c.cross[k]? = some true := by
  obtain ⟨c', hc', hcross, _, hL, _, _, _, hR, _⟩ := classification_agrees ops intf first last hf hl h2
  have : c' = c := by rw [hc] at hc'; injection hc' with h; exact h.symm
  subst this
  rw [hcross, List.getElem?_map, hk]
  simp only [Option.map_some, Option.some.injEq, decide_eq_true_eq]
  obtain ⟨mu, hmu, hlt⟩ := hlow
  have hfm : first ∈ ops := List.mem_of_mem_head? hf
  have hlm : last ∈ ops := List.mem_of_mem_getLast? hl
  have h1 := (hL.1 hs) mu hmu
  have h3 := (hR.1 he).2 lam (List.mem_of_getElem? hk)
  exact ⟨⟨first, hfm, by omega⟩, ⟨last, hlm, h3⟩⟩

/-- **one-frame path**: minimum = maximum = the frame (index 0); no interface is crossed. -/
theorem one_frame_path (x : Int) (intf : List Int) (h2 : 2 ≤ intf.length) :
    ordermin [x] = .ok (x, 0) ∧ ordermax [x] = .ok (x, 0)
    ∧ ∃ c, checkInterfaces [x] intf = .ok c ∧ c.cross = intf.map (fun _ => false) ∧ c.middle = false := by
  refine ⟨rfl, rfl, ?_⟩
  obtain ⟨c, hc, hcross, hmid, _⟩ := classification_agrees [x] intf x x rfl rfl h2
  have hcr : c.cross = intf.map (fun _ => false) := by
    rw [hcross]
    apply List.map_congr_left
    intro lam _
    simp only [List.mem_singleton, exists_eq_left, decide_eq_false_iff_not]
    omega
  refine ⟨c, hc, hcr, ?_⟩
  cases hm : c.middle with
  | false => rfl
  | true =>
    have := hmid.1 hm
    rw [hcr, List.getElem?_map] at this
    cases h : intf[1]? <;> simp [h] at this

example : checkInterfaces [1, 2, 3] [2, 0, 1] = .ok ⟨some .U, some .R, false, [true, false, false]⟩
    ∧ ordermin [1, 1, 0, 0, 2, 2] = .ok (0, 2) ∧ ordermax [1, 1, 0, 0, 2, 2] = .ok (2, 4)
    ∧ checkInterfaces [0, 1, 2] [0, 1, 2] = .ok ⟨some .L, some .R, true, [false, true, true]⟩ := by
  refine ⟨rfl, rfl, rfl, rfl⟩


/-! ## the `WF` hypotheses hold on every reachable state -/

/-- **Every state reachable by any op program** (new / append a new System / append a shared frame /
    `+=` / copy / reverse / paste / field assignment / in-place `order[0]` / path attribute
    assignment) is well formed: every frame of every path is a valid reference. So the `WF`
    hypotheses of the theorems above are met by every path the tie's programs can build. -/
theorem reachable_wf (ops : List Op) : ∀ p ∈ (Machine.init.run ops).paths, WF (Machine.init.run ops).heap p.frames :=
  run_wf ops Machine.init (fun p hp => by simp [Machine.init] at hp)

example : (Machine.init.run [.new (some 3) 0, .sys 0 default, .sys 0 default, .copy 0, .paste 0 1 true none,
      .rev 2 none true]).paths.map (·.frames) = [[0, 1], [2, 3], [1, 0, 3], [4, 5, 6]] := by
  rfl


/-! ## classification has no memory: it is a function of the order values the frames hold NOW -/

/-- **success agrees with the maximum**: `success(target)` iff some frame lies strictly above. -/
theorem success_agrees (ops : List Int) (t : Int) (hne : ops ≠ []) :
    ∃ b, success ops t = .ok b ∧ (b = true ↔ ∃ y ∈ ops, t < y) := by
  obtain ⟨v, j, hv, hj, hall, _⟩ := ordermax_agrees ops hne
  refine ⟨decide (v > t), by simp [success, hv], ?_⟩
  simp only [decide_eq_true_eq]
  constructor
  · intro h; exact ⟨v, List.mem_of_getElem? hj, h⟩
  · rintro ⟨y, hy, h⟩; have := hall y hy; omega

/-- **The classification of a path object reads the current frames**: whenever every frame has an
    order value, all six methods answer `classifySeq` of the sequence `[pp.order[0] for pp in
    phasepoints]` as it is in the heap at the time of the call — whatever was asked before. -/
theorem classify_reads_current_orders (h : Heap) (p : Path) (intf : List Int) (t : Int) (seq : List Int)
    (hs : orderSeq h p = some seq) : Path.classify h p intf t = classifySeq seq intf t := by
  simp [Path.classify, hs]

/-- asking for a classification changes neither the heap nor any path (no cache, no side effect) -/
theorem classify_pure (m : Machine) (i : Nat) (intf : List Int) (t : Int) :
    (m.step (.classify i intf t)).heap = m.heap ∧ (m.step (.classify i intf t)).paths = m.paths := by
  simp only [Machine.step]
  cases m.paths[i]? <;> exact ⟨rfl, rfl⟩

/-- **classify ∘ applyOps = classifySeq ∘ orders ∘ applyOps.** After ANY op program (including earlier
    classifications, in-place `order` re-assignment, frame replacement, the extender-style
    `phasepoints[:-1] + seg`, `+=`, append, delete, reverse, copy, paste) a classification of path
    `i` reports exactly `classifySeq` of the order sequence path `i` holds at that moment. -/
theorem classify_after_any_program (prog : List Op) (i : Nat) (p : Path) (intf : List Int) (t : Int)
    (seq : List Int) (hp : (Machine.init.run prog).paths[i]? = some p)
    (hs : orderSeq (Machine.init.run prog).heap p = some seq) :
    ((Machine.init.run prog).step (.classify i intf t)).log.getLast?
      = some (showCls (classifySeq seq intf t)) := by
  simp only [Machine.step, hp, Machine.say, List.getLast?_append, List.getLast?_singleton,
    classify_reads_current_orders _ p intf t seq hs]
  rfl

example :
    let v : Vals := { config := (0, 0), order := [0], velRev := false, ekin := none, vpot := none,
                      pos := 0, vel := 0, box := 0, temp := 0 }
    (Machine.init.run [.new (some 9) 0, .sys 0 v, .sys 0 { v with order := [1] }, .sys 0 { v with order := [3] },
        .classify 0 [0, 2, 4] 2, .set 0 2 (.order [5]), .classify 0 [0, 2, 4] 2]).log.drop 4
      = ["min=0,0;max=3,2;chk=L,None,M,010;suc=True;sp=L;ep=None", "set",
         "min=0,0;max=5,2;chk=L,R,M,011;suc=True;sp=L;ep=R"] := by
  rfl


/-! ## limits: exactly at the limit, one below, one above, and no limit at all -/

/-- **paste at the limit.** Nothing is lost iff there is no limit or the offered frames fit
    (`total ≤ maxlen`, so `total = maxlen` keeps everything); otherwise exactly the first `maxlen`
    frames are kept (so `total = maxlen + 1` drops exactly the last forward frame). -/
theorem paste_truncation (back forw np : Path) (ov : Bool) (ml : Option Int)
    (h : paste back forw ov ml = .ok np) :
    (np.frames = pasteSeq back forw ov ↔
        np.maxlen = none ∨ ∃ m, np.maxlen = some m ∧ (pasteSeq back forw ov).length ≤ m.toNat)
    ∧ (∀ m, np.maxlen = some m → np.frames = (pasteSeq back forw ov).take m.toNat) := by
  have hf := (paste_order back forw np ov ml h).2.1
  constructor
  · cases hm : np.maxlen with
    | none => rw [hm] at hf; simp [hf, capTake]
    | some m =>
      rw [hm] at hf
      simp only [capTake] at hf
      rw [hf]
      simp only [reduceCtorEq, Option.some.injEq, exists_eq_left', false_or]
      constructor
      · intro he
        have := congrArg List.length he
        rw [List.length_take] at this
        omega
      · exact fun hle => List.take_of_length_le hle
  · intro m hm
    rw [hm] at hf
    exact hf

/-- **unlimited paths (`maxlen=None`) are never truncated** by copy, reverse, `+=` or by pasting two
    unlimited segments, and the result is again unlimited. -/
theorem unlimited_never_truncates (h : Heap) (p q : Path) (ofn : Option OrderFn) (rv ov : Bool)
    (hp : p.maxlen = none) (hq : q.maxlen = none) (hwp : WF h p.frames) (hwq : WF h q.frames) :
    ((Path.copy h p).2.frames.map (Path.copy h p).1.look = p.frames.map h.look ∧ (Path.copy h p).2.maxlen = none)
    ∧ (vals (Path.reverse h p ofn rv).1 (Path.reverse h p ofn rv).2
          = (vals h p).reverse.map (Option.map (revVals ofn rv)) ∧ (Path.reverse h p ofn rv).2.maxlen = none)
    ∧ (Path.iadd h p q).2.frames.length = p.frames.length + q.frames.length
    ∧ paste p q ov none = .ok ((Path.empty none (p.timeOrigin - (p.frames.length : Int) + 1)).withFrames
          (pasteSeq p q ov)) := by
  refine ⟨?_, ?_, ?_, ?_⟩
  · have := copy_values h p hwp
    rw [hp] at this
    exact ⟨this.1, this.2.1⟩
  · have := reverse_frames h p ofn rv hwp
    rw [hp] at this
    exact ⟨this.1, this.2.1⟩
  · rw [(iadd_frames h p q hwq).1, room_none p _ hp]
    simp
  · have hc : pasteMaxlen p.maxlen q.maxlen none = .ok none := by rw [hp, hq]; rfl
    rw [paste_closed p q ov none none hc]
    rfl

example :
    let back : Path := { Path.empty none 0 with frames := [0, 1] }
    let forw : Path := { Path.empty none 0 with frames := [0, 2] }
    (paste back forw true (some 3)).map (·.frames) = .ok [1, 0, 2]       -- total = maxlen
    ∧ (paste back forw true (some 2)).map (·.frames) = .ok [1, 0]        -- total = maxlen + 1
    ∧ (paste back forw true (some 4)).map (·.frames) = .ok [1, 0, 2]     -- total = maxlen − 1
    ∧ (paste back forw false none).map (·.frames) = .ok [1, 0, 0, 2]    -- two unlimited segments, no overlap
    ∧ (paste back forw false none).map (·.maxlen) = .ok none := by
  refine ⟨rfl, rfl, rfl, rfl, rfl⟩


/-! ## extension pass: container objects (numpy arrays, dict, order list): shallow copies share them -/

/-- **Every reachable heap keeps container identities fresh**: on every state any op program can reach,
    every container object (order list, pos / vel / box array, temperature dict) held by any System is
    older than the next identity the machine will hand out — so "a fresh object" in the model really is
    an object nobody else holds. -/
theorem reachable_fresh (ops : List Op) : (Machine.init.run ops).heap.Fresh :=
  run_fresh ops Machine.init (fun p hp => by simp [Machine.init] at hp)
    (fun s hs => by simp [Machine.init, Heap.empty] at hs)

/-- **In-place mutation is seen by exactly the sharers.**  `frame.pos[0] = x` (likewise `vel`, `box`,
    `temperature["t"]`) through reference `r`: a System shows the new value iff it holds the same
    container object as `r`; every other System, every other field and all identities stay. -/
theorem inplace_seen_by_sharers (h : Heap) (r : Nat) (a : Arr) (x : Int) (s : Sys) (hs : h.look r = some s) :
    ∃ h', h.setArrItem r a x = some h' ∧
      ∀ r', h'.look r' = (h.look r').map
        (fun s' => if s'.arrObj a = s.arrObj a then { s' with v := s'.v.setArr a x } else s') := by
  obtain ⟨h', h1, _, _, h4⟩ := setArrItem_spec h r a x s hs
  exact ⟨h', h1, h4⟩

/-- **copy() is shallow for every container field** (general form of `copy_inplace_counterexample`):
    for every path, every frame position `k` the copy has, and every container field, an in-place
    mutation through frame `k` of the COPY is seen through frame `k` of the ORIGINAL (they are
    different System objects holding the same arrays). The property's independence is about
    re-assignment only. -/
theorem copy_inplace_seen_by_original (h : Heap) (p : Path) (hwf : WF h p.frames) (k r r' : Nat)
    (hr : p.frames[k]? = some r) (hr' : (Path.copy h p).2.frames[k]? = some r') (a : Arr) (x : Int) :
    r ≠ r' ∧ ∃ h2, (Path.copy h p).1.setArrItem r' a x = some h2
      ∧ (h2.look r).map (fun s => s.v.arr a) = some x
      ∧ (h2.look r').map (fun s => s.v.arr a) = some x := by
  have hrl : r < h.sys.length := hwf r (List.mem_of_getElem? hr)
  have hfr := copy_frames_fresh h p hwf
  have hr'mem : r' ∈ List.range' h.sys.length (capLen p.maxlen p.frames.length) := by
    rw [← hfr]; exact List.mem_of_getElem? hr'
  have hge : h.sys.length ≤ r' := (List.mem_range'_1.1 hr'mem).1
  have hold : (Path.copy h p).1.look r = h.look r := copy_old_untouched h p hwf r hrl
  -- the copy's frame k holds the same record as the original's frame k
  have hsame : (Path.copy h p).1.look r' = h.look r := by
    have hv := (copy_values h p hwf).1
    have e1 : ((Path.copy h p).2.frames.map (Path.copy h p).1.look)[k]? = some ((Path.copy h p).1.look r') := by
      rw [List.getElem?_map, hr']; rfl
    rw [hv] at e1
    have e2 := capTake_getElem?_of_some _ _ _ _ e1
    rw [List.getElem?_map, hr] at e2
    exact (Option.some.inj e2).symm
  obtain ⟨s, hs⟩ : ∃ s, h.look r = some s := ⟨_, look_of_lt h r hrl⟩
  obtain ⟨h2, h21, _, _, h24⟩ := setArrItem_spec (Path.copy h p).1 r' a x s (hsame.trans hs)
  refine ⟨by omega, h2, h21, ?_, ?_⟩
  · rw [h24 r, hold, hs]; simp [setArr_arr]
  · rw [h24 r', hsame, hs]; simp [setArr_arr]

/-- **Re-assignment un-shares.**  On a heap with fresh identities (every reachable heap, by
    `reachable_fresh`): once a container field of a frame has been RE-ASSIGNED (`frame.pos = new_array`),
    even in-place mutation of that field through this frame touches no other object. -/
theorem reassign_makes_private (h : Heap) (hf : h.Fresh) (r' : Nat) (s : Sys) (hs : h.look r' = some s)
    (a : Arr) (x y : Int) :
    ∃ h2, (h.setArr r' a x).setArrItem r' a y = some h2
      ∧ (∀ r, r ≠ r' → h2.look r = h.look r)
      ∧ (h2.look r').map (fun s => s.v.arr a) = some y := by
  have hself := setArr_look_self h r' a x s hs
  obtain ⟨h2, h21, _, _, h24⟩ := setArrItem_spec (h.setArr r' a x) r' a y _ hself
  refine ⟨h2, h21, ?_, ?_⟩
  · intro r hne
    rw [h24 r, setArr_look_ne h r r' a x hne]
    cases hl : h.look r with
    | none => rfl
    | some s0 =>
      have hlt := (hf s0 (look_mem h r s0 hl)).2 a
      simp only [Option.map_some, withArrObj_arrObj_self]
      rw [if_neg (by omega)]
  · rw [h24 r', hself]
    simp [withArrObj_arrObj_self, withArrObj_v, setArr_arr]

example :
    let v : Vals := { config := (0, 0), order := [1], velRev := false, ekin := none, vpot := none,
                      pos := 3, vel := 0, box := 0, temp := 0 }
    let m := Machine.init.run [.new none 0, .sys 0 v, .copy 0, .setArrItem 1 0 .pos 9]
    -- the original frame (reference 0) sees pos = 9 written through the copy (reference 1)
    (m.heap.look 0).map (·.v.pos) = some 9 ∧ m.paths.map (·.frames) = [[0], [1]]
    -- after re-assigning pos on the copy first, the original keeps 3
    ∧ ((Machine.init.run [.new none 0, .sys 0 v, .copy 0, .set 1 0 (.pos 5), .setArrItem 1 0 .pos 9]).heap.look 0).map
        (·.v.pos) = some 3 := by
  refine ⟨rfl, rfl, rfl⟩


/-! ## `Path.__eq__` / `__ne__` -/

/-- **What `==` on paths means** (same class, same attribute names, every frame has an order value):
    the two paths hold the SAME frame objects in the same order (`System` has no `__eq__`, so frames are
    compared by identity) and — unless they are empty — agree on `maxlen`, `time_origin`, `status`,
    `generated`, `path_number`.  `weights` / `weight` play no role; two empty paths are always equal. -/
theorem eq_spec (h : Heap) (p q : Path) (seq : List Int) (hs : orderSeq h p = some seq) :
    Path.eq true true h p q = .ok (decide (p.frames = q.frames ∧ (p.frames = [] ∨
      (p.maxlen = q.maxlen ∧ p.timeOrigin = q.timeOrigin ∧ p.status = q.status
        ∧ p.generated = q.generated ∧ p.pathNumber = q.pathNumber)))) := by
  unfold Path.eq
  simp only [Bool.not_true, Bool.false_eq_true, if_false]
  by_cases hlen : p.frames.length = q.frames.length
  · have hid := framesIdentical_iff p.frames q.frames hlen
    by_cases hfr : p.frames = q.frames
    · have hq : orderSeq h q = some seq := by rw [← orderSeq_congr h p q hfr]; exact hs
      simp only [hlen, bne_self_eq_false, Bool.false_eq_true, if_false, hid.2 hfr, Bool.not_true]
      by_cases hemp : p.frames = []
      · simp [hemp, hfr ▸ hemp]
      · have hne : seq ≠ [] := by
          intro hh
          have := orderSeq_length h p seq hs
          rw [hh] at this
          exact hemp (List.length_eq_zero_iff.1 this.symm)
        have hsv := showViEq_self_ok seq hne
        have hemp' : p.frames.isEmpty = false := by
          cases hpf : p.frames with
          | nil => exact absurd hpf hemp
          | cons _ _ => rfl
        have hempq : ¬ q.frames = [] := fun hh => hemp (hfr.trans hh)
        simp only [hemp', Bool.false_eq_true, if_false, hs, hq, hsv.1, hsv.2, Bool.not_true]
        by_cases h1 : p.maxlen = q.maxlen <;> by_cases h2 : p.timeOrigin = q.timeOrigin <;>
          by_cases h3 : p.status = q.status <;> by_cases h4 : p.generated = q.generated <;>
          by_cases h5 : p.pathNumber = q.pathNumber <;> simp [h1, h2, h3, h4, h5, hfr, hempq]
    · have : framesIdentical p.frames q.frames = false := by
        cases hfi : framesIdentical p.frames q.frames with
        | false => rfl
        | true => exact absurd (hid.1 hfi) hfr
      simp [hlen, this, hfr]
  · have hfr : p.frames ≠ q.frames := fun hh => hlen (by rw [hh])
    simp [hlen, hfr]

/-- `!=` is the negation of `==` (including the exception) -/
theorem ne_is_not_eq (c k : Bool) (h : Heap) (p q : Path) :
    Path.ne c k h p q = (Path.eq c k h p q).map (fun b => !b) := by
  unfold Path.ne
  cases Path.eq c k h p q <;> rfl

/-- **A non-empty path never compares equal to its own copy** (nor does the copy to the original): the
    copy holds fresh System objects, and `__eq__` compares frames by identity.  Equality of paths in
    infretis is therefore identity of frames, not equality of content. -/
theorem copy_never_equal (h : Heap) (p : Path) (hwf : WF h p.frames) (hne : p.frames ≠ []) :
    Path.eq true true (Path.copy h p).1 p (Path.copy h p).2 = .ok false
    ∧ Path.eq true true (Path.copy h p).1 (Path.copy h p).2 p = .ok false := by
  have hfr := copy_frames_fresh h p hwf
  have hdiff : p.frames ≠ (Path.copy h p).2.frames := by
    intro hh
    cases hpf : p.frames with
    | nil => exact hne hpf
    | cons r rs =>
      have hr : r < h.sys.length := hwf r (by simp [hpf])
      rw [hfr, hpf] at hh
      cases hn : capLen p.maxlen (r :: rs).length with
      | zero => rw [hn] at hh; simp at hh
      | succ n =>
        rw [hn, List.range'_succ] at hh
        injection hh with h1 _
        omega
  have key : ∀ a b : Path, a.frames ≠ b.frames → Path.eq true true (Path.copy h p).1 a b = .ok false := by
    intro a b hab
    unfold Path.eq
    simp only [Bool.not_true, Bool.false_eq_true, if_false]
    by_cases hlen : a.frames.length = b.frames.length
    · have : framesIdentical a.frames b.frames = false := by
        cases hfi : framesIdentical a.frames b.frames with
        | false => rfl
        | true => exact absurd ((framesIdentical_iff _ _ hlen).1 hfi) hab
      simp [hlen, this]
    · simp [hlen]
  exact ⟨key _ _ hdiff, key _ _ (fun hh => hdiff hh.symm)⟩

example :
    let v : Vals := { config := (0, 0), order := [1], velRev := false, ekin := none, vpot := none,
                      pos := 0, vel := 0, box := 0, temp := 0 }
    (Machine.init.run [.new (some 9) 0, .sys 0 v, .copy 0, .eq 0 1, .eq 0 0, .new (some 9) 0, .app 2 0 0, .eq 0 2,
        .pset 2 (.weights (some 5)), .eq 0 2, .pset 2 (.status 1), .eq 0 2, .ne 0 2]).log
      = ["new", "True", "copy", "False", "True", "new", "True", "True", "pset", "True", "pset", "False", "True"] := by
  rfl


/-! ## `get_shooting_point` -/

/-- **The shooting point is never an end point.**  The draw requested is `integers(1, L−1)` (uniform on
    `[1, L−1)`); whatever value in that range the generator answers, the method returns an interior index
    `0 < k < L−1` together with the frame OBJECT stored at that index (no copy). -/
theorem shooting_point_interior (h : Heap) (p : Path) (idx : Int)
    (hlo : (shootRequest p).lo ≤ idx) (hhi : idx < (shootRequest p).hi)
    (hord : ∀ r ∈ p.frames, ∃ s, h.look r = some s ∧ s.v.order ≠ []) :
    ∃ (k : Nat) (r : Nat), idx = (k : Int) ∧ 0 < k ∧ k + 1 < p.frames.length ∧ p.frames[k]? = some r
      ∧ shootingPoint h p idx = .ok (r, idx) := by
  simp only [shootRequest] at hlo hhi
  have hk : idx.toNat < p.frames.length := by omega
  refine ⟨idx.toNat, p.frames[idx.toNat], by omega, by omega, by omega, List.getElem?_eq_getElem hk, ?_⟩
  obtain ⟨s, hs, hso⟩ := hord _ (List.getElem_mem hk)
  unfold shootingPoint pyIndex
  rw [if_pos (by omega), List.getElem?_eq_getElem hk]
  simp only [hs]
  cases ho : s.v.order with
  | nil => exact absurd ho hso
  | cons a t => rfl

/-- no draw is possible (numpy raises ValueError for an empty range) exactly for paths of length ≤ 2:
    they have no interior frame -/
theorem shooting_no_draw_iff (p : Path) :
    (shootRequest p).hi ≤ (shootRequest p).lo ↔ p.frames.length ≤ 2 := by
  simp only [shootRequest]; omega

example :
    let v : Vals := { config := (0, 0), order := [1], velRev := false, ekin := none, vpot := none,
                      pos := 0, vel := 0, box := 0, temp := 0 }
    (Machine.init.run [.new none 0, .sys 0 v, .sys 0 v, .shoot 0 0, .sys 0 v, .sys 0 v, .shoot 0 0, .shoot 0 1,
        .shoot 0 2]).log.drop 3
      = ["shoot:1:1:err:value", "True", "True", "shoot:1:3:1:1", "shoot:1:3:2:2", "shoot:1:3:1:1"] := by
  rfl


/-! ## `update_energies`, `empty_path` -/

/-- **update_energies aligns by index**: on a path whose frames are distinct objects, frame `k` receives
    `ekin[k]` / `vpot[k]` (`None` when the list is too short), nothing else of that frame changes, and
    every object that is not a frame of the path is untouched. -/
theorem update_energies_spec (h : Heap) (p : Path) (ekin vpot : List Int) (hnd : p.frames.Nodup) :
    (∀ r, r ∉ p.frames → (updateEnergies h p ekin vpot).look r = h.look r)
    ∧ (∀ k r, p.frames[k]? = some r →
        (updateEnergies h p ekin vpot).look r = (h.look r).map (setEnergies ekin vpot k)) := by
  obtain ⟨h1, h2⟩ := updGo_spec ekin vpot p.frames 0 h hnd
  refine ⟨h1, ?_⟩
  intro k r hk
  have := h2 k r hk
  rwa [Nat.zero_add] at this

/-- whatever the path looks like (repeated frames, dangling references): `update_energies` changes nothing
    but `ekin` / `vpot` — in particular no order value, so no classification. -/
theorem update_energies_only_energies (h : Heap) (p : Path) (ekin vpot : List Int) (r : Nat) :
    ((updateEnergies h p ekin vpot).look r).map noEnergies = (h.look r).map noEnergies :=
  updGo_only_energies ekin vpot p.frames 0 h r

/-- **empty_path shares nothing with the path it is called on**: the result has no frames and fresh
    attributes; its limit is the `maxlen` passed or the module default 100000 (NOT `self.maxlen`), its
    time origin the one passed or 0.  (Only the class is taken from `self`.) -/
theorem empty_path_shares_nothing (self other : Path) (ml : Option (Option Int)) (t : Option Int) :
    self.emptyPath ml t = other.emptyPath ml t
    ∧ (self.emptyPath ml t).frames = []
    ∧ (self.emptyPath ml t).maxlen = (match ml with | none => some 100000 | some m => m)
    ∧ (self.emptyPath ml t).timeOrigin = (match t with | none => 0 | some t => t)
    ∧ (self.emptyPath ml t).status = 0 ∧ (self.emptyPath ml t).generated = none
    ∧ (self.emptyPath ml t).pathNumber = none ∧ (self.emptyPath ml t).weights = none
    ∧ (self.emptyPath ml t).weight = 0 :=
  ⟨rfl, rfl, rfl, rfl, rfl, rfl, rfl, rfl, rfl⟩

example :
    let v : Vals := { config := (0, 0), order := [1], velRev := false, ekin := some 1, vpot := some 2,
                      pos := 0, vel := 0, box := 0, temp := 0 }
    let m := Machine.init.run [.new (some 7) 3, .sys 0 v, .sys 0 v, .sys 0 v, .upd 0 [5, 6] [8], .emptyDef 0 none none]
    m.log.drop 4 = ["upd:2:1", "empty"]
    ∧ [0, 1, 2].map (fun r => (m.heap.look r).map (fun s => (s.v.ekin, s.v.vpot)))
        = [some (some 5, some 8), some (some 6, none), some (none, none)]
    ∧ m.paths.map (·.maxlen) = [some 7, some 100000] := by
  refine ⟨rfl, rfl, rfl⟩


/-! ## which loop gave up: the warnings of `paste_paths` and `+=` -/

/-- **paste_paths warns exactly when it drops a frame, and says where.**  The "unequal length" warning
    appears iff no `maxlen` was passed and the two limits differ; "truncated while pasting backwards"
    iff not even the backward segment fits (the pasted path then holds only its first `maxlen` frames
    of reversed(back) and NO forward frame); otherwise "truncated path at" iff the result is shorter
    than the offered sequence; the number in the message is the length of the result. -/
theorem paste_warnings_spec (back forw np : Path) (ov : Bool) (ml : Option Int)
    (h : paste back forw ov ml = .ok np) :
    pasteWarnings back forw ov ml =
      (if ml.isNone && back.maxlen != forw.maxlen then ["uneq:" ++ showOptInt np.maxlen] else [])
      ++ (if np.frames.length < back.frames.length then ["tb:" ++ toString np.frames.length]
          else if np.frames.length < (pasteSeq back forw ov).length then ["tf:" ++ toString np.frames.length]
          else []) := by
  have hcap := (paste_order back forw np ov ml h).1
  have hlen := paste_length back forw np ov ml h
  rw [pasteWarnings_closed back forw ov ml np.maxlen hcap]
  have hfl : (forwPart forw ov).length = forw.frames.length - (if ov then 1 else 0) := by
    unfold forwPart; cases ov <;> simp
  have hps : (pasteSeq back forw ov).length = back.frames.length + (forwPart forw ov).length := by
    unfold pasteSeq forwPart; simp
  rw [hps, hlen, ← hfl]
  congr 1
  generalize (forwPart forw ov).length = nf
  generalize back.frames.length = nb
  cases hm : np.maxlen with
  | none => simp [capLen]
  | some m =>
    have e1 : capLen (some m) nb = min m.toNat nb := rfl
    have e2 : capLen (some m) (nb + nf) = min m.toNat (nb + nf) := rfl
    by_cases h1 : m.toNat < nb
    · rw [if_pos (show capLen (some m) nb < nb by omega), if_pos (show capLen (some m) (nb + nf) < nb by omega)]
      have : capLen (some m) nb = capLen (some m) (nb + nf) := by omega
      rw [this]
    · rw [if_neg (show ¬ capLen (some m) nb < nb by omega), if_neg (show ¬ capLen (some m) (nb + nf) < nb by omega)]

/-- `self += other` warns iff it could not take all of `other`'s frames; the number is the new length -/
theorem iadd_warns_iff_truncated (self other : Path) :
    iaddWarnings self other =
      if room self other.frames.length < other.frames.length
        then ["ti:" ++ toString (self.frames.length + room self other.frames.length)] else [] :=
  iaddWarnings_closed self other

example :
    let back : Path := { Path.empty (some 2) 0 with frames := [0, 1, 2] }
    let forw : Path := { Path.empty (some 4) 0 with frames := [0, 3, 4] }
    pasteWarnings back forw true none = ["uneq:4", "tf:4"]
    ∧ pasteWarnings back forw true (some 2) = ["tb:2"]
    ∧ pasteWarnings back forw true (some 5) = []
    ∧ iaddWarnings back forw = ["ti:3"] := by
  refine ⟨rfl, rfl, rfl, rfl⟩


/-! ## composition: where each frame of a pasted path comes from; copy of a pasted path; classification
    of a copy -/

/-- **Index map of `paste_paths` (time order).**  Frame `k` of the pasted path is backward frame
    `|back|−1−k` for `k < |back|` and forward frame `k−|back|` (+1 when the segments overlap) afterwards;
    and the time bookkeeping is consistent with it: the first backward frame (the shooting point),
    which sits at index `|back|−1`, is at the time origin of the backward segment. -/
theorem paste_index_map (back forw np : Path) (ov : Bool) (ml : Option Int)
    (h : paste back forw ov ml = .ok np) (k : Nat) (hk : k < np.frames.length) :
    np.frames[k]? = (if k < back.frames.length then back.frames[back.frames.length - 1 - k]?
                     else forw.frames[(if ov then 1 else 0) + (k - back.frames.length)]?)
    ∧ np.timeOrigin + ((back.frames.length : Int) - 1) = back.timeOrigin := by
  refine ⟨?_, by rw [paste_time_origin back forw np ov ml h]; omega⟩
  have hf := (paste_order back forw np ov ml h).2.1
  rw [hf] at hk ⊢
  rw [capTake_getElem?_lt _ _ _ hk]
  unfold pasteSeq
  by_cases hkb : k < back.frames.length
  · rw [if_pos hkb, List.getElem?_append_left (by simpa using hkb), List.getElem?_reverse hkb]
  · rw [if_neg hkb, List.getElem?_append_right (by simpa using Nat.le_of_not_lt hkb), List.length_reverse]
    cases ov with
    | true => simp only [if_true, List.getElem?_drop]
    | false => simp

/-- **A copy of a pasted path is independent of both segments** (composition of `paste_paths`, which
    shares frame objects, with `copy()`, which does not): re-assigning any field of any frame of
    `paste_paths(back, forw).copy()` leaves every frame of `back`, of `forw` and of the pasted path as it was. -/
theorem copy_of_paste_independent (h : Heap) (back forw np : Path) (ov : Bool) (ml : Option Int)
    (hp : paste back forw ov ml = .ok np) (hwb : WF h back.frames) (hwf : WF h forw.frames)
    (r' : Nat) (hr' : r' ∈ (Path.copy h np).2.frames) (fld : Field) :
    ∀ r, (r ∈ back.frames ∨ r ∈ forw.frames ∨ r ∈ np.frames) →
      (assignField (Path.copy h np).1 r' fld).look r = h.look r := by
  have hwn : WF h np.frames := by
    intro r hr
    rcases paste_shares_refs back forw np ov ml hp r hr with h1 | h1
    · exact hwb r h1
    · exact hwf r h1
  have key := (copy_independent h np hwn r' hr' fld).1
  intro r hr
  rcases hr with h1 | h1 | h1
  · exact key r (hwb r h1)
  · exact key r (hwf r h1)
  · exact key r (hwn r h1)

/-- **A copy classifies like the original**: a path within its limit and its copy hold the same order
    sequence, so every classification method (`ordermin`, `ordermax`, `check_interfaces`, `success`,
    start / end point) answers the same on both. -/
theorem copy_keeps_classification (h : Heap) (p : Path) (hwf : WF h p.frames)
    (hfits : capLen p.maxlen p.frames.length = p.frames.length) (intf : List Int) (t : Int) (seq : List Int)
    (hs : orderSeq h p = some seq) :
    orderSeq (Path.copy h p).1 (Path.copy h p).2 = some seq
    ∧ Path.classify (Path.copy h p).1 (Path.copy h p).2 intf t = Path.classify h p intf t := by
  have h1 : orderSeq (Path.copy h p).1 (Path.copy h p).2 = some seq := by
    rw [orderSeq_eq_looks, (copy_values h p hwf).1, capTake_of_fits _ _ (by simpa using hfits),
      ← orderSeq_eq_looks]
    exact hs
  exact ⟨h1, by rw [classify_reads_current_orders _ _ intf t seq h1, classify_reads_current_orders _ _ intf t seq hs]⟩

/-- **Time reversal swaps the start and the end classification** (on the order sequence): the start
    point of the reversed sequence is classified like the end point of the original and vice versa
    (`'?'` and `None` both mean "between the interfaces"). -/
theorem reverse_swaps_ends (ops : List Int) (left : Int) (right : Option Int) :
    startPoint ops.reverse left right = endPoint ops left right
    ∧ endPoint ops.reverse left right = startPoint ops left right := by
  constructor <;> simp [startPoint, endPoint]

example :
    let back : Path := { Path.empty none 7 with frames := [0, 1, 2] }
    let forw : Path := { Path.empty none 0 with frames := [0, 3, 4] }
    (paste back forw true none).map (fun np => (np.frames, np.timeOrigin)) = .ok ([2, 1, 0, 3, 4], 5)
    ∧ startPoint [0, 1, 3] 1 (some 2) = .ok .L ∧ endPoint [3, 1, 0] 1 (some 2) = .ok .L := by
  refine ⟨rfl, rfl, rfl⟩


/-! ## reverse and classification, end to end; `adress` -/

/-- **The reversed path carries the reversed order sequence** (path within its limit; the order
    parameter is not re-computed, i.e. no order function, or not velocity dependent, or `rev_v=False`). -/
theorem reverse_order_sequence (h : Heap) (p : Path) (ofn : Option OrderFn) (rv : Bool) (hwf : WF h p.frames)
    (hfits : capLen p.maxlen p.frames.length = p.frames.length)
    (hno : ∀ f, ofn = some f → (f.velDep && rv) = false) (seq : List Int) (hs : orderSeq h p = some seq) :
    orderSeq (Path.reverse h p ofn rv).1 (Path.reverse h p ofn rv).2 = some seq.reverse := by
  have hlenv : (vals h p).length = p.frames.length := by simp [vals]
  rw [orderSeq_eq_vals, reverse_vals h p ofn rv hwf,
    capTake_of_fits _ _ (by simpa [hlenv] using hfits), mapM_option_map]
  have hfun : (fun x => headOrderV (Option.map (revVals ofn rv) x)) = headOrderV := by
    funext o
    cases o with
    | none => rfl
    | some v => simp only [Option.map_some, headOrderV, revVals_order_of_no_recompute ofn rv v hno]
  rw [hfun]
  apply mapM_option_reverse
  rw [← orderSeq_eq_vals]; exact hs

/-- **Reversal keeps the extreme values** (only the index at which they are first attained changes),
    hence `success` and every crossing flag. -/
theorem reverse_keeps_extremes (ops : List Int) (hne : ops ≠ []) :
    (∃ v j j', ordermax ops = .ok (v, j) ∧ ordermax ops.reverse = .ok (v, j'))
    ∧ (∃ v j j', ordermin ops = .ok (v, j) ∧ ordermin ops.reverse = .ok (v, j'))
    ∧ ∀ t, success ops.reverse t = success ops t := by
  have hne' : ops.reverse ≠ [] := by simpa using hne
  obtain ⟨v, j, hv, hj, hall, _⟩ := ordermax_agrees ops hne
  obtain ⟨v', j', hv', hj', hall', _⟩ := ordermax_agrees ops.reverse hne'
  obtain ⟨w, k, hw, hk, hallw, _⟩ := ordermin_agrees ops hne
  obtain ⟨w', k', hw', hk', hallw', _⟩ := ordermin_agrees ops.reverse hne'
  have e1 : v' = v := by
    have a := hall v' (List.mem_reverse.1 (List.mem_of_getElem? hj'))
    have b := hall' v (List.mem_reverse.2 (List.mem_of_getElem? hj))
    omega
  have e2 : w' = w := by
    have a := hallw w' (List.mem_reverse.1 (List.mem_of_getElem? hk'))
    have b := hallw' w (List.mem_reverse.2 (List.mem_of_getElem? hk))
    omega
  subst e1; subst e2
  refine ⟨⟨_, _, _, hv, hv'⟩, ⟨_, _, _, hw, hw'⟩, ?_⟩
  intro t
  simp [success, hv, hv']

/-- **`adress` is the set of trajectory files of the frames**: a name is in it iff some frame's
    `config[0]` is that name; no name is listed twice. -/
theorem adress_is_config_set (h : Heap) (p : Path) (x : Int) :
    (x ∈ p.adress h ↔ ∃ r ∈ p.frames, ∃ s, h.look r = some s ∧ s.v.config.1 = x) ∧ (p.adress h).Nodup := by
  unfold Path.adress
  refine ⟨?_, nodup_eraseDups_int _⟩
  rw [List.mem_eraseDups, List.mem_filterMap]
  constructor
  · rintro ⟨r, hr, hx⟩
    cases hl : h.look r with
    | none => simp [hl] at hx
    | some s => exact ⟨r, hr, s, hl, by simpa [hl] using hx⟩
  · rintro ⟨r, hr, s, hl, hx⟩
    exact ⟨r, hr, by simp [hl, hx]⟩

example :
    let v : Vals := { config := (4, 0), order := [1], velRev := false, ekin := none, vpot := none,
                      pos := 0, vel := 0, box := 0, temp := 0 }
    (Machine.init.run [.new none 0, .sys 0 v, .sys 0 { v with order := [3], config := (2, 1) },
        .sys 0 { v with order := [2] }, .rev 0 none true, .classify 1 [1, 2, 3] 2, .classify 0 [1, 2, 3] 2, .adr 0]).log.drop 5
      = ["min=1,2;max=3,1;chk=?,L,M,011;suc=True;sp=?;ep=L", "min=1,0;max=3,1;chk=L,None,M,011;suc=True;sp=L;ep=None",
         "adr,2,4"] := by
  rfl

end Infretis.C15
