import Infretis.Lemmas.Vel
import Infretis.Lemmas.VelRoute
import Infretis.Lemmas.VelProj
import Infretis.Lemmas.VelFlow
import Infretis.Lemmas.VelExtra
import Mathlib.Tactic.NormNum
import Mathlib.Algebra.Order.AbsoluteValue.Basic
/-!
# C16 — velocity regeneration changes only velocities, at the right temperature

Property theorems only.  Model: `Infretis/Model/Vel.lean` (mirrors
`draw_maxwellian_velocities`, `kinetic_energy`, `reset_momentum`, the five
`modify_velocities`, `prepare_shooting_point`, `System.copy`).
`sqrt` and the Gaussian stay outside the model: `sig` are the square roots numpy delivered
(hypothesis `sigᵢ² = σᵢ²` where needed), `z` the standard normals.

Findings established on the real ASE engine and repaired in /repo by commit 1dd0318:
* `C16:ase:kin-before-stationary` — `kin_new` was taken before `Stationary`,
* `C16:ase:global-rng` — the draw used numpy's global state, not the engine's `rgen`.
Both are `Variant` switches of the model: `asIs` mirrors the code before the fix (its
counterexamples stay here as the record), `repaired` = `codeVariant` mirrors the code now; the
headline theorems `dek_consistent_all`, `kinNew_consistent_all`, `request_on_engine_stream_all`
hold for all five engines with `codeVariant`.

`_partial`s: `dek_consistent_ase_partial` and `request_on_engine_stream_partial` predate the ASE fixes (1dd0318,
6c06a2f).  For the code as it is now (`codeVariant = .repaired`) both are SUPERSEDED by the unguarded `_all`
statements (`dek_consistent_all`, `kinNew_consistent_all`, `request_on_engine_stream_all`, which are proved from
them by discharging the guard with `codeVariant`); they stay as the exact record of the guard under which the
pre-fix code was right, next to their `_counterexample`s.  Nothing is missing for the current code.

Audit follow-up (§12–§15, `Model/VelExtra.lean`): LAMMPS `get_atom_masses` (finding
`C16:lammps:masses-section-not-sorted`, repaired in /repo by 76f2ebe; `asIs` = the record), TurtleMD with `dim < 3`
(OPEN finding `C16:turtlemd:dim-lt-3:kinetic-energy-counts-unused-components`: `codeVariantDim = .asIs`, with the
`_counterexample` and the repaired-variant theorem), numpy's shape decision and the missing-`rgen` branches in front
of the core (`modifyVelocitiesS`: §§2–7 speak about the real `modify_velocities` on the domain "as many masses as
atoms in the frame, `engine.rgen` set" — `modifyVelocitiesS_consistent`, `headlines_shape_guarded`), and the ASE form
of "written velocity = scale·z" with the composed second-moment statement.
Scope of the ASE statements (`modify_zero_momentum`, `ase_vel_eq`, …): frames WITHOUT constraints.  ase applies the
constraints stored in the frame inside `set_momenta` (called by MaxwellBoltzmannDistribution and Stationary): with
`FixAtoms` the fixed atoms are written with velocity 0 — they are not degrees of freedom — and the total momentum is
not reset to 0.  The model has no constraint field; the tie books such frames as an observed class, not an alarm.

Extension pass (§8–§11): settings routing through the moves (`Model/VelRoute.lean`), the degrees-of-freedom
statement under the zero-momentum projection (`Lemmas/VelProj.lean`), the helpers' remaining branches, and the
per-engine file flow (`Model/VelFlow.lean`).
-/
namespace Infretis.C16
open Infretis.Vel

/-! ## 1. σᵢ²·mᵢ = k_B·T in every engine's own unit system -/

/-- **Variance (all numpy-drawing engines).** With the engine's own `beta` and masses, the
    square of the scale passed to `rgen.normal` times the mass is `kb·T`, particle by particle.
    GROMACS: (nm/ps)²·g/mol = kJ/mol; CP2K: a.u. velocity²·mₑ = Hartree; LAMMPS: kcal/mol before
    the division by `scale`; TurtleMD: reduced units with the user's `boltzmann`. -/
theorem sigma_sq_mass_eq_kT (s : Setup) (hT : s.temperature * kbBeta s ≠ 0)
    (hm : ∀ m ∈ mass s, m ≠ 0) :
    mulCol (sigmaSq (beta s) (mass s)) (mass s)
      = (mass s).map (fun _ => kbBeta s * s.temperature) := by
  rw [mulCol_sigmaSq _ _ hm, one_div_beta s hT]

example : (300 : Rat) * kbBeta { engine := .cp2k, temperature := 300, boltzmann := 1, massIn := [1, 16] } ≠ 0
    ∧ ∀ m ∈ mass { engine := .cp2k, temperature := 300, boltzmann := 1, massIn := [1, 16] }, m ≠ 0 := by
  constructor
  · norm_num [kbBeta, kbCp2k]
  · intro m hm
    simp only [mass, List.map_cons, List.map_nil, List.mem_cons, List.not_mem_nil, or_false] at hm
    rcases hm with rfl | rfl <;> norm_num [cp2kMassFactor]

/-- the per-engine constants behind `sigma_sq_mass_eq_kT` -/
theorem kbBeta_per_engine (T b : Rat) (ms tb : List Rat) :
    kbBeta ⟨.gromacs, T, b, ms, tb⟩ = 83144621 / 10000000000
    ∧ kbBeta ⟨.cp2k, T, b, ms, tb⟩ = 316681534 / 100000000000000
    ∧ kbBeta ⟨.lammps, T, b, ms, tb⟩ = 1987204259 / 1000000000000
    ∧ kbBeta ⟨.turtlemd, T, b, ms, tb⟩ = b := ⟨rfl, rfl, rfl, rfl⟩

/-- **ASE.** momenta = `sP·z` with `sP² = m·(units.kB·T)`; velocity = momentum / m, so the
    velocity scale `sP/m` squared times the mass is `units.kB·T` (eV; ASE's units make
    amu·(Å/t)² = eV exactly). -/
theorem ase_velocity_scale_sq_mass (T m sP : Rat) (hm : m ≠ 0) (hs : sP * sP = m * (kbAseUnits * T)) :
    (sP / m) * (sP / m) * m = kbAseUnits * T := by
  have : (sP / m) * (sP / m) * m = (sP * sP) / m := by field_simp
  rw [this, hs]
  field_simp

example : ((2 : Rat) / 4) * (2 / 4) * 4 = 1 ∧ (2 : Rat) * 2 = 4 * 1 := by norm_num

/-! ### exact SI / CODATA rationals

* `kSI`  Boltzmann constant 1.380649e-23 J/K — exact (SI 2019, BIPM brochure 9th ed.)
* `nA`   Avogadro constant 6.02214076e23 /mol — exact (SI 2019)
* `eSI`  elementary charge 1.602176634e-19 C — exact (SI 2019)
* thermochemical calorie 4.184 J — exact by definition
* `hartreeJ` Hartree energy 4.3597447222071e-18 J — CODATA 2018 recommended value
* `meInU`    electron mass 5.48579909065e-4 u — CODATA 2018 recommended value
-/
def kSI : Rat := 1380649 / 10 ^ 29
def nA : Rat := 602214076 * 10 ^ 15
def eSI : Rat := 1602176634 / 10 ^ 28
def hartreeJ : Rat := 43597447222071 / 10 ^ 31
def meInU : Rat := 548579909065 / 10 ^ 15

/-- GROMACS: ⟨m v²⟩ in J/mol over R·T.  1 g/mol·(nm/ps)² = 10⁻³·(10⁻⁹)²/(10⁻¹²)² J/mol. -/
def ratioGromacs : Rat := kbGromacs * ((1 / 10 ^ 3) * (1 / 10 ^ 9) ^ 2 / (1 / 10 ^ 12) ^ 2) / (kSI * nA)
/-- LAMMPS real: v = σ·z/scale [Å/fs]; 1 g/mol·(Å/fs)² = 10⁻³·(10⁻¹⁰)²/(10⁻¹⁵)² J/mol. -/
def ratioLammps : Rat :=
  kbLammps / lammpsScale ^ 2 * ((1 / 10 ^ 3) * (1 / 10 ^ 10) ^ 2 / (1 / 10 ^ 15) ^ 2) / (kSI * nA)
/-- CP2K: code mass = factor·m[u]; true mass = m[u]/meInU electron masses; mₑ·(a.u. velocity)² = E_h. -/
def ratioCp2k : Rat := kbCp2k * hartreeJ / (meInU * cp2kMassFactor) / kSI
/-- ASE: eV → J -/
def ratioAse : Rat := kbAseUnits * eSI / kSI

/-- **GROMACS in SI.** variance·mass converted to J/mol equals `ratioGromacs · R·T`. -/
theorem gromacs_mv2_SI (T m : Rat) (hT : T ≠ 0) (hm : m ≠ 0) :
    (1 / (1 / (T * kbGromacs))) * (1 / m) * m * ((1 / 10 ^ 3) * (1 / 10 ^ 9) ^ 2 / (1 / 10 ^ 12) ^ 2)
      = ratioGromacs * (kSI * nA * T) := by
  have h1 : kSI ≠ 0 := by norm_num [kSI]
  have h2 : nA ≠ 0 := by norm_num [nA]
  unfold ratioGromacs
  rw [one_div_one_div]
  field_simp

theorem gromacs_ratio_bound :
    -(6232 / 10 ^ 11 : Rat) ≤ ratioGromacs - 1 ∧ ratioGromacs - 1 ≤ -(6231 / 10 ^ 11) := by
  norm_num [ratioGromacs, kbGromacs, kSI, nA]

/-- **GROMACS.** |⟨m v²⟩/(k_B T) − 1| ≤ 6.232·10⁻⁸ (the code's R is the CODATA-2010 value). -/
theorem gromacs_sigma_sq_mass_eq_kT : |ratioGromacs - 1| ≤ 6232 / 10 ^ 11 :=
  abs_le.mpr ⟨gromacs_ratio_bound.1, le_trans gromacs_ratio_bound.2 (by norm_num)⟩

/-- **LAMMPS (real units) in SI.** The written velocity is σ·z/scale, its variance σ²/scale². -/
theorem lammps_mv2_SI (T m : Rat) (hT : T ≠ 0) (hm : m ≠ 0) :
    (1 / (1 / (T * kbLammps))) * (1 / m) / lammpsScale ^ 2 * m
        * ((1 / 10 ^ 3) * (1 / 10 ^ 10) ^ 2 / (1 / 10 ^ 15) ^ 2)
      = ratioLammps * (kSI * nA * T) := by
  have h1 : kSI ≠ 0 := by norm_num [kSI]
  have h2 : nA ≠ 0 := by norm_num [nA]
  have hs : lammpsScale ^ 2 ≠ 0 := by norm_num [lammpsScale]
  unfold ratioLammps
  rw [one_div_one_div]
  field_simp

theorem lammps_ratio_bound :
    (18074 / 10 ^ 14 : Rat) ≤ ratioLammps - 1 ∧ ratioLammps - 1 ≤ 18075 / 10 ^ 14 := by
  norm_num [ratioLammps, kbLammps, lammpsScale, kSI, nA]

/-- **LAMMPS.** |⟨m v²⟩/(k_B T) − 1| ≤ 1.8075·10⁻¹⁰. -/
theorem lammps_sigma_sq_mass_eq_kT : |ratioLammps - 1| ≤ 18075 / 10 ^ 14 :=
  abs_le.mpr ⟨le_trans (by norm_num) lammps_ratio_bound.1, lammps_ratio_bound.2⟩

/-- the LAMMPS scale constant squared is 10⁷/4184 (kcal/g ↔ Å²/fs²) to 4·10⁻¹⁶ relative -/
theorem lammps_scale_sq :
    |lammpsScale ^ 2 / (10 ^ 7 / 4184) - 1| ≤ 4 / 10 ^ 16 := by
  rw [abs_le]
  constructor <;> norm_num [lammpsScale]

/-- **CP2K in SI.** `mu` = mass in u; code mass = `cp2kMassFactor·mu`; ⟨m v²⟩ in J. -/
theorem cp2k_mv2_SI (T mu : Rat) (hT : T ≠ 0) (hm : mu ≠ 0) :
    (1 / (1 / (T * kbCp2k))) * (1 / (cp2kMassFactor * mu)) * (mu / meInU) * hartreeJ
      = ratioCp2k * (kSI * T) := by
  have h : kSI ≠ 0 := by norm_num [kSI]
  have h1 : meInU ≠ 0 := by norm_num [meInU]
  have h2 : cp2kMassFactor ≠ 0 := by norm_num [cp2kMassFactor]
  unfold ratioCp2k
  rw [one_div_one_div]
  field_simp

theorem cp2k_ratio_bound :
    (11927 / 10 ^ 10 : Rat) ≤ ratioCp2k - 1 ∧ ratioCp2k - 1 ≤ 11928 / 10 ^ 10 := by
  norm_num [ratioCp2k, kbCp2k, hartreeJ, meInU, cp2kMassFactor, kSI]

/-- **CP2K.** |⟨m v²⟩/(k_B T) − 1| ≤ 1.1928·10⁻⁶: the code's `kb = 3.16681534e-6` Hartree/K is
    1.19·10⁻⁶ above k_B/E_h = 3.1668115635·10⁻⁶; the mass factor contributes 2.3·10⁻¹⁰. -/
theorem cp2k_sigma_sq_mass_eq_kT : |ratioCp2k - 1| ≤ 11928 / 10 ^ 10 :=
  abs_le.mpr ⟨le_trans (by norm_num) cp2k_ratio_bound.1, cp2k_ratio_bound.2⟩

theorem cp2k_massfactor_bound : |1 / meInU / cp2kMassFactor - 1| ≤ 224 / 10 ^ 12 := by
  rw [abs_le]
  constructor <;> norm_num [meInU, cp2kMassFactor]

/-- **ASE in SI.** -/
theorem ase_mv2_SI (T : Rat) : kbAseUnits * T * eSI = ratioAse * (kSI * T) := by
  have h : kSI ≠ 0 := by norm_num [kSI]
  unfold ratioAse
  field_simp

theorem ase_ratio_bound :
    -(33943 / 10 ^ 11 : Rat) ≤ ratioAse - 1 ∧ ratioAse - 1 ≤ -(33942 / 10 ^ 11) := by
  norm_num [ratioAse, kbAseUnits, eSI, kSI]

/-- **ASE.** |⟨m v²⟩/(k_B T) − 1| ≤ 3.3943·10⁻⁷ (ase.units defaults to CODATA 2014). -/
theorem ase_sigma_sq_mass_eq_kT : |ratioAse - 1| ≤ 33943 / 10 ^ 11 :=
  abs_le.mpr ⟨ase_ratio_bound.1, le_trans ase_ratio_bound.2 (by norm_num)⟩

/-- **TurtleMD.** reduced units: σ²·m = boltzmann·T exactly, whatever `boltzmann` the user gives. -/
theorem turtlemd_sigma_sq_mass_eq_kT (T b m : Rat) (hT : T * b ≠ 0) (hm : m ≠ 0) :
    mulCol (sigmaSq (beta ⟨.turtlemd, T, b, [m], []⟩) [m]) [m] = [b * T] := by
  have := sigma_sq_mass_eq_kT ⟨.turtlemd, T, b, [m], []⟩ hT (by simpa [mass] using hm)
  simpa [mass, kbBeta] using this

example : (300 : Rat) * (83144621 / 10000000000) ≠ 0 ∧ (1008 / 1000 : Rat) ≠ 0 := by norm_num

/-! ## 2. the velocities are σ·z after the stated transformations -/

/-- without momentum reset: written velocity column j is `sigᵢ·zᵢⱼ` (LAMMPS: divided by `scale`) -/
theorem vel_eq_sigma_z (s : Setup) (src : Frame) (e : Option Rat) (sig : List Rat)
    (z : List (List Rat)) (hz : zeroMomentumFlag s.engine zm = false) (hne : s.engine ≠ .ase) :
    (modifyVelocities vk vr s src e zm sig z).frame.vel =
      if s.engine = .lammps then (drawVel sig z).map (fun col => col.map (fun v => v / lammpsScale))
      else drawVel sig z := by
  cases hs : s.engine <;> simp_all [modifyVelocities, modifyNumpy]

example : zeroMomentumFlag Engine.lammps none = false ∧ Engine.lammps ≠ Engine.ase := by decide

/-! ## 2b. which setting decides: the entry if present, else the engine's OWN default -/

/-- **Effective flag.** `zero_momentum` in effect = the entry of the settings that were handed in when
    present, otherwise the engine's own default — `True` for CP2K and `False` for GROMACS (infretis_genvel),
    LAMMPS, ASE and TurtleMD; no engine's default is visible to another engine. -/
theorem zero_momentum_flag_rule (e : Engine) (zm : Option Bool) :
    zeroMomentumFlag e zm = (match zm with | some b => b | none => engineDefaultZeroMomentum e)
    ∧ (engineDefaultZeroMomentum e = true ↔ e = .cp2k) := by
  cases e <;> cases zm <;> simp [zeroMomentumFlag, engineDefaultZeroMomentum]

/-- the result depends on the settings only through that flag -/
theorem modify_depends_on_flag_only (vk vr : Variant) (s : Setup) (src : Frame) (e : Option Rat)
    (zm zm' : Option Bool) (sig : List Rat) (z : List (List Rat))
    (h : zeroMomentumFlag s.engine zm = zeroMomentumFlag s.engine zm') :
    modifyVelocities vk vr s src e zm sig z = modifyVelocities vk vr s src e zm' sig z := by
  cases hs : s.engine <;> simp_all [modifyVelocities, modifyNumpy, modifyAse]

example : zeroMomentumFlag .turtlemd none = false ∧ zeroMomentumFlag .cp2k none = true
    ∧ zeroMomentumFlag .turtlemd none = zeroMomentumFlag .turtlemd (some false) := by decide

/-! ## 3. zero total momentum -/

/-- **Zero momentum.** After `reset_momentum`, Σᵢ mᵢ vᵢⱼ = 0 in every Cartesian component j, for
    any positive masses and any velocities of matching shape. -/
theorem zero_momentum_exact (ms : List Rat) (hne : ms ≠ []) (hpos : ∀ m ∈ ms, 0 < m)
    (vel : List (List Rat)) (hshape : ∀ col ∈ vel, col.length = ms.length) :
    momentum ms (resetMomentum ms vel) = vel.map (fun _ => 0) :=
  momentum_resetMomentum ms (ne_of_gt (sumL_pos ms hne hpos)) vel hshape

example : momentum [1, 3] (resetMomentum [1, 3] [[2, -1], [0, 4]]) = [0, 0] := by
  norm_num [momentum, resetMomentum, resetCol, dot, sumL]

theorem momentum_reset_eq_zeros (ms : List Rat) (hne : ms ≠ []) (hpos : ∀ m ∈ ms, 0 < m)
    (vel : List (List Rat)) (hshape : ∀ col ∈ vel, col.length = ms.length) :
    momentum ms (resetMomentum ms vel) = (resetMomentum ms vel).map (fun _ => 0) := by
  rw [zero_momentum_exact ms hne hpos vel hshape]
  simp [resetMomentum, Function.comp_def]

/-- the written frame of every engine has zero total momentum (one 0 per Cartesian component)
    when the flag is on -/
theorem modify_zero_momentum (vk vr : Variant) (s : Setup) (src : Frame) (e : Option Rat)
    (zm : Option Bool) (sig : List Rat) (z : List (List Rat))
    (hflag : zeroMomentumFlag s.engine zm = true)
    (hne : mass s ≠ []) (hpos : ∀ m ∈ mass s, 0 < m)
    (hsig : sig.length = (mass s).length) (hz : ∀ col ∈ z, col.length = (mass s).length) :
    momentum (mass s) (modifyVelocities vk vr s src e zm sig z).frame.vel
      = (modifyVelocities vk vr s src e zm sig z).frame.vel.map (fun _ => 0) := by
  have hcols : ∀ col ∈ drawVel sig z, col.length = (mass s).length := by
    intro col hcol
    simp only [drawVel, List.mem_map] at hcol
    obtain ⟨c, hc, rfl⟩ := hcol
    rw [mulCol_length sig c (by rw [hsig, hz c hc]), hz c hc]
  cases hs : s.engine
  case ase =>
    have hm : mass s = s.massIn := by simp [mass, hs]
    rw [hm] at hne hpos hcols ⊢
    have hcols' : ∀ col ∈ (drawVel sig z).map (fun col => divCol col s.massIn),
        col.length = s.massIn.length := by
      intro col hcol
      simp only [List.mem_map] at hcol
      obtain ⟨c, hc, rfl⟩ := hcol
      rw [divCol_length c s.massIn (hcols c hc)]
    rw [hs] at hflag
    simp only [modifyVelocities, hs, modifyAse, hflag, if_true]
    exact momentum_reset_eq_zeros _ hne hpos _ hcols'
  case lammps =>
    have hcols' : ∀ col ∈ (drawVel sig z).map (fun col => col.map (fun v => v / lammpsScale)),
        col.length = (mass s).length := by
      intro col hcol
      simp only [List.mem_map] at hcol
      obtain ⟨c, hc, rfl⟩ := hcol
      simpa using hcols c hc
    rw [hs] at hflag
    simp only [modifyVelocities, hs, modifyNumpy, hflag, if_true]
    exact momentum_reset_eq_zeros _ hne hpos _ hcols'
  all_goals
    rw [hs] at hflag
    simp only [modifyVelocities, hs, modifyNumpy, hflag, if_true]
    exact momentum_reset_eq_zeros _ hne hpos _ hcols

example : zeroMomentumFlag Engine.cp2k none = true ∧ zeroMomentumFlag Engine.gromacs (some true) = true := by
  decide

/-- **One atom (degenerate).** Removing the momentum of a single particle leaves it at rest: the code's
    `vel -= (m·v)/m` gives exactly 0 in the model (rounding residue ≤ 1 ulp in floats), so with
    zero_momentum on a one-atom system gets `kin_new = 0`. -/
theorem one_atom_reset_is_zero (m : Rat) (hm : m ≠ 0) (vel : List Rat) :
    resetMomentum [m] (vel.map (fun v => [v])) = vel.map (fun _ => [0]) := by
  simp only [resetMomentum, List.map_map]
  apply List.map_congr_left
  intro v _
  simp only [Function.comp, resetCol, dot, sumL, List.map_cons, List.map_nil, add_zero]
  congr 1
  field_simp
  ring

example : resetMomentum [3] [[2], [-1], [0]] = [[0], [0], [0]] := by
  norm_num [resetMomentum, resetCol, dot, sumL]

/-! ## 4. the reported kinetic-energy change -/

/-- `kin_new` is the kinetic energy of the velocities that were written — for the four
    numpy-drawing engines. -/
theorem kinNew_consistent (vk vr : Variant) (s : Setup) (src : Frame) (e : Option Rat)
    (zm : Option Bool) (sig : List Rat) (z : List (List Rat)) (hne : s.engine ≠ .ase) :
    (modifyVelocities vk vr s src e zm sig z).kinNew
      = kineticEnergy (mass s) (modifyVelocities vk vr s src e zm sig z).frame.vel := by
  cases hs : s.engine <;> simp_all [modifyVelocities, modifyNumpy]

/-- **dek (CP2K, LAMMPS, TurtleMD).** When the old frame has kinetic energy, `dek` is the
    kinetic energy of the written velocities minus that of the frame's old velocities;
    when it has none, `dek = inf`. -/
theorem dek_consistent (vk vr : Variant) (s : Setup) (src : Frame) (e : Option Rat)
    (zm : Option Bool) (sig : List Rat) (z : List (List Rat))
    (hne : s.engine ≠ .ase) (hng : s.engine ≠ .gromacs) :
    (modifyVelocities vk vr s src e zm sig z).dek =
      if kineticEnergy (mass s) src.vel = 0 then Dek.inf
      else Dek.val (kineticEnergy (mass s) (modifyVelocities vk vr s src e zm sig z).frame.vel
                      - kineticEnergy (mass s) src.vel) := by
  cases hs : s.engine <;> simp_all [modifyVelocities, modifyNumpy, dekZeroRule]

example : kineticEnergy [2] [[1], [0], [3]] = 10 := by
  norm_num [kineticEnergy, kinCol, dot, mulCol, sumL]

/-- **dek (GROMACS, infretis_genvel).** The old energy is `system.ekin`, not recomputed from the
    frame: `dek = ekin(written velocities) − system.ekin`, `inf` when `system.ekin is None`. -/
theorem dek_consistent_gromacs (vk vr : Variant) (s : Setup) (src : Frame) (e : Option Rat)
    (zm : Option Bool) (sig : List Rat) (z : List (List Rat)) (hg : s.engine = .gromacs) :
    (modifyVelocities vk vr s src e zm sig z).dek =
      match e with
      | none => Dek.inf
      | some k => Dek.val (kineticEnergy (mass s) (modifyVelocities vk vr s src e zm sig z).frame.vel - k) := by
  cases e <;> simp [modifyVelocities, modifyNumpy, hg, dekNoneRule]

/-- **Boundaries of the dek rule.** A stored `system.ekin = 0.0` is *not* "absent" for GROMACS
    (`is None` test): `dek = kin_new − 0`; for the other engines an old kinetic energy of exactly 0
    (frame without velocities) gives `inf`, any non-zero one a finite value. -/
theorem dek_rule_boundaries (kinNew k : Rat) :
    dekNoneRule (some 0) kinNew = Dek.val (kinNew - 0) ∧ dekNoneRule none kinNew = Dek.inf
    ∧ dekZeroRule 0 kinNew = Dek.inf ∧ (k ≠ 0 → dekZeroRule k kinNew = Dek.val (kinNew - k)) := by
  refine ⟨rfl, rfl, by simp [dekZeroRule], fun hk => by simp [dekZeroRule, hk]⟩

example : dekZeroRule 5 5 = Dek.val 0 ∧ (5 : Rat) ≠ 0 := by
  constructor
  · norm_num [dekZeroRule]
  · norm_num

/-- witness: ASE as it is, one particle-pair, zero_momentum on -/
def aseWitnessSetup : Setup := { engine := .ase, temperature := 300, boltzmann := 1, massIn := [1, 1] }
def aseWitnessSrc : Frame := { pos := [[0, 1], [0, 0], [0, 0]], vel := [[1, 0], [0, 0], [0, 0]],
                               box := some [10, 10, 10], ids := [1, 1] }

/-- **Finding `C16:ase:kin-before-stationary`.** For the ASE engine as it is, the returned
    `kin_new` (and hence `dek`) is *not* the kinetic energy of the written velocities when
    zero_momentum is on: masses (1,1), momenta draw (1,1)·(1,0): kin_new = 1/2 but the written
    velocities (1/2, −1/2) carry 1/4. -/
theorem dek_consistent_ase_counterexample :
    let r := modifyVelocities .asIs .asIs aseWitnessSetup aseWitnessSrc none (some true) [1, 1] [[1, 0], [0, 0], [0, 0]]
    r.kinNew = 1 / 2 ∧ kineticEnergy [1, 1] r.frame.vel = 1 / 4
      ∧ r.dek ≠ Dek.val (kineticEnergy [1, 1] r.frame.vel - kineticEnergy [1, 1] aseWitnessSrc.vel) := by
  refine ⟨?_, ?_, ?_⟩
  · norm_num [modifyVelocities, modifyAse, aseWitnessSetup, aseWitnessSrc, kineticEnergy, kinCol, dot, mulCol,
      divCol, sumL, drawVel, zeroMomentumFlag]
  · norm_num [modifyVelocities, modifyAse, aseWitnessSetup, aseWitnessSrc, kineticEnergy, kinCol, dot, mulCol,
      divCol, sumL, drawVel, zeroMomentumFlag, resetMomentum, resetCol]
  · norm_num [modifyVelocities, modifyAse, aseWitnessSetup, aseWitnessSrc, kineticEnergy, kinCol, dot, mulCol,
      divCol, sumL, drawVel, zeroMomentumFlag, resetMomentum, resetCol, dekZeroRule]

/-- **dek (ASE), partial.** Consistent exactly under the guard that excludes the defect:
    the repaired order (`kin_new` after `Stationary`) or zero_momentum off. -/
theorem dek_consistent_ase_partial (vk vr : Variant) (s : Setup) (src : Frame) (e : Option Rat)
    (zm : Option Bool) (sigP : List Rat) (z : List (List Rat)) (ha : s.engine = .ase)
    (hguard : vk = .repaired ∨ zeroMomentumFlag .ase zm = false) :
    (modifyVelocities vk vr s src e zm sigP z).kinNew
        = kineticEnergy s.massIn (modifyVelocities vk vr s src e zm sigP z).frame.vel
    ∧ (modifyVelocities vk vr s src e zm sigP z).dek =
        if kineticEnergy s.massIn src.vel = 0 then Dek.inf
        else Dek.val (kineticEnergy s.massIn (modifyVelocities vk vr s src e zm sigP z).frame.vel
                        - kineticEnergy s.massIn src.vel) := by
  rcases hguard with h | h
  · subst h
    simp [modifyVelocities, modifyAse, ha, dekZeroRule]
  · cases vk <;> simp [modifyVelocities, modifyAse, ha, dekZeroRule, h]

example : zeroMomentumFlag .ase none = false := by decide

/-- **kin_new, all five engines (code as it is now).** -/
theorem kinNew_consistent_all (vr : Variant) (s : Setup) (src : Frame) (e : Option Rat)
    (zm : Option Bool) (sig : List Rat) (z : List (List Rat)) :
    (modifyVelocities codeVariant vr s src e zm sig z).kinNew
      = kineticEnergy (mass s) (modifyVelocities codeVariant vr s src e zm sig z).frame.vel := by
  cases hs : s.engine
  case ase =>
    have := (dek_consistent_ase_partial codeVariant vr s src e zm sig z hs (Or.inl rfl)).1
    simpa [mass, hs] using this
  all_goals exact kinNew_consistent _ _ _ _ _ _ _ _ (by simp [hs])

/-- **dek, all five engines (code as it is now).** `dek` is the kinetic energy of the written
    velocities minus the old one — the frame's recomputed energy, or `system.ekin` for GROMACS —
    and `inf` exactly when the old one is zero (GROMACS: `None`). -/
theorem dek_consistent_all (vr : Variant) (s : Setup) (src : Frame) (e : Option Rat)
    (zm : Option Bool) (sig : List Rat) (z : List (List Rat)) :
    (modifyVelocities codeVariant vr s src e zm sig z).dek =
      if s.engine = .gromacs then
        (match e with
         | none => Dek.inf
         | some k => Dek.val (kineticEnergy (mass s)
                        (modifyVelocities codeVariant vr s src e zm sig z).frame.vel - k))
      else if kineticEnergy (mass s) src.vel = 0 then Dek.inf
      else Dek.val (kineticEnergy (mass s) (modifyVelocities codeVariant vr s src e zm sig z).frame.vel
                      - kineticEnergy (mass s) src.vel) := by
  cases hs : s.engine
  case gromacs =>
    simp only [if_true]
    exact dek_consistent_gromacs _ _ _ _ _ _ _ _ hs
  case ase =>
    have := (dek_consistent_ase_partial codeVariant vr s src e zm sig z hs (Or.inl rfl)).2
    simpa [mass, hs] using this
  all_goals
    have := dek_consistent codeVariant vr s src e zm sig z (by simp [hs]) (by simp [hs])
    simpa [hs] using this

example : (modifyVelocities codeVariant codeVariant aseWitnessSetup aseWitnessSrc none (some true) [1, 1]
    [[1, 0], [0, 0], [0, 0]]).kinNew = 1 / 4 := by
  norm_num [modifyVelocities, modifyAse, codeVariant, aseWitnessSetup, aseWitnessSrc, kineticEnergy, kinCol, dot,
    mulCol, divCol, sumL, drawVel, zeroMomentumFlag, resetMomentum, resetCol]

/-- chaining two regenerations on one System (repeated kicks): the second call starts from the frame the
    first one wrote, so its `dek` is measured against *that* frame's kinetic energy, not an older one -/
example (s : Setup) (src : Frame) (e : Option Rat) (zm : Option Bool) (sig sig' : List Rat)
    (z z' : List (List Rat)) (hng : s.engine ≠ .gromacs) :
    let r1 := modifyVelocities codeVariant codeVariant s src e zm sig z
    let r2 := modifyVelocities codeVariant codeVariant s r1.frame (some r1.kinNew) zm sig' z'
    r2.dek = if kineticEnergy (mass s) r1.frame.vel = 0 then Dek.inf
             else Dek.val (kineticEnergy (mass s) r2.frame.vel - kineticEnergy (mass s) r1.frame.vel) := by
  intro r1 r2
  have h := dek_consistent_all codeVariant s r1.frame (some r1.kinNew) zm sig' z'
  simpa [hng] using h

/-! ## 5. only velocities change -/

/-- **Positions, box, identities.** The written frame has the source frame's positions and atom
    identities, and its box whenever the source has one (CP2K substitutes the template's box
    when the frame has no box header; every other engine writes the box field as read). -/
theorem positions_box_ids_preserved (vk vr : Variant) (s : Setup) (src : Frame) (e : Option Rat)
    (zm : Option Bool) (sig : List Rat) (z : List (List Rat)) :
    (modifyVelocities vk vr s src e zm sig z).frame.pos = src.pos
    ∧ (modifyVelocities vk vr s src e zm sig z).frame.ids = src.ids
    ∧ (∀ b, src.box = some b → (modifyVelocities vk vr s src e zm sig z).frame.box = some b)
    ∧ (s.engine ≠ .cp2k → (modifyVelocities vk vr s src e zm sig z).frame.box = src.box) := by
  cases hs : s.engine <;> cases hb : src.box <;> simp_all [modifyVelocities, modifyNumpy, modifyAse]

example : (modifyVelocities .asIs .asIs aseWitnessSetup aseWitnessSrc none none [1, 1] []).frame.pos
    = [[0, 1], [0, 0], [0, 0]] := by
  simp [modifyVelocities, modifyAse, aseWitnessSetup, aseWitnessSrc]

/-! ## 6. the source frame is never altered -/

theorem readFile_writeFile_ne (h : Heap) (f g : Nat) (frames : List Frame) (hne : f ≠ g) :
    (h.writeFile g frames).readFile f = h.readFile f := by
  simp [Heap.readFile, Heap.writeFile, Ne.symm hne]

theorem dumpFrame_effect (h : Heap) (cfg : Nat × Option Nat) (conf : Nat) (h2 : Heap) (fr : Frame)
    (hd : dumpFrame h cfg conf = .ok (h2, fr)) :
    h2.systems = h.systems ∧ h2.objs = h.objs
    ∧ ∀ f, f ≠ conf → h2.readFile f = h.readFile f := by
  unfold dumpFrame at hd
  split at hd
  · cases hd
  · rename_i frames _
    split at hd
    · split at hd
      · cases hd
      · split at hd
        · cases hd; exact ⟨rfl, rfl, fun _ _ => rfl⟩
        · cases hd
          exact ⟨rfl, rfl, fun f hf => readFile_writeFile_ne h f conf frames hf⟩
    · split at hd
      · cases hd
      · cases hd
        exact ⟨rfl, rfl, fun f hf => readFile_writeFile_ne h f conf _ hf⟩

/-- **Source untouched.** `prepare_shooting_point` first makes a (shallow) copy — a new `System`
    object at a fresh address holding the same references — and everything afterwards rebinds
    attributes of that copy only and writes only `exe_dir/conf.<ext>` and `exe_dir/genvel.<ext>`:
    every pre-existing `System` object (in particular the shooting point, every frame of the
    path), every referenced array/list, and every file other than those two is unchanged.
    The copy keeps `temperature/vel_rev/vpot`, gets the new `config` and `ekin`, and its
    `order`, `pos`, `vel` (and `box`) are rebound to *fresh* objects (addresses beyond the old heap). -/
theorem source_frame_untouched (vk vr : Variant) (s : Setup) (h : Heap) (a conf genvel : Nat)
    (zm : Option Bool) (sig : List Rat) (z : List (List Rat)) (newOrder : List Rat) (sh : Shoot)
    (hok : prepareShootingPoint vk vr s h a conf genvel zm sig z newOrder = .ok sh) :
    (∀ i, i < h.systems.length → sh.heap.systems[i]? = h.systems[i]?)
    ∧ (∀ i, i < h.objs.length → sh.heap.objs[i]? = h.objs[i]?)
    ∧ (∀ f, f ≠ conf → f ≠ genvel → sh.heap.readFile f = h.readFile f)
    ∧ sh.copy = h.systems.length
    ∧ ∃ sp sp', h.systems[a]? = some sp ∧ sh.heap.systems[sh.copy]? = some sp'
        ∧ sp'.temperature = sp.temperature ∧ sp'.velRev = sp.velRev ∧ sp'.vpot = sp.vpot
        ∧ sp'.config = (genvel, some 0)
        ∧ h.objs.length ≤ sp'.order ∧ h.objs.length ≤ sp'.pos ∧ h.objs.length ≤ sp'.vel := by
  unfold prepareShootingPoint at hok
  split at hok
  · cases hok
  · rename_i sp hsp
    simp only at hok
    split at hok
    · cases hok
    · rename_i h2 fr hd
      have ⟨hs2, ho2, hf2⟩ := dumpFrame_effect _ _ _ _ _ hd
      cases hok
      refine ⟨?_, ?_, ?_, rfl, sp, _, hsp, List.getElem?_concat_length, rfl, rfl, rfl, rfl, ?_, ?_, ?_⟩
      · intro i hi
        simp [List.getElem?_append_left hi]
      · intro i hi
        simp only [Heap.writeFile, ho2]
        simp [List.getElem?_append_left hi]
      · intro f hfc hfg
        change (h2.writeFile genvel _).readFile f = h.readFile f
        rw [readFile_writeFile_ne _ f genvel _ hfg, hf2 f hfc]
        rfl
      all_goals
        simp only [Heap.writeFile, ho2]
        omega

example : ∃ sh, prepareShootingPoint .asIs .asIs aseWitnessSetup
    { systems := [⟨(7, some 0), 0, 1, 1, 1, 1, false, none, none⟩], objs := [[5], []],
      files := [(7, [aseWitnessSrc])] } 0 100 101 (some true) [1, 1] [[1, 0], [0, 0], [0, 0]] [3]
    = .ok sh := ⟨_, rfl⟩

/-! ## 7. the only draw request is `normal` on the engine's own stream -/

/-- **Request (GROMACS, CP2K, LAMMPS, TurtleMD).** One request: `normal`, loc 0, per-particle
    scale² = (1/β)(1/mᵢ), shape (npart, dim), on the engine's `rgen`.
    Domain (audit follow-up, §14): `modifyVelocities` is the shape-consistent core — the real code asks for
    `vel.shape[0]` particles, which is `(mass s).length` exactly when the frame has as many atoms as the engine has
    masses.  Read for EVERY input ("npart = number of masses") the statement is false of the real code: see
    `length_one_broadcast_counterexample`; the guarded end-to-end form is `headlines_shape_guarded`. -/
theorem request_on_engine_stream (vk vr : Variant) (s : Setup) (src : Frame) (e : Option Rat)
    (zm : Option Bool) (sig : List Rat) (z : List (List Rat)) (hne : s.engine ≠ .ase) :
    (modifyVelocities vk vr s src e zm sig z).request =
      { stream := .engineRgen, method := "normal", loc := 0,
        scaleSq := some (sigmaSq (beta s) (mass s)), npart := (mass s).length, dim := src.vel.length } := by
  cases hs : s.engine <;> simp_all [modifyVelocities, modifyNumpy]

/-- **Finding `C16:ase:global-rng`.** The ASE engine as it is sends its draw to numpy's global
    state, not to the engine's `rgen`. -/
theorem request_on_engine_stream_ase_counterexample :
    (modifyVelocities .asIs .asIs aseWitnessSetup aseWitnessSrc none none [1, 1] []).request.stream
      = Stream.numpyGlobal := rfl

/-- **Request, partial (all engines).** On the engine's stream for every engine except ASE as it
    is; for ASE the request is `standard_normal((npart, 3))`. -/
theorem request_on_engine_stream_partial (vk vr : Variant) (s : Setup) (src : Frame) (e : Option Rat)
    (zm : Option Bool) (sig : List Rat) (z : List (List Rat))
    (hguard : s.engine ≠ .ase ∨ vr = .repaired) :
    (modifyVelocities vk vr s src e zm sig z).request.stream = .engineRgen := by
  rcases hguard with h | h
  · rw [request_on_engine_stream vk vr s src e zm sig z h]
  · subst h
    cases hs : s.engine <;> simp [modifyVelocities, modifyNumpy, modifyAse, hs]

example : (⟨.lammps, 300, 1, [1, 2], []⟩ : Setup).engine ≠ .ase ∨ Variant.asIs = Variant.repaired :=
  Or.inl (by decide)

/-- **Request, all five engines (code as it is now).** The single draw request of
    `modify_velocities` is on the engine's own `rgen`, with location 0: `normal` with the
    per-particle scale for GROMACS/CP2K/LAMMPS/TurtleMD, `standard_normal((npart, 3))` for ASE. -/
theorem request_on_engine_stream_all (vk : Variant) (s : Setup) (src : Frame) (e : Option Rat)
    (zm : Option Bool) (sig : List Rat) (z : List (List Rat)) :
    (modifyVelocities vk codeVariant s src e zm sig z).request.stream = .engineRgen
    ∧ (modifyVelocities vk codeVariant s src e zm sig z).request.loc = 0
    ∧ (modifyVelocities vk codeVariant s src e zm sig z).request.method
        = (if s.engine = .ase then "standard_normal" else "normal") := by
  refine ⟨request_on_engine_stream_partial vk codeVariant s src e zm sig z (Or.inr rfl), ?_, ?_⟩
  all_goals cases hs : s.engine <;> simp [modifyVelocities, modifyNumpy, modifyAse, hs]

example : (modifyVelocities .asIs codeVariant aseWitnessSetup aseWitnessSrc none none [1, 1] []).request.stream
    = Stream.engineRgen := rfl

/-! ## 8. settings routing: what the MOVES hand to `modify_velocities`

`tis_set` doubles as `vel_settings`; `prepare_shooting_point` (the only call site of `modify_velocities`)
passes `ens_set["tis_set"]`.  Model: `Infretis/Model/VelRoute.lean` (`routeSettings`, `wfSubSettings`, `nJumps`,
`moveRegenerations`).  The statements below are about the dicts the engine SEES on every route, not about a
direct call of `modify_velocities`. -/
section Routing
open Infretis.VelRoute

/-- **Wire fencing's sub-move settings.** The two in-place writes (`allowmaxlength = True`, `maxlength` := itself)
    leave every other configured key — `zero_momentum` and anything else an engine may read — with its configured
    value; no key is lost.  (As the code is, the dict is the ensemble's own `tis_set`, which therefore carries
    `allowmaxlength = True` from the first wire-fencing move on.) -/
theorem wf_sub_settings_keep_configured (ts d : Settings) (h : wfSubSettings ts = .ok d) :
    (∀ k, k ≠ "allowmaxlength" → getKey d k = getKey ts k)
    ∧ getKey d "allowmaxlength" = some (.bool true)
    ∧ getKey d "maxlength" = getKey ts "maxlength" :=
  ⟨(wfSubSettings_getKey ts d h).1, (wfSubSettings_getKey ts d h).2,
   (wfSubSettings_getKey ts d h).1 "maxlength" (by decide)⟩

example : wfSubSettings [("maxlength", .int 60), ("allowmaxlength", .bool false), ("zero_momentum", .bool true),
      ("n_jumps", .int 3)]
    = .ok [("maxlength", .int 60), ("allowmaxlength", .bool true), ("zero_momentum", .bool true),
      ("n_jumps", .int 3)] := by decide

/-- **The engine sees the configured settings on every route.** For `shoot` the dict handed to
    `modify_velocities` IS the ensemble's `tis_set`; for every wire-fencing sub-shoot it agrees with the configured
    `tis_set` on every key but `allowmaxlength`; the zero swaps hand nothing (no regeneration). -/
theorem route_settings_eq_configured (mv : Move) (ts : Settings) (hasSeg : Bool) (r : Routed)
    (h : routeSettings mv ts hasSeg = .ok r) :
    (∀ d ∈ r.calls, ∀ k, k ≠ "allowmaxlength" → getKey d k = getKey ts k)
    ∧ (mv = .sh → r.calls = [ts] ∧ r.tisSetAfter = ts)
    ∧ (mv = .zeroSwap → r.calls = [] ∧ r.tisSetAfter = ts) := by
  refine ⟨routeSettings_getKey mv ts hasSeg r h, ?_, ?_⟩
  · intro hmv
    subst hmv
    simp only [routeSettings] at h
    split at h
    · cases h
    · cases h; exact ⟨rfl, rfl⟩
  · intro hmv
    subst hmv
    simp only [routeSettings] at h
    split at h
    · cases h
    · cases h; exact ⟨rfl, rfl⟩

example : ∃ r, routeSettings .wf [("maxlength", .int 60), ("zero_momentum", .bool true)] true = .ok r
    ∧ r.calls.length = 2 := ⟨_, rfl, rfl⟩

/-- **Every key an engine reads, and the flag in effect, are the configured ones on every route** — for each of the
    five engines, whatever its own default. -/
theorem route_flag_eq_configured (mv : Move) (ts : Settings) (hasSeg : Bool) (r : Routed)
    (h : routeSettings mv ts hasSeg = .ok r) (e : Engine) :
    ∀ d ∈ r.calls, (∀ k ∈ readKeys e, getKey d k = getKey ts k)
      ∧ zmEntry d = zmEntry ts
      ∧ effectiveZeroMomentum e d = effectiveZeroMomentum e ts
      ∧ gmxOwnGenvelRefuses d = gmxOwnGenvelRefuses ts := by
  intro d hd
  have hk := routeSettings_getKey mv ts hasSeg r h d hd "zero_momentum" (by decide)
  refine ⟨?_, zmEntry_congr d ts hk, ?_, ?_⟩
  · intro k hkr
    simp only [readKeys, List.mem_singleton] at hkr
    subst hkr
    exact hk
  · simp [effectiveZeroMomentum, zmEntry_congr d ts hk]
  · simp [gmxOwnGenvelRefuses, hk]

example : effectiveZeroMomentum .turtlemd [("maxlength", .int 60), ("zero_momentum", .bool true)] = true
    ∧ effectiveZeroMomentum .cp2k [("maxlength", .int 60), ("zero_momentum", .int 0)] = false
    -- a fresh dict holding only the two keys wire fencing writes would fall back to the engine defaults:
    ∧ effectiveZeroMomentum .turtlemd [("allowmaxlength", .bool true), ("maxlength", .int 60)] = false
    ∧ effectiveZeroMomentum .cp2k [("allowmaxlength", .bool true), ("maxlength", .int 60)] = true := by decide

/-- **How many regenerations a move makes.** `shoot`: one; wire fencing with a segment: `n_jumps` (2 when the key is
    absent; `True` counts as 1, a negative integer as 0); wire fencing without a segment and the zero swaps: none. -/
theorem route_call_count (ts : Settings) (r : Routed) :
    (routeSettings .sh ts hs = .ok r → r.calls.length = 1)
    ∧ (routeSettings .wf ts true = .ok r → ∃ n, nJumps ts = .ok n ∧ r.calls.length = n)
    ∧ (routeSettings .wf ts false = .ok r → r.calls = [])
    ∧ (routeSettings .zeroSwap ts hs = .ok r → r.calls = []) := by
  refine ⟨?_, ?_, ?_, ?_⟩
  · intro h
    simp only [routeSettings] at h
    split at h
    · cases h
    · cases h; rfl
  · intro h
    simp only [routeSettings] at h
    split at h
    · rename_i hc; simp at hc
    · split at h
      · cases h
      · split at h
        · cases h
        · rename_i n hn
          cases h
          exact ⟨n, hn, by simp⟩
  · intro h
    simp only [routeSettings] at h
    split at h
    · cases h; rfl
    · rename_i hc; simp at hc
  · intro h
    simp only [routeSettings] at h
    split at h
    · cases h
    · cases h; rfl

example : nJumps [("n_jumps", .bool true)] = .ok 1 ∧ nJumps [] = .ok 2 ∧ nJumps [("n_jumps", .int (-3))] = .ok 0
    ∧ nJumps [("n_jumps", .float 3)] = .error (.typeError "range:float") := by decide

/-- a move raises before any regeneration exactly when `maxlength` is missing (KeyError) or, for wire fencing with
    a segment, `n_jumps` is not an integer (TypeError from `range`) -/
theorem route_error_iff (mv : Move) (ts : Settings) (hasSeg : Bool) :
    (∃ e, routeSettings mv ts hasSeg = .error e) ↔
      ((mv ≠ .wf ∨ hasSeg = true) ∧ getKey ts "maxlength" = none)
      ∨ (mv = .wf ∧ hasSeg = true ∧ ∃ e, nJumps ts = .error e) := by
  have hne : ("maxlength" : String) ≠ "allowmaxlength" := by decide
  cases mv <;> cases hasSeg <;> cases hm : getKey ts "maxlength" <;> cases hn : nJumps ts <;>
    simp [routeSettings, wfSubSettings, getKey_setKey_ne _ _ _ _ hne, hm, hn]

example : routeSettings .sh [("zero_momentum", .bool true)] false = .error (.keyError "maxlength") := by decide

/-- **End to end: every regeneration of a move uses the configured flag.** The velocity regenerations of a whole
    move (`moveRegenerations`: route, then `modify_velocities` per call with the flag read from the dict that call
    was handed) are exactly `modify_velocities` with the CONFIGURED `tis_set`'s entry, once per routed call. -/
theorem move_regenerations_use_configured (vk vr : Variant) (s : Setup) (mv : Move) (ts : Settings)
    (hasSeg : Bool) (inputs : List CallInput) (rs : List Result)
    (h : moveRegenerations vk vr s mv ts hasSeg inputs = .ok rs) :
    ∃ r, routeSettings mv ts hasSeg = .ok r
      ∧ rs = (inputs.take r.calls.length).map
               (fun i => modifyVelocities vk vr s i.src i.sysEkin (zmEntry ts) i.sig i.z) := by
  unfold moveRegenerations at h
  split at h
  · cases h
  · rename_i r hr
    cases h
    refine ⟨r, hr, regenerate_eq_map vk vr s ts r.calls inputs ?_⟩
    intro d hd
    have := (route_flag_eq_configured mv ts hasSeg r hr s.engine d hd).2.2.1
    simpa [effectiveZeroMomentum] using this

/-- **Zero momentum iff requested, on every route.** For every regenerated shooting point of a `shoot` or
    wire-fencing move (any number of jumps), in every engine:
    * if the configured `tis_set` requests zero momentum (entry truthy, or absent with CP2K's default), the written
      velocities carry no total momentum;
    * if it does not (entry falsy, or absent with the other engines' default), the written velocities are the
      untouched Gaussian draw `σ·z` (LAMMPS: divided by `scale`) — nothing is projected out. -/
theorem move_zero_momentum_iff_requested (vk vr : Variant) (s : Setup) (mv : Move) (ts : Settings)
    (hasSeg : Bool) (inputs : List CallInput) (rs : List Result)
    (h : moveRegenerations vk vr s mv ts hasSeg inputs = .ok rs)
    (hne : mass s ≠ []) (hpos : ∀ m ∈ mass s, 0 < m)
    (hshape : ∀ i ∈ inputs, i.sig.length = (mass s).length ∧ ∀ col ∈ i.z, col.length = (mass s).length) :
    ∀ r ∈ rs,
      (effectiveZeroMomentum s.engine ts = true →
        momentum (mass s) r.frame.vel = r.frame.vel.map (fun _ => 0))
      ∧ (effectiveZeroMomentum s.engine ts = false → s.engine ≠ .ase →
        ∃ i ∈ inputs, r.frame.vel =
          if s.engine = .lammps then (drawVel i.sig i.z).map (fun col => col.map (fun v => v / lammpsScale))
          else drawVel i.sig i.z) := by
  obtain ⟨rt, _, hrs⟩ := move_regenerations_use_configured vk vr s mv ts hasSeg inputs rs h
  intro r hr
  rw [hrs, List.mem_map] at hr
  obtain ⟨i, hi, rfl⟩ := hr
  have hi' : i ∈ inputs := List.mem_of_mem_take hi
  constructor
  · intro hflag
    exact modify_zero_momentum vk vr s i.src i.sysEkin (zmEntry ts) i.sig i.z hflag hne hpos
      (hshape i hi').1 (hshape i hi').2
  · intro hflag hase
    exact ⟨i, hi', vel_eq_sigma_z s i.src i.sysEkin i.sig i.z hflag hase⟩

example : ∃ rs, moveRegenerations codeVariant codeVariant
      { engine := .turtlemd, temperature := 300, boltzmann := 1, massIn := [1, 3] } .wf
      [("maxlength", .int 60), ("zero_momentum", .bool true), ("n_jumps", .int 2)] true
      [⟨aseWitnessSrc, none, [1, 1], [[1, 0], [0, 0], [0, 0]]⟩, ⟨aseWitnessSrc, none, [1, 2], [[0, 1], [1, 0], [0, 0]]⟩]
    = .ok rs ∧ rs.length = 2 := ⟨_, rfl, rfl⟩

end Routing

/-! ## 9. degrees of freedom: what the zero-momentum projection leaves of `⟨m v²⟩ = k_BT`

The draw gives independent components with variance `σₖ² = k_BT/mₖ` (§1).  `reset_momentum` is the linear map
`v'ᵢ = Σₖ (δᵢₖ − mₖ/M) vₖ` on every Cartesian column; the variance of a linear combination of independent variables
is `Σₖ cᵢₖ² σₖ²` (probability theory, outside the model like the Gaussian itself; `quadForm` is that sum).
As the code is (no rescaling after the projection — ase_engine.py says so: `preserve_temperature=False`, "the other
engines do not bother"): without zero momentum every component has variance `k_BT/m` (3N degrees of freedom with
`⟨m v²⟩ = k_BT` each); with zero momentum component `i` has variance `(1 − mᵢ/M)·k_BT/mᵢ` and each Cartesian
direction carries `(N−1)·k_BT`: `⟨Σ m v²⟩ = k_BT` per REMAINING degree of freedom (3N−3), not per component. -/
section DegreesOfFreedom

/-- **`reset_momentum` is the projection `v'ᵢ = Σₖ (δᵢₖ − mₖ/M)·vₖ`**, entry by entry. -/
theorem reset_momentum_is_projection (ms col : List Rat) (i : Nat) (ci : Rat)
    (hlen : col.length = ms.length) (hci : col[i]? = some ci) :
    (resetCol ms col)[i]? = some (dot (coeffRow (sumL ms) ms i) col)
    ∧ dot (coeffRow (sumL ms) ms i) col = ci - dot ms col / sumL ms :=
  ⟨resetCol_getElem? ms col i ci hlen hci, dot_coeffRow (sumL ms) ms col i ci hlen hci⟩

example : (resetCol [1, 3] [2, -1])[0]? = some (dot (coeffRow 4 [1, 3] 0) [2, -1])
    ∧ dot (coeffRow 4 [1, 3] 0) [2, -1] = 9 / 4 := by
  norm_num [resetCol, coeffRow, dot, sumL]

/-- **Variance after the projection.** With component variances `k_BT/mₖ`, the `i`-th projected component has
    variance `Σₖ (δᵢₖ − mₖ/M)²·k_BT/mₖ = k_BT·(1/mᵢ − 1/M) = (1 − mᵢ/M)·k_BT/mᵢ` — exact, for any masses. -/
theorem projected_component_variance (kT : Rat) (ms : List Rat) (i : Nat) (mi : Rat)
    (hm : ∀ m ∈ ms, m ≠ 0) (hM : sumL ms ≠ 0) (hmi : ms[i]? = some mi) :
    quadForm (coeffRow (sumL ms) ms i) (ms.map (fun m => kT / m)) = kT * (1 / mi - 1 / sumL ms)
    ∧ kT * (1 / mi - 1 / sumL ms) = (1 - mi / sumL ms) * (kT / mi) := by
  have hmi0 : mi ≠ 0 := hm mi (List.mem_of_getElem? hmi)
  constructor
  · rw [quadForm_coeffRow kT (sumL ms) hM ms i mi hm hmi]
    field_simp
    ring
  · field_simp

example : quadForm (coeffRow 4 [1, 3] 0) ([1, 3].map (fun m => (2 : Rat) / m)) = 2 * (1 / 1 - 1 / 4) := by
  norm_num [quadForm, coeffRow, mulCol, dot]

/-- **`⟨m v²⟩` per direction after the projection: `(N−1)·k_BT`.** Summed over the atoms, mass × variance of one
    Cartesian direction is `(N − 1)·k_BT`: the projection removes exactly one degree of freedom per direction and
    the remaining ones carry `k_BT` each (equipartition over 3N−3 degrees of freedom, no rescaling needed). -/
theorem projected_mv2_per_direction (kT : Rat) (ms : List Rat) (hm : ∀ m ∈ ms, m ≠ 0) (hM : sumL ms ≠ 0) :
    sumL (ms.map (fun m => m * (kT * (1 / m - 1 / sumL ms)))) = (ms.length - 1) * kT := by
  rw [sumL_mass_times_var kT (sumL ms) ms hm]
  field_simp

example : sumL ([1, 3].map (fun m => m * ((2 : Rat) * (1 / m - 1 / sumL [1, 3])))) = (2 - 1) * 2 := by
  norm_num [sumL]

/-- **The literal per-component reading fails under zero momentum** (positive masses, `k_BT > 0`): every projected
    component has variance strictly below `k_BT/mᵢ`; for a single atom it is 0.  So "variance `k_BT/m` for each
    component" and "zero total momentum" exclude each other — the property's `⟨m v²⟩ = k_BT` holds per degree of
    freedom (previous theorem), per component only when zero momentum is off (`vel_eq_sigma_z`). -/
theorem projected_variance_lt_unprojected (kT : Rat) (hkT : 0 < kT) (ms : List Rat) (i : Nat) (mi : Rat)
    (hpos : ∀ m ∈ ms, 0 < m) (hne : ms ≠ []) (hmi : ms[i]? = some mi) :
    kT * (1 / mi - 1 / sumL ms) < kT / mi
    ∧ (ms = [mi] → kT * (1 / mi - 1 / sumL ms) = 0) := by
  have hM : 0 < sumL ms := sumL_pos ms hne hpos
  have hmi0 : 0 < mi := hpos mi (List.mem_of_getElem? hmi)
  constructor
  · have : 0 < kT * (1 / sumL ms) := mul_pos hkT (one_div_pos.mpr hM)
    have e : kT * (1 / mi - 1 / sumL ms) = kT / mi - kT * (1 / sumL ms) := by ring
    rw [e]
    linarith
  · intro h
    subst h
    simp [sumL]

example : (2 : Rat) * (1 / 1 - 1 / sumL [1, 3]) < 2 / 1 := by norm_num [sumL]

end DegreesOfFreedom

/-! ## 10. the helpers' remaining branches (`kinetic_energy` for one atom, `sigma_v` argument, missing `rgen`) -/
section Helpers

/-- **`kinetic_energy` as written equals the trace formula on every shape the engines use**, including its
    `len(mass) == 1` branch (`np.outer` of the flattened arrays) for a one-atom system. -/
theorem kineticEnergyCode_eq (ms : List Rat) (vel : List (List Rat))
    (hshape : ∀ col ∈ vel, col.length = ms.length) :
    kineticEnergyCode ms vel = kineticEnergy ms vel := by
  unfold kineticEnergyCode
  split
  · rename_i h1
    obtain ⟨m, rfl⟩ := List.length_eq_one_iff.mp h1
    unfold kineticEnergy
    induction vel with
    | nil => simp [dot, sumL]
    | cons col rest ih =>
      have hc : col.length = 1 := by simpa using hshape col (by simp)
      obtain ⟨v, rfl⟩ := List.length_eq_one_iff.mp hc
      have ih' := ih (fun c hcm => hshape c (by simp [hcm]))
      simp only [List.map_cons, List.flatten_cons, mulCol, List.singleton_append, dot, sumL, kinCol] at ih' ⊢
      rw [← ih']
      ring
  · rfl

example : kineticEnergyCode [2] [[1], [0], [3]] = 10 ∧ kineticEnergyCode [1, 2] [[1, 1], [0, 2]] = 11 / 2 := by
  norm_num [kineticEnergyCode, kineticEnergy, kinCol, dot, mulCol, sumL]

/-- **The `sigma_v` argument.** `None` or any negative entry → the scale is estimated, `σᵢ² = (1/β)(1/mᵢ)`; an
    explicit non-negative `sigma_v` (also all zeros) is used as given; without `rgen` the call raises and makes no
    request; with it there is one request, `normal` with location 0 on the engine's stream. -/
theorem draw_maxwellian_rule (bet : Rat) (ms : List Rat) (sv : List Rat) (npart dim : Nat) :
    drawScaleSq bet ms none = sigmaSq bet ms
    ∧ ((∀ x ∈ sv, 0 ≤ x) → drawScaleSq bet ms (some sv) = sv.map (fun x => x * x))
    ∧ ((∃ x ∈ sv, x < 0) → drawScaleSq bet ms (some sv) = sigmaSq bet ms)
    ∧ drawMaxwellian false bet ms (some sv) npart dim = .error .noRgen
    ∧ drawMaxwellian true bet ms none npart dim
        = .ok { stream := .engineRgen, method := "normal", loc := 0, scaleSq := some (sigmaSq bet ms),
                npart := npart, dim := dim } := by
  refine ⟨rfl, ?_, ?_, rfl, rfl⟩
  · intro h
    have : sv.any (fun x => decide (x < 0)) = false := by
      rw [List.any_eq_false]
      intro x hx
      simpa using h x hx
    simp [drawScaleSq, this]
  · intro ⟨x, hx, hneg⟩
    have : sv.any (fun x => decide (x < 0)) = true := by
      rw [List.any_eq_true]
      exact ⟨x, hx, by simpa using hneg⟩
    simp [drawScaleSq, this]

example : drawScaleSq 2 [1, 4] (some [0, 0]) = [0, 0] ∧ drawScaleSq 2 [1, 4] (some [1, -1]) = [1 / 2, 1 / 8] := by
  norm_num [drawScaleSq, sigmaSq]

/-- the request of `modify_velocities` (four numpy engines) IS `draw_maxwellian_velocities` with `sigma_v=None` on
    an engine that has its `rgen` -/
theorem modify_request_is_draw_maxwellian (vk vr : Variant) (s : Setup) (src : Frame) (e : Option Rat)
    (zm : Option Bool) (sig : List Rat) (z : List (List Rat)) (hne : s.engine ≠ .ase) :
    drawMaxwellian true (beta s) (mass s) none (mass s).length src.vel.length
      = .ok (modifyVelocities vk vr s src e zm sig z).request := by
  rw [request_on_engine_stream vk vr s src e zm sig z hne]
  rfl

/-- **CP2K masses.** `guess_particle_mass` refuses exactly the element names that are not in the table and otherwise
    gives the table mass times the conversion factor; the engine's mass vector (`Vel.mass`) is that, atom by atom. -/
theorem guess_particle_mass_rule (tbl : List Rat) (T b : Rat) (tb : List Rat) :
    guessParticleMass none = .error .unknownElement
    ∧ (∀ m, guessParticleMass (some m) = .ok (cp2kMassFactor * m))
    ∧ (mass ⟨.cp2k, T, b, tbl, tb⟩).map Except.ok
        = tbl.map (fun m => (guessParticleMass (some m) : Except MassErr Rat)) := by
  refine ⟨rfl, fun _ => rfl, ?_⟩
  simp [mass, guessParticleMass, List.map_map, Function.comp_def]

example : guessParticleMass (some 1) = .ok (18228884858012982 / 10000000000000) := by
  simp [guessParticleMass, cp2kMassFactor]

end Helpers

/-! ## 11. the file flow, engine by engine: which frame is read, what is written, what stays

Model: `Infretis/Model/VelFlow.lean` (`extractFrame`, `readConf`, `dumpFrameE`, `prepareShootingPointE`): each
engine's own `_extract_frame` / first read, quirks included.  §6 (`source_frame_untouched`) is the same statement for
the engine-blind `Vel.dumpFrame`; here it is proved for what every engine really does with its files. -/
section FileFlow
open Infretis.VelFlow

/-- **Never alters the frame it was taken from — every engine.** `prepare_shooting_point` with the engine's own file
    flow leaves every pre-existing `System` object, every referenced array and every file other than
    `exe_dir/conf.<ext>` and `exe_dir/genvel.<ext>` as they were (in particular the trajectory file the shooting point
    lives in: same frames, whatever the frame index and `vel_rev`); the returned copy points to frame 0 of
    `genvel.<ext>`, keeps `vel_rev` (nothing is reversed before or after the regeneration: `kin_old` is taken from the
    stored velocities, whose sign does not matter), `temperature`, `vpot`; and `genvel.<ext>` holds ONE frame with the
    positions and identities of the frame that was read, and its box when it has one. -/
theorem source_untouched_every_engine (vk vr : Variant) (s : Setup) (g : GmxSrc) (top : List Nat) (h : Heap)
    (a conf genvel : Nat) (zm : Option Bool) (sig : List Rat) (z : List (List Rat)) (newOrder : List Rat)
    (sh : ShootE)
    (hok : prepareShootingPointE vk vr s g top h a conf genvel zm sig z newOrder = .ok sh) :
    (∀ i, i < h.systems.length → sh.heap.systems[i]? = h.systems[i]?)
    ∧ (∀ i, i < h.objs.length → sh.heap.objs[i]? = h.objs[i]?)
    ∧ (∀ f, f ≠ conf → f ≠ genvel → sh.heap.readFile f = h.readFile f)
    ∧ sh.copy = h.systems.length
    ∧ (∃ sp sp', h.systems[a]? = some sp ∧ sh.heap.systems[sh.copy]? = some sp'
        ∧ sp'.temperature = sp.temperature ∧ sp'.velRev = sp.velRev ∧ sp'.vpot = sp.vpot
        ∧ sp'.config = (genvel, some 0))
    ∧ (∃ fw, sh.heap.readFile genvel = some [fw] ∧ fw.pos = sh.readFrame.pos ∧ fw.ids = sh.readFrame.ids
        ∧ ∀ b, sh.readFrame.box = some b → fw.box = some b) := by
  unfold prepareShootingPointE at hok
  split at hok
  · cases hok
  · rename_i sp hsp
    simp only at hok
    split at hok
    · cases hok
    · rename_i h2 fr hd
      have ⟨hs2, ho2, hf2⟩ := dumpFrameE_effect _ _ _ _ _ _ _ _ hd
      cases hok
      have hpres := positions_box_ids_preserved vk vr s fr sp.ekin zm sig z
      refine ⟨?_, ?_, ?_, rfl, ⟨sp, _, hsp, List.getElem?_concat_length, rfl, rfl, rfl, rfl⟩,
              ⟨_, ?_, hpres.1, hpres.2.1, hpres.2.2.1⟩⟩
      · intro i hi
        simp [List.getElem?_append_left hi]
      · intro i hi
        simp only [Heap.writeFile, ho2]
        simp [List.getElem?_append_left hi]
      · intro f hfc hfg
        change (h2.writeFile genvel _).readFile f = h.readFile f
        rw [readFile_writeFile_ne _ f genvel _ hfg, hf2 f hfc]
        rfl
      · change (h2.writeFile genvel _).readFile genvel = _
        rw [readFile_writeFile_self]

/-- **The regeneration starts from the requested frame — every engine, any index that is in the file.** With the
    shooting point at `(src, i)`, `src` a file other than `conf.<ext>`/`genvel.<ext>` holding frame `fr` at index `i`
    (also `i > 0`, also `vel_rev = True`), the frame read is `fr` (GROMACS from a `.trr`: with the topology's
    identities), `genvel.<ext>` gets its positions/identities/box, and `src` still holds the same frames. -/
theorem regenerates_requested_frame (vk vr : Variant) (s : Setup) (g : GmxSrc) (top : List Nat) (h : Heap)
    (a src i conf genvel : Nat) (sp : Sys) (frames : List Frame) (fr : Frame)
    (zm : Option Bool) (sig : List Rat) (z : List (List Rat)) (newOrder : List Rat)
    (hsp : h.systems[a]? = some sp) (hcfg : sp.config = (src, some i))
    (hsrc : h.readFile src = some frames) (hfr : frames[i]? = some fr)
    (hsc : src ≠ conf) (hsg : src ≠ genvel)
    (hg : s.engine = .gromacs → g = .trr ∨ (g = .g96 ∧ frames = [fr])) :
    ∃ sh, prepareShootingPointE vk vr s g top h a conf genvel zm sig z newOrder = .ok sh
      ∧ sh.readFrame = (if s.engine = .gromacs ∧ g = .trr then { fr with ids := top } else fr)
      ∧ sh.heap.readFile src = some frames := by
  have hg' : s.engine = .gromacs → g = .trr ∨ (g = .g96 ∧ frames = [fr] ∧ src ≠ conf) := by
    intro he
    rcases hg he with h1 | ⟨h1, h2⟩
    · exact Or.inl h1
    · exact Or.inr ⟨h1, h2, hsc⟩
  let h1 : Heap := { h with systems := h.systems ++ [sp] }
  have hsrc1 : h1.readFile src = some frames := hsrc
  obtain ⟨h2, hd, _⟩ := dumpFrameE_in_range s.engine g top h1 src i conf frames fr hsrc1 hfr hg'
  have hd' : dumpFrameE s.engine g top h1 sp.config conf
      = .ok (h2, if s.engine = .gromacs ∧ g = .trr then { fr with ids := top } else fr) := by
    rw [hcfg]; exact hd
  have hstep : ∃ sh, prepareShootingPointE vk vr s g top h a conf genvel zm sig z newOrder = .ok sh
      ∧ sh.readFrame = (if s.engine = .gromacs ∧ g = .trr then { fr with ids := top } else fr) := by
    unfold prepareShootingPointE
    simp only [hsp]
    rw [hd']
    exact ⟨_, rfl, rfl⟩
  obtain ⟨sh, hok, hrf⟩ := hstep
  refine ⟨sh, hok, hrf, ?_⟩
  rw [(source_untouched_every_engine vk vr s g top h a conf genvel zm sig z newOrder sh hok).2.2.1 src hsc hsg]
  exact hsrc

example : ∃ sh, prepareShootingPointE codeVariant codeVariant aseWitnessSetup .g96 []
    { systems := [⟨(7, some 1), 0, 1, 1, 1, 1, true, none, none⟩], objs := [[5], []],
      files := [(7, [{ aseWitnessSrc with ids := [2, 2] }, aseWitnessSrc])] } 0 100 101 (some true) [1, 1]
      [[1, 0], [0, 0], [0, 0]] [3] = .ok sh ∧ sh.readFrame = aseWitnessSrc := ⟨_, rfl, rfl⟩

/-- index `None` (a single-frame configuration file, e.g. the initial configuration): every engine regenerates from
    that frame, whether or not the file already is `conf.<ext>` -/
theorem regenerates_single_frame_file (e : Engine) (g : GmxSrc) (top : List Nat) (h : Heap) (src conf : Nat)
    (fr : Frame) (hsrc : h.readFile src = some [fr]) :
    ∃ h2, dumpFrameE e g top h (src, none) conf = .ok (h2, fr) :=
  dumpFrameE_none_single e g top h src conf fr hsrc

/-- **What the engines do with an index that is NOT in the file** (as the code is; not reachable through a path's own
    phase points): CP2K and TurtleMD only log an error and then regenerate from the frame an EARLIER call left in
    `conf.xyz` (here frame `stale`, of another file) — FileNotFoundError when there is none; LAMMPS and ASE raise
    IndexError, GROMACS ValueError for a `.trr`; a GROMACS `.g96` is copied whole whatever the index. -/
theorem missing_index_behaviour (fr stale : Frame) (i : Nat) (hi : 1 ≤ i) :
    let h : Heap := { systems := [], objs := [], files := [(7, [fr]), (100, [stale])] }
    let h0 : Heap := { systems := [], objs := [], files := [(7, [fr])] }
    dumpFrameE .cp2k .other [] h (7, some i) 100 = .ok (h, stale)
    ∧ dumpFrameE .turtlemd .other [] h (7, some i) 100 = .ok (h, stale)
    ∧ dumpFrameE .turtlemd .other [] h0 (7, some i) 100 = .error .nofile
    ∧ dumpFrameE .lammps .other [] h (7, some i) 100 = .error .index
    ∧ dumpFrameE .ase .other [] h (7, some i) 100 = .error .index
    ∧ dumpFrameE .gromacs .trr [] h (7, some i) 100 = .error .value
    ∧ dumpFrameE .gromacs .g96 [] h (7, some i) 100 = .ok (h.writeFile 100 [fr], fr) := by
  have hi' : ([fr] : List Frame)[i]? = none := by
    cases i with
    | zero => omega
    | succ k => simp
  simp [dumpFrameE, extractFrame, hi', Heap.readFile, Heap.writeFile, readConf]

/-- a multi-frame file referenced with index `None` is copied whole; ASE then reads its LAST image, the others the
    first -/
example (f0 f1 : Frame) :
    let h : Heap := { systems := [], objs := [], files := [(7, [f0, f1])] }
    dumpFrameE .ase .other [] h (7, none) 100 = .ok (h.writeFile 100 [f0, f1], f1)
    ∧ dumpFrameE .lammps .other [] h (7, none) 100 = .ok (h.writeFile 100 [f0, f1], f0) := by
  constructor <;> simp [dumpFrameE, Heap.readFile, Heap.writeFile, readConf]

/-- on every input the engine-blind `Vel.dumpFrame` (§6) accepts with an index, the engine-aware flow of CP2K,
    LAMMPS, ASE and TurtleMD reads the same frame (the old statements carry over) -/
theorem dumpFrameE_agrees_with_dumpFrame (e : Engine) (top : List Nat) (h : Heap) (src i conf : Nat)
    (h2 : Heap) (fr : Frame) (he : e ≠ .gromacs)
    (hd : dumpFrame h (src, some i) conf = .ok (h2, fr)) :
    dumpFrameE e .other top h (src, some i) conf = .ok (h2, fr) := by
  unfold dumpFrame at hd
  split at hd
  · cases hd
  · rename_i frames hfr
    simp only at hd
    split at hd
    · cases hd
    · rename_i fr' hfr'
      cases hd
      cases e <;> simp_all [dumpFrameE, extractFrame, readFile_writeFile_self, readConf]

end FileFlow

/-! ## 12. LAMMPS: every atom is given the mass listed for ITS type (`get_atom_masses`)

Model: `Infretis/Model/VelExtra.lean` (`getAtomMasses`, `selMass`, `assignLoop`, `sortById`).  The `Vel.Setup.massIn` of
the LAMMPS engine IS the result of this function.  Finding `C16:lammps:masses-section-not-sorted` (independent audit):
until commit 76f2ebe the rows of the `Masses` section were indexed by POSITION (`asIs` below, kept as the record);
the code now looks the row up by its type id (`repaired`). -/
section LammpsMasses
open Infretis.VelExtra

/-- **Finding `C16:lammps:masses-section-not-sorted`** (code before 76f2ebe): `Masses` lists type 2 (mass 16) before
    type 1 (mass 1), atom 1 has type 1, atom 2 type 2 — the positional lookup gives atom 1 the mass 16 and atom 2
    the mass 1; the code as it is now gives each atom the mass of its type. -/
theorem lammps_masses_unsorted_asIs_counterexample :
    let d : LammpsData := { nAtoms := 2, nTypes := 2, massRows := some [(2, 16), (1, 1)],
                            atoms := some [[1, 1, 1, 0, 0, 0, 0], [2, 1, 2, 0, 1, 0, 0]] }
    getAtomMasses .asIs .full d = .ok [16, 1]
    ∧ getAtomMasses .repaired .full d = .ok [1, 16] := by
  constructor <;> decide

/-- **Every atom gets the mass listed for its type** (code as it is now).  Whenever `get_atom_masses` returns, the
    result has one entry per announced atom, and the entry at position `p` — the atom with the `p`-th smallest id —
    is the mass of the `Masses` row whose id is that atom's type, wherever that row stands in the section and
    wherever the atom's row stands in the `Atoms` section. -/
theorem lammps_atom_gets_mass_of_its_type (style : AtomStyle) (d : LammpsData) (c : Nat)
    (rows : List (List Rat)) (mr : List (Rat × Rat)) (ms : List Rat)
    (hc : typeCol style = some c) (hat : d.atoms = some rows) (hmr : d.massRows = some mr)
    (hok : getAtomMasses .repaired style d = .ok ms) :
    ms.length = d.nAtoms
    ∧ ∀ (p : Nat) (row : List Rat) (t : Nat) (m : Rat), (sortById rows)[p]? = some row →
        row[c]? = some (t : Rat) → 1 ≤ t → t ≤ d.nTypes → ((t : Rat), m) ∈ mr → ms[p]? = some m := by
  unfold getAtomMasses at hok
  simp only [hc, hat, hmr] at hok
  split at hok
  · cases hok
  · split at hok
    · cases hok
    · split at hok
      · cases hok
      · rename_i hn0 hlen _
        have hlen' : rows.length ≤ d.nAtoms := by omega
        have hl : ((List.range d.nAtoms).map (fun p => ((sortById rows)[p]?).bind (fun r => r[c]?))).length
            = (List.replicate d.nAtoms (0 : Rat)).length := by simp
        refine ⟨?_, ?_⟩
        · have := assignLoop_length _ _ _ _ _ _ hl hok
          simpa using this
        · intro p row t m hp hrow ht1 ht2 hmem
          have hplt : p < d.nAtoms := by
            have : p < (sortById rows).length := by
              rcases Nat.lt_or_ge p (sortById rows).length with h1 | h1
              · exact h1
              · rw [List.getElem?_eq_none h1] at hp; cases hp
            have hsl : (sortById rows).length = rows.length := sortById_length rows
            omega
          have hty : ((List.range d.nAtoms).map (fun p => ((sortById rows)[p]?).bind (fun r => r[c]?)))[p]?
              = some (some (t : Rat)) := by
            simp [hplt, hp, hrow]
          have htin : t ∈ List.range' 1 d.nTypes := by
            simp only [List.mem_range'_1]; omega
          obtain ⟨m', hm'⟩ := assignLoop_ok_sel _ _ _ _ _ _ hok t htin
          have := (assignLoop_spec _ _ _ _ _ _ hl hok p (some (t : Rat)) hty).1 t htin rfl m' hm'
          rw [this, selMass_repaired_of_mem mr t m m' hm' hmem]

example : ∃ ms, getAtomMasses .repaired .charge
    ({ nAtoms := 3, nTypes := 2, massRows := some [(2, 16), (1, 1)],
       atoms := some [[3, 1, 0, 0, 0, 0], [1, 2, 0, 0, 0, 0], [2, 1, 0, 0, 0, 0]] } : LammpsData) = .ok ms
    ∧ ms = [16, 1, 1] :=
  ⟨_, by decide, rfl⟩

/-- **Any order of the `Masses` rows.** Permuting the rows of the section changes nothing — neither the masses nor
    which error is raised. -/
theorem lammps_masses_rows_perm (style : AtomStyle) (d : LammpsData) (mr mr' : List (Rat × Rat))
    (h : mr.Perm mr') :
    getAtomMasses .repaired style { d with massRows := some mr }
      = getAtomMasses .repaired style { d with massRows := some mr' } := by
  unfold getAtomMasses
  simp only [assignLoop_perm h]

/-- **Any order of the `Atoms` rows** (distinct atom ids): the rows are sorted by id first, so the result is the
    same for every permutation of the section. -/
theorem lammps_atoms_rows_perm (v : Variant) (style : AtomStyle) (d : LammpsData) (rows rows' : List (List Rat))
    (h : rows.Perm rows') (hid : ∀ a ∈ rows, ∀ b ∈ rows, rowId a = rowId b → a = b) :
    getAtomMasses v style { d with atoms := some rows } = getAtomMasses v style { d with atoms := some rows' } := by
  unfold getAtomMasses
  simp only [h.length_eq, h.any_eq, sortById_perm_eq h hid]

example : List.Perm [[3, 1, 2, 0], [1, 1, 1, 0]] [[1, 1, 1, 0], [3, 1, 2, (0 : Rat)]]
    ∧ List.Perm [((2 : Rat), (16 : Rat)), (1, 1)] [(1, 1), (2, 16)] :=
  ⟨List.Perm.swap _ _ _, List.Perm.swap _ _ _⟩

/-- the function returns only when every type `1 … n_atom_types` has exactly ONE row in the section (a type
    without a row, or listed twice, is numpy's "shape mismatch" ValueError — also when no atom has that type) -/
theorem lammps_masses_ok_requires_one_row_per_type (style : AtomStyle) (d : LammpsData) (mr : List (Rat × Rat))
    (ms : List Rat) (hmr : d.massRows = some mr) (hok : getAtomMasses .repaired style d = .ok ms) :
    ∀ t, 1 ≤ t → t ≤ d.nTypes →
      ∃ m, (mr.filter (fun r => decide (r.1 = (t : Rat)))).map (·.2) = [m] := by
  unfold getAtomMasses at hok
  cases hc : typeCol style with
  | none => simp [hc] at hok
  | some c =>
    simp only [hc, hmr] at hok
    split at hok
    · cases hok
    · split at hok
      · cases hok
      · split at hok
        · cases hok
        · split at hok
          · cases hok
          · intro t ht1 ht2
            have htin : t ∈ List.range' 1 d.nTypes := by
              simp only [List.mem_range'_1]; omega
            obtain ⟨m, hm⟩ := assignLoop_ok_sel _ _ _ _ _ _ hok t htin
            unfold selMass at hm
            simp only at hm
            generalize (mr.filter (fun r => decide (r.1 = (t : Rat)))).map (·.2) = l at hm
            match l, hm with
            | [m0], _ => exact ⟨m0, rfl⟩

/-- the error decisions in the code's order: unsupported atom_style first (NotImplementedError), then a missing
    `atoms` / `atom types` header (ValueError), then a missing or one-row `Atoms` section and a missing `Masses`
    section (IndexError) -/
theorem get_atom_masses_error_rule (v : Variant) (d : LammpsData) (style : AtomStyle) (c : Nat)
    (hc : typeCol style = some c) :
    getAtomMasses v .other d = .error .notImplemented
    ∧ ((d.nAtoms = 0 ∨ d.nTypes = 0) → getAtomMasses v style d = .error .value)
    ∧ (d.nAtoms ≠ 0 → d.nTypes ≠ 0 → d.atoms = none → getAtomMasses v style d = .error .index)
    ∧ (∀ row, d.nAtoms ≠ 0 → d.nTypes ≠ 0 → d.atoms = some [row] → getAtomMasses v style d = .error .index) := by
  refine ⟨rfl, ?_, ?_, ?_⟩
  · intro h
    simp [getAtomMasses, hc, h]
  · intro h1 h2 h3
    simp [getAtomMasses, hc, h1, h2, h3]
  · intro row h1 h2 h3
    simp [getAtomMasses, hc, h1, h2, h3]

/-- type 2 has no row (the section lists types 1 and 3) -/
def lammpsMissingTypeWitness : LammpsData :=
  { nAtoms := 2, nTypes := 2, massRows := some [(1, 1), (3, 16)], atoms := some [[1, 1, 1, 0], [2, 1, 2, 0]] }

example : getAtomMasses .repaired .full lammpsMissingTypeWitness = .error .value := by decide

end LammpsMasses

/-! ## 13. TurtleMD with `dim < 3`: the kinetic energy counts components the system does not have

OPEN finding `C16:turtlemd:dim-lt-3:kinetic-energy-counts-unused-components` (independent audit; not repaired: the
repository's own test asserts non-zero unused components).  `modifyTurtleD .asIs` = the code as it is
(`codeVariantDim`), `.repaired` = kinetic energies over the engine's first `dim` components. -/
section TurtleDim
open Infretis.VelExtra

/-- the code as it is does not look at `dim`: it is `Vel.modifyVelocities` of the TurtleMD engine -/
theorem modifyTurtleD_asIs_eq (vk vr : Variant) (dim : Nat) (s : Setup) (src : Frame) (e : Option Rat)
    (zm : Option Bool) (sig : List Rat) (z : List (List Rat)) (ht : s.engine = .turtlemd) :
    modifyTurtleD codeVariantDim dim s src zm sig z = modifyVelocities vk vr s src e zm sig z := by
  simp [modifyTurtleD, codeVariantDim, modifyVelocities, ht, modifyNumpy]

/-- **What the code as it is reports** (any `dim`): `kin_new` is the energy of the first `dim` written components
    PLUS the energy of the components beyond `dim`; when the source frame was written by the engine's propagation
    (zeros beyond `dim`) `kin_old` holds the first `dim` components only, so `dek` is too large by exactly the
    energy of the unused components that were drawn. -/
theorem turtlemd_asIs_dek_excess (dim : Nat) (s : Setup) (src : Frame) (zm : Option Bool) (sig : List Rat)
    (z : List (List Rat)) (ht : s.engine = .turtlemd)
    (hsrc : ∀ col ∈ src.vel.drop dim, ∀ x ∈ col, x = 0) :
    let r := modifyTurtleD .asIs dim s src zm sig z
    r.kinNew = kineticEnergy (mass s) (r.frame.vel.take dim) + kineticEnergy (mass s) (r.frame.vel.drop dim)
    ∧ r.kinOld = some (kineticEnergy (mass s) (src.vel.take dim))
    ∧ (kineticEnergy (mass s) (src.vel.take dim) ≠ 0 →
        r.dek = Dek.val ((kineticEnergy (mass s) (r.frame.vel.take dim) - kineticEnergy (mass s) (src.vel.take dim))
                          + kineticEnergy (mass s) (r.frame.vel.drop dim))) := by
  intro r
  have hold : kineticEnergy (mass s) src.vel = kineticEnergy (mass s) (src.vel.take dim) := by
    rw [kineticEnergy_take_drop (mass s) src.vel dim, kineticEnergy_zero_cols _ _ hsrc, add_zero]
  have hnew : r.kinNew = kineticEnergy (mass s) r.frame.vel := by
    simp [r, modifyTurtleD, modifyNumpy, ht]
  have hko : r.kinOld = some (kineticEnergy (mass s) src.vel) := by
    simp [r, modifyTurtleD, modifyNumpy, ht]
  have hdek : r.dek = dekZeroRule (kineticEnergy (mass s) src.vel) r.kinNew := by
    simp [r, modifyTurtleD, modifyNumpy, ht]
  refine ⟨?_, ?_, ?_⟩
  · rw [hnew]; exact kineticEnergy_take_drop _ _ _
  · rw [hko, hold]
  · intro hne
    rw [hdek, hold, dekZeroRule, if_neg hne, hnew, kineticEnergy_take_drop (mass s) r.frame.vel dim]
    congr 1
    ring

/-- the same without any assumption on the frame: the propagation overwrites only the first `dim` velocity components
    of the arrays it read, so frames of a path generated AFTER a regeneration keep that regeneration's unused
    components; then `kin_old` contains them too and `dek` is off by the DIFFERENCE of the unused components' energies
    (new draw minus the stale one) — noise of the order k_B·T per particle and unused component instead of a constant
    excess, but never the change of the system's own degrees of freedom alone. -/
theorem turtlemd_asIs_dek_excess_general (dim : Nat) (s : Setup) (src : Frame) (zm : Option Bool) (sig : List Rat)
    (z : List (List Rat)) (ht : s.engine = .turtlemd) (hne : kineticEnergy (mass s) src.vel ≠ 0) :
    let r := modifyTurtleD .asIs dim s src zm sig z
    r.dek = Dek.val ((kineticEnergy (mass s) (r.frame.vel.take dim) - kineticEnergy (mass s) (src.vel.take dim))
                      + (kineticEnergy (mass s) (r.frame.vel.drop dim) - kineticEnergy (mass s) (src.vel.drop dim))) := by
  intro r
  have hnew : r.kinNew = kineticEnergy (mass s) r.frame.vel := by
    simp [r, modifyTurtleD, modifyNumpy, ht]
  have hdek : r.dek = dekZeroRule (kineticEnergy (mass s) src.vel) r.kinNew := by
    simp [r, modifyTurtleD, modifyNumpy, ht]
  rw [hdek, dekZeroRule, if_neg hne, hnew, kineticEnergy_take_drop (mass s) r.frame.vel dim,
    kineticEnergy_take_drop (mass s) src.vel dim]
  congr 1
  ring

example : kineticEnergy (mass ⟨.turtlemd, 1, 1, [1], []⟩) [[1 / 2], [0], [0]] ≠ 0 := by
  norm_num [kineticEnergy, kinCol, dot, mulCol, sumL, mass]

/-- **Finding, concrete** (the shipped 1-D `double_well`: one particle, m = 1, `dim = 1`): the frame holds
    v = (1/2, 0, 0), the draw gives (1, 1, 1): the one degree of freedom goes from 1/8 to 1/2 (change 3/8), the code
    reports `kin_new = 3/2` and `dek = 11/8` — too large by 1, the energy of the two components the system does not
    have; the repaired variant reports 1/2 and 3/8. -/
theorem turtlemd_dek_counts_unused_components_counterexample :
    let s : Setup := { engine := .turtlemd, temperature := 1, boltzmann := 1, massIn := [1] }
    let src : Frame := { pos := [[-1], [0], [0]], vel := [[1 / 2], [0], [0]], box := none, ids := [1] }
    let a := modifyTurtleD codeVariantDim 1 s src (some false) [1] [[1], [1], [1]]
    let b := modifyTurtleD .repaired 1 s src (some false) [1] [[1], [1], [1]]
    a.kinNew = 3 / 2 ∧ a.dek = Dek.val (11 / 8)
    ∧ kineticEnergy [1] (a.frame.vel.take 1) = 1 / 2
    ∧ a.dek ≠ Dek.val (kineticEnergy [1] (a.frame.vel.take 1) - kineticEnergy [1] (src.vel.take 1))
    ∧ b.kinNew = 1 / 2 ∧ b.dek = Dek.val (3 / 8) ∧ b.frame = a.frame := by
  refine ⟨?_, ?_, ?_, ?_, ?_, ?_, rfl⟩ <;>
    norm_num [modifyTurtleD, codeVariantDim, modifyNumpy, kineticEnergy, kinCol, dot, mulCol, sumL, drawVel,
      zeroMomentumFlag, mass, dekZeroRule]

/-- **dek, repaired variant.** `kin_new` is the kinetic energy of the first `dim` written components, `dek` its
    difference to that of the first `dim` components of the frame (`inf` when that is zero); what is written
    (positions, velocities, box, identities, the draw request) is what the code writes today. -/
theorem dek_consistent_turtlemd_dim_repaired (dim : Nat) (s : Setup) (src : Frame) (zm : Option Bool)
    (sig : List Rat) (z : List (List Rat)) :
    let r := modifyTurtleD .repaired dim s src zm sig z
    r.kinNew = kineticEnergy (mass s) (r.frame.vel.take dim)
    ∧ r.dek = (if kineticEnergy (mass s) (src.vel.take dim) = 0 then Dek.inf
               else Dek.val (kineticEnergy (mass s) (r.frame.vel.take dim)
                              - kineticEnergy (mass s) (src.vel.take dim)))
    ∧ r.frame = (modifyTurtleD .asIs dim s src zm sig z).frame
    ∧ r.request = (modifyTurtleD .asIs dim s src zm sig z).request := by
  simp [modifyTurtleD, dekZeroRule]

/-- for a 3-D system (`dim` ≥ the number of components in the file) the two variants coincide: nothing changes for
    the systems the rest of this file is about -/
theorem modifyTurtleD_repaired_eq_asIs_of_full_dim (dim : Nat) (s : Setup) (src : Frame) (zm : Option Bool)
    (sig : List Rat) (z : List (List Rat)) (ht : s.engine = .turtlemd)
    (hd : src.vel.length ≤ dim) (hz : z.length ≤ dim) :
    modifyTurtleD .repaired dim s src zm sig z = modifyTurtleD .asIs dim s src zm sig z := by
  have h1 : src.vel.take dim = src.vel := List.take_of_length_le hd
  have hlen : (modifyNumpy s src none zm sig z).frame.vel.length = z.length := by
    simp only [modifyNumpy, ht, drawVel]
    split <;> simp [resetMomentum]
  have h2 : (modifyNumpy s src none zm sig z).frame.vel.take dim = (modifyNumpy s src none zm sig z).frame.vel :=
    List.take_of_length_le (by rw [hlen]; exact hz)
  simp only [modifyTurtleD, h1, h2]
  simp [modifyNumpy, ht]

example : (⟨[[0]], [[1], [0], [0]], none, [1]⟩ : Frame).vel.length ≤ 3 := by decide

end TurtleDim

/-! ## 14. shapes and the generator: when the shape-consistent core (§§2–7) applies

`modifyVelocitiesS` (`Model/VelExtra.lean`) is the function the driver runs: numpy's broadcast decision between the
engine's mass vector (k, 1) and the frame's (n, 3) arrays, and the presence of `engine.rgen`, come first.
Every statement of §§2–7 about `modifyVelocities` is a statement about the real `modify_velocities` exactly on the
domain `k = n` (or ASE, whose masses come from the frame) with a generator — `modifyVelocitiesS_consistent`.
The OLD reading of `request_on_engine_stream` ("`npart` = number of masses" for every input) is false of the real
code when k ≠ n: `length_one_broadcast_counterexample`. -/
section Shapes
open Infretis.VelExtra

/-- **Domain of the core.** With a generator and matching atom counts (or ASE) the end-to-end function is the core. -/
theorem modifyVelocitiesS_consistent (vk vr : Variant) (s : Setup) (src : Frame) (e : Option Rat)
    (zm : Option Bool) (sig : List Rat) (z : List (List Rat))
    (hshape : s.engine = .ase ∨ (mass s).length = frameRows src) :
    modifyVelocitiesS vk vr true s src e zm sig z = .ok (modifyVelocities vk vr s src e zm sig z) := by
  rcases hshape with h | h
  · simp [modifyVelocitiesS, modifyVelocities, h]
  · cases hs : s.engine <;> simp [modifyVelocitiesS, modifyVelocities, hs, h]

/-- **numpy refuses.** k ≠ n and k ≠ 1 (not ASE): `modify_velocities` raises ValueError and writes nothing. -/
theorem modifyVelocitiesS_shape_error (vk vr : Variant) (s : Setup) (src : Frame) (e : Option Rat)
    (zm : Option Bool) (sig : List Rat) (z : List (List Rat))
    (hne : s.engine ≠ .ase) (h1 : (mass s).length ≠ frameRows src) (h2 : (mass s).length ≠ 1) :
    modifyVelocitiesS vk vr true s src e zm sig z = .error .shape := by
  cases hs : s.engine <;> simp_all [modifyVelocitiesS]

/-- **The headline statements, end to end, with the shape guard.** Whenever the real call returns on matching
    shapes: the request asks for as many particles as the FRAME has, on the engine's stream; `kin_new` is the energy
    of what was written; positions and identities are the frame's. -/
theorem headlines_shape_guarded (s : Setup) (src : Frame) (e : Option Rat) (zm : Option Bool) (sig : List Rat)
    (z : List (List Rat)) (r : Result)
    (hshape : s.engine = .ase ∨ (mass s).length = frameRows src)
    (hok : modifyVelocitiesS codeVariant codeVariant true s src e zm sig z = .ok r) :
    r = modifyVelocities codeVariant codeVariant s src e zm sig z
    ∧ r.request.stream = .engineRgen
    ∧ (s.engine ≠ .ase → r.request.npart = frameRows src)
    ∧ r.kinNew = kineticEnergy (mass s) r.frame.vel
    ∧ r.frame.pos = src.pos ∧ r.frame.ids = src.ids := by
  rw [modifyVelocitiesS_consistent _ _ s src e zm sig z hshape] at hok
  cases hok
  refine ⟨rfl, (request_on_engine_stream_all _ s src e zm sig z).1, ?_, kinNew_consistent_all _ s src e zm sig z,
    (positions_box_ids_preserved _ _ s src e zm sig z).1, (positions_box_ids_preserved _ _ s src e zm sig z).2.1⟩
  intro hne
  rw [request_on_engine_stream _ _ s src e zm sig z hne]
  rcases hshape with h | h
  · exact absurd h hne
  · exact h

example : (mass ⟨.gromacs, 300, 1, [2, 16], []⟩).length
    = frameRows ⟨[[0, 1], [0, 0], [0, 0]], [[1, 0], [0, 0], [0, 0]], some [9, 9, 9], [1, 2]⟩ := by decide

/-- **The length-1 broadcast** (GROMACS `masses=[2.0]` with a 2-atom frame, zero_momentum on; numpy semantics, no
    error): the request asks for 2 particles (the frame's count, not the mass list's), the call returns, and the
    "momentum reset" `vel -= Σ(m v)/m` leaves total momentum `(1 − n)·m·Σv ≠ 0`: draws (1, 0) and (0, 2) →
    velocities (0, −1), momentum −2 in x. -/
theorem length_one_broadcast_counterexample :
    let s : Setup := { engine := .gromacs, temperature := 300, boltzmann := 1, massIn := [2] }
    let src : Frame := { pos := [[0, 1], [0, 0], [0, 0]], vel := [[1, 0], [0, 0], [0, 0]], box := some [9, 9, 9],
                         ids := [1, 2] }
    ∃ r, modifyVelocitiesS codeVariant codeVariant true s src none (some true) [1] [[1, 0], [0, 2], [0, 0]] = .ok r
      ∧ r.request.npart = 2 ∧ (mass s).length = 1
      ∧ r.frame.vel = [[0, -1], [-2, 0], [0, 0]]
      ∧ momentum [2, 2] r.frame.vel = [-2, -4, 0] := by
  refine ⟨_, rfl, rfl, rfl, ?_, ?_⟩ <;>
    norm_num [modifyNumpyB, frameRows, mass, drawVel, mulCol, zeroMomentumFlag, dot, sumL, momentum, List.replicate,
      List.flatten]

/-- **Without `engine.rgen`.** GROMACS, CP2K, LAMMPS, TurtleMD raise ValueError and make no request; ASE returns —
    its draw goes to numpy's global state (`rng=None`), whatever else holds. -/
theorem no_rgen_behaviour (vk vr : Variant) (s : Setup) (src : Frame) (e : Option Rat) (zm : Option Bool)
    (sig : List Rat) (z : List (List Rat)) :
    (s.engine ≠ .ase → (mass s).length = frameRows src →
        modifyVelocitiesS vk vr false s src e zm sig z = .error .noRgen)
    ∧ (s.engine = .ase → ∃ r, modifyVelocitiesS vk vr false s src e zm sig z = .ok r
        ∧ r.request.stream = .numpyGlobal ∧ r.frame = (modifyVelocities vk vr s src e zm sig z).frame) := by
  constructor
  · intro hne h
    cases hs : s.engine <;> simp_all [modifyVelocitiesS]
  · intro ha
    refine ⟨{ (modifyAse vk vr s src zm sig z) with
              request := { (modifyAse vk vr s src zm sig z).request with stream := .numpyGlobal } }, ?_, rfl, ?_⟩
    · simp [modifyVelocitiesS, ha]
    · simp [modifyVelocities, ha]

end Shapes

/-! ## 15. the written velocities and their second moment, ASE included -/
section Written
open Infretis.VelExtra

/-- **ASE: written velocity = (sigP·z)/m** when zero momentum is off (`sigP` = `sqrt(m·units.kB·T)`). -/
theorem ase_vel_eq (vk vr : Variant) (s : Setup) (src : Frame) (e : Option Rat) (zm : Option Bool)
    (sigP : List Rat) (z : List (List Rat)) (ha : s.engine = .ase) (hz : zeroMomentumFlag .ase zm = false) :
    (modifyVelocities vk vr s src e zm sigP z).frame.vel = (drawVel sigP z).map (fun col => divCol col s.massIn) := by
  simp [modifyVelocities, modifyAse, ha, hz]

example : zeroMomentumFlag .ase (some false) = false := by decide

/-- **All five engines: the written velocities without momentum reset.** -/
theorem vel_eq_sigma_z_all (vk vr : Variant) (s : Setup) (src : Frame) (e : Option Rat) (zm : Option Bool)
    (sig : List Rat) (z : List (List Rat)) (hz : zeroMomentumFlag s.engine zm = false) :
    (modifyVelocities vk vr s src e zm sig z).frame.vel =
      if s.engine = .ase then (drawVel sig z).map (fun col => divCol col s.massIn)
      else if s.engine = .lammps then (drawVel sig z).map (fun col => col.map (fun v => v / lammpsScale))
      else drawVel sig z := by
  by_cases ha : s.engine = .ase
  · rw [if_pos ha]
    exact ase_vel_eq vk vr s src e zm sig z ha (by rw [ha] at hz; exact hz)
  · rw [if_neg ha]
    exact vel_eq_sigma_z s src e sig z hz ha

/-- **Composition (GROMACS, CP2K, TurtleMD): written v²·m = k_B·T·z², entry by entry.** If the scales numpy was
    handed square to the requested `σᵢ² = (1/β)(1/mᵢ)` (that is what `sqrt` means), every written column `w = σ·z`
    satisfies `wᵢ²·mᵢ = (kb·T)·zᵢ²`: with `⟨z²⟩ = 1` that is `⟨m v²⟩ = k_B·T` per component. -/
theorem written_v_sq_mass_eq_kT_z_sq (vk vr : Variant) (s : Setup) (src : Frame) (e : Option Rat)
    (zm : Option Bool) (sig : List Rat) (z : List (List Rat))
    (hz : zeroMomentumFlag s.engine zm = false) (hne : s.engine ≠ .ase) (hnl : s.engine ≠ .lammps)
    (hT : s.temperature * kbBeta s ≠ 0) (hm : ∀ m ∈ mass s, m ≠ 0)
    (hsig : mulCol sig sig = sigmaSq (beta s) (mass s))
    (hlen : ∀ c ∈ z, c.length = (mass s).length) :
    (modifyVelocities vk vr s src e zm sig z).frame.vel.map (fun w => mulCol (mulCol w w) (mass s))
      = z.map (fun c => (mulCol c c).map (fun x => kbBeta s * s.temperature * x)) := by
  rw [vel_eq_sigma_z s src e sig z hz hne, if_neg hnl]
  simp only [drawVel, List.map_map]
  apply List.map_congr_left
  intro c hc
  simp only [Function.comp]
  rw [sq_mass_col, hsig, mulCol_sigmaSq _ _ hm, one_div_beta s hT]
  have hcc : (mulCol c c).length = (mass s).length := by
    rw [mulCol_length c c rfl, hlen c hc]
  exact mulCol_const_left _ _ _ hcc

example : mulCol [1 / 2, 1 / 4] [1 / 2, 1 / 4] = sigmaSq 4 [1, 4] := by
  norm_num [mulCol, sigmaSq]

/-- **Composition, ASE:** the written velocity `w = (sigP·z)/m` with `sigP² = m·units.kB·T` has `w²·m = units.kB·T·z²`. -/
theorem ase_written_v_sq_mass (T m sP zz : Rat) (hm : m ≠ 0) (hs : sP * sP = m * (kbAseUnits * T)) :
    (sP * zz / m) * (sP * zz / m) * m = kbAseUnits * T * (zz * zz) := by
  have : (sP * zz / m) * (sP * zz / m) * m = (sP * sP) * (zz * zz) / m := by field_simp
  rw [this, hs]
  field_simp

example : ((2 : Rat) * 3 / 4) * (2 * 3 / 4) * 4 = 1 * (3 * 3) ∧ (2 : Rat) * 2 = 4 * 1 := by norm_num

/-- **Every regeneration of a move, all five engines:** with zero momentum not requested by the configured
    `tis_set`, what is written is the untouched draw in the engine's form (ASE: `(sigP·z)/m`; LAMMPS: `σ·z/scale`). -/
theorem move_unprojected_all (vk vr : Variant) (s : Setup) (mv : Infretis.VelRoute.Move)
    (ts : Infretis.VelRoute.Settings) (hasSeg : Bool) (inputs : List Infretis.VelRoute.CallInput) (rs : List Result)
    (h : Infretis.VelRoute.moveRegenerations vk vr s mv ts hasSeg inputs = .ok rs)
    (hflag : Infretis.VelRoute.effectiveZeroMomentum s.engine ts = false) :
    ∀ r ∈ rs, ∃ i ∈ inputs, r.frame.vel =
      if s.engine = .ase then (drawVel i.sig i.z).map (fun col => divCol col s.massIn)
      else if s.engine = .lammps then (drawVel i.sig i.z).map (fun col => col.map (fun v => v / lammpsScale))
      else drawVel i.sig i.z := by
  obtain ⟨rt, _, hrs⟩ := move_regenerations_use_configured vk vr s mv ts hasSeg inputs rs h
  intro r hr
  rw [hrs, List.mem_map] at hr
  obtain ⟨i, hi, rfl⟩ := hr
  exact ⟨i, List.mem_of_mem_take hi, vel_eq_sigma_z_all vk vr s i.src i.sysEkin _ i.sig i.z hflag⟩

end Written

end Infretis.C16
