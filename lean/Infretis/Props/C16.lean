import Infretis.Lemmas.Vel
import Mathlib.Tactic.NormNum
import Mathlib.Algebra.Order.AbsoluteValue.Basic
/-!
# C16 — velocity regeneration changes only velocities, at the right temperature

Property theorems only.  Model: `Infretis/Model/Vel.lean` (mirrors
`draw_maxwellian_velocities`, `kinetic_energy`, `reset_momentum`, the five
`modify_velocities`, `prepare_shooting_point`, `System.copy`).
`sqrt` and the Gaussian stay outside the model: `sig` are the square roots numpy delivered
(hypothesis `sigᵢ² = σᵢ²` where needed), `z` the standard normals.

Findings established on the real ASE engine and repaired in /repo by commit 1dd0318:
* `C16:ase:kin-before-stationary` — `kin_new` was taken before `Stationary`,
* `C16:ase:global-rng` — the draw used numpy's global state, not the engine's `rgen`.
Both are `Variant` switches of the model: `asIs` mirrors the code before the fix (its
counterexamples stay here as the record), `repaired` = `codeVariant` mirrors the code now; the
headline theorems `dek_consistent_all`, `kinNew_consistent_all`, `request_on_engine_stream_all`
hold for all five engines with `codeVariant`.
-/
namespace Infretis.C16
open Infretis.Vel

/-! ## 1. σᵢ²·mᵢ = k_B·T in every engine's own unit system -/

/-- **Variance (all numpy-drawing engines).** With the engine's own `beta` and masses, the
    square of the scale passed to `rgen.normal` times the mass is `kb·T`, particle by particle.
    GROMACS: (nm/ps)²·g/mol = kJ/mol; CP2K: a.u. velocity²·mₑ = Hartree; LAMMPS: kcal/mol before
    the division by `scale`; TurtleMD: reduced units with the user's `boltzmann`. -/
theorem sigma_sq_mass_eq_kT (s : Setup) (hT : s.temperature * kbBeta s ≠ 0)
    (hm : ∀ m ∈ mass s, m ≠ 0) :
    mulCol (sigmaSq (beta s) (mass s)) (mass s)
      = (mass s).map (fun _ => kbBeta s * s.temperature) := by
  rw [mulCol_sigmaSq _ _ hm, one_div_beta s hT]

example : (300 : Rat) * kbBeta { engine := .cp2k, temperature := 300, boltzmann := 1, massIn := [1, 16] } ≠ 0
    ∧ ∀ m ∈ mass { engine := .cp2k, temperature := 300, boltzmann := 1, massIn := [1, 16] }, m ≠ 0 := by
  constructor
  · norm_num [kbBeta, kbCp2k]
  · intro m hm
    simp only [mass, List.map_cons, List.map_nil, List.mem_cons, List.not_mem_nil, or_false] at hm
    rcases hm with rfl | rfl <;> norm_num [cp2kMassFactor]

/-- the per-engine constants behind `sigma_sq_mass_eq_kT` -/
theorem kbBeta_per_engine (T b : Rat) (ms tb : List Rat) :
    kbBeta ⟨.gromacs, T, b, ms, tb⟩ = 83144621 / 10000000000
    ∧ kbBeta ⟨.cp2k, T, b, ms, tb⟩ = 316681534 / 100000000000000
    ∧ kbBeta ⟨.lammps, T, b, ms, tb⟩ = 1987204259 / 1000000000000
    ∧ kbBeta ⟨.turtlemd, T, b, ms, tb⟩ = b := ⟨rfl, rfl, rfl, rfl⟩

/-- **ASE.** momenta = `sP·z` with `sP² = m·(units.kB·T)`; velocity = momentum / m, so the
    velocity scale `sP/m` squared times the mass is `units.kB·T` (eV; ASE's units make
    amu·(Å/t)² = eV exactly). -/
theorem ase_velocity_scale_sq_mass (T m sP : Rat) (hm : m ≠ 0) (hs : sP * sP = m * (kbAseUnits * T)) :
    (sP / m) * (sP / m) * m = kbAseUnits * T := by
  have : (sP / m) * (sP / m) * m = (sP * sP) / m := by field_simp
  rw [this, hs]
  field_simp

example : ((2 : Rat) / 4) * (2 / 4) * 4 = 1 ∧ (2 : Rat) * 2 = 4 * 1 := by norm_num

/-! ### exact SI / CODATA rationals

* `kSI`  Boltzmann constant 1.380649e-23 J/K — exact (SI 2019, BIPM brochure 9th ed.)
* `nA`   Avogadro constant 6.02214076e23 /mol — exact (SI 2019)
* `eSI`  elementary charge 1.602176634e-19 C — exact (SI 2019)
* thermochemical calorie 4.184 J — exact by definition
* `hartreeJ` Hartree energy 4.3597447222071e-18 J — CODATA 2018 recommended value
* `meInU`    electron mass 5.48579909065e-4 u — CODATA 2018 recommended value
-/
def kSI : Rat := 1380649 / 10 ^ 29
def nA : Rat := 602214076 * 10 ^ 15
def eSI : Rat := 1602176634 / 10 ^ 28
def hartreeJ : Rat := 43597447222071 / 10 ^ 31
def meInU : Rat := 548579909065 / 10 ^ 15

/-- GROMACS: ⟨m v²⟩ in J/mol over R·T.  1 g/mol·(nm/ps)² = 10⁻³·(10⁻⁹)²/(10⁻¹²)² J/mol. -/
def ratioGromacs : Rat := kbGromacs * ((1 / 10 ^ 3) * (1 / 10 ^ 9) ^ 2 / (1 / 10 ^ 12) ^ 2) / (kSI * nA)
/-- LAMMPS real: v = σ·z/scale [Å/fs]; 1 g/mol·(Å/fs)² = 10⁻³·(10⁻¹⁰)²/(10⁻¹⁵)² J/mol. -/
def ratioLammps : Rat :=
  kbLammps / lammpsScale ^ 2 * ((1 / 10 ^ 3) * (1 / 10 ^ 10) ^ 2 / (1 / 10 ^ 15) ^ 2) / (kSI * nA)
/-- CP2K: code mass = factor·m[u]; true mass = m[u]/meInU electron masses; mₑ·(a.u. velocity)² = E_h. -/
def ratioCp2k : Rat := kbCp2k * hartreeJ / (meInU * cp2kMassFactor) / kSI
/-- ASE: eV → J -/
def ratioAse : Rat := kbAseUnits * eSI / kSI

/-- **GROMACS in SI.** variance·mass converted to J/mol equals `ratioGromacs · R·T`. -/
theorem gromacs_mv2_SI (T m : Rat) (hT : T ≠ 0) (hm : m ≠ 0) :
    (1 / (1 / (T * kbGromacs))) * (1 / m) * m * ((1 / 10 ^ 3) * (1 / 10 ^ 9) ^ 2 / (1 / 10 ^ 12) ^ 2)
      = ratioGromacs * (kSI * nA * T) := by
  have h1 : kSI ≠ 0 := by norm_num [kSI]
  have h2 : nA ≠ 0 := by norm_num [nA]
  unfold ratioGromacs
  rw [one_div_one_div]
  field_simp

theorem gromacs_ratio_bound :
    -(6232 / 10 ^ 11 : Rat) ≤ ratioGromacs - 1 ∧ ratioGromacs - 1 ≤ -(6231 / 10 ^ 11) := by
  norm_num [ratioGromacs, kbGromacs, kSI, nA]

/-- **GROMACS.** |⟨m v²⟩/(k_B T) − 1| ≤ 6.232·10⁻⁸ (the code's R is the CODATA-2010 value). -/
theorem gromacs_sigma_sq_mass_eq_kT : |ratioGromacs - 1| ≤ 6232 / 10 ^ 11 :=
  abs_le.mpr ⟨gromacs_ratio_bound.1, le_trans gromacs_ratio_bound.2 (by norm_num)⟩

/-- **LAMMPS (real units) in SI.** The written velocity is σ·z/scale, its variance σ²/scale². -/
theorem lammps_mv2_SI (T m : Rat) (hT : T ≠ 0) (hm : m ≠ 0) :
    (1 / (1 / (T * kbLammps))) * (1 / m) / lammpsScale ^ 2 * m
        * ((1 / 10 ^ 3) * (1 / 10 ^ 10) ^ 2 / (1 / 10 ^ 15) ^ 2)
      = ratioLammps * (kSI * nA * T) := by
  have h1 : kSI ≠ 0 := by norm_num [kSI]
  have h2 : nA ≠ 0 := by norm_num [nA]
  have hs : lammpsScale ^ 2 ≠ 0 := by norm_num [lammpsScale]
  unfold ratioLammps
  rw [one_div_one_div]
  field_simp

theorem lammps_ratio_bound :
    (18074 / 10 ^ 14 : Rat) ≤ ratioLammps - 1 ∧ ratioLammps - 1 ≤ 18075 / 10 ^ 14 := by
  norm_num [ratioLammps, kbLammps, lammpsScale, kSI, nA]

/-- **LAMMPS.** |⟨m v²⟩/(k_B T) − 1| ≤ 1.8075·10⁻¹⁰. -/
theorem lammps_sigma_sq_mass_eq_kT : |ratioLammps - 1| ≤ 18075 / 10 ^ 14 :=
  abs_le.mpr ⟨le_trans (by norm_num) lammps_ratio_bound.1, lammps_ratio_bound.2⟩

/-- the LAMMPS scale constant squared is 10⁷/4184 (kcal/g ↔ Å²/fs²) to 4·10⁻¹⁶ relative -/
theorem lammps_scale_sq :
    |lammpsScale ^ 2 / (10 ^ 7 / 4184) - 1| ≤ 4 / 10 ^ 16 := by
  rw [abs_le]
  constructor <;> norm_num [lammpsScale]

/-- **CP2K in SI.** `mu` = mass in u; code mass = `cp2kMassFactor·mu`; ⟨m v²⟩ in J. -/
theorem cp2k_mv2_SI (T mu : Rat) (hT : T ≠ 0) (hm : mu ≠ 0) :
    (1 / (1 / (T * kbCp2k))) * (1 / (cp2kMassFactor * mu)) * (mu / meInU) * hartreeJ
      = ratioCp2k * (kSI * T) := by
  have h : kSI ≠ 0 := by norm_num [kSI]
  have h1 : meInU ≠ 0 := by norm_num [meInU]
  have h2 : cp2kMassFactor ≠ 0 := by norm_num [cp2kMassFactor]
  unfold ratioCp2k
  rw [one_div_one_div]
  field_simp

theorem cp2k_ratio_bound :
    (11927 / 10 ^ 10 : Rat) ≤ ratioCp2k - 1 ∧ ratioCp2k - 1 ≤ 11928 / 10 ^ 10 := by
  norm_num [ratioCp2k, kbCp2k, hartreeJ, meInU, cp2kMassFactor, kSI]

/-- **CP2K.** |⟨m v²⟩/(k_B T) − 1| ≤ 1.1928·10⁻⁶: the code's `kb = 3.16681534e-6` Hartree/K is
    1.19·10⁻⁶ above k_B/E_h = 3.1668115635·10⁻⁶; the mass factor contributes 2.3·10⁻¹⁰. -/
theorem cp2k_sigma_sq_mass_eq_kT : |ratioCp2k - 1| ≤ 11928 / 10 ^ 10 :=
  abs_le.mpr ⟨le_trans (by norm_num) cp2k_ratio_bound.1, cp2k_ratio_bound.2⟩

theorem cp2k_massfactor_bound : |1 / meInU / cp2kMassFactor - 1| ≤ 224 / 10 ^ 12 := by
  rw [abs_le]
  constructor <;> norm_num [meInU, cp2kMassFactor]

/-- **ASE in SI.** -/
theorem ase_mv2_SI (T : Rat) : kbAseUnits * T * eSI = ratioAse * (kSI * T) := by
  have h : kSI ≠ 0 := by norm_num [kSI]
  unfold ratioAse
  field_simp

theorem ase_ratio_bound :
    -(33943 / 10 ^ 11 : Rat) ≤ ratioAse - 1 ∧ ratioAse - 1 ≤ -(33942 / 10 ^ 11) := by
  norm_num [ratioAse, kbAseUnits, eSI, kSI]

/-- **ASE.** |⟨m v²⟩/(k_B T) − 1| ≤ 3.3943·10⁻⁷ (ase.units defaults to CODATA 2014). -/
theorem ase_sigma_sq_mass_eq_kT : |ratioAse - 1| ≤ 33943 / 10 ^ 11 :=
  abs_le.mpr ⟨ase_ratio_bound.1, le_trans ase_ratio_bound.2 (by norm_num)⟩

/-- **TurtleMD.** reduced units: σ²·m = boltzmann·T exactly, whatever `boltzmann` the user gives. -/
theorem turtlemd_sigma_sq_mass_eq_kT (T b m : Rat) (hT : T * b ≠ 0) (hm : m ≠ 0) :
    mulCol (sigmaSq (beta ⟨.turtlemd, T, b, [m], []⟩) [m]) [m] = [b * T] := by
  have := sigma_sq_mass_eq_kT ⟨.turtlemd, T, b, [m], []⟩ hT (by simpa [mass] using hm)
  simpa [mass, kbBeta] using this

example : (300 : Rat) * (83144621 / 10000000000) ≠ 0 ∧ (1008 / 1000 : Rat) ≠ 0 := by norm_num

/-! ## 2. the velocities are σ·z after the stated transformations -/

/-- without momentum reset: written velocity column j is `sigᵢ·zᵢⱼ` (LAMMPS: divided by `scale`) -/
theorem vel_eq_sigma_z (s : Setup) (src : Frame) (e : Option Rat) (sig : List Rat)
    (z : List (List Rat)) (hz : zeroMomentumFlag s.engine zm = false) (hne : s.engine ≠ .ase) :
    (modifyVelocities vk vr s src e zm sig z).frame.vel =
      if s.engine = .lammps then (drawVel sig z).map (fun col => col.map (fun v => v / lammpsScale))
      else drawVel sig z := by
  cases hs : s.engine <;> simp_all [modifyVelocities, modifyNumpy]

example : zeroMomentumFlag Engine.lammps none = false ∧ Engine.lammps ≠ Engine.ase := by decide

/-! ## 2b. which setting decides: the entry if present, else the engine's OWN default -/

/-- **Effective flag.** `zero_momentum` in effect = the entry of the settings that were handed in when
    present, otherwise the engine's own default — `True` for CP2K and `False` for GROMACS (infretis_genvel),
    LAMMPS, ASE and TurtleMD; no engine's default is visible to another engine. -/
theorem zero_momentum_flag_rule (e : Engine) (zm : Option Bool) :
    zeroMomentumFlag e zm = (match zm with | some b => b | none => engineDefaultZeroMomentum e)
    ∧ (engineDefaultZeroMomentum e = true ↔ e = .cp2k) := by
  cases e <;> cases zm <;> simp [zeroMomentumFlag, engineDefaultZeroMomentum]

/-- the result depends on the settings only through that flag -/
theorem modify_depends_on_flag_only (vk vr : Variant) (s : Setup) (src : Frame) (e : Option Rat)
    (zm zm' : Option Bool) (sig : List Rat) (z : List (List Rat))
    (h : zeroMomentumFlag s.engine zm = zeroMomentumFlag s.engine zm') :
    modifyVelocities vk vr s src e zm sig z = modifyVelocities vk vr s src e zm' sig z := by
  cases hs : s.engine <;> simp_all [modifyVelocities, modifyNumpy, modifyAse]

example : zeroMomentumFlag .turtlemd none = false ∧ zeroMomentumFlag .cp2k none = true
    ∧ zeroMomentumFlag .turtlemd none = zeroMomentumFlag .turtlemd (some false) := by decide

/-! ## 3. zero total momentum -/

/-- **Zero momentum.** After `reset_momentum`, Σᵢ mᵢ vᵢⱼ = 0 in every Cartesian component j, for
    any positive masses and any velocities of matching shape. -/
theorem zero_momentum_exact (ms : List Rat) (hne : ms ≠ []) (hpos : ∀ m ∈ ms, 0 < m)
    (vel : List (List Rat)) (hshape : ∀ col ∈ vel, col.length = ms.length) :
    momentum ms (resetMomentum ms vel) = vel.map (fun _ => 0) :=
  momentum_resetMomentum ms (ne_of_gt (sumL_pos ms hne hpos)) vel hshape

example : momentum [1, 3] (resetMomentum [1, 3] [[2, -1], [0, 4]]) = [0, 0] := by
  norm_num [momentum, resetMomentum, resetCol, dot, sumL]

theorem momentum_reset_eq_zeros (ms : List Rat) (hne : ms ≠ []) (hpos : ∀ m ∈ ms, 0 < m)
    (vel : List (List Rat)) (hshape : ∀ col ∈ vel, col.length = ms.length) :
    momentum ms (resetMomentum ms vel) = (resetMomentum ms vel).map (fun _ => 0) := by
  rw [zero_momentum_exact ms hne hpos vel hshape]
  simp [resetMomentum, Function.comp_def]

/-- the written frame of every engine has zero total momentum (one 0 per Cartesian component)
    when the flag is on -/
theorem modify_zero_momentum (vk vr : Variant) (s : Setup) (src : Frame) (e : Option Rat)
    (zm : Option Bool) (sig : List Rat) (z : List (List Rat))
    (hflag : zeroMomentumFlag s.engine zm = true)
    (hne : mass s ≠ []) (hpos : ∀ m ∈ mass s, 0 < m)
    (hsig : sig.length = (mass s).length) (hz : ∀ col ∈ z, col.length = (mass s).length) :
    momentum (mass s) (modifyVelocities vk vr s src e zm sig z).frame.vel
      = (modifyVelocities vk vr s src e zm sig z).frame.vel.map (fun _ => 0) := by
  have hcols : ∀ col ∈ drawVel sig z, col.length = (mass s).length := by
    intro col hcol
    simp only [drawVel, List.mem_map] at hcol
    obtain ⟨c, hc, rfl⟩ := hcol
    rw [mulCol_length sig c (by rw [hsig, hz c hc]), hz c hc]
  cases hs : s.engine
  case ase =>
    have hm : mass s = s.massIn := by simp [mass, hs]
    rw [hm] at hne hpos hcols ⊢
    have hcols' : ∀ col ∈ (drawVel sig z).map (fun col => divCol col s.massIn),
        col.length = s.massIn.length := by
      intro col hcol
      simp only [List.mem_map] at hcol
      obtain ⟨c, hc, rfl⟩ := hcol
      rw [divCol_length c s.massIn (hcols c hc)]
    rw [hs] at hflag
    simp only [modifyVelocities, hs, modifyAse, hflag, if_true]
    exact momentum_reset_eq_zeros _ hne hpos _ hcols'
  case lammps =>
    have hcols' : ∀ col ∈ (drawVel sig z).map (fun col => col.map (fun v => v / lammpsScale)),
        col.length = (mass s).length := by
      intro col hcol
      simp only [List.mem_map] at hcol
      obtain ⟨c, hc, rfl⟩ := hcol
      simpa using hcols c hc
    rw [hs] at hflag
    simp only [modifyVelocities, hs, modifyNumpy, hflag, if_true]
    exact momentum_reset_eq_zeros _ hne hpos _ hcols'
  all_goals
    rw [hs] at hflag
    simp only [modifyVelocities, hs, modifyNumpy, hflag, if_true]
    exact momentum_reset_eq_zeros _ hne hpos _ hcols

example : zeroMomentumFlag Engine.cp2k none = true ∧ zeroMomentumFlag Engine.gromacs (some true) = true := by
  decide

/-- **One atom (degenerate).** Removing the momentum of a single particle leaves it at rest: the code's
    `vel -= (m·v)/m` gives exactly 0 in the model (rounding residue ≤ 1 ulp in floats), so with
    zero_momentum on a one-atom system gets `kin_new = 0`. -/
theorem one_atom_reset_is_zero (m : Rat) (hm : m ≠ 0) (vel : List Rat) :
    resetMomentum [m] (vel.map (fun v => [v])) = vel.map (fun _ => [0]) := by
  simp only [resetMomentum, List.map_map]
  apply List.map_congr_left
  intro v _
  simp only [Function.comp, resetCol, dot, sumL, List.map_cons, List.map_nil, add_zero]
  congr 1
  field_simp
  ring

example : resetMomentum [3] [[2], [-1], [0]] = [[0], [0], [0]] := by
  norm_num [resetMomentum, resetCol, dot, sumL]

/-! ## 4. the reported kinetic-energy change -/

/-- `kin_new` is the kinetic energy of the velocities that were written — for the four
    numpy-drawing engines. -/
theorem kinNew_consistent (vk vr : Variant) (s : Setup) (src : Frame) (e : Option Rat)
    (zm : Option Bool) (sig : List Rat) (z : List (List Rat)) (hne : s.engine ≠ .ase) :
    (modifyVelocities vk vr s src e zm sig z).kinNew
      = kineticEnergy (mass s) (modifyVelocities vk vr s src e zm sig z).frame.vel := by
  cases hs : s.engine <;> simp_all [modifyVelocities, modifyNumpy]

/-- **dek (CP2K, LAMMPS, TurtleMD).** When the old frame has kinetic energy, `dek` is the
    kinetic energy of the written velocities minus that of the frame's old velocities;
    when it has none, `dek = inf`. -/
theorem dek_consistent (vk vr : Variant) (s : Setup) (src : Frame) (e : Option Rat)
    (zm : Option Bool) (sig : List Rat) (z : List (List Rat))
    (hne : s.engine ≠ .ase) (hng : s.engine ≠ .gromacs) :
    (modifyVelocities vk vr s src e zm sig z).dek =
      if kineticEnergy (mass s) src.vel = 0 then Dek.inf
      else Dek.val (kineticEnergy (mass s) (modifyVelocities vk vr s src e zm sig z).frame.vel
                      - kineticEnergy (mass s) src.vel) := by
  cases hs : s.engine <;> simp_all [modifyVelocities, modifyNumpy, dekZeroRule]

example : kineticEnergy [2] [[1], [0], [3]] = 10 := by
  norm_num [kineticEnergy, kinCol, dot, mulCol, sumL]

/-- **dek (GROMACS, infretis_genvel).** The old energy is `system.ekin`, not recomputed from the
    frame: `dek = ekin(written velocities) − system.ekin`, `inf` when `system.ekin is None`. -/
theorem dek_consistent_gromacs (vk vr : Variant) (s : Setup) (src : Frame) (e : Option Rat)
    (zm : Option Bool) (sig : List Rat) (z : List (List Rat)) (hg : s.engine = .gromacs) :
    (modifyVelocities vk vr s src e zm sig z).dek =
      match e with
      | none => Dek.inf
      | some k => Dek.val (kineticEnergy (mass s) (modifyVelocities vk vr s src e zm sig z).frame.vel - k) := by
  cases e <;> simp [modifyVelocities, modifyNumpy, hg, dekNoneRule]

/-- **Boundaries of the dek rule.** A stored `system.ekin = 0.0` is *not* "absent" for GROMACS
    (`is None` test): `dek = kin_new − 0`; for the other engines an old kinetic energy of exactly 0
    (frame without velocities) gives `inf`, any non-zero one a finite value. -/
theorem dek_rule_boundaries (kinNew k : Rat) :
    dekNoneRule (some 0) kinNew = Dek.val (kinNew - 0) ∧ dekNoneRule none kinNew = Dek.inf
    ∧ dekZeroRule 0 kinNew = Dek.inf ∧ (k ≠ 0 → dekZeroRule k kinNew = Dek.val (kinNew - k)) := by
  refine ⟨rfl, rfl, by simp [dekZeroRule], fun hk => by simp [dekZeroRule, hk]⟩

example : dekZeroRule 5 5 = Dek.val 0 ∧ (5 : Rat) ≠ 0 := by
  constructor
  · norm_num [dekZeroRule]
  · norm_num

/-- witness: ASE as it is, one particle-pair, zero_momentum on -/
def aseWitnessSetup : Setup := { engine := .ase, temperature := 300, boltzmann := 1, massIn := [1, 1] }
def aseWitnessSrc : Frame := { pos := [[0, 1], [0, 0], [0, 0]], vel := [[1, 0], [0, 0], [0, 0]],
                               box := some [10, 10, 10], ids := [1, 1] }

/-- **Finding `C16:ase:kin-before-stationary`.** For the ASE engine as it is, the returned
    `kin_new` (and hence `dek`) is *not* the kinetic energy of the written velocities when
    zero_momentum is on: masses (1,1), momenta draw (1,1)·(1,0): kin_new = 1/2 but the written
    velocities (1/2, −1/2) carry 1/4. -/
theorem dek_consistent_ase_counterexample :
    let r := modifyVelocities .asIs .asIs aseWitnessSetup aseWitnessSrc none (some true) [1, 1] [[1, 0], [0, 0], [0, 0]]
    r.kinNew = 1 / 2 ∧ kineticEnergy [1, 1] r.frame.vel = 1 / 4
      ∧ r.dek ≠ Dek.val (kineticEnergy [1, 1] r.frame.vel - kineticEnergy [1, 1] aseWitnessSrc.vel) := by
  refine ⟨?_, ?_, ?_⟩
  · norm_num [modifyVelocities, modifyAse, aseWitnessSetup, aseWitnessSrc, kineticEnergy, kinCol, dot, mulCol,
      divCol, sumL, drawVel, zeroMomentumFlag]
  · norm_num [modifyVelocities, modifyAse, aseWitnessSetup, aseWitnessSrc, kineticEnergy, kinCol, dot, mulCol,
      divCol, sumL, drawVel, zeroMomentumFlag, resetMomentum, resetCol]
  · norm_num [modifyVelocities, modifyAse, aseWitnessSetup, aseWitnessSrc, kineticEnergy, kinCol, dot, mulCol,
      divCol, sumL, drawVel, zeroMomentumFlag, resetMomentum, resetCol, dekZeroRule]

/-- **dek (ASE), partial.** Consistent exactly under the guard that excludes the defect:
    the repaired order (`kin_new` after `Stationary`) or zero_momentum off. -/
theorem dek_consistent_ase_partial (vk vr : Variant) (s : Setup) (src : Frame) (e : Option Rat)
    (zm : Option Bool) (sigP : List Rat) (z : List (List Rat)) (ha : s.engine = .ase)
    (hguard : vk = .repaired ∨ zeroMomentumFlag .ase zm = false) :
    (modifyVelocities vk vr s src e zm sigP z).kinNew
        = kineticEnergy s.massIn (modifyVelocities vk vr s src e zm sigP z).frame.vel
    ∧ (modifyVelocities vk vr s src e zm sigP z).dek =
        if kineticEnergy s.massIn src.vel = 0 then Dek.inf
        else Dek.val (kineticEnergy s.massIn (modifyVelocities vk vr s src e zm sigP z).frame.vel
                        - kineticEnergy s.massIn src.vel) := by
  rcases hguard with h | h
  · subst h
    simp [modifyVelocities, modifyAse, ha, dekZeroRule]
  · cases vk <;> simp [modifyVelocities, modifyAse, ha, dekZeroRule, h]

example : zeroMomentumFlag .ase none = false := by decide

/-- **kin_new, all five engines (code as it is now).** -/
theorem kinNew_consistent_all (vr : Variant) (s : Setup) (src : Frame) (e : Option Rat)
    (zm : Option Bool) (sig : List Rat) (z : List (List Rat)) :
    (modifyVelocities codeVariant vr s src e zm sig z).kinNew
      = kineticEnergy (mass s) (modifyVelocities codeVariant vr s src e zm sig z).frame.vel := by
  cases hs : s.engine
  case ase =>
    have := (dek_consistent_ase_partial codeVariant vr s src e zm sig z hs (Or.inl rfl)).1
    simpa [mass, hs] using this
  all_goals exact kinNew_consistent _ _ _ _ _ _ _ _ (by simp [hs])

/-- **dek, all five engines (code as it is now).** `dek` is the kinetic energy of the written
    velocities minus the old one — the frame's recomputed energy, or `system.ekin` for GROMACS —
    and `inf` exactly when the old one is zero (GROMACS: `None`). -/
theorem dek_consistent_all (vr : Variant) (s : Setup) (src : Frame) (e : Option Rat)
    (zm : Option Bool) (sig : List Rat) (z : List (List Rat)) :
    (modifyVelocities codeVariant vr s src e zm sig z).dek =
      if s.engine = .gromacs then
        (match e with
         | none => Dek.inf
         | some k => Dek.val (kineticEnergy (mass s)
                        (modifyVelocities codeVariant vr s src e zm sig z).frame.vel - k))
      else if kineticEnergy (mass s) src.vel = 0 then Dek.inf
      else Dek.val (kineticEnergy (mass s) (modifyVelocities codeVariant vr s src e zm sig z).frame.vel
                      - kineticEnergy (mass s) src.vel) := by
  cases hs : s.engine
  case gromacs =>
    simp only [if_true]
    exact dek_consistent_gromacs _ _ _ _ _ _ _ _ hs
  case ase =>
    have := (dek_consistent_ase_partial codeVariant vr s src e zm sig z hs (Or.inl rfl)).2
    simpa [mass, hs] using this
  all_goals
    have := dek_consistent codeVariant vr s src e zm sig z (by simp [hs]) (by simp [hs])
    simpa [hs] using this

example : (modifyVelocities codeVariant codeVariant aseWitnessSetup aseWitnessSrc none (some true) [1, 1]
    [[1, 0], [0, 0], [0, 0]]).kinNew = 1 / 4 := by
  norm_num [modifyVelocities, modifyAse, codeVariant, aseWitnessSetup, aseWitnessSrc, kineticEnergy, kinCol, dot,
    mulCol, divCol, sumL, drawVel, zeroMomentumFlag, resetMomentum, resetCol]

/-- chaining two regenerations on one System (repeated kicks): the second call starts from the frame the
    first one wrote, so its `dek` is measured against *that* frame's kinetic energy, not an older one -/
example (s : Setup) (src : Frame) (e : Option Rat) (zm : Option Bool) (sig sig' : List Rat)
    (z z' : List (List Rat)) (hng : s.engine ≠ .gromacs) :
    let r1 := modifyVelocities codeVariant codeVariant s src e zm sig z
    let r2 := modifyVelocities codeVariant codeVariant s r1.frame (some r1.kinNew) zm sig' z'
    r2.dek = if kineticEnergy (mass s) r1.frame.vel = 0 then Dek.inf
             else Dek.val (kineticEnergy (mass s) r2.frame.vel - kineticEnergy (mass s) r1.frame.vel) := by
  intro r1 r2
  have h := dek_consistent_all codeVariant s r1.frame (some r1.kinNew) zm sig' z'
  simpa [hng] using h

/-! ## 5. only velocities change -/

/-- **Positions, box, identities.** The written frame has the source frame's positions and atom
    identities, and its box whenever the source has one (CP2K substitutes the template's box
    when the frame has no box header; every other engine writes the box field as read). -/
theorem positions_box_ids_preserved (vk vr : Variant) (s : Setup) (src : Frame) (e : Option Rat)
    (zm : Option Bool) (sig : List Rat) (z : List (List Rat)) :
    (modifyVelocities vk vr s src e zm sig z).frame.pos = src.pos
    ∧ (modifyVelocities vk vr s src e zm sig z).frame.ids = src.ids
    ∧ (∀ b, src.box = some b → (modifyVelocities vk vr s src e zm sig z).frame.box = some b)
    ∧ (s.engine ≠ .cp2k → (modifyVelocities vk vr s src e zm sig z).frame.box = src.box) := by
  cases hs : s.engine <;> cases hb : src.box <;> simp_all [modifyVelocities, modifyNumpy, modifyAse]

example : (modifyVelocities .asIs .asIs aseWitnessSetup aseWitnessSrc none none [1, 1] []).frame.pos
    = [[0, 1], [0, 0], [0, 0]] := by
  simp [modifyVelocities, modifyAse, aseWitnessSetup, aseWitnessSrc]

/-! ## 6. the source frame is never altered -/

theorem readFile_writeFile_ne (h : Heap) (f g : Nat) (frames : List Frame) (hne : f ≠ g) :
    (h.writeFile g frames).readFile f = h.readFile f := by
  simp [Heap.readFile, Heap.writeFile, Ne.symm hne]

theorem dumpFrame_effect (h : Heap) (cfg : Nat × Option Nat) (conf : Nat) (h2 : Heap) (fr : Frame)
    (hd : dumpFrame h cfg conf = .ok (h2, fr)) :
    h2.systems = h.systems ∧ h2.objs = h.objs
    ∧ ∀ f, f ≠ conf → h2.readFile f = h.readFile f := by
  unfold dumpFrame at hd
  split at hd
  · cases hd
  · rename_i frames _
    split at hd
    · split at hd
      · cases hd
      · split at hd
        · cases hd; exact ⟨rfl, rfl, fun _ _ => rfl⟩
        · cases hd
          exact ⟨rfl, rfl, fun f hf => readFile_writeFile_ne h f conf frames hf⟩
    · split at hd
      · cases hd
      · cases hd
        exact ⟨rfl, rfl, fun f hf => readFile_writeFile_ne h f conf _ hf⟩

/-- **Source untouched.** `prepare_shooting_point` first makes a (shallow) copy — a new `System`
    object at a fresh address holding the same references — and everything afterwards rebinds
    attributes of that copy only and writes only `exe_dir/conf.<ext>` and `exe_dir/genvel.<ext>`:
    every pre-existing `System` object (in particular the shooting point, every frame of the
    path), every referenced array/list, and every file other than those two is unchanged.
    The copy keeps `temperature/vel_rev/vpot`, gets the new `config` and `ekin`, and its
    `order`, `pos`, `vel` (and `box`) are rebound to *fresh* objects (addresses beyond the old heap). -/
theorem source_frame_untouched (vk vr : Variant) (s : Setup) (h : Heap) (a conf genvel : Nat)
    (zm : Option Bool) (sig : List Rat) (z : List (List Rat)) (newOrder : List Rat) (sh : Shoot)
    (hok : prepareShootingPoint vk vr s h a conf genvel zm sig z newOrder = .ok sh) :
    (∀ i, i < h.systems.length → sh.heap.systems[i]? = h.systems[i]?)
    ∧ (∀ i, i < h.objs.length → sh.heap.objs[i]? = h.objs[i]?)
    ∧ (∀ f, f ≠ conf → f ≠ genvel → sh.heap.readFile f = h.readFile f)
    ∧ sh.copy = h.systems.length
    ∧ ∃ sp sp', h.systems[a]? = some sp ∧ sh.heap.systems[sh.copy]? = some sp'
        ∧ sp'.temperature = sp.temperature ∧ sp'.velRev = sp.velRev ∧ sp'.vpot = sp.vpot
        ∧ sp'.config = (genvel, some 0)
        ∧ h.objs.length ≤ sp'.order ∧ h.objs.length ≤ sp'.pos ∧ h.objs.length ≤ sp'.vel := by
  unfold prepareShootingPoint at hok
  split at hok
  · cases hok
  · rename_i sp hsp
    simp only at hok
    split at hok
    · cases hok
    · rename_i h2 fr hd
      have ⟨hs2, ho2, hf2⟩ := dumpFrame_effect _ _ _ _ _ hd
      cases hok
      refine ⟨?_, ?_, ?_, rfl, sp, _, hsp, List.getElem?_concat_length, rfl, rfl, rfl, rfl, ?_, ?_, ?_⟩
      · intro i hi
        simp [List.getElem?_append_left hi]
      · intro i hi
        simp only [Heap.writeFile, ho2]
        simp [List.getElem?_append_left hi]
      · intro f hfc hfg
        change (h2.writeFile genvel _).readFile f = h.readFile f
        rw [readFile_writeFile_ne _ f genvel _ hfg, hf2 f hfc]
        rfl
      all_goals
        simp only [Heap.writeFile, ho2]
        omega

example : ∃ sh, prepareShootingPoint .asIs .asIs aseWitnessSetup
    { systems := [⟨(7, some 0), 0, 1, 1, 1, 1, false, none, none⟩], objs := [[5], []],
      files := [(7, [aseWitnessSrc])] } 0 100 101 (some true) [1, 1] [[1, 0], [0, 0], [0, 0]] [3]
    = .ok sh := ⟨_, rfl⟩

/-! ## 7. the only draw request is `normal` on the engine's own stream -/

/-- **Request (GROMACS, CP2K, LAMMPS, TurtleMD).** One request: `normal`, loc 0, per-particle
    scale² = (1/β)(1/mᵢ), shape (npart, dim), on the engine's `rgen`. -/
theorem request_on_engine_stream (vk vr : Variant) (s : Setup) (src : Frame) (e : Option Rat)
    (zm : Option Bool) (sig : List Rat) (z : List (List Rat)) (hne : s.engine ≠ .ase) :
    (modifyVelocities vk vr s src e zm sig z).request =
      { stream := .engineRgen, method := "normal", loc := 0,
        scaleSq := some (sigmaSq (beta s) (mass s)), npart := (mass s).length, dim := src.vel.length } := by
  cases hs : s.engine <;> simp_all [modifyVelocities, modifyNumpy]

/-- **Finding `C16:ase:global-rng`.** The ASE engine as it is sends its draw to numpy's global
    state, not to the engine's `rgen`. -/
theorem request_on_engine_stream_ase_counterexample :
    (modifyVelocities .asIs .asIs aseWitnessSetup aseWitnessSrc none none [1, 1] []).request.stream
      = Stream.numpyGlobal := rfl

/-- **Request, partial (all engines).** On the engine's stream for every engine except ASE as it
    is; for ASE the request is `standard_normal((npart, 3))`. -/
theorem request_on_engine_stream_partial (vk vr : Variant) (s : Setup) (src : Frame) (e : Option Rat)
    (zm : Option Bool) (sig : List Rat) (z : List (List Rat))
    (hguard : s.engine ≠ .ase ∨ vr = .repaired) :
    (modifyVelocities vk vr s src e zm sig z).request.stream = .engineRgen := by
  rcases hguard with h | h
  · rw [request_on_engine_stream vk vr s src e zm sig z h]
  · subst h
    cases hs : s.engine <;> simp [modifyVelocities, modifyNumpy, modifyAse, hs]

example : (⟨.lammps, 300, 1, [1, 2], []⟩ : Setup).engine ≠ .ase ∨ Variant.asIs = Variant.repaired :=
  Or.inl (by decide)

/-- **Request, all five engines (code as it is now).** The single draw request of
    `modify_velocities` is on the engine's own `rgen`, with location 0: `normal` with the
    per-particle scale for GROMACS/CP2K/LAMMPS/TurtleMD, `standard_normal((npart, 3))` for ASE. -/
theorem request_on_engine_stream_all (vk : Variant) (s : Setup) (src : Frame) (e : Option Rat)
    (zm : Option Bool) (sig : List Rat) (z : List (List Rat)) :
    (modifyVelocities vk codeVariant s src e zm sig z).request.stream = .engineRgen
    ∧ (modifyVelocities vk codeVariant s src e zm sig z).request.loc = 0
    ∧ (modifyVelocities vk codeVariant s src e zm sig z).request.method
        = (if s.engine = .ase then "standard_normal" else "normal") := by
  refine ⟨request_on_engine_stream_partial vk codeVariant s src e zm sig z (Or.inr rfl), ?_, ?_⟩
  all_goals cases hs : s.engine <;> simp [modifyVelocities, modifyNumpy, modifyAse, hs]

example : (modifyVelocities .asIs codeVariant aseWitnessSetup aseWitnessSrc none none [1, 1] []).request.stream
    = Stream.engineRgen := rfl

end Infretis.C16
