import Infretis.Lemmas.RepexCtr
import Infretis.Props.C17Runner
import Infretis.Props.C17Sys
import Infretis.Props.C17Sched
import Infretis.Model.SchedDisk
import Infretis.Lemmas.SchedDiskEx
/-!
# C17 — exactly the requested number of moves runs; each result is consumed once

Scheduler half (this file): step arithmetic of `scheduler()` over the replica-exchange state
machine `Infretis.Repex` (model: `Model/Repex.lean`, mirrors scheduler.py + REPEX_state.initiate /
loop incl. the repair 2596063 "initiate() does not start more jobs than there are steps left").
Runner half: `Props/C17Runner.lean` (model `Model/Runner.lean`, the abstract protocol) and
`Props/C17Sys.lean` (model `Model/RunnerSys.lean`, the runner's own code as a transition system, proved
to refine the protocol), audited together with this file.

A scheduler history is `starts ++ [.initDone] ++ steps` (the two `while` loops of `scheduler()`);
all random / MD outcomes and the completion order are arbitrary (they are arguments of the events).
-/
namespace Infretis.C17
open Infretis.Repex

/-- number of completed moves (`treat_output` calls) in a history -/
def nSteps : List Ev → Nat
  | [] => 0
  | .step .. :: t => nSteps t + 1
  | _ :: t => nSteps t

def isStart : Ev → Bool | .start .. => true | _ => false
def isStep : Ev → Bool | .step .. => true | _ => false

/-- shape of the event list produced by `scheduler()` -/
def Shaped (evs : List Ev) : Prop :=
  ∃ a b, evs = a ++ [Ev.initDone] ++ b ∧ (∀ e ∈ a, isStart e = true) ∧ (∀ e ∈ b, isStep e = true)

/-! ### one-step facts -/

theorem initiate_fields (s : St) :
    (initiate s).1.cstep = s.cstep ∧ (initiate s).1.tsteps = s.tsteps ∧ (initiate s).1.workers = s.workers := by
  unfold initiate
  split <;> simp

theorem loop_fields (s : St) :
    (loop s).1.tsteps = s.tsteps ∧ (loop s).1.workers = s.workers ∧ (loop s).1.toinitiate = s.toinitiate ∧
    ((loop s).2 = true → s.cstep < s.tsteps ∧ (loop s).1.cstep = s.cstep + 1) ∧
    ((loop s).2 = false → s.tsteps ≤ s.cstep ∧ (loop s).1 = s) := by
  unfold loop
  split
  · simp; omega
  · simp; omega

/-- `initiate()` answers True exactly when a step is left for one more worker -/
theorem initiate_go (s : St) :
    (initiate s).2 = true ↔
      (s.cstep < s.tsteps ∧ 1 ≤ s.toinitiate ∧
        (s.cstep : Int) + ((s.workers : Int) - s.toinitiate) < (s.tsteps : Int)) := by
  unfold initiate
  by_cases h1 : s.cstep < s.tsteps
  · rw [if_neg (by omega)]
    by_cases h2 : s.toinitiate > 0 ∧ ((s.cstep : Int) + ((s.workers : Int) - s.toinitiate) ≥ (s.tsteps : Int))
    · simp only [if_pos h2]; simp; omega
    · simp only [if_neg h2]; simp; omega
  · rw [if_pos h1]; simp; omega

theorem initiate_toinit (s : St) :
    ((initiate s).2 = true → (initiate s).1.toinitiate = s.toinitiate - 1) ∧
    ((initiate s).2 = false → s.cstep < s.tsteps → 0 ≤ s.toinitiate → (initiate s).1.toinitiate = -1) ∧
    ((initiate s).2 = false → s.tsteps ≤ s.cstep → (initiate s).1 = s) := by
  unfold initiate
  by_cases h1 : s.cstep < s.tsteps
  · rw [if_neg (by omega)]
    by_cases h2 : s.toinitiate > 0 ∧ ((s.cstep : Int) + ((s.workers : Int) - s.toinitiate) ≥ (s.tsteps : Int))
    · simp only [if_pos h2]; simp; omega
    · simp only [if_neg h2]; simp; omega
  · rw [if_pos h1]; simp; omega

/-- a `.start` event: one more job in flight, counters untouched except the initiation counter,
    and it only happens while `cstep + (jobs already started) < tsteps` -/
theorem start_effect {y y' : Sys} {o : PickOutcome} {k : Nat} (h : sysStep y (.start o k) = .ok y') :
    y'.s.cstep = y.s.cstep ∧ y'.s.tsteps = y.s.tsteps ∧ y'.s.workers = y.s.workers ∧
    y'.jobs.length = y.jobs.length + 1 ∧
    y.s.cstep < y.s.tsteps ∧ 1 ≤ y.s.toinitiate ∧
    (y.s.cstep : Int) + ((y.s.workers : Int) - y.s.toinitiate) < (y.s.tsteps : Int) ∧
    y'.s.toinitiate = y.s.toinitiate - 1 := by
  unfold sysStep at h
  simp only at h
  split at h
  · simp at h
  · rename_i hgo
    simp only [Bool.not_eq_true, Bool.not_eq_false] at hgo
    have hgo' : (initiate y.s).2 = true := by simpa using hgo
    split at h
    · simp at h
    · rename_i s2 job ds hp
      have c := ctr_prep hp
      simp only [ctr, Ctr.mk.injEq] at c
      obtain ⟨c1, c2, c3, c4⟩ := c
      have f := initiate_fields y.s
      have g := (initiate_go y.s).1 hgo'
      have t := (initiate_toinit y.s).1 hgo'
      simp at h
      subst h
      simp
      refine ⟨by omega, by omega, by omega, g.1, g.2.1, g.2.2, by omega⟩

/-- the closing `initiate()` call: nothing issued; if a step was left and the initiation had not
    closed yet, `toinitiate` becomes −1 -/
theorem initDone_effect {y y' : Sys} (h : sysStep y .initDone = .ok y') :
    y'.s.cstep = y.s.cstep ∧ y'.s.tsteps = y.s.tsteps ∧ y'.s.workers = y.s.workers ∧ y'.jobs = y.jobs ∧
    ¬ (y.s.cstep < y.s.tsteps ∧ 1 ≤ y.s.toinitiate ∧
        (y.s.cstep : Int) + ((y.s.workers : Int) - y.s.toinitiate) < (y.s.tsteps : Int)) ∧
    (y.s.cstep < y.s.tsteps → 0 ≤ y.s.toinitiate → y'.s.toinitiate = -1) ∧
    (y.s.tsteps ≤ y.s.cstep → y'.s = y.s) := by
  unfold sysStep at h
  simp only at h
  split at h
  · simp at h
  · rename_i hgo
    have hgo' : (initiate y.s).2 = false := by simpa using hgo
    have f := initiate_fields y.s
    have g := initiate_go y.s
    have t := initiate_toinit y.s
    simp at h
    subst h
    simp
    refine ⟨f.1, f.2.1, f.2.2, ?_, t.2.1 hgo', t.2.2 hgo'⟩
    intro a b
    by_contra hc
    have := g.2 ⟨a, b, by omega⟩
    rw [hgo'] at this
    exact absurd this (by simp)

/-- a `.step` event: the step counter advances by one (and was below the target), one job is
    consumed, and a new one is issued iff `cstep + workers ≤ tsteps` -/
theorem step_effect {y y' : Sys} {k : Nat} {st : Status} {w} {o : PickOutcome}
    (h : sysStep y (.step k st w o) = .ok y') :
    y.s.cstep < y.s.tsteps ∧ y'.s.cstep = y.s.cstep + 1 ∧ y'.s.tsteps = y.s.tsteps ∧
    y'.s.workers = y.s.workers ∧ y'.s.toinitiate = y.s.toinitiate ∧ k < y.jobs.length ∧
    y'.jobs.length = y.jobs.length - 1 + (if y.s.cstep + 1 + y.s.workers ≤ y.s.tsteps then 1 else 0) := by
  unfold sysStep at h
  simp only at h
  have lf := loop_fields y.s
  split at h
  · simp at h
  · rename_i hgo
    simp at hgo
    obtain ⟨l1, l2, l3, l4, _⟩ := lf
    obtain ⟨hlt, hc⟩ := l4 hgo
    split at h
    · simp at h
    · rename_i job hj
      have hk : k < y.jobs.length := by
        by_contra hn
        rw [List.getElem?_eq_none (by omega)] at hj
        simp at hj
      split at h
      · simp at h
      · rename_i s2 pns its ht
        have c2 := ctr_treatOutput ht
        simp only [ctr, Ctr.mk.injEq] at c2
        obtain ⟨c21, c22, c23, c24⟩ := c2
        split at h
        · rename_i hre
          split at h
          · simp at h
          · rename_i s3 job' ds hp
            have c3 := ctr_prep hp
            simp only [ctr, Ctr.mk.injEq] at c3
            obtain ⟨c31, c32, c33, c34⟩ := c3
            simp at h
            subst h
            have hre' : y.s.cstep + 1 + y.s.workers ≤ y.s.tsteps := by
              rw [c21, c22, c23, hc, l1, l2] at hre; exact hre
            refine ⟨hlt, ?_, ?_, ?_, ?_, hk, ?_⟩
            · show s3.cstep = _; omega
            · show s3.tsteps = _; omega
            · show s3.workers = _; omega
            · show s3.toinitiate = _; omega
            · show (y.jobs.eraseIdx k ++ [job']).length = _
              rw [if_pos hre', List.length_append, List.length_eraseIdx, if_pos hk]
              simp
        · rename_i hre
          simp at h
          subst h
          have hre' : ¬ (y.s.cstep + 1 + y.s.workers ≤ y.s.tsteps) := by
            rw [c21, c22, c23, hc, l1, l2] at hre; exact hre
          refine ⟨hlt, ?_, ?_, ?_, ?_, hk, ?_⟩
          · show s2.cstep = _; omega
          · show s2.tsteps = _; omega
          · show s2.workers = _; omega
          · show s2.toinitiate = _; omega
          · show (y.jobs.eraseIdx k).length = _
            rw [if_neg hre', List.length_eraseIdx, if_pos hk]; rfl

/-! ### histories -/

theorem run_append (y : Sys) (a b : List Ev) :
    run y (a ++ b) = (match run y a with | .error er => .error er | .ok y' => run y' b) := by
  induction a generalizing y with
  | nil => simp [run]
  | cons e t ih =>
    simp only [List.cons_append, run]
    cases sysStep y e with
    | error er => rfl
    | ok y1 => exact ih y1

theorem nSteps_append (a b : List Ev) : nSteps (a ++ b) = nSteps a + nSteps b := by
  induction a with
  | nil => simp [nSteps]
  | cons e t ih => cases e <;> simp [nSteps, ih] <;> omega

theorem nSteps_starts (a : List Ev) (h : ∀ e ∈ a, isStart e = true) : nSteps a = 0 := by
  induction a with
  | nil => rfl
  | cons e t ih =>
    have := h e (by simp)
    cases e <;> simp [isStart] at this
    simp [nSteps]; exact ih (fun e he => h e (by simp [he]))

theorem nSteps_steps (b : List Ev) (h : ∀ e ∈ b, isStep e = true) : nSteps b = b.length := by
  induction b with
  | nil => rfl
  | cons e t ih =>
    have := h e (by simp)
    cases e <;> simp [isStep] at this
    simp [nSteps]; exact ih (fun e he => h e (by simp [he]))

/-- invariant of the initiation loop -/
def IA (y : Sys) : Prop :=
  0 ≤ y.s.toinitiate ∧ (y.jobs.length : Int) = (y.s.workers : Int) - y.s.toinitiate ∧
  y.s.cstep + y.jobs.length ≤ max y.s.cstep y.s.tsteps

theorem runA : ∀ (a : List Ev) (y y' : Sys), (∀ e ∈ a, isStart e = true) → IA y → run y a = .ok y' →
    IA y' ∧ y'.s.cstep = y.s.cstep ∧ y'.s.tsteps = y.s.tsteps ∧ y'.s.workers = y.s.workers := by
  intro a
  induction a with
  | nil => intro y y' _ hI h; simp [run] at h; subst h; exact ⟨hI, rfl, rfl, rfl⟩
  | cons e t ih =>
    intro y y' hs hI h
    simp only [run] at h
    have he := hs e (by simp)
    cases e with
    | initDone => simp [isStart] at he
    | step => simp [isStart] at he
    | start o k =>
      cases h1 : sysStep y (.start o k) with
      | error er => rw [h1] at h; simp at h
      | ok y1 =>
        rw [h1] at h
        obtain ⟨e1, e2, e3, e4, e5, e6, e7, e8⟩ := start_effect h1
        have hI1 : IA y1 := by
          obtain ⟨i1, i2, i3⟩ := hI
          refine ⟨by omega, by omega, ?_⟩
          rw [e1, e2, e4]
          have : (y.s.cstep : Int) + (y.jobs.length : Int) < (y.s.tsteps : Int) := by omega
          omega
        obtain ⟨r1, r2, r3, r4⟩ := ih y1 y' (fun e he => hs e (by simp [he])) hI1 h
        exact ⟨r1, by omega, by omega, by omega⟩

/-- invariant of the main loop: the number of jobs in flight -/
def IB (y : Sys) : Prop := y.jobs.length = min y.s.workers (y.s.tsteps - y.s.cstep)

theorem runB : ∀ (b : List Ev) (y y' : Sys), (∀ e ∈ b, isStep e = true) → IB y → run y b = .ok y' →
    IB y' ∧ y'.s.cstep = y.s.cstep + b.length ∧ y'.s.tsteps = y.s.tsteps ∧ y'.s.workers = y.s.workers ∧
    y'.s.cstep ≤ max y.s.cstep y.s.tsteps := by
  intro b
  induction b with
  | nil => intro y y' _ hI h; simp [run] at h; subst h; exact ⟨hI, by simp, rfl, rfl, by omega⟩
  | cons e t ih =>
    intro y y' hs hI h
    simp only [run] at h
    have he := hs e (by simp)
    cases e with
    | initDone => simp [isStep] at he
    | start => simp [isStep] at he
    | step k st w o =>
      cases h1 : sysStep y (.step k st w o) with
      | error er => rw [h1] at h; simp at h
      | ok y1 =>
        rw [h1] at h
        obtain ⟨e1, e2, e3, e4, e5, e6, e7⟩ := step_effect h1
        have hI1 : IB y1 := by
          unfold IB at hI ⊢
          rw [e7, e2, e3, e4, hI]
          split <;> omega
        obtain ⟨r1, r2, r3, r4, r5⟩ := ih y1 y' (fun e he => hs e (by simp [he])) hI1 h
        refine ⟨r1, by simp; omega, by omega, by omega, by omega⟩

/-- a fresh scheduler state: nothing in flight, every worker still to be started -/
def Fresh (y : Sys) : Prop := y.jobs = [] ∧ y.s.toinitiate = (y.s.workers : Int)

/-- **Step arithmetic.** For every scheduler history from a fresh state (any outcomes, any
    completion order): the step counter equals the start value plus the number of completed moves,
    never exceeds the target, and the number of jobs in flight is `min(workers, steps left)`. -/
theorem scheduler_arithmetic {y0 y : Sys} {evs : List Ev} (hf : Fresh y0) (hsh : Shaped evs)
    (hr : run y0 evs = .ok y) :
    y.s.cstep = y0.s.cstep + nSteps evs ∧ y.s.tsteps = y0.s.tsteps ∧ y.s.workers = y0.s.workers ∧
    y.s.cstep ≤ max y0.s.cstep y0.s.tsteps ∧
    y.jobs.length = min y0.s.workers (y0.s.tsteps - y.s.cstep) := by
  obtain ⟨a, b, rfl, ha, hb⟩ := hsh
  rw [List.append_assoc, run_append] at hr
  cases h1 : run y0 a with
  | error er => rw [h1] at hr; simp at hr
  | ok y1 =>
    rw [h1] at hr
    have hIA0 : IA y0 := by
      obtain ⟨f1, f2⟩ := hf
      refine ⟨by omega, by simp [f1, f2], by simp [f1]; omega⟩
    obtain ⟨hI1, a1, a2, a3⟩ := runA a y0 y1 ha hIA0 h1
    simp only [List.singleton_append, run] at hr
    cases h2 : sysStep y1 .initDone with
    | error er => rw [h2] at hr; simp at hr
    | ok y2 =>
      rw [h2] at hr
      obtain ⟨d1, d2, d3, d4, d5, d6, d7⟩ := initDone_effect h2
      have hIB2 : IB y2 := by
        obtain ⟨i1, i2, i3⟩ := hI1
        unfold IB
        rw [d4, d1, d2, d3]
        by_cases hc : y1.s.cstep < y1.s.tsteps
        · have : ¬ (1 ≤ y1.s.toinitiate ∧
              (y1.s.cstep : Int) + ((y1.s.workers : Int) - y1.s.toinitiate) < (y1.s.tsteps : Int)) :=
            fun h => d5 ⟨hc, h.1, h.2⟩
          have hmax : max y1.s.cstep y1.s.tsteps = y1.s.tsteps := by omega
          rw [hmax] at i3
          by_cases ht : 1 ≤ y1.s.toinitiate
          · have : (y1.s.tsteps : Int) ≤ (y1.s.cstep : Int) + ((y1.s.workers : Int) - y1.s.toinitiate) := by
              by_contra hh; exact this ⟨ht, by omega⟩
            omega
          · have : y1.s.toinitiate = 0 := by omega
            omega
        · have hmax : max y1.s.cstep y1.s.tsteps = y1.s.cstep := by omega
          rw [hmax] at i3
          omega
      obtain ⟨b1, b2, b3, b4, b5⟩ := runB b y2 y hb hIB2 hr
      rw [nSteps_append, nSteps_append, nSteps_starts a ha, nSteps_steps b hb]
      simp only [nSteps]
      unfold IB at b1
      refine ⟨by omega, by omega, by omega, by omega, ?_⟩
      rw [b1, b3, b4, d2, d3, a2, a3]

/-- **Exactly the requested number of moves; nothing left in flight.** When the main loop has
    ended (`loop()` answers False) after a scheduler history from a fresh state with
    `cstep₀ ≤ steps`: exactly `steps − cstep₀` moves were completed — never more, never fewer — the
    step counter equals `steps`, and no job is in flight. -/
theorem finished_run {y0 y : Sys} {evs : List Ev} (hf : Fresh y0) (hsh : Shaped evs)
    (hr : run y0 evs = .ok y) (hc0 : y0.s.cstep ≤ y0.s.tsteps) (hfin : (loop y.s).2 = false) :
    nSteps evs = y0.s.tsteps - y0.s.cstep ∧ y.s.cstep = y0.s.tsteps ∧ y.jobs = [] := by
  obtain ⟨h1, h2, h3, h4, h5⟩ := scheduler_arithmetic hf hsh hr
  have hl := ((loop_fields y.s).2.2.2.2 hfin).1
  have hmax : max y0.s.cstep y0.s.tsteps = y0.s.tsteps := by omega
  rw [hmax] at h4
  have hc : y.s.cstep = y0.s.tsteps := by omega
  refine ⟨by omega, hc, ?_⟩
  have : y.jobs.length = 0 := by rw [h5, hc]; simp
  exact List.length_eq_zero_iff.mp this

/-- **No deadlock, no surplus.** While steps are left (and there is at least one worker) some job
    is in flight, so `as_completed()` always has a future to return; and never more than `workers`
    jobs or more jobs than steps left are in flight. -/
theorem inflight_bounds {y0 y : Sys} {evs : List Ev} (hf : Fresh y0) (hsh : Shaped evs)
    (hr : run y0 evs = .ok y) :
    y.jobs.length ≤ y0.s.workers ∧ y.jobs.length ≤ y0.s.tsteps - y.s.cstep ∧
    (y.s.cstep < y0.s.tsteps → 1 ≤ y0.s.workers → y.jobs ≠ []) := by
  obtain ⟨h1, h2, h3, h4, h5⟩ := scheduler_arithmetic hf hsh hr
  refine ⟨by omega, by omega, ?_⟩
  intro hc hw he
  rw [he] at h5
  simp at h5
  omega

/-- **One life, any restart point** (also the no-op restart `cstep₀ > steps`).  When the main loop
    has ended after a scheduler history from a fresh state: the step counter is `max cstep₀ steps`,
    exactly `max cstep₀ steps − cstep₀` moves were completed, and with `cstep₀ ≤ steps` no job is in
    flight.  This is what `SchedCtr.life` takes as the effect of a finished `scheduler()` run. -/
theorem life_counters {y0 y : Sys} {evs : List Ev} (hf : Fresh y0) (hsh : Shaped evs)
    (hr : run y0 evs = .ok y) (hfin : (loop y.s).2 = false) :
    y.s.cstep = max y0.s.cstep y0.s.tsteps ∧ nSteps evs = max y0.s.cstep y0.s.tsteps - y0.s.cstep ∧
    (persist y.s).cstep = y0.s.cstep + nSteps evs ∧ (y0.s.cstep ≤ y0.s.tsteps → y.jobs = []) := by
  obtain ⟨h1, h2, h3, h4, h5⟩ := scheduler_arithmetic hf hsh hr
  have hl := ((loop_fields y.s).2.2.2.2 hfin).1
  refine ⟨by omega, by omega, h1, ?_⟩
  intro hc0
  exact (finished_run hf hsh hr hc0 hfin).2.2

-- the no-op restart (cstep₀ = 5 > steps = 2): hypotheses of `life_counters` hold on a concrete history
example : let y0 : Sys := { s := blank 3 1 2 5 3 0 [] [] true [], jobs := [] }
    Fresh y0 ∧ Shaped [Ev.initDone] ∧ run y0 [Ev.initDone] = .ok y0 ∧ (loop y0.s).2 = false :=
  ⟨⟨rfl, rfl⟩, ⟨[], [], rfl, by simp, by simp⟩, rfl, rfl⟩

/-- the restart file's step counter is the number of completed moves -/
theorem restart_cstep (s : St) : (persist s).cstep = s.cstep := rfl
-- AUDIT NOTE (2026-09-30): `restart_cstep` is only about the CONTENT `write_toml` would store for a state; it says
-- nothing about WHEN the file is written.  Between `loop()` (which does `cstep += 1`) and the end of `treat_output`
-- the state's counter is one ahead of the completed moves:
example : let s := blank 3 1 4 0 3 0 [] [] false []
    (persist (loop s).1).cstep = 1 ∧ (loop s).2 = true := by decide
-- The clause "the step counter in the restart file equals the number of completed moves" is carried by
-- `disk_counts_completed_moves` below (write points and the file on disk are part of `Model/SchedDisk.lean`).

example : Shaped [Ev.start ⟨0, 0, false, 0⟩ 0, Ev.initDone, Ev.step 0 .rej [] ⟨0, 0, false, 0⟩] :=
  ⟨[Ev.start ⟨0, 0, false, 0⟩ 0], [Ev.step 0 .rej [] ⟨0, 0, false, 0⟩], rfl, by simp [isStart], by simp [isStep]⟩

/-! ## scheduler() with its file effects and its ways to end (`Model/SchedDisk.lean`)

`Repex.sysStep` has no write points, no death and no `runner.stop()`.  `SchedDisk.dstep` adds them as the
code has them; `dstep_proj` shows that every step with a counterpart IS that `sysStep` (so the theorems
above carry over), the driver op `sd-ev` runs `dstep` and the tie compares cstep / jobs in flight /
the file really on disk / stop() calls with the real `scheduler()` after every event. -/
section SchedDisk
open Infretis.SchedDisk

theorem treatPart_ok {d : DSys} {k : Nat} {st : Status} {w} {s2 : St} {job : Job}
    (h : treatPart d k st w = .ok (s2, job)) :
    (loop d.y.s).2 = true ∧ d.y.jobs[k]? = some job ∧ d.y.s.cstep < d.y.s.tsteps ∧
    s2.cstep = d.y.s.cstep + 1 ∧ s2.tsteps = d.y.s.tsteps ∧ s2.workers = d.y.s.workers ∧
    s2.toinitiate = d.y.s.toinitiate ∧
    (∃ pns its, treatOutput (loop d.y.s).1 job st w (sortFuel (loop d.y.s).1) = .ok (s2, pns, its)) := by
  unfold treatPart at h
  simp only at h
  have lf := loop_fields d.y.s
  split at h
  · simp at h
  · rename_i hgo
    simp at hgo
    obtain ⟨l1, l2, l3, l4, _⟩ := lf
    obtain ⟨hlt, hc⟩ := l4 hgo
    split at h
    · simp at h
    · rename_i job0 hj
      split at h
      · simp at h
      · rename_i s2' pns its ht
        simp at h
        obtain ⟨rfl, rfl⟩ := h
        have c2 := ctr_treatOutput ht
        simp only [ctr, Ctr.mk.injEq] at c2
        obtain ⟨c21, c22, c23, c24⟩ := c2
        exact ⟨hgo, hj, hlt, by omega, by omega, by omega, by omega, pns, its, ht⟩

/-- a step of the scheduler-with-files system that has a counterpart is that `sysStep` -/
theorem dstep_proj {d d' : DSys} {e : DEv} {ev : Ev} (h : dstep d e = .ok d') (he : toEv e = some ev) :
    sysStep d.y ev = .ok d'.y := by
  unfold dstep at h
  split at h
  · simp at h
  · cases e with
    | start o k =>
      simp only [toEv, Option.some.injEq] at he; subst he
      simp only at h
      split at h
      · simp at h
      · rename_i y' hy; simp at h; subst h; exact hy
    | initDone =>
      simp only [toEv, Option.some.injEq] at he; subst he
      simp only at h
      split at h
      · simp at h
      · rename_i y' hy; simp at h; subst h; exact hy
    | step k st w o =>
      simp only [toEv, Option.some.injEq] at he; subst he
      simp only at h
      split at h
      · simp at h
      · rename_i s2 job htp
        obtain ⟨hgo, hj, _, _, _, _, _, pns, its, ht⟩ := treatPart_ok htp
        unfold sysStep
        simp only [hgo, hj, ht]
        simp only [not_true_eq_false, ↓reduceIte]
        split at h
        · rename_i hre
          simp only [hre, ↓reduceIte]
          split at h
          · simp at h
          · rename_i s3 job' ds hp
            simp at h; subst h
            simp [hp]
        · rename_i hre
          simp only [hre, ↓reduceIte]
          simp at h; subst h
          rfl
    | stepKilled => simp [toEv] at he
    | unitFails => simp [toEv] at he
    | killedWaiting => simp [toEv] at he
    | finish => simp [toEv] at he

/-- file / memory invariant of a life that began at step counter `c0` with `disk0` on disk, after
    `n` completed moves -/
structure DInv (c0 : Nat) (disk0 : Option Image) (d : DSys) (n : Nat) : Prop where
  mem : d.y.s.cstep = c0 + n + (if d.midStep then 1 else 0)
  file : match d.disk with | some im => im.cstep = c0 + n | none => n = 0
  mid : d.midStep = true → d.phase = .dead
  stops : d.stops = (if d.phase = .stopped then 1 else 0)
  writes : d.writes = n + (if d.phase = .stopped then 1 else 0)
  nowrite : d.writes = 0 → d.disk = disk0
  stopfile : d.phase = .stopped → d.disk ≠ none

theorem dinv_step {c0 : Nat} {disk0 : Option Image} {d d' : DSys} {n : Nat} {e : DEv}
    (hI : DInv c0 disk0 d n) (h : dstep d e = .ok d') : DInv c0 disk0 d' (n + nDone [e]) := by
  have h0 := h
  unfold dstep at h
  split at h
  · simp at h
  · rename_i hph
    have hph : d.phase = .running := by simpa using hph
    have hmid : d.midStep = false := by
      cases hm : d.midStep with
      | false => rfl
      | true => have := hI.mid hm; rw [hph] at this; cases this
    have hmem := hI.mem
    have hfile := hI.file
    have hst := hI.stops
    have hwr := hI.writes
    have hnw := hI.nowrite
    rw [hmid] at hmem
    rw [hph] at hst hwr
    simp at hmem hst hwr
    cases e with
    | start o k =>
      simp only at h
      split at h
      · simp at h
      · rename_i y' hy
        simp at h; subst h
        have ef := start_effect hy
        refine ⟨?_, ?_, ?_, ?_, ?_, ?_, ?_⟩ <;> simp [nDone, hmid, hph, hst, hwr] <;> first | omega | skip
        · intro hw; exact hnw (by omega)
    | initDone =>
      simp only at h
      split at h
      · simp at h
      · rename_i y' hy
        simp at h; subst h
        have ef := initDone_effect hy
        refine ⟨?_, ?_, ?_, ?_, ?_, ?_, ?_⟩ <;> simp [nDone, hmid, hph, hst, hwr] <;> first | omega | skip
        · intro hw; exact hnw (by omega)
    | step k st w o =>
      simp only at h
      split at h
      · simp at h
      · rename_i s2 job htp
        obtain ⟨hgo, hj, hlt, c1, c2, c3, c4, _⟩ := treatPart_ok htp
        split at h
        · split at h
          · simp at h
          · rename_i s3 job' ds hp
            have c := ctr_prep hp
            simp only [ctr, Ctr.mk.injEq] at c
            simp at h; subst h
            refine ⟨?_, ?_, ?_, ?_, ?_, ?_, ?_⟩ <;> simp [nDone, hmid, hph, hst, hwr, persist] <;> omega
        · simp at h; subst h
          refine ⟨?_, ?_, ?_, ?_, ?_, ?_, ?_⟩ <;> simp [nDone, hmid, hph, hst, hwr, persist] <;> omega
    | stepKilled k st w =>
      simp only at h
      split at h
      · simp at h
      · rename_i s2 job htp
        obtain ⟨hgo, hj, hlt, c1, c2, c3, c4, _⟩ := treatPart_ok htp
        simp at h; subst h
        refine ⟨?_, ?_, ?_, ?_, ?_, ?_, ?_⟩ <;> simp [nDone, hmid, hst, hwr, persist] <;> omega
    | unitFails k =>
      simp only at h
      have lf := loop_fields d.y.s
      split at h
      · simp at h
      · rename_i hgo
        simp at hgo
        have hc := (lf.2.2.2.1 hgo).2
        split at h
        · simp at h
        · simp at h; subst h
          refine ⟨?_, ?_, ?_, ?_, ?_, ?_, ?_⟩ <;> simp [nDone, hst, hwr] <;> first | omega | skip
          · intro hw; exact hnw (by omega)
    | killedWaiting =>
      simp only at h
      have lf := loop_fields d.y.s
      split at h
      · simp at h
      · rename_i hgo
        simp at hgo
        have hc := (lf.2.2.2.1 hgo).2
        simp at h; subst h
        refine ⟨?_, ?_, ?_, ?_, ?_, ?_, ?_⟩ <;> simp [nDone, hst, hwr] <;> first | omega | skip
        · intro hw; exact hnw (by omega)
    | finish =>
      simp only at h
      have lf := loop_fields d.y.s
      split at h
      · simp at h
      · rename_i hgo
        simp at hgo
        have hc := (lf.2.2.2.2 hgo).2
        simp at h; subst h
        refine ⟨?_, ?_, ?_, ?_, ?_, ?_, ?_⟩ <;> simp [nDone, hmid, hst, hwr, persist, hc] <;> omega

theorem dinv_run {c0 : Nat} {disk0 : Option Image} : ∀ (evs : List DEv) {d d' : DSys} {n : Nat},
    DInv c0 disk0 d n → drun d evs = .ok d' → DInv c0 disk0 d' (n + nDone evs) := by
  intro evs
  induction evs with
  | nil => intro d d' n hI h; simp [drun] at h; subst h; simpa [nDone] using hI
  | cons e t ih =>
    intro d d' n hI h
    simp only [drun] at h
    cases h1 : dstep d e with
    | error er => rw [h1] at h; simp at h
    | ok d1 =>
      rw [h1] at h
      have := ih (dinv_step hI h1) h
      have e2 : n + nDone [e] + nDone t = n + nDone (e :: t) := by
        cases e <;> simp [nDone] <;> omega
      rw [e2] at this
      exact this

theorem dinv_begin (s : St) (disk0 : Option Image) (h0 : ∀ im, disk0 = some im → im.cstep = s.cstep) :
    DInv s.cstep disk0 (begin s disk0) 0 := by
  refine ⟨by simp [begin], ?_, by simp [begin], by simp [begin], by simp [begin], by simp [begin], by simp [begin]⟩
  simp only [begin]
  cases hd : disk0 with
  | none => simp
  | some im => simpa using h0 im hd

/-- **The step counter in the restart file equals the number of completed moves — at every point of
    every life, however it ends.**  A life begins at step counter `cstep₀` with `disk0` on disk (no
    file, or the file the state was loaded from).  After ANY history of the scheduler-with-files
    system (any outcomes, any completion order; cut short by a failing unit, a kill while waiting,
    a kill after a move, or finished): the file on disk — if there is one — has
    `cstep = cstep₀ + completed moves`, and there is none only if no move was completed and none was
    there; `write_toml` ran once per completed move (plus once at the regular end); the counter in
    MEMORY is one ahead exactly when `loop()` had counted a move that was never completed. -/
theorem disk_counts_completed_moves (s : St) (disk0 : Option Image) (evs : List DEv) (d : DSys)
    (h0 : ∀ im, disk0 = some im → im.cstep = s.cstep) (hr : drun (begin s disk0) evs = .ok d) :
    (∀ im, d.disk = some im → im.cstep = s.cstep + nDone evs) ∧
    (d.disk = none → nDone evs = 0 ∧ disk0 = none) ∧
    d.writes = nDone evs + (if d.phase = .stopped then 1 else 0) ∧
    d.y.s.cstep = s.cstep + nDone evs + (if d.midStep then 1 else 0) ∧
    (d.midStep = true → d.phase = .dead) := by
  have hI := dinv_run evs (dinv_begin s disk0 h0) hr
  simp only [Nat.zero_add] at hI
  refine ⟨?_, ?_, hI.writes, hI.mem, hI.mid⟩
  · intro im hd
    have := hI.file
    rw [hd] at this
    exact this
  · intro hd
    have := hI.file
    rw [hd] at this
    simp only at this
    refine ⟨this, ?_⟩
    have hw := hI.writes
    have hns : d.phase ≠ .stopped := fun hs => hI.stopfile hs hd
    have := hI.nowrite (by rw [hw, this]; simp [hns])
    rw [hd] at this
    exact this.symm

/-- **A unit's exception ends the run — it is neither swallowed nor survived.**  When
    `future.result()` re-raises a unit's exception, `scheduler()` is dead: the step counter in
    memory has counted the move (`+1`) but the file on disk is untouched (it still says the number
    of completed moves), nothing was written, `runner.stop()` was NOT called, and no event of the
    system can follow (no further move is run, recorded or counted). -/
theorem unit_exception_aborts {d d' : DSys} {k : Nat} (h : dstep d (.unitFails k) = .ok d') :
    d'.phase = .dead ∧ d'.midStep = true ∧ d'.disk = d.disk ∧ d'.writes = d.writes ∧ d'.stops = d.stops ∧
    d'.y.s.cstep = d.y.s.cstep + 1 ∧ d'.y.jobs.length + 1 = d.y.jobs.length ∧
    (∀ e, dstep d' e = .error .value) ∧ (∀ evs d'', drun d' evs = .ok d'' → evs = [] ∧ d'' = d') := by
  unfold dstep at h
  split at h
  · simp at h
  · simp only at h
    have lf := loop_fields d.y.s
    split at h
    · simp at h
    · rename_i hgo
      simp at hgo
      have hc := (lf.2.2.2.1 hgo).2
      split at h
      · simp at h
      · rename_i job hj
        have hk : k < d.y.jobs.length := by
          by_contra hn
          rw [List.getElem?_eq_none (by omega)] at hj
          simp at hj
        simp at h
        have hph' : d'.phase = .dead := by rw [← h]
        have hdead : ∀ e, dstep d' e = .error .value := by
          intro e; unfold dstep; simp [hph']
        subst h
        refine ⟨rfl, rfl, rfl, rfl, rfl, hc, ?_, hdead, ?_⟩
        · simp [List.length_eraseIdx, hk]; omega
        · intro evs d'' hr
          cases evs with
          | nil => simp [drun] at hr; exact ⟨rfl, hr.symm⟩
          | cons e t => simp [drun, hdead e] at hr

theorem drun_append_ok : ∀ {a : List DEv} {b : List DEv} {d d' : DSys}, drun d (a ++ b) = .ok d' →
    ∃ d1, drun d a = .ok d1 ∧ drun d1 b = .ok d'
  | [], b, d, d', h => ⟨d, rfl, h⟩
  | e :: t, b, d, d', h => by
    simp only [List.cons_append, drun] at h ⊢
    cases h1 : dstep d e with
    | error er => rw [h1] at h; simp at h
    | ok d1 => rw [h1] at h; exact drun_append_ok h

/-- histories without an early end project to `Repex.run` -/
theorem drun_proj : ∀ (evs : List DEv) {d d' : DSys}, (∀ e ∈ evs, (toEv e).isSome = true) →
    drun d evs = .ok d' → run d.y (evs.filterMap toEv) = .ok d'.y ∧ nSteps (evs.filterMap toEv) = nDone evs := by
  intro evs
  induction evs with
  | nil => intro d d' _ h; simp [drun] at h; subst h; simp [run, nSteps, nDone]
  | cons e t ih =>
    intro d d' hp h
    simp only [drun] at h
    cases h1 : dstep d e with
    | error er => rw [h1] at h; simp at h
    | ok d1 =>
      rw [h1] at h
      have hs := hp e (by simp)
      obtain ⟨ev, hev⟩ := Option.isSome_iff_exists.1 hs
      have := dstep_proj h1 hev
      obtain ⟨r1, r2⟩ := ih (fun e he => hp e (by simp [he])) h
      simp only [List.filterMap_cons, hev, run, this]
      refine ⟨r1, ?_⟩
      cases e <;> simp [toEv] at hev <;> subst hev <;> simp [nSteps, nDone, r2]

/-- **A finished run: the FILE says `steps`, and `runner.stop()` ran once.**  A life from a fresh
    state with `cstep₀ ≤ steps` whose history is a scheduler history (no early end) followed by the
    regular end: exactly `steps − cstep₀` moves were completed, no job is in flight, the restart
    file on disk has `cstep = steps`, it was written once per move plus once at the end, and
    `runner.stop()` was called exactly once. -/
theorem finished_file (s : St) (disk0 : Option Image) (evs : List DEv) (d : DSys)
    (h0 : ∀ im, disk0 = some im → im.cstep = s.cstep) (hf : s.toinitiate = (s.workers : Int))
    (hp : ∀ e ∈ evs, (toEv e).isSome = true) (hsh : Shaped (evs.filterMap toEv))
    (hc0 : s.cstep ≤ s.tsteps) (hr : drun (begin s disk0) (evs ++ [.finish]) = .ok d) :
    nDone evs = s.tsteps - s.cstep ∧ d.y.jobs = [] ∧ d.y.s.cstep = s.tsteps ∧
    (∃ im, d.disk = some im ∧ im.cstep = s.tsteps) ∧ d.writes = nDone evs + 1 ∧
    d.stops = 1 ∧ d.phase = .stopped := by
  obtain ⟨d1, hr1, hfin⟩ := drun_append_ok hr
  simp only [drun] at hfin
  cases h2 : dstep d1 .finish with
  | error er => rw [h2] at hfin; simp at hfin
  | ok d2 =>
    rw [h2] at hfin
    simp at hfin; subst hfin
    obtain ⟨p1, p2⟩ := drun_proj evs hp hr1
    have hI1 := dinv_run evs (dinv_begin s disk0 h0) hr1
    have hI2 := dinv_step hI1 h2
    simp only [Nat.zero_add, nDone, Nat.add_zero] at hI1 hI2
    have h2' := h2
    unfold dstep at h2'
    split at h2'
    · simp at h2'
    · simp only at h2'
      have lf := loop_fields d1.y.s
      split at h2'
      · simp at h2'
      · rename_i hgo
        simp at hgo
        have hsame := (lf.2.2.2.2 hgo).2
        simp at h2'; subst h2'
        have hfresh : Fresh (begin s disk0).y := ⟨rfl, hf⟩
        obtain ⟨f1, f2, f3⟩ := finished_run hfresh hsh p1 hc0 hgo
        simp only [begin] at f1 f2
        rw [p2] at f1
        have hm := hI1.mem
        have hwr := hI2.writes
        have hst := hI2.stops
        simp at hwr hst
        refine ⟨f1, f3, by rw [hsame]; exact f2, ⟨persist (loop d1.y.s).1, rfl, ?_⟩, by simp [hwr], by simp [hst], rfl⟩
        simp [persist, hsame, f2]

-- non-vacuity (ensembles [0-] [0+], one worker, 3 steps, fresh directory; `Lemmas/SchedDiskEx.lean`):
-- a unit fails after one completed move — memory says 2, the file says 1, stop() was not called
example : ∃ d d', drun (begin SchedDiskEx.exFresh none) (SchedDiskEx.evsFail.take 3) = .ok d ∧
    dstep d (.unitFails 0) = .ok d' ∧ d.phase = .running ∧ d.y.jobs.length = 1 ∧
    d'.y.s.cstep = 2 ∧ d'.disk.map (·.cstep) = some 1 ∧ d'.stops = 0 := by
  obtain ⟨d, h1, _, hj, _, _, _, hp, _⟩ := SchedDiskEx.okWith_ok SchedDiskEx.exBeforeFail
  obtain ⟨d', h2, c1, _, c3, _, c5, _, _⟩ := SchedDiskEx.okWith_ok SchedDiskEx.exFail
  have : SchedDiskEx.evsFail = SchedDiskEx.evsFail.take 3 ++ [.unitFails 0] := rfl
  rw [this] at h2
  obtain ⟨d1, e1, e2⟩ := drun_append_ok h2
  rw [h1] at e1
  have e1' : d1 = d := by injection e1 with e; exact e.symm
  subst e1'
  simp only [drun] at e2
  cases h3 : dstep d1 (.unitFails 0) with
  | error er => rw [h3] at e2; simp at e2
  | ok dd => rw [h3] at e2; simp at e2; subst e2; exact ⟨d1, dd, h1, h3, hp, hj, c1, c3, c5⟩

-- the hypotheses of `finished_file` (and of `disk_counts_completed_moves`) hold on a whole run of three moves
example : (∀ im, (none : Option Image) = some im → im.cstep = SchedDiskEx.exFresh.cstep) ∧
    SchedDiskEx.exFresh.toinitiate = (SchedDiskEx.exFresh.workers : Int) ∧
    (∀ e ∈ SchedDiskEx.evsRun, (toEv e).isSome = true) ∧ Shaped (SchedDiskEx.evsRun.filterMap toEv) ∧
    SchedDiskEx.exFresh.cstep ≤ SchedDiskEx.exFresh.tsteps ∧
    (∃ d, drun (begin SchedDiskEx.exFresh none) (SchedDiskEx.evsRun ++ [.finish]) = .ok d) := by
  obtain ⟨c1, c2, c3, c4⟩ := SchedDiskEx.exFresh_counters
  obtain ⟨d, h, _⟩ := SchedDiskEx.okWith_ok SchedDiskEx.exFinished
  refine ⟨fun im him => (by cases him), (by rw [c4, c3]; rfl), ?_, ?_, by omega, d, h⟩
  · intro e he
    simp [SchedDiskEx.evsRun] at he
    rcases he with rfl | rfl | rfl | rfl <;> rfl
  · exact ⟨[Ev.start { t := 1, e := 1 } 0],
      [Ev.step 0 .acc [[1, 0]] { t := 0, e := 0 }, Ev.step 0 .rej [] { t := 1, e := 1 }, Ev.step 0 .rej [] { t := 1, e := 1 }],
      rfl, by simp [isStart], by simp [isStep]⟩

end SchedDisk

/-! The runner half is proved in `Props/C17Runner.lean` (namespace `Infretis.C17Runner`):
    `exactly_once`, `fifo_order`, `no_result_lost`, `stop_clean`, … — audited together with this file. -/

end Infretis.C17
