import Infretis.Lemmas.Runner
/-!
# C17 (runner half) — every submitted unit is executed exactly once, its result or exception is
delivered exactly once whatever the completion order, and the runner shuts down cleanly

Property theorems only (helper lemmas: `Infretis/Lemmas/Runner.lean`).
Model: `Infretis/Model/Runner.lean`, the protocol of `aiorunner` / `future_list`
(`infretis/asyncrunner.py`) as a transition system `step : State → Event → Option State`.
All statements are for event lists of any length, any number of worker tasks and units, every
interleaving the protocol allows (i.e. all task durations / completion orders, failing tasks
included: `Outcome.exc`).

Not covered by the model: the internals of `asyncio` and of `ProcessPoolExecutor`; that the
real runner only produces traces the model accepts is checked on every run by the tie
(`harness/props/c17_runner.py`, trace validation).
-/
namespace Infretis.C17Runner
open Infretis.Runner

/-- The exactly-once statement about an event list `tr` and the state `s` it leads to. -/
structure ExactlyOnce (tr : List Event) (s : State) : Prop where
  /-- unit ids (futures) are fresh -/
  submit_once : (subSeq tr).Nodup
  /-- a unit is taken at most once … -/
  take_once : (takenSeq tr).Nodup
  /-- … and only after its submission -/
  take_after_submit : ∀ pre w u post, tr = pre ++ .take w u :: post → .submit u ∈ pre
  /-- a unit is finished (its future set) at most once … -/
  finish_once : (finUnits tr).Nodup
  /-- … and only by the worker that took it, after it took it -/
  finish_by_taker : ∀ pre w u o post, tr = pre ++ .finish w u o :: post → .take w u ∈ pre
  /-- the future of `u` is done with outcome `o` exactly when `u`'s own finish event carried `o` -/
  future_own : ∀ u o, futOf s u = some (.done o) ↔ ∃ w, .finish w u o ∈ tr
  /-- the future of `u` is pending exactly when `u` was submitted and never finished -/
  future_pending : ∀ u, futOf s u = some .pending ↔ .submit u ∈ tr ∧ ∀ w o, .finish w u o ∉ tr
  /-- a future is handed to the consumer at most once … -/
  collect_once : (colUnits tr).Nodup
  /-- … only after it is done, and with the outcome it was set to -/
  collect_after_done : ∀ pre u o post, tr = pre ++ .collect u o :: post → ∃ w, .finish w u o ∈ pre
  /-- complete (quiescent) traces: every submitted unit taken exactly once, finished exactly once,
      future done -/
  complete : quiescent s = true → ∀ u, .submit u ∈ tr →
    (takenSeq tr).count u = 1 ∧ (finUnits tr).count u = 1 ∧ ∃ o, futOf s u = some (.done o)

/-- **Exactly once.** For every event list the protocol accepts (any number of workers, any
    interleaving, failing units included). -/
theorem exactly_once (nw : Nat) (tr : List Event) (s : State)
    (h : run (init nw) tr = some s) : ExactlyOnce tr s := by
  have hI := inv_run h
  refine ⟨hI.sub_nodup, takenSeq_nodup hI, ?_, hI.fin_nodup, ?_, futOf_done_iff hI,
    futOf_pending_iff hI, hI.col_nodup, ?_, ?_⟩
  · intro pre w u post htr
    subst htr
    obtain ⟨s1, s2, h1, h2, _⟩ := run_split h
    have hI1 := inv_run h1
    obtain ⟨t, hq, _, _⟩ := step_take_some h2
    have : u ∈ subSeq pre := by rw [hI1.fifo, hq]; simp
    exact mem_subSeq.1 this
  · intro pre w u o post htr
    subst htr
    obtain ⟨s1, s2, h1, h2, _⟩ := run_split h
    have hI1 := inv_run h1
    exact mem_takes.1 (hI1.run_taken _ _ (step_finish_some h2))
  · intro pre u o post htr
    subst htr
    obtain ⟨s1, s2, h1, h2, _⟩ := run_split h
    have hI1 := inv_run h1
    have := step_collect_some h2
    rw [hI1.done_eq] at this
    exact mem_doneOf.1 this
  · intro hq u hu
    simp only [quiescent, Bool.and_eq_true, List.isEmpty_iff] at hq
    obtain ⟨hq, hr⟩ := hq
    have htaken : u ∈ takenSeq tr := by
      have := mem_subSeq.2 hu
      rw [hI.fifo, hq, List.append_nil] at this; exact this
    obtain ⟨w, hw⟩ := mem_takenSeq.1 htaken
    have hfin : ∃ o, (w, u, o) ∈ fins tr := by
      rcases hI.taken_cases _ _ (mem_takes.2 hw) with h1 | h1
      · rw [hr] at h1; simp at h1
      · exact h1
    obtain ⟨o, ho⟩ := hfin
    have hfu : u ∈ finUnits tr := mem_finUnits.2 ⟨w, o, mem_fins.1 ho⟩
    exact ⟨List.count_eq_one_of_mem (takenSeq_nodup hI) htaken,
      List.count_eq_one_of_mem hI.fin_nodup hfu,
      o, (futOf_done_iff hI u o).2 ⟨w, mem_fins.1 ho⟩⟩

/-- the same, phrased with `accepts` -/
theorem exactly_once_accepts (nw : Nat) (tr : List Event) (h : accepts nw tr = true) :
    ∃ s, run (init nw) tr = some s ∧ ExactlyOnce tr s := by
  unfold accepts at h
  cases hr : run (init nw) tr with
  | none => simp [hr] at h
  | some s => exact ⟨s, rfl, exactly_once nw tr s hr⟩

-- two workers, three units, out-of-order completion, one failing unit, then stop: accepted and complete
example : ∃ s, run (init 2) [.submit 1, .submit 2, .take 0 1, .take 1 2, .submit 3,
      .finish 1 2 (.exc 2), .take 1 3, .collect 2 (.exc 2), .finish 1 3 (.ok 3), .finish 0 1 (.ok 1),
      .collect 1 (.ok 1), .collect 3 (.ok 3), .stop] = some s ∧ quiescent s = true ∧ s.stopped = true := by
  refine ⟨_, rfl, ?_, ?_⟩ <;> decide

-- the protocol rejects: a second take of the same unit, a finish by another worker, a second
-- finish, a collect of a pending future, a collect with a foreign outcome
example : accepts 2 [.submit 1, .take 0 1, .take 1 1] = false
    ∧ accepts 2 [.submit 1, .take 0 1, .finish 1 1 (.ok 1)] = false
    ∧ accepts 2 [.submit 1, .take 0 1, .finish 0 1 (.ok 1), .finish 0 1 (.ok 1)] = false
    ∧ accepts 2 [.submit 1, .take 0 1, .collect 1 (.ok 1)] = false
    ∧ accepts 2 [.submit 1, .take 0 1, .finish 0 1 (.ok 1), .collect 1 (.ok 2)] = false := by decide

/-- **FIFO.** Units are taken in submission order: the sequence of taken units is a prefix of the
    sequence of submitted units, the rest being exactly the queue. -/
theorem fifo_order (nw : Nat) (tr : List Event) (s : State) (h : run (init nw) tr = some s) :
    subSeq tr = takenSeq tr ++ s.queue ∧ takenSeq tr <+: subSeq tr ∧
      ∀ k, k < (takenSeq tr).length → (takenSeq tr)[k]? = (subSeq tr)[k]? := by
  have hI := inv_run h
  refine ⟨hI.fifo, ⟨s.queue, hI.fifo.symm⟩, ?_⟩
  intro k hk
  rw [hI.fifo, List.getElem?_append_left hk]

example : accepts 3 [.submit 5, .submit 4, .take 2 5, .take 0 4] = true
    ∧ accepts 3 [.submit 5, .submit 4, .take 2 4] = false := by decide

/-- **No result lost.** In any reachable state `#submitted = |queue| + #running + #done`; a worker
    task holds at most one unit and there are only `nw` of them; and a done future never reverts
    or changes, whatever happens afterwards. -/
theorem no_result_lost (nw : Nat) (tr : List Event) (s : State) (h : run (init nw) tr = some s) :
    s.submitted.length = s.queue.length + s.running.length + s.done.length
    ∧ (s.running.map (·.1)).Nodup ∧ (∀ w u, (w, u) ∈ s.running → w < nw)
    ∧ ∀ tr' s', run s tr' = some s' → ∀ u o, futOf s u = some (.done o) → futOf s' u = some (.done o) := by
  have hI := inv_run h
  have hnw : s.nw = nw := run_nw tr (init nw) s h
  refine ⟨hI.len, hI.workers_nodup, ?_, ?_⟩
  · intro w u hm; have := hI.workers_lt w u hm; rwa [hnw] at this
  · intro tr' s' h' u o hd
    have h2 : run (init nw) (tr ++ tr') = some s' := by rw [run_append, h]; exact h'
    have hI' := inv_run h2
    obtain ⟨w, hw⟩ := (futOf_done_iff hI u o).1 hd
    exact (futOf_done_iff hI' u o).2 ⟨w, List.mem_append_left _ hw⟩

example : ∃ s, run (init 2) [.submit 1, .submit 2, .submit 3, .take 0 1, .take 1 2, .finish 1 2 (.exc 7)] = some s
    ∧ s.submitted.length = 3 ∧ s.queue.length = 1 ∧ s.running.length = 1 ∧ s.done.length = 1 :=
  ⟨_, rfl, by decide⟩

/-- **Clean stop.** `stop` only happens with an empty queue; once the stop event is set nothing is
    submitted or taken any more, the queue stays empty and the set of held units only shrinks; and
    from a stopped quiescent state nothing runs, is queued or finishes ever again (the only events
    left are the consumer's `collect`s). -/
theorem stop_clean (nw : Nat) (tr : List Event) (s : State) (h : run (init nw) tr = some s)
    (hst : s.stopped = true) :
    s.queue = [] ∧
    ∀ tr' s', run s tr' = some s' →
      s'.stopped = true ∧ s'.queue = [] ∧ subSeq tr' = [] ∧ takes tr' = []
      ∧ (∀ p, p ∈ s'.running → p ∈ s.running)
      ∧ (quiescent s = true → quiescent s' = true ∧ fins tr' = []) := by
  have hI := inv_run h
  have hq := hI.stopped_queue hst
  refine ⟨hq, ?_⟩
  intro tr' s' h'
  have key : ∀ (tr' : List Event) (s s' : State), s.stopped = true → s.queue = [] → run s tr' = some s' →
      s'.stopped = true ∧ s'.queue = [] ∧ subSeq tr' = [] ∧ takes tr' = []
      ∧ (∀ p, p ∈ s'.running → p ∈ s.running) ∧ (s.running = [] → fins tr' = []) := by
    intro tr'
    induction tr' with
    | nil =>
      intro s s' hst hq h
      simp only [run, Option.some.injEq] at h; subst h
      exact ⟨hst, hq, rfl, rfl, fun _ hp => hp, fun _ => rfl⟩
    | cons e tr' ih =>
      intro s s' hst hq h
      simp only [run] at h
      cases h1 : step s e with
      | none => simp [h1] at h
      | some s1 =>
        simp only [h1] at h
        cases e with
        | submit u => simp [step, hst] at h1
        | take w u => simp [step, hst] at h1
        | stop => simp [step, hst] at h1
        | finish w u o =>
          have hm := step_finish_some h1
          simp only [step] at h1
          split at h1
          · injection h1 with h1; subst h1
            obtain ⟨a, b, c, d, e, _⟩ :=
              ih { s with running := s.running.erase (w, u), done := (u, o) :: s.done } s' hst hq h
            refine ⟨a, b, c, d, fun p hp => List.mem_of_mem_erase (e p hp), ?_⟩
            intro hr; rw [hr] at hm; simp at hm
          · simp at h1
        | collect u o =>
          simp only [step] at h1
          split at h1
          · injection h1 with h1; subst h1
            obtain ⟨a, b, c, d, e, f⟩ := ih { s with collected := u :: s.collected } s' hst hq h
            exact ⟨a, b, c, d, e, f⟩
          · simp at h1
  obtain ⟨a, b, c, d, e, f⟩ := key tr' s s' hst hq h'
  refine ⟨a, b, c, d, e, ?_⟩
  intro hqs
  simp only [quiescent, Bool.and_eq_true, List.isEmpty_iff] at hqs ⊢
  have hr' : s'.running = [] := by
    cases hrun : s'.running with
    | nil => rfl
    | cons p l =>
      have := e p (by rw [hrun]; exact List.mem_cons_self)
      rw [hqs.2] at this; simp at this
  exact ⟨⟨b, hr'⟩, f hqs.2⟩

-- stop while a unit is still held: accepted, the unit still finishes and is collected; stop with a
-- non-empty queue, and submit / take / second stop after stop are not part of the protocol
example : accepts 1 [.submit 1, .take 0 1, .stop, .finish 0 1 (.ok 1), .collect 1 (.ok 1)] = true
    ∧ accepts 1 [.submit 1, .stop] = false
    ∧ accepts 1 [.stop, .submit 1] = false
    ∧ accepts 1 [.stop, .stop] = false := by decide

/-- **The trace-only predicate is implied.** What the driver evaluates on observed traces
    (`exactlyOnceB`, `fifoB`, and `completeB` for quiescent ends) holds of every accepted trace. -/
theorem accepted_satisfies_predicates (nw : Nat) (tr : List Event) (s : State)
    (h : run (init nw) tr = some s) :
    exactlyOnceB tr = true ∧ fifoB tr = true ∧ (quiescent s = true → completeB tr = true) := by
  have hE := exactly_once nw tr s h
  have hF := fifo_order nw tr s h
  refine ⟨?_, ?_, ?_⟩
  · simp only [exactlyOnceB, Bool.and_eq_true, nodupB_iff]
    refine ⟨⟨⟨⟨hE.submit_once, hE.take_once⟩, hE.finish_once⟩, hE.collect_once⟩, ?_⟩
    apply orderOk_of
    intro a e b hab
    cases e with
    | submit u => rfl
    | stop => rfl
    | take w u =>
      simpa [causeOk] using hE.take_after_submit a w u b hab
    | finish w u o =>
      simpa [causeOk] using hE.finish_by_taker a w u o b hab
    | collect u o =>
      obtain ⟨w, hw⟩ := hE.collect_after_done a u o b hab
      simp only [causeOk, List.append_nil, List.any_reverse, List.any_eq_true]
      exact ⟨_, hw, by simp⟩
  · simp only [fifoB, List.isPrefixOf_iff_prefix]
    exact hF.2.1
  · intro hq
    simp only [completeB, List.all_eq_true, Bool.and_eq_true, List.contains_eq_mem, decide_eq_true_eq]
    intro u hu
    obtain ⟨h1, h2, _⟩ := hE.complete hq u (mem_subSeq.1 hu)
    exact ⟨List.count_pos_iff.1 (by omega), List.count_pos_iff.1 (by omega)⟩

example : exactlyOnceB [.submit 1, .take 0 1, .finish 0 1 (.ok 1), .collect 1 (.ok 1)] = true
    ∧ exactlyOnceB [.submit 1, .take 0 1, .take 1 1] = false
    ∧ exactlyOnceB [.take 0 1, .submit 1] = false
    ∧ completeB [.submit 1, .take 0 1] = false := by decide

end Infretis.C17Runner
