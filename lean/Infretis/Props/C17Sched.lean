import Infretis.Model.SchedCtr
/-!
# C17 (scheduler half, restart arithmetic) — "restarting with a larger step count continues from there"

Model: `Infretis/Model/SchedCtr.lean` (`setupRule` mirrors the restart stop rule of `setup_config`;
`life` / `chain` compose it with what a finished `scheduler()` run does to the step counter, which
is theorem `Infretis.C17.life_counters` about the replica-exchange model).  All statements are for
every step counter, every `restarted_from`, every list of step counts.
-/
namespace Infretis.C17Sched
open Infretis.SchedCtr

/-- **The stop rule.**  `setup_config` refuses a restart exactly when the previous restart made no
    step (`restarted_from = cstep`) and no step is left (`steps ≤ cstep`). -/
theorem setup_refuses_iff (c : Nat) (rf : Option Nat) (t : Nat) :
    setupRule c rf t = .refuse ↔ (rf = some c ∧ t ≤ c) := by
  unfold setupRule
  split
  · rename_i h; simp [h.1, h.2]
  · rename_i h; simp only [reduceCtorEq, false_iff]; intro hh; exact h ⟨hh.1, hh.2⟩

example : setupRule 5 (some 5) 5 = .refuse ∧ setupRule 5 (some 3) 5 = .go 5 ∧ setupRule 5 none 2 = .go 5 := by decide

/-- **A larger step count always continues** — whatever `restarted_from` says (in particular after a
    no-op restart of a finished run), and `restarted_from` becomes the file's step counter. -/
theorem larger_steps_continue (c : Nat) (rf : Option Nat) (t : Nat) (h : c < t) : setupRule c rf t = .go c := by
  unfold setupRule
  rw [if_neg]
  intro hh; omega

example : setupRule 5 (some 5) 6 = .go 5 := by decide

/-- **One life.**  A life that is not refused ends with the step counter at `max cstep steps`,
    completes exactly that many moves more, and leaves `restarted_from = ` the counter it started
    from; with `steps ≥ cstep` that is `steps` and `steps − cstep` moves — never more, never fewer. -/
theorem life_moves (d d' : Disk) (t m : Nat) (h : life d t = some (d', m)) :
    d'.cstep = max d.cstep t ∧ d.cstep + m = d'.cstep ∧ d'.rfrom = some d.cstep ∧
    (d.cstep ≤ t → d'.cstep = t ∧ m = t - d.cstep) := by
  unfold life at h
  split at h
  · simp at h
  · rename_i rf hrf
    have : rf = d.cstep := by
      unfold setupRule at hrf
      split at hrf
      · simp at hrf
      · simp at hrf; exact hrf.symm
    subst this
    simp only [Option.some.injEq, Prod.mk.injEq] at h
    obtain ⟨h1, h2⟩ := h
    subst h1; subst h2
    refine ⟨rfl, by simp only; omega, rfl, ?_⟩
    intro hc; simp only; omega

example : life { cstep := 3, rfrom := none } 10 = some ({ cstep := 10, rfrom := some 3 }, 7) := by decide

/-- **A no-op restart runs once, then is refused.**  Restarting a run that has no step left is
    accepted the first time (zero moves, `restarted_from` recorded) and refused from then on —
    until the step count is raised (`larger_steps_continue`). -/
theorem noop_restart_refused_second_time (d d' : Disk) (t m : Nat) (h : life d t = some (d', m))
    (ht : t ≤ d.cstep) : m = 0 ∧ d'.cstep = d.cstep ∧ life d' t = none ∧ ∀ t', d.cstep < t' → (life d' t').isSome := by
  obtain ⟨h1, h2, h3, _⟩ := life_moves d d' t m h
  have hc : d'.cstep = d.cstep := by rw [h1]; omega
  refine ⟨by omega, hc, ?_, ?_⟩
  · unfold life
    have : setupRule d'.cstep d'.rfrom t = .refuse := (setup_refuses_iff _ _ _).2 ⟨by rw [h3, hc], by omega⟩
    rw [this]
  · intro t' ht'
    unfold life
    rw [larger_steps_continue d'.cstep d'.rfrom t' (by omega)]
    rfl

example : life { cstep := 4, rfrom := some 2 } 4 = some ({ cstep := 4, rfrom := some 4 }, 0)
    ∧ life { cstep := 4, rfrom := some 4 } 4 = none := by decide

theorem foldl_max_ge (ts : List Nat) (a : Nat) : a ≤ ts.foldl max a := by
  induction ts generalizing a with
  | nil => simp
  | cons t ts ih => simp only [List.foldl_cons]; exact Nat.le_trans (Nat.le_max_left a t) (ih _)

/-- **Chains of lives** (finish, restart with more steps, restart again, …, any step counts, no-op
    and refused restarts included): the step counter in the restart file ends at the largest step
    count asked for so far (or where it started, if that was larger), and it always equals the start
    value plus the total number of moves completed over all lives. -/
theorem chain_total (ts : List Nat) (d : Disk) :
    (chain d ts).1.cstep = ts.foldl max d.cstep ∧ d.cstep + (chain d ts).2.1 = (chain d ts).1.cstep := by
  induction ts generalizing d with
  | nil => simp [chain]
  | cons t ts ih =>
    simp only [chain, List.foldl_cons]
    cases hl : life d t with
    | none =>
      have href : setupRule d.cstep d.rfrom t = .refuse := by
        unfold life at hl
        split at hl
        · assumption
        · simp at hl
      have hle := ((setup_refuses_iff _ _ _).1 href).2
      have hm : max d.cstep t = d.cstep := by omega
      simp only [hm]
      exact ih d
    | some r =>
      obtain ⟨d', m⟩ := r
      obtain ⟨h1, h2, _, _⟩ := life_moves d d' t m hl
      have := ih d'
      simp only
      rw [← h1]
      refine ⟨this.1, ?_⟩
      omega

example : chain { cstep := 0, rfrom := none } [4, 4, 4, 7] = ({ cstep := 7, rfrom := some 4 }, 7, [true, true, false, true]) := by
  decide

/-- **Finish, then restart with a larger step count**: the second life is not refused, continues
    from where the first ended and completes exactly the difference — also when that is fewer than
    the number of workers (the short restart; no job is then left in flight: `C17.life_counters`). -/
theorem finish_then_larger (d d1 : Disk) (t t' m : Nat) (h : life d t = some (d1, m)) (h1 : d.cstep ≤ t)
    (h2 : t < t') :
    m = t - d.cstep ∧ d1.cstep = t ∧
    ∃ d2, life d1 t' = some (d2, t' - t) ∧ d2.cstep = t' ∧ d2.rfrom = some t := by
  obtain ⟨a1, a2, a3, a4⟩ := life_moves d d1 t m h
  obtain ⟨hc, hm⟩ := a4 h1
  refine ⟨hm, hc, ?_⟩
  have hgo := larger_steps_continue d1.cstep d1.rfrom t' (by omega)
  refine ⟨{ cstep := max d1.cstep t', rfrom := some d1.cstep }, ?_, ?_, ?_⟩
  · unfold life
    rw [hgo]
    simp only [Option.some.injEq, Prod.mk.injEq, true_and]
    omega
  · simp only; omega
  · simp only [hc]

example : life { cstep := 0, rfrom := none } 5 = some ({ cstep := 5, rfrom := some 0 }, 5)
    ∧ life { cstep := 5, rfrom := some 0 } 6 = some ({ cstep := 6, rfrom := some 5 }, 1) := by decide

/-- **The stop rule does not depend on the number of workers.**  `setup_config` reads
    `runner.workers` nowhere in the rule: whatever the worker count, the decision is the one for the
    same `(cstep, restarted_from, steps)`. -/
theorem setup_rule_ignores_workers (c : RestartCfg) (w : Nat) :
    setupRuleCfg { c with workers := w } = setupRuleCfg c ∧ setupRuleCfg c = setupRule c.cstep c.rfrom c.steps :=
  ⟨rfl, rfl⟩

example : setupRuleCfg { cstep := 5, rfrom := some 5, steps := 6, workers := 3 } = .go 5
    ∧ setupRuleCfg { cstep := 5, rfrom := some 5, steps := 6, workers := 1 } = .go 5 := by decide

/-- **Raising the step count by fewer than `workers` after a no-op restart still continues.**
    For every worker count `w`, every raise `d ≥ 1` (in particular `d < w`), and whatever
    `restarted_from` says (a finished run started again unchanged leaves `restarted_from = cstep`):
    the restart is not refused, and the life completes exactly `d` moves and ends at `cstep + d`. -/
theorem short_raise_after_noop_continues (c d w : Nat) (rf : Option Nat) (hd : 1 ≤ d) :
    setupRuleCfg { cstep := c, rfrom := rf, steps := c + d, workers := w } = .go c ∧
    life { cstep := c, rfrom := rf } (c + d) = some ({ cstep := c + d, rfrom := some c }, d) := by
  have h := larger_steps_continue c rf (c + d) (by omega)
  refine ⟨h, ?_⟩
  unfold life
  rw [h]
  simp only [Option.some.injEq, Prod.mk.injEq, Disk.mk.injEq, and_true]
  omega

example : life { cstep := 4, rfrom := some 4 } 5 = some ({ cstep := 5, rfrom := some 4 }, 1) := by decide

end Infretis.C17Sched
