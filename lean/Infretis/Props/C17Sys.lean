import Infretis.Lemmas.RunnerSys
import Infretis.Props.C17Runner
import Infretis.Model.RunnerSysX
/-!
# C17 (runner half, the runner's own code) — every submitted unit is executed exactly once, its
result or exception is delivered exactly once whatever the completion order, and `stop()` returns

Model: `Infretis/Model/RunnerSys.lean` — `asyncrunner.py`'s code as a transition system
(`submit_work`/`_add_work_to_queue`, the worker coroutine `_task_wrapper` resumed from `await` to
`await`, `future_list.add/as_completed` one `done()` call at a time, `stop()` one poll at a time).
The quantifier of every theorem is: any number of workers, any event list the system can perform,
i.e. EVERY interleaving of main thread and worker coroutines, every completion order, failing
units included (`Outcome.exc`).  Helper lemmas: `Infretis/Lemmas/RunnerSys.lean`.

The tie (`harness/props/c17_sys.py`) runs the real methods under a PRNG-driven runtime and
compares the state after every event with this system.
-/
namespace Infretis.C17Sys
open Infretis.Runner Infretis.RunnerSys

/-- **Refinement.**  Whatever the system of the runner's code does, the protocol events it emits
    form a run of the abstract protocol (`Model/Runner.lean`), and the two states stay related
    (`Rel`: same queue, same futures, `running` = the workers awaiting an executor, …). -/
theorem sys_refines (nw : Nat) (evs : List FEv) (s : Sys) (out : List Event)
    (h : frun (RunnerSys.init nw) evs = some (s, out)) :
    ∃ c, Runner.run (Runner.init nw) out = some c ∧ Rel s c ∧ accepts nw out = true := by
  obtain ⟨c, hr, hR⟩ := sim_run evs (pre := []) (nw := nw) rfl (rel_init nw) h
  exact ⟨c, hr, hR, by simp [accepts, hr]⟩

-- two workers, three units, out-of-order completion, a failing unit, consumption and stop
example : ∃ s out, frun (RunnerSys.init 2) [.submit 1, .submit 2, .resume 0 (.ok 0), .resume 1 (.ok 0), .submit 3,
      .resume 1 (.exc 2), .acEnter, .acCheck, .acCheck, .resume 0 (.ok 1), .acEnter, .acCheck, .stopEnter,
      .stopPollQ, .stopPollT, .resume 1 (.ok 3), .resume 0 (.ok 0), .stopPollT] = some (s, out)
    ∧ s.main = .finished ∧ out.length = 12 := by
  refine ⟨_, _, rfl, ?_, ?_⟩ <;> decide

/-- **Exactly once, for the code's own system.**  The emitted protocol trace of any run satisfies
    the exactly-once statement of `C17Runner` (each unit taken once, finished once by its taker,
    its future set once with its own outcome, collected at most once and only when done), with the
    system's queue / futures being the protocol's. -/
theorem sys_exactly_once (nw : Nat) (evs : List FEv) (s : Sys) (out : List Event)
    (h : frun (RunnerSys.init nw) evs = some (s, out)) :
    ∃ c, Runner.run (Runner.init nw) out = some c ∧ C17Runner.ExactlyOnce out c ∧
      c.queue = s.queue ∧ c.submitted = s.created ∧ c.done = s.done ∧ c.stopped = s.stopSet := by
  obtain ⟨c, hr, hR, _⟩ := sys_refines nw evs s out h
  exact ⟨c, hr, C17Runner.exactly_once nw out c hr, hR.queue, hR.sub, hR.done, hR.stopped⟩

example : (frun (RunnerSys.init 1) [.submit 7, .resume 0 (.ok 0), .resume 0 (.exc 7)]).map (·.2) =
    some [.submit 7, .take 0 7, .finish 0 7 (.exc 7)] := rfl

/-- **No `InvalidStateError`, no early exit.**  In every reachable state: no worker task has died
    on a future that was already done; no worker has left its loop before the stop event was set;
    a unit a worker is awaiting is a created, still pending future, and no two workers hold the
    same unit. -/
theorem sys_no_crash (nw : Nat) (evs : List FEv) (s : Sys) (out : List Event)
    (h : frun (RunnerSys.init nw) evs = some (s, out)) :
    (∀ w : Nat, s.pcs[w]? ≠ some WPc.crashed) ∧
    (s.stopSet = false → ∀ w : Nat, s.pcs[w]? ≠ some WPc.exited) ∧
    (∀ w u : Nat, s.pcs[w]? = some (WPc.awaiting u) →
        u ∈ s.created ∧ (∀ o, (u, o) ∉ s.done) ∧ u ∉ s.queue ∧
        ∀ w' : Nat, s.pcs[w']? = some (WPc.awaiting u) → w' = w) := by
  obtain ⟨c, hr, hR, _⟩ := sys_refines nw evs s out h
  have hI := inv_run hr
  refine ⟨hR.nocrash, hR.noexit, ?_⟩
  intro w u hx
  have hrun := (hR.running w u).2 hx
  have htk : (w, u) ∈ takes out := hI.run_taken w u hrun
  have hts : u ∈ takenSeq out := by
    simp only [takenSeq, List.mem_map]; exact ⟨(w, u), htk, rfl⟩
  have hsub : u ∈ subSeq out := by rw [hI.fifo]; exact List.mem_append_left _ hts
  refine ⟨by rw [← hR.sub, hI.sub_eq]; exact hsub, ?_, ?_, ?_⟩
  · intro o hd
    rw [← hR.done, hI.done_eq] at hd
    obtain ⟨w', hw'⟩ := mem_doneOf.1 hd
    exact hI.run_notdone w u hrun (mem_finUnits.2 ⟨w', o, hw'⟩)
  · intro hq
    rw [← hR.queue] at hq
    have hnd := hI.sub_nodup
    rw [hI.fifo] at hnd
    exact (List.nodup_append.1 hnd).2.2 u hts u hq rfl
  · intro w' hx'
    have hrun' := (hR.running w' u).2 hx'
    have h1 := hI.run_taken w' u hrun'
    have hnd : ((takes out).map (·.2)).Nodup := takenSeq_nodup hI
    exact congrArg Prod.fst (nodup_map_inj hnd h1 htk rfl)

example : ∃ s out, frun (RunnerSys.init 2) [.submit 4, .submit 5, .resume 1 (.ok 0), .resume 0 (.ok 0)] = some (s, out)
    ∧ s.pcs = [.awaiting 5, .awaiting 4] := ⟨_, _, rfl, rfl⟩

/-- **Delivery exactly once.**  In every reachable state: what `as_completed()` handed out so far
    has no repetition, every delivered `(u, o)` is the outcome unit `u`'s own worker set its future
    to, and every future ever created is in exactly one place — still in the scheduler's
    `future_list` (once) or delivered. -/
theorem sys_delivery (nw : Nat) (evs : List FEv) (s : Sys) (out : List Event)
    (h : frun (RunnerSys.init nw) evs = some (s, out)) :
    (s.delivered.map (·.1)).Nodup ∧ s.fl.futs.Nodup ∧
    (∀ u o, (u, o) ∈ s.delivered → ∃ w, Event.finish w u o ∈ out) ∧
    (∀ u, u ∈ s.created ↔ (u ∈ s.fl.futs ∨ u ∈ s.delivered.map (·.1))) ∧
    (∀ u, u ∈ s.fl.futs → u ∉ s.delivered.map (·.1)) := by
  obtain ⟨c, hr, hR, _⟩ := sys_refines nw evs s out h
  have hI := inv_run hr
  refine ⟨?_, hR.fl_nodup, ?_, hR.fl_part, hR.fl_disj⟩
  · have := hI.col_nodup
    have e : s.delivered.map (·.1) = colUnits out := by
      have h1 := hR.col
      rw [hI.col_eq] at h1
      exact (List.reverse_injective h1).symm
    rw [e]; exact this
  · intro u o hd
    have := hR.deliv_done _ hd
    rw [← hR.done, hI.done_eq] at this
    exact mem_doneOf.1 this

example : ∃ s out, frun (RunnerSys.init 1) [.submit 1, .submit 2, .resume 0 (.ok 0), .resume 0 (.exc 1), .acEnter,
      .acCheck] = some (s, out) ∧ s.delivered = [(1, .exc 1)] ∧ s.fl.futs = [2] := ⟨_, _, rfl, rfl, rfl⟩

/-- **`stop()` terminates, for every interleaving.**  In every reachable state inside `stop()`
    (after `stopEnter`, before it returned): (1) every step the system can take either changes
    nothing (a poll that fails, an idle worker that finds the queue empty before the event is set)
    or strictly decreases `variant = 2·|queue| + Σ worker weights + phase`; (2) some step that
    strictly decreases it is always possible (`n_workers ≥ 1`).  Hence `stop()` returns after at
    most `variant ≤ 2·|queue| + 2·n_workers + 2` state-changing steps and cannot get stuck. -/
theorem stop_terminates (nw : Nat) (evs : List FEv) (s : Sys) (out : List Event)
    (h : frun (RunnerSys.init nw) evs = some (s, out)) (hm : s.main = .stopQ ∨ s.main = .stopT) :
    (∀ e s' out', fstep s e = some (s', out') → s' = s ∨ variant s' < variant s) ∧
    (1 ≤ nw → ∃ e s' out', fstep s e = some (s', out') ∧ variant s' < variant s) ∧
    variant s ≤ 2 * s.queue.length + 2 * nw + 2 := by
  obtain ⟨c, hr, hR, _⟩ := sys_refines nw evs s out h
  have hsc : s.fl.scan = none := hR.busy (by rcases hm with hm | hm <;> rw [hm] <;> simp)
  have hnw : s.pcs.length = nw := by rw [hR.nw]; exact run_nw out (Runner.init nw) c hr
  refine ⟨fun e s' out' h' => stop_variant_step hm hsc h', ?_, ?_⟩
  · intro h1
    have : s.pcs ≠ [] := by intro he; rw [he] at hnw; simp at hnw; omega
    exact stop_progress_step hR this hm
  · have hb : ∀ l : List WPc, weightSum l ≤ 2 * l.length := by
      intro l
      induction l with
      | nil => simp [weightSum]
      | cons p t ih => cases p <;> simp [weightSum, pcWeight] <;> omega
    have := hb s.pcs
    have hp : phaseWeight s.main ≤ 2 := by rcases hm with hm | hm <;> rw [hm] <;> simp [phaseWeight]
    simp only [variant]; omega

example : ∃ s out, frun (RunnerSys.init 1) [.submit 1, .submit 2, .resume 0 (.ok 0), .stopEnter, .stopPollQ] = some (s, out)
    ∧ s.main = .stopQ ∧ variant s = 6 := ⟨_, _, rfl, rfl, rfl⟩

/-- **Clean shutdown.**  When `stop()` has returned: the queue is empty, every worker task has left
    its loop (none died), the stop event is set, every future ever created is done — set by its own
    worker's `finish` — nothing is lost; and if the scheduler had drained its `future_list`, every
    created future was delivered exactly once. -/
theorem stop_returns_clean (nw : Nat) (evs : List FEv) (s : Sys) (out : List Event)
    (h : frun (RunnerSys.init nw) evs = some (s, out)) (hm : s.main = .finished) :
    s.queue = [] ∧ (∀ p, p ∈ s.pcs → p = WPc.exited) ∧ s.stopSet = true ∧
    (∀ u, u ∈ s.created → ∃ o, (u, o) ∈ s.done ∧ ∃ w, Event.finish w u o ∈ out) ∧
    (s.fl.futs = [] → ∀ u, u ∈ s.created → (s.delivered.map (·.1)).count u = 1) := by
  obtain ⟨c, hr, hR, _⟩ := sys_refines nw evs s out h
  have hI := inv_run hr
  have hE := C17Runner.exactly_once nw out c hr
  have hst : s.stopSet = true := hR.phase.2 (Or.inr hm)
  have hq : c.queue = [] := hI.stopped_queue (by rw [hR.stopped]; exact hst)
  have hended : ∀ p, p ∈ s.pcs → p = WPc.exited := by
    intro p hp
    obtain ⟨w, hw⟩ := List.getElem?_of_mem hp
    have := hR.fin hm w p hw
    cases p with
    | idle => simp [taskEnded] at this
    | awaiting u => simp [taskEnded] at this
    | exited => rfl
    | crashed => exact absurd hw (hR.nocrash w)
  have hrun : c.running = [] := by
    cases hc : c.running with
    | nil => rfl
    | cons p t =>
      obtain ⟨w, u⟩ := p
      have := (hR.running w u).1 (by rw [hc]; simp)
      have := hended _ (List.mem_of_getElem? this)
      simp at this
  have hqs : quiescent c = true := by simp [quiescent, hq, hrun]
  refine ⟨by rw [← hR.queue]; exact hq, hended, hst, ?_, ?_⟩
  · intro u hu
    have hsub : Event.submit u ∈ out := by
      apply mem_subSeq.1
      rw [← hI.sub_eq, hR.sub]; exact hu
    obtain ⟨_, _, o, ho⟩ := hE.complete hqs u hsub
    obtain ⟨w, hw⟩ := (hE.future_own u o).1 ho
    refine ⟨o, ?_, w, hw⟩
    rw [← hR.done, hI.done_eq]
    exact mem_doneOf.2 ⟨w, hw⟩
  · intro hfl u hu
    have hmem : u ∈ s.delivered.map (·.1) := by
      rcases (hR.fl_part u).1 hu with h1 | h1
      · rw [hfl] at h1; simp at h1
      · exact h1
    exact List.count_eq_one_of_mem (sys_delivery nw evs s out h).1 hmem

example : ∃ s out, frun (RunnerSys.init 1) [.submit 1, .resume 0 (.ok 0), .resume 0 (.ok 4), .acEnter, .acCheck,
      .stopEnter, .stopPollQ, .resume 0 (.ok 0), .stopPollT] = some (s, out)
    ∧ s.main = .finished ∧ s.fl.futs = [] ∧ s.delivered = [(1, .ok 4)] := ⟨_, _, rfl, rfl, rfl, rfl⟩

/-- **`future_list.as_completed`, one `done()` call.**  On a well-formed list (`FLWf`: the `for`
    loop's remaining snapshot is a non-empty suffix of the list): the call returns future `u` only
    if `u.done()` was just answered True, `u` was in the list, and then exactly its first occurrence
    is removed and the call is over; otherwise the list is unchanged; `None` is returned only on an
    empty list; well-formedness is kept. -/
theorem future_list_done_call (fl fl' : FL) (ans : Bool) (r : AcStep) (hw : FLWf fl)
    (h : flCheck fl ans = some (fl', r)) :
    FLWf fl' ∧
    (∀ u, r = .ret u → ans = true ∧ flNext fl = some u ∧ u ∈ fl.futs ∧ fl'.futs = fl.futs.erase u ∧ fl'.scan = none) ∧
    ((∀ u, r ≠ .ret u) → fl'.futs = fl.futs) ∧ (r = .retNone → fl.futs = []) := by
  refine ⟨?_, ?_, ?_, ?_⟩
  · by_cases hr : ∃ u, r = .ret u
    · obtain ⟨u, rfl⟩ := hr
      exact flWf_idle (flCheck_ret hw h).2.2.2.2
    · exact (flCheck_other hw h (fun u hu => hr ⟨u, hu⟩)).2.1
  · intro u hu; subst hu; exact flCheck_ret hw h
  · intro hr; exact (flCheck_other hw h hr).1
  · intro hr
    exact ((flCheck_other hw h (by intro u hu; rw [hr] at hu; simp at hu)).2.2 hr).1

example : flCheck { futs := [5, 6, 7], scan := some [6, 7] } true = some ({ futs := [5, 7], scan := none }, .ret 6)
    ∧ flCheck { futs := [5, 6, 7], scan := some [7] } false = some ({ futs := [5, 6, 7], scan := some [5, 6, 7] }, .going)
    ∧ FLWf { futs := [5, 6, 7], scan := some [6, 7] } := by
  refine ⟨rfl, rfl, ?_⟩
  intro l hl
  simp at hl; subst hl
  exact ⟨by simp, ⟨[5], rfl⟩⟩

/-- entering `as_completed()`: `None` exactly on an empty list, the list is not touched, and the
    scan starts on a snapshot of the whole list -/
theorem future_list_enter (fl : FL) :
    ((flEnter fl).2 = .retNone ↔ fl.futs = []) ∧ (flEnter fl).1.futs = fl.futs ∧ FLWf (flEnter fl).1 ∧
    (fl.futs ≠ [] → (flEnter fl).1.scan = some fl.futs) := by
  have := flWhile_spec fl
  refine ⟨this.2.2.1, this.1, this.2.1, ?_⟩
  intro hne
  unfold flEnter flWhile
  cases hf : fl.futs with
  | nil => exact absurd hf hne
  | cons a t => rfl

example : (flEnter { futs := [], scan := none }).2 = .retNone ∧ (flEnter { futs := [3], scan := none }).2 = .going := ⟨rfl, rfl⟩

/-- **A whole `as_completed()` call** against any script of `done()` answers (the function the
    driver runs for the data-structure tie): if it returns future `u`, then `u` was in the list, it
    is the future asked last, exactly its first occurrence is removed and nothing else changes;
    if it does not return a future the list is unchanged; it returns `None` exactly on an empty list. -/
theorem future_list_call (fl : FL) (answers : List Bool) :
    (∀ u, (flCall fl answers).2.1 = some (.ret u) →
        u ∈ fl.futs ∧ (flCall fl answers).1.futs = fl.futs.erase u ∧ (flCall fl answers).1.scan = none ∧
        (flCall fl answers).2.2.2.getLast? = some u) ∧
    ((∀ u, (flCall fl answers).2.1 ≠ some (.ret u)) → (flCall fl answers).1.futs = fl.futs) ∧
    ((flCall fl answers).2.1 = some .retNone ↔ fl.futs = []) := by
  have hsp := flWhile_spec fl
  unfold flCall
  cases he : flEnter fl with
  | mk fl1 r1 =>
    have he' : flWhile fl = (fl1, r1) := he
    rw [he'] at hsp
    simp only at hsp
    obtain ⟨s1, s2, s3, s4, s5⟩ := hsp
    cases r1 with
    | going =>
      simp only
      have hne : fl.futs ≠ [] := by intro hh; have := s3.2 hh; simp at this
      have key := flCallGo_spec answers.length fl1 answers 0 [] s2 _ _ _ _ rfl
      rw [s1] at key
      obtain ⟨k1, k2, k3, k4⟩ := key
      refine ⟨k1, k2, ?_⟩
      constructor
      · intro hh; exact absurd (k3 hh) hne
      · intro hh; exact absurd hh hne
    | retNone =>
      simp only
      have hnil := s3.1 rfl
      refine ⟨by intro u hu; simp at hu, fun _ => s1, ?_⟩
      simp [hnil]
    | ret u =>
      rcases s4 with h | h <;> simp at h

example : flCall { futs := [5, 6, 7], scan := none } [false, false, false, false, true] = ({ futs := [5, 7], scan := none }, some (.ret 6), 5, [5, 6, 7, 5, 6])
    ∧ flCall { futs := [], scan := none } [true] = ({ futs := [], scan := none }, some .retNone, 0, []) := ⟨rfl, rfl⟩

/-! ## the failure classes of a unit (`Model/RunnerSysX.lean`)

AUDIT NOTE (2026-09-30).  `Outcome.exc` above is an exception that `except Exception` catches and
`Future.set_exception` accepts.  Before the repair "every failure of a unit reaches its future" (`_run_unit`)
a unit that raised `SystemExit` / `KeyboardInterrupt` / `asyncio.CancelledError` / any other non-`Exception`,
or `StopIteration`, was NEVER delivered (witness run on the real aiorunner) and the theorems of this file held
only under the guard `xrun_plain`.  Now `_run_unit` converts these classes in the pool process:
`xrun_refines` — every history with any failure class is a `RunnerSys` history, so the theorems above need no
guard — and `every_failure_delivered`.  The old behaviour is kept as the RECORD `RunnerSysX.AsIs`
(`xrun_plain`, `base_exception_unit_lost`, `delivers_every_exception_counterexample` are about it); the tie
accepts either behaviour as a whole and reports the record as the finding
`C17:runner:unhandled-exception-class-never-delivered`. -/
section FailureClasses
open Infretis.RunnerSysX

theorem xstep_is_fstep {s : Sys} {ev : XEv} {r} (h : xstep s ev = some r) : fstep s (toFEv ev) = some r := by
  cases ev with
  | plain e => exact h
  | resumeFail w c e =>
    simp only [xstep] at h
    split at h
    · exact h
    · simp at h

/-- **No guard any more.**  Every history of the runner's system in which units fail with ANY class of
    exception is a history of `RunnerSys` (the failure comes back as `Outcome.exc (converted c e)`):
    `sys_refines`, `sys_exactly_once`, `sys_no_crash`, `sys_delivery`, `stop_terminates`,
    `stop_returns_clean` hold for it as they stand. -/
theorem xrun_refines : ∀ (evs : List XEv) (s s' : Sys) (out : List Event), xrun s evs = some (s', out) →
    frun s (evs.map toFEv) = some (s', out) := by
  intro evs
  induction evs with
  | nil => intro s s' out h; simpa [xrun, frun] using h
  | cons e t ih =>
    intro s s' out h
    simp only [xrun] at h
    cases h1 : xstep s e with
    | none => rw [h1] at h; simp at h
    | some r =>
      obtain ⟨s1, o1⟩ := r
      rw [h1] at h
      simp only at h
      cases h2 : xrun s1 t with
      | none => rw [h2] at h; simp at h
      | some r2 =>
        obtain ⟨s2, o2⟩ := r2
        rw [h2] at h
        simp only [List.map_cons, frun, xstep_is_fstep h1, ih s1 s2 o2 h2]
        exact h

theorem xrun_snoc : ∀ (evs : List XEv) (s s1 s2 : Sys) (o1 o2 : List Event) (ev : XEv),
    xrun s evs = some (s1, o1) → xstep s1 ev = some (s2, o2) → xrun s (evs ++ [ev]) = some (s2, o1 ++ o2) := by
  intro evs
  induction evs with
  | nil =>
    intro s s1 s2 o1 o2 ev h hs
    simp [xrun] at h
    obtain ⟨rfl, rfl⟩ := h
    simp [xrun, hs]
  | cons e t ih =>
    intro s s1 s2 o1 o2 ev h hs
    simp only [xrun] at h
    cases h1 : xstep s e with
    | none => rw [h1] at h; simp at h
    | some r =>
      obtain ⟨sa, oa⟩ := r
      rw [h1] at h
      simp only at h
      cases h2 : xrun sa t with
      | none => rw [h2] at h; simp at h
      | some r2 =>
        obtain ⟨sb, ob⟩ := r2
        rw [h2] at h
        simp at h
        obtain ⟨rfl, rfl⟩ := h
        simp only [List.cons_append, xrun, h1, ih sa sb s2 ob o2 ev h2 hs]
        simp

/-- **Every failure of a unit is delivered.**  In any reachable state of the runner's system a worker
    `w` awaits unit `u` and the unit function raises — ANY class: an ordinary `Exception`,
    `StopIteration`, `CancelledError` / another non-`Exception`, `SystemExit` / `KeyboardInterrupt`.
    Then the step is possible, the future of `u` — pending until now — is set, once, with an
    exception (`converted c e`: the unit's own for an ordinary one, the `RuntimeError` of
    `_run_unit` otherwise) by `u`'s own worker, the worker goes on (it did not die), and the whole
    history still satisfies the exactly-once statement of the protocol. -/
theorem every_failure_delivered (nw : Nat) (evs : List XEv) (s : Sys) (out : List Event) (w u : Nat)
    (c : FailClass) (e : Nat) (h : xrun (RunnerSys.init nw) evs = some (s, out))
    (hw : s.pcs[w]? = some (WPc.awaiting u)) :
    ∃ s' out', xstep s (.resumeFail w c e) = some (s', out') ∧
      (∀ o, (u, o) ∉ s.done) ∧ s'.done = (u, .exc (converted c e)) :: s.done ∧
      Event.finish w u (.exc (converted c e)) ∈ out' ∧ s'.pcs[w]? ≠ some WPc.crashed ∧ s'.taskDone = s.taskDone + 1 ∧
      ∃ p, Runner.run (Runner.init nw) (out ++ out') = some p ∧ C17Runner.ExactlyOnce (out ++ out') p ∧ p.done = s'.done := by
  have hf := xrun_refines evs _ _ _ h
  obtain ⟨_, hnd, _, _⟩ := (sys_no_crash nw _ s out hf).2.2 w u hw
  have hany : s.done.any (fun p => p.1 == u) = false := by
    rw [Bool.eq_false_iff]
    intro ha
    rw [List.any_eq_true] at ha
    obtain ⟨⟨u', o⟩, hm, he⟩ := ha
    simp at he
    subst he
    exact hnd o hm
  have hstep : xstep s (.resumeFail w c e) = some
      ({ s with pcs := s.pcs.set w (loopHead w s.stopSet s.queue).1, queue := (loopHead w s.stopSet s.queue).2.1,
                done := (u, runUnit c e) :: s.done, taskDone := s.taskDone + 1 },
       Event.finish w u (runUnit c e) :: (loopHead w s.stopSet s.queue).2.2) := by
    simp [xstep, isAwaiting, hw, fstep, stepResume, hany]
  refine ⟨_, _, hstep, hnd, rfl, by simp [runUnit], ?_, rfl, ?_⟩
  · have hx := xrun_snoc evs _ _ _ _ _ _ h hstep
    exact (sys_no_crash nw _ _ _ (xrun_refines _ _ _ _ hx)).1 w
  · have hx := xrun_snoc evs _ _ _ _ _ _ h hstep
    obtain ⟨p, hp, hE, _, _, hd, _⟩ := sys_exactly_once nw _ _ _ (xrun_refines _ _ _ _ hx)
    exact ⟨p, hp, hE, hd⟩

-- non-vacuity: two workers; unit 1's function calls sys.exit() (class `exit`), unit 2 completes; both are delivered
example : ∃ s out, xrun (RunnerSys.init 2) [.plain (.submit 1), .plain (.submit 2), .plain (.resume 0 (.ok 0))] = some (s, out) ∧
    s.pcs[0]? = some (WPc.awaiting 1) ∧
    ∃ s' out', xrun s [.resumeFail 0 .exit 3, .plain (.resume 0 (.ok 5)), .plain .acEnter, .plain .acCheck, .plain .acEnter,
      .plain .acCheck] = some (s', out') ∧ s'.delivered = [(1, .exc 999003), (2, .ok 5)] ∧ s'.fl.futs = [] := by
  refine ⟨_, _, rfl, rfl, _, _, rfl, ?_, ?_⟩ <;> decide

/-! ### RECORD: the code before the repair (`RunnerSysX.AsIs`) -/

/-- unit `u` is lost: created, not queued, held by no worker, its future not done -/
def Lost (s : Sys) (u : Nat) : Prop :=
  u ∈ s.created ∧ u ∉ s.queue ∧ (∀ w : Nat, s.pcs[w]? ≠ some (WPc.awaiting u)) ∧ (∀ o, (u, o) ∉ s.done)

theorem loopHead_lost {u w : Nat} {stopSet : Bool} {queue : List Nat} (hq : u ∉ queue) :
    (loopHead w stopSet queue).1 ≠ WPc.awaiting u ∧ u ∉ (loopHead w stopSet queue).2.1 := by
  unfold loopHead
  split
  · exact ⟨by simp, hq⟩
  · cases queue with
    | nil => exact ⟨by simp, by simp⟩
    | cons h t =>
      simp only [List.mem_cons, not_or] at hq
      refine ⟨?_, hq.2⟩
      simp only [ne_eq, WPc.awaiting.injEq]
      exact fun e => hq.1 e.symm

theorem set_lost {pcs : List WPc} {w : Nat} {p : WPc} {u : Nat} (hp : p ≠ WPc.awaiting u)
    (h : ∀ w' : Nat, pcs[w']? ≠ some (WPc.awaiting u)) : ∀ w' : Nat, (pcs.set w p)[w']? ≠ some (WPc.awaiting u) := by
  intro w'
  rw [List.getElem?_set]
  split
  · split
    · simp only [ne_eq, Option.some.injEq]; exact hp
    · simp
  · exact h w'

theorem lost_fstep {s s' : Sys} {u : Nat} {e : FEv} {out} (hL : Lost s u) (h : fstep s e = some (s', out)) :
    Lost s' u := by
  obtain ⟨hc, hq, hp, hd⟩ := hL
  cases e with
  | submit u' =>
    simp only [fstep, stepSubmit] at h
    split at h
    · rename_i hg
      simp at h; obtain ⟨rfl, _⟩ := h
      have hne : u' ≠ u := by
        intro e; subst e
        have := hg.2.2.1
        simp at this
        exact this hc
      exact ⟨by simp [hc], by simp [hq]; exact fun e => hne e.symm, hp, hd⟩
    · simp at h
  | resume w o =>
    simp only [fstep, stepResume] at h
    split at h
    · simp at h
    · simp at h
    · simp at h
    · simp at h; obtain ⟨rfl, _⟩ := h
      have := loopHead_lost (w := w) (stopSet := s.stopSet) hq
      exact ⟨hc, this.2, set_lost this.1 hp, hd⟩
    · rename_i u' hw
      have hne : u' ≠ u := by intro e; subst e; exact hp w hw
      split at h
      · simp at h; obtain ⟨rfl, _⟩ := h
        exact ⟨hc, hq, set_lost (by simp) hp, hd⟩
      · simp at h; obtain ⟨rfl, _⟩ := h
        have := loopHead_lost (w := w) (stopSet := s.stopSet) hq
        refine ⟨hc, this.2, set_lost this.1 hp, ?_⟩
        intro o' hm
        simp only [List.mem_cons, Prod.mk.injEq] at hm
        rcases hm with ⟨e, _⟩ | hm
        · exact hne e.symm
        · exact hd o' hm
  | acEnter =>
    simp only [fstep, stepAcEnter] at h
    split at h
    · simp only [flApply, Option.some.injEq] at h
      split at h <;> (simp at h; obtain ⟨rfl, _⟩ := h; exact ⟨hc, hq, hp, hd⟩)
    · simp at h
  | acCheck =>
    simp only [fstep, stepAcCheck] at h
    split at h
    · simp only [Option.map_eq_some_iff] at h
      obtain ⟨r, _, h⟩ := h
      simp only [flApply] at h
      split at h <;> (simp at h; obtain ⟨rfl, _⟩ := h; exact ⟨hc, hq, hp, hd⟩)
    · split at h
      · split at h
        · simp at h; obtain ⟨rfl, _⟩ := h; exact ⟨hc, hq, hp, hd⟩
        · simp at h
      · simp only [Option.map_eq_some_iff] at h
        obtain ⟨r, _, h⟩ := h
        simp only [flApply] at h
        split at h <;> (simp at h; obtain ⟨rfl, _⟩ := h; exact ⟨hc, hq, hp, hd⟩)
  | stopEnter =>
    simp only [fstep, stepStopEnter] at h
    split at h
    · simp at h; obtain ⟨rfl, _⟩ := h; exact ⟨hc, hq, hp, hd⟩
    · simp at h
  | stopPollQ =>
    simp only [fstep, stepPollQ] at h
    split at h
    · split at h <;> (simp at h; obtain ⟨rfl, _⟩ := h; exact ⟨hc, hq, hp, hd⟩)
    · simp at h
  | stopPollT =>
    simp only [fstep, stepPollT] at h
    split at h
    · split at h <;> (simp at h; obtain ⟨rfl, _⟩ := h; exact ⟨hc, hq, hp, hd⟩)
    · simp at h

theorem lost_xstep {x x' : AsIs.XSys} {u : Nat} {e : XEv} {out} (hL : Lost x.s u) (h : AsIs.xstep x e = some (x', out)) :
    Lost x'.s u := by
  unfold AsIs.xstep at h
  split at h
  · simp at h
  · cases e with
    | plain e =>
      simp only at h
      split at h
      · simp at h
      · rename_i s' o' hf
        simp at h; obtain ⟨rfl, _⟩ := h
        exact lost_fstep hL hf
    | resumeFail w c e =>
      cases c with
      | ordinary =>
        simp only at h
        split at h
        · split at h
          · simp at h
          · rename_i s' o' hf
            simp at h; obtain ⟨rfl, _⟩ := h
            exact lost_fstep hL hf
        · simp at h
      | stopIter => simp at h
      | base =>
        simp only at h
        split at h
        · simp at h; obtain ⟨rfl, _⟩ := h
          exact ⟨hL.1, hL.2.1, set_lost (by simp) hL.2.2.1, hL.2.2.2⟩
        · simp at h
      | exit =>
        simp only at h
        split at h
        · simp at h; obtain ⟨rfl, _⟩ := h
          exact ⟨hL.1, hL.2.1, set_lost (by simp) hL.2.2.1, hL.2.2.2⟩
        · simp at h

theorem lost_xrun : ∀ (evs : List XEv) {x x' : AsIs.XSys} {u : Nat} {out}, Lost x.s u → AsIs.xrun x evs = some (x', out) →
    Lost x'.s u := by
  intro evs
  induction evs with
  | nil => intro x x' u out hL h; simp [AsIs.xrun] at h; obtain ⟨rfl, _⟩ := h; exact hL
  | cons e t ih =>
    intro x x' u out hL h
    simp only [AsIs.xrun] at h
    cases h1 : AsIs.xstep x e with
    | none => rw [h1] at h; simp at h
    | some r =>
      obtain ⟨x1, o1⟩ := r
      rw [h1] at h
      simp only at h
      cases h2 : AsIs.xrun x1 t with
      | none => rw [h2] at h; simp at h
      | some r2 =>
        obtain ⟨x2, o2⟩ := r2
        rw [h2] at h
        simp at h; obtain ⟨rfl, _⟩ := h
        exact ih (lost_xstep hL h1) h2

/-- RECORD (code before the repair): **the guard the runner theorems needed.**  A history in which
    every awaited unit comes back with a result or with an exception that `except Exception` catches
    (only `plain` events) was a history of `RunnerSys`; outside it the theorems did not apply.
    (For the code as it is: `xrun_refines`, without guard.) -/
theorem xrun_plain (evs : List FEv) (s : Sys) :
    AsIs.xrun { s := s } (evs.map XEv.plain) = (frun s evs).map (fun r => ({ s := r.1 }, r.2)) := by
  induction evs generalizing s with
  | nil => simp [AsIs.xrun, frun]
  | cons e t ih =>
    simp only [List.map_cons, AsIs.xrun, frun, AsIs.xstep, Bool.and_false, Bool.false_eq_true, ↓reduceIte]
    cases h1 : fstep s e with
    | none => simp
    | some r =>
      obtain ⟨s1, o1⟩ := r
      simp only
      rw [ih s1]
      cases h2 : frun s1 t with
      | none => simp
      | some r2 => simp

example : AsIs.xrun (AsIs.xinit 1) ([FEv.submit 7, .resume 0 (.ok 0), .resume 0 (.exc 7)].map XEv.plain) =
    (frun (RunnerSys.init 1) [.submit 7, .resume 0 (.ok 0), .resume 0 (.exc 7)]).map (fun r => ({ s := r.1 }, r.2)) :=
  xrun_plain _ _

/-- RECORD (code before the repair, `partial(self._task_f, md_item)`): **a unit that raised a
    non-`Exception` was never delivered.**  In any reachable state a worker `w` awaits unit `u`; the
    unit function raises class `base` (CancelledError, other BaseException) or `exit` (SystemExit /
    KeyboardInterrupt).  Then, whatever happens afterwards — any interleaving, any number of steps —
    the future of `u` is never done (`as_completed()` never returns it: the scheduler waits for ever)
    and no worker holds `u` any more.  Repaired by `_run_unit` (`every_failure_delivered`); the tie
    reports this behaviour as `C17:runner:unhandled-exception-class-never-delivered`. -/
theorem base_exception_unit_lost (nw : Nat) (evs : List FEv) (s : Sys) (out : List Event) (w u : Nat)
    (h : frun (RunnerSys.init nw) evs = some (s, out)) (hw : s.pcs[w]? = some (WPc.awaiting u))
    (ev : XEv) (he : (∃ e, ev = .resumeFail w .base e) ∨ (∃ e, ev = .resumeFail w .exit e)) (rest : List XEv)
    (x' : AsIs.XSys) (out' : List Event) (hr : AsIs.xrun { s := s } (ev :: rest) = some (x', out')) :
    (∀ o, (u, o) ∉ x'.s.done) ∧ u ∈ x'.s.created ∧ u ∉ x'.s.queue ∧
    (∀ w' : Nat, x'.s.pcs[w']? ≠ some (WPc.awaiting u)) := by
  obtain ⟨hcr, hnd, hnq, huniq⟩ := (sys_no_crash nw evs s out h).2.2 w u hw
  simp only [AsIs.xrun] at hr
  cases h1 : AsIs.xstep { s := s } ev with
  | none => rw [h1] at hr; simp at hr
  | some r =>
    obtain ⟨x1, o1⟩ := r
    rw [h1] at hr
    simp only at hr
    cases h2 : AsIs.xrun x1 rest with
    | none => rw [h2] at hr; simp at hr
    | some r2 =>
      obtain ⟨x2, o2⟩ := r2
      rw [h2] at hr
      simp at hr; obtain ⟨rfl, _⟩ := hr
      have hL1 : Lost x1.s u := by
        have hpc : ∀ w' : Nat, (s.pcs.set w WPc.crashed)[w']? ≠ some (WPc.awaiting u) := by
          intro w'
          rw [List.getElem?_set]
          split
          · split <;> simp
          · rename_i hne
            intro hx
            exact hne (huniq w' hx).symm
        rcases he with ⟨e, rfl⟩ | ⟨e, rfl⟩
        · simp [AsIs.xstep, AsIs.isResume, isAwaiting, hw] at h1
          obtain ⟨rfl, _⟩ := h1
          exact ⟨hcr, hnq, hpc, hnd⟩
        · simp [AsIs.xstep, AsIs.isResume, isAwaiting, hw] at h1
          obtain ⟨rfl, _⟩ := h1
          exact ⟨hcr, hnq, hpc, hnd⟩
      have hL := lost_xrun rest hL1 h2
      exact ⟨hL.2.2.2, hL.1, hL.2.1, hL.2.2.1⟩

/-- RECORD (code before the repair): concrete witness (1 worker, 2 units; the first raises `SystemExit`):
    nothing is ever delivered, the second unit is never even taken, and `stop()` — had the scheduler reached
    it — would poll for ever; the SAME history on the code as it is delivers the failure -/
theorem delivers_every_exception_counterexample :
    (∃ x out, AsIs.xrun (AsIs.xinit 1) [.plain (.submit 1), .plain (.submit 2), .plain (.resume 0 (.ok 0)), .resumeFail 0 .exit 3] = some (x, out) ∧
      x.s.created = [1, 2] ∧ x.s.done = [] ∧ x.s.queue = [2] ∧ x.s.pcs = [.crashed] ∧ x.loopDead = true ∧
      AsIs.xstep x (.plain (.resume 0 (.ok 0))) = none ∧ x.s.stopSet = false) ∧
    (∃ s out, xrun (RunnerSys.init 1) [.plain (.submit 1), .plain (.submit 2), .plain (.resume 0 (.ok 0)), .resumeFail 0 .exit 3] = some (s, out) ∧
      s.done = [(1, .exc 999003)] ∧ s.pcs = [.awaiting 2]) := by
  refine ⟨⟨_, _, rfl, ?_⟩, ⟨_, _, rfl, ?_⟩⟩ <;> decide

-- non-vacuity of `base_exception_unit_lost`: two workers, unit 1 comes back with a non-`Exception`, unit 2 completes
example : ∃ s out x' out', frun (RunnerSys.init 2) [.submit 1, .submit 2, .resume 0 (.ok 0)] = some (s, out) ∧
    s.pcs[0]? = some (WPc.awaiting 1) ∧
    AsIs.xrun { s := s } [.resumeFail 0 .base 0, .plain (.resume 1 (.ok 0)), .plain (.resume 1 (.ok 5)), .plain .acEnter, .plain .acCheck,
      .plain .acCheck] = some (x', out') ∧ x'.s.done = [(2, .ok 5)] ∧ x'.s.delivered = [(2, .ok 5)] ∧ x'.s.fl.futs = [1] :=
  ⟨_, _, _, _, rfl, rfl, rfl, rfl, rfl, rfl⟩

end FailureClasses

end Infretis.C17Sys
