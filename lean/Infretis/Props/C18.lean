import Infretis.Lemmas.Config
/-!
# C18 — invalid configurations are rejected up front; accepted ones initialise

Property theorems only (helper lemmas live in `Infretis/Lemmas/Config.lean`).
Model: `Infretis/Model/Config.lean` (mirrors setup.py `check_config`, the defaults block of
`setup_config`, and repex.py `initiate_ensembles`).  All statements are for configurations of
any size (any number of interfaces, moves, engines).

The code as it is does NOT guarantee `check c = ok → Valid c`: the cap is only compared with
the first and the last interface, a cap of 0.0 is skipped by truthiness, and nothing asks that
the cap leaves room for a wire-fencing ensemble.  Hence `accept_sound_counterexample`,
`accept_sound_partial`.  Likewise not every rejection is a TOMLConfigError
(`reject_is_config_error_counterexample`, `reject_is_config_error_partial`).
-/
namespace Infretis.C18
open Infretis.Config

/-! ### the property's list, declaratively -/

/-- the cap lies inside the interfaces -/
def CapInside (c : Cfg) (x : Int) : Prop :=
  ∃ f l, c.interfaces.head? = some f ∧ c.interfaces.getLast? = some l ∧ f ≤ x ∧ x ≤ l

/-- the cap leaves room for every wire-fencing ensemble: ensemble `k ≥ 1` (that is `[(k-1)+]`)
    sits on interface `k-1`, uses `shooting_moves[k]`, and does its wire fencing in `[λ_{k-1}, cap)` -/
def WfRoom (c : Cfg) (x : Int) : Prop :=
  ∀ k l, 1 ≤ k → k < c.interfaces.length → c.moves[k]? = some true →
    c.interfaces[k - 1]? = some l → l < x

/-- every engine an ensemble refers to is a defined table -/
def EnginesDefined (c : Cfg) : Prop :=
  ∃ ee, c.ensEngines = some ee ∧
    ∀ names ∈ ee, ∀ e ∈ names, (c.engines.lookup e).isSome = true

structure Valid (c : Cfg) : Prop where
  sorted : c.interfaces.Pairwise (· < ·)
  two : 2 ≤ c.interfaces.length
  workers : c.workers ≤ (c.interfaces.length : Int) - 1
  moves : c.interfaces.length ≤ c.moves.length
  capInside : ∀ x, c.cap = some x → CapInside c x
  capRoom : ∀ x, c.cap = some x → WfRoom c x
  engines : EnginesDefined c
  lm1 : ∀ x, c.lm1 = .val x → ∃ f, c.interfaces.head? = some f ∧ x < f

/-- what `check_config` implements, declaratively (`check_ok_iff`) -/
structure CodeOk (c : Cfg) : Prop where
  lm1 : ∀ x, c.lm1 = .val x → ∃ f, c.interfaces.head? = some f ∧ x < f
  noQuantisLm1 : ¬ (c.quantis = some true ∧ ∃ x, c.lm1 = .val x ∧ x ≠ 0)
  two : 2 ≤ c.interfaces.length
  workers : c.workers ≤ (c.interfaces.length : Int) - 1
  sorted : c.interfaces.Pairwise (· < ·)
  moves : c.interfaces.length ≤ c.moves.length
  /-- only a non-zero cap is looked at, and only against the first and last interface -/
  cap : ∀ x, c.cap = some x → x ≠ 0 → CapInside c x
  engines : EnginesDefined c
  /-- the gromacs check: a referenced gromacs engine and every referenced engine have an
      `input_path`, and no referenced engine with the same path differs from it -/
  gromacs : ∀ ee, c.ensEngines = some ee →
    ∀ k1 e1, (∃ names ∈ ee, k1 ∈ names) → c.engines.lookup k1 = some e1 → e1.cls = 0 →
      ∃ p1, e1.inputPath = some p1 ∧
        ∀ k2 e2, (∃ names ∈ ee, k2 ∈ names) → c.engines.lookup k2 = some e2 →
          ∃ p2, e2.inputPath = some p2 ∧ ¬ (differ e1 e2 ∧ p1 = p2)

/-! ### the single tests -/

theorem lm1Test_ok_iff (l : Lm1) (intf : List Int) :
    lm1Test l intf = .ok () ↔ ∀ x, l = .val x → ∃ f, intf.head? = some f ∧ x < f := by
  cases l with
  | absent => simp [lm1Test]
  | off => simp [lm1Test]
  | val x =>
    cases intf with
    | nil => simp [lm1Test]
    | cons h t =>
      simp only [lm1Test, rejectIf_ok_iff, Lm1.val.injEq, List.head?_cons, Option.some.injEq,
        exists_eq_left', forall_eq', decide_eq_false_iff_not]
      omega

theorem lm1Test_error (l : Lm1) (intf : List Int) (e : Err)
    (hg : intf ≠ [] ∨ ∀ x, l ≠ .val x) : lm1Test l intf = .error e → e = .config := by
  cases l with
  | absent => simp [lm1Test]
  | off => simp [lm1Test]
  | val x =>
    cases intf with
    | nil =>
      rcases hg with h | h
      · exact absurd rfl h
      · exact absurd rfl (h x)
    | cons h t => exact rejectIf_error _ e

theorem capTest_ok_iff (cap : Option Int) (intf : List Int) (hn : intf ≠ []) :
    capTest cap intf = .ok () ↔
      ∀ x, cap = some x → x ≠ 0 →
        ∃ f l, intf.head? = some f ∧ intf.getLast? = some l ∧ f ≤ x ∧ x ≤ l := by
  cases cap with
  | none => simp [capTest]
  | some x =>
    simp only [capTest, Option.some.injEq, forall_eq']
    by_cases hx : x = 0
    · simp [hx]
    · rw [if_neg hx]
      obtain ⟨f, hf⟩ : ∃ f, intf.head? = some f := by
        cases intf with
        | nil => exact absurd rfl hn
        | cons a t => exact ⟨a, rfl⟩
      obtain ⟨l, hl⟩ : ∃ l, intf.getLast? = some l := by
        cases h : intf.getLast? with
        | none => exact absurd (List.getLast?_eq_none_iff.1 h) hn
        | some l => exact ⟨l, rfl⟩
      simp only [hf, hl, seq_ok_iff, rejectIf_ok_iff, decide_eq_false_iff_not, Option.some.injEq,
        exists_and_left, exists_eq_left']
      omega

theorem capTest_error (cap : Option Int) (intf : List Int) (e : Err) (hn : intf ≠ []) :
    capTest cap intf = .error e → e = .config := by
  cases cap with
  | none => simp [capTest]
  | some x =>
    simp only [capTest]
    split
    · simp
    · obtain ⟨f, hf⟩ : ∃ f, intf.head? = some f := by
        cases intf with
        | nil => exact absurd rfl hn
        | cons a t => exact ⟨a, rfl⟩
      obtain ⟨l, hl⟩ : ∃ l, intf.getLast? = some l := by
        cases h : intf.getLast? with
        | none => exact absurd (List.getLast?_eq_none_iff.1 h) hn
        | some l => exact ⟨l, rfl⟩
      simp only [hf, hl, seq_error_iff]
      rintro (h | ⟨_, h⟩) <;> exact rejectIf_error _ e h

theorem engineTest_ok_iff (c : Cfg) :
    engineTest c = .ok () ↔
      EnginesDefined c ∧
      (∀ ee, c.ensEngines = some ee →
        ∀ k1 e1, (∃ names ∈ ee, k1 ∈ names) → c.engines.lookup k1 = some e1 → e1.cls = 0 →
          ∃ p1, e1.inputPath = some p1 ∧
            ∀ k2 e2, (∃ names ∈ ee, k2 ∈ names) → c.engines.lookup k2 = some e2 →
              ∃ p2, e2.inputPath = some p2 ∧ ¬ (differ e1 e2 ∧ p1 = p2)) := by
  unfold engineTest EnginesDefined
  cases hee : c.ensEngines with
  | none => simp
  | some ee =>
    simp only [seq_ok_iff, rejectIf_ok_iff, Option.some.injEq, exists_eq_left', forall_eq']
    have hdef : (uniqueEngines ee).any (fun k => (c.engines.lookup k).isNone) = false ↔
        ∀ names ∈ ee, ∀ e ∈ names, (c.engines.lookup e).isSome = true := by
      rw [List.any_eq_false]
      constructor
      · intro h names hn e he
        have := h e ((uniqueEngines_mem e ee).2 ⟨names, hn, he⟩)
        cases hl : c.engines.lookup e <;> simp_all
      · intro h e he
        obtain ⟨names, hn, he'⟩ := (uniqueEngines_mem e ee).1 he
        have := h names hn e he'
        cases hl : c.engines.lookup e <;> simp_all
    rw [hdef]
    apply and_congr_right
    intro _
    rw [gmxOuter_ok_iff]
    constructor
    · intro h k1 e1 hk1 hl1 hc
      obtain ⟨p1, hp1, hin⟩ :=
        h e1 (lookupAll_mem.2 ⟨k1, (uniqueEngines_mem k1 ee).2 hk1, hl1⟩) hc
      refine ⟨p1, hp1, ?_⟩
      intro k2 e2 hk2 hl2
      exact (gmxInner_ok_iff e1 p1 _).1 hin e2
        (lookupAll_mem.2 ⟨k2, (uniqueEngines_mem k2 ee).2 hk2, hl2⟩)
    · intro h e1 he1 hc
      obtain ⟨k1, hk1, hl1⟩ := lookupAll_mem.1 he1
      obtain ⟨p1, hp1, hin⟩ := h k1 e1 ((uniqueEngines_mem k1 ee).1 hk1) hl1 hc
      refine ⟨p1, hp1, (gmxInner_ok_iff e1 p1 _).2 ?_⟩
      intro e2 he2
      obtain ⟨k2, hk2, hl2⟩ := lookupAll_mem.1 he2
      exact hin k2 e2 ((uniqueEngines_mem k2 ee).1 hk2) hl2

/-- guard under which the engine checks raise nothing but TOMLConfigError: the
    `ensemble_engines` key is there (setup_config guarantees it) and every engine table has an
    `input_path`, or no engine table is of class gromacs -/
def EngineKeysPresent (c : Cfg) : Prop :=
  c.ensEngines ≠ none ∧
    ((∀ p ∈ c.engines, p.2.inputPath ≠ none) ∨ (∀ p ∈ c.engines, p.2.cls ≠ 0))

theorem engineTest_error (c : Cfg) (e : Err) (hk : EngineKeysPresent c) :
    engineTest c = .error e → e = .config := by
  unfold engineTest
  obtain ⟨hne, hk⟩ := hk
  cases hee : c.ensEngines with
  | none => exact absurd hee hne
  | some ee =>
    simp only [seq_error_iff]
    rintro (h | ⟨_, h⟩)
    · exact rejectIf_error _ e h
    · have hmem : ∀ e2 ∈ lookupAll c.engines (uniqueEngines ee), ∃ k, (k, e2) ∈ c.engines := by
        intro e2 h2
        obtain ⟨k, _, hl⟩ := lookupAll_mem.1 h2
        exact ⟨k, lookup_mem hl⟩
      rcases hk with hk | hk
      · have hall : ∀ e2 ∈ lookupAll c.engines (uniqueEngines ee), e2.inputPath ≠ none := by
          intro e2 h2
          obtain ⟨k, hm⟩ := hmem e2 h2
          exact hk (k, e2) hm
        exact gmxOuter_error _ e _ hall hall h
      · have hng : ∀ e2 ∈ lookupAll c.engines (uniqueEngines ee), e2.cls ≠ 0 := by
          intro e2 h2
          obtain ⟨k, hm⟩ := hmem e2 h2
          exact hk (k, e2) hm
        rw [gmxOuter_no_gromacs _ _ hng] at h
        cases h

/-! ### what the code implements -/

theorem lm1Truthy_iff (l : Lm1) : lm1Truthy l = true ↔ ∃ x, l = .val x ∧ x ≠ 0 := by
  cases l <;> simp [lm1Truthy]

/-- **Exact acceptance condition.** `check_config` returns normally iff `CodeOk`. -/
theorem check_ok_iff (c : Cfg) : check c = .ok () ↔ CodeOk c := by
  unfold check
  simp only [seq_ok_iff, rejectIf_ok_iff, lm1Test_ok_iff, decide_eq_false_iff_not,
    Bool.and_eq_false_iff, ← Bool.not_eq_true (lm1Truthy c.lm1), lm1Truthy_iff,
    Decidable.not_not, isort_eq_self_iff, distinct_length_eq_iff]
  constructor
  · rintro ⟨h1, h2, h3, h4, h5, h6, h7, h8, h9⟩
    have hne : c.interfaces ≠ [] := by
      intro h; rw [h] at h3; simp at h3
    rw [capTest_ok_iff _ _ hne] at h8
    rw [engineTest_ok_iff] at h9
    refine ⟨h1, ?_, by omega, by omega, (pairwise_lt_iff _).2 ⟨h5, h6⟩, by omega, h8, h9.1, h9.2⟩
    rintro ⟨hq, hx⟩
    rcases h2 with h2 | h2
    · simp [hq] at h2
    · exact h2 hx
  · rintro ⟨h1, h2, h3, h4, h5, h6, h7, h8, h9⟩
    have hne : c.interfaces ≠ [] := by
      intro h; rw [h] at h3; simp at h3
    rw [capTest_ok_iff _ _ hne, engineTest_ok_iff]
    refine ⟨h1, ?_, by omega, by omega, ((pairwise_lt_iff _).1 h5).1, ((pairwise_lt_iff _).1 h5).2,
      by omega, h7, h8, h9⟩
    by_cases hq : c.quantis = some true
    · right; intro hx; exact h2 ⟨hq, hx⟩
    · left; simpa using hq

/-- a concrete accepted configuration: 3 interfaces, wire fencing in [1+], cap 3 -/
def good : Cfg :=
  { interfaces := [0, 2, 4], workers := 2, moves := [false, false, true], cap := some 3,
    lm1 := .val (-1), quantis := some false,
    ensEngines := some [["engine"], ["engine"], ["engine"]],
    engines := [("engine", { cls := 1, inputPath := none, other := 7 })],
    seed := some 0, acceptAll := some false }

example : check good = .ok () := by decide
example : CodeOk good := (check_ok_iff good).1 (by decide)

/-! ### accepted ⇒ valid: false as stated, true outside the cap holes -/

/-- witness 1: interfaces [0,2,4], moves [sh,sh,wf], cap 1 — accepted, but the wire-fencing
    ensemble [1+] sits on interface 2 ≥ cap (in the code's units: [0,1,2], cap 0.5) -/
def capBelowWf : Cfg := { good with cap := some 1 }

/-- witness 2: interfaces [1,2,3], cap 0 — accepted because `if intf_cap and …` skips 0.0,
    although the cap is outside the interfaces -/
def capZero : Cfg := { good with interfaces := [1, 2, 3], moves := [false, false, false], cap := some 0 }

/-- witness 3: cap equal to the first interface with wire fencing in [0+]: `cap < intf[0]` is
    not violated, yet [0+] has no room -/
def capAtFirst : Cfg := { good with moves := [false, true, false], cap := some 0 }

/-- **Full statement is false of the code:** `∀ c, check c = ok → Valid c` fails. -/
theorem accept_sound_counterexample : ¬ ∀ c : Cfg, check c = .ok () → Valid c := by
  intro h
  have hv := h capBelowWf (by decide)
  have := hv.capRoom 1 rfl 2 2 (by decide) (by decide) (by decide) (by decide)
  omega

/-- the cap-of-zero hole, separately -/
theorem accept_sound_counterexample_cap_zero : check capZero = .ok () ∧ ¬ Valid capZero := by
  refine ⟨by decide, ?_⟩
  intro hv
  obtain ⟨f, l, hf, _, h1, _⟩ := hv.capInside 0 rfl
  simp [capZero, good] at hf
  omega

theorem accept_sound_counterexample_cap_at_first : check capAtFirst = .ok () ∧ ¬ Valid capAtFirst := by
  refine ⟨by decide, ?_⟩
  intro hv
  have := hv.capRoom 0 rfl 1 0 (by decide) (by decide) (by decide) (by decide)
  omega

/-- **Soundness of acceptance outside the defect.** If the cap (when given) is non-zero and
    leaves room for every wire-fencing ensemble, an accepted configuration is valid. -/
theorem accept_sound_partial (c : Cfg) (h : check c = .ok ())
    (hcap : ∀ x, c.cap = some x → x ≠ 0 ∧ WfRoom c x) : Valid c := by
  have hc := (check_ok_iff c).1 h
  exact {
    sorted := hc.sorted, two := hc.two, workers := hc.workers, moves := hc.moves
    capInside := fun x hx => hc.cap x hx (hcap x hx).1
    capRoom := fun x hx => (hcap x hx).2
    engines := hc.engines, lm1 := hc.lm1 }

example : (∀ x, good.cap = some x → x ≠ 0 ∧ WfRoom good x) := by
  intro x hx
  have : x = 3 := by simp [good] at hx; omega
  subst this
  refine ⟨by decide, ?_⟩
  intro k l h1 h2 hm hl
  have hk : k = 1 ∨ k = 2 := by simp [good] at h2; omega
  rcases hk with rfl | rfl
  · simp [good] at hm
  · simp [good] at hl; omega

/-- without a cap every accepted configuration is valid -/
theorem accept_sound_nocap (c : Cfg) (h : check c = .ok ()) (hcap : c.cap = none) : Valid c :=
  accept_sound_partial c h (fun x hx => by rw [hcap] at hx; cases hx)

example : check { good with cap := none } = .ok () := by decide

/-- … and the default cap (the last interface) leaves room for every wire-fencing ensemble -/
theorem default_cap_room (c : Cfg) (hv : Valid c) (l : Int) (hl : c.interfaces.getLast? = some l) :
    WfRoom c l := by
  intro k a hk1 hkn _ ha
  rw [getLast?_eq_getElem?] at hl
  exact pairwise_lt_getElem hv.sorted (by omega) ha hl

example : Valid { good with cap := none } ∧ ({ good with cap := none } : Cfg).interfaces.getLast? = some 4 :=
  ⟨accept_sound_nocap _ (by decide) rfl, by decide⟩

/-- Conversely the code rejects nothing the property allows, except through its two extra
    rules (quantis together with a non-zero λ₋₁, and the gromacs `input_path` rule). -/
theorem valid_accepted (c : Cfg) (hv : Valid c)
    (hq : ¬ (c.quantis = some true ∧ ∃ x, c.lm1 = .val x ∧ x ≠ 0))
    (hg : ∀ p ∈ c.engines, p.2.cls ≠ 0) : check c = .ok () := by
  rw [check_ok_iff]
  exact {
    lm1 := hv.lm1, noQuantisLm1 := hq, two := hv.two, workers := hv.workers, sorted := hv.sorted
    moves := hv.moves, cap := fun x hx _ => hv.capInside x hx, engines := hv.engines
    gromacs := fun ee _ k1 e1 _ hl hc => absurd hc (hg (k1, e1) (lookup_mem hl)) }

example : Valid good ∧ (∀ p ∈ good.engines, p.2.cls ≠ 0) := by
  refine ⟨accept_sound_partial good (by decide) ?_, by decide⟩
  intro x hx
  have : x = 3 := by simp [good] at hx; omega
  subst this
  refine ⟨by decide, ?_⟩
  intro k l h1 h2 hm hl
  have hk : k = 1 ∨ k = 2 := by simp [good] at h2; omega
  rcases hk with rfl | rfl
  · simp [good] at hm
  · simp [good] at hl; omega

/-! ### every rejection is a configuration error: false as stated, true with the keys present -/

/-- empty interface list together with a λ₋₁: `intf[0]` raises IndexError before
    "Define at least 2 interfaces!" is reached -/
def emptyWithLm1 : Cfg := { good with interfaces := [], workers := 0, moves := [] }

/-- a gromacs engine next to an engine without `input_path` (e.g. turtlemd in [0-]):
    `eng2.pop("input_path")` raises KeyError on an otherwise valid configuration -/
def mixedEngines : Cfg :=
  { good with
    ensEngines := some [["engine0"], ["engine"], ["engine"]],
    engines := [("engine", { cls := 0, inputPath := some 1, other := 7 }),
                ("engine0", { cls := 1, inputPath := none, other := 8 })] }

theorem reject_is_config_error_counterexample :
    check emptyWithLm1 = .error .index ∧ check mixedEngines = .error .key := by
  constructor <;> decide

/-- **Error kind.** With a non-empty interface list (or no λ₋₁) and the engine keys present,
    whatever `check_config` raises is a TOMLConfigError. -/
theorem reject_is_config_error_partial (c : Cfg) (e : Err)
    (hi : c.interfaces ≠ [] ∨ ∀ x, c.lm1 ≠ .val x) (hk : EngineKeysPresent c)
    (h : check c = .error e) : e = .config := by
  unfold check at h
  simp only [seq_error_iff, rejectIf_ok_iff, decide_eq_false_iff_not] at h
  rcases h with h | ⟨_, h | ⟨_, h | ⟨h3, h | ⟨_, h | ⟨_, h | ⟨_, h | ⟨_, h | ⟨_, h⟩⟩⟩⟩⟩⟩⟩⟩
  · exact lm1Test_error _ _ e hi h
  · exact rejectIf_error _ e h
  · exact rejectIf_error _ e h
  · exact rejectIf_error _ e h
  · exact rejectIf_error _ e h
  · exact rejectIf_error _ e h
  · exact rejectIf_error _ e h
  · refine capTest_error _ _ e ?_ h
    intro hn; rw [hn] at h3; simp at h3
  · exact engineTest_error c e hk h

example : (good.interfaces ≠ [] ∨ ∀ x, good.lm1 ≠ .val x) ∧ EngineKeysPresent good ∧
    check { good with workers := 3 } = .error .config := by
  refine ⟨Or.inl (by decide), ⟨by decide, Or.inr (by decide)⟩, by decide⟩

/-- **The property's first sentence, outside the defects.**  An invalid configuration whose
    cap (if any) is non-zero and leaves wire-fencing room is rejected, and with a
    TOMLConfigError. -/
theorem invalid_rejected_partial (c : Cfg) (hinv : ¬ Valid c)
    (hcap : ∀ x, c.cap = some x → x ≠ 0 ∧ WfRoom c x)
    (hi : c.interfaces ≠ [] ∨ ∀ x, c.lm1 ≠ .val x) (hk : EngineKeysPresent c) :
    check c = .error .config := by
  cases hc : check c with
  | ok u => cases u; exact absurd (accept_sound_partial c hc hcap) hinv
  | error e => rw [reject_is_config_error_partial c e hi hk hc]

example : ¬ Valid { good with interfaces := [0, 4, 2] } ∧
    check { good with interfaces := [0, 4, 2] } = .error .config := by
  refine ⟨?_, by decide⟩
  intro hv
  have := hv.sorted
  simp at this

/-! ### the defaults are a fixed point -/

/-- **Normalisation is idempotent.** What the defaults block produces is left unchanged by
    running the block again (a restart file carries the normalised values). -/
theorem normalise_idempotent (c c' : Cfg) (h : normalise c = .ok c') : normalise c' = .ok c' := by
  obtain ⟨intf, w, mv, cap, lm1, q, ee, eng, seed, acc⟩ := c
  unfold normalise at h
  simp only [hasEnsEngs, quantisOn] at h
  -- case analysis on the optional fields that drive the branches
  rcases ee with _ | ⟨_ | ⟨n0, ee⟩⟩ <;> rcases q with _ | _ | _ <;>
    simp only [Bool.not_true, Bool.not_false, Bool.and_true, Bool.and_false, decide_true,
      decide_false, Bool.false_eq_true, if_false, if_true, reduceCtorEq, Option.some.injEq] at h
  all_goals first
    | (cases intf with
        | nil => first | (cases h; cases lm1 <;> cases seed <;> cases acc <;> rfl) | cases h
        | cons a t => cases h; cases lm1 <;> cases seed <;> cases acc <;> rfl)
    | (cases h; cases lm1 <;> cases seed <;> cases acc <;> rfl)

/-- a raw configuration: no ensemble_engines, seed, lambda_minus_one, accept_all keys; quantis on -/
def raw : Cfg :=
  { good with
    ensEngines := none, quantis := some true, lm1 := .absent, seed := none, acceptAll := none }

def rawNormalised : Cfg :=
  { good with
    ensEngines := some [["engine0"], ["engine"], ["engine"]], quantis := some true, lm1 := .off }

example : normalise raw = .ok rawNormalised ∧ normalise rawNormalised = .ok rawNormalised := by decide

/-- `setup_config` returns a normalised, checked configuration; reading it again gives it back -/
theorem setupConfig_fixed_point (c c' : Cfg) (h : setupConfig c = .ok c') : setupConfig c' = .ok c' := by
  unfold setupConfig at h
  cases hn : normalise c with
  | error e => simp [hn] at h
  | ok c1 =>
    simp only [hn] at h
    cases hc : check c1 with
    | error e => simp [hc] at h
    | ok u =>
      cases u
      simp only [hc, Except.ok.injEq] at h
      subst h
      unfold setupConfig
      simp [normalise_idempotent c c1 hn, hc]

example : setupConfig { good with ensEngines := none, seed := none } = .ok good := by decide

/-! ### accepted ⇒ the ensembles can be created -/

theorem mkEns_ok (b : Bool) : ∀ (ei : List (Option Rat × Rat × Rat)) (mv : List Bool) (i : Nat),
    ei.length ≤ mv.length → ∃ es, mkEns b i ei mv = .ok es ∧ es.length = ei.length := by
  intro ei
  induction ei with
  | nil => intro mv i _; exact ⟨[], by simp [mkEns], rfl⟩
  | cons x t ih =>
    intro mv i h
    obtain ⟨a, b', r⟩ := x
    cases mv with
    | nil => simp at h
    | cons m ms =>
      obtain ⟨es, he, hl⟩ := ih ms (i + 1) (by simpa using h)
      refine ⟨{ left := a, middle := b', right := r, wf := m,
                startL := (i != 0) || b, startR := (i == 0) } :: es, ?_, by simp [hl]⟩
      simp only [mkEns, he]

theorem ensIntfs_ok (intfs : List Int) (lm1 : Lm1) (h2 : 2 ≤ intfs.length) :
    ∃ ei, ensIntfs intfs lm1 = .ok ei ∧ ei.length = intfs.length := by
  cases intfs with
  | nil => simp at h2
  | cons a t =>
    cases t with
    | nil => simp at h2
    | cons b t' =>
      obtain ⟨l, hl'⟩ : ∃ l, (a :: b :: t').getLast? = some l := by
        cases hh : (a :: b :: t').getLast? with
        | none => simp at hh
        | some l => exact ⟨l, rfl⟩
      simp only [ensIntfs, List.head?_cons, hl']
      exact ⟨_, rfl, by simp⟩

/-- **Accepted configurations initialise their ensembles.** For a checked configuration with
    the `lambda_minus_one` key filled in, `initiate_ensembles` raises nothing and creates one
    ensemble per interface ([0-], [0+], …, [(n-2)+]). -/
theorem accepted_initialises (c : Cfg) (h : check c = .ok ()) (hl : c.lm1 ≠ .absent) :
    ∃ es, initEnsembles c = .ok es ∧ es.length = c.interfaces.length := by
  have hc := (check_ok_iff c).1 h
  have h2 := hc.two
  have hm := hc.moves
  unfold initEnsembles
  have key : ∀ lm1 : Lm1, ∃ es : List Ens, (match ensIntfs c.interfaces lm1 with
      | .error e => (Except.error e : Except Err (List Ens))
      | .ok ei => mkEns lm1.isVal 0 ei c.moves) = .ok es ∧
      es.length = c.interfaces.length := by
    intro lm1
    obtain ⟨ei, hei, hlen⟩ := ensIntfs_ok c.interfaces lm1 h2
    rw [hei]
    obtain ⟨es, he, hes⟩ := mkEns_ok lm1.isVal ei c.moves 0 (by omega)
    exact ⟨es, he, by omega⟩
  cases hlm : c.lm1 with
  | absent => exact absurd hlm hl
  | off => exact key .off
  | val x => exact key (.val x)

example : ∃ es, initEnsembles good = .ok es ∧ es.length = good.interfaces.length :=
  accepted_initialises good (by decide) (by decide)

/-! ### the executable form of `Valid` used by the tie -/

theorem strictIncr_iff : ∀ l : List Int, strictIncr l = true ↔ l.Pairwise (· < ·) := by
  intro l
  induction l with
  | nil => simp [strictIncr]
  | cons a t ih =>
    cases t with
    | nil => simp [strictIncr]
    | cons b t' =>
      simp only [strictIncr, Bool.and_eq_true, decide_eq_true_eq, ih]
      constructor
      · rintro ⟨hab, hp⟩
        refine List.pairwise_cons.2 ⟨?_, hp⟩
        intro x hx
        rcases List.mem_cons.1 hx with rfl | hx
        · exact hab
        · exact Int.lt_trans hab ((List.pairwise_cons.1 hp).1 x hx)
      · intro hp
        exact ⟨(List.pairwise_cons.1 hp).1 b (by simp), (List.pairwise_cons.1 hp).2⟩

theorem roomGo_iff (x : Int) : ∀ (intf : List Int) (ms : List Bool),
    roomGo x intf ms = true ↔
      ∀ j l, j + 1 < intf.length → ms[j]? = some true → intf[j]? = some l → l < x := by
  intro intf
  induction intf with
  | nil => intro ms; simp [roomGo]
  | cons a t ih =>
    intro ms
    cases t with
    | nil => simp [roomGo]
    | cons b t' =>
      cases ms with
      | nil => simp [roomGo]
      | cons m ms' =>
        simp only [roomGo, Bool.and_eq_true, Bool.or_eq_true, Bool.not_eq_true', decide_eq_true_eq, ih]
        constructor
        · rintro ⟨h0, hrest⟩ j l hj hm hl
          cases j with
          | zero =>
            simp only [List.getElem?_cons_zero, Option.some.injEq] at hm hl
            subst hl
            rcases h0 with h0 | h0
            · rw [h0] at hm; cases hm
            · exact h0
          | succ j' =>
            simp only [List.getElem?_cons_succ] at hm hl
            exact hrest j' l (by simp only [List.length_cons] at hj ⊢; omega) hm hl
        · intro h
          constructor
          · cases m with
            | false => exact Or.inl rfl
            | true => exact Or.inr (h 0 a (by simp) (by simp) (by simp))
          · intro j l hj hm hl
            exact h (j + 1) l (by simp only [List.length_cons] at hj ⊢; omega)
              (by simpa using hm) (by simpa using hl)

theorem roomGo_iff_WfRoom (c : Cfg) (x : Int) :
    roomGo x c.interfaces c.moves.tail = true ↔ WfRoom c x := by
  rw [roomGo_iff]
  unfold WfRoom
  constructor
  · intro h k l hk1 hkn hm hl
    obtain ⟨j, rfl⟩ : ∃ j, k = j + 1 := ⟨k - 1, by omega⟩
    refine h j l hkn ?_ (by simpa using hl)
    rw [List.getElem?_tail]; exact hm
  · intro h j l hj hm hl
    refine h (j + 1) l (by omega) hj ?_ (by simpa using hl)
    rw [List.getElem?_tail] at hm; exact hm

/-- `validB` (what the driver evaluates on the real code's outcome) is `Valid` -/
theorem validB_iff (c : Cfg) : validB c = true ↔ Valid c := by
  unfold validB
  simp only [Bool.and_eq_true, decide_eq_true_eq, strictIncr_iff]
  constructor
  · rintro ⟨⟨⟨⟨⟨⟨h1, h2⟩, h3⟩, h4⟩, h5⟩, h6⟩, h7⟩
    refine { sorted := h1, two := h2, workers := h3, moves := h4, capInside := ?_, capRoom := ?_,
             engines := ?_, lm1 := ?_ }
    · intro x hx
      rw [hx] at h5
      cases hf : c.interfaces.head? with
      | none => simp [hf] at h5
      | some f =>
        cases hl : c.interfaces.getLast? with
        | none => simp [hf, hl] at h5
        | some l =>
          simp only [hf, hl, Bool.and_eq_true, decide_eq_true_eq] at h5
          exact ⟨f, l, hf, hl, h5.1.1, h5.1.2⟩
    · intro x hx
      rw [hx] at h5
      cases hf : c.interfaces.head? with
      | none => simp [hf] at h5
      | some f =>
        cases hl : c.interfaces.getLast? with
        | none => simp [hf, hl] at h5
        | some l =>
          simp only [hf, hl, Bool.and_eq_true, decide_eq_true_eq] at h5
          exact (roomGo_iff_WfRoom c x).1 h5.2
    · cases hee : c.ensEngines with
      | none => simp [hee] at h6
      | some ee =>
        simp only [hee, List.all_eq_true] at h6
        exact ⟨ee, hee, h6⟩
    · intro x hx
      rw [hx] at h7
      cases hf : c.interfaces.head? with
      | none => simp [hf] at h7
      | some f => simp only [hf, decide_eq_true_eq] at h7; exact ⟨f, rfl, h7⟩
  · intro hv
    refine ⟨⟨⟨⟨⟨⟨hv.sorted, hv.two⟩, hv.workers⟩, hv.moves⟩, ?_⟩, ?_⟩, ?_⟩
    · cases hc : c.cap with
      | none => rfl
      | some x =>
        obtain ⟨f, l, hf, hl, h1, h2⟩ := hv.capInside x hc
        simp only [hf, hl, Bool.and_eq_true, decide_eq_true_eq]
        exact ⟨⟨h1, h2⟩, (roomGo_iff_WfRoom c x).2 (hv.capRoom x hc)⟩
    · obtain ⟨ee, hee, h⟩ := hv.engines
      simp only [hee, List.all_eq_true]
      exact h
    · cases hl : c.lm1 with
      | absent => rfl
      | off => rfl
      | val x =>
        obtain ⟨f, hf, h⟩ := hv.lm1 x hl
        simp only [hf, decide_eq_true_eq]
        exact h

example : validB good = true ∧ validB capBelowWf = false ∧ validB capZero = false := by decide

end Infretis.C18
