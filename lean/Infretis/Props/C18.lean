import Infretis.Lemmas.Config
import Infretis.Lemmas.ConfigInit
import Infretis.Props.C10
/-!
# C18 — invalid configurations are rejected up front; accepted ones initialise

Property theorems only (helper lemmas live in `Infretis/Lemmas/Config.lean`).
Model: `Infretis/Model/Config.lean` (mirrors setup.py `check_config`, the defaults block of
`setup_config`, and repex.py `initiate_ensembles`, as repaired by /repo commit 729bb50).
All statements are for configurations of any size (any number of interfaces, moves, engines).
Extension (Model/ConfigInit.lean): `REPEX_state.cap`, `load_paths`, the part of `add_traj` it uses, `setup_internal`,
the whole start-up `startUp`, `setup_config` from its two files on (`setupConfigFiles`) and the occupation lists of
`create_engines` — sections "accepted configurations initialise", "`setup_config` from its two files on",
"engine instances" below.

History.  Before the repair the code did NOT guarantee `check c = ok → Valid c`: the cap was
only compared with the first and the last interface, a cap of 0.0 was skipped by truthiness,
nothing asked that the cap leaves room for a wire-fencing ensemble, an empty interface list
raised IndexError, and ensemble_engines could be too short or contain an empty list.  The
former counterexample witnesses (`capBelowWf`, `capZero`, `capAtFirst`, `emptyWithLm1`,
`enginesShort`, `ensembleWithoutEngine`) are kept below: `old_witnesses_rejected` proves that
the repaired `check` rejects each of them with a configuration error; they are also in
corpus/C18 and replayed against the real code on every run.

Later repair 971ccbc: `check_config` also rejects a `[current]` table written for another number of
interfaces (`Cfg.curSize`, `sizeTest`, the `size` clause of `Valid`; the code before it is kept as
`checkAsIs` / `startUpAsIs`, witness `restart_size_mismatch_asIs_counterexample`).  `setup_internal` is
modelled with the state sized by `[current].size` (`setupInternal`, `loadPathsW`: ValueError when the weight
vector is not as wide as the state); `setupInternalAligned` is the case size = number of interfaces, which is
all an accepted configuration can reach (`setupInternal_eq_aligned`, `accepted_size`).

What remains guarded: `check_config` can still raise KeyError (not TOMLConfigError) from the
gromacs loop, which pops `input_path` from every referenced engine as soon as one engine is of
class gromacs (`gromacs_key_error_witness`).  This only happens to configurations that are
`Valid` in the property's sense, so the property's sentences hold at full strength
(`accept_sound`, `invalid_rejected`, `setup_invalid_rejected`); the guard appears only in
`reject_is_config_error`, which speaks about *every* rejection.
-/
namespace Infretis.C18
open Infretis.Config

/-! ### the property's list, declaratively -/

/-- the cap lies inside the interfaces -/
def CapInside (c : Cfg) (x : Int) : Prop :=
  ∃ f l, c.interfaces.head? = some f ∧ c.interfaces.getLast? = some l ∧ f ≤ x ∧ x ≤ l

/-- the cap leaves room for every wire-fencing ensemble: ensemble `k ≥ 1` (that is `[(k-1)+]`)
    sits on interface `k-1`, uses `shooting_moves[k]`, and does its wire fencing in `[λ_{k-1}, cap)` -/
def WfRoom (c : Cfg) (x : Int) : Prop :=
  ∀ k l, 1 ≤ k → k < c.interfaces.length → c.moves[k]? = some true →
    c.interfaces[k - 1]? = some l → l < x

/-- every engine an ensemble refers to is a defined table -/
def EnginesDefined (c : Cfg) : Prop :=
  ∃ ee, c.ensEngines = some ee ∧
    ∀ names ∈ ee, ∀ e ∈ names, (c.engines.lookup e).isSome = true

structure Valid (c : Cfg) : Prop where
  sorted : c.interfaces.Pairwise (· < ·)
  two : 2 ≤ c.interfaces.length
  workers : c.workers ≤ (c.interfaces.length : Int) - 1
  moves : c.interfaces.length ≤ c.moves.length
  capInside : ∀ x, c.cap = some x → CapInside c x
  capRoom : ∀ x, c.cap = some x → WfRoom c x
  engines : EnginesDefined c
  lm1 : ∀ x, c.lm1 = .val x → ∃ f, c.interfaces.head? = some f ∧ x < f
  /-- restart inputs: the `[current]` table was written for this number of interfaces (/repo 971ccbc);
      nothing to ask when the dictionary has no `[current]` table -/
  size : ∀ s, c.curSize = some s → s = c.interfaces.length
  /-- the interfaces are numbers (/repo a54d86e; always so for the values this `Int`-typed model holds) -/
  numeric : c.intfNumeric = true

/-- every ensemble has a non-empty engine list (what the first picks index into) -/
def EnginesCover (c : Cfg) : Prop :=
  ∃ ee, c.ensEngines = some ee ∧ c.interfaces.length ≤ ee.length ∧ ∀ names ∈ ee, names ≠ []

/-- what `check_config` implements before the gromacs loop, declaratively (`preCheck_ok_iff`) -/
structure PreOk (c : Cfg) : Prop where
  two : 2 ≤ c.interfaces.length
  numeric : c.intfNumeric = true
  lm1 : ∀ x, c.lm1 = .val x → ∃ f, c.interfaces.head? = some f ∧ x < f
  noQuantisLm1 : ¬ (c.quantis = some true ∧ ∃ x, c.lm1 = .val x)
  workers : c.workers ≤ (c.interfaces.length : Int) - 1
  sorted : c.interfaces.Pairwise (· < ·)
  moves : c.interfaces.length ≤ c.moves.length
  size : ∀ s, c.curSize = some s → s = c.interfaces.length
  capInside : ∀ x, c.cap = some x → CapInside c x
  capRoom : ∀ x, c.cap = some x → WfRoom c x
  cover : EnginesCover c
  engines : EnginesDefined c

/-- the gromacs rule: a referenced gromacs engine and every referenced engine have an
    `input_path`, and no referenced engine with the same path differs from it -/
def GromacsOk (c : Cfg) : Prop :=
  ∀ ee, c.ensEngines = some ee →
    ∀ k1 e1, (∃ names ∈ ee, k1 ∈ names) → c.engines.lookup k1 = some e1 → e1.cls = 0 →
      ∃ p1, e1.inputPath = some p1 ∧
        ∀ k2 e2, (∃ names ∈ ee, k2 ∈ names) → c.engines.lookup k2 = some e2 →
          ∃ p2, e2.inputPath = some p2 ∧ ¬ (differ e1 e2 ∧ p1 = p2)

/-- what `check_config` implements, declaratively (`check_ok_iff`) -/
structure CodeOk (c : Cfg) : Prop where
  pre : PreOk c
  gromacs : GromacsOk c

/-! ### the single tests -/

theorem lm1Test_ok_iff (l : Lm1) (intf : List Int) :
    lm1Test l intf = .ok () ↔ ∀ x, l = .val x → ∃ f, intf.head? = some f ∧ x < f := by
  cases l with
  | absent => simp [lm1Test]
  | off => simp [lm1Test]
  | val x =>
    cases intf with
    | nil => simp [lm1Test]
    | cons h t =>
      simp only [lm1Test, rejectIf_ok_iff, Lm1.val.injEq, List.head?_cons, Option.some.injEq,
        exists_eq_left', forall_eq', decide_eq_false_iff_not]
      omega

theorem lm1Test_error (l : Lm1) (intf : List Int) (e : Err)
    (hg : intf ≠ []) : lm1Test l intf = .error e → e = .config := by
  cases l with
  | absent => simp [lm1Test]
  | off => simp [lm1Test]
  | val x =>
    cases intf with
    | nil => exact absurd rfl hg
    | cons h t => exact rejectIf_error _ e

theorem head_last_exist (intf : List Int) (hn : intf ≠ []) :
    ∃ f l, intf.head? = some f ∧ intf.getLast? = some l := by
  obtain ⟨f, hf⟩ : ∃ f, intf.head? = some f := by
    cases intf with
    | nil => exact absurd rfl hn
    | cons a t => exact ⟨a, rfl⟩
  obtain ⟨l, hl⟩ : ∃ l, intf.getLast? = some l := by
    cases h : intf.getLast? with
    | none => exact absurd (List.getLast?_eq_none_iff.1 h) hn
    | some l => exact ⟨l, rfl⟩
  exact ⟨f, l, hf, hl⟩

theorem capTest_ok_iff (cap : Option Int) (intf : List Int) (hn : intf ≠ []) :
    capTest cap intf = .ok () ↔
      ∀ x, cap = some x →
        ∃ f l, intf.head? = some f ∧ intf.getLast? = some l ∧ f ≤ x ∧ x ≤ l := by
  cases cap with
  | none => simp [capTest]
  | some x =>
    obtain ⟨f, l, hf, hl⟩ := head_last_exist intf hn
    simp only [capTest, Option.some.injEq, forall_eq', hf, hl, seq_ok_iff, rejectIf_ok_iff,
      decide_eq_false_iff_not, exists_and_left, exists_eq_left']
    omega

theorem capTest_error (cap : Option Int) (intf : List Int) (e : Err) (hn : intf ≠ []) :
    capTest cap intf = .error e → e = .config := by
  cases cap with
  | none => simp [capTest]
  | some x =>
    obtain ⟨f, l, hf, hl⟩ := head_last_exist intf hn
    simp only [capTest, hf, hl, seq_error_iff]
    rintro (h | ⟨_, h⟩) <;> exact rejectIf_error _ e h

theorem roomLoop_ok_iff (x : Int) : ∀ (intf : List Int) (ms : List Bool), ms.length ≤ intf.length →
    (roomLoop x intf ms = .ok () ↔
      ∀ (j : Nat) (l : Int), ms[j]? = some true → intf[j]? = some l → l < x) := by
  intro intf
  induction intf with
  | nil =>
    intro ms h
    cases ms with
    | nil => simp [roomLoop]
    | cons m ms' => simp at h
  | cons a t ih =>
    intro ms h
    cases ms with
    | nil => simp [roomLoop]
    | cons m ms' =>
      simp only [roomLoop]
      have h' : ms'.length ≤ t.length := by simpa using h
      split
      · rename_i hc
        simp only [Bool.and_eq_true, decide_eq_true_eq] at hc
        simp only [reduceCtorEq, false_iff]
        intro hall
        have := hall 0 a (by simp [hc.1]) (by simp)
        omega
      · rename_i hc
        simp only [Bool.and_eq_true, decide_eq_true_eq, not_and] at hc
        rw [ih ms' h']
        constructor
        · intro hall j l hm hl
          cases j with
          | zero =>
            simp only [List.getElem?_cons_zero, Option.some.injEq] at hm hl
            subst hl
            have := hc hm
            omega
          | succ j' =>
            simp only [List.getElem?_cons_succ] at hm hl
            exact hall j' l hm hl
        · intro hall j l hm hl
          exact hall (j + 1) l (by simpa using hm) (by simpa using hl)

theorem roomLoop_error (x : Int) (e : Err) : ∀ (intf : List Int) (ms : List Bool),
    ms.length ≤ intf.length → roomLoop x intf ms = .error e → e = .config := by
  intro intf
  induction intf with
  | nil =>
    intro ms h
    cases ms with
    | nil => simp [roomLoop]
    | cons m ms' => simp at h
  | cons a t ih =>
    intro ms h
    cases ms with
    | nil => simp [roomLoop]
    | cons m ms' =>
      simp only [roomLoop]
      split
      · intro he; cases he; rfl
      · exact ih ms' (by simpa using h)

theorem sizeTest_ok_iff (c : Cfg) :
    sizeTest c = .ok () ↔ ∀ s, c.curSize = some s → s = c.interfaces.length := by
  unfold sizeTest
  cases h : c.curSize with
  | none => simp
  | some s => simp [rejectIf_ok_iff]

theorem sizeTest_error (c : Cfg) (e : Err) : sizeTest c = .error e → e = .config := by
  unfold sizeTest
  cases c.curSize with
  | none => simp
  | some s => exact rejectIf_error _ e

theorem slice_length (intf : List Int) (moves : List Bool) :
    ((moves.drop 1).take (intf.length - 1)).length ≤ intf.length := by
  simp only [List.length_take, List.length_drop]
  omega

theorem roomTest_ok_iff (c : Cfg) :
    roomTest c.cap c.interfaces c.moves = .ok () ↔ ∀ x, c.cap = some x → WfRoom c x := by
  unfold roomTest
  cases hc : c.cap with
  | none => simp
  | some x =>
    simp only [Option.some.injEq, forall_eq']
    rw [roomLoop_ok_iff x _ _ (slice_length _ _)]
    unfold WfRoom
    constructor
    · intro h k l hk1 hkn hm hl
      obtain ⟨j, rfl⟩ : ∃ j, k = j + 1 := ⟨k - 1, by omega⟩
      refine h j l ?_ (by simpa using hl)
      rw [List.getElem?_take]
      rw [if_pos (by omega), List.getElem?_drop]
      rw [Nat.add_comm]; exact hm
    · intro h j l hm hl
      rw [List.getElem?_take] at hm
      split at hm
      · rename_i hj
        rw [List.getElem?_drop, Nat.add_comm] at hm
        exact h (j + 1) l (by omega) (by omega) hm (by simpa using hl)
      · cases hm

theorem roomTest_error (c : Cfg) (e : Err) :
    roomTest c.cap c.interfaces c.moves = .error e → e = .config := by
  unfold roomTest
  cases c.cap with
  | none => simp
  | some x => exact roomLoop_error x e _ _ (slice_length _ _)

theorem engineListTest_ok_iff (c : Cfg) :
    engineListTest c = .ok () ↔ EnginesCover c ∧ EnginesDefined c := by
  unfold engineListTest EnginesCover EnginesDefined
  cases hee : c.ensEngines with
  | none => simp
  | some ee =>
    simp only [seq_ok_iff, rejectIf_ok_iff, Option.some.injEq, exists_eq_left',
      decide_eq_false_iff_not, Nat.not_lt]
    have hdef : (uniqueEngines ee).any (fun k => (c.engines.lookup k).isNone) = false ↔
        ∀ names ∈ ee, ∀ e ∈ names, (c.engines.lookup e).isSome = true := by
      rw [List.any_eq_false]
      constructor
      · intro h names hn e he
        have := h e ((uniqueEngines_mem e ee).2 ⟨names, hn, he⟩)
        cases hl : c.engines.lookup e <;> simp_all
      · intro h e he
        obtain ⟨names, hn, he'⟩ := (uniqueEngines_mem e ee).1 he
        have := h names hn e he'
        cases hl : c.engines.lookup e <;> simp_all
    have hemp : ee.any (fun names => names.isEmpty) = false ↔ ∀ names ∈ ee, names ≠ [] := by
      rw [List.any_eq_false]
      constructor
      · intro h names hn he
        exact h names hn (by simp [he])
      · intro h names hn
        have := h names hn
        simpa using this
    rw [hdef, hemp]
    exact ⟨fun ⟨a, b, d⟩ => ⟨⟨a, b⟩, d⟩, fun ⟨⟨a, b⟩, d⟩ => ⟨a, b, d⟩⟩

theorem engineListTest_error (c : Cfg) (e : Err) (hne : c.ensEngines ≠ none) :
    engineListTest c = .error e → e = .config := by
  unfold engineListTest
  cases hee : c.ensEngines with
  | none => exact absurd hee hne
  | some ee =>
    simp only [seq_error_iff]
    rintro (h | ⟨_, h | ⟨_, h⟩⟩) <;> exact rejectIf_error _ e h

theorem gromacsTest_ok_iff (c : Cfg) (hne : c.ensEngines ≠ none) :
    gromacsTest c = .ok () ↔ GromacsOk c := by
  unfold gromacsTest GromacsOk
  cases hee : c.ensEngines with
  | none => exact absurd hee hne
  | some ee =>
    simp only [Option.some.injEq, forall_eq']
    rw [gmxOuter_ok_iff]
    constructor
    · intro h k1 e1 hk1 hl1 hc
      obtain ⟨p1, hp1, hin⟩ :=
        h e1 (lookupAll_mem.2 ⟨k1, (uniqueEngines_mem k1 ee).2 hk1, hl1⟩) hc
      refine ⟨p1, hp1, ?_⟩
      intro k2 e2 hk2 hl2
      exact (gmxInner_ok_iff e1 p1 _).1 hin e2
        (lookupAll_mem.2 ⟨k2, (uniqueEngines_mem k2 ee).2 hk2, hl2⟩)
    · intro h e1 he1 hc
      obtain ⟨k1, hk1, hl1⟩ := lookupAll_mem.1 he1
      obtain ⟨p1, hp1, hin⟩ := h k1 e1 ((uniqueEngines_mem k1 ee).1 hk1) hl1 hc
      refine ⟨p1, hp1, (gmxInner_ok_iff e1 p1 _).2 ?_⟩
      intro e2 he2
      obtain ⟨k2, hk2, hl2⟩ := lookupAll_mem.1 he2
      exact hin k2 e2 ((uniqueEngines_mem k2 ee).1 hk2) hl2

/-- the one remaining guard: every engine table has an `input_path`, or none is of class
    gromacs (then the gromacs loop never pops a missing key) -/
def InputPathsPresent (c : Cfg) : Prop :=
  (∀ p ∈ c.engines, p.2.inputPath ≠ none) ∨ (∀ p ∈ c.engines, p.2.cls ≠ 0)

theorem gromacsTest_error (c : Cfg) (e : Err) (hne : c.ensEngines ≠ none)
    (hk : InputPathsPresent c) : gromacsTest c = .error e → e = .config := by
  unfold gromacsTest
  cases hee : c.ensEngines with
  | none => exact absurd hee hne
  | some ee =>
    intro h
    have hmem : ∀ e2 ∈ lookupAll c.engines (uniqueEngines ee), ∃ k, (k, e2) ∈ c.engines := by
      intro e2 h2
      obtain ⟨k, _, hl⟩ := lookupAll_mem.1 h2
      exact ⟨k, lookup_mem hl⟩
    rcases hk with hk | hk
    · have hall : ∀ e2 ∈ lookupAll c.engines (uniqueEngines ee), e2.inputPath ≠ none := by
        intro e2 h2
        obtain ⟨k, hm⟩ := hmem e2 h2
        exact hk (k, e2) hm
      exact gmxOuter_error _ e _ hall hall h
    · have hng : ∀ e2 ∈ lookupAll c.engines (uniqueEngines ee), e2.cls ≠ 0 := by
        intro e2 h2
        obtain ⟨k, hm⟩ := hmem e2 h2
        exact hk (k, e2) hm
      simp only [gmxOuter_no_gromacs _ _ hng] at h
      cases h

/-! ### what the code implements -/

theorem lm1Truthy_iff (l : Lm1) : lm1Truthy l = true ↔ ∃ x, l = .val x ∧ x ≠ 0 := by
  cases l <;> simp [lm1Truthy]

theorem lm1_isVal_iff (l : Lm1) : l.isVal = true ↔ ∃ x, l = .val x := by
  cases l <;> simp [Lm1.isVal]

theorem preCheck_ok_iff (c : Cfg) : preCheck c = .ok () ↔ PreOk c := by
  unfold preCheck
  simp only [seq_ok_iff, rejectIf_ok_iff, lm1Test_ok_iff, decide_eq_false_iff_not,
    Bool.and_eq_false_iff, ← Bool.not_eq_true (c.lm1.isVal), lm1_isVal_iff,
    Decidable.not_not, isort_eq_self_iff, distinct_length_eq_iff, roomTest_ok_iff,
    engineListTest_ok_iff, sizeTest_ok_iff]
  constructor
  · rintro ⟨h1, hnum, h2, h3, h4, h5, h6, h7, hsz, h8, h9, h10, h11⟩
    have hne : c.interfaces ≠ [] := by
      intro h; rw [h] at h1; simp at h1
    rw [capTest_ok_iff _ _ hne] at h8
    refine ⟨by omega, by simpa using hnum, h2, ?_, by omega, (pairwise_lt_iff _).2 ⟨h5, h6⟩, by omega, hsz, h8, h9, h10, h11⟩
    rintro ⟨hq, hx⟩
    rcases h3 with h3 | h3
    · simp [hq] at h3
    · exact h3 hx
  · rintro ⟨h1, hnum, h2, h3, h4, h5, h6, hsz, h7, h8, h9, h10⟩
    have hne : c.interfaces ≠ [] := by
      intro h; rw [h] at h1; simp at h1
    rw [capTest_ok_iff _ _ hne]
    refine ⟨by omega, by simpa using hnum, h2, ?_, by omega, ((pairwise_lt_iff _).1 h5).1, ((pairwise_lt_iff _).1 h5).2,
      by omega, hsz, h7, h8, h9, h10⟩
    by_cases hq : c.quantis = some true
    · right; intro hx; exact h3 ⟨hq, hx⟩
    · left; simpa using hq

/-- whatever the tests before the gromacs loop raise is a TOMLConfigError (the only other
    possibility, KeyError for a missing `ensemble_engines` key, is excluded by `setup_config`) -/
theorem preCheck_error (c : Cfg) (e : Err) (hne : c.ensEngines ≠ none)
    (h : preCheck c = .error e) : e = .config := by
  unfold preCheck at h
  simp only [seq_error_iff, rejectIf_ok_iff, decide_eq_false_iff_not] at h
  rcases h with h | ⟨h1, h | ⟨_, h | ⟨_, h | ⟨_, h | ⟨_, h | ⟨_, h | ⟨_, h | ⟨_, h | ⟨_, h | ⟨_, h | ⟨_, h⟩⟩⟩⟩⟩⟩⟩⟩⟩⟩⟩
  · exact rejectIf_error _ e h
  · exact rejectIf_error _ e h
  · refine lm1Test_error _ _ e ?_ h
    intro hn; rw [hn] at h1; simp at h1
  · exact rejectIf_error _ e h
  · exact rejectIf_error _ e h
  · exact rejectIf_error _ e h
  · exact rejectIf_error _ e h
  · exact rejectIf_error _ e h
  · exact sizeTest_error c e h
  · refine capTest_error _ _ e ?_ h
    intro hn; rw [hn] at h1; simp at h1
  · exact roomTest_error c e h
  · exact engineListTest_error c e hne h

theorem PreOk.ensEngines_ne_none {c : Cfg} (h : PreOk c) : c.ensEngines ≠ none := by
  obtain ⟨ee, hee, _⟩ := h.engines
  rw [hee]; simp

/-- **Exact acceptance condition.** `check_config` returns normally iff `CodeOk`. -/
theorem check_ok_iff (c : Cfg) : check c = .ok () ↔ CodeOk c := by
  unfold check
  rw [seq_ok_iff, preCheck_ok_iff]
  constructor
  · rintro ⟨hp, hg⟩
    exact ⟨hp, (gromacsTest_ok_iff c hp.ensEngines_ne_none).1 hg⟩
  · rintro ⟨hp, hg⟩
    exact ⟨hp, (gromacsTest_ok_iff c hp.ensEngines_ne_none).2 hg⟩

/-- a concrete accepted configuration: 3 interfaces, wire fencing in [1+], cap 3 -/
def good : Cfg :=
  { interfaces := [0, 2, 4], workers := 2, moves := [false, false, true], cap := some 3,
    lm1 := .val (-1), quantis := some false,
    ensEngines := some [["engine"], ["engine"], ["engine"]],
    engines := [("engine", { cls := 1, inputPath := none, other := 7 })],
    seed := some 0, acceptAll := some false }

example : check good = .ok () := by decide
example : CodeOk good := (check_ok_iff good).1 (by decide)

/-! ### accepted ⇒ valid, at full strength -/

theorem PreOk.valid {c : Cfg} (h : PreOk c) : Valid c :=
  { sorted := h.sorted, two := h.two, workers := h.workers, moves := h.moves,
    capInside := h.capInside, capRoom := h.capRoom, engines := h.engines, lm1 := h.lm1, size := h.size,
    numeric := h.numeric }

/-- **Soundness of acceptance.** Every configuration `check_config` lets through satisfies the
    property's whole list: strictly increasing interfaces, at least two, workers ≤ n−1,
    enough shooting moves, cap inside the interfaces and above the interface of every
    wire-fencing ensemble, every referenced engine defined, λ₋₁ < λ₀. -/
theorem accept_sound (c : Cfg) (h : check c = .ok ()) : Valid c :=
  ((check_ok_iff c).1 h).pre.valid

example : Valid good := accept_sound good (by decide)

/-- accepted configurations also give every ensemble a non-empty engine list, which is what
    the first picks index into (`ens_engs[ens_num + 1]`, `assign_engines`) -/
theorem accept_engines_cover (c : Cfg) (h : check c = .ok ()) : EnginesCover c :=
  ((check_ok_iff c).1 h).pre.cover

/-- the default cap (the last interface) leaves room for every wire-fencing ensemble -/
theorem default_cap_room (c : Cfg) (hv : Valid c) (l : Int) (hl : c.interfaces.getLast? = some l) :
    WfRoom c l := by
  intro k a hk1 hkn _ ha
  rw [getLast?_eq_getElem?] at hl
  exact pairwise_lt_getElem hv.sorted (by omega) ha hl

example : Valid { good with cap := none } ∧ ({ good with cap := none } : Cfg).interfaces.getLast? = some 4 :=
  ⟨accept_sound _ (by decide), by decide⟩

/-- Conversely the code rejects nothing the property allows, except through its extra rules:
    quantis together with a λ₋₁ (any value, 0.0 included since /repo b3eda5b), an ensemble without (enough) engine lists, and the
    gromacs `input_path` rule. -/
theorem valid_accepted (c : Cfg) (hv : Valid c)
    (hq : ¬ (c.quantis = some true ∧ ∃ x, c.lm1 = .val x))
    (hcov : EnginesCover c) (hg : ∀ p ∈ c.engines, p.2.cls ≠ 0) : check c = .ok () := by
  rw [check_ok_iff]
  exact {
    pre := { two := hv.two, numeric := hv.numeric, lm1 := hv.lm1, noQuantisLm1 := hq, workers := hv.workers,
             sorted := hv.sorted, moves := hv.moves, size := hv.size, capInside := hv.capInside,
             capRoom := hv.capRoom, cover := hcov, engines := hv.engines }
    gromacs := fun ee _ k1 e1 _ hl hc => absurd hc (hg (k1, e1) (lookup_mem hl)) }

example : Valid good ∧ EnginesCover good ∧ (∀ p ∈ good.engines, p.2.cls ≠ 0) :=
  ⟨accept_sound good (by decide), accept_engines_cover good (by decide), by decide⟩

/-! ### invalid ⇒ rejected with a configuration error, at full strength -/

/-- **Invalid configurations are rejected with a TOMLConfigError.**  The only hypothesis is
    that the `ensemble_engines` key is present, which `setup_config` guarantees
    (`setup_invalid_rejected` has no hypothesis at all).  No `input_path` guard is needed: every
    clause of `Valid` is tested before the gromacs loop. -/
theorem invalid_rejected (c : Cfg) (hinv : ¬ Valid c) (hne : c.ensEngines ≠ none) :
    check c = .error .config := by
  unfold check
  cases hp : preCheck c with
  | ok u => cases u; exact absurd ((preCheck_ok_iff c).1 hp).valid hinv
  | error e => rw [preCheck_error c e hne hp]; rfl

example : ¬ Valid { good with interfaces := [0, 4, 2] } ∧
    ({ good with interfaces := [0, 4, 2] } : Cfg).ensEngines ≠ none := by
  refine ⟨?_, by decide⟩
  intro hv
  have := hv.sorted
  simp at this

/-- a gromacs engine next to an engine without `input_path` (e.g. turtlemd in [0-]):
    `eng2.pop("input_path")` raises KeyError on an otherwise valid configuration -/
def mixedEngines : Cfg :=
  { good with
    ensEngines := some [["engine0"], ["engine"], ["engine"]],
    engines := [("engine", { cls := 0, inputPath := some 1, other := 7 }),
                ("engine0", { cls := 1, inputPath := none, other := 8 })] }

/-- **What remains guarded.** `check_config` can still raise KeyError — but only on a
    configuration that is `Valid`. -/
theorem gromacs_key_error_witness : check mixedEngines = .error .key ∧ Valid mixedEngines := by
  refine ⟨by decide, ?_⟩
  have hp : preCheck mixedEngines = .ok () := by decide
  exact ((preCheck_ok_iff _).1 hp).valid

/-- a rejection that is not a TOMLConfigError happens only to `Valid` configurations -/
theorem non_config_error_only_if_valid (c : Cfg) (e : Err) (hne : c.ensEngines ≠ none)
    (h : check c = .error e) (he : e ≠ .config) : Valid c := by
  apply Classical.byContradiction
  intro hinv
  rw [invalid_rejected c hinv hne] at h
  cases h
  exact he rfl

/-- **Error kind of every rejection.** With the `ensemble_engines` key present and the
    `input_path` guard, whatever `check_config` raises is a TOMLConfigError. -/
theorem reject_is_config_error (c : Cfg) (e : Err) (hne : c.ensEngines ≠ none)
    (hk : InputPathsPresent c) (h : check c = .error e) : e = .config := by
  unfold check at h
  rw [seq_error_iff] at h
  rcases h with h | ⟨_, h⟩
  · exact preCheck_error c e hne h
  · exact gromacsTest_error c e hne hk h

example : good.ensEngines ≠ none ∧ InputPathsPresent good ∧
    check { good with workers := 3 } = .error .config :=
  ⟨by decide, Or.inr (by decide), by decide⟩

/-! ### the former defects are closed -/

/-- [0,2,4], moves sh,sh,wf, cap 1 (code units [0,1,2], cap 0.5): [1+] sits on interface 2 ≥ cap -/
def capBelowWf : Cfg := { good with cap := some 1 }
/-- [1,2,3], cap 0: was skipped by `if intf_cap and …` -/
def capZero : Cfg := { good with interfaces := [1, 2, 3], moves := [false, false, false], cap := some 0 }
/-- cap equal to the first interface with wire fencing in [0+] -/
def capAtFirst : Cfg := { good with moves := [false, true, false], cap := some 0 }
/-- empty interface list together with a λ₋₁: was IndexError from `intf[0]` -/
def emptyWithLm1 : Cfg := { good with interfaces := [], workers := 0, moves := [] }
/-- one engine list for three ensembles: was IndexError at the first pick -/
def enginesShort : Cfg := { good with ensEngines := some [["engine"]] }
/-- an ensemble with an empty engine list: was ValueError at the first pick -/
def ensembleWithoutEngine : Cfg := { good with ensEngines := some [["engine"], [], ["engine"]] }

/-- the witnesses of the five repaired defects are now all rejected with a TOMLConfigError
    (before the repair: accepted, accepted, accepted, IndexError, accepted, accepted) -/
theorem old_witnesses_rejected :
    check capBelowWf = .error .config ∧ check capZero = .error .config ∧
    check capAtFirst = .error .config ∧ check emptyWithLm1 = .error .config ∧
    check enginesShort = .error .config ∧ check ensembleWithoutEngine = .error .config := by
  decide

/-! ### the defaults are a fixed point -/

/-- **Normalisation is idempotent.** What the defaults block produces is left unchanged by
    running the block again (a restart file carries the normalised values). -/
theorem normalise_idempotent (c : Cfg) : normalise (normalise c) = normalise c := by
  obtain ⟨intf, w, mv, cap, lm1, q, ee, eng, seed, acc, cs, num⟩ := c
  rcases ee with _ | ⟨_ | ⟨n0, ee⟩⟩ <;> rcases q with _ | _ | _ <;> cases intf <;>
    cases lm1 <;> cases seed <;> cases acc <;> cases cs <;> rfl

/-- a raw configuration: no ensemble_engines, seed, lambda_minus_one, accept_all keys; quantis on -/
def raw : Cfg :=
  { good with
    ensEngines := none, quantis := some true, lm1 := .absent, seed := none, acceptAll := none }

def rawNormalised : Cfg :=
  { good with
    ensEngines := some [["engine0"], ["engine"], ["engine"]], quantis := some true, lm1 := .off,
    curSize := some 3 }

/-- `good` as `setup_config` returns it / as a restart file carries it: with the `[current]` table's size -/
def goodR : Cfg := { good with curSize := some 3 }

example : normalise raw = rawNormalised ∧ normalise rawNormalised = rawNormalised := by decide

theorem normalise_ensEngines (c : Cfg) : (normalise c).ensEngines ≠ none := by
  simp [normalise]

/-- **The property's first sentence for `setup_config`, no hypotheses:** a configuration whose
    normalised form is invalid is rejected with a TOMLConfigError. -/
theorem setup_invalid_rejected (c : Cfg) (hinv : ¬ Valid (normalise c)) :
    setupConfig c = .error .config := by
  unfold setupConfig
  rw [invalid_rejected _ hinv (normalise_ensEngines c)]

example : ¬ Valid (normalise capBelowWf) := by
  intro hv
  have := hv.capRoom 1 rfl 2 2 (by decide) (by decide) (by decide) (by decide)
  omega

/-- … and whatever `setup_config` returns is normalised and valid -/
theorem setup_accept_sound (c c' : Cfg) (h : setupConfig c = .ok c') :
    c' = normalise c ∧ Valid c' ∧ EnginesCover c' := by
  unfold setupConfig at h
  cases hc : check (normalise c) with
  | error e => simp [hc] at h
  | ok u =>
    cases u
    simp only [hc, Except.ok.injEq] at h
    subst h
    exact ⟨rfl, accept_sound _ hc, accept_engines_cover _ hc⟩

/-- `setup_config` returns a normalised, checked configuration; reading it again gives it back -/
theorem setupConfig_fixed_point (c c' : Cfg) (h : setupConfig c = .ok c') : setupConfig c' = .ok c' := by
  unfold setupConfig at h
  cases hc : check (normalise c) with
  | error e => simp [hc] at h
  | ok u =>
    cases u
    simp only [hc, Except.ok.injEq] at h
    subst h
    unfold setupConfig
    simp [normalise_idempotent, hc]

example : setupConfig { good with ensEngines := none, seed := none } = .ok goodR := by decide


/-! ### both entry branches (fresh start and restart) validate -/

/-- **`setup_config` validates on both branches.** Whatever configuration `setup_config`
    returns — from a fresh input file or from a restart file with a `[current]` table — is the
    normalised input, has passed `check_config`, and is therefore `Valid`. -/
theorem setup_config_validates_both_branches (c c' : Cfg) (r : Option Restart)
    (h : setupFile c r = .ok (some c')) :
    c' = normalise c ∧ check c' = .ok () ∧ Valid c' ∧ EnginesCover c' := by
  have tail : ∀ c'', (match setupConfig c with
      | .error e => (Except.error e : Except Err (Option Cfg))
      | .ok c1 => .ok (some c1)) = .ok (some c'') →
      c'' = normalise c ∧ check c'' = .ok () ∧ Valid c'' ∧ EnginesCover c'' := by
    intro c'' h
    cases hs : setupConfig c with
    | error e => simp [hs] at h
    | ok c1 =>
      simp only [hs, Except.ok.injEq, Option.some.injEq] at h
      subst h
      obtain ⟨h1, h2, h3⟩ := setup_accept_sound c c1 hs
      refine ⟨h1, ?_, h2, h3⟩
      unfold setupConfig at hs
      cases hc : check (normalise c) with
      | error e => simp [hc] at hs
      | ok u => cases u; rw [h1]; exact hc
  unfold setupFile at h
  cases r with
  | none => exact tail c' h
  | some cur =>
    simp only at h
    cases hf : cur.finished with
    | true => simp [hf] at h
    | false =>
      cases hp : cur.pathsPresent with
      | false => simp [hf, hp] at h
      | true =>
        simp only [hf, hp, Bool.not_true, Bool.false_eq_true, if_false] at h
        exact tail c' h

/-- **Invalid configurations are rejected on both branches.** If the normalised configuration
    is invalid, `setup_config` never returns it: it raises a TOMLConfigError, or (restart
    branch only) stops with `None` before anything starts. -/
theorem setup_invalid_rejected_both_branches (c : Cfg) (r : Option Restart)
    (hinv : ¬ Valid (normalise c)) :
    setupFile c r = .error .config ∨ (r ≠ none ∧ setupFile c r = .ok none) := by
  have hs := setup_invalid_rejected c hinv
  unfold setupFile
  cases r with
  | none => left; simp [hs]
  | some cur =>
    cases hf : cur.finished with
    | true => right; simp [hf]
    | false =>
      cases hp : cur.pathsPresent with
      | false => right; simp [hf, hp]
      | true => left; simp [hs, hf, hp]

/-- a restart that goes on (steps left, paths on disk) rejects an invalid configuration with a
    TOMLConfigError exactly like a fresh start -/
theorem restart_invalid_rejected (c : Cfg) (cur : Restart) (hinv : ¬ Valid (normalise c))
    (hgo : cur.finished = false) (hp : cur.pathsPresent = true) :
    setupFile c (some cur) = .error .config := by
  unfold setupFile
  simp [setup_invalid_rejected c hinv, hgo, hp]

example : setupFile capBelowWf (some { cstep := 3, restartedFrom := some 0, steps := 10, pathsPresent := true })
      = .error .config ∧
    setupFile goodR (some { cstep := 3, restartedFrom := some 0, steps := 10, pathsPresent := true })
      = .ok (some goodR) ∧
    setupFile { capBelowWf with cap := some 3, curSize := some 4 }
        (some { cstep := 3, restartedFrom := some 0, steps := 10, pathsPresent := true })
      = .error .config ∧
    setupFile capBelowWf (some { cstep := 10, restartedFrom := some 10, steps := 10, pathsPresent := true })
      = .ok none := by decide

/-! ### accepted ⇒ the ensembles can be created -/

theorem mkEns_ok (b : Bool) : ∀ (ei : List (Option Rat × Rat × Rat)) (mv : List Bool) (i : Nat),
    ei.length ≤ mv.length → ∃ es, mkEns b i ei mv = .ok es ∧ es.length = ei.length := by
  intro ei
  induction ei with
  | nil => intro mv i _; exact ⟨[], by simp [mkEns], rfl⟩
  | cons x t ih =>
    intro mv i h
    obtain ⟨a, b', r⟩ := x
    cases mv with
    | nil => simp at h
    | cons m ms =>
      obtain ⟨es, he, hl⟩ := ih ms (i + 1) (by simpa using h)
      refine ⟨{ left := a, middle := b', right := r, wf := m,
                startL := (i != 0) || b, startR := (i == 0) } :: es, ?_, by simp [hl]⟩
      simp only [mkEns, he]

theorem ensIntfs_ok (intfs : List Int) (lm1 : Lm1) (h2 : 2 ≤ intfs.length) :
    ∃ ei, ensIntfs intfs lm1 = .ok ei ∧ ei.length = intfs.length := by
  cases intfs with
  | nil => simp at h2
  | cons a t =>
    cases t with
    | nil => simp at h2
    | cons b t' =>
      obtain ⟨l, hl'⟩ : ∃ l, (a :: b :: t').getLast? = some l := by
        cases hh : (a :: b :: t').getLast? with
        | none => simp at hh
        | some l => exact ⟨l, rfl⟩
      simp only [ensIntfs, List.head?_cons, hl']
      exact ⟨_, rfl, by simp⟩

/-- **Accepted configurations initialise their ensembles.** For a checked configuration with
    the `lambda_minus_one` key filled in, `initiate_ensembles` raises nothing and creates one
    ensemble per interface ([0-], [0+], …, [(n-2)+]). -/
theorem accepted_initialises (c : Cfg) (h : check c = .ok ()) (hl : c.lm1 ≠ .absent) :
    ∃ es, initEnsembles c = .ok es ∧ es.length = c.interfaces.length := by
  have hc := (check_ok_iff c).1 h
  have h2 := hc.pre.two
  have hm := hc.pre.moves
  unfold initEnsembles
  have key : ∀ lm1 : Lm1, ∃ es : List Ens, (match ensIntfs c.interfaces lm1 with
      | .error e => (Except.error e : Except Err (List Ens))
      | .ok ei => mkEns lm1.isVal 0 ei c.moves) = .ok es ∧
      es.length = c.interfaces.length := by
    intro lm1
    obtain ⟨ei, hei, hlen⟩ := ensIntfs_ok c.interfaces lm1 h2
    rw [hei]
    obtain ⟨es, he, hes⟩ := mkEns_ok lm1.isVal ei c.moves 0 (by omega)
    exact ⟨es, he, by omega⟩
  cases hlm : c.lm1 with
  | absent => exact absurd hlm hl
  | off => exact key .off
  | val x => exact key (.val x)

example : ∃ es, initEnsembles good = .ok es ∧ es.length = good.interfaces.length :=
  accepted_initialises good (by decide) (by decide)


/-! ### valid initial paths have a non-zero weight in their own ensemble -/

/-- **Own weight of an initial path (non-strict).** `load_paths` gives every [k+] path the weight
    vector `calc_cv_vector` (model: `Infretis.WF.cvVector`, C10).  For a shooting ensemble on
    interface `k` the own entry is 1 as soon as the path's maximum reaches `λ_k` — `λ_k ≤ max`,
    equality included, the same convention as `Path.check_interfaces` and the start/end tests —
    so `add_traj`'s `assert valid[ens] != 0` holds for every valid initial path. -/
theorem valid_initial_path_own_weight (c : Cfg) (ops : List Int) (ws : List Nat) (pmax l : Int) (k : Nat)
    (h : Infretis.WF.cvVector ops c.interfaces c.moves.tail c.cap = .ok ws)
    (hm : Infretis.WF.maxOf ops = some pmax) (hk : k + 1 < c.interfaces.length)
    (hsh : c.moves[k + 1]? = some false) (hl : c.interfaces[k]? = some l) (hle : l ≤ pmax) :
    ws[k]? = some 1 := by
  unfold Infretis.WF.cvVector at h
  rw [hm] at h
  cases hi : c.interfaces.head? with
  | none => simp [hi] at h
  | some i0 =>
    cases hlast : c.interfaces.getLast? with
    | none => simp [hi, hlast] at h
    | some ilast =>
      simp only [hi, hlast] at h
      split at h
      · simp at h
      · rename_i ws' hws
        have hw : ws = ws' ++ [0] := by
          injection h with h; exact h.symm
        subst hw
        obtain ⟨hlen, hent⟩ := Infretis.C10.cvVectorGo_shape ops i0 _ pmax _ _ _ hws
        have hkd : k < c.interfaces.dropLast.length := by simp; omega
        have hkw : k < ws'.length := by omega
        have hmt : c.moves.tail[k]? = some false := by rw [List.getElem?_tail]; exact hsh
        obtain ⟨hkm, hmk⟩ := List.getElem?_eq_some_iff.1 hmt
        have := hent k hkd hkm hkw hmk
        obtain ⟨hki, hlk⟩ := List.getElem?_eq_some_iff.1 hl
        have hdl : c.interfaces.dropLast[k] = l := by rw [List.getElem_dropLast]; exact hlk
        rw [hdl, if_pos hle] at this
        rw [List.getElem?_append_left hkw, List.getElem?_eq_getElem hkw, this]

/-- at equality: a path whose maximum sits exactly ON interface 1 (= 2) has weight 1 in [1+] -/
example : Infretis.WF.maxOf [-1, 0, 1, 2, 1, 0, -1] = some 2 ∧
    ({ good with moves := [false, false, false], cap := none } : Cfg).interfaces[1]? = some 2 ∧
    Infretis.WF.cvVector [-1, 0, 1, 2, 1, 0, -1] [0, 2, 4] [false, false] none = .ok [1, 1, 0] := by
  decide


/-! ### what the defaults block may touch; the workers boundary -/

/-- **The defaults block only fills in defaults.** Interfaces, workers, shooting moves, cap and the
    engine tables come out of `normalise` unchanged; a key that is present keeps its value (seed,
    accept_all, quantis, a λ₋₁ that is `false` or a number, a non-empty ensemble_engines). -/
theorem normalise_touches_only_defaults (c : Cfg) :
    (normalise c).interfaces = c.interfaces ∧ (normalise c).workers = c.workers ∧
    (normalise c).moves = c.moves ∧ (normalise c).cap = c.cap ∧ (normalise c).engines = c.engines ∧
    (∀ s, c.seed = some s → (normalise c).seed = some s) ∧
    (∀ a, c.acceptAll = some a → (normalise c).acceptAll = some a) ∧
    (∀ q, c.quantis = some q → (normalise c).quantis = some q) ∧
    (c.lm1 ≠ .absent → (normalise c).lm1 = c.lm1) ∧
    (∀ e ee, c.ensEngines = some (e :: ee) → (normalise c).ensEngines = some (e :: ee)) := by
  refine ⟨rfl, rfl, rfl, rfl, rfl, ?_, ?_, ?_, ?_, ?_⟩
  · intro s h; simp [normalise, h]
  · intro a h; simp [normalise, h]
  · intro q h; cases q <;> simp [normalise, quantisOn, h]
  · intro h; cases hl : c.lm1 <;> simp_all [normalise]
  · intro e ee h; simp [normalise, hasEnsEngs, h]

example : (normalise raw).interfaces = raw.interfaces ∧ raw.seed = none ∧ (normalise raw).seed = some 0 := by
  decide

/-- **Workers boundary.** For an accepted configuration with `n` interfaces, `workers = n − 1` is
    accepted and `workers = n` is rejected with a TOMLConfigError (everything else unchanged). -/
theorem workers_boundary (c : Cfg) (h : check c = .ok ()) :
    check { c with workers := (c.interfaces.length : Int) - 1 } = .ok () ∧
    check { c with workers := (c.interfaces.length : Int) } = .error .config := by
  have hc := (check_ok_iff c).1 h
  constructor
  · rw [check_ok_iff]
    exact {
      pre := { two := hc.pre.two, numeric := hc.pre.numeric, lm1 := hc.pre.lm1, noQuantisLm1 := hc.pre.noQuantisLm1,
               workers := Int.le_refl _, sorted := hc.pre.sorted, moves := hc.pre.moves, size := hc.pre.size,
               capInside := hc.pre.capInside, capRoom := hc.pre.capRoom, cover := hc.pre.cover,
               engines := hc.pre.engines }
      gromacs := hc.gromacs }
  · apply invalid_rejected
    · intro hv
      have := hv.workers
      simp only at this
      omega
    · exact hc.pre.ensEngines_ne_none

example : check { good with workers := 2 } = .ok () ∧ check { good with workers := 3 } = .error .config := by
  decide

/-! ### the executable form of `Valid` used by the tie -/

theorem strictIncr_iff : ∀ l : List Int, strictIncr l = true ↔ l.Pairwise (· < ·) := by
  intro l
  induction l with
  | nil => simp [strictIncr]
  | cons a t ih =>
    cases t with
    | nil => simp [strictIncr]
    | cons b t' =>
      simp only [strictIncr, Bool.and_eq_true, decide_eq_true_eq, ih]
      constructor
      · rintro ⟨hab, hp⟩
        refine List.pairwise_cons.2 ⟨?_, hp⟩
        intro x hx
        rcases List.mem_cons.1 hx with rfl | hx
        · exact hab
        · exact Int.lt_trans hab ((List.pairwise_cons.1 hp).1 x hx)
      · intro hp
        exact ⟨(List.pairwise_cons.1 hp).1 b (by simp), (List.pairwise_cons.1 hp).2⟩

theorem roomGo_iff (x : Int) : ∀ (intf : List Int) (ms : List Bool),
    roomGo x intf ms = true ↔
      ∀ j l, j + 1 < intf.length → ms[j]? = some true → intf[j]? = some l → l < x := by
  intro intf
  induction intf with
  | nil => intro ms; simp [roomGo]
  | cons a t ih =>
    intro ms
    cases t with
    | nil => simp [roomGo]
    | cons b t' =>
      cases ms with
      | nil => simp [roomGo]
      | cons m ms' =>
        simp only [roomGo, Bool.and_eq_true, Bool.or_eq_true, Bool.not_eq_true', decide_eq_true_eq, ih]
        constructor
        · rintro ⟨h0, hrest⟩ j l hj hm hl
          cases j with
          | zero =>
            simp only [List.getElem?_cons_zero, Option.some.injEq] at hm hl
            subst hl
            rcases h0 with h0 | h0
            · rw [h0] at hm; cases hm
            · exact h0
          | succ j' =>
            simp only [List.getElem?_cons_succ] at hm hl
            exact hrest j' l (by simp only [List.length_cons] at hj ⊢; omega) hm hl
        · intro h
          constructor
          · cases m with
            | false => exact Or.inl rfl
            | true => exact Or.inr (h 0 a (by simp) (by simp) (by simp))
          · intro j l hj hm hl
            exact h (j + 1) l (by simp only [List.length_cons] at hj ⊢; omega)
              (by simpa using hm) (by simpa using hl)

theorem roomGo_iff_WfRoom (c : Cfg) (x : Int) :
    roomGo x c.interfaces c.moves.tail = true ↔ WfRoom c x := by
  rw [roomGo_iff]
  unfold WfRoom
  constructor
  · intro h k l hk1 hkn hm hl
    obtain ⟨j, rfl⟩ : ∃ j, k = j + 1 := ⟨k - 1, by omega⟩
    refine h j l hkn ?_ (by simpa using hl)
    rw [List.getElem?_tail]; exact hm
  · intro h j l hj hm hl
    refine h (j + 1) l (by omega) hj ?_ (by simpa using hl)
    rw [List.getElem?_tail] at hm; exact hm

/-- `validB` (what the driver evaluates on the real code's outcome) is `Valid` -/
theorem validB_iff (c : Cfg) : validB c = true ↔ Valid c := by
  unfold validB
  simp only [Bool.and_eq_true, decide_eq_true_eq, strictIncr_iff]
  constructor
  · rintro ⟨⟨⟨⟨⟨⟨⟨⟨h1, h2⟩, h3⟩, h4⟩, h5⟩, h6⟩, h7⟩, h8⟩, h9⟩
    refine { sorted := h1, two := h2, workers := h3, moves := h4, capInside := ?_, capRoom := ?_,
             engines := ?_, lm1 := ?_, size := ?_, numeric := h9 }
    · intro x hx
      rw [hx] at h5
      cases hf : c.interfaces.head? with
      | none => simp [hf] at h5
      | some f =>
        cases hl : c.interfaces.getLast? with
        | none => simp [hf, hl] at h5
        | some l =>
          simp only [hf, hl, Bool.and_eq_true, decide_eq_true_eq] at h5
          exact ⟨f, l, hf, hl, h5.1.1, h5.1.2⟩
    · intro x hx
      rw [hx] at h5
      cases hf : c.interfaces.head? with
      | none => simp [hf] at h5
      | some f =>
        cases hl : c.interfaces.getLast? with
        | none => simp [hf, hl] at h5
        | some l =>
          simp only [hf, hl, Bool.and_eq_true, decide_eq_true_eq] at h5
          exact (roomGo_iff_WfRoom c x).1 h5.2
    · cases hee : c.ensEngines with
      | none => simp [hee] at h6
      | some ee =>
        simp only [hee, List.all_eq_true] at h6
        exact ⟨ee, hee, h6⟩
    · intro x hx
      rw [hx] at h7
      cases hf : c.interfaces.head? with
      | none => simp [hf] at h7
      | some f => simp only [hf, decide_eq_true_eq] at h7; exact ⟨f, rfl, h7⟩
    · intro sz hsz
      rw [hsz] at h8
      simpa using h8
  · intro hv
    refine ⟨⟨⟨⟨⟨⟨⟨⟨hv.sorted, hv.two⟩, hv.workers⟩, hv.moves⟩, ?_⟩, ?_⟩, ?_⟩, ?_⟩, hv.numeric⟩
    · cases hc : c.cap with
      | none => rfl
      | some x =>
        obtain ⟨f, l, hf, hl, h1, h2⟩ := hv.capInside x hc
        simp only [hf, hl, Bool.and_eq_true, decide_eq_true_eq]
        exact ⟨⟨h1, h2⟩, (roomGo_iff_WfRoom c x).2 (hv.capRoom x hc)⟩
    · obtain ⟨ee, hee, h⟩ := hv.engines
      simp only [hee, List.all_eq_true]
      exact h
    · cases hl : c.lm1 with
      | absent => rfl
      | off => rfl
      | val x =>
        obtain ⟨f, hf, h⟩ := hv.lm1 x hl
        simp only [hf, decide_eq_true_eq]
        exact h
    · cases hs : c.curSize with
      | none => rfl
      | some sz => simpa using hv.size sz hs

example : validB good = true ∧ validB capBelowWf = false ∧ validB capZero = false := by decide

/-! ## accepted configurations initialise: ensembles, W matrix and cap after `setup_internal`

Model: `Infretis/Model/ConfigInit.lean` (`REPEX_state.cap`, `load_paths`, the part of `add_traj` it uses,
`setup_internal`, and `startUp = setup_config ; setup_internal`).  `calc_cv_vector` is C10's `cvVector`. -/
section Initialise
open Infretis.WF

/-- right end of every wire-fencing region: the configured cap (0 included), else the last interface -/
def rightEnd (c : Cfg) (last : Int) : Int := match c.cap with | some x => x | none => last

/-- the weight vector the property demands for a plus path under the configured interfaces, moves and cap -/
def specRow (c : Cfg) (ops : List Int) : Option (List Nat) :=
  match maxOf ops, ops.head?, ops.getLast?, c.interfaces.head?, c.interfaces.getLast? with
  | some pmax, some first, some last, some i0, some iN =>
    some (specRowGo ops i0 (rightEnd c iN) pmax first last c.interfaces.dropLast c.moves.tail ++ [0])
  | _, _, _, _, _ => none

theorem maxOf_some (ops : List Int) (h : ops ≠ []) : ∃ m, maxOf ops = some m := by
  cases ops with
  | nil => exact absurd rfl h
  | cons a t => exact ⟨_, rfl⟩

theorem Valid.head_last {c : Cfg} (hv : Valid c) :
    ∃ i0 iN, c.interfaces.head? = some i0 ∧ c.interfaces.getLast? = some iN ∧ i0 < iN := by
  have h2 := hv.two
  obtain ⟨f, l, hf, hl⟩ := head_last_exist c.interfaces (by intro h; rw [h] at h2; simp at h2)
  refine ⟨f, l, hf, hl, ?_⟩
  rw [head?_eq_getElem?] at hf
  rw [getLast?_eq_getElem?] at hl
  exact pairwise_lt_getElem hv.sorted (by omega) hf hl

theorem Valid.rightEnd_room {c : Cfg} (hv : Valid c) (i0 iN : Int)
    (h0 : c.interfaces.head? = some i0) (hN : c.interfaces.getLast? = some iN) :
    i0 ≤ rightEnd c iN ∧ WfRoom c (rightEnd c iN) := by
  unfold rightEnd
  cases hc : c.cap with
  | none =>
    obtain ⟨a, b, ha, hb, hab⟩ := hv.head_last
    rw [h0] at ha; rw [hN] at hb
    cases ha; cases hb
    exact ⟨by simp only; omega, default_cap_room c hv iN hN⟩
  | some x =>
    obtain ⟨f, l, hf, hl, h1, h2⟩ := hv.capInside x hc
    rw [h0] at hf; cases hf
    exact ⟨h1, hv.capRoom x hc⟩

/-- **`calc_cv_vector` on an accepted configuration gives the demanded vector.** -/
theorem cvVector_eq_specRow (c : Cfg) (hv : Valid c) (ops : List Int) (hne : ops ≠ []) :
    ∃ row, specRow c ops = some row ∧
      cvVector ops c.interfaces c.moves.tail (stateCap c) = .ok row ∧
      row.length = c.interfaces.length := by
  obtain ⟨pmax, hm⟩ := maxOf_some ops hne
  obtain ⟨first, last, hf, hl⟩ := head_last_exist ops hne
  obtain ⟨i0, iN, h0, hN, _⟩ := hv.head_last
  obtain ⟨h0r, hroom⟩ := hv.rightEnd_room i0 iN h0 hN
  have hlen : c.interfaces.dropLast.length ≤ c.moves.tail.length := by
    have := hv.moves
    simp only [List.length_dropLast, List.length_tail]; omega
  have hgo := cvVectorGo_eq_spec ops i0 (rightEnd c iN) pmax first last h0r hf hl
    c.interfaces.dropLast c.moves.tail hlen (by
      intro k lam hk hmv
      rw [List.getElem?_dropLast] at hk
      split at hk
      · rename_i hk'
        rw [List.getElem?_tail] at hmv
        have := hroom (k + 1) lam (by omega) (by omega) hmv (by simpa using hk)
        omega
      · cases hk)
  refine ⟨specRowGo ops i0 (rightEnd c iN) pmax first last c.interfaces.dropLast c.moves.tail ++ [0],
    by simp only [specRow, hm, hf, hl, h0, hN], ?_, ?_⟩
  · unfold cvVector stateCap
    simp only [hm, h0, hN]
    cases hc : c.cap <;> simp only [rightEnd, hc] at hgo ⊢ <;> rw [hgo]
  · have h2 := hv.two
    simp only [List.length_append, List.length_singleton,
      specRowGo_length ops i0 _ pmax first last _ _ hlen, List.length_dropLast]
    omega

/-- valid initial paths for `c`: one order sequence per ensemble (`paths[0]` for [0-], `paths[k+1]` for
    [k+]); every plus path is non-empty and its demanded weight in its own ensemble is not 0 -/
structure PathsOk (c : Cfg) (paths : List (List Int)) : Prop where
  enough : c.interfaces.length ≤ paths.length
  own : ∀ (k : Nat) (ops : List Int), k + 1 < c.interfaces.length → paths[k + 1]? = some ops →
    ops ≠ [] ∧ ∀ (row : List Nat) (w : Nat), specRow c ops = some row → row[k]? = some w → w ≠ 0

/-- the row of the W matrix `load_paths` must give the [k+] path (fallback `[]` never used under `PathsOk`) -/
def plusRowOf (c : Cfg) (paths : List (List Int)) (k : Nat) : List Nat :=
  match paths[k + 1]? with
  | some ops => (match specRow c ops with | some row => padPlus row | none => [])
  | none => []

theorem loadPlusOne_spec (c : Cfg) (hv : Valid c) (hl : c.lm1 ≠ .absent) (paths : List (List Int))
    (hp : PathsOk c paths) (k : Nat) (hk : k + 1 < c.interfaces.length) :
    loadPlusOne c k paths = .ok (plusRowOf c paths k) := by
  obtain ⟨ops, hops⟩ : ∃ ops, paths[k + 1]? = some ops := by
    have := hp.enough
    exact ⟨paths[k + 1]'(by omega), List.getElem?_eq_getElem (by omega)⟩
  obtain ⟨hne, hown⟩ := hp.own k ops hk hops
  obtain ⟨row, hrow, hcv, hlen⟩ := cvVector_eq_specRow c hv ops hne
  obtain ⟨w, hw⟩ : ∃ w, row[k]? = some w := ⟨row[k]'(by omega), List.getElem?_eq_getElem (by omega)⟩
  have hw0 := hown row w hrow hw
  unfold loadPlusOne plusRowOf
  simp only [hops, hrow, hcv]
  cases hlm : c.lm1 with
  | absent => exact absurd hlm hl
  | off =>
    cases w with
    | zero => exact absurd rfl hw0
    | succ n => simp only [addTraj, padPlus, List.getElem?_cons_succ, hw]
  | val x =>
    cases w with
    | zero => exact absurd rfl hw0
    | succ n => simp only [addTraj, padPlus, List.getElem?_cons_succ, hw]

/-- the whole W matrix after `load_paths` -/
def specMatrix (c : Cfg) (paths : List (List Int)) : List (List Nat) :=
  let n := c.interfaces.length
  (1 :: List.replicate n 0) :: (List.range' 0 (n - 1)).map (plusRowOf c paths) ++ [List.replicate (n + 1) 0]

theorem loadPaths_eq_specMatrix (c : Cfg) (hv : Valid c) (hl : c.lm1 ≠ .absent) (paths : List (List Int))
    (hp : PathsOk c paths) : loadPaths c paths = .ok (specMatrix c paths) := by
  have h2 := hv.two
  have hplus := loadPlus_ok c paths (plusRowOf c paths) (c.interfaces.length - 1) 0
    (fun k hk => by
      simp only [Nat.zero_add]
      exact loadPlusOne_spec c hv hl paths hp k (by omega))
  obtain ⟨p0, hp0⟩ : ∃ p0, paths[0]? = some p0 := by
    have := hp.enough
    exact ⟨paths[0]'(by omega), List.getElem?_eq_getElem (by omega)⟩
  unfold loadPaths specMatrix
  simp only [hplus, hp0, addTraj, padMinus, List.singleton_append, List.getElem?_cons_zero]


/-- the [0-] ensemble: `(-inf, λ0, λ0)` starting "R"; with a λ₋₁ `(λ₋₁, (λ₋₁+λ0)/2, λ0)` starting "L" or "R" -/
def ensMinus (lm1 : Option Int) (i0 : Int) (m0 : Bool) : Ens :=
  match lm1 with
  | some x => { left := some (x : Rat), middle := ((x : Rat) + (i0 : Rat)) / 2, right := (i0 : Rat), wf := m0,
                startL := true, startR := true }
  | none => { left := none, middle := (i0 : Rat), right := (i0 : Rat), wf := m0, startL := false, startR := true }

/-- the [k+] ensemble on interface `lam`: `(λ0, lam, λ_N)`, starts "L" -/
def ensPlus (i0 lam iN : Int) (m : Bool) : Ens :=
  { left := some (i0 : Rat), middle := (lam : Rat), right := (iN : Rat), wf := m, startL := true, startR := false }

/-- **The ensembles of an accepted configuration are the ones the moves rely on.**
    `initiate_ensembles` raises nothing, creates one ensemble per interface, and
    * [0-] is `(-inf, λ0, λ0)` starting "R", or with a λ₋₁ `(λ₋₁, (λ₋₁+λ0)/2, λ0)` starting "L" or "R",
      its move is `shooting_moves[0]`;
    * [k+] (`k = 0 … n-2`, ensemble number `k+1`) is `(λ0, λ_k, λ_N)`, starts "L", and its move is
      `shooting_moves[k+1]`. -/
theorem initEnsembles_spec (c : Cfg) (hv : Valid c) (hl : c.lm1 ≠ .absent) :
    ∃ (es : List Ens) (i0 iN : Int),
      c.interfaces.head? = some i0 ∧ c.interfaces.getLast? = some iN ∧
      initEnsembles c = .ok es ∧ es.length = c.interfaces.length ∧
      (∀ m0, c.moves[0]? = some m0 →
        (∀ x, c.lm1 = .val x → es[0]? = some (ensMinus (some x) i0 m0)) ∧
        (c.lm1 = .off → es[0]? = some (ensMinus none i0 m0))) ∧
      (∀ (k : Nat) (lam : Int) (m : Bool), k + 1 < c.interfaces.length → c.interfaces[k]? = some lam →
        c.moves[k + 1]? = some m → es[k + 1]? = some (ensPlus i0 lam iN m)) := by
  obtain ⟨i0, iN, h0, hN, _⟩ := hv.head_last
  have h2 := hv.two
  have hm := hv.moves
  obtain ⟨ei, hei, heilen⟩ := ensIntfs_ok c.interfaces c.lm1 h2
  obtain ⟨es, hes, heslen⟩ := mkEns_ok c.lm1.isVal ei c.moves 0 (by omega)
  have hinit : initEnsembles c = .ok es := by
    unfold initEnsembles
    cases hlm : c.lm1 with
    | absent => exact absurd hlm hl
    | off => simp only [hlm] at hei hes; simp only [hei, hes]
    | val x => simp only [hlm] at hei hes; simp only [hei, hes]
  have hei' := hei
  simp only [ensIntfs, h0, hN] at hei'
  injection hei' with hei'
  refine ⟨es, i0, iN, h0, hN, hinit, by omega, ?_, ?_⟩
  · intro m0 hm0
    constructor
    · intro x hx
      have := mkEns_getElem? c.lm1.isVal ei c.moves 0 es hes 0 (some (x : Rat))
        (((x : Rat) + (i0 : Rat)) / 2) (i0 : Rat) m0 (by rw [← hei', hx]; rfl) hm0
      rw [this, hx]; rfl
    · intro hoff
      have := mkEns_getElem? c.lm1.isVal ei c.moves 0 es hes 0 none (i0 : Rat) (i0 : Rat) m0
        (by rw [← hei', hoff]; rfl) hm0
      rw [this, hoff]; rfl
  · intro k lam m hk hlam hmk
    have hel : ei[k + 1]? = some (some (i0 : Rat), (lam : Rat), (iN : Rat)) := by
      rw [← hei']
      simp only [List.getElem?_cons_succ]
      cases k with
      | zero =>
        rw [head?_eq_getElem?] at h0
        rw [h0] at hlam; cases hlam
        rfl
      | succ k =>
        simp only [List.getElem?_cons_succ, List.getElem?_map, List.getElem?_dropLast,
          List.length_drop, List.getElem?_drop]
        rw [if_pos (by omega), show 1 + k = k + 1 by omega, hlam]
        rfl
    have := mkEns_getElem? c.lm1.isVal ei c.moves 0 es hes (k + 1) _ _ _ m hel hmk
    rw [this]
    simp [ensPlus]



theorem specRow_getElem? (c : Cfg) (hv : Valid c) (ops : List Int) (row : List Nat)
    (hrow : specRow c ops = some row) (k : Nat) (lam : Int) (m : Bool)
    (hk : k + 1 < c.interfaces.length) (hlam : c.interfaces[k]? = some lam) (hm : c.moves[k + 1]? = some m) :
    ∃ pmax first last i0 iN, maxOf ops = some pmax ∧ ops.head? = some first ∧ ops.getLast? = some last ∧
      c.interfaces.head? = some i0 ∧ c.interfaces.getLast? = some iN ∧
      row[k]? = some (specEntry ops i0 (rightEnd c iN) pmax first last lam m) := by
  unfold specRow at hrow
  split at hrow
  · rename_i pmax first last i0 iN hm' hf hl h0 hN
    simp only [Option.some.injEq] at hrow
    subst hrow
    refine ⟨pmax, first, last, i0, iN, hm', hf, hl, h0, hN, ?_⟩
    have hlen : c.interfaces.dropLast.length ≤ c.moves.tail.length := by
      have := hv.moves
      simp only [List.length_dropLast, List.length_tail]; omega
    have hkl : k < (specRowGo ops i0 (rightEnd c iN) pmax first last c.interfaces.dropLast c.moves.tail).length := by
      rw [specRowGo_length _ _ _ _ _ _ _ _ hlen, List.length_dropLast]; omega
    rw [List.getElem?_append_left hkl]
    apply specRowGo_getElem?
    · rw [List.getElem?_dropLast, if_pos (by omega)]; exact hlam
    · rw [List.getElem?_tail]; exact hm
  · cases hrow

/-- **Own weight of a valid initial path is not 0** (so `add_traj`'s assertion holds):
    in a shooting ensemble as soon as the path reaches its interface (`λ_k ≤` some frame, equality
    included); in a wire-fencing ensemble as soon as the first frame at or above `λ_k` lies below
    the right end (cap, or last interface) of the fence and the path ends outside `[λ_k, right end)`. -/
theorem own_weight_pos (c : Cfg) (hv : Valid c) (ops : List Int) (row : List Nat)
    (hrow : specRow c ops = some row) (k : Nat) (lam : Int) (m : Bool) (w : Nat)
    (hk : k + 1 < c.interfaces.length) (hlam : c.interfaces[k]? = some lam) (hm : c.moves[k + 1]? = some m)
    (hw : row[k]? = some w)
    (hsh : m = false → ∃ y ∈ ops, lam ≤ y)
    (hwf : m = true → ∃ pre x suf last iN, ops = pre ++ x :: suf ∧ pre ≠ [] ∧ (∀ y ∈ pre, y < lam) ∧
      c.interfaces.getLast? = some iN ∧ lam ≤ x ∧ x < rightEnd c iN ∧
      ops.getLast? = some last ∧ (last < lam ∨ rightEnd c iN ≤ last)) :
    w ≠ 0 := by
  obtain ⟨pmax, first, last, i0, iN, hmax, hf, hl, h0, hN, hent⟩ :=
    specRow_getElem? c hv ops row hrow k lam m hk hlam hm
  rw [hent] at hw
  simp only [Option.some.injEq] at hw
  subst hw
  cases m with
  | false =>
    have := (maxOf_ge_iff ops pmax lam hmax).2 (hsh rfl)
    simp [specEntry, this]
  | true =>
    obtain ⟨pre, x, suf, last', iN', hops, hpre, hbelow, hN', hx1, hx2, hl', hout⟩ := hwf rfl
    rw [hN] at hN'; cases hN'
    have hpos := specWeight_first_crossing_pos lam (rightEnd c iN) pre suf x last' hpre hbelow ⟨hx1, hx2⟩
      (by rw [← hops]; exact hl') hout
    rw [← hops] at hpos
    simp only [specEntry, if_true]
    split <;> omega

theorem specMatrix_rows (c : Cfg) (paths : List (List Int)) (h2 : 2 ≤ c.interfaces.length) :
    (specMatrix c paths).length = c.interfaces.length + 1 ∧
    (specMatrix c paths)[0]? = some (1 :: List.replicate c.interfaces.length 0) ∧
    (specMatrix c paths)[c.interfaces.length]? = some (List.replicate (c.interfaces.length + 1) 0) ∧
    ∀ k, k + 1 < c.interfaces.length → (specMatrix c paths)[k + 1]? = some (plusRowOf c paths k) := by
  obtain ⟨m, hm⟩ : ∃ m, c.interfaces.length = m + 1 := ⟨c.interfaces.length - 1, by omega⟩
  unfold specMatrix
  simp only [hm, Nat.add_sub_cancel]
  refine ⟨by simp, by simp, ?_, ?_⟩
  · rw [List.getElem?_append_right (by simp)]
    simp
  · intro k hk
    rw [List.getElem?_append_left (by simp; omega)]
    simp only [List.getElem?_cons_succ]
    rw [List.getElem?_map, List.getElem?_range' (by omega)]
    simp

/-- **Accepted configurations initialise (`setup_internal`).**  For a checked configuration and valid
    initial paths, `setup_internal` raises nothing; the ensembles are those of `initEnsembles_spec`; the cap,
    interfaces and moves handed to the workers (`md_items`) are the configured ones — the cap is the value of
    `interface_cap` whatever it is (0 included), `none` only when the key is absent; and the W matrix of the
    state holds `(1, 0, …)` for the [0-] path, `(0,) +` the demanded weight vector (`specRow`: C10's scan-free
    wire-fencing weight over `[λ_k, cap)`) for every [k+] path, and zeros for the ghost ensemble. -/
theorem setupInternalAligned_spec (c : Cfg) (h : check c = .ok ()) (hl : c.lm1 ≠ .absent)
    (paths : List (List Int)) (hp : PathsOk c paths) :
    ∃ s, setupInternalAligned c paths = .ok s ∧
      initEnsembles c = .ok s.ensembles ∧ s.ensembles.length = c.interfaces.length ∧
      s.cap = c.cap ∧ s.interfaces = c.interfaces ∧ s.moves = c.moves ∧
      s.matrix.length = c.interfaces.length + 1 ∧
      s.matrix[0]? = some (1 :: List.replicate c.interfaces.length 0) ∧
      s.matrix[c.interfaces.length]? = some (List.replicate (c.interfaces.length + 1) 0) ∧
      ∀ (k : Nat) (ops : List Int) (row : List Nat), k + 1 < c.interfaces.length →
        paths[k + 1]? = some ops → specRow c ops = some row → s.matrix[k + 1]? = some (0 :: row) := by
  have hv := accept_sound c h
  obtain ⟨es, hes, hlen⟩ := accepted_initialises c h hl
  have hload := loadPaths_eq_specMatrix c hv hl paths hp
  obtain ⟨m1, m2, m3, m4⟩ := specMatrix_rows c paths hv.two
  refine ⟨{ ensembles := es, matrix := specMatrix c paths, cap := stateCap c,
            interfaces := c.interfaces, moves := c.moves }, ?_, hes, hlen, rfl, rfl, rfl, m1, m2, m3, ?_⟩
  · simp only [setupInternalAligned, hes, hload]
  · intro k ops row hk hops hrow
    simp only [m4 k hk, plusRowOf, hops, hrow, padPlus]

/-! ### the state is sized by `[current].size`: for an accepted configuration that is the number of interfaces -/

/-- `calc_cv_vector` returns one entry per interface -/
theorem cvVector_length (ops : List Int) (intfs : List Int) (mt : List Bool) (cap : Option Int) (ws : List Nat)
    (h : cvVector ops intfs mt cap = .ok ws) : ws.length = intfs.length := by
  unfold cvVector at h
  cases hm : maxOf ops with
  | none => simp [hm] at h
  | some pmax =>
    cases h0 : intfs.head? with
    | none => simp [hm, h0] at h
    | some i0 =>
      cases hN : intfs.getLast? with
      | none => simp [hm, h0, hN] at h
      | some iN =>
        simp only [hm, h0, hN] at h
        split at h
        · simp at h
        · rename_i ws' hws
          injection h with h
          subst h
          obtain ⟨hlen, _⟩ := Infretis.C10.cvVectorGo_shape ops i0 _ pmax _ _ _ hws
          have hne : intfs ≠ [] := by intro hn; rw [hn] at h0; simp at h0
          have : 0 < intfs.length := List.length_pos_iff.2 hne
          simp only [List.length_append, List.length_singleton, hlen, List.length_dropLast]
          omega

/-- when the vector is as wide as the state, `add_traj` is the `add_traj` of the aligned model -/
theorem addTrajW_eq (n ens : Nat) (valid : List Nat) (hl : valid.length = n) :
    addTrajW n ens valid = addTraj ens valid := by
  unfold addTrajW addTraj
  cases hv : valid[ens]? with
  | none => rfl
  | some w =>
    cases w with
    | zero => rfl
    | succ k =>
      have hlt : ens < valid.length := (List.getElem?_eq_some_iff.1 hv).1
      simp only
      rw [if_neg (by omega), if_pos hl]

theorem loadPlusOneW_eq (c : Cfg) (i : Nat) (paths : List (List Int)) :
    loadPlusOneW c c.interfaces.length i paths = loadPlusOne c i paths := by
  unfold loadPlusOneW loadPlusOne
  cases paths[i + 1]? with
  | none => rfl
  | some ops =>
    cases hlm : c.lm1 with
    | absent => rfl
    | off =>
      simp only
      cases hcv : cvVector ops c.interfaces c.moves.tail (stateCap c) with
      | error e => rfl
      | ok ws =>
        simp only
        exact addTrajW_eq _ _ _ (by simp [padPlus, cvVector_length _ _ _ _ _ hcv])
    | val x =>
      simp only
      cases hcv : cvVector ops c.interfaces c.moves.tail (stateCap c) with
      | error e => rfl
      | ok ws =>
        simp only
        exact addTrajW_eq _ _ _ (by simp [padPlus, cvVector_length _ _ _ _ _ hcv])

theorem loadPlusW_eq (c : Cfg) (paths : List (List Int)) : ∀ (count start : Nat),
    loadPlusW c c.interfaces.length paths start count = loadPlus c paths start count := by
  intro count
  induction count with
  | zero => intro start; rfl
  | succ n ih =>
    intro start
    simp only [loadPlusW, loadPlus, loadPlusOneW_eq, ih]

/-- **A state written for the configured number of interfaces loads like the aligned model**: the width test
    of `add_traj` cannot fire. -/
theorem loadPathsW_eq_loadPaths (c : Cfg) (paths : List (List Int)) :
    loadPathsW c c.interfaces.length paths = loadPaths c paths := by
  unfold loadPathsW loadPaths
  simp only [loadPlusW_eq]
  cases loadPlus c paths 0 (c.interfaces.length - 1) with
  | error e => rfl
  | ok rows =>
    simp only
    cases paths[0]? with
    | none => rfl
    | some p0 =>
      simp only
      rw [addTrajW_eq _ _ _ (by simp [padMinus])]

theorem setupInternal_eq_aligned (c : Cfg) (paths : List (List Int))
    (hs : c.curSize = some c.interfaces.length) : setupInternal c paths = setupInternalAligned c paths := by
  unfold setupInternal setupInternalAligned
  simp only [hs, loadPathsW_eq_loadPaths]

/-- an accepted configuration that has a `[current]` table has it for its own number of interfaces -/
theorem accepted_size (c : Cfg) (h : check c = .ok ()) (hs : c.curSize ≠ none) :
    c.curSize = some c.interfaces.length := by
  cases hc : c.curSize with
  | none => exact absurd hc hs
  | some s => rw [(accept_sound c h).size s hc]

example : check goodR = .ok () ∧ goodR.curSize ≠ none := by decide

/-- **Accepted configurations initialise (`setup_internal`), whatever `[current]` table they came with.**
    The statement of `setupInternalAligned_spec` for the `setup_internal` that sizes the state with
    `[current].size`: no hypothesis on the size — `check_config` has tested it (/repo 971ccbc); `hs` only says
    that there is a `[current]` table at all (`setup_config` always leaves one: `accepted_starts_up` needs
    neither `hl` nor `hs`). -/
theorem setupInternal_spec (c : Cfg) (h : check c = .ok ()) (hl : c.lm1 ≠ .absent) (hs : c.curSize ≠ none)
    (paths : List (List Int)) (hp : PathsOk c paths) :
    ∃ s, setupInternal c paths = .ok s ∧
      initEnsembles c = .ok s.ensembles ∧ s.ensembles.length = c.interfaces.length ∧
      s.cap = c.cap ∧ s.interfaces = c.interfaces ∧ s.moves = c.moves ∧
      s.matrix.length = c.interfaces.length + 1 ∧
      s.matrix[0]? = some (1 :: List.replicate c.interfaces.length 0) ∧
      s.matrix[c.interfaces.length]? = some (List.replicate (c.interfaces.length + 1) 0) ∧
      ∀ (k : Nat) (ops : List Int) (row : List Nat), k + 1 < c.interfaces.length →
        paths[k + 1]? = some ops → specRow c ops = some row → s.matrix[k + 1]? = some (0 :: row) := by
  rw [setupInternal_eq_aligned c paths (accepted_size c h hs)]
  exact setupInternalAligned_spec c h hl paths hp

theorem normalise_curSize (c : Cfg) : (normalise c).curSize ≠ none := by
  simp [normalise]

theorem normalise_lm1 (c : Cfg) : (normalise c).lm1 ≠ .absent := by
  cases h : c.lm1 <;> simp [normalise, h]

/-- **The whole start-up: `setup_config` then `setup_internal`.**  Whatever `setup_config` accepts
    initialises: no error, one ensemble per interface, the configured cap / interfaces / moves in `md_items`
    (those of the input file: the defaults block does not touch them), and the demanded W matrix. -/
theorem accepted_starts_up (c0 c : Cfg) (h : setupConfig c0 = .ok c) (paths : List (List Int))
    (hp : PathsOk c paths) :
    ∃ s, startUp c0 paths = .ok s ∧ s.ensembles.length = c0.interfaces.length ∧
      s.cap = c0.cap ∧ s.interfaces = c0.interfaces ∧ s.moves = c0.moves ∧
      s.matrix.length = c0.interfaces.length + 1 ∧
      ∀ (k : Nat) (ops : List Int) (row : List Nat), k + 1 < c0.interfaces.length →
        paths[k + 1]? = some ops → specRow c ops = some row → s.matrix[k + 1]? = some (0 :: row) := by
  obtain ⟨hc, _, _⟩ := setup_accept_sound c0 c h
  have hchk : check c = .ok () := by
    unfold setupConfig at h
    cases hcc : check (normalise c0) with
    | error e => simp [hcc] at h
    | ok u => cases u; rw [hc]; exact hcc
  have hl : c.lm1 ≠ .absent := by rw [hc]; exact normalise_lm1 c0
  have hcs : c.curSize ≠ none := by rw [hc]; exact normalise_curSize c0
  obtain ⟨s, hs, _, h2, h3, h4, h5, h6, _, _, h9⟩ := setupInternal_spec c hchk hl hcs paths hp
  have hi : c.interfaces = c0.interfaces := by rw [hc]; rfl
  have hcap : c.cap = c0.cap := by rw [hc]; rfl
  have hmv : c.moves = c0.moves := by rw [hc]; rfl
  refine ⟨s, by simp only [startUp, h, hs], by rw [h2, hi], by rw [h3, hcap], by rw [h4, hi], by rw [h5, hmv],
    by rw [h6, hi], ?_⟩
  intro k ops row hk
  exact h9 k ops row (by rw [hi]; exact hk)

/-! ### concrete cases: a cap of 0 is a cap; a path that jumps over the fence -/

/-- interfaces [-4,-2,0,2] (code units doubled), wire fencing in [0+] and [1+], cap 0 — accepted -/
def capZeroWf : Cfg :=
  { good with
    interfaces := [-4, -2, 0, 4], workers := 1, moves := [false, true, true, false], cap := some 0,
    lm1 := .off, ensEngines := some [["engine"], ["engine"], ["engine"], ["engine"]], curSize := some 4 }

/-- its initial paths: [1+] goes over the cap, comes back to λ1, goes over it again and returns -/
def capZeroPaths : List (List Int) :=
  [[-4, -5, -4], [-5, -4, -3, -5], [-5, -3, -1, 1, -1, -2, -1, 1, -1, -3, -5], [-5, -3, -1, 1, 4]]

/-- **A cap of 0 is a cap.**  The accepted configuration with `interface_cap = 0` starts up with
    `md_items["cap"] = 0` and the wire-fencing weights counted over `[λ_k, 0)`; the same configuration
    without the key counts over `[λ_k, λ_N)` and gets a different matrix. -/
theorem cap_zero_is_a_cap :
    check capZeroWf = .ok () ∧
    (setupInternal capZeroWf capZeroPaths).map (fun s => (s.cap, s.matrix)) =
      .ok (some 0, [[1, 0, 0, 0, 0], [0, 2, 0, 0, 0], [0, 4, 2, 1, 0], [0, 4, 2, 1, 0], [0, 0, 0, 0, 0]]) ∧
    (setupInternal { capZeroWf with cap := none } capZeroPaths).map (fun s => (s.cap, s.matrix)) =
      .ok (none, [[1, 0, 0, 0, 0], [0, 2, 0, 0, 0], [0, 9, 7, 1, 0], [0, 6, 4, 1, 0], [0, 0, 0, 0, 0]]) := by
  decide

/-- wire fencing in [1+] of [0,2,4] without a cap; the [1+] path -1, 1, 5 crosses λ1 = 2 between two frames
    and ends right of λ2 = 4 (a valid L→R path by `Path.check_interfaces`) but has no frame inside [2, 4) -/
def jumpCfg : Cfg := { good with workers := 1, cap := none, lm1 := .off, curSize := some 3 }
def jumpPaths : List (List Int) := [[0, -1, 0], [-1, 0, -1], [-1, 1, 5]]

/-- **What `PathsOk` excludes.**  An accepted configuration with a wire-fencing ensemble and an initial
    path that steps over the whole fence `[λ_k, right end)`: its wire-fencing weight is 0 and `add_traj`'s
    `assert valid[ens] != 0` fails (AssertionError, no configuration error).  As a shooting ensemble the same
    path has weight 1 and the start-up succeeds. -/
theorem wf_jump_over_fence_witness :
    check jumpCfg = .ok () ∧ specRow jumpCfg [-1, 1, 5] = some [1, 0, 0] ∧
    setupInternal jumpCfg jumpPaths = .error .assert ∧
    (setupInternal { jumpCfg with moves := [false, false, false] } jumpPaths).map (fun s => s.matrix) =
      .ok [[1, 0, 0, 0], [0, 1, 0, 0], [0, 1, 1, 0], [0, 0, 0, 0]] := by
  decide

/-- **Invalid configurations never reach the initialisation.**  The start-up (`setup_config` then
    `setup_internal`) of a configuration whose normalised form is invalid stops with a TOMLConfigError,
    whatever the initial paths are. -/
theorem startUp_invalid_rejected (c0 : Cfg) (paths : List (List Int)) (hinv : ¬ Valid (normalise c0)) :
    startUp c0 paths = .error (.cfg .config) := by
  simp only [startUp, setup_invalid_rejected c0 hinv]

example : ¬ Valid (normalise capBelowWf) ∧ startUp capBelowWf [] = .error (.cfg .config) := by
  refine ⟨?_, by decide⟩
  intro hv
  have := hv.capRoom 1 rfl 2 2 (by decide) (by decide) (by decide) (by decide)
  omega

/-! ### non-vacuity: the hypotheses of the initialisation theorems hold on `capZeroWf` / `capZeroPaths` -/

theorem capZero_pathsOk : PathsOk capZeroWf capZeroPaths := by
  refine ⟨by decide, ?_⟩
  intro k ops hk hops
  have hk' : k < 3 := by
    have : capZeroWf.interfaces.length = 4 := by decide
    omega
  match k, hk', hops with
  | 0, _, hops =>
    have : ops = [-5, -4, -3, -5] := by simpa [capZeroPaths] using hops.symm
    subst this
    refine ⟨by decide, ?_⟩
    intro row w hrow hw
    have hs : specRow capZeroWf [-5, -4, -3, -5] = some [2, 0, 0, 0] := by decide
    rw [hs] at hrow; cases hrow
    simp at hw; omega
  | 1, _, hops =>
    have : ops = [-5, -3, -1, 1, -1, -2, -1, 1, -1, -3, -5] := by simpa [capZeroPaths] using hops.symm
    subst this
    refine ⟨by decide, ?_⟩
    intro row w hrow hw
    have hs : specRow capZeroWf [-5, -3, -1, 1, -1, -2, -1, 1, -1, -3, -5] = some [4, 2, 1, 0] := by decide
    rw [hs] at hrow; cases hrow
    simp at hw; omega
  | 2, _, hops =>
    have : ops = [-5, -3, -1, 1, 4] := by simpa [capZeroPaths] using hops.symm
    subst this
    refine ⟨by decide, ?_⟩
    intro row w hrow hw
    have hs : specRow capZeroWf [-5, -3, -1, 1, 4] = some [4, 2, 1, 0] := by decide
    rw [hs] at hrow; cases hrow
    simp at hw; omega

example : Valid capZeroWf ∧ ([-5, -3, -1, 1, 4] : List Int) ≠ [] := ⟨accept_sound _ (by decide), by decide⟩
example : Valid capZeroWf ∧ capZeroWf.lm1 ≠ .absent := ⟨accept_sound _ (by decide), by decide⟩
example : check capZeroWf = .ok () ∧ capZeroWf.lm1 ≠ .absent ∧ PathsOk capZeroWf capZeroPaths :=
  ⟨by decide, by decide, capZero_pathsOk⟩
example : setupConfig { capZeroWf with ensEngines := none, lm1 := .absent } = .ok capZeroWf ∧
    PathsOk capZeroWf capZeroPaths := ⟨by decide, capZero_pathsOk⟩
/-- `own_weight_pos`, wire-fencing case: the [1+] path's first frame at or above λ1 = -2 is -1 < cap 0 -/
example : ([-5, -3, -1, 1, 4] : List Int) = [-5, -3] ++ (-1) :: [1, 4] ∧ (∀ y ∈ ([-5, -3] : List Int), y < -2) ∧
    capZeroWf.interfaces.getLast? = some 4 ∧ (-2 : Int) ≤ -1 ∧ (-1 : Int) < rightEnd capZeroWf 4 ∧
    rightEnd capZeroWf 4 ≤ 4 ∧ capZeroWf.moves[1 + 1]? = some true ∧ capZeroWf.interfaces[1]? = some (-2) := by
  decide

end Initialise

/-! ## `setup_config` from its two files on -/

/-- **Which file is read.**  The restart file replaces the input file only when the two paths differ, it exists,
    and every top-level table of the input file equals the restart file's table of that name (a table missing in
    the restart file counts as the empty table); otherwise the input file is used. -/
theorem chooseFile_spec (inp : TomlFile) (samePath : Bool) (re : Option TomlFile) :
    (chooseFile inp samePath re = inp) ∨
    (∃ r, samePath = false ∧ re = some r ∧ chooseFile inp samePath re = r ∧
      ∀ kv ∈ inp.sections, (r.sections.lookup kv.1 = some kv.2) ∨ (r.sections.lookup kv.1 = none ∧ kv.2 = 0)) := by
  unfold chooseFile
  cases samePath with
  | true => left; rfl
  | false =>
    cases re with
    | none => left; rfl
    | some r =>
      by_cases h : sectionsEqual inp.sections r.sections = true
      · right
        refine ⟨r, rfl, rfl, by simp [h], ?_⟩
        intro kv hkv
        unfold sectionsEqual at h
        have := (List.all_eq_true.1 h) kv hkv
        cases hl : r.sections.lookup kv.1 with
        | none => right; simp [hl] at this; exact ⟨rfl, this.symm⟩
        | some v => left; simp [hl] at this; rw [this]
      · left; simp [h]

/-- a restart file the library wrote for `good`, and the input file it came from -/
def goodInput : TomlFile :=
  { sections := [("runner", 1), ("simulation", 2), ("engine", 3), ("notes", 0)], cfg := good, pattern := false,
    current := none }
def goodRestart : TomlFile :=
  { sections := [("runner", 1), ("simulation", 2), ("engine", 3), ("current", 4)], cfg := goodR, pattern := false,
    current := some { cstep := 3, restartedFrom := some 0, steps := 10, pathsPresent := true } }

example : chooseFile goodInput false (some goodRestart) = goodRestart ∧
    chooseFile { goodInput with sections := [("runner", 9)] } false (some goodRestart)
      = { goodInput with sections := [("runner", 9)] } ∧
    chooseFile goodInput true (some goodRestart) = goodInput := by decide

/-- **Whatever `setup_config` returns is valid — whichever of the two files it read —, and a fresh start gets a
    `[current]` table for exactly one path per interface**: `size = traj_num = len(interfaces)`,
    `active = 0 … size-1`, `cstep = 0` (what `REPEX_state` and `load_paths` size the W matrix with). -/
theorem setupConfigFiles_sound (inp : Option TomlFile) (samePath : Bool) (re : Option TomlFile) (o : SetupOut)
    (h : setupConfigFiles inp samePath re = .ok (some o)) :
    Valid o.cfg ∧ check o.cfg = .ok () ∧ EnginesCover o.cfg ∧
    ∃ fi, inp = some fi ∧ o.cfg = normalise (chooseFile fi samePath re).cfg ∧
      (∀ cur, o.fresh = some cur →
        (chooseFile fi samePath re).current = none ∧ cur.size = o.cfg.interfaces.length ∧
        cur.trajNum = cur.size ∧ cur.active = List.range cur.size ∧ cur.cstep = 0 ∧ o.wroteHeader = true) ∧
      (o.fresh = none → ∃ r, (chooseFile fi samePath re).current = some r ∧ o.restartedFrom = some r.cstep ∧
        o.wroteHeader = false) := by
  unfold setupConfigFiles at h
  cases inp with
  | none => simp at h
  | some fi =>
    simp only at h
    cases hs : setupFile (chooseFile fi samePath re).cfg (chooseFile fi samePath re).current with
    | error e => simp [hs] at h
    | ok oc =>
      cases oc with
      | none => simp [hs] at h
      | some c' =>
        obtain ⟨h1, h2, h3, h4⟩ := setup_config_validates_both_branches _ c' _ hs
        simp only [hs] at h
        cases hc : (chooseFile fi samePath re).current with
        | none =>
          simp only [hc, Except.ok.injEq, Option.some.injEq] at h
          subst h
          refine ⟨h3, h2, h4, fi, rfl, h1, ?_, ?_⟩
          · intro cur hcur
            simp only [Option.some.injEq] at hcur
            subst hcur
            refine ⟨hc, ?_, rfl, rfl, rfl, rfl⟩
            simp only [h1]
            rfl
          · intro hf; simp at hf
        | some r =>
          simp only [hc, Except.ok.injEq, Option.some.injEq] at h
          subst h
          refine ⟨h3, h2, h4, fi, rfl, h1, ?_, ?_⟩
          · intro cur hcur; simp at hcur
          · intro _; exact ⟨r, hc, rfl, rfl⟩

example : setupConfigFiles (some goodInput) false (some goodRestart) =
    .ok (some { cfg := goodR, fresh := none, restartedFrom := some 3, wroteHeader := false, patternFile := false }) ∧
  setupConfigFiles (some goodInput) false none =
    .ok (some { cfg := goodR, restartedFrom := none, wroteHeader := true, patternFile := false,
                fresh := some { trajNum := 3, cstep := 0, active := [0, 1, 2], size := 3, restartedFrom := none } }) := by
  decide

/-- **Invalid configurations are rejected whichever file is read**: if the normalised configuration of the file
    `setup_config` reads is invalid, it raises a TOMLConfigError — or, on the restart branch only, stops with `None`
    (nothing starts); a missing input file gives `None`. -/
theorem setupConfigFiles_invalid_rejected (fi : TomlFile) (samePath : Bool) (re : Option TomlFile)
    (hinv : ¬ Valid (normalise (chooseFile fi samePath re).cfg)) :
    setupConfigFiles (some fi) samePath re = .error .config ∨
    ((chooseFile fi samePath re).current ≠ none ∧ setupConfigFiles (some fi) samePath re = .ok none) := by
  unfold setupConfigFiles
  rcases setup_invalid_rejected_both_branches _ (chooseFile fi samePath re).current hinv with h | ⟨h1, h2⟩
  · left; simp only [h]
  · right; exact ⟨h1, by simp only [h2]⟩

example : ¬ Valid (normalise (chooseFile { goodInput with cfg := capBelowWf } false none).cfg) ∧
    setupConfigFiles (some { goodInput with cfg := capBelowWf }) false none = .error .config := by
  refine ⟨?_, by decide⟩
  intro hv
  have := hv.capRoom 1 rfl 2 2 (by decide) (by decide) (by decide) (by decide)
  omega

/-- **Re-reading a restart file is a fixed point.**  If `setup_config` returned `o`, then a restart file carrying
    `o`'s configuration (as `write_toml` writes it) and a `[current]` table that goes on is read back — directly or
    next to an input file whose tables it matches — to the very same configuration. -/
theorem restart_file_fixed_point (inp : Option TomlFile) (samePath : Bool) (re : Option TomlFile) (o : SetupOut)
    (h : setupConfigFiles inp samePath re = .ok (some o))
    (secs : List (String × Nat)) (pat : Bool) (cur : Restart)
    (hgo : cur.finished = false) (hp : cur.pathsPresent = true) :
    setupConfigFiles (some { sections := secs, cfg := o.cfg, pattern := pat, current := some cur }) true none =
      .ok (some { cfg := o.cfg, fresh := none, restartedFrom := some cur.cstep, wroteHeader := false,
                  patternFile := false }) := by
  obtain ⟨_, hchk, _, _⟩ := setupConfigFiles_sound inp samePath re o h
  obtain ⟨fi, _, hcfg, _, _⟩ := (setupConfigFiles_sound inp samePath re o h).2.2.2
  have hfix : setupConfig o.cfg = .ok o.cfg := by
    unfold setupConfig
    rw [hcfg, normalise_idempotent, ← hcfg, hchk]
  have hsf : setupFile o.cfg (some cur) = .ok (some o.cfg) := by
    simp [setupFile, hgo, hp, hfix]
  unfold setupConfigFiles
  simp only [show ∀ f : TomlFile, chooseFile f true none = f from fun _ => rfl, hsf]

example : (⟨3, some 0, 10, true⟩ : Restart).finished = false := by decide


/-! ## a restart state written for another number of interfaces (/repo commit 971ccbc)

Before the repair `check_config` did not look at the `[current]` table: a restart file whose `[current].size`
differs from the number of interfaces (an interface added to or removed from a restart file) was accepted and
`setup_internal` then raised ValueError in `load_paths` (`self.state[ens, :] = valid`: "could not broadcast
input array").  `checkAsIs` / `startUpAsIs` keep that code as a record. -/

/-- the two forms of the quantis test (b3eda5b: `is not False`, before: truthiness) differ only for λ₋₁ = 0 -/
theorem quantisTest_eq_truthy (c : Cfg) (hq : ¬ (c.quantis = some true ∧ c.lm1 = .val 0)) :
    (decide (c.quantis = some true) && c.lm1.isVal) = (decide (c.quantis = some true) && lm1Truthy c.lm1) := by
  cases hl : c.lm1 with
  | absent => simp [Lm1.isVal, lm1Truthy]
  | off => simp [Lm1.isVal, lm1Truthy]
  | val x =>
    by_cases hx : x = 0
    · subst hx
      have : ¬ c.quantis = some true := fun h => hq ⟨h, hl⟩
      simp [this]
    · simp [Lm1.isVal, lm1Truthy, hx]

/-- the later tests (971ccbc: size, a54d86e: numbers, b3eda5b: quantis with λ₋₁ = 0) are the only difference:
    where they pass, the two checks agree -/
theorem check_eq_asIs_of_size (c : Cfg) (h : sizeTest c = .ok ()) (hn : c.intfNumeric = true)
    (hq : ¬ (c.quantis = some true ∧ c.lm1 = .val 0)) :
    check c = checkAsIs c := by
  unfold check checkAsIs preCheck preCheckAsIs
  simp only [h, hn, quantisTest_eq_truthy c hq, seq, rejectIf, Bool.not_true, Bool.false_eq_true, if_false]

/-- **What 971ccbc (and, for values that are not numbers, a54d86e) changed, exactly.** The repaired
    `check_config` accepts a configuration iff the old one did, the `[current]` table (if any) was written for
    this number of interfaces, and the interfaces are numbers. -/
theorem check_ok_iff_asIs (c : Cfg) :
    check c = .ok () ↔ checkAsIs c = .ok () ∧ (∀ s, c.curSize = some s → s = c.interfaces.length) ∧
      c.intfNumeric = true ∧ ¬ (c.quantis = some true ∧ c.lm1 = .val 0) := by
  constructor
  · intro h
    have hsz := ((check_ok_iff c).1 h).pre.size
    have hn := ((check_ok_iff c).1 h).pre.numeric
    have hq : ¬ (c.quantis = some true ∧ c.lm1 = .val 0) :=
      fun ⟨h1, h2⟩ => ((check_ok_iff c).1 h).pre.noQuantisLm1 ⟨h1, 0, h2⟩
    exact ⟨by rw [← check_eq_asIs_of_size c ((sizeTest_ok_iff c).2 hsz) hn hq]; exact h, hsz, hn, hq⟩
  · rintro ⟨h, hsz, hn, hq⟩
    rw [check_eq_asIs_of_size c ((sizeTest_ok_iff c).2 hsz) hn hq]; exact h

example : checkAsIs goodR = .ok () ∧ (∀ s, goodR.curSize = some s → s = goodR.interfaces.length) ∧
    goodR.intfNumeric = true ∧ ¬ (goodR.quantis = some true ∧ goodR.lm1 = .val 0) :=
  (check_ok_iff_asIs goodR).1 (by decide)

/-! ### quantis together with λ₋₁ = 0.0 (/repo commit b3eda5b) -/

/-- where the combination quantis ∧ λ₋₁ = 0 does not occur, the test of b3eda5b changes nothing -/
theorem check_eq_truthyLm1 (c : Cfg) (hq : ¬ (c.quantis = some true ∧ c.lm1 = .val 0)) :
    check c = checkTruthyLm1 c := by
  unfold check checkTruthyLm1 preCheck preCheckTruthyLm1
  simp only [quantisTest_eq_truthy c hq]

/-- **Quantis together with any λ₋₁ — 0.0 included — is rejected with a TOMLConfigError.** -/
theorem quantis_with_lm1_rejected (c : Cfg) (hq : c.quantis = some true) (x : Int) (hl : c.lm1 = .val x)
    (hne : c.ensEngines ≠ none) : check c = .error .config := by
  cases h : check c with
  | ok u => cases u; exact absurd ⟨hq, x, hl⟩ ((check_ok_iff c).1 h).pre.noQuantisLm1
  | error e =>
    unfold check at h
    rw [seq_error_iff] at h
    rcases h with h | ⟨hp, _⟩
    · rw [preCheck_error c e hne h]
    · exact absurd ⟨hq, x, hl⟩ ((preCheck_ok_iff c).1 hp).noQuantisLm1

/-- interfaces [2, 4, 6], quantis on, λ₋₁ = 0.0 (below the first interface: a legal value) -/
def quantisLm1Zero : Cfg :=
  { good with
    interfaces := [2, 4, 6], workers := 1, moves := [false, false, false], cap := none, lm1 := .val 0,
    quantis := some true, ensEngines := some [["engine"], ["engine"], ["engine"]] }

/-- **The defect b3eda5b repaired (record).**  `if quantis and lambda_minus_one:` read the legal value
    λ₋₁ = 0.0 as "no λ₋₁": the old `check_config` accepted quantis together with it; the repaired one rejects
    the combination with a TOMLConfigError, as for every other λ₋₁. -/
theorem quantis_lm1_zero_asIs_counterexample :
    checkTruthyLm1 quantisLm1Zero = .ok () ∧ check quantisLm1Zero = .error .config ∧
    checkTruthyLm1 { quantisLm1Zero with lm1 := .val (-1) } = .error .config ∧
    check { quantisLm1Zero with lm1 := .off } = .ok () := by decide

example : quantisLm1Zero.quantis = some true ∧ quantisLm1Zero.lm1 = .val 0 ∧ quantisLm1Zero.ensEngines ≠ none := by
  decide

/-! ### interfaces that are not numbers (/repo commit a54d86e) -/

/-- where the interfaces are numbers the test of a54d86e changes nothing -/
theorem check_eq_noNumericTest (c : Cfg) (hn : c.intfNumeric = true)
    (hq : ¬ (c.quantis = some true ∧ c.lm1 = .val 0)) : check c = checkNoNumericTest c := by
  unfold check checkNoNumericTest preCheck preCheckNoNumericTest
  simp only [hn, quantisTest_eq_truthy c hq, seq, rejectIf, Bool.not_true, Bool.false_eq_true, if_false]

/-- **Interfaces that are not numbers are rejected with a TOMLConfigError** — whatever else the configuration
    says (at least two entries: fewer are rejected by the first test, also with a TOMLConfigError). -/
theorem nonnumeric_rejected (c : Cfg) (hn : c.intfNumeric = false) : check c = .error .config := by
  unfold check preCheck
  by_cases h2 : ((c.interfaces.length : Int) < 2)
  · simp [seq, rejectIf, h2]
  · simp [seq, rejectIf, h2, hn]

/-- `interfaces = ["0", "1"]` (order codes 0 < 1), all shooting, no cap, no λ₋₁ -/
def stringInterfaces : Cfg :=
  { good with
    interfaces := [0, 1], workers := 1, moves := [false, false], cap := none, lm1 := .off,
    ensEngines := some [["engine"], ["engine"]], intfNumeric := false }

/-- **The defect a54d86e repaired (record).**  Strings sort and compare among themselves: the old
    `check_config` accepted `interfaces = ["0", "1"]` (then `load_paths` compared a string with the path's
    order values: TypeError, outside this model); the repaired one rejects it with a TOMLConfigError. -/
theorem string_interfaces_asIs_counterexample :
    checkNoNumericTest stringInterfaces = .ok () ∧ ¬ Valid stringInterfaces ∧
    check stringInterfaces = .error .config := by
  refine ⟨by decide, ?_, by decide⟩
  intro hv
  have := hv.numeric
  simp [stringInterfaces] at this

example : stringInterfaces.intfNumeric = false ∧ check { stringInterfaces with intfNumeric := true } = .ok () := by
  decide

/-- interfaces [0, 2, 4, 6], all shooting, in a restart file whose `[current]` table was written for 3 interfaces -/
def sizeMismatch : Cfg :=
  { good with
    interfaces := [0, 2, 4, 6], workers := 1, moves := [false, false, false, false], cap := none, lm1 := .off,
    ensEngines := some [["engine"], ["engine"], ["engine"], ["engine"]], curSize := some 3 }

/-- valid initial paths for the four ensembles of `sizeMismatch` -/
def sizeMismatchPaths : List (List Int) :=
  [[0, -1, 0], [-1, 0, -1], [-1, 0, 1, 2, 1, 0, -1], [-1, 0, 1, 2, 3, 4, 3, 2, 1, 0, -1]]

/-- **The defect 971ccbc repaired (record).**  The old `check_config` accepted the restart configuration
    `sizeMismatch` — every other clause of the property's list holds — and the start-up then failed with
    ValueError in `load_paths`: an accepted configuration that does not initialise.  The repaired
    `check_config` rejects it with a TOMLConfigError before anything starts; with a `[current]` table written for
    4 interfaces the same configuration is accepted and starts up. -/
theorem restart_size_mismatch_asIs_counterexample :
    checkAsIs sizeMismatch = .ok () ∧
    startUpAsIs sizeMismatch sizeMismatchPaths = .error .value ∧
    check sizeMismatch = .error .config ∧
    startUp sizeMismatch sizeMismatchPaths = .error (.cfg .config) ∧
    ¬ Valid sizeMismatch ∧
    check { sizeMismatch with curSize := some 4 } = .ok () ∧
    (startUp { sizeMismatch with curSize := some 4 } sizeMismatchPaths).map (fun s => s.matrix) =
      .ok [[1, 0, 0, 0, 0], [0, 1, 0, 0, 0], [0, 1, 1, 0, 0], [0, 1, 1, 1, 0], [0, 0, 0, 0, 0]] := by
  refine ⟨by decide, by decide, by decide, by decide, ?_, by decide, by decide⟩
  intro hv
  have := hv.size 3 rfl
  simp [sizeMismatch] at this

/-- the other direction of the mismatch: a `[current]` table written for more interfaces than are defined -/
example : checkAsIs { good with curSize := some 5 } = .ok () ∧
    startUpAsIs { good with curSize := some 5, cap := none, moves := [false, false, false], lm1 := .off }
      [[0, -1, 0], [-1, 0, -1], [-1, 0, 1, 2, 1, 0, -1]] = .error .value ∧
    check { good with curSize := some 5 } = .error .config := by decide

/-- **A restart that is accepted starts up.**  Whatever `setup_config` returns on either branch — in particular
    from a restart file with its own `[current]` table — initialises with valid initial paths: the size of the
    restart state is no longer a separate assumption, it follows from acceptance. -/
theorem restart_accepted_starts_up (c c' : Cfg) (r : Option Restart) (h : setupFile c r = .ok (some c'))
    (paths : List (List Int)) (hp : PathsOk c' paths) :
    c'.curSize = some c'.interfaces.length ∧
    ∃ s, setupInternal c' paths = .ok s ∧ s.ensembles.length = c'.interfaces.length ∧
      s.cap = c'.cap ∧ s.interfaces = c'.interfaces ∧ s.moves = c'.moves ∧
      s.matrix.length = c'.interfaces.length + 1 ∧
      ∀ (k : Nat) (ops : List Int) (row : List Nat), k + 1 < c'.interfaces.length →
        paths[k + 1]? = some ops → specRow c' ops = some row → s.matrix[k + 1]? = some (0 :: row) := by
  obtain ⟨hn, hchk, _, _⟩ := setup_config_validates_both_branches c c' r h
  have hl : c'.lm1 ≠ .absent := by rw [hn]; exact normalise_lm1 c
  have hcs : c'.curSize ≠ none := by rw [hn]; exact normalise_curSize c
  obtain ⟨s, hs, _, h2, h3, h4, h5, h6, _, _, h9⟩ := setupInternal_spec c' hchk hl hcs paths hp
  exact ⟨accepted_size c' hchk hcs, s, hs, h2, h3, h4, h5, h6, h9⟩

example : setupFile capZeroWf (some { cstep := 3, restartedFrom := some 0, steps := 10, pathsPresent := true })
      = .ok (some capZeroWf) ∧ PathsOk capZeroWf capZeroPaths := ⟨by decide, capZero_pathsOk⟩

/-- **Re-reading a restart file is a fixed point, `output.pattern_file` included.**  `restart_file_fixed_point`
    for a restart file that carries the key `output.pattern_file` (a run with `output.pattern`): the key is
    handed on as it is. -/
theorem restart_file_fixed_point_pattern (inp : Option TomlFile) (samePath : Bool) (re : Option TomlFile)
    (o : SetupOut) (h : setupConfigFiles inp samePath re = .ok (some o))
    (secs : List (String × Nat)) (pat pf : Bool) (cur : Restart)
    (hgo : cur.finished = false) (hp : cur.pathsPresent = true) :
    setupConfigFiles (some { sections := secs, cfg := o.cfg, pattern := pat, current := some cur,
                             hasPatternFile := pf }) true none =
      .ok (some { cfg := o.cfg, fresh := none, restartedFrom := some cur.cstep, wroteHeader := false,
                  patternFile := pf }) := by
  obtain ⟨_, hchk, _, _⟩ := setupConfigFiles_sound inp samePath re o h
  obtain ⟨fi, _, hcfg, _, _⟩ := (setupConfigFiles_sound inp samePath re o h).2.2.2
  have hfix : setupConfig o.cfg = .ok o.cfg := by
    unfold setupConfig
    rw [hcfg, normalise_idempotent, ← hcfg, hchk]
  have hsf : setupFile o.cfg (some cur) = .ok (some o.cfg) := by
    simp [setupFile, hgo, hp, hfix]
  unfold setupConfigFiles
  simp only [show ∀ f : TomlFile, chooseFile f true none = f from fun _ => rfl, hsf]

/-- a fresh start with `output.pattern` sets the key; the restart file written afterwards carries it and hands it on -/
example : (setupConfigFiles (some { goodInput with pattern := true }) false none).map (fun o => o.map (·.patternFile))
      = .ok (some true) ∧
    setupConfigFiles (some { goodRestart with pattern := true, hasPatternFile := true }) true none =
      .ok (some { cfg := goodR, fresh := none, restartedFrom := some 3, wroteHeader := false, patternFile := true }) := by
  decide

/-! ## engine instances (`create_engines`) -/

/-- **Every engine an accepted configuration refers to gets its instances.**  `create_engines` raises nothing
    and gives every engine name referenced by an ensemble `min(number of ensembles naming it, workers)` occupation
    slots — at least one as soon as there is a worker, never more than the workers. -/
theorem engineOcc_spec (c : Cfg) (h : check c = .ok ()) :
    ∃ occ, engineOcc c = .ok occ ∧
      ∀ ee, c.ensEngines = some ee → ∀ names ∈ ee, ∀ e ∈ names,
        ∃ n k, 1 ≤ n ∧ (engineCount ee).lookup e = some n ∧ occ.lookup e = some k ∧
          (k : Int) = max 0 (min (n : Int) c.workers) ∧ (1 ≤ c.workers → 1 ≤ k) := by
  have hv := accept_sound c h
  obtain ⟨ee, hee, hdef⟩ := hv.engines
  have hall : ∀ k n, (k, n) ∈ engineCount ee → (c.engines.lookup k).isSome = true := by
    intro k n hk
    obtain ⟨names, hn, hkn⟩ := engineCount_keys ee k n hk
    exact hdef names hn k hkn
  refine ⟨_, by simp only [engineOcc, hee]; exact occGo_ok c _ hall, ?_⟩
  intro ee' hee' names hn e he
  rw [hee] at hee'; cases hee'
  obtain ⟨n, hn1, hl⟩ := engineCount_lookup ee names e hn he
  refine ⟨n, (min (n : Int) c.workers).toNat, hn1, hl, ?_, ?_, ?_⟩
  · rw [lookup_map_snd (fun m => (min (m : Int) c.workers).toNat), hl]; rfl
  · omega
  · intro hw; omega

example : check good = .ok () ∧ engineOcc good = .ok [("engine", 2)] ∧
    engineOcc { good with workers := 0 } = .ok [("engine", 0)] := by decide


end Infretis.C18
